--------------------------- MODULE MCConditional ---------------------------
(* Bounded universe for C11 and the implementation-shaped decision model.                      *)
(* Every state is one (request, representation) pair whose header TEXTS are generated from a   *)
(* small grammar; ImplObs is the outcome of the decision procedure written like the code       *)
(* (make_conditional -> _process_range_request -> is_resource_modified, parse_range_header,    *)
(* Range.range_for_length) on the spec's own parse of the texts.  TLC checks                   *)
(* Verdict(req, rep, ImplObs) = "ok" for the whole product.  Defects = the code as it was:     *)
(*   "im_star"   If-Match compared with is_strong (a "*" admits nothing)                       *)
(*   "suffix0"   "-0" read as "0-"                                                             *)
(*   "oversuffix" a suffix longer than the resource is unsatisfiable                           *)
(*   "ifr_weak"  If-Range compares opaque tags only (weakness dropped)                         *)
(*   "range_first" a Range header is processed before the validators (206 where a 304 is due) *)
(* and three more broken variants used for non-vacuity (never in the code):                    *)
(*   "ims_lt" (date must be strictly later), "no_prec" (If-Modified-Since can override a       *)
(*   failed If-None-Match), "off_by_one" (stop = last instead of last + 1).                    *)
EXTENDS Conditional, TLC, Json

CONSTANTS Defects, MaxLen, Family, Methods

\* last-modified of the representation: 2024-02-29 23:59:58 UTC (+ microseconds)
LM(us) == <<2024, 2, 29, 23, 59, 58, us>>
\* date texts relative to it:
\*   1: before       Thu, 29 Feb 2024 23:59:57 GMT
\*   2: equal        Thu, 29 Feb 2024 23:59:58 GMT
\*   3: after        Thu, 29 Feb 2024 23:59:59 GMT
\*   4: equal_zone   Fri, 01 Mar 2024 00:59:58 +0100
\*   5: before_zone  Thu, 29 Feb 2024 18:29:57 -0530
\*   6: dayafter     Sat, 02 Mar 2024 14:04:58 +1405
DateTexts ==
 <<<<84, 104, 117, 44, 32, 50, 57, 32, 70, 101, 98, 32, 50, 48, 50, 52, 32, 50, 51, 58, 53, 57, 58, 53, 55, 32, 71, 77, 84>>,
   <<84, 104, 117, 44, 32, 50, 57, 32, 70, 101, 98, 32, 50, 48, 50, 52, 32, 50, 51, 58, 53, 57, 58, 53, 56, 32, 71, 77, 84>>,
   <<84, 104, 117, 44, 32, 50, 57, 32, 70, 101, 98, 32, 50, 48, 50, 52, 32, 50, 51, 58, 53, 57, 58, 53, 57, 32, 71, 77, 84>>,
   <<70, 114, 105, 44, 32, 48, 49, 32, 77, 97, 114, 32, 50, 48, 50, 52, 32, 48, 48, 58, 53, 57, 58, 53, 56, 32, 43, 48, 49, 48, 48>>,
   <<84, 104, 117, 44, 32, 50, 57, 32, 70, 101, 98, 32, 50, 48, 50, 52, 32, 49, 56, 58, 50, 57, 58, 53, 55, 32, 45, 48, 53, 51, 48>>,
   <<83, 97, 116, 44, 32, 48, 50, 32, 77, 97, 114, 32, 50, 48, 50, 52, 32, 49, 52, 58, 48, 52, 58, 53, 56, 32, 43, 49, 52, 48, 53>>>>
GarbageDate == <<121, 101, 115, 116, 101, 114, 100, 97, 121>>

T(opaque, weak) == (IF weak THEN <<87, 47>> ELSE <<>>) \o <<DQ>> \o opaque \o <<DQ>>
A == <<97>>
B == <<98>>
AB == <<97, COMMA, 98>>          \* an opaque tag that contains a comma
Single == {T(A, FALSE), T(A, TRUE), T(B, FALSE), T(B, TRUE), T(AB, FALSE), T(<<97, 97>>, FALSE)}
Seps == {<<COMMA>>, <<COMMA, SP>>, <<SP, COMMA, TAB>>}
TagTexts == {<<STAR>>} \cup Single \cup {x \o s \o y : x \in {T(B, FALSE), T(B, TRUE)}, s \in Seps, y \in {T(A, FALSE), T(A, TRUE), T(AB, TRUE)}}
            \cup {T(A, FALSE) \o <<COMMA>>}
GarbageTags == {A, <<DQ, 97>>, <<87, 47>>, <<119, 47, DQ, 97, DQ>>, <<COMMA>>}

Etags == {[p |-> FALSE, o |-> <<>>, w |-> FALSE], [p |-> TRUE, o |-> A, w |-> FALSE], [p |-> TRUE, o |-> A, w |-> TRUE],
          [p |-> TRUE, o |-> AB, w |-> FALSE]}
Lms == {[p |-> FALSE, us |-> 0], [p |-> TRUE, us |-> 0], [p |-> TRUE, us |-> 999999]}

Hdr(p, t) == [p |-> p, t |-> t]
Absent == Hdr(FALSE, <<>>)
ImsChoices == {Absent, Hdr(TRUE, GarbageDate)} \cup {Hdr(TRUE, DateTexts[i]) : i \in 1..Len(DateTexts)}

Num == {<<48>>, <<49>>, <<50>>, <<52>>, <<57>>, <<48, 49>>}
Specs == {a \o <<DASH>> \o b : a \in Num, b \in Num} \cup {a \o <<DASH>> : a \in Num} \cup {<<DASH>> \o a : a \in Num}
BYTES == <<98, 121, 116, 101, 115>>
RangeTexts ==
  {BYTES \o <<EQ>> \o s : s \in Specs}
  \cup {BYTES \o <<EQ>> \o s \o <<COMMA>> \o u : s \in {<<48, DASH, 48>>, <<DASH, 49>>, <<49, DASH>>}, u \in {<<50, DASH, 50>>, <<SP, 52, DASH>>, <<DASH, 50>>}}
  \cup {<<66, 89, 84, 69, 83>> \o <<EQ>> \o <<49, DASH>>, <<105, 116, 101, 109, 115>> \o <<EQ>> \o <<49, DASH, 50>>,
        BYTES, BYTES \o <<EQ>>, BYTES \o <<EQ, 97, DASH>>, BYTES \o <<EQ, 49, DASH, 50, DASH, 51>>, BYTES \o <<EQ, 49>>,
        BYTES \o <<EQ, DASH, DASH, 49>>, BYTES \o <<EQ, PLUSC, 49, DASH>>, <<EQ, 48, DASH>>, <<>>,
        BYTES \o <<SP, EQ, SP, 49, DASH, 50>>, BYTES \o <<EQ, 49, SP, DASH, SP, 50>>, BYTES \o <<EQ, 49, DASH, 50, COMMA>>,
        BYTES \o <<EQ, 49, 48, 48, 48, 48, 48, 48, 48, 48, 48, 48, 48, DASH>>, BYTES \o <<EQ, DASH, 49, 48, 48, 48, 48, 48, 48, 48, 48, 48, 48, 48>>}
IfrChoices == {Absent} \cup {Hdr(TRUE, t) : t \in {T(A, FALSE), T(A, TRUE), T(B, FALSE), T(AB, FALSE)}}
              \cup {Hdr(TRUE, DateTexts[i]) : i \in {1, 2, 3, 4}}

VARIABLES req, rep
vars == <<req, rep>>

MkReq(m, inm, im, ims, ifr, rg) ==
  [method |-> m, inm_p |-> inm.p, inm |-> inm.t, im_p |-> im.p, im |-> im.t, ims_p |-> ims.p, ims |-> ims.t,
   ifr_p |-> ifr.p, ifr |-> ifr.t, range_p |-> rg.p, range |-> rg.t]
MkRep(e, lm, n) == [etag_p |-> e.p, etag_opaque |-> e.o, etag_weak |-> e.w, lm_p |-> lm.p, lm |-> LM(lm.us), length |-> n, len_known |-> TRUE]

ValidatorInit ==
  \E m \in Methods, e \in Etags, lm \in Lms, ims \in ImsChoices :
    \E c \in {<<Absent, Absent>>} \cup {<<Hdr(TRUE, t), Absent>> : t \in TagTexts \cup GarbageTags}
             \cup (IF e.p THEN {<<Absent, Hdr(TRUE, t)>> : t \in TagTexts \cup GarbageTags} ELSE {}) :
      /\ req = MkReq(m, c[1], c[2], ims, Absent, Absent)
      /\ rep = MkRep(e, lm, 3)
RangeInit ==
  \E m \in Methods, e \in Etags, lm \in Lms, ifr \in IfrChoices, n \in 0..MaxLen :
    \E rg \in {Absent} \cup {Hdr(TRUE, t) : t \in RangeTexts} :
      /\ req = MkReq(m, Absent, Absent, Absent, ifr, rg)
      /\ rep = MkRep(e, lm, n)
RangeTextsSmall ==
  {BYTES \o <<EQ>> \o s : s \in {<<48, DASH, 48>>, <<49, DASH>>, <<DASH, 49>>, <<57, DASH>>, <<DASH, 48>>, <<48, DASH, 57>>, <<DASH, 57>>,
                                 <<48, DASH, 48, COMMA, 50, DASH, 50>>, <<97, DASH>>}}
  \cup {<<105, 116, 101, 109, 115>> \o <<EQ>> \o <<49, DASH, 50>>, BYTES}
RangeCondInit ==
  \E m \in Methods, e \in Etags, lm \in Lms, n \in 0..MaxLen, rg \in RangeTextsSmall :
    \E ims \in {Absent} \cup {Hdr(TRUE, DateTexts[i]) : i \in {1, 2, 3, 4}} :
    \E c \in {<<Absent, Absent>>} \cup {<<Hdr(TRUE, t), Absent>> : t \in {<<STAR>>, T(A, FALSE), T(A, TRUE), T(B, FALSE), T(AB, FALSE), A}}
             \cup (IF e.p THEN {<<Absent, Hdr(TRUE, t)>> : t \in {<<STAR>>, T(A, FALSE), T(B, FALSE)}} ELSE {}) :
      /\ c[1].p \/ c[2].p \/ ims.p
      /\ req = MkReq(m, c[1], c[2], ims, Absent, Hdr(TRUE, rg))
      /\ rep = MkRep(e, lm, n)
Init == IF Family = "validators" THEN ValidatorInit ELSE IF Family = "rangecond" THEN RangeCondInit ELSE RangeInit
NoNext == FALSE /\ UNCHANGED vars

\* ---------------------------------------------------------------- the decision procedure, written like the code
D(x) == x \in Defects

\* is_resource_modified(environ, etag, last_modified, ignore_if_range)
ImplUnmodified(withIfRange) ==
  LET useIfr == withIfRange /\ req.range_p /\ req.ifr_p
      ifrDate == ParseDate(req.ifr)
      since == IF useIfr /\ ifrDate.ok THEN ifrDate ELSE ParseDate(req.ims)
      sinceP == IF useIfr /\ ifrDate.ok THEN TRUE ELSE req.ims_p
      lmI == LmInstant(rep.lm)
      byDate == sinceP /\ since.ok /\ rep.lm_p
                /\ (IF D("ims_lt") THEN Leq(lmI, since) /\ ~Same(lmI, since) ELSE Leq(lmI, since))
  IN IF ~rep.etag_p THEN byDate
     ELSE IF useIfr /\ ~ifrDate.ok THEN
          (LET s == Strip(req.ifr)
               t == IF s = <<>> THEN [ok |-> FALSE, weak |-> FALSE, opaque |-> <<>>, next |-> 1] ELSE TagAt(s, 1) IN
           t.ok /\ t.next = Len(s) + 1 /\ t.opaque = rep.etag_opaque /\ (D("ifr_weak") \/ ~(t.weak \/ rep.etag_weak)))
     ELSE LET inm == ParseTags(req.inm) im == ParseTags(req.im)
              u1 == IF req.inm_p /\ inm.kind # "bad" THEN (IF D("no_prec") THEN byDate \/ WeakMatch(inm, rep.etag_opaque)
                                                                 ELSE WeakMatch(inm, rep.etag_opaque))
                    ELSE byDate
          IN IF req.im_p
             THEN ~(IF D("im_star") THEN im.kind = "list" /\ <<FALSE, rep.etag_opaque>> \in im.tags
                    ELSE im.kind = "star" \/ (im.kind = "list" /\ <<FALSE, rep.etag_opaque>> \in im.tags))
             ELSE u1

\* parse_range_header + Range.range_for_length: <<lo, hi>> or <<0, 0>>
ImplRange ==
  LET pr == ParseRange(req.range) IN
  IF pr.class # "single" THEN <<0, 0>>
  ELSE LET sp == pr.specs[1] n == rep.length IN
       IF sp.kind = "s" THEN (IF sp.a = 0 THEN (IF D("suffix0") THEN <<0, n>> ELSE <<0, 0>>)
                              ELSE IF sp.a > n THEN (IF D("oversuffix") THEN <<0, 0>> ELSE <<0, n>>)
                              ELSE <<n - sp.a, n>>)
       ELSE IF sp.a >= n THEN <<0, 0>>
       ELSE IF sp.kind = "f" THEN <<sp.a, n>>
       ELSE <<sp.a, Min2(IF D("off_by_one") THEN sp.b ELSE sp.b + 1, n)>>

Obs(status, cr, cl, body) == [status |-> status, exc |-> IF status = 416 THEN "RequestedRangeNotSatisfiable" ELSE "",
                              cr_n |-> IF cr = <<>> THEN 0 ELSE 1, cr |-> cr, cl_n |-> IF cl = <<>> THEN 0 ELSE 1, cl |-> cl, body |-> body]
FullObs(status) == Obs(status, <<>>, DigitsOf(rep.length), IF req.method = "HEAD" \/ status = 304 THEN <<>> ELSE DataSlice(0, rep.length))

ImplObs ==
  IF ~(req.method \in {"GET", "HEAD"}) THEN FullObs(200)
  ELSE LET processable == (~req.ifr_p \/ ImplUnmodified(TRUE)) /\ req.range_p IN
       IF ~D("range_first") /\ ImplUnmodified(FALSE) THEN FullObs(IF req.im_p /\ req.im # <<>> THEN 412 ELSE 304)
       ELSE IF rep.length # 0 /\ processable
       THEN LET iv == ImplRange IN
            IF iv[1] >= iv[2] THEN Obs(416, <<>>, <<>>, <<>>)
            ELSE Obs(206, <<98, 121, 116, 101, 115, 32>> \o DigitsOf(iv[1]) \o <<DASH>> \o DigitsOf(iv[2] - 1) \o <<47>> \o DigitsOf(rep.length),
                     DigitsOf(iv[2] - iv[1]), IF req.method = "HEAD" THEN <<>> ELSE DataSlice(iv[1], iv[2]))
       ELSE IF ImplUnmodified(FALSE) THEN FullObs(IF req.im_p /\ req.im # <<>> THEN 412 ELSE 304)
       ELSE FullObs(200)

TheVerdict == IF Family = "rangecond" THEN VerdictRC(req, rep, ImplObs) ELSE Verdict(req, rep, ImplObs)
ImplMeetsContract == IF TheVerdict = "ok" THEN TRUE ELSE PrintT(<<"clause", TheVerdict, req, rep, ImplObs>>) /\ FALSE
UniverseInDomain == IF Family = "rangecond" THEN InDomainRC(req, rep) ELSE InDomain(req, rep)
\* the spec's own parsers on the universe: dates parse, tag lists are well formed, garbage is garbage
ParsersOK == /\ \A i \in 1..Len(DateTexts) : ParseDate(DateTexts[i]).ok
             /\ ~ParseDate(GarbageDate).ok
             /\ \A t \in TagTexts : ParseTags(t).kind # "bad"
             /\ \A t \in GarbageTags : ParseTags(t).kind = "bad"
             /\ Same(ParseDate(DateTexts[2]), LmInstant(LM(0))) /\ Same(ParseDate(DateTexts[4]), LmInstant(LM(5)))
             /\ Leq(ParseDate(DateTexts[1]), ParseDate(DateTexts[2])) /\ ~Leq(ParseDate(DateTexts[3]), ParseDate(DateTexts[2]))
             /\ Same(ParseDate(DateTexts[5]), ParseDate(DateTexts[1]))
             /\ ParseDate(DateTexts[6]).day = ParseDate(DateTexts[2]).day + 1

Export == PrintT(ToJson([req |-> req, rep |-> rep, exp |-> ImplObs.status]))
=============================================================================
