CONSTANTS
  MaxLen = 4
  MaxBlock = 2
  Variant = "orig"
  EmptyBlocks = TRUE
INIT Init
NEXT Next
CHECK_DEADLOCK FALSE
INVARIANT PrefixOK
INVARIANT DoneOK
INVARIANT Terminates
