CONSTANTS
  Defects = {}
  MaxLen = 3
  Family = "rangecond"
  Methods = {"GET", "HEAD", "POST"}
INIT Init
NEXT NoNext
CHECK_DEADLOCK FALSE
INVARIANT Export
