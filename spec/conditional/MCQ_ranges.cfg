CONSTANTS
  Defects = {}
  MaxLen = 2
  Family = "ranges"
  Methods = {"GET", "POST"}
INIT Init
NEXT NoNext
CHECK_DEADLOCK FALSE
INVARIANT UniverseInDomain
INVARIANT ParsersOK
INVARIANT ImplMeetsContract
