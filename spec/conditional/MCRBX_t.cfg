CONSTANTS
  MaxLen = 6
  MaxBlock = 4
  Variant = "fixed"
  EmptyBlocks = TRUE
INIT Init
NEXT NoNext
CHECK_DEADLOCK FALSE
INVARIANT ExportCase
