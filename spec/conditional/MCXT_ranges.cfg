CONSTANTS
  Defects = {}
  MaxLen = 3
  Family = "ranges"
  Methods = {"GET", "HEAD", "POST"}
INIT Init
NEXT NoNext
CHECK_DEADLOCK FALSE
INVARIANT Export
