CONSTANTS
  Defects = {"off_by_one"}
  MaxLen = 3
  Family = "ranges"
  Methods = {"GET"}
INIT Init
NEXT NoNext
CHECK_DEADLOCK FALSE
INVARIANT UniverseInDomain
INVARIANT ParsersOK
INVARIANT ImplMeetsContract
