CONSTANTS
  Defects = {}
  MaxLen = 3
  Family = "validators"
  Methods = {"GET"}
INIT Init
NEXT NoNext
CHECK_DEADLOCK FALSE
INVARIANT Export
