---------------------------- MODULE Conditional ----------------------------
(* C11 -- conditional and range responses (RFC 7232 / 7233 as stated in the property).      *)
(* Everything is computed from header TEXTS (sequences of code points) with the spec's own   *)
(* parsers.  A request is a record                                                            *)
(*   [method, inm_p, inm, im_p, im, ims_p, ims, ifr_p, ifr, range_p, range]                   *)
(* (x_p: header present, x: its text), a representation                                       *)
(*   [etag_p, etag_opaque, etag_weak, lm_p, lm = <<Y, M, D, h, m, s, microsecond>>, length,   *)
(*    len_known (FALSE: the server cannot know the length, e.g. send_file over a pipe)].      *)
(* The contract is the operator Verdict(req, rep, obs) near the end: it names the violated    *)
(* clause of the property or "ok".  Where RFC / documentation leave a choice, every           *)
(* documented outcome is accepted (see the comments at May304 / RangeClass).                  *)
EXTENDS Naturals, Integers, Sequences, FiniteSets, Bytes

DQ == 34
COMMA == 44
STAR == 42
EQ == 61
PLUSC == 43
COLON == 58
Cap == 1000000000          \* numbers with more than 9 significant digits are "huge" (TLC ints are 32 bit)

IsWS(c) == c = SP \/ c = TAB
IsDigit(c) == c >= 48 /\ c <= 57
IsAlpha(c) == (c >= 65 /\ c <= 90) \/ (c >= 97 /\ c <= 122)
LowerC(c) == IF c >= 65 /\ c <= 90 THEN c + 32 ELSE c
Lower(s) == [i \in 1..Len(s) |-> LowerC(s[i])]

RECURSIVE LStrip(_)
LStrip(s) == IF s # <<>> /\ IsWS(Head(s)) THEN LStrip(Tail(s)) ELSE s
RECURSIVE RStrip(_)
RStrip(s) == IF s # <<>> /\ IsWS(s[Len(s)]) THEN RStrip(SubSeq(s, 1, Len(s) - 1)) ELSE s
Strip(s) == RStrip(LStrip(s))
NoWS(s) == SelectSeq(s, LAMBDA c : ~IsWS(c))

RECURSIVE SplitAt(_, _, _)
SplitAt(s, sep, cur) == IF s = <<>> THEN <<cur>>
                        ELSE IF Head(s) = sep THEN <<cur>> \o SplitAt(Tail(s), sep, <<>>)
                        ELSE SplitAt(Tail(s), sep, Append(cur, Head(s)))

IndexOf(s, c) == LET H == {i \in 1..Len(s) : s[i] = c} IN IF H = {} THEN 0 ELSE CHOOSE i \in H : \A j \in H : i <= j

AllDigits(s) == s # <<>> /\ \A i \in 1..Len(s) : IsDigit(s[i])
RECURSIVE DropZeros(_)
DropZeros(s) == IF Len(s) > 1 /\ Head(s) = 48 THEN DropZeros(Tail(s)) ELSE s
RECURSIVE NatOf(_, _)
NatOf(s, acc) == IF s = <<>> THEN acc ELSE NatOf(Tail(s), acc * 10 + (Head(s) - 48))
\* value of a digit string, capped
NatVal(s) == LET z == DropZeros(s) IN IF Len(z) > 9 THEN Cap ELSE NatOf(z, 0)
RECURSIVE DigitsOf(_)
DigitsOf(n) == IF n < 10 THEN <<48 + n>> ELSE DigitsOf(n \div 10) \o <<48 + (n % 10)>>

\* ------------------------------------------------------------------ entity tags
\* one entity-tag at position p of s: [ok, weak, opaque, next]  (opaque: anything but DQUOTE)
TagAt(s, p) ==
  LET weak == p + 1 <= Len(s) /\ s[p] = 87 /\ s[p + 1] = 47          \* "W/" is case sensitive
      q == IF weak THEN p + 2 ELSE p
  IN IF q > Len(s) \/ s[q] # DQ THEN [ok |-> FALSE, weak |-> FALSE, opaque |-> <<>>, next |-> p]
     ELSE LET H == {i \in (q + 1)..Len(s) : s[i] = DQ} IN
          IF H = {} THEN [ok |-> FALSE, weak |-> FALSE, opaque |-> <<>>, next |-> p]
          ELSE LET e == CHOOSE i \in H : \A j \in H : i <= j IN
               [ok |-> TRUE, weak |-> weak, opaque |-> Sub(s, q + 1, e - 1), next |-> e + 1]

\* #entity-tag with optional white space and empty list elements (RFC 7230 section 7)
RECURSIVE ScanTags(_, _, _, _)
ScanTags(s, p, acc, needComma) ==
  IF p > Len(s) THEN [ok |-> acc # {}, tags |-> acc]
  ELSE IF IsWS(s[p]) THEN ScanTags(s, p + 1, acc, needComma)
  ELSE IF s[p] = COMMA THEN ScanTags(s, p + 1, acc, FALSE)
  ELSE IF needComma THEN [ok |-> FALSE, tags |-> {}]
  ELSE LET t == TagAt(s, p) IN
       IF ~t.ok THEN [ok |-> FALSE, tags |-> {}]
       ELSE ScanTags(s, t.next, acc \cup {<<t.weak, t.opaque>>}, TRUE)

\* kind: "star" | "list" | "bad"
ParseTags(s) ==
  IF Strip(s) = <<STAR>> THEN [kind |-> "star", tags |-> {}]
  ELSE LET r == ScanTags(s, 1, {}, FALSE) IN
       IF r.ok THEN [kind |-> "list", tags |-> r.tags] ELSE [kind |-> "bad", tags |-> {}]

WeakMatch(pt, opaque) == pt.kind = "star" \/ (pt.kind = "list" /\ \E t \in pt.tags : t[2] = opaque)
\* strong comparison (If-Match, If-Range): both strong and equal opaque text
StrongAdmits(pt, opaque, weak) == pt.kind = "star" \/ (pt.kind = "list" /\ ~weak /\ <<FALSE, opaque>> \in pt.tags)
Range(s) == {s[i] : i \in 1..Len(s)}
OccursIn(s, pat) == pat # <<>> /\ Contains(s, pat)

\* ------------------------------------------------------------------ dates
DaysFromCivil(y0, m, d) ==
  LET y == IF m <= 2 THEN y0 - 1 ELSE y0
      era == y \div 400
      yoe == y - era * 400
      mp == IF m > 2 THEN m - 3 ELSE m + 9
      doy == (153 * mp + 2) \div 5 + d - 1
      doe == yoe * 365 + yoe \div 4 - yoe \div 100 + doy
  IN era * 146097 + doe - 719468

IsLeap(y) == (y % 4 = 0 /\ y % 100 # 0) \/ y % 400 = 0
DaysIn(y, m) == IF m = 2 THEN (IF IsLeap(y) THEN 29 ELSE 28) ELSE IF m \in {4, 6, 9, 11} THEN 30 ELSE 31

MonthNames == << <<74,97,110>>, <<70,101,98>>, <<77,97,114>>, <<65,112,114>>, <<77,97,121>>, <<74,117,110>>,
                 <<74,117,108>>, <<65,117,103>>, <<83,101,112>>, <<79,99,116>>, <<78,111,118>>, <<68,101,99>> >>
MonthOf(s) == LET H == {i \in 1..12 : MonthNames[i] = s} IN IF H = {} THEN 0 ELSE CHOOSE i \in H : TRUE

NoDate == [ok |-> FALSE, day |-> 0, sec |-> 0]
\* an instant as <<day number, second of day>>, normalised
Instant(day, sec) == IF sec < 0 THEN [ok |-> TRUE, day |-> day - 1, sec |-> sec + 86400]
                     ELSE IF sec >= 86400 THEN [ok |-> TRUE, day |-> day + 1, sec |-> sec - 86400]
                     ELSE [ok |-> TRUE, day |-> day, sec |-> sec]

\* "Www, DD Mon YYYY HH:MM:SS GMT" or "... +HHMM" / "... -HHMM" (the two forms the drivers send);
\* anything else is "not a date".  The weekday name is not interpreted.
ParseDate(t0) ==
  LET t == Strip(t0) n == Len(t) IN
  IF ~(n = 29 \/ n = 31) THEN NoDate
  ELSE IF ~(IsAlpha(t[1]) /\ IsAlpha(t[2]) /\ IsAlpha(t[3]) /\ t[4] = COMMA /\ t[5] = SP /\ t[8] = SP /\ t[12] = SP
            /\ t[17] = SP /\ t[20] = COLON /\ t[23] = COLON /\ t[26] = SP
            /\ AllDigits(Sub(t, 6, 7)) /\ AllDigits(Sub(t, 13, 16)) /\ AllDigits(Sub(t, 18, 19))
            /\ AllDigits(Sub(t, 21, 22)) /\ AllDigits(Sub(t, 24, 25))) THEN NoDate
  ELSE LET d == NatVal(Sub(t, 6, 7)) mo == MonthOf(Sub(t, 9, 11)) y == NatVal(Sub(t, 13, 16))
           h == NatVal(Sub(t, 18, 19)) mi == NatVal(Sub(t, 21, 22)) s == NatVal(Sub(t, 24, 25))
           z == Sub(t, 27, n)
           zoneOk == IF n = 29 THEN z = <<71, 77, 84>>
                     ELSE (z[1] = PLUSC \/ z[1] = DASH) /\ AllDigits(Sub(z, 2, 5)) /\ NatVal(Sub(z, 4, 5)) < 60
           off == IF n = 29 \/ ~zoneOk THEN 0
                  ELSE (IF z[1] = DASH THEN 0 - 1 ELSE 1) * (NatVal(Sub(z, 2, 3)) * 3600 + NatVal(Sub(z, 4, 5)) * 60)
       IN IF mo = 0 \/ y < 1900 \/ y > 2200 \/ d < 1 \/ h > 23 \/ mi > 59 \/ s > 59 \/ ~zoneOk THEN NoDate
          ELSE IF d > DaysIn(y, mo) THEN NoDate
          ELSE LET raw == h * 3600 + mi * 60 + s - off
                   dd == DaysFromCivil(y, mo, d) IN
               \* offsets are below 100 hours: normalise by whole days
               IF raw < 0 THEN Instant(dd - ((0 - raw) \div 86400) - 1, raw + (((0 - raw) \div 86400) + 1) * 86400)
               ELSE Instant(dd + raw \div 86400, raw % 86400)

\* last-modified at one-second resolution (microseconds dropped)
LmInstant(lm) == [ok |-> TRUE, day |-> DaysFromCivil(lm[1], lm[2], lm[3]), sec |-> lm[4] * 3600 + lm[5] * 60 + lm[6]]
Leq(a, b) == a.day < b.day \/ (a.day = b.day /\ a.sec <= b.sec)
Same(a, b) == a.day = b.day /\ a.sec = b.sec

\* ------------------------------------------------------------------ validators
IMSMatch(req, rep) == LET d == ParseDate(req.ims) IN
                      req.ims_p /\ d.ok /\ rep.lm_p /\ Leq(LmInstant(rep.lm), d)

\* May304: a 304 is justified; Must304: a 304 is required for GET / HEAD.
\*  * If-None-Match well formed, response has an ETag: weak comparison decides alone (precedence
\*    over If-Modified-Since);
\*  * no If-None-Match: If-Modified-Since decides;
\*  * If-None-Match against a response without ETag: the property gives it precedence only "when the
\*    response has an ETag"; RFC 7232 would ignore If-Modified-Since.  Both are accepted (a 304 needs
\*    the date to match or "*"), none is demanded except when both readings agree;
\*  * malformed If-None-Match: may be ignored (date decides) or read leniently (the current opaque
\*    tag or a "*" occurs in the text); nothing is demanded;
\*  * If-Match present: nothing is demanded; a 304 needs If-Match to admit the tag and the date to match.
May304(req, rep) ==
  LET ims == IMSMatch(req, rep) IN
  IF req.im_p THEN (rep.etag_p /\ StrongAdmits(ParseTags(req.im), rep.etag_opaque, rep.etag_weak) /\ ~req.inm_p /\ ims)
  ELSE IF ~req.inm_p THEN ims
  ELSE LET pt == ParseTags(req.inm) IN
       IF pt.kind = "bad" THEN ims \/ (rep.etag_p /\ (OccursIn(req.inm, rep.etag_opaque) \/ STAR \in Range(req.inm)))
       ELSE IF rep.etag_p THEN WeakMatch(pt, rep.etag_opaque)
       ELSE ims \/ pt.kind = "star"

Must304(req, rep) ==
  LET ims == IMSMatch(req, rep) IN
  IF req.im_p THEN FALSE
  ELSE IF ~req.inm_p THEN ims
  ELSE LET pt == ParseTags(req.inm) IN
       IF pt.kind = "bad" THEN FALSE
       ELSE IF rep.etag_p THEN WeakMatch(pt, rep.etag_opaque)
       ELSE ims /\ pt.kind = "star"

Admits(req, rep) == rep.etag_p /\ StrongAdmits(ParseTags(req.im), rep.etag_opaque, rep.etag_weak)
\* (a malformed If-Match admits nothing: 412 and 200 are both accepted)
May412(req, rep) == req.im_p /\ rep.etag_p /\ ~Admits(req, rep)

\* ------------------------------------------------------------------ If-Range
\* "pass" | "fail" | "either".  Entity tags: strong comparison (RFC 7233 3.2).  Dates: equal passes,
\* an older date fails; a date later than Last-Modified is accepted either way (RFC: exact match;
\* the documentation of is_resource_modified: "not modified since").
IfRange(req, rep) ==
  LET d == ParseDate(req.ifr) IN
  IF d.ok THEN (IF ~rep.lm_p THEN "fail"
                ELSE IF Same(d, LmInstant(rep.lm)) THEN "pass"
                ELSE IF Leq(d, LmInstant(rep.lm)) THEN "fail" ELSE "either")
  ELSE LET s == Strip(req.ifr)
           t == IF s = <<>> THEN [ok |-> FALSE, weak |-> FALSE, opaque |-> <<>>, next |-> 1] ELSE TagAt(s, 1) IN
       IF ~t.ok \/ t.next # Len(s) + 1 THEN "either"
       ELSE IF ~rep.etag_p THEN "fail"
       ELSE IF t.weak \/ rep.etag_weak THEN "fail"
       ELSE IF t.opaque = rep.etag_opaque THEN "pass" ELSE "fail"

\* ------------------------------------------------------------------ Range
\* one range-spec (already stripped): [ok, kind: "fl" | "f" | "s", a, b]
SpecOf(it) ==
  LET k == IndexOf(it, DASH)
      bad == [ok |-> FALSE, kind |-> "x", a |-> 0, b |-> 0] IN
  IF k = 0 THEN bad
  ELSE LET l == Sub(it, 1, k - 1) r == Sub(it, k + 1, Len(it)) IN
       IF l = <<>> THEN (IF AllDigits(r) THEN [ok |-> TRUE, kind |-> "s", a |-> NatVal(r), b |-> 0] ELSE bad)
       ELSE IF ~AllDigits(l) THEN bad
       ELSE IF r = <<>> THEN [ok |-> TRUE, kind |-> "f", a |-> NatVal(l), b |-> 0]
       ELSE IF AllDigits(r) /\ NatVal(l) <= NatVal(r) THEN [ok |-> TRUE, kind |-> "fl", a |-> NatVal(l), b |-> NatVal(r)]
       ELSE bad

\* [class, lenient, specs]; class: "bad" | "other" | "multi" | "single"
\*  lenient: white space inside a range-spec or an empty list element: RFC 7233 has no such forms,
\*  the property's grammar lists "whitespace": accepted as 416 or as the cleaned spec.
ParseRange(text) ==
  LET k == IndexOf(text, EQ) IN
  IF k = 0 THEN [class |-> "bad", lenient |-> FALSE, specs |-> <<>>]
  ELSE LET unit == Lower(Strip(Sub(text, 1, k - 1)))
           items0 == SplitAt(Sub(text, k + 1, Len(text)), COMMA, <<>>)
           items1 == [i \in 1..Len(items0) |-> Strip(items0[i])]
           items == SelectSeq(items1, LAMBDA it : it # <<>>)
           specs == [i \in 1..Len(items) |-> SpecOf(NoWS(items[i]))]
           len == Len(items) # Len(items0) \/ \E i \in 1..Len(items) : NoWS(items[i]) # items[i]
       IN IF unit = <<>> \/ \E i \in 1..Len(unit) : ~IsAlpha(unit[i]) THEN [class |-> "bad", lenient |-> FALSE, specs |-> <<>>]
          ELSE IF unit # <<98, 121, 116, 101, 115>> THEN [class |-> "other", lenient |-> FALSE, specs |-> <<>>]
          ELSE IF items = <<>> \/ \E i \in 1..Len(specs) : ~specs[i].ok THEN [class |-> "bad", lenient |-> FALSE, specs |-> <<>>]
          ELSE [class |-> IF Len(specs) = 1 THEN "single" ELSE "multi", lenient |-> len, specs |-> specs]

\* the satisfiable part [lo, hi) of a spec for a resource of n > 0 bytes (lo = hi: unsatisfiable)
Satisfy(sp, n) ==
  IF sp.kind = "s" THEN (IF sp.a = 0 THEN <<0, 0>> ELSE <<IF sp.a >= n THEN 0 ELSE n - sp.a, n>>)
  ELSE IF sp.a >= n THEN <<0, 0>>
  ELSE IF sp.kind = "f" THEN <<sp.a, n>>
  ELSE <<sp.a, IF sp.b + 1 > n THEN n ELSE sp.b + 1>>

\* What the Range header demands for a processable GET / HEAD request:
\*  "none" (no Range) | "any" (200 or 416: length 0 -- documented "range processing is skipped if
\*  length is 0"; length unknown to the server; other units -- RFC: ignore, werkzeug: 416) | "r416" | "sat"
RangeClass(req, rep) ==
  IF ~req.range_p THEN [c |-> "none", iv |-> <<0, 0>>, lenient |-> FALSE]
  ELSE LET pr == ParseRange(req.range) IN
       IF rep.length = 0 \/ ~rep.len_known \/ pr.class = "other" THEN [c |-> "any", iv |-> <<0, 0>>, lenient |-> FALSE]
       ELSE IF pr.class \in {"bad", "multi"} THEN [c |-> "r416", iv |-> <<0, 0>>, lenient |-> FALSE]
       ELSE LET iv == Satisfy(pr.specs[1], rep.length) IN
            IF iv[1] = iv[2] THEN [c |-> "r416", iv |-> iv, lenient |-> FALSE]
            ELSE [c |-> "sat", iv |-> iv, lenient |-> pr.lenient]

\* Content-Range "bytes a-b/n": [ok, a, b, n]
ParseContentRange(t) ==
  LET bad == [ok |-> FALSE, a |-> 0, b |-> 0, n |-> 0]
      pre == <<98, 121, 116, 101, 115, 32>> IN
  IF ~IsPrefixOf(pre, t) THEN bad
  ELSE LET r == Sub(t, 7, Len(t)) k == IndexOf(r, DASH) s == IndexOf(r, 47) IN
       IF k = 0 \/ s = 0 \/ s < k THEN bad
       ELSE LET a == Sub(r, 1, k - 1) b == Sub(r, k + 1, s - 1) n == Sub(r, s + 1, Len(r)) IN
            IF AllDigits(a) /\ AllDigits(b) /\ AllDigits(n) THEN [ok |-> TRUE, a |-> NatVal(a), b |-> NatVal(b), n |-> NatVal(n)]
            ELSE bad

DataByte(i) == 33 + (i % 90)                                   \* byte at 0-based offset i
DataSlice(lo, hi) == [i \in 1..(hi - lo) |-> DataByte(lo + i - 1)]

\* ------------------------------------------------------------------ the contract
\* obs = [status, exc, cr_n, cr, cl_n, cl, body]
InDomain(req, rep) ==
  /\ req.method \in {"GET", "HEAD", "POST"}
  /\ ~(req.im_p /\ req.inm_p)
  /\ req.im_p => rep.etag_p
  /\ req.range_p => ~(req.im_p \/ req.inm_p \/ req.ims_p)       \* Range is combined with If-Range only
  /\ req.ifr_p => ~(req.im_p \/ req.inm_p \/ req.ims_p)

\* d = [data: the resource bytes, hb: the recorded body is to be compared]; the drivers' resources are
\* DataSlice(0, length) and every non-HEAD body is compared (Std); recorded repository tests bring their own bytes.
Std(req, rep) == [data |-> DataSlice(0, rep.length), hb |-> req.method # "HEAD"]
Full200D(req, rep, obs, d) ==
  IF obs.cr_n # 0 THEN "FullOn200/ContentRange"
  ELSE IF d.hb /\ obs.body # d.data THEN "FullOn200/Body"
  ELSE IF obs.cl_n > 1 \/ (obs.cl_n = 1 /\ ~(AllDigits(obs.cl) /\ NatVal(obs.cl) = rep.length)) THEN "FullOn200/ContentLength"
  ELSE "ok"

Full200(req, rep, obs) == Full200D(req, rep, obs, Std(req, rep))

Partial206D(req, rep, obs, rc, d) ==
  LET cr == ParseContentRange(obs.cr) IN
  IF obs.cr_n # 1 \/ ~cr.ok THEN "RangeBodyMatchesHeader/ContentRange"
  ELSE IF ~(cr.a <= cr.b /\ cr.b < rep.length /\ cr.n = rep.length) THEN "RangeInsideResource"
  ELSE IF ~(rc.iv[1] <= cr.a /\ cr.b + 1 <= rc.iv[2]) THEN "RangeInsideRequest"
  ELSE IF obs.cl_n # 1 \/ ~AllDigits(obs.cl) \/ NatVal(obs.cl) # cr.b + 1 - cr.a THEN "RangeBodyMatchesHeader/ContentLength"
  ELSE IF d.hb /\ obs.body # Sub(d.data, cr.a + 1, cr.b + 1) THEN "RangeBodyMatchesHeader/Body"
  ELSE "ok"

VerdictD(req, rep, obs, d) ==
  IF obs.exc # "" /\ obs.status # 416 THEN "Raised"
  ELSE IF ~(req.method \in {"GET", "HEAD"}) THEN
       (IF obs.status # 200 THEN "FullOn200/IgnoredMethod" ELSE Full200D(req, rep, obs, d))
  ELSE
  LET ifr == IF req.ifr_p /\ req.range_p THEN IfRange(req, rep) ELSE "pass"
      rc == RangeClass(req, rep) IN
  IF obs.status = 304 THEN (IF May304(req, rep) THEN "ok" ELSE "Sound304")
  ELSE IF Must304(req, rep) THEN "Complete304"
  ELSE IF obs.status = 412 THEN (IF May412(req, rep) THEN "ok" ELSE "Sound412")
  ELSE IF obs.status = 200 THEN
       (IF ifr = "pass" /\ rc.c = "r416" THEN "Is416" ELSE Full200D(req, rep, obs, d))
  ELSE IF obs.status = 416 THEN
       (IF ifr = "fail" \/ rc.c = "none" THEN "FullOn200/Ignored"
        ELSE IF rc.c \in {"r416", "any"} \/ rc.lenient THEN "ok" ELSE "Only416")
  ELSE IF obs.status = 206 THEN
       (IF ifr = "fail" \/ rc.c = "none" THEN "FullOn200/Ignored"
        ELSE IF rc.c # "sat" THEN "Is416"
        ELSE Partial206D(req, rep, obs, rc, d))
  ELSE "UnexpectedStatus"
Verdict(req, rep, obs) == VerdictD(req, rep, obs, Std(req, rep))

\* ------------------------------------------------------------------ Range combined with validators
\* RFC 7233 3.1: Range is evaluated after the preconditions of RFC 7232 and only if the result without it
\* would be 200 -- "Range is ignored when a conditional GET would result in a 304"; the property: a 304 is
\* produced "always when they [the validators] do [match] for GET / HEAD".  So with a Range header the
\* 304 / 412 clauses are unchanged, and only a request that gets neither is judged by the range clauses.
\* (A failed If-Match answered by 206 / 416 instead of 412 is not named by the property: drift.)
InDomainRC(req, rep) ==
  /\ req.method \in {"GET", "HEAD", "POST"}
  /\ ~(req.im_p /\ req.inm_p)
  /\ req.im_p => rep.etag_p
  /\ req.range_p /\ (req.im_p \/ req.inm_p \/ req.ims_p) /\ ~req.ifr_p
NoValidators(req) == [req EXCEPT !.inm_p = FALSE, !.im_p = FALSE, !.ims_p = FALSE]
VerdictRCD(req, rep, obs, d) ==
  IF obs.exc # "" /\ obs.status # 416 THEN "Raised"
  ELSE IF ~(req.method \in {"GET", "HEAD"}) THEN VerdictD(NoValidators(req), rep, obs, d)
  ELSE IF obs.status = 304 THEN (IF May304(req, rep) THEN "ok" ELSE "Sound304")
  ELSE IF Must304(req, rep) THEN "Complete304"
  ELSE IF obs.status = 412 THEN (IF May412(req, rep) THEN "ok" ELSE "Sound412")
  ELSE VerdictD(NoValidators(req), rep, obs, d)
VerdictRC(req, rep, obs) == VerdictRCD(req, rep, obs, Std(req, rep))

\* the plain function is_resource_modified (no If-Range processing): "not modified" is the 304 / 412 signal
VerdictIRM(req, rep, modified) ==
  IF ~modified /\ ~(May304(req, rep) \/ May412(req, rep)) THEN "Sound304"
  ELSE IF modified /\ Must304(req, rep) THEN "Complete304"
  ELSE "ok"
=============================================================================
