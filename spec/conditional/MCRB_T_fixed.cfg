CONSTANTS
  MaxLen = 9
  MaxBlock = 5
  Variant = "fixed"
  EmptyBlocks = TRUE
INIT Init
NEXT Next
CHECK_DEADLOCK FALSE
INVARIANT PrefixOK
INVARIANT DoneOK
INVARIANT Terminates
