CONSTANTS
  MaxLen = 5
  MaxBlock = 3
  Variant = "fixed"
  EmptyBlocks = TRUE
INIT Init
NEXT Next
CHECK_DEADLOCK FALSE
INVARIANT PrefixOK
INVARIANT DoneOK
INVARIANT Terminates
