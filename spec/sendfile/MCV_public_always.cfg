CONSTANTS
  Defects = {"public_always"}
  Family = "cache_small"
  Deep = FALSE
INIT Init
NEXT Next
CHECK_DEADLOCK FALSE
INVARIANT ImplMeetsContract
