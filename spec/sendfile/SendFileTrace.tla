--------------------------- MODULE SendFileTrace ---------------------------
(* Trace judge for X09.  Input: ndjson (TRACE_FILE); every line is one call executed on the real   *)
(* code by harness/sendfile.py:                                                                     *)
(*   op "sf"   send_file / send_from_directory (fields: see SendFile.tla),                           *)
(*   op "sdm"  one request through SharedDataMiddleware.                                             *)
(* The judge names the violated clause of SendFile.tla (SfVerdict / VerdictSdm) or accepts the line; *)
(* "OutOfDomain" is a harness error, never a verdict.  Drift records (never verdicts): Drift /       *)
(* DriftSdm of SendFile.tla, and -- for lines that replay a row exported from the bounded model     *)
(* (exp_p) -- the first observation field in which the real code differs from the model's row.      *)
EXTENDS SendFile, TLC, Json, IOUtils

Lines == ndJsonDeserialize(IOEnv.TRACE_FILE)

VARIABLES l
vars == <<l>>

JVerdict(ln) == IF ln.op = "sdm" THEN VerdictSdm(ln) ELSE IF ln.op = "sf" THEN SfVerdict(ln) ELSE "OutOfDomain"
JDrift(ln) == IF ln.op = "sdm" THEN DriftSdm(ln) ELSE IF ln.op = "sf" THEN Drift(ln) ELSE ""

\* the model's row against the real observation (texts that do not depend on the location of the tree or the clock)
RowDrift(ln) ==
  LET e == ln.exp IN
  IF ~ln.exp_p THEN ""
  ELSE IF e.exc # ln.exc THEN "exc"
  ELSE IF e.status # ln.status THEN "status"
  ELSE IF e.h_ct_n # ln.h_ct_n \/ e.h_ct # ln.h_ct THEN "Content-Type"
  ELSE IF e.h_cd_n # ln.h_cd_n \/ e.h_cd # ln.h_cd THEN "Content-Disposition"
  ELSE IF e.h_ce_n # ln.h_ce_n \/ e.h_ce # ln.h_ce THEN "Content-Encoding"
  ELSE IF e.h_cc_n # ln.h_cc_n \/ e.h_cc # ln.h_cc THEN "Cache-Control"
  ELSE IF e.h_cl_n # ln.h_cl_n \/ e.h_cl # ln.h_cl THEN "Content-Length"
  ELSE IF e.h_cr_n # ln.h_cr_n \/ e.h_cr # ln.h_cr THEN "Content-Range"
  ELSE IF e.h_lm_n # ln.h_lm_n \/ e.h_lm # ln.h_lm THEN "Last-Modified"
  ELSE IF e.h_etag_n # ln.h_etag_n THEN "ETag presence"
  ELSE IF e.h_exp_n # ln.h_exp_n THEN "Expires presence"
  ELSE IF e.h_xsf_n # ln.h_xsf_n THEN "X-Sendfile presence"
  ELSE IF e.body # ln.body THEN "body"
  ELSE IF e.opened # ln.opened THEN "files opened"
  ELSE IF e.open_end # ln.open_end THEN "files left open"
  ELSE IF e.user_closed # ln.user_closed THEN "file object closed"
  ELSE IF e.fw_used # ln.fw_used THEN "file_wrapper used"
  ELSE IF e.isinst # ln.isinst THEN "response class"
  ELSE IF Len(e.ma_calls) # Len(ln.ma_calls) THEN "max_age calls"
  ELSE IF e.passed # ln.passed THEN "passed to the application"
  ELSE ""

\* labels for the violation key (computed here, not in python)
NameClass(n) == IF HasNewline(n) THEN "newline"
                ELSE IF ~IsAsciiSeq(n) THEN (IF \E i \in 1..Len(n) : n[i] \in {DQ, BSL, SEMI, PCT, SQ} THEN "nonascii-special" ELSE "nonascii")
                ELSE IF n = <<>> THEN "empty"
                ELSE IF IsToken(n) THEN "token" ELSE "quoted"
Info(ln) ==
  IF ln.op = "sdm" THEN [api |-> "sdm", kind |-> "path", name |-> NameClass(ln.name), status |-> ln.status, method |-> ln.method]
  ELSE IF ln.op = "sf" /\ Domain(ln) THEN
       [api |-> ln.api, kind |-> ln.kind, name |-> IF NameP(ln) THEN NameClass(Name(ln)) ELSE "none", status |-> ln.status, method |-> ln.method]
  ELSE [api |-> "-", kind |-> "-", name |-> "-", status |-> 0, method |-> "-"]

\* drift bookkeeping in TLC registers: per kind k (index into DriftKinds, K + 1 = any other text) register k counts the
\* lines, register K + 1 + k keeps the first trace id; register 2K + 3 counts the model rows that differ.  One summary record
\* per batch (Done) instead of one record per line: the known drift of the code as it is would otherwise crowd out a new one.
K == Len(DriftKinds)
KindIdx(d) == LET H == {i \in 1..K : DriftKinds[i] = d} IN IF H = {} THEN K + 1 ELSE CHOOSE i \in H : TRUE
RowReg == 2 * K + 3
\* (TLCGet is read again at every use: first the first-id register, then the counter)
CountDrift(d, t) == LET k == KindIdx(d) IN
                    (IF TLCGet(k) = 0 THEN TLCSet(K + 1 + k, t) ELSE TRUE) /\ TLCSet(k, TLCGet(k) + 1)

Init == l = 1 /\ \A r \in 1..RowReg : TLCSet(r, 0)
Next == /\ l <= Len(Lines)
        /\ LET ln == Lines[l]
               v == JVerdict(ln)
               d == IF v = "ok" THEN JDrift(ln) ELSE ""
               r == IF v = "ok" THEN RowDrift(ln) ELSE "" IN
           /\ IF v = "ok" THEN TRUE
              ELSE PrintT(ToJson([reject |-> 1, t |-> ln.t, i |-> ln.i, clause |-> v, info |-> Info(ln)]))
           /\ IF d = "" THEN TRUE ELSE CountDrift(d, ln.t)
           /\ IF r = "" THEN TRUE
              ELSE (IF TLCGet(RowReg) < 5 THEN PrintT(ToJson([drift |-> 1, t |-> ln.t, what |-> "model row differs: " \o r])) ELSE TRUE)
                   /\ TLCSet(RowReg, TLCGet(RowReg) + 1)
        /\ l' = l + 1

Done == /\ (IF TLCGet(RowReg) = 0 /\ \A k \in 1..(K + 1) : TLCGet(k) = 0 THEN TRUE
            ELSE PrintT(ToJson([drift |-> 1, t |-> 0, what |-> "summary", rows |-> TLCGet(RowReg),
                                kinds |-> [k \in {i \in 1..(K + 1) : TLCGet(i) > 0} |->
                                             <<IF k <= K THEN DriftKinds[k] ELSE "other", TLCGet(k), TLCGet(K + 1 + k)>>]])))
        /\ PrintT(ToJson([judged |-> Len(Lines)])) /\ TLCGet("generated") >= 0
=============================================================================
