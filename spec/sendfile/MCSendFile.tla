---------------------------- MODULE MCSendFile ----------------------------
(* X09 -- bounded universe of send_file calls and the implementation-shaped decision model.          *)
(*                                                                                                    *)
(* A behaviour is one call: Init picks the arguments and the environment (c), then                    *)
(*   Call   send_file(...) returns a response (the file is open now) or raises,                        *)
(*   Serve  the WSGI server calls the response and iterates the body (get_wsgi_headers / get_app_iter),*)
(*   Close  the server calls close() on the iterable it was given.                                     *)
(* Impl* is written like the code (order of the checks in send_file, quote_header_value, urllib quote  *)
(* with the attr-char safe set, Cache-Control assembly, the ETag formula, remove_entity_headers for    *)
(* a 304); the conditional / range decision is the C11 implementation model (MCConditional!ImplObs,    *)
(* instantiated on this call's request and validators, not copied).                                    *)
(* TLC checks, for every call of the universe: Verdict(line) = "ok" (ImplMeetsContract), the drift     *)
(* clauses agree with the model (ImplNoDrift), and the internal laws Law*.                             *)
(* Configurations: MCQ_<family> (quick) / MCT_<family> (Deep = TRUE) check every invariant and print    *)
(* one row per call (INVARIANT Export) for the replay on the real code; families names / cache /      *)
(* errors / sdm.  MCV_<defect>: a hand-broken variant on a small universe (names_small / cache_small / *)
(* errors_small / sdm) must violate ImplMeetsContract with the clause listed in harness/props/x09.py;  *)
(* MCS_small: the same small universes without a defect must pass; MCL_<law>: a broken variant must    *)
(* violate the internal law.                                                                           *)
(* Defects (hand-broken variants, each must violate ImplMeetsContract):                                *)
(*   star_raw        filename* is not percent-encoded                                                  *)
(*   att_ignored     as_attachment is ignored (always inline)                                          *)
(*   ma_nopath       the max_age callable is called without the path                                   *)
(*   ma_pathlike     the max_age callable receives the PathLike object instead of str                  *)
(*   open304         the file stays open when a 304 is answered                                        *)
(*   open416         the file stays open when the range is not satisfiable (raise)                     *)
(*   quote_unescaped a quoted filename is not backslash-escaped (a quote in the name injects)          *)
(*   no_charset      text types get no charset                                                         *)
(*   ce_on_attachment Content-Encoding also for attachments                                            *)
(*   cl_missing      no Content-Length for BytesIO                                                     *)
(*   etag_off_ignored etag=False still sends a tag                                                     *)
(*   lm_arg_ignored  last_modified argument ignored                                                    *)
(*   public_always   Cache-Control: public without max_age                                             *)
(*   xsf_reads       X-Sendfile set but the file is read and sent all the same                         *)
(*   class_ignored   response_class ignored                                                            *)
(*   fw_ignored      environ's wsgi.file_wrapper ignored                                               *)
(*   dn_type_path    the mimetype is guessed from the path although a download_name is given           *)
(*   nomime_default  no name and no mimetype: application/octet-stream instead of an error             *)
(*   text_accepted   text mode files are accepted                                                      *)
(*   sfd_nocheck     send_from_directory does not check that the file exists (raises something else)   *)
(*   sdm_public_nocache  SharedDataMiddleware(cache=False) sends Cache-Control: public (the code as it *)
(*                   was found)                                                                        *)
(*   sdm_open304     SharedDataMiddleware leaves the file open on a 304                                *)
(*   sdm_nocharset   SharedDataMiddleware: no charset for text types                                   *)
EXTENDS SendFile, SFUniverse, TLC, Json

CONSTANTS Defects, Family, Deep
D(x) == x \in Defects

VARIABLES c, ph, o
vars == <<c, ph, o>>

S_FNEQ == <<59, 32, 102, 105, 108, 101, 110, 97, 109, 101, 61>>                            \* '; filename='
S_FNSTAR == <<59, 32, 102, 105, 108, 101, 110, 97, 109, 101, 42, 61, 85, 84, 70, 45, 56, 39, 39>> \* "; filename*=UTF-8''"
S_MAXAGEEQ == <<109, 97, 120, 45, 97, 103, 101, 61>>                                       \* 'max-age='
S_COMMASP == <<44, 32>>                                                                    \* ', '
S_GMT == <<32, 71, 77, 84>>                                                                \* ' GMT'
ROOT == <<47, 115, 114, 118, 47, 116>>                                                     \* '/srv/t'
MTRepr == <<49, 55, 48, 57, 50, 53, 49, 49, 57, 56, 46, 52, 51>>                           \* '1709251198.43'
S_ZZ == <<34, 122, 122, 34>>                                                               \* '"zz"'
S_R12 == <<98, 121, 116, 101, 115, 61, 49, 45, 50>>                                        \* 'bytes=1-2'
S_R9 == <<98, 121, 116, 101, 115, 61, 57, 45>>                                             \* 'bytes=9-'
M_HTML == <<116, 101, 120, 116, 47, 104, 116, 109, 108>>                                   \* 'text/html'
M_PDF == <<97, 112, 112, 108, 105, 99, 97, 116, 105, 111, 110, 47, 112, 100, 102>>         \* 'application/pdf'
M_SQL == <<97, 112, 112, 108, 105, 99, 97, 116, 105, 111, 110, 47, 115, 113, 108>>         \* 'application/sql'
E_GIVEN == <<118, 49, 46, 48, 45, 55>>                                                     \* 'v1.0-7'
DayNames == <<<<83, 117, 110>>, <<77, 111, 110>>, <<84, 117, 101>>, <<87, 101, 100>>, <<84, 104, 117>>, <<70, 114, 105>>, <<83, 97, 116>>>>

\* ------------------------------------------------------------------ http_date
CivilFromDays(z0) ==
  LET z == z0 + 719468
      era == z \div 146097
      doe == z - era * 146097
      yoe == (doe - doe \div 1460 + doe \div 36524 - doe \div 146096) \div 365
      y == yoe + era * 400
      doy == doe - (365 * yoe + yoe \div 4 - yoe \div 100)
      mp == (5 * doy + 2) \div 153
      d == doy - (153 * mp + 2) \div 5 + 1
      m == IF mp < 10 THEN mp + 3 ELSE mp - 9
  IN <<IF m <= 2 THEN y + 1 ELSE y, m, d>>
Two(n) == <<48 + n \div 10, 48 + (n % 10)>>
Four(n) == <<48 + n \div 1000, 48 + ((n \div 100) % 10), 48 + ((n \div 10) % 10), 48 + (n % 10)>>
HttpDate(day, sec) ==
  LET cv == CivilFromDays(day) IN
  DayNames[((day + 4) % 7) + 1] \o <<COMMA, SP>> \o Two(cv[3]) \o <<SP>> \o MonthNames[cv[2]] \o <<SP>> \o Four(cv[1]) \o <<SP>>
  \o Two(sec \div 3600) \o <<COLON>> \o Two((sec \div 60) % 60) \o <<COLON>> \o Two(sec % 60) \o S_GMT
DateOfLm(lm) == HttpDate(DaysFromCivil(lm[1], lm[2], lm[3]), lm[4] * 3600 + lm[5] * 60 + lm[6])
DateOfEpoch(e) == HttpDate(e \div 86400, e % 86400)

\* ------------------------------------------------------------------ the environment of the model
MT == <<2024, 2, 29, 23, 59, 58, 430000>>       \* st_mtime of every file of the model tree
Now0 == 1791012739                              \* time() during the call: 2026-10-03 07:32:19 UTC
LmArg(mode) == IF mode = "float" THEN <<2020, 1, 2, 3, 4, 5, 900000>> ELSE <<2020, 1, 2, 3, 4, 5, 0>>
Data == DataSlice(0, 5)
NoName == [n |-> <<>>, g_p |-> FALSE, g |-> <<>>, ge_p |-> FALSE, ge |-> <<>>, fold |-> <<>>]
PathOf(name) == ROOT \o <<SLASH>> \o name

\* a call: arguments + environment (the request is a class rq; its header texts are derived from the validators this call sends)
MkCall(api, kind, ni, mt, att, di, cond, em, lmm, mam, ma, xsf, rclass, fw, rq, exists) ==
  LET file == IF ni = 0 THEN NoName ELSE NameTable[ni]
      dnr == IF di = 0 THEN NoName ELSE NameTable[di]
      pk == kind \in {"path", "pathlike", "relpath"}
      eff == IF di # 0 THEN dnr ELSE IF pk THEN file ELSE NoName IN
  [api |-> api, kind |-> kind, path |-> IF pk THEN PathOf(file.n) ELSE <<>>,
   given |-> IF kind = "relpath" THEN file.n ELSE IF pk THEN PathOf(file.n) ELSE <<>>,
   mt_p |-> mt # <<>>, mt |-> mt, att |-> att, dn_p |-> di # 0, dn |-> dnr.n, cond |-> cond,
   etag_mode |-> em, etag_given |-> IF em = "given" THEN E_GIVEN ELSE <<>>,
   lm_mode |-> lmm, lm_arg |-> LmArg(lmm), ma_mode |-> mam, ma |-> ma, xsf |-> xsf, rclass |-> rclass, fw |-> fw, rq |-> rq,
   g_p |-> eff.g_p, g |-> eff.g, ge_p |-> eff.ge_p, ge |-> eff.ge, fold |-> eff.fold,
   pg_p |-> file.g_p, pg |-> file.g,                 \* what the path's own name would be guessed as (defect dn_type_path)
   size |-> 5, data |-> Data, mtime |-> MT, mtime_repr |-> MTRepr, exists |-> exists, t_before |-> Now0, t_after |-> Now0]

Bools == {TRUE, FALSE}
FileNames == {i \in 1..Len(NameTable) : NameTable[i].n # <<>>}
AllNames == 1..Len(NameTable)
PlainRq == "plain"

\* family "names": every file name x every download_name x attachment x mimetype argument (type, charset,
\* Content-Encoding and Content-Disposition logic), for a path and for a BytesIO
NamesInputs ==
  {MkCall("sf", "path", ni, mt, att, di, TRUE, "auto", "none", "none", 0, FALSE, "default", FALSE, PlainRq, TRUE) :
     ni \in FileNames, mt \in (IF Deep THEN {<<>>, M_HTML, M_PDF, M_SQL} ELSE {<<>>, M_HTML, M_SQL}), att \in Bools, di \in {0} \cup AllNames}
  \cup {MkCall("sf", "bytesio", 0, mt, att, di, TRUE, "auto", "none", "none", 0, FALSE, "default", FALSE, PlainRq, TRUE) :
     mt \in {<<>>, M_HTML, M_PDF}, att \in Bools, di \in {0} \cup AllNames}

Requests == {"plain", "head", "post", "inm_match", "inm_other", "inm_star", "ims_eq", "ims_before", "im_other", "range_sat",
             "range_unsat", "range_ifr_match", "range_ifr_other", "range_inm_match", "head_inm_match"}
RequestsSmall == {"plain", "head", "inm_match", "ims_eq", "ims_before", "range_sat", "range_unsat", "range_inm_match"}
MaChoices == {<<"none", 0>>, <<"int", 0>>, <<"int", 60>>, <<"call", 60>>, <<"callnone", 0>>}
\* family "cache": kind x validators x caching x X-Sendfile x conditional x request class
CacheInputs ==
  {MkCall("sf", kind, IF kind \in {"path", "pathlike", "relpath"} THEN 1 ELSE 0, IF kind \in {"path", "pathlike", "relpath"} THEN <<>> ELSE M_PDF,
          FALSE, 0, cond, em, lmm, mc[1], mc[2], xsf, rclass, fw, rq, TRUE) :
     kind \in (IF Deep THEN {"path", "pathlike", "relpath", "bytesio", "binfile", "pipe"} ELSE {"path", "bytesio", "binfile"}),
     cond \in Bools, em \in {"auto", "off", "given"}, lmm \in (IF Deep THEN {"none", "float", "aware"} ELSE {"none", "float"}),
     mc \in MaChoices, xsf \in Bools, rclass \in {"default"},
     fw \in (IF Deep THEN Bools ELSE {FALSE}), rq \in (IF Deep THEN Requests ELSE RequestsSmall)}
\* family "errors": every kind x mimetype given or not x name given or not (incl. CR / LF) x attachment x X-Sendfile;
\* send_from_directory with a missing file
ErrorInputs ==
  {MkCall("sf", kind, IF kind \in {"path", "pathlike", "relpath"} THEN ni ELSE 0, mt, att, di, TRUE, "auto", "none", mc[1], mc[2], xsf,
          rclass, fw, rq, TRUE) :
     kind \in {"path", "pathlike", "relpath", "bytesio", "binfile", "pipe", "textio", "textfile"}, ni \in {1, 15}, mt \in {<<>>, M_HTML},
     att \in Bools, di \in {0, 1, 9, 15, 16, 19}, mc \in (IF Deep THEN {<<"none", 0>>, <<"call", 60>>} ELSE {<<"call", 60>>}), xsf \in Bools,
     rclass \in {"default", "sub"},
     fw \in (IF Deep THEN Bools ELSE {FALSE}), rq \in {"plain", "range_unsat"}}
  \cup {MkCall("sfd", "path", ni, <<>>, att, 0, TRUE, "auto", "none", "none", 0, FALSE, "default", FALSE, rq, ex) :
     ni \in {1, 9, 12}, att \in Bools, rq \in {"plain", "inm_match", "range_unsat"}, ex \in Bools}

\* SharedDataMiddleware: file name x cache x request class
MkSdm(ni, cache, timeout, rq, exists) ==
  LET file == NameTable[ni] IN
  [op |-> "sdm", name |-> file.n, path |-> PathOf(file.n), g_p |-> file.g_p, g |-> file.g, ge_p |-> file.ge_p, ge |-> file.ge,
   fallback |-> S_OCTET, cache |-> cache, timeout |-> timeout, rq |-> rq, size |-> 5, data |-> Data, mtime |-> MT, exists |-> exists,
   t_before |-> Now0, t_after |-> Now0]
SdmInputs == {MkSdm(ni, cache, timeout, rq, ex) : ni \in {1, 2, 4, 13, 17, 20}, cache \in Bools, timeout \in {0, 43200},
              rq \in {"plain", "head", "inm_match", "inm_other", "ims_eq", "ims_before", "head_inm_match"}, ex \in Bools}

\* small universes for the hand-broken variants (each exposes its defect; TLC starts in a second)
NamesSmall ==
  {MkCall("sf", kind, IF kind = "path" THEN ni ELSE 0, mt, att, di, TRUE, "auto", "none", "none", 0, FALSE, "default", FALSE, PlainRq, TRUE) :
     kind \in {"path", "bytesio"}, ni \in {1, 9, 12, 13}, mt \in {<<>>, M_PDF}, att \in Bools, di \in {0, 4, 5, 9, 12, 14}}
CacheSmall ==
  {MkCall("sf", kind, IF kind \in {"path", "pathlike"} THEN 1 ELSE 0, IF kind \in {"path", "pathlike"} THEN <<>> ELSE M_PDF,
          FALSE, 0, TRUE, em, lmm, mc[1], mc[2], xsf, "default", FALSE, rq, TRUE) :
     kind \in {"path", "pathlike", "bytesio"}, em \in {"auto", "off"}, lmm \in {"none", "float"}, mc \in {<<"none", 0>>, <<"call", 60>>},
     xsf \in Bools, rq \in {"plain", "inm_match", "range_unsat"}}
ErrorsSmall ==
  {MkCall("sf", kind, IF kind = "path" THEN 1 ELSE 0, mt, att, di, TRUE, "auto", "none", "none", 0, FALSE, rclass, fw, PlainRq, TRUE) :
     kind \in {"path", "bytesio", "textio"}, mt \in {<<>>, M_HTML}, att \in Bools, di \in {0, 1}, rclass \in {"default", "sub"}, fw \in Bools}
  \cup {MkCall("sfd", "path", 1, <<>>, FALSE, 0, TRUE, "auto", "none", "none", 0, FALSE, "default", FALSE, PlainRq, ex) : ex \in Bools}

Inputs == IF Family = "names" THEN NamesInputs ELSE IF Family = "cache" THEN CacheInputs
          ELSE IF Family = "errors" THEN ErrorInputs ELSE IF Family = "names_small" THEN NamesSmall
          ELSE IF Family = "cache_small" THEN CacheSmall ELSE IF Family = "errors_small" THEN ErrorsSmall
          ELSE IF Family = "small" THEN NamesSmall \cup CacheSmall \cup ErrorsSmall ELSE SdmInputs

\* ------------------------------------------------------------------ send_file, written like the code
RECURSIVE Esc(_)
Esc(v) == IF v = <<>> THEN <<>> ELSE (IF Head(v) = BSL \/ Head(v) = DQ THEN <<BSL, Head(v)>> ELSE <<Head(v)>>) \o Esc(Tail(v))
\* http.quote_header_value
QuoteHV(v) == IF v # <<>> /\ \A i \in 1..Len(v) : IsTChar(v[i]) THEN v
              ELSE <<DQ>> \o (IF D("quote_unescaped") THEN v ELSE Esc(v)) \o <<DQ>>
\* urllib.parse.quote(name, safe="!#$&+-.^_`|~")
AttrSafe == {b \in 0..127 : IsAttrChar(b)}
StarValue(name) == IF D("star_raw") THEN name ELSE PctEncode(Utf8Enc(name), AttrSafe)
CdText(x) ==
  LET name == Name(x) ascii == IsAsciiSeq(Name(x)) IN
  (IF x.att /\ ~D("att_ignored") THEN S_ATTACHMENT ELSE S_INLINE)
  \o S_FNEQ \o QuoteHV(IF ascii THEN name ELSE Concat(x.fold))
  \o (IF ascii THEN <<>> ELSE S_FNSTAR \o StarValue(name))

\* decimal digits of b * 65536 + a (base-65536 long division by 10)
RECURSIVE DecOf(_, _)
DecOf(hi, lo) == IF hi = 0 /\ lo < 10 THEN <<48 + lo>>
                 ELSE LET t == (hi % 10) * 65536 + lo IN DecOf(hi \div 10, t \div 10) \o <<48 + (t % 10)>>
\* the ETag header text of a 200 for this call: [p, t]
ImplEtag(x) ==
  IF x.etag_mode = "given" THEN [p |-> TRUE, t |-> <<DQ>> \o x.etag_given \o <<DQ>>]
  ELSE IF (x.etag_mode = "auto" \/ D("etag_off_ignored")) /\ IsPathKind(x)
       THEN LET ad == Adler(Utf8Enc(x.path)) IN
            [p |-> TRUE, t |-> <<DQ>> \o x.mtime_repr \o <<DASH>> \o DigitsOf(x.size) \o <<DASH>> \o DecOf(ad[1], ad[2]) \o <<DQ>>]
  ELSE [p |-> FALSE, t |-> <<>>]
ImplLm(x) == IF D("lm_arg_ignored") THEN (IF IsPathKind(x) THEN [p |-> TRUE, lm |-> x.mtime] ELSE [p |-> FALSE, lm |-> x.mtime])
             ELSE LmExpected(x)

\* the request header texts of a request class, echoing the validators the call sends
ReqOf(x, E, L) ==
  LET lmd == IF L.p THEN DaysFromCivil(L.lm[1], L.lm[2], L.lm[3]) ELSE 19782
      lms == IF L.p THEN L.lm[4] * 3600 + L.lm[5] * 60 + L.lm[6] ELSE 0
      tag == IF E.p THEN E.t ELSE S_ZZ
      H(p, t) == [p |-> p, t |-> t]
      no == H(FALSE, <<>>)
      mk(m, inm, im, ims, ifr, rg) ==
        [method |-> m, inm_p |-> inm.p, inm |-> inm.t, im_p |-> im.p, im |-> im.t, ims_p |-> ims.p, ims |-> ims.t,
         ifr_p |-> ifr.p, ifr |-> ifr.t, range_p |-> rg.p, range |-> rg.t]
      r == x.rq IN
  IF r = "plain" THEN mk("GET", no, no, no, no, no)
  ELSE IF r = "head" THEN mk("HEAD", no, no, no, no, no)
  ELSE IF r = "post" THEN mk("POST", H(TRUE, tag), no, no, no, no)
  ELSE IF r = "inm_match" THEN mk("GET", H(TRUE, tag), no, no, no, no)
  ELSE IF r = "head_inm_match" THEN mk("HEAD", H(TRUE, tag), no, no, no, no)
  ELSE IF r = "inm_other" THEN mk("GET", H(TRUE, S_ZZ), no, no, no, no)
  ELSE IF r = "inm_star" THEN mk("GET", H(TRUE, <<STAR>>), no, no, no, no)
  ELSE IF r = "ims_eq" THEN mk("GET", no, no, H(TRUE, HttpDate(lmd, lms)), no, no)
  ELSE IF r = "ims_before" THEN mk("GET", no, no, H(TRUE, HttpDate(lmd - 1, lms)), no, no)
  ELSE IF r = "im_other" THEN (IF E.p THEN mk("GET", no, H(TRUE, S_ZZ), no, no, no) ELSE mk("GET", no, no, no, no, no))
  ELSE IF r = "range_sat" THEN mk("GET", no, no, no, no, H(TRUE, S_R12))
  ELSE IF r = "range_unsat" THEN mk("GET", no, no, no, no, H(TRUE, S_R9))
  ELSE IF r = "range_ifr_match" THEN mk("GET", no, no, no, H(TRUE, IF E.p THEN E.t ELSE HttpDate(lmd, lms)), H(TRUE, S_R12))
  ELSE IF r = "range_ifr_other" THEN mk("GET", no, no, no, H(TRUE, S_ZZ), H(TRUE, S_R12))
  ELSE mk("GET", H(TRUE, tag), no, no, no, H(TRUE, S_R12))          \* range_inm_match

\* the validators of this call as Conditional.tla's representation
RepOf(x, E, L) == LET t == IF E.p THEN WholeTag(E.t) ELSE [ok |-> FALSE, weak |-> FALSE, opaque |-> <<>>, next |-> 1] IN
                  [etag_p |-> E.p, etag_opaque |-> t.opaque, etag_weak |-> t.weak, lm_p |-> L.p, lm |-> L.lm,
                   length |-> x.size, len_known |-> TRUE]

IsSf == Family # "sdm"
\* the real validators sent (contract side: base ETag = what an unconditional GET carries)
BaseE == ImplEtag(c)
MReqFull == IF IsSf THEN ReqOf(c, BaseE, ImplLm(c)) ELSE ReqOf(c, [p |-> c.cache, t |-> <<DQ>> \o <<119, 122, 115, 100, 109>> \o <<DQ>>], [p |-> TRUE, lm |-> c.mtime])
\* complete_length=None (a file object that is not a BytesIO): make_conditional cannot process ranges
MReq == IF IsSf /\ ~LenKnown(c) THEN [MReqFull EXCEPT !.range_p = FALSE, !.range = <<>>] ELSE MReqFull
MRep == IF IsSf THEN RepOf(c, BaseE, ImplLm(c))
        ELSE RepOf(c, [p |-> c.cache, t |-> <<DQ>> \o <<119, 122, 115, 100, 109>> \o <<DQ>>], [p |-> TRUE, lm |-> c.mtime])
\* Response.make_conditional as modelled for C11
CM == INSTANCE MCConditional WITH req <- MReq, rep <- MRep, Defects <- {}, MaxLen <- 0, Family <- "none", Methods <- {}

Hd(p, t) == [n |-> IF p THEN 1 ELSE 0, v |-> IF p THEN t ELSE <<>>]
NoHd == Hd(FALSE, <<>>)
BlankObs ==
  [exc |-> "", status |-> 0, h_ct_n |-> 0, h_ct |-> <<>>, h_cd_n |-> 0, h_cd |-> <<>>, h_ce_n |-> 0, h_ce |-> <<>>, h_cl_n |-> 0, h_cl |-> <<>>,
   h_lm_n |-> 0, h_lm |-> <<>>, h_etag_n |-> 0, h_etag |-> <<>>, h_cc_n |-> 0, h_cc |-> <<>>, h_exp_n |-> 0, h_exp |-> <<>>,
   h_xsf_n |-> 0, h_xsf |-> <<>>, h_cr_n |-> 0, h_cr |-> <<>>, body |-> <<>>, isinst |-> TRUE, ma_calls |-> <<>>,
   opened |-> 0, open_now |-> 0, open_end |-> 0, user_open |-> FALSE, user_closed |-> FALSE, fw_used |-> FALSE, passed |-> FALSE]
WithHd(ob, ct, cd, ce, cl, lm, et, cc, ex, xs, cr) ==
  [ob EXCEPT !.h_ct_n = ct.n, !.h_ct = ct.v, !.h_cd_n = cd.n, !.h_cd = cd.v, !.h_ce_n = ce.n, !.h_ce = ce.v, !.h_cl_n = cl.n, !.h_cl = cl.v,
             !.h_lm_n = lm.n, !.h_lm = lm.v, !.h_etag_n = et.n, !.h_etag = et.v, !.h_cc_n = cc.n, !.h_cc = cc.v, !.h_exp_n = ex.n, !.h_exp = ex.v,
             !.h_xsf_n = xs.n, !.h_xsf = xs.v, !.h_cr_n = cr.n, !.h_cr = cr.v]

ImplType ==
  LET m == IF c.mt_p THEN c.mt
           ELSE IF D("dn_type_path") /\ IsPathKind(c) THEN (IF c.pg_p THEN c.pg ELSE S_OCTET)
           ELSE IF NameP(c) /\ c.g_p THEN c.g ELSE S_OCTET IN
  IF ~D("no_charset") /\ (TextLike(m) \/ TextMaybe(m)) THEN m \o S_CHARSET ELSE m

ImplCacheControl ==
  LET m == MaEff(c) IN
  IF m.p /\ m.n > 0 THEN PUBLIC \o S_COMMASP \o S_MAXAGEEQ \o DigitsOf(m.n)
  ELSE IF m.p THEN NOCACHE \o S_COMMASP \o S_MAXAGEEQ \o DigitsOf(0)
  ELSE IF D("public_always") THEN PUBLIC ELSE NOCACHE

ImplMaCalls ==
  IF ~(c.ma_mode \in {"call", "callnone"}) THEN <<>>
  ELSE IF D("ma_nopath") THEN <<[k |-> "none", v |-> <<>>]>>
  ELSE IF D("ma_pathlike") /\ c.kind = "pathlike" THEN <<[k |-> "other", v |-> c.path]>>
  ELSE IF IsPathKind(c) THEN <<[k |-> "str", v |-> c.path]>> ELSE <<[k |-> "none", v |-> <<>>]>>

\* Call: the response object send_file returns (status and headers as they leave make_conditional), or the exception
ImplCall ==
  LET np == NameP(c)
      xa == XsfActive(c)
      e1 == IF ~c.mt_p /\ ~np /\ ~D("nomime_default") THEN "TypeError" ELSE ""
      e2 == IF np THEN (IF HasNewline(CdText(c)) THEN "ValueError" ELSE "")
            ELSE IF c.att /\ ~D("att_ignored") THEN "TypeError" ELSE ""
      e3 == IF xa THEN (IF HasNewline(c.path) THEN "ValueError" ELSE "")
            ELSE IF IsTextKind(c) /\ ~D("text_accepted") THEN "ValueError" ELSE ""
      exc0 == IF c.api = "sfd" /\ ~c.exists THEN (IF D("sfd_nocheck") THEN "FileNotFoundError" ELSE "NotFound")
              ELSE IF e1 # "" THEN e1 ELSE IF e2 # "" THEN e2 ELSE e3
      reads == ~xa \/ D("xsf_reads")
      opened == IF IsPathKind(c) /\ reads THEN 1 ELSE 0
      sizeKnown == IsPathKind(c) \/ (c.kind = "bytesio" /\ ~D("cl_missing"))
      E == BaseE
      L == ImplLm(c)
      m == MaEff(c)
      co == IF c.cond THEN CM!ImplObs ELSE CM!FullObs(200)
      st == co.status
      raised416 == st = 416
      bodySent == reads /\ st # 304 /\ MReq.method # "HEAD"
      base == [BlankObs EXCEPT !.status = st, !.opened = opened, !.ma_calls = ImplMaCalls,
                               !.isinst = ~(D("class_ignored") /\ c.rclass = "sub"),
                               !.fw_used = c.fw /\ reads /\ ~D("fw_ignored"),
                               !.body = IF bodySent THEN co.body ELSE <<>>] IN
  IF exc0 # "" THEN [BlankObs EXCEPT !.exc = exc0, !.status = IF exc0 = "NotFound" THEN 404 ELSE 0]
  ELSE IF raised416 THEN
       [base EXCEPT !.exc = "RequestedRangeNotSatisfiable", !.body = <<>>,
                    !.open_now = IF D("open416") THEN opened ELSE 0, !.open_end = IF D("open416") THEN opened ELSE 0,
                    !.user_open = FALSE, !.user_closed = ~IsPathKind(c)]
  ELSE WithHd([base EXCEPT !.open_now = opened, !.user_open = ~IsPathKind(c)],
              Hd(TRUE, ImplType),
              Hd(np, CdText(c)),
              Hd(~c.mt_p /\ np /\ c.ge_p /\ (~c.att \/ D("ce_on_attachment")), c.ge),
              IF st = 206 THEN Hd(TRUE, co.cl) ELSE Hd(sizeKnown, DigitsOf(c.size)),
              Hd(L.p, DateOfLm(L.lm)),
              Hd(E.p, E.t),
              Hd(TRUE, ImplCacheControl),
              Hd(m.p, DateOfEpoch(Now0 + m.n)),
              Hd(xa /\ st # 304, c.path),
              Hd(st = 206, co.cr))

\* Serve: get_wsgi_headers (a 304 loses its entity headers except Expires) and get_app_iter
ImplServe ==
  IF o.status # 304 THEN o
  ELSE [o EXCEPT !.h_ct_n = 0, !.h_ct = <<>>, !.h_ce_n = 0, !.h_ce = <<>>, !.h_cl_n = 0, !.h_cl = <<>>, !.h_lm_n = 0, !.h_lm = <<>>,
                 !.h_cr_n = 0, !.h_cr = <<>>, !.body = <<>>]
\* Close: the iterable handed to the server closes the file wrapper
ImplClose ==
  LET keep == D("open304") /\ o.status = 304 IN
  [o EXCEPT !.open_end = IF keep THEN o.open_now ELSE 0, !.open_now = IF keep THEN o.open_now ELSE 0,
            !.user_closed = o.user_open /\ ~keep, !.user_open = o.user_open /\ keep]

\* ------------------------------------------------------------------ SharedDataMiddleware.__call__, written like the code
SdmTag == <<DQ>> \o <<119, 122, 115, 100, 109>> \o <<DQ>>          \* "wzsdm" + opaque rest: the model keeps one fixed tag
ImplSdm ==
  LET mime0 == IF c.g_p THEN c.g ELSE c.fallback
      mime == IF ~D("sdm_nocharset") /\ (TextLike(mime0) \/ TextMaybe(mime0)) THEN mime0 \o S_CHARSET ELSE mime0
      co == IF c.cache THEN CM!ImplObs ELSE CM!FullObs(200)
      st == co.status
      cc == IF c.cache THEN Hd(TRUE, S_MAXAGEEQ \o DigitsOf(c.timeout) \o S_COMMASP \o PUBLIC)
            ELSE Hd(D("sdm_public_nocache"), PUBLIC)
      base == [BlankObs EXCEPT !.status = st, !.opened = 1, !.passed = FALSE] IN
  IF ~c.exists THEN [BlankObs EXCEPT !.status = 404, !.passed = TRUE]
  ELSE IF st = 304 THEN
       WithHd([base EXCEPT !.open_end = IF D("sdm_open304") THEN 1 ELSE 0],
              NoHd, NoHd, NoHd, NoHd, NoHd, Hd(TRUE, SdmTag), cc, NoHd, NoHd, NoHd)
  ELSE WithHd([base EXCEPT !.body = DataSlice(0, c.size)],          \* the wrapped file is returned whatever the method
              Hd(TRUE, mime), NoHd, NoHd, Hd(TRUE, DigitsOf(c.size)), Hd(TRUE, DateOfLm(c.mtime)), Hd(c.cache, SdmTag), cc,
              Hd(c.cache, DateOfEpoch(Now0 + c.timeout)), NoHd, NoHd)

\* ------------------------------------------------------------------ behaviours
Init == c \in Inputs /\ ph = "args" /\ o = BlankObs
CallA == /\ ph = "args" /\ IsSf
         /\ o' = ImplCall
         /\ ph' = IF o'.exc # "" THEN "raised" ELSE "returned"
         /\ UNCHANGED c
ServeA == ph = "returned" /\ o' = ImplServe /\ ph' = "served" /\ UNCHANGED c
CloseA == ph = "served" /\ o' = ImplClose /\ ph' = "closed" /\ UNCHANGED c
SdmA == ph = "args" /\ ~IsSf /\ o' = ImplSdm /\ ph' = "closed" /\ UNCHANGED c
Next == CallA \/ ServeA \/ CloseA \/ SdmA
Final == ph \in {"raised", "closed"}

\* the line the contract judges: arguments + environment + request texts + base ETag + observation
Line == LET rq == MReqFull E == IF IsSf THEN BaseE ELSE [p |-> c.cache, t |-> SdmTag] IN
        c @@ rq @@ [b_etag_n |-> IF E.p THEN 1 ELSE 0, b_etag |-> E.t] @@ o

TheVerdict == IF IsSf THEN SfVerdict(Line) ELSE VerdictSdm(Line)
TheDrift == IF IsSf THEN Drift(Line) ELSE DriftSdm(Line)
ImplMeetsContract == IF Final /\ TheVerdict # "ok" THEN PrintT(<<"clause", TheVerdict, Line>>) /\ FALSE ELSE TRUE
\* the behaviours of the code as it is that the documentation does not cover (reported as drift by the judge)
KnownDrift == {"", "max_age=0: Cache-Control is not public", "no Content-Length for a seekable binary file object",
               "X-Sendfile combined with a 206", "SharedDataMiddleware: body sent for HEAD",
               "SharedDataMiddleware: encoded file served without Content-Encoding"}
ImplNoDrift == IF Final /\ ~(TheDrift \in KnownDrift) THEN PrintT(<<"drift", TheDrift, Line>>) /\ FALSE ELSE TRUE
UniverseInDomain == Final => TheVerdict # "OutOfDomain"

\* ---- internal laws of the model
\* RFC 6266 / 8187: the two filename parameters denote the same name
LawStarDenotesName ==
  (IsSf /\ ph = "args" /\ NameP(c) /\ ~IsAsciiSeq(Name(c))) =>
    /\ Utf8Dec(PctDecode(StarValue(Name(c)))) = Name(c)
    /\ IsAsciiSeq(CdText(c))
    /\ IsSubseq(AsciiOf(Name(c)), Concat(c.fold))
\* no CR / LF / quote injection: what is serialised parses back to exactly the disposition and the name(s)
LawRoundTrip ==
  (IsSf /\ ph = "args" /\ NameP(c) /\ ~HasNewline(CdText(c))) =>
    LET cd == ParseCD(CdText(c)) IN
    /\ cd.ok /\ cd.disp = (IF c.att THEN S_ATTACHMENT ELSE S_INLINE)
    /\ Len(cd.ps) = (IF IsAsciiSeq(Name(c)) THEN 1 ELSE 2)
    /\ cd.ps[1].key = S_FILENAME /\ cd.ps[1].val = (IF IsAsciiSeq(Name(c)) THEN Name(c) ELSE Concat(c.fold))
\* header presence implications
LawPresence ==
  (IsSf /\ Final /\ o.exc = "") =>
    /\ o.h_ce_n = 1 => (~c.att /\ ~c.mt_p /\ c.ge_p)
    /\ o.h_xsf_n = 1 => (IsPathKind(c) /\ c.xsf /\ o.body = <<>> /\ o.opened = 0 /\ o.status # 304)
    /\ o.status = 304 => (c.cond /\ o.body = <<>> /\ MReq.method \in {"GET", "HEAD"} /\ o.h_cl_n = 0 /\ o.h_ct_n = 0)
    /\ o.status = 206 => (c.cond /\ o.h_cr_n = 1 /\ LenKnown(c))
    /\ o.status = 200 => (o.h_exp_n = 1 <=> MaEff(c).p)
    /\ o.h_cd_n = 1 <=> NameP(c)
    /\ o.h_etag_n = 1 => (c.etag_mode = "given" \/ IsPathKind(c))
    /\ o.opened = 1 => IsPathKind(c)
    /\ o.status \in {200, 206, 304, 412}
\* life cycle of the file
LawLifecycle ==
  /\ (IsSf /\ ph \in {"returned", "served"}) => (o.open_now = o.opened /\ (o.user_open <=> ~IsPathKind(c)))
  /\ ph = "closed" => (o.open_end = 0 /\ o.open_now = 0 /\ ~o.user_open)
  /\ (ph = "raised") => o.open_now = 0
\* the spec's own date formatter and parser agree (leap days, century rule, the dates of the universe)
DatesAgree ==
  \A day \in {0, 58, 59, 60, 365, 789, 11015, 11016, 11017, 19781, 19782, 19783, 20363, 20364, 20729, 24836, 47540, 47541} :
    \A sec \in {0, 1, 3599, 43200, 86398, 86399} :
      LET p == ParseDate(HttpDate(day, sec)) IN p.ok /\ p.day = day /\ p.sec = sec
ASSUME LawDates == DatesAgree

\* ---- export: one row per call with the model's final observation
NoNext == FALSE /\ UNCHANGED vars
\* (the call without the parts the replayer takes from its own tree: bytes, stat, clock)
CallKeys == DOMAIN c \ {"data", "size", "mtime", "mtime_repr", "t_before", "t_after", "pg_p", "pg", "given"}
ObsKeys == DOMAIN o \ {"open_now", "user_open"}
Row == [api |-> IF IsSf THEN c.api ELSE "sdm", c |-> [k \in CallKeys |-> c[k]], exp |-> [k \in ObsKeys |-> o[k]]]
Export == IF Final THEN PrintT(ToJson(Row)) ELSE TRUE
=============================================================================
