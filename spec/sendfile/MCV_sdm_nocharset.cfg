CONSTANTS
  Defects = {"sdm_nocharset"}
  Family = "sdm"
  Deep = FALSE
INIT Init
NEXT Next
CHECK_DEADLOCK FALSE
INVARIANT ImplMeetsContract
