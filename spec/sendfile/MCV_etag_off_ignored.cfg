CONSTANTS
  Defects = {"etag_off_ignored"}
  Family = "cache_small"
  Deep = FALSE
INIT Init
NEXT Next
CHECK_DEADLOCK FALSE
INVARIANT ImplMeetsContract
