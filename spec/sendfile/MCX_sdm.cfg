CONSTANTS
  Defects = {}
  Family = "sdm"
  Deep = FALSE
INIT Init
NEXT Next
CHECK_DEADLOCK FALSE
INVARIANT Export
