CONSTANTS
  Defects = {"open304"}
  Family = "cache_small"
  Deep = FALSE
INIT Init
NEXT Next
CHECK_DEADLOCK FALSE
INVARIANT LawLifecycle
