INIT Init
NEXT Next
POSTCONDITION Done
CHECK_DEADLOCK FALSE
