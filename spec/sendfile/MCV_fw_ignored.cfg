CONSTANTS
  Defects = {"fw_ignored"}
  Family = "errors"
  Deep = TRUE
INIT Init
NEXT Next
CHECK_DEADLOCK FALSE
INVARIANT ImplMeetsContract
