CONSTANTS
  Defects = {"sfd_nocheck"}
  Family = "errors_small"
  Deep = FALSE
INIT Init
NEXT Next
CHECK_DEADLOCK FALSE
INVARIANT ImplMeetsContract
