CONSTANTS
  Defects = {"no_charset"}
  Family = "names_small"
  Deep = FALSE
INIT Init
NEXT Next
CHECK_DEADLOCK FALSE
INVARIANT ImplMeetsContract
