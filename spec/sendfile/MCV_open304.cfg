CONSTANTS
  Defects = {"open304"}
  Family = "cache"
  Deep = FALSE
INIT Init
NEXT Next
CHECK_DEADLOCK FALSE
INVARIANT ImplMeetsContract
