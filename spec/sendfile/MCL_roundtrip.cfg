CONSTANTS
  Defects = {"quote_unescaped"}
  Family = "names_small"
  Deep = FALSE
INIT Init
NEXT Next
CHECK_DEADLOCK FALSE
INVARIANT LawRoundTrip
