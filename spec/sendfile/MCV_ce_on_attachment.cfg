CONSTANTS
  Defects = {"ce_on_attachment"}
  Family = "names_small"
  Deep = FALSE
INIT Init
NEXT Next
CHECK_DEADLOCK FALSE
INVARIANT ImplMeetsContract
