CONSTANTS
  Defects = {"nomime_default"}
  Family = "errors_small"
  Deep = FALSE
INIT Init
NEXT Next
CHECK_DEADLOCK FALSE
INVARIANT ImplMeetsContract
