CONSTANTS
  Defects = {"text_accepted"}
  Family = "errors"
  Deep = FALSE
INIT Init
NEXT Next
CHECK_DEADLOCK FALSE
INVARIANT ImplMeetsContract
