CONSTANTS
  Defects = {}
  Family = "cache"
  Deep = TRUE
INIT Init
NEXT Next
CHECK_DEADLOCK FALSE
INVARIANT Export
