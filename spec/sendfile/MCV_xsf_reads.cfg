CONSTANTS
  Defects = {"xsf_reads"}
  Family = "cache"
  Deep = FALSE
INIT Init
NEXT Next
CHECK_DEADLOCK FALSE
INVARIANT ImplMeetsContract
