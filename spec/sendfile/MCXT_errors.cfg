CONSTANTS
  Defects = {}
  Family = "errors"
  Deep = TRUE
INIT Init
NEXT Next
CHECK_DEADLOCK FALSE
INVARIANT Export
