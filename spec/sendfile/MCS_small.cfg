CONSTANTS
  Defects = {}
  Family = "small"
  Deep = FALSE
INIT Init
NEXT Next
CHECK_DEADLOCK FALSE
INVARIANT ImplMeetsContract
INVARIANT ImplNoDrift
INVARIANT UniverseInDomain
INVARIANT LawStarDenotesName
INVARIANT LawRoundTrip
INVARIANT LawPresence
INVARIANT LawLifecycle
