CONSTANTS
  Defects = {"sdm_open304"}
  Family = "sdm"
  Deep = FALSE
INIT Init
NEXT Next
CHECK_DEADLOCK FALSE
INVARIANT ImplMeetsContract
