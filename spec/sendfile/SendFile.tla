------------------------------ MODULE SendFile ------------------------------
(* X09 -- werkzeug.utils.send_file (send_from_directory, and the header logic of            *)
(* SharedDataMiddleware) as a decision procedure from its arguments and the environment      *)
(* (file system, mimetypes table, Unicode database, clock) to the WSGI response.             *)
(*                                                                                           *)
(* One *line* (a flat record; the trace judge gets it from the recorder, the bounded model   *)
(* builds it from its own implementation-shaped decision procedure) is one call:             *)
(*   arguments   api "sf" | "sfd", kind "path" | "pathlike" | "relpath" | "bytesio" |        *)
(*               "binfile" | "pipe" | "textio" | "textfile", path (absolute, code points;    *)
(*               <<>> for a file object), given (the path as passed), mt_p / mt, att,        *)
(*               dn_p / dn, cond, etag_mode "auto" | "off" | "given" + etag_given,           *)
(*               lm_mode "none" | "int" | "float" | "dt" | "aware" + lm_arg (UTC 7-tuple),   *)
(*               ma_mode "none" | "int" | "call" | "callnone" + ma, xsf, rclass, fw          *)
(*               (environ carries wsgi.file_wrapper), the request (method, inm_p / inm, ...)  *)
(*   environment g_p / g, ge_p / ge (mimetypes.guess_type of the effective name), fold (per  *)
(*               code point of the effective name: its NFKD decomposition restricted to      *)
(*               ASCII), size, data, mtime (UTC 7-tuple), mtime_repr, b_etag_n / b_etag (the *)
(*               ETag of an unconditional GET with the same arguments), exists (sfd),        *)
(*               t_before / t_after (epoch seconds around the call)                          *)
(*   observation exc, status, h_X_n / h_X for X in ct cd ce cl lm etag cc exp xsf cr ar (as  *)
(*               given to start_response), body, isinst, ma_calls, opened / open_end (files  *)
(*               werkzeug opened itself / of those still open after the server closed the    *)
(*               response or the call raised), user_closed, fw_used.                         *)
(*                                                                                           *)
(* SfVerdict(ln) names the violated clause or "ok".  Every clause quotes the sentence of the    *)
(* documentation (docstring of send_file unless said otherwise) it is taken from.  What the   *)
(* documentation does not state is in Drift(ln): reported, never a verdict.                   *)
(* Conditional / range outcomes are judged by the C11 contract (Conditional.tla, reused       *)
(* unchanged through FileValidators).                                                         *)
EXTENDS FileValidators, Text

S_OCTET == <<97, 112, 112, 108, 105, 99, 97, 116, 105, 111, 110, 47, 111, 99, 116, 101, 116, 45, 115, 116, 114, 101, 97, 109>> \* 'application/octet-stream'
S_CHARSET == <<59, 32, 99, 104, 97, 114, 115, 101, 116, 61, 117, 116, 102, 45, 56>>                  \* '; charset=utf-8'
S_TEXT == <<116, 101, 120, 116, 47>>                                                                 \* 'text/'
S_XML == <<43, 120, 109, 108>>                                                                       \* '+xml'
S_APPJS == <<97, 112, 112, 108, 105, 99, 97, 116, 105, 111, 110, 47, 106, 97, 118, 97, 115, 99, 114, 105, 112, 116>> \* 'application/javascript'
S_APP_ECMA == <<97, 112, 112, 108, 105, 99, 97, 116, 105, 111, 110, 47, 101, 99, 109, 97, 115, 99, 114, 105, 112, 116>> \* 'application/ecmascript'
S_APP_SQL == <<97, 112, 112, 108, 105, 99, 97, 116, 105, 111, 110, 47, 115, 113, 108>>               \* 'application/sql'
S_APP_XML == <<97, 112, 112, 108, 105, 99, 97, 116, 105, 111, 110, 47, 120, 109, 108>>               \* 'application/xml'
S_APP_XMLDTD == <<97, 112, 112, 108, 105, 99, 97, 116, 105, 111, 110, 47, 120, 109, 108, 45, 100, 116, 100>> \* 'application/xml-dtd'
S_APP_XMLEPE == <<97, 112, 112, 108, 105, 99, 97, 116, 105, 111, 110, 47, 120, 109, 108, 45, 101, 120, 116, 101, 114, 110, 97, 108, 45, 112, 97, 114, 115, 101, 100, 45, 101, 110, 116, 105, 116, 121>> \* 'application/xml-external-parsed-entity'
S_FILENAME == <<102, 105, 108, 101, 110, 97, 109, 101>>                                              \* 'filename'
S_FILENAMESTAR == <<102, 105, 108, 101, 110, 97, 109, 101, 42>>                                      \* 'filename*'
S_ATTACHMENT == <<97, 116, 116, 97, 99, 104, 109, 101, 110, 116>>                                    \* 'attachment'
S_INLINE == <<105, 110, 108, 105, 110, 101>>                                                         \* 'inline'
S_UTF8L == <<117, 116, 102, 45, 56>>                                                                 \* 'utf-8'
S_MAXAGE == <<109, 97, 120, 45, 97, 103, 101>>                                                       \* 'max-age'

BSL == 92
SEMI == 59
SQ == 39
SLASH == 47

\* RFC 7230 tchar / RFC 8187 attr-char
IsTChar(c) == IsAlnum(c) \/ c \in {33, 35, 36, 37, 38, 39, 42, 43, 45, 46, 94, 95, 96, 124, 126}
IsAttrChar(c) == IsAlnum(c) \/ c \in {33, 35, 36, 38, 43, 45, 46, 94, 95, 96, 124, 126}
IsToken(s) == s # <<>> /\ \A i \in 1..Len(s) : IsTChar(s[i])
EndsWith(s, suf) == Len(suf) <= Len(s) /\ \A i \in 1..Len(suf) : s[Len(s) - Len(suf) + i] = suf[i]
HasNewline(s) == \E i \in 1..Len(s) : s[i] = CR \/ s[i] = LF
HasCtl(s) == \E i \in 1..Len(s) : (s[i] < 32 /\ s[i] # TAB) \/ s[i] = 127

\* ------------------------------------------------------------------ the call
IsPathKind(ln) == ln.kind \in {"path", "pathlike", "relpath"}
IsTextKind(ln) == ln.kind \in {"textio", "textfile"}
LenKnown(ln) == ln.kind \in {"path", "pathlike", "relpath", "bytesio"}      \* the kinds whose size the server side can know
LastSlash(p) == LET H == {i \in 1..Len(p) : p[i] = SLASH} IN IF H = {} THEN 0 ELSE CHOOSE i \in H : \A j \in H : j <= i
Basename(p) == Drop(p, LastSlash(p))
\* "download_name: The default name browsers will use when saving the file. Defaults to the passed file name."
NameP(ln) == ln.dn_p \/ IsPathKind(ln)
Name(ln) == IF ln.dn_p THEN ln.dn ELSE Basename(ln.path)
XsfActive(ln) == ln.xsf /\ IsPathKind(ln)

Domain(ln) ==
  /\ ln.api \in {"sf", "sfd"}
  /\ ln.kind \in {"path", "pathlike", "relpath", "bytesio", "binfile", "pipe", "textio", "textfile"}
  /\ ln.api = "sfd" => ln.kind = "path"
  /\ ln.etag_mode \in {"auto", "off", "given"} /\ ln.lm_mode \in {"none", "int", "float", "dt", "aware"}
  /\ ln.ma_mode \in {"none", "int", "call", "callnone"} /\ ln.ma >= 0
  /\ Len(ln.lm_arg) = 7 /\ Len(ln.mtime) = 7
  /\ IsPathKind(ln) <=> ln.path # <<>>
  /\ NameP(ln) => Len(ln.fold) = Len(Name(ln))
  /\ ln.etag_mode = "given" => DQ \notin Range(ln.etag_given)

\* ------------------------------------------------------------------ calls that cannot be answered
\* "mimetype: The MIME type to send for the file. If not provided, it will try to detect it from the file name."
\*   -- without a name there is nothing to detect it from: "Unable to detect the MIME type because a file name is not
\*   available. Either set 'download_name', pass a path instead of a file, or set 'mimetype'."
\* "as_attachment: Indicate to a browser that it should offer to save the file" -- "No name provided for attachment.
\*   Either set 'download_name' or pass a path instead of a file."
\* "Passing a file-like object requires that the file is opened in binary mode" -- "Files must be opened in binary mode
\*   or use BytesIO."
MustRaise(ln) ==
  IF ~ln.mt_p /\ ~NameP(ln) THEN "Raises/NoMimetype"
  ELSE IF ln.att /\ ~NameP(ln) THEN "Raises/AttachmentNoName"
  ELSE IF IsTextKind(ln) THEN "Raises/TextMode"
  ELSE ""

\* ------------------------------------------------------------------ Content-Type
\* "mimetype: The MIME type to send for the file. If not provided, it will try to detect it from the file name."
\* CHANGES 2.0: "guessing mimetype from download_name"; undetectable: application/octet-stream (the fallback the
\* SharedDataMiddleware documents: "The default fallback_mimetype is application/octet-stream").
\* get_content_type: "If the mimetype represents text, the charset parameter will be appended, otherwise the mimetype
\* is returned unchanged."  "Any type that ends with +xml gets a charset ... Known text types such as
\* application/javascript are also given charsets."  (which other application/ types are "known text types" is not
\* listed in the documentation: for the five others the code knows both forms are accepted)
TextLike(m) == IsPrefixOf(S_TEXT, m) \/ EndsWith(m, S_XML) \/ m = S_APPJS
TextMaybe(m) == m \in {S_APP_ECMA, S_APP_SQL, S_APP_XML, S_APP_XMLDTD, S_APP_XMLEPE}
EffType(ln) == IF ln.mt_p THEN ln.mt ELSE IF NameP(ln) /\ ln.g_p THEN ln.g ELSE S_OCTET
TypeClause(m, n, ct) ==
  IF n # 1 THEN "ContentType/Missing"
  ELSE IF ~(ct \in {m, m \o S_CHARSET}) THEN "ContentType/Type"
  ELSE IF TextLike(m) /\ ct = m THEN "ContentType/Charset"
  ELSE IF ~TextLike(m) /\ ~TextMaybe(m) /\ ct # m THEN "ContentType/Charset"
  ELSE "ok"
CtClause(ln) == TypeClause(EffType(ln), ln.h_ct_n, ln.h_ct)

\* ------------------------------------------------------------------ Content-Encoding
\* versionchanged 2.0: "If an encoding is returned when guessing mimetype from download_name, set the Content-Encoding
\* header."  versionchanged 2.0.2: "send_file only sets a detected Content-Encoding if as_attachment is disabled."
\* (a given mimetype: nothing is guessed; whether the encoding of the name is still sent is not stated: drift)
CeClause(ln) ==
  IF ln.att THEN (IF ln.h_ce_n = 0 THEN "ok" ELSE "ContentEncoding/Attachment")
  ELSE IF ~(NameP(ln) /\ ln.ge_p) THEN (IF ln.h_ce_n = 0 THEN "ok" ELSE "ContentEncoding/Invented")
  ELSE IF ln.mt_p THEN (IF ln.h_ce_n = 0 \/ (ln.h_ce_n = 1 /\ ln.h_ce = ln.ge) THEN "ok" ELSE "ContentEncoding/Value")
  ELSE IF ln.h_ce_n = 1 /\ ln.h_ce = ln.ge THEN "ok" ELSE "ContentEncoding/Detected"

\* ------------------------------------------------------------------ Content-Disposition (RFC 6266, RFC 8187)
\* one header value = disposition-type *( ";" OWS parameter ); a parameter value is a token or a quoted-string;
\* "filename*" carries an ext-value  charset "'" [language] "'" *( attr-char / pct-encoded ).
RECURSIVE SplitParams(_, _, _, _)
SplitParams(s, p, cur, inq) ==
  IF p > Len(s) THEN [ok |-> ~inq, parts |-> <<cur>>]
  ELSE LET ch == s[p] IN
       IF inq THEN (IF ch = BSL /\ p < Len(s) THEN SplitParams(s, p + 2, cur \o <<ch, s[p + 1]>>, TRUE)
                    ELSE IF ch = DQ THEN SplitParams(s, p + 1, Append(cur, ch), FALSE)
                    ELSE SplitParams(s, p + 1, Append(cur, ch), TRUE))
       ELSE IF ch = DQ THEN SplitParams(s, p + 1, Append(cur, ch), TRUE)
       ELSE IF ch = SEMI THEN (LET r == SplitParams(s, p + 1, <<>>, FALSE) IN [ok |-> r.ok, parts |-> <<cur>> \o r.parts])
       ELSE SplitParams(s, p + 1, Append(cur, ch), FALSE)

RECURSIVE Unescape(_)
Unescape(s) == IF s = <<>> THEN <<>>
               ELSE IF Head(s) = BSL /\ Len(s) >= 2 THEN <<s[2]>> \o Unescape(Drop(s, 2))
               ELSE <<Head(s)>> \o Unescape(Tail(s))
\* the inside of a quoted-string: no bare DQUOTE, no dangling backslash
RECURSIVE QInnerOk(_)
QInnerOk(s) == IF s = <<>> THEN TRUE
               ELSE IF Head(s) = BSL THEN Len(s) >= 2 /\ QInnerOk(Drop(s, 2))
               ELSE Head(s) # DQ /\ QInnerOk(Tail(s))

BadParam == [ok |-> FALSE, key |-> <<>>, val |-> <<>>, ext |-> FALSE]
ParamOf(p0) ==
  LET p == Strip(p0) k == IndexOf(p, EQ) IN
  IF k <= 1 THEN BadParam
  ELSE LET key == Sub(p, 1, k - 1) v == Sub(p, k + 1, Len(p)) IN
       IF ~IsToken(key) THEN BadParam
       ELSE IF key[Len(key)] = STAR THEN [ok |-> TRUE, key |-> Lower(key), val |-> v, ext |-> TRUE]
       ELSE IF v # <<>> /\ v[1] = DQ THEN
            (IF Len(v) >= 2 /\ v[Len(v)] = DQ /\ QInnerOk(Sub(v, 2, Len(v) - 1))
             THEN [ok |-> TRUE, key |-> Lower(key), val |-> Unescape(Sub(v, 2, Len(v) - 1)), ext |-> FALSE] ELSE BadParam)
       ELSE IF IsToken(v) THEN [ok |-> TRUE, key |-> Lower(key), val |-> v, ext |-> FALSE]
       ELSE BadParam

BadCD == [ok |-> FALSE, disp |-> <<>>, ps |-> <<>>]
ParseCD(t) ==
  LET sp == SplitParams(t, 1, <<>>, FALSE) IN
  IF ~sp.ok THEN BadCD
  ELSE LET disp == Lower(Strip(sp.parts[1]))
           ps == [i \in 1..(Len(sp.parts) - 1) |-> ParamOf(sp.parts[i + 1])] IN
       IF ~IsToken(disp) \/ \E i \in 1..Len(ps) : ~ps[i].ok THEN BadCD
       ELSE [ok |-> TRUE, disp |-> disp, ps |-> ps]

BadExt == [ok |-> FALSE, charset |-> <<>>, lang |-> <<>>, chars |-> <<>>]
ParseExt(v) ==
  LET q1 == IndexOf(v, SQ) IN
  IF q1 = 0 THEN BadExt
  ELSE LET rest == Drop(v, q1) q2 == IndexOf(rest, SQ) IN
       IF q2 = 0 THEN BadExt
       ELSE [ok |-> TRUE, charset |-> Lower(Sub(v, 1, q1 - 1)), lang |-> Sub(rest, 1, q2 - 1), chars |-> Drop(rest, q2)]
RECURSIVE ValueCharsOk(_, _)
ValueCharsOk(s, p) == IF p > Len(s) THEN TRUE
                      ELSE IF s[p] = PCT THEN p + 2 <= Len(s) /\ IsHex(s[p + 1]) /\ IsHex(s[p + 2]) /\ ValueCharsOk(s, p + 3)
                      ELSE IsAttrChar(s[p]) /\ ValueCharsOk(s, p + 1)

RECURSIVE IsSubseq(_, _)
IsSubseq(a, b) == IF a = <<>> THEN TRUE ELSE IF b = <<>> THEN FALSE
                  ELSE IF Head(a) = Head(b) THEN IsSubseq(Tail(a), Tail(b)) ELSE IsSubseq(a, Tail(b))
AsciiOf(s) == SelectSeq(s, LAMBDA c : c < 128)

\* "as_attachment: Indicate to a browser that it should offer to save the file instead of displaying it."
\* "download_name: The default name browsers will use when saving the file. Defaults to the passed file name."
\* versionchanged 2.0: "If as_attachment=False, it is passed with Content-Disposition: inline instead."
\* RFC 6266 4.3 / RFC 8187 3.2 (the code: "safe = RFC 5987 attr-char"): a name outside ASCII goes into filename* as
\*   UTF-8''<percent-encoded UTF-8>, next to an ASCII-only filename fallback.  Both must denote the name asked for:
\*   filename* decodes to exactly that name; the fallback is ASCII and keeps every ASCII character of it in order
\*   (which ASCII replacement stands for the other characters is not specified: compared with NFKD as drift).
\* No injection: whatever the name contains, the header is one well-formed value without CR / LF whose parameters
\*   are exactly filename (and filename* for a non-ASCII name).
CdClause(ln) ==
  IF ~NameP(ln) THEN
     (IF ln.h_cd_n = 0 THEN "ok"
      ELSE LET cd == ParseCD(ln.h_cd) IN IF ln.h_cd_n = 1 /\ cd.ok /\ cd.ps = <<>> THEN "ok" ELSE "Disposition/InventedName")
  ELSE IF ln.h_cd_n # 1 THEN "Disposition/Missing"
  ELSE IF HasNewline(ln.h_cd) THEN "Disposition/NoInjection"
  ELSE LET cd == ParseCD(ln.h_cd) name == Name(ln) ascii == IsAsciiSeq(Name(ln)) IN
       IF ~cd.ok THEN "Disposition/WellFormed"
       ELSE IF cd.disp # (IF ln.att THEN S_ATTACHMENT ELSE S_INLINE) THEN "Disposition/Type"
       ELSE LET fn == SelectSeq(cd.ps, LAMBDA q : q.key = S_FILENAME)
                fs == SelectSeq(cd.ps, LAMBDA q : q.key = S_FILENAMESTAR) IN
            IF Len(fn) # 1 \/ Len(fs) # (IF ascii THEN 0 ELSE 1) \/ Len(cd.ps) # Len(fn) + Len(fs) THEN "Disposition/Params"
            ELSE IF ascii THEN (IF fn[1].val = name THEN "ok" ELSE "Disposition/Filename")
            ELSE LET e == ParseExt(fs[1].val) IN
                 IF ~e.ok \/ e.charset # S_UTF8L THEN "Disposition/ExtCharset"
                 ELSE IF ~ValueCharsOk(e.chars, 1) THEN "Disposition/ExtValueChars"
                 ELSE LET bytes == PctDecode(e.chars) IN
                      IF ~Utf8Valid(bytes, 1) THEN "Disposition/ExtDenotesName"
                      ELSE IF Utf8Dec(bytes) # name THEN "Disposition/ExtDenotesName"
                      ELSE IF ~IsAsciiSeq(fn[1].val) THEN "Disposition/FallbackAscii"
                      ELSE IF ~IsSubseq(AsciiOf(name), fn[1].val) THEN "Disposition/FallbackDenotesName"
                      ELSE "ok"

\* ------------------------------------------------------------------ Content-Length, Last-Modified
\* "Paths are preferred in most cases because Werkzeug can manage the file and get extra information from the path."
\* (size: a 200 for a path or an in-memory BytesIO declares the file size; other file objects: a declared length must be
\* the right one, its absence is drift)
ClClause(ln) ==
  IF ln.status # 200 THEN "ok"
  ELSE IF LenKnown(ln) THEN (IF ln.h_cl_n = 1 /\ AllDigits(ln.h_cl) /\ NatVal(ln.h_cl) = ln.size THEN "ok" ELSE "ContentLength")
  ELSE IF ln.h_cl_n = 0 \/ (ln.h_cl_n = 1 /\ AllDigits(ln.h_cl) /\ NatVal(ln.h_cl) = ln.size) THEN "ok" ELSE "ContentLength/Wrong"

\* "last_modified: The last modified time to send for the file, in seconds. If not provided, it will try to detect it
\* from the file path."  (a file object without the argument: there is nothing to detect it from)
LmExpected(ln) == IF ln.lm_mode # "none" THEN [p |-> TRUE, lm |-> ln.lm_arg]
                  ELSE IF IsPathKind(ln) THEN [p |-> TRUE, lm |-> ln.mtime] ELSE [p |-> FALSE, lm |-> ln.mtime]
LmClause(ln) ==
  LET e == LmExpected(ln) d == ParseDate(ln.h_lm) IN
  IF ~e.p THEN (IF ln.h_lm_n = 0 THEN "ok" ELSE "LastModified/Invented")
  ELSE IF ln.h_lm_n # 1 \/ ~d.ok THEN "LastModified/Missing"
  ELSE IF ~Same(d, LmInstant(e.lm)) THEN (IF ln.lm_mode # "none" THEN "LastModified/Argument" ELSE "LastModified/Mtime")
  ELSE "ok"

\* ------------------------------------------------------------------ ETag
\* "etag: Calculate an ETag for the file, which requires passing a file path. Can also be a string to use instead."
\* CHANGES 2.0: "send_file can be called with etag="string" to set a custom ETag instead of generating one."
\* (how the tag is calculated is not documented: drift; C11 checks that it identifies the file state)
EtagClause(ln) ==
  LET t == WholeTag(ln.h_etag) IN
  IF ln.etag_mode = "off" THEN (IF ln.h_etag_n = 0 THEN "ok" ELSE "Etag/Off")
  ELSE IF ln.etag_mode = "given" THEN (IF ln.h_etag_n = 1 /\ t.ok /\ ~t.weak /\ t.opaque = ln.etag_given THEN "ok" ELSE "Etag/Given")
  ELSE IF IsPathKind(ln) THEN
       (IF ~(ln.h_etag_n = 1 /\ t.ok) THEN "Etag/Generated"
        ELSE IF ln.b_etag_n = 1 /\ ln.h_etag # ln.b_etag THEN "Etag/Stable" ELSE "ok")
  ELSE "ok"

\* ------------------------------------------------------------------ Cache-Control, max_age
\* "max_age: How long the client should cache the file, in seconds. If set, Cache-Control will be public, otherwise it
\* will be no-cache to prefer conditional caching."  CHANGES 2.0: "Cache-Control is set to no-cache if max_age is not
\* set, otherwise public."  (max_age = 0: the test-suite pins "no-cache, max-age=0", the sentence says public: both
\* accepted, max-age=0 is demanded)
\* signature: max_age: None | int | Callable[[str | None], int | None]; CHANGES 2.0.1: "Don't pass pathlib.Path to
\* max_age."  (code comment: "Flask will pass app.get_send_file_max_age")  -- the callable receives the path as str,
\* None for a file object; its result is the max_age (None: not set).
MaEff(ln) == IF ln.ma_mode \in {"int", "call"} THEN [p |-> TRUE, n |-> ln.ma] ELSE [p |-> FALSE, n |-> 0]
CcClause(ln) ==
  LET ds == IF ln.h_cc_n = 1 THEN Directives(ln.h_cc) ELSE {}
      m == MaEff(ln)
      anyMaxAge == \E d \in ds : IsPrefixOf(S_MAXAGE, d) IN
  IF ln.h_cc_n # 1 THEN "CacheControl/Missing"
  ELSE IF ~m.p THEN (IF NOCACHE \in ds /\ ~(PUBLIC \in ds) /\ ~anyMaxAge THEN "ok" ELSE "CacheControl/NoCache")
  ELSE IF m.n > 0 THEN (IF ~(MAXAGE(m.n) \in ds) THEN "CacheControl/MaxAge"
                        ELSE IF PUBLIC \in ds /\ ~(NOCACHE \in ds) THEN "ok" ELSE "CacheControl/Public")
  ELSE IF MAXAGE(0) \in ds THEN "ok" ELSE "CacheControl/MaxAge"

MaCallClause(ln) ==
  IF ~(ln.ma_mode \in {"call", "callnone"}) THEN "ok"
  ELSE IF Len(ln.ma_calls) = 0 THEN "MaxAgeCallable/NotCalled"
  ELSE IF \E i \in 1..Len(ln.ma_calls) :
            LET a == ln.ma_calls[i] IN
            IF IsPathKind(ln) THEN ~(a.k = "str" /\ a.v = ln.path) ELSE a.k # "none"
       THEN "MaxAgeCallable/Argument"
  ELSE "ok"

\* ------------------------------------------------------------------ X-Sendfile, response class, file wrapper
\* "if the HTTP server supports X-Sendfile, use_x_sendfile=True will tell the server to send the given path, which is
\* much more efficient than reading it in Python."  "use_x_sendfile: Set the X-Sendfile header to let the server to
\* efficiently send the file. Requires support from the HTTP server. Requires passing a file path."
XsfClause(ln) ==
  IF ~(ln.status \in {200, 206}) THEN "ok"
  ELSE IF XsfActive(ln) THEN
       (IF ~(ln.h_xsf_n = 1 /\ ln.h_xsf \in {ln.path, ln.given}) THEN "XSendfile/Header"
        ELSE IF ln.body # <<>> THEN "XSendfile/Body" ELSE "ok")
  ELSE IF ln.h_xsf_n # 0 THEN "XSendfile/Unrequested" ELSE "ok"

\* "response_class: Build the response using this class. Defaults to Response."
ClassClause(ln) == IF ln.isinst THEN "ok" ELSE "ResponseClass"

\* "If the WSGI server sets a file_wrapper in environ, it is used, otherwise Werkzeug's built-in wrapper is used."
FwClause(ln) == IF ln.fw /\ ~XsfActive(ln) /\ ~ln.fw_used THEN "FileWrapper/Ignored" ELSE "ok"

\* ------------------------------------------------------------------ conditional and range responses (C11 contract)
\* "conditional: Enable conditional and range responses based on request headers. Requires passing a file path and
\* environ."  -- conditional=True: Response.make_conditional semantics, i.e. the contract of Conditional.tla evaluated
\* on the request header texts against the validators this call sends; conditional=False: the complete 200 response.
CReq(ln) == [method |-> ln.method, inm_p |-> ln.inm_p, inm |-> ln.inm, im_p |-> ln.im_p, im |-> ln.im,
             ims_p |-> ln.ims_p, ims |-> ln.ims, ifr_p |-> ln.ifr_p, ifr |-> ln.ifr, range_p |-> ln.range_p, range |-> ln.range]
BaseTag(ln) == IF ln.b_etag_n = 1 THEN WholeTag(ln.b_etag) ELSE [ok |-> FALSE, weak |-> FALSE, opaque |-> <<>>, next |-> 1]
CRep(ln) == LET t == BaseTag(ln) e == LmExpected(ln) IN
            [etag_p |-> t.ok, etag_opaque |-> t.opaque, etag_weak |-> t.weak, lm_p |-> e.p, lm |-> e.lm,
             length |-> ln.size, len_known |-> LenKnown(ln)]
CObs(ln) == [status |-> ln.status, exc |-> ln.exc, cr_n |-> ln.h_cr_n, cr |-> ln.h_cr, cl_n |-> ln.h_cl_n, cl |-> ln.h_cl, body |-> ln.body]
CData(ln) == [data |-> ln.data, hb |-> ln.method # "HEAD" /\ ~XsfActive(ln)]
CondClause(ln) ==
  LET rq == CReq(ln) rp == CRep(ln) ob == CObs(ln) d == CData(ln) IN
  IF ~ln.cond THEN (IF ln.status # 200 THEN "FullOn200/ConditionalOff" ELSE Full200D(rq, rp, ob, d))
  ELSE IF InDomainRC(rq, rp) THEN VerdictRCD(rq, rp, ob, d)
  ELSE IF InDomain(rq, rp) THEN VerdictD(rq, rp, ob, d)
  ELSE "OutOfDomain"

\* ------------------------------------------------------------------ life cycle of the file
\* "Paths are preferred in most cases because Werkzeug can manage the file": a file werkzeug opened itself is closed
\* once the server has closed the response -- also when the answer is 304 and no byte of it was read -- and is not
\* left open when the call raises.  A file object passed in is closed with the response (PEP 3333, the file wrapper's
\* close(): "invokes the original file-like object's close() method"; Response.close: "Close the wrapped response if
\* possible").
FileClause(ln) ==
  IF ln.open_end # 0 THEN (IF ln.exc # "" THEN "FileClosed/OnRaise" ELSE IF ln.status = 304 THEN "FileClosed/On304" ELSE "FileClosed/AfterClose")
  ELSE IF ln.exc = "" /\ ~IsPathKind(ln) /\ ~ln.user_closed THEN (IF ln.status = 304 THEN "FileClosed/On304" ELSE "FileClosed/UserFile")
  ELSE "ok"

\* ------------------------------------------------------------------ the verdict
First(cs) == LET H == {i \in 1..Len(cs) : cs[i] # "ok"} IN IF H = {} THEN "ok" ELSE cs[CHOOSE i \in H : \A j \in H : i <= j]

SfVerdict(ln) ==
  IF ~Domain(ln) THEN "OutOfDomain"
  \* send_from_directory: "If the final path does not point to an existing regular file, returns a 404 NotFound error."
  ELSE IF ln.api = "sfd" /\ ~ln.exists THEN (IF ln.exc = "NotFound" /\ ln.status = 404 /\ ln.open_end = 0 THEN "ok" ELSE "NotFound")
  ELSE LET must == MustRaise(ln) IN
  IF must # "" THEN (IF ~(ln.exc \in {"TypeError", "ValueError"}) THEN must ELSE IF ln.open_end # 0 THEN "FileClosed/OnRaise" ELSE "ok")
  \* a name with CR / LF is either refused (ValueError, Headers: "Header values must not contain newline characters")
  \* or sent safely (judged below)
  ELSE IF ln.exc = "ValueError" /\ NameP(ln) /\ HasNewline(Name(ln)) THEN (IF ln.open_end # 0 THEN "FileClosed/OnRaise" ELSE "ok")
  \* the same for the X-Sendfile header of a path that contains CR / LF
  ELSE IF ln.exc = "ValueError" /\ XsfActive(ln) /\ HasNewline(ln.path) THEN (IF ln.open_end # 0 THEN "FileClosed/OnRaise" ELSE "ok")
  \* "use_x_sendfile: ... Requires passing a file path.": refusing a file object is as documented as ignoring the flag
  ELSE IF ln.exc \in {"TypeError", "ValueError"} /\ ln.xsf /\ ~IsPathKind(ln) THEN "ok"
  ELSE IF ln.exc # "" /\ ln.status # 416 THEN "Raised"
  ELSE IF ln.exc # "" THEN First(<<MaCallClause(ln), CondClause(ln), FileClause(ln)>>)
  ELSE IF ln.status \in {200, 206} THEN
       First(<<ClassClause(ln), CtClause(ln), CeClause(ln), CdClause(ln), ClClause(ln), LmClause(ln), EtagClause(ln), CcClause(ln),
               MaCallClause(ln), XsfClause(ln), FwClause(ln), CondClause(ln), FileClause(ln)>>)
  \* RFC 7232 4.1: a 304 carries the ETag and Cache-Control the 200 would have carried
  ELSE IF ln.status = 304 THEN
       First(<<ClassClause(ln), EtagClause(ln), CcClause(ln), MaCallClause(ln), FwClause(ln), CondClause(ln), FileClause(ln)>>)
  ELSE First(<<ClassClause(ln), MaCallClause(ln), CondClause(ln), FileClause(ln)>>)

\* ------------------------------------------------------------------ drift (never a verdict)
\* adler32 of a byte string as the pair <<b, a>> (value = b * 65536 + a; TLC integers are 32 bit)
RECURSIVE AdlerFrom(_, _, _, _)
AdlerFrom(bs, p, a, b) == IF p > Len(bs) THEN <<b, a>>
                          ELSE LET a2 == (a + bs[p]) % 65521 IN AdlerFrom(bs, p + 1, a2, (b + a2) % 65521)
Adler(bs) == AdlerFrom(bs, 1, 1, 0)
\* a decimal digit string as <<value \div 65536, value % 65536>> (for values below 2^32)
RECURSIVE HiLoFrom(_, _, _, _)
HiLoFrom(ds, p, hi, lo) == IF p > Len(ds) THEN <<hi, lo>>
                           ELSE LET x == lo * 10 + (ds[p] - 48) IN HiLoFrom(ds, p + 1, hi * 10 + x \div 65536, x % 65536)
HiLo(ds) == HiLoFrom(ds, 1, 0, 0)
\* the tag the code calculates: "<repr of st_mtime>-<size>-<adler32 of the path>"
FormulaOk(ln) ==
  LET t == WholeTag(ln.h_etag)
      pre == ln.mtime_repr \o <<DASH>> \o DigitsOf(ln.size) \o <<DASH>> IN
  t.ok /\ ~t.weak /\ IsPrefixOf(pre, t.opaque)
  /\ LET x == Drop(t.opaque, Len(pre)) IN AllDigits(x) /\ Len(x) <= 10 /\ HiLo(x) = Adler(Utf8Enc(ln.path))

Drift(ln) ==
  LET ex == ParseDate(ln.h_exp) m == MaEff(ln) must == MustRaise(ln) IN
  IF ~Domain(ln) THEN ""
  ELSE IF must = "Raises/TextMode" /\ ln.exc # "ValueError" THEN "text mode file: not refused with ValueError"
  ELSE IF must # "" /\ must # "Raises/TextMode" /\ ln.exc # "TypeError" THEN "missing name: not refused with TypeError"
  ELSE IF ln.exc # "" THEN ""
  ELSE IF ln.status = 304 /\ ln.h_xsf_n # 0 THEN "X-Sendfile sent with a 304"
  ELSE IF ~(ln.status \in {200, 206}) THEN ""
  ELSE IF ~NameP(ln) /\ ln.h_cd_n # 0 THEN "Content-Disposition without a name"
  ELSE IF NameP(ln) /\ HasCtl(ln.h_cd) THEN "control character in Content-Disposition"
  ELSE IF NameP(ln) /\ ~IsAsciiSeq(Name(ln)) /\ ln.h_cd_n = 1 /\
          (LET cd == ParseCD(ln.h_cd) IN cd.ok /\ \E i \in 1..Len(cd.ps) : cd.ps[i].key = S_FILENAME /\ cd.ps[i].val # Concat(ln.fold))
       THEN "filename fallback is not the NFKD ASCII projection of the name"
  ELSE IF ln.mt_p /\ ln.h_ce_n # 0 THEN "Content-Encoding sent although the mimetype was given"
  ELSE IF ~LenKnown(ln) /\ ln.h_cl_n = 0 /\ ln.kind = "binfile" /\ ln.status = 200 THEN "no Content-Length for a seekable binary file object"
  ELSE IF ln.etag_mode = "auto" /\ ~IsPathKind(ln) /\ ln.h_etag_n # 0 THEN "ETag calculated for a file object"
  ELSE IF ln.etag_mode = "auto" /\ IsPathKind(ln) /\ ln.h_etag_n = 1 /\ ~FormulaOk(ln) THEN "ETag is not mtime-size-adler32(path)"
  ELSE IF ~m.p /\ ln.h_exp_n # 0 THEN "Expires without max_age"
  ELSE IF m.p /\ ~(ln.h_exp_n = 1 /\ ex.ok /\ Epoch(ex) >= ln.t_before + m.n /\ Epoch(ex) <= ln.t_after + m.n) THEN "Expires is not now + max_age"
  ELSE IF m.p /\ m.n = 0 /\ ln.h_cc_n = 1 /\ ~(PUBLIC \in Directives(ln.h_cc)) THEN "max_age=0: Cache-Control is not public"
  ELSE IF ln.ma_mode \in {"call", "callnone"} /\ Len(ln.ma_calls) # 1 THEN "max_age callable not called exactly once"
  ELSE IF XsfActive(ln) /\ ln.opened # 0 THEN "X-Sendfile: the file was opened all the same"
  ELSE IF XsfActive(ln) /\ ln.status = 206 THEN "X-Sendfile combined with a 206"
  ELSE ""

\* every text Drift / DriftSdm can return (the trace judge counts them per kind)
DriftKinds ==
  <<"text mode file: not refused with ValueError", "missing name: not refused with TypeError", "X-Sendfile sent with a 304",
    "Content-Disposition without a name", "control character in Content-Disposition",
    "filename fallback is not the NFKD ASCII projection of the name", "Content-Encoding sent although the mimetype was given",
    "no Content-Length for a seekable binary file object", "ETag calculated for a file object", "ETag is not mtime-size-adler32(path)",
    "Expires without max_age", "Expires is not now + max_age", "max_age=0: Cache-Control is not public",
    "max_age callable not called exactly once", "X-Sendfile: the file was opened all the same", "X-Sendfile combined with a 206",
    "SharedDataMiddleware: Expires is not now + cache_timeout", "SharedDataMiddleware: body sent for HEAD",
    "SharedDataMiddleware: encoded file served without Content-Encoding">>

\* ------------------------------------------------------------------ SharedDataMiddleware (header logic only)
\* line: op "sdm", name (basename), path, g_p / g, fallback, cache, timeout, size, data, mtime, exists, request,
\* observation as above (+ passed: the request went to the wrapped application).
\* class docstring: "The middleware will guess the mimetype using the Python mimetype module.  If it's unable to figure
\*   out the charset it will fall back to fallback_mimetype."  versionchanged 1.0: "The default fallback_mimetype is
\*   application/octet-stream. If a filename looks like a text mimetype, the utf-8 charset is added to it."
\* "If cache is set to False no caching headers are sent."  "cache_timeout: the cache timeout in seconds for the headers."
\* "the shared data middleware forwards all unhandled requests to the application"
SdmDomain(ln) == Len(ln.mtime) = 7 /\ ln.timeout >= 0 /\ ~ln.im_p /\ ~ln.range_p /\ ~ln.ifr_p /\ ln.method \in {"GET", "HEAD"}
SRep(ln) == LET t == BaseTag(ln) IN
            [etag_p |-> t.ok, etag_opaque |-> t.opaque, etag_weak |-> t.weak, lm_p |-> TRUE, lm |-> ln.mtime,
             length |-> ln.size, len_known |-> TRUE]
VerdictSdm(ln) ==
  LET ds == IF ln.h_cc_n = 1 THEN Directives(ln.h_cc) ELSE {}
      t == WholeTag(ln.h_etag)
      d == ParseDate(ln.h_lm) IN
  IF ~SdmDomain(ln) THEN "OutOfDomain"
  ELSE IF ln.exc # "" THEN "Sdm/Raised"
  ELSE IF ~ln.exists THEN (IF ln.passed /\ ln.open_end = 0 THEN "ok" ELSE "Sdm/Forwarded")
  ELSE IF ln.passed THEN "Sdm/NotServed"
  ELSE IF ln.open_end # 0 THEN (IF ln.status = 304 THEN "Sdm/FileClosed/On304" ELSE "Sdm/FileClosed/AfterClose")
  ELSE IF ~ln.cache /\ (ln.h_cc_n # 0 \/ ln.h_exp_n # 0 \/ ln.h_etag_n # 0) THEN "Sdm/NoCachingHeaders"
  ELSE IF ~ln.cache /\ ln.status # 200 THEN "Sdm/FullOn200"
  ELSE IF ln.cache /\ ~(ln.h_etag_n = 1 /\ t.ok) THEN "Sdm/Etag"
  ELSE IF ln.cache /\ ~(PUBLIC \in ds /\ MAXAGE(ln.timeout) \in ds) THEN "Sdm/CacheControl"
  ELSE IF ln.status = 200 THEN
       (LET c == TypeClause(IF ln.g_p THEN ln.g ELSE ln.fallback, ln.h_ct_n, ln.h_ct) IN
        IF c # "ok" THEN "Sdm/" \o c
        ELSE IF ~(ln.h_cl_n = 1 /\ AllDigits(ln.h_cl) /\ NatVal(ln.h_cl) = ln.size) THEN "Sdm/ContentLength"
        ELSE IF ~(ln.h_lm_n = 1 /\ d.ok /\ Same(d, LmInstant(ln.mtime))) THEN "Sdm/LastModified"
        ELSE IF ln.cache THEN (LET v == VerdictD(CReq(ln), SRep(ln), CObs(ln), [data |-> ln.data, hb |-> ln.method # "HEAD"]) IN
                               IF v = "ok" THEN "ok" ELSE "Sdm/" \o v)
        ELSE IF ln.method # "HEAD" /\ ln.body # ln.data THEN "Sdm/FullOn200/Body" ELSE "ok")
  ELSE IF ln.status = 304 THEN (LET v == VerdictD(CReq(ln), SRep(ln), CObs(ln), [data |-> ln.data, hb |-> FALSE]) IN
                                IF v = "ok" THEN "ok" ELSE "Sdm/" \o v)
  ELSE "Sdm/UnexpectedStatus"

DriftSdm(ln) ==
  LET ex == ParseDate(ln.h_exp) IN
  IF ~SdmDomain(ln) \/ ln.exc # "" \/ ~ln.exists \/ ln.passed THEN ""
  ELSE IF ln.cache /\ ln.status = 200 /\ ~(ln.h_exp_n = 1 /\ ex.ok /\ Epoch(ex) >= ln.t_before + ln.timeout /\ Epoch(ex) <= ln.t_after + ln.timeout)
       THEN "SharedDataMiddleware: Expires is not now + cache_timeout"
  ELSE IF ln.method = "HEAD" /\ ln.body # <<>> THEN "SharedDataMiddleware: body sent for HEAD"
  ELSE IF ln.ge_p /\ ln.h_ce_n = 0 /\ ln.status = 200 THEN "SharedDataMiddleware: encoded file served without Content-Encoding"
  ELSE ""
=============================================================================
