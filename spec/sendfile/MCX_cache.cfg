CONSTANTS
  Defects = {}
  Family = "cache"
  Deep = FALSE
INIT Init
NEXT Next
CHECK_DEADLOCK FALSE
INVARIANT Export
