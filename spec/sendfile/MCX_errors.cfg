CONSTANTS
  Defects = {}
  Family = "errors"
  Deep = FALSE
INIT Init
NEXT Next
CHECK_DEADLOCK FALSE
INVARIANT Export
