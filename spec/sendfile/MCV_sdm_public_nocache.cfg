CONSTANTS
  Defects = {"sdm_public_nocache"}
  Family = "sdm"
  Deep = FALSE
INIT Init
NEXT Next
CHECK_DEADLOCK FALSE
INVARIANT ImplMeetsContract
