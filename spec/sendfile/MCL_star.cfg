CONSTANTS
  Defects = {"star_raw"}
  Family = "names_small"
  Deep = FALSE
INIT Init
NEXT Next
CHECK_DEADLOCK FALSE
INVARIANT LawStarDenotesName
