CONSTANTS
  Defects = {"open416"}
  Family = "cache"
  Deep = FALSE
INIT Init
NEXT Next
CHECK_DEADLOCK FALSE
INVARIANT ImplMeetsContract
