CONSTANTS
  Defects = {"cl_missing"}
  Family = "cache"
  Deep = FALSE
INIT Init
NEXT Next
CHECK_DEADLOCK FALSE
INVARIANT ImplMeetsContract
