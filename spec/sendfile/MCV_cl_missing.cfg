CONSTANTS
  Defects = {"cl_missing"}
  Family = "cache_small"
  Deep = FALSE
INIT Init
NEXT Next
CHECK_DEADLOCK FALSE
INVARIANT ImplMeetsContract
