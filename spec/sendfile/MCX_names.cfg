CONSTANTS
  Defects = {}
  Family = "names"
  Deep = FALSE
INIT Init
NEXT Next
CHECK_DEADLOCK FALSE
INVARIANT Export
