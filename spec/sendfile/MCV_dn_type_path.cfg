CONSTANTS
  Defects = {"dn_type_path"}
  Family = "names_small"
  Deep = FALSE
INIT Init
NEXT Next
CHECK_DEADLOCK FALSE
INVARIANT ImplMeetsContract
