CONSTANTS
  Defects = {"dn_type_path"}
  Family = "names"
  Deep = FALSE
INIT Init
NEXT Next
CHECK_DEADLOCK FALSE
INVARIANT ImplMeetsContract
