CONSTANTS
  Defects = {"xsf_reads"}
  Family = "cache_small"
  Deep = FALSE
INIT Init
NEXT Next
CHECK_DEADLOCK FALSE
INVARIANT LawPresence
