CONSTANTS
  Defects = {"ma_pathlike"}
  Family = "cache_small"
  Deep = FALSE
INIT Init
NEXT Next
CHECK_DEADLOCK FALSE
INVARIANT ImplMeetsContract
