CONSTANTS
  Defects = {"ma_pathlike"}
  Family = "cache"
  Deep = FALSE
INIT Init
NEXT Next
CHECK_DEADLOCK FALSE
INVARIANT ImplMeetsContract
