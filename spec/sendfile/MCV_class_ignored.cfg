CONSTANTS
  Defects = {"class_ignored"}
  Family = "errors_small"
  Deep = FALSE
INIT Init
NEXT Next
CHECK_DEADLOCK FALSE
INVARIANT ImplMeetsContract
