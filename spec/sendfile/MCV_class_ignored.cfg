CONSTANTS
  Defects = {"class_ignored"}
  Family = "errors"
  Deep = FALSE
INIT Init
NEXT Next
CHECK_DEADLOCK FALSE
INVARIANT ImplMeetsContract
