---------------------------- MODULE RoutingAlias ----------------------------
(* C04, histories on one Map: what match() returns and what build() is given are the application's    *)
(* own objects.  Heap model: dict objects with identities; the rule keeps its defaults in one of them.  *)
(* Match hands out a dict (Variant "fresh": a new object holding converter values + defaults, as the    *)
(* code does; "alias": the rule's own defaults object); the application mutates every dict it holds     *)
(* (pop / set / clear); Build reads a dict the application passes ("copy": works on a copy; "retain":   *)
(* keeps the passed object as the rule's defaults).  Invariant: whatever the application did, the next   *)
(* match returns the declared defaults -- i.e. the second round trip equals the first.                   *)
EXTENDS Naturals, Sequences, FiniteSets, TLC

CONSTANTS Variant,      \* "fresh" | "alias"
          BuildVariant, \* "copy" | "retain"
          MaxObjs

Keys == {"lang", "page"}
Absent == "absent"
Declared == [k \in Keys |-> IF k = "lang" THEN "en" ELSE "1"]
Vals == {"en", "1", "mutated", Absent}

VARIABLES heap,     \* sequence of dicts: object id -> [Keys -> Vals]
          ruledef,  \* object id of the rule's defaults
          held,     \* object ids the application holds
          last      \* what the latest match returned (a dict value)
vars == <<heap, ruledef, held, last>>

Init == heap = <<Declared>> /\ ruledef = 1 /\ held = {} /\ last = Declared

Match ==
  IF Variant = "fresh"
  THEN /\ Len(heap) < MaxObjs
       /\ heap' = Append(heap, heap[ruledef])
       /\ held' = held \cup {Len(heap) + 1}
       /\ last' = heap[ruledef]
       /\ UNCHANGED ruledef
  ELSE /\ held' = held \cup {ruledef}
       /\ last' = heap[ruledef]
       /\ UNCHANGED <<heap, ruledef>>

Mutate == \E o \in held, k \in Keys, v \in {"mutated", Absent} :
            /\ heap' = [heap EXCEPT ![o][k] = v]
            /\ UNCHANGED <<ruledef, held, last>>
Clear == \E o \in held : /\ heap' = [heap EXCEPT ![o] = [k \in Keys |-> Absent]]
                         /\ UNCHANGED <<ruledef, held, last>>
\* the application passes a dict of its own (a new object with the declared values) into build()
Build == /\ Len(heap) < MaxObjs
         /\ heap' = Append(heap, Declared)
         /\ held' = held \cup {Len(heap) + 1}
         /\ ruledef' = IF BuildVariant = "retain" THEN Len(heap) + 1 ELSE ruledef
         /\ UNCHANGED last

Next == Match \/ Mutate \/ Clear \/ Build

\* every match returns the rule's declared defaults, whatever happened before
SecondRoundTripEqualsFirst == last = Declared
RuleDefaultsIntact == heap[ruledef] = Declared
=============================================================================
