CONSTANTS
  PathDot = "orig"
  AnyQuote = "fixed"
  DefaultVia = "to_url"
  KeyDefaults = "count"
  Alpha = {97, 10}
  MaxText = 2
  Shapes = {1, 4}
  ConvIds = {12}
  Binds = {11}
INIT Init
NEXT Next
INVARIANT Laws
