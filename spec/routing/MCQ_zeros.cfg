CONSTANTS
  Variant = "fixed"
  RuleIds = {8, 11, 13, 19, 20}
  K = 2
  Toks <- TokZ
  MaxParts = 2
  Methods = {"GET", "POST"}
INIT Init
NEXT Next
INVARIANT ImplInExpected
