CONSTANTS
  PathDot = "fixed"
  AnyQuote = "fixed"
  DefaultVia = "to_url"
  KeyDefaults = "count"
  Alpha = {97, 10, 13, 32, 46, 37}
  MaxText = 2
  Shapes = {1, 2, 3, 4}
  ConvIds = {1, 12}
  Binds = {11}
INIT Init
NEXT Next
INVARIANT Laws
