CONSTANTS
  PathDot = "fixed"
  AnyQuote = "fixed"
  DefaultVia = "str"
  KeyDefaults = "count"
  Alpha = {97, 32, 37, 63, 35, 59, 43, 233, 8364, 10, 50, 46, 45}
  MaxText = 1
  Shapes = {22, 23, 24, 25}
  ConvIds = {5, 8}
  Binds = {11}
INIT Init
NEXT Next
INVARIANT Laws
