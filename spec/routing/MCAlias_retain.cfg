CONSTANTS
  Variant = "fresh"
  BuildVariant = "retain"
  MaxObjs = 4
INIT Init
NEXT Next
INVARIANT SecondRoundTripEqualsFirst
INVARIANT RuleDefaultsIntact
