---------------------------- MODULE RoutingTrace ----------------------------
(* Trace judge for C03 (URL matching agrees with the declarative meaning of the rules) and    *)
(* C12 (router redirects stay on the bound host and converge).  Input: ndjson, TRACE_FILE.     *)
(*   cfg  : [t, op, rules, map: [strict, merge, rd], bind: [scheme, server, script, sub],     *)
(*           c03: BOOL (first outcome judged against Expected), c12: BOOL (redirect chains    *)
(*           judged), canon: BOOL (defaults / alias rules + redirect_defaults: see Judge03)]  *)
(*   match: [t, i, op, path, method, q: [kind, s, pairs], r: Out, follow: <<[path, r: Out]>>] *)
(*   Out  : [kind \in match|redirect|notfound|mna|other, rule, args: <<[name, ty, v]>>, url,  *)
(*           methods, exc]                                                                    *)
(* follow = what the recorder observed when it delivered each redirect target back to the     *)
(* same adapter (until a non-redirect, at most 5 hops).                                       *)
(* One TLC state per line; every verdict is total.                                            *)
EXTENDS Routing, TLC, Json, IOUtils

Lines == ndJsonDeserialize(IOEnv.TRACE_FILE)

VARIABLES l, cfg
vars == <<l, cfg>>

ObsArgs(o) == SeqToSet(o.args)

\* ------------------------------------------------------------------ C03
Judge03(c, ln) ==
  LET o == ln.r
      v == JudgeOutcome(c.rules, c.map, Root(c.bind.script), ln.path, ln.method,
               [kind |-> o.kind, rule |-> o.rule, args |-> ObsArgs(o), argc |-> Len(o.args),
                upath |-> SplitUrl(o.url).path, methods |-> SeqToSet(o.methods)])
  IN \* c.canon: the map has defaults / alias rules and redirect_defaults on, so the router may answer a
     \* matching request with a canonicalising redirect (not part of Expected; its chain is judged by C12)
     IF c.canon /\ v = "Redirect" /\ ~OutOfDomain(c.rules, c.map, ln.path)
        /\ \E x \in Expected(c.rules, c.map, Norm(ln.path), ln.method).outs : x.kind = "match"
     THEN "ok" ELSE v

\* ------------------------------------------------------------------ C12
Hops(ln) == <<[path |-> ln.path, r |-> ln.r]>> \o ln.follow

\* what the original path denotes: endpoint and arguments of the rules that admit it, directly
\* or after the slash / merged-slashes normalisation the redirect stands for
Variants(p) == {p, p \o <<SLASH>>, MergeSl(p), MergeSl(p) \o <<SLASH>>}
Den(c, p, method) ==
  UNION {{[ep |-> c.rules[x.rule].endpoint, args |-> x.args] :
            x \in {y \in Expected(c.rules, c.map, p2, method).outs : y.kind = "match"}}
         : p2 \in Variants(p)}

ShapeHop(s, t) == LET n == Norm(s) IN t \in {n \o <<SLASH>>, MergeSl(n), MergeSl(n) \o <<SLASH>>}
HopKind(h, i) == IF ShapeHop(h[i].path, h[i + 1].path) THEN "shape" ELSE "canon"

HasPctEscape(s) == \E i \in 1..(Len(s) - 2) : s[i] = 37 /\ IsHex(s[i + 1]) /\ IsHex(s[i + 2])

\* The script root may be spelled as it is (what the router does for the plain roots of the documentation)
\* or percent-encoded (the correct URI spelling of a root with non-ASCII characters, spaces, ...): both denote it.
UrlClause(c, ln, h, i) ==
  LET u == SplitUrl(h[i].r.url)
      root == Root(c.bind.script)
      \* ... except when the root itself contains a valid percent escape (%XX): written as it is, a client
      \* decodes it to another root, so only the percent-encoded spelling denotes the bound one
      roots == IF HasPctEscape(root) THEN {Quote(root)} ELSE {root, Quote(root)}
      qt == QueryText(ln.q)
  IN IF ~u.ok \/ u.scheme # c.bind.scheme \/ u.host # HostOf(c.bind) \/ ~\E rt \in roots : IsPrefixOf(rt, u.path) THEN "OnBoundHost"
     ELSE IF ~((qt = <<>> /\ ~u.hasq) \/ (qt # <<>> /\ u.hasq /\ u.query = qt)) THEN "QueryPreserved"
     ELSE IF i = Len(h) THEN "Converges"
     ELSE IF ~\E rt \in roots : UrlPathFor(rt, h[i + 1].path) = u.path THEN "Delivery"
     ELSE "ok"

RECURSIVE UrlClauses(_, _, _, _)
UrlClauses(c, ln, h, i) ==
  IF i > Len(h) \/ h[i].r.kind # "redirect" THEN "ok"
  ELSE LET v == UrlClause(c, ln, h, i) IN IF v # "ok" THEN v ELSE UrlClauses(c, ln, h, i + 1)

Judge12(c, ln) ==
  LET h == Hops(ln)
      last == h[Len(h)].r
      nred == Cardinality({i \in 1..Len(h) : h[i].r.kind = "redirect"})
  IN IF ln.r.kind # "redirect" THEN "ok"
     ELSE LET v == UrlClauses(c, ln, h, 1) IN
          IF v # "ok" THEN v
          ELSE IF last.kind = "redirect" \/ nred > 2 THEN "Converges"
          ELSE IF nred = 2 /\ HopKind(h, 1) = HopKind(h, 2) THEN "Converges"
          ELSE IF OutOfDomain(c.rules, c.map, ln.path) THEN "ok"
          ELSE IF last.kind # "match" \/ ~(last.rule \in 1..Len(c.rules)) THEN "SameDenotation"
          ELSE IF [ep |-> c.rules[last.rule].endpoint, args |-> ObsArgs(last)] \in Den(c, Norm(ln.path), ln.method) THEN "ok"
          ELSE "SameDenotation"

Verdicts(c, ln) ==
  (IF c.c03 THEN {Judge03(c, ln)} ELSE {}) \cup (IF c.c12 THEN {Judge12(c, ln)} ELSE {})

\* ------------------------------------------------------------------ subdomains
(* Map(default_subdomain = map.dsub); a rule's subdomain and the subdomain passed to bind() are either not given    *)
(* (subk = "d": the map's default applies) or given explicitly (subk = "s", subv; an explicitly empty subdomain is   *)
(* NOT replaced by the default).  A rule is only considered on the subdomain the adapter is bound to: the others are *)
(* replaced (index preserving) by a rule no path can match.  The bound host is [subdomain "."] server_name.          *)
DeadSeg == [TrailSeg EXCEPT !.pre = <<SLASH>>]
\* (records written by an older recorder have no subdomain fields: then everything is on the bound subdomain)
DSub(c) == IF "dsub" \in DOMAIN c.map THEN c.map.dsub ELSE c.bind.sub
EffBindSub(c) == IF "subk" \in DOMAIN c.bind /\ c.bind.subk = "s" THEN c.bind.subv ELSE DSub(c)
EffRuleSub(c, r) == IF "subk" \in DOMAIN r /\ r.subk = "s" THEN r.subv ELSE DSub(c)
Resolve(c) ==
  [c EXCEPT !.bind = [@ EXCEPT !.sub = EffBindSub(c)],
            !.rules = [i \in 1..Len(c.rules) |->
                         IF EffRuleSub(c, c.rules[i]) = EffBindSub(c) THEN c.rules[i]
                         ELSE [c.rules[i] EXCEPT !.segs = <<DeadSeg>>, !.branch = FALSE]]]

Init == l = 1 /\ cfg = [op |-> "none"]

Next == /\ l <= Len(Lines)
        /\ LET line == Lines[l] IN
           IF line.op = "cfg" THEN cfg' = Resolve(line)
           ELSE /\ cfg' = cfg
                /\ \A v \in Verdicts(cfg, line) :
                     IF v = "ok" THEN TRUE
                     ELSE PrintT(ToJson([reject |-> 1, t |-> line.t, i |-> line.i, clause |-> v]))
        /\ l' = l + 1

Done == PrintT(ToJson([judged |-> Len(Lines)])) /\ TLCGet("generated") >= 0
=============================================================================
