CONSTANTS
  PathDot = "fixed"
  AnyQuote = "fixed"
  DefaultVia = "to_url"
  KeyDefaults = "count"
  Alpha = {97, 32, 37, 63, 35, 59, 43, 233, 8364, 10, 50}
  MaxText = 2
  Shapes = {1, 2, 3, 4, 6}
  ConvIds = {1, 2, 3, 4, 5, 6, 7, 8, 9, 10, 11, 12}
  Binds = {11, 22, 33, 63, 72}
INIT Init
NEXT Next
INVARIANT Laws
