----------------------------- MODULE RoutingImpl -----------------------------
(* Implementation-shaped model of werkzeug.routing.matcher.StateMachineMatcher (+ the part of   *)
(* MapAdapter.match that turns its result into an outcome).  Written like the code: rules are     *)
(* decomposed into parts, equal parts share a trie transition (a trie node is represented by the  *)
(* set of rules below it and its depth), static transitions are tried first, dynamic ones in      *)
(* (Weighting, insertion) order with backtracking, SlashRequired aborts the search, the           *)
(* `parts == [""]` tail case, have_match_for, the merged-slashes second pass.                     *)
(* Variant "fixed": to_python validation happens inside the search (a ValidationError makes the   *)
(* rule not match and the search goes on); "orig": validation after the search (pinned tree).     *)
EXTENDS Routing

CONSTANT Variant

PartKey(seg) == [seg EXCEPT !.name = ""]
IsPathSeg(seg) == seg.k = "var" /\ seg.conv = "path"
IParts(r) ==
  [i \in 1..Len(r.segs) |->
     [static |-> r.segs[i].k = "lit", seg |-> PartKey(r.segs[i]), final |-> IsPathSeg(r.segs[i]),
      suffixed |-> IsPathSeg(r.segs[i]) /\ r.branch]]
  \o (IF r.branch THEN <<[static |-> TRUE, seg |-> TrailSeg, final |-> FALSE, suffixed |-> FALSE]>> ELSE <<>>)

\* rules.Weighting of a dynamic part as one number (smaller sorts first)
WKey(part) ==
  LET sg == part.seg
      ns == (IF sg.pre # <<>> THEN 1 ELSE 0) + (IF sg.post # <<>> THEN 1 ELSE 0)
      l1 == IF sg.pre # <<>> THEN Len(sg.pre) ELSE Len(sg.post)
      l2 == IF sg.pre # <<>> THEN Len(sg.post) ELSE 0
      w  == IF sg.conv \in {"int", "float"} THEN 50 ELSE IF sg.conv = "path" THEN 200 ELSE 100
  IN (((2 - ns) * 101 + (100 - l1)) * 101 + (100 - l2)) * 256 + w

VarSegs(r) == SelectSeq(r.segs, LAMBDA sg : sg.k = "var")
\* NumberConverter.to_python: the fixed_digits check (the only validation in the grammar)
ValidOK(r, vals) == \A j \in 1..Len(vals) :
                      LET sg == VarSegs(r)[j] IN sg.conv = "int" => (sg.n = 0 \/ Len(vals[j]) = sg.n)
ArgsOf(r, vals) == {ArgOf(VarSegs(r)[j], vals[j]) : j \in 1..Len(vals)} \cup SeqToSet(r.defaults)

\* the converter's regular expression only
RegexAccept(sg, x) == IF sg.conv = "int" THEN AllDigits(Unsigned(sg, x)) ELSE ConvAccepts(sg, x)
RegexOK(sg, part) == /\ Len(part) >= Len(sg.pre) + Len(sg.post)
                     /\ IsPrefixOf(sg.pre, part) /\ EndsWith(part, sg.post)
                     /\ RegexAccept(sg, Mid(sg, part))

MinOf(S) == CHOOSE x \in S : \A y \in S : x <= y
None(hm) == [kind |-> "none", r |-> 0, vals |-> <<>>, hm |-> hm]

RECURSIVE IMatch(_, _, _, _, _, _, _, _)
RECURSIVE TryDyn(_, _, _, _, _, _, _, _, _)

(* R rules, m map settings, meth method; node = (S, d); parts still to match; vals captured.   *)
IMatch(R, m, meth, S, d, parts, vals, hm) ==
  LET IP(i) == IParts(R[i])
      here == {i \in S : Len(IP(i)) = d}
      Usable(i) == Variant = "orig" \/ ValidOK(R[i], vals)
      Compat(i) == MethodOK(R[i], meth)
      StaticChild(c) == {i \in S : Len(IP(i)) > d /\ IP(i)[d + 1].static /\ IP(i)[d + 1].seg.pre = c}
  IN
  IF parts = <<>> THEN
       LET good == {i \in here : Usable(i) /\ Compat(i)}
           c == IF good = {} THEN 0 ELSE MinOf(good)
           hm2 == hm \cup UNION {MethodsOf(R[i]) : i \in {j \in here : Usable(j) /\ ~Compat(j) /\ (c = 0 \/ j < c)}}
           T == StaticChild(<<>>)
           sl == {i \in T : Len(IP(i)) = d + 1 /\ Compat(i) /\ Usable(i)}
       IN IF c # 0 THEN [kind |-> "rule", r |-> c, vals |-> vals, hm |-> hm2]
          ELSE IF sl # {} THEN
               (IF StrictOf(m, R[MinOf(sl)]) THEN [kind |-> "slashreq", r |-> 0, vals |-> <<>>, hm |-> hm2]
                ELSE [kind |-> "rule", r |-> MinOf(sl), vals |-> vals, hm |-> hm2])
          ELSE \* no usable rule for this method one slash further: the non-strict ones there admit the
               \* path as it is, only the method is wrong (matcher repair after F19: they are counted)
               None(hm2 \cup (IF Variant = "orig" THEN {}
                              ELSE UNION {MethodsOf(R[i]) : i \in {j \in T : Len(IP(j)) = d + 1 /\ ~Compat(j)
                                                                          /\ Usable(j) /\ ~StrictOf(m, R[j])}}))
  ELSE
       LET part == parts[1]
           T == StaticChild(part)
           rs == IF T # {} THEN IMatch(R, m, meth, T, d + 1, Tail(parts), vals, hm) ELSE None(hm)
       IN IF rs.kind # "none" THEN rs
          ELSE LET dyn == {IP(i)[d + 1] : i \in {j \in S : Len(IP(j)) > d /\ ~IP(j)[d + 1].static}}
                   rd == TryDyn(R, m, meth, S, d, parts, vals, rs.hm, dyn)
               IN IF rd.kind # "none" THEN rd
                  ELSE IF parts = <<<<>>>> THEN
                       \* only a trailing slash is left: rules that are not strict about it match here
                       LET cand == {i \in here : ~StrictOf(m, R[i]) /\ Usable(i)}
                           good == {i \in cand : Compat(i)}
                           c == IF good = {} THEN 0 ELSE MinOf(good)
                           hm3 == rd.hm \cup UNION {MethodsOf(R[i]) : i \in {j \in cand : ~Compat(j) /\ (c = 0 \/ j < c)}}
                       IN IF c # 0 THEN [kind |-> "rule", r |-> c, vals |-> vals, hm |-> hm3] ELSE None(hm3)
                  ELSE rd

\* dynamic transitions not yet tried = todo; next = least (weight, first insertion)
TryDyn(R, m, meth, S, d, parts, vals, hm, todo) ==
  IF todo = {} THEN None(hm)
  ELSE
    LET IP(i) == IParts(R[i])
        First(pt) == MinOf({i \in S : Len(IP(i)) > d /\ IP(i)[d + 1] = pt})
        pt == CHOOSE x \in todo : \A y \in todo : WKey(x) < WKey(y) \/ (WKey(x) = WKey(y) /\ First(x) <= First(y))
        T == {i \in S : Len(IP(i)) > d /\ IP(i)[d + 1] = pt}
        target == IF pt.final THEN JoinFrom(parts, 1) ELSE parts[1]
        \* final (path) part: [^/].*?  with the (?<!/)(/?) suffix when the rule is a branch
        endsl == target # <<>> /\ target[Len(target)] = SLASH
        pval == IF pt.suffixed /\ endsl THEN Take(target, Len(target) - 1) ELSE target
        pok == /\ pval # <<>> /\ pval[1] # SLASH
               /\ (pt.suffixed => pval[Len(pval)] # SLASH)
        ok == IF pt.final THEN pok ELSE RegexOK(pt.seg, target)
        val == IF pt.final THEN pval ELSE Mid(pt.seg, target)
        remaining == IF pt.final THEN (IF pt.suffixed /\ endsl THEN <<<<>>>> ELSE <<>>) ELSE Tail(parts)
        r1 == IF ok THEN IMatch(R, m, meth, T, d + 1, remaining, Append(vals, val), hm) ELSE None(hm)
    IN IF r1.kind # "none" THEN r1
       ELSE TryDyn(R, m, meth, S, d, parts, vals, r1.hm, todo \ {pt})

\* MapAdapter.match around it; the outcome in the shape JudgeOutcome reads (root "/")
NoMatch(hm) == [kind |-> IF hm # {} THEN "mna" ELSE "notfound", rule |-> 0, args |-> {}, argc |-> 0,
                upath |-> <<>>, methods |-> hm, rpath |-> <<>>]
Redir(p) == [kind |-> "redirect", rule |-> 0, args |-> {}, argc |-> 0, upath |-> UrlPathFor(<<SLASH>>, p), methods |-> {},
            rpath |-> p]

ImplOutcome(R, m, meth, path) ==
  LET p == Norm(path)
      all == 1..Len(R)
      r1 == IMatch(R, m, meth, all, 0, PartsOf(p), <<>>, {})
  IN IF r1.kind = "slashreq" THEN Redir(p \o <<SLASH>>)
     ELSE IF m.merge /\ r1.kind = "none" THEN
          LET pm == MergeSl(p)
              r2 == IMatch(R, m, meth, all, 0, PartsOf(pm), <<>>, r1.hm)
          IN IF r2.kind = "slashreq" THEN Redir(pm \o <<SLASH>>)
             ELSE IF r2.kind = "none" \/ ~MergeOf(m, R[r2.r]) THEN NoMatch(r2.hm)
             ELSE Redir(pm)
     ELSE IF r1.kind = "rule" THEN
          (IF ~ValidOK(R[r1.r], r1.vals) THEN NoMatch(r1.hm)
           ELSE LET a == ArgsOf(R[r1.r], r1.vals) IN
                [kind |-> "match", rule |-> r1.r, args |-> a, argc |-> Cardinality(a), upath |-> <<>>, methods |-> {},
                 rpath |-> <<>>])
     ELSE NoMatch(r1.hm)
=============================================================================
