CONSTANTS
  PathDot = "fixed"
  AnyQuote = "orig"
  DefaultVia = "to_url"
  KeyDefaults = "count"
  Alpha = {97}
  MaxText = 1
  Shapes = {1}
  ConvIds = {10}
  Binds = {11}
INIT Init
NEXT Next
INVARIANT Laws
