CONSTANTS
  PathDot = "fixed"
  AnyQuote = "fixed"
  Alpha = {97, 32, 37, 63, 35, 59, 43, 233, 8364, 10, 50}
  MaxText = 2
  Shapes = {1, 2, 3, 4, 5, 6, 7, 8}
  ConvIds = {1, 2, 3, 4, 5, 6, 7, 8, 9, 10, 11, 12}
  BindIds = {1, 2, 3, 4, 5, 6, 7}
  Scripts = {1, 2, 3}
INIT Init
NEXT NoNext
INVARIANT Law0
INVARIANT Law1
INVARIANT Law2
INVARIANT Law3
