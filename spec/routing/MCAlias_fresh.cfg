CONSTANTS
  Variant = "fresh"
  BuildVariant = "copy"
  MaxObjs = 4
INIT Init
NEXT Next
INVARIANT SecondRoundTripEqualsFirst
INVARIANT RuleDefaultsIntact
