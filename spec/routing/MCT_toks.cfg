CONSTANTS
  Variant = "fixed"
  RuleIds = {2, 3, 8, 12, 13, 14, 15, 16, 17, 18, 21, 26, 27, 28, 29, 30}
  K = 2
  Toks <- TokT
  MaxParts = 2
  Methods = {"GET", "POST"}
INIT Init
NEXT Next
INVARIANT ImplInExpected
