------------------------------- MODULE Routing -------------------------------
(* Contract specification of werkzeug URL matching (C03) and of the router's own redirects   *)
(* (C12), transcribed from docs/routing.rst, the docstrings of Map / Rule / MapAdapter.match  *)
(* / the converters, CHANGES.rst (2.2.0-2.2.2 slash behaviour) and the property statements.  *)
(* It is NOT a transcription of StateMachineMatcher (that one lives in RoutingImpl.tla).      *)
(*                                                                                            *)
(* Text = sequence of code points.  A rule is a record                                        *)
(*   [segs, branch, anym, methods, strict, merge, endpoint, defaults, alias]                  *)
(* segs: sequence of segments (the text between two slashes of the rule string)               *)
(*   literal  [k |-> "lit", pre |-> text, ...]                                                *)
(*   variable [k |-> "var", pre, post, conv, n, m, signed, items, name]                       *)
(*     conv \in string (n = minlength, m = maxlength or 0) | strlen (n = length) |            *)
(*              int (n = fixed_digits or 0, signed) | float (signed) | any (items) | uuid |   *)
(*              path (only as the last segment, no affixes)                                   *)
(* branch: the rule string ends with "/".  strict / merge \in "d" (map default) | "t" | "f".  *)
(* methods: sequence of method names as given to Rule(); anym: methods=None.                  *)
(* defaults: sequence of [name, ty, v]; args are sets of [name, ty, v] with v the text form   *)
(* of the converted value (str(int), repr(float), str(UUID), the string itself).              *)
EXTENDS Bytes, FiniteSets

SLASH == 47
MINUS == 45
DOT == 46

\* ---------------------------------------------------------------- text helpers
RECURSIVE SplitFrom(_, _, _, _)
SplitFrom(s, c, i, cur) ==
  IF i > Len(s) THEN <<cur>>
  ELSE IF s[i] = c THEN <<cur>> \o SplitFrom(s, c, i + 1, <<>>)
  ELSE SplitFrom(s, c, i + 1, Append(cur, s[i]))
Split(s, c) == SplitFrom(s, c, 1, <<>>)

RECURSIVE JoinFrom(_, _)
JoinFrom(parts, i) == IF i > Len(parts) THEN <<>>
                      ELSE IF i = Len(parts) THEN parts[i]
                      ELSE parts[i] \o <<SLASH>> \o JoinFrom(parts, i + 1)

RECURSIVE LStripSlash(_)
LStripSlash(s) == IF s # <<>> /\ s[1] = SLASH THEN LStripSlash(Tail(s)) ELSE s

\* the request path as the router looks at it: any number of leading slashes counts as one
Norm(p) == <<SLASH>> \o LStripSlash(p)

HasDouble(p) == \E i \in 1..(Len(p) - 1) : p[i] = SLASH /\ p[i + 1] = SLASH
HasTriple(p) == \E i \in 1..(Len(p) - 2) : p[i] = SLASH /\ p[i + 1] = SLASH /\ p[i + 2] = SLASH

RECURSIVE MergeSl(_)
MergeSl(p) == IF Len(p) < 2 THEN p
              ELSE IF p[1] = SLASH /\ p[2] = SLASH THEN MergeSl(Tail(p))
              ELSE <<p[1]>> \o MergeSl(Tail(p))

EndsWith(s, suf) == Len(s) >= Len(suf) /\ Drop(s, Len(s) - Len(suf)) = suf
SeqToSet(s) == {s[i] : i \in 1..Len(s)}

\* ---------------------------------------------------------------- converters (documented meaning)
IsDigit(c) == c >= 48 /\ c <= 57
IsHex(c) == IsDigit(c) \/ (c >= 65 /\ c <= 70) \/ (c >= 97 /\ c <= 102)
AllDigits(x) == Len(x) > 0 /\ \A i \in 1..Len(x) : IsDigit(x[i])
IsNeg(seg, x) == seg.signed /\ Len(x) > 0 /\ x[1] = MINUS
Unsigned(seg, x) == IF IsNeg(seg, x) THEN Tail(x) ELSE x

IntOK(seg, x) == AllDigits(Unsigned(seg, x)) /\ (seg.n = 0 \/ Len(x) = seg.n)
FloatOK(seg, x) == LET u == Unsigned(seg, x)
                       d == FindFrom(u, <<DOT>>, 1)
                   IN d > 1 /\ AllDigits(Take(u, d - 1)) /\ AllDigits(Drop(u, d))
UuidOK(x) == /\ Len(x) = 36
             /\ \A i \in 1..36 : IF i \in {9, 14, 19, 24} THEN x[i] = MINUS ELSE IsHex(x[i])
NoSlash(x) == \A i \in 1..Len(x) : x[i] # SLASH

ConvAccepts(seg, x) ==
  CASE seg.conv = "string" -> Len(x) >= seg.n /\ Len(x) >= 1 /\ (seg.m = 0 \/ Len(x) <= seg.m) /\ NoSlash(x)
    [] seg.conv = "strlen" -> Len(x) = seg.n /\ NoSlash(x)
    [] seg.conv = "int"    -> IntOK(seg, x)
    [] seg.conv = "float"  -> FloatOK(seg, x)
    [] seg.conv = "any"    -> x \in SeqToSet(seg.items)
    [] seg.conv = "uuid"   -> UuidOK(x)
    [] OTHER -> FALSE

RECURSIVE StripZeros(_)
StripZeros(d) == IF Len(d) > 1 /\ d[1] = 48 THEN StripZeros(Tail(d)) ELSE d
RECURSIVE StripTrailZeros(_)
StripTrailZeros(d) == IF Len(d) > 1 /\ d[Len(d)] = 48 THEN StripTrailZeros(Take(d, Len(d) - 1)) ELSE d
LowerHex(c) == IF c >= 65 /\ c <= 70 THEN c + 32 ELSE c

\* the converted value, as [ty, v] with v = the text Python prints for it
ToPython(seg, x) ==
  CASE seg.conv = "int" ->
         LET z == StripZeros(Unsigned(seg, x)) IN
         [ty |-> "int", v |-> IF IsNeg(seg, x) /\ z # <<48>> THEN <<MINUS>> \o z ELSE z]
    [] seg.conv = "float" ->
         LET u == Unsigned(seg, x)
             d == FindFrom(u, <<DOT>>, 1)
             t == StripZeros(Take(u, d - 1)) \o <<DOT>> \o StripTrailZeros(Drop(u, d))
         IN [ty |-> "float", v |-> IF IsNeg(seg, x) THEN <<MINUS>> \o t ELSE t]
    [] seg.conv = "uuid" -> [ty |-> "UUID", v |-> [i \in 1..Len(x) |-> LowerHex(x[i])]]
    [] OTHER -> [ty |-> "str", v |-> x]

\* converter classes of the documented priority: int/float before string/any/uuid before path
Rank(conv) == CASE conv \in {"int", "float"} -> 1
                [] conv = "path" -> 3
                [] OTHER -> 2

\* ---------------------------------------------------------------- one segment against one path part
Mid(seg, part) == Sub(part, Len(seg.pre) + 1, Len(part) - Len(seg.post))
SegOK(seg, part) ==
  IF seg.k = "lit" THEN part = seg.pre
  ELSE /\ seg.conv # "path"
       /\ Len(part) >= Len(seg.pre) + Len(seg.post)
       /\ IsPrefixOf(seg.pre, part)
       /\ EndsWith(part, seg.post)
       /\ ConvAccepts(seg, Mid(seg, part))

IsPathRule(r) == Len(r.segs) > 0 /\ r.segs[Len(r.segs)].k = "var" /\ r.segs[Len(r.segs)].conv = "path"
\* number of leading segments that are matched part by part
Fixed(r) == IF IsPathRule(r) THEN Len(r.segs) - 1 ELSE Len(r.segs)
FixedOK(r, parts) == Len(parts) >= Fixed(r) /\ \A i \in 1..Fixed(r) : SegOK(r.segs[i], parts[i])

ArgOf(seg, x) == LET c == ToPython(seg, x) IN [name |-> seg.name, ty |-> c.ty, v |-> c.v]
\* rule defaults are part of the reported arguments (Rule docstring: `defaults`)
FixedArgs(r, parts) == {ArgOf(r.segs[i], Mid(r.segs[i], parts[i])) : i \in {j \in 1..Fixed(r) : r.segs[j].k = "var"}}
                       \cup SeqToSet(r.defaults)

\* ---------------------------------------------------------------- per-rule meaning
(* parts = Split(path)[2..] of a path that starts with exactly one slash.                     *)
(* How(r, parts, strict) = the set of ways rule r admits the path:                            *)
(*   [mode |-> "exact", args]   the path is an instance of the rule string                    *)
(*   [mode |-> "slash", args]   branch rule, path lacks the trailing slash (strict: redirect) *)
(*   [mode |-> "extra", args]   leaf rule, not strict, path has one extra trailing slash      *)
PlainHow(r, parts, strict) ==
  LET n == Len(r.segs)
      a == FixedArgs(r, parts)
  IN IF ~FixedOK(r, parts) THEN {}
     ELSE IF r.branch THEN
            (IF Len(parts) = n + 1 /\ parts[n + 1] = <<>> THEN {[mode |-> "exact", args |-> a]}
             ELSE IF Len(parts) = n /\ n >= 1 THEN {[mode |-> "slash", args |-> a]}
             ELSE {})
     ELSE (IF Len(parts) = n THEN {[mode |-> "exact", args |-> a]}
           ELSE IF Len(parts) = n + 1 /\ parts[n + 1] = <<>> /\ ~strict THEN {[mode |-> "extra", args |-> a]}
           ELSE {})

\* value of the trailing path variable: everything from part Fixed(r)+1 on, slashes included
PathVal(r, parts) == JoinFrom(parts, Fixed(r) + 1)
PathHow(r, parts, strict) ==
  LET f == Fixed(r)
      seg == r.segs[Len(r.segs)]
      x == PathVal(r, parts)
      a == FixedArgs(r, parts)
      Arg(y) == a \cup {[name |-> seg.name, ty |-> "str", v |-> y]}
  IN IF ~FixedOK(r, parts) \/ Len(parts) <= f \/ parts[f + 1] = <<>> THEN {}
     ELSE IF ~r.branch THEN {[mode |-> "exact", args |-> Arg(x)]}
     ELSE IF x[Len(x)] = SLASH
          THEN (IF Len(x) >= 2 /\ x[Len(x) - 1] # SLASH THEN {[mode |-> "exact", args |-> Arg(Take(x, Len(x) - 1))]} ELSE {})
          ELSE {[mode |-> "slash", args |-> Arg(x)]}

How(r, parts, strict) == IF IsPathRule(r) THEN PathHow(r, parts, strict) ELSE PlainHow(r, parts, strict)

(* The documentation says a path variable "also matches slashes" and that slashes in variable *)
(* parts are not merged; it does not say whether the value may *start* with a slash or, for a *)
(* branch rule, end with one.  Such (rule, path) pairs are outside the claimed domain.        *)
PathUnspecified(r, parts) ==
  /\ IsPathRule(r) /\ FixedOK(r, parts) /\ Len(parts) > Fixed(r)
  /\ LET x == PathVal(r, parts) IN
       \/ (parts[Fixed(r) + 1] = <<>> /\ x # <<>>)
       \/ (r.branch /\ Len(x) >= 2 /\ x[Len(x)] = SLASH /\ x[Len(x) - 1] = SLASH)

\* ---------------------------------------------------------------- map level
StrictOf(m, r) == IF r.strict = "d" THEN m.strict ELSE r.strict = "t"
MergeOf(m, r) == IF r.merge = "d" THEN m.merge ELSE r.merge = "t"
\* HEAD is added automatically when GET is present (Rule docstring)
MethodsOf(r) == SeqToSet(r.methods) \cup (IF "GET" \in SeqToSet(r.methods) THEN {"HEAD"} ELSE {})
MethodOK(r, method) == r.anym \/ method \in MethodsOf(r)

PartsOf(p) == Tail(Split(p, SLASH))      \* p starts with a slash: drop the empty first part

\* every way any rule admits path p (p normalised), regardless of the method
Cands(rules, m, p) ==
  LET parts == PartsOf(p) IN
  UNION {{[r |-> i, mode |-> h.mode, args |-> h.args] : h \in How(rules[i], parts, StrictOf(m, rules[i]))}
         : i \in 1..Len(rules)}

SameSeg(x, y) == [x EXCEPT !.name = ""] = [y EXCEPT !.name = ""]
TrailSeg == [k |-> "lit", pre |-> <<>>, post |-> <<>>, conv |-> "", n |-> 0, m |-> 0, signed |-> FALSE,
             items |-> <<>>, name |-> ""]
SegsT(r) == IF r.branch THEN Append(r.segs, TrailSeg) ELSE r.segs
RECURSIVE FirstDiff(_, _, _)
FirstDiff(sa, sb, i) == IF i > Len(sa) \/ i > Len(sb) THEN 0
                        ELSE IF ~SameSeg(sa[i], sb[i]) THEN i ELSE FirstDiff(sa, sb, i + 1)
\* documented priority at one position: a literal beats a variable; with equal affixes a
\* narrower converter beats a broader one.  Nothing else is documented (ties stay open).
Better(x, y) == \/ x.k = "lit" /\ y.k = "var"
                \/ x.k = "var" /\ y.k = "var" /\ x.pre = y.pre /\ x.post = y.post /\ Rank(x.conv) < Rank(y.conv)
SegDominates(a, b) == LET i == FirstDiff(SegsT(a), SegsT(b), 1) IN i > 0 /\ Better(SegsT(a)[i], SegsT(b)[i])
\* CHANGES 2.2.0 (#1074) / 2.2.2: a rule that admits the path as it is wins over the rule with
\* the same segments that admits it only through the trailing-slash leniency
CandDominates(rules, c, d) ==
  \/ SegDominates(rules[c.r], rules[d.r])
  \/ c.mode = "exact" /\ d.mode # "exact" /\ rules[c.r].segs = rules[d.r].segs /\ ~IsPathRule(rules[c.r])

Undominated(rules, C) == {c \in C : ~\E d \in C : CandDominates(rules, d, c)}

\* the outcome a candidate stands for (uniform shape [kind, rule, args, path])
MatchOut(r, a) == [kind |-> "match", rule |-> r, args |-> a, path |-> <<>>]
RedirOut(p) == [kind |-> "redirect", rule |-> 0, args |-> {}, path |-> p]
OutcomeOf(rules, m, p, c) ==
  IF c.mode = "slash" /\ StrictOf(m, rules[c.r]) THEN RedirOut(p \o <<SLASH>>)
  ELSE MatchOut(c.r, c.args)

(* Expected(rules, m, p, method): the acceptable outcomes for the normalised path p.          *)
(*   outs    : acceptable Match / Redirect outcomes                                           *)
(*   nf      : NotFound acceptable            mna : MethodNotAllowed acceptable               *)
(*   mreq/mall : methods that must / may be listed by MethodNotAllowed                        *)
Expected(rules, m, p, method) ==
  LET all  == Cands(rules, m, p)
      ok   == {c \in all : MethodOK(rules[c.r], method)}
      pm   == MergeSl(p)
      mrg  == m.merge /\ HasDouble(p)
      allM == IF mrg THEN {c \in Cands(rules, m, pm) : MergeOf(m, rules[c.r])} ELSE {}
      okM  == {c \in allM : MethodOK(rules[c.r], method)}
      \* a 405 is required when a rule admits the path for another method without a redirect being
      \* involved: as it is, or (strict_slashes off for that rule) with one extra trailing slash, which
      \* is matched directly, or (strict_slashes off) a branch rule without its trailing slash, which is
      \* matched directly too.  When the other-method rules admit it only through the missing-slash
      \* redirect of a strict branch rule, 404 and 405 are both accepted
      exactOther == {c \in all : c.mode \in {"exact", "extra"} \/ (c.mode = "slash" /\ ~StrictOf(m, rules[c.r]))}
      Ms(S) == UNION {MethodsOf(rules[c.r]) : c \in S}
  IN IF ok # {} THEN
          [outs |-> {OutcomeOf(rules, m, p, c) : c \in Undominated(rules, ok)},
           nf |-> FALSE, mna |-> FALSE, mreq |-> {}, mall |-> {}]
     ELSE IF okM # {} THEN
          \* consecutive slashes: redirect to the merged URL (or to merged + "/" when that one
          \* needs the slash too); if rules admit the unmerged path for other methods a 405 is
          \* equally documented
          [outs |-> {RedirOut(IF c.mode = "slash" /\ StrictOf(m, rules[c.r]) THEN pm \o <<SLASH>> ELSE pm)
                     : c \in Undominated(rules, okM)},
           nf |-> FALSE, mna |-> all # {}, mreq |-> {}, mall |-> Ms(all \cup allM)]
     ELSE IF exactOther # {} THEN
          [outs |-> {}, nf |-> FALSE, mna |-> TRUE, mreq |-> Ms(exactOther), mall |-> Ms(all \cup allM)]
     ELSE [outs |-> {}, nf |-> TRUE, mna |-> (all \cup allM) # {}, mreq |-> {}, mall |-> Ms(all \cup allM)]

\* inputs for which the documentation does not determine the result
OutOfDomain(rules, m, p) ==
  \/ p = <<>>
  \* the trailing-slash leniency of non-strict rules is documented for one slash; what a doubled
  \* trailing slash means for them is not
  \/ (EndsWith(p, <<SLASH, SLASH>>) /\ \E i \in 1..Len(rules) : ~StrictOf(m, rules[i]))
  \/ HasTriple(Norm(p))
  \/ \E i \in 1..Len(rules) : PathUnspecified(rules[i], PartsOf(Norm(p)))
  \/ (m.merge /\ HasDouble(Norm(p)) /\ \E i \in 1..Len(rules) : PathUnspecified(rules[i], PartsOf(MergeSl(Norm(p)))))

\* ---------------------------------------------------------------- URLs (C12)
Rem(a, b) == a - b * (a \div b)
HexDigit(n) == IF n < 10 THEN 48 + n ELSE 55 + n
Pct(b) == <<37, HexDigit(b \div 16), HexDigit(Rem(b, 16))>>
Utf8(c) == IF c < 128 THEN <<c>>
           ELSE IF c < 2048 THEN <<192 + c \div 64, 128 + Rem(c, 64)>>
           ELSE IF c < 65536 THEN <<224 + c \div 4096, 128 + Rem(c \div 64, 64), 128 + Rem(c, 64)>>
           ELSE <<240 + c \div 262144, 128 + Rem(c \div 4096, 64), 128 + Rem(c \div 64, 64), 128 + Rem(c, 64)>>
\* https://url.spec.whatwg.org/#url-path-segment-string : unreserved + !$&'()*+,/:;=@
PathSafe(c) == \/ IsDigit(c) \/ (c >= 65 /\ c <= 90) \/ (c >= 97 /\ c <= 122)
               \/ c \in {95, 46, 45, 126, 33, 36, 38, 39, 40, 41, 42, 43, 44, 47, 58, 59, 61, 64}
RECURSIVE Quote(_)
Quote(s) == IF s = <<>> THEN <<>>
            ELSE (IF PathSafe(s[1]) THEN <<s[1]>> ELSE Concat([i \in 1..Len(Utf8(s[1])) |-> Pct(Utf8(s[1])[i])]))
                 \o Quote(Tail(s))

RECURSIVE RStripSlash(_)
RStripSlash(s) == IF s # <<>> /\ s[Len(s)] = SLASH THEN RStripSlash(Take(s, Len(s) - 1)) ELSE s
\* the script root every URL of the application starts with: "/" or "/app/"
Root(script) == LET x == RStripSlash(LStripSlash(script)) IN
                IF x = <<>> THEN <<SLASH>> ELSE <<SLASH>> \o x \o <<SLASH>>
HostOf(b) == IF b.sub = <<>> THEN b.server ELSE b.sub \o <<DOT>> \o b.server

FirstOf(s, cs, i) == LET H == {j \in i..Len(s) : s[j] \in cs} IN
                     IF H = {} THEN Len(s) + 1 ELSE CHOOSE j \in H : \A k \in H : j <= k
\* scheme://host/path?query  (what a client does with a Location header)
SplitUrl(u) ==
  LET a == FindFrom(u, <<58, SLASH, SLASH>>, 1)
      rest == IF a = 0 THEN <<>> ELSE Drop(u, a + 2)
      h == FirstOf(rest, {SLASH, 63, 35}, 1)
      pq == Drop(rest, h - 1)
      q == FirstOf(pq, {63}, 1)
  IN [ok |-> a > 1, scheme |-> Take(u, a - 1), host |-> Take(rest, h - 1),
      path |-> Take(pq, q - 1), hasq |-> q <= Len(pq), query |-> Drop(pq, q)]

\* the path_info a server hands to the application for URL path `up` under script root `root`
UrlPathFor(root, p) == root \o LStripSlash(Quote(p))

RECURSIVE JoinPairs(_)
JoinPairs(ps) == IF ps = <<>> THEN <<>>
                 ELSE ps[1][1] \o <<61>> \o ps[1][2] \o (IF Len(ps) > 1 THEN <<38>> \o JoinPairs(Tail(ps)) ELSE <<>>)
\* q = [kind |-> "none" | "str" | "map", s |-> text, pairs |-> <<<<k, v>>>>] ; map keys/values unreserved
QueryText(q) == IF q.kind = "str" THEN q.s ELSE IF q.kind = "map" THEN JoinPairs(q.pairs) ELSE <<>>

\* ---------------------------------------------------------------- the C03 verdict on one observed outcome
(* o = [kind \in match|redirect|notfound|mna|other, rule, args (set), argc, upath (URL path of   *)
(* the redirect target), methods (set)].  Returns "ok" or the name of the violated clause.       *)
JudgeOutcome(rules, m, root, path, method, o) ==
  LET p == Norm(path)
      e == Expected(rules, m, p, method)
  IN IF OutOfDomain(rules, m, path) THEN "ok"
     ELSE CASE o.kind = "match" ->
                 IF o.rule \in 1..Len(rules) /\ o.argc = Cardinality(o.args) /\ MatchOut(o.rule, o.args) \in e.outs THEN "ok"
                 ELSE IF \E cd \in Cands(rules, m, p) : cd.r = o.rule /\ cd.args = o.args /\ MethodOK(rules[cd.r], method)
                      THEN "Priority"
                 ELSE "MatchNotAdmitted"
            [] o.kind = "redirect" ->
                 IF \E x \in e.outs : x.kind = "redirect" /\ o.upath = UrlPathFor(root, x.path) THEN "ok" ELSE "Redirect"
            [] o.kind = "notfound" ->
                 IF e.nf THEN "ok" ELSE IF e.outs # {} THEN "NotFoundButAdmitted" ELSE "NotFoundButMethodNotAllowed"
            [] o.kind = "mna" ->
                 IF ~e.mna THEN "SpuriousMethodNotAllowed"
                 ELSE IF e.mreq \subseteq o.methods /\ o.methods \subseteq e.mall THEN "ok" ELSE "AllowedMethods"
            [] OTHER -> "UnexpectedException"

=============================================================================
