CONSTANTS
  Variant = "orig"
  RuleIds = {8, 11, 13}
  K = 2
  Toks <- TokQ
  MaxParts = 2
  Methods = {"GET", "POST"}
INIT Init
NEXT Next
INVARIANT ImplInExpected
