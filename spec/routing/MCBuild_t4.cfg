CONSTANTS
  PathDot = "fixed"
  AnyQuote = "fixed"
  KeyDefaults = "count"
  Alpha = {97, 32, 37, 63, 35, 59, 43, 233, 8364, 10, 50, 46, 45}
  MaxText = 2
  Shapes = {15, 16, 17, 18, 19, 20, 21}
  ConvIds = {1, 2, 3, 4, 5, 6, 7, 8, 9, 10, 11, 13, 14, 15}
  Binds = {11, 22, 82, 83, 52, 63}
INIT Init
NEXT Next
INVARIANT Laws
