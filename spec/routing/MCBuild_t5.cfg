CONSTANTS
  PathDot = "fixed"
  AnyQuote = "fixed"
  DefaultVia = "to_url"
  KeyDefaults = "count"
  Alpha = {97, 32, 37, 63, 35, 59, 43, 233, 8364, 10, 50, 46, 45}
  MaxText = 2
  Shapes = {15, 16, 18, 19}
  ConvIds = {1, 3}
  Binds = {11, 82, 52}
INIT Init
NEXT Next
INVARIANT Laws
