------------------------------- MODULE MCBuild -------------------------------
(* Bounded universe for C04: every rule shape x converter x value of the converter's domain    *)
(* over representative code points x binding (script root, subdomain / host matching,          *)
(* force_external); TLC checks that the build model followed by Deliver and the match model    *)
(* is the identity (Law1), that rebuilding the match gives the URL again (Law2), and, for      *)
(* every delivered path that the map admits in canonical spelling, that building the match      *)
(* and delivering it gives the path back (Law3).                                                *)
EXTENDS RoutingBuild, TLC, Json

CONSTANTS Alpha,      \* code points for text values
          MaxText,    \* maximal length of a text value
          Shapes,     \* subset of 1..25
          ConvIds,    \* subset of 1..15
          Binds       \* subset of {10 * b + s : b \in 1..7, s \in 1..3}: binding b with script root s

VARIABLES ph, sh, cv, val, val2, bd, sc, ext
vars == <<ph, sh, cv, val, val2, bd, sc, ext>>

T(s) == s   \* readability: literal texts are written as tuples of code points
X == <<120>>
Y == <<121>>
Q == <<113>>
Conv(k, a, b, c, sg, items) == [k |-> k, a |-> a, b |-> b, c |-> c, signed |-> sg, items |-> items, hasmin |-> FALSE, min |-> 0, hasmax |-> FALSE, max |-> 0]
Ranged(c, lo, hi) == [c EXCEPT !.hasmin = TRUE, !.min = lo, !.hasmax = TRUE, !.max = hi]
AnyItems == <<<<97>>, <<97, 32, 98>>, <<120, 37, 52, 49>>, <<113, 63, 114>>, <<104, 35, 105>>, <<233>>>>   \* a | a b | x%41 | q?r | h#i | e-acute
ConvU(i) ==
  CASE i = 1 -> Conv("string", 1, 0, 0, FALSE, <<>>)
    [] i = 2 -> Conv("string", 1, 0, 2, FALSE, <<>>)
    [] i = 3 -> Conv("string", 2, 3, 0, FALSE, <<>>)
    [] i = 4 -> Conv("int", 0, 0, 0, FALSE, <<>>)
    [] i = 5 -> Conv("int", 3, 0, 0, FALSE, <<>>)
    [] i = 6 -> Conv("int", 0, 0, 0, TRUE, <<>>)
    [] i = 7 -> Conv("int", 3, 0, 0, TRUE, <<>>)
    [] i = 8 -> Conv("float", 0, 0, 0, FALSE, <<>>)
    [] i = 9 -> Conv("float", 0, 0, 0, TRUE, <<>>)
    [] i = 10 -> Conv("any", 0, 0, 0, FALSE, AnyItems)
    [] i = 11 -> Conv("uuid", 0, 0, 0, FALSE, <<>>)
    [] i = 12 -> Conv("path", 0, 0, 0, FALSE, <<>>)
    [] i = 13 -> Ranged(Conv("int", 0, 0, 0, FALSE, <<>>), 5, 100)
    [] i = 14 -> Ranged(Conv("float", 0, 0, 0, TRUE, <<>>), 500, 10500)          \* min=0.5, max=10.5 (the rule syntax has no negative arguments)
    [] i = 15 -> Conv("string", 1, 2, 0, FALSE, <<>>)                             \* maxlength alone
    [] OTHER -> Conv("string", 1, 0, 0, FALSE, <<>>)

IntTexts == {<<48>>, <<55>>, <<52, 50>>, <<49, 48, 48>>, <<49, 50, 51, 52>>, <<45, 53>>, <<45, 52, 50>>, <<45, 49, 48, 48>>,
             <<57, 57, 57, 57, 57, 57, 57, 57, 57, 57, 57, 57>>}
FloatTexts == {<<48, 46, 48>>, <<49, 46, 53>>, <<49, 48, 46, 48>>, <<48, 46, 50, 53>>, <<45, 48, 46, 48>>, <<45, 49, 46, 53>>,
               <<48, 46, 48, 48, 48, 49>>, <<51, 46, 49, 52, 49, 53, 57>>}
U1 == <<48,48,48,48,48,48,48,48,45,48,48,48,48,45,48,48,48,48,45,48,48,48,48,45,48,48,48,48,48,48,48,48,48,48,48,53>>
U2 == <<100,101,97,100,98,101,101,102,45,48,49,50,51,45,52,97,53,98,45,56,99,57,100,45,97,98,99,100,101,102,48,49,50,51,52,53>>
Texts == SeqsUpTo(Alpha, MaxText)
PathTexts == SeqsUpTo(Alpha \cup {SLASH}, MaxText)

Cands(c) ==
  CASE c.k = "string" -> {Val("str", t) : t \in Texts}
    [] c.k = "path"   -> {Val("str", t) : t \in PathTexts}
    [] c.k = "any"    -> {Val("str", c.items[i]) : i \in 1..Len(c.items)}
    [] c.k = "int"    -> {Val("int", t) : t \in IntTexts}
    [] c.k = "float"  -> {Val("float", t) : t \in FloatTexts}
    [] OTHER          -> {Val("uuid", U1), Val("uuid", U2)}
ValuesOf(c) == {v \in Cands(c) : Accepts(c, v)}

EX == <<101, 120, 97, 109, 112, 108, 101, 46, 99, 111, 109>>     \* example.com
API == <<97, 112, 105>>
WWW == <<119, 119, 119>>
OTHERH == <<111, 46, 101, 120, 97, 109, 112, 108, 101>>         \* o.example
HTTPS == <<104, 116, 116, 112, 115>>
ScriptU(i) == CASE i = 1 -> <<SLASH>> [] i = 2 -> <<SLASH, 97, 112, 112>> [] OTHER -> <<SLASH, 97, 112, 112, SLASH>>
\* [hm, ruledom, server, sub, scheme]
Sd(dom, domnone, sub, subnone) == [hm |-> FALSE, dom |-> dom, server |-> EX, sub |-> sub, scheme |-> HTTP, dsub |-> WWW, domnone |-> domnone, subnone |-> subnone]
BindU(i) ==
  CASE i = 1 -> [hm |-> FALSE, dom |-> <<>>, server |-> EX, sub |-> <<>>, scheme |-> HTTP]
    [] i = 2 -> [hm |-> FALSE, dom |-> API, server |-> EX, sub |-> WWW, scheme |-> HTTP]
    [] i = 3 -> [hm |-> FALSE, dom |-> API, server |-> EX, sub |-> API, scheme |-> HTTPS]
    [] i = 4 -> [hm |-> FALSE, dom |-> <<>>, server |-> EX, sub |-> WWW, scheme |-> HTTP]
    [] i = 5 -> [hm |-> TRUE, dom |-> EX, server |-> EX, sub |-> <<>>, scheme |-> HTTP]
    [] i = 6 -> [hm |-> TRUE, dom |-> OTHERH, server |-> EX, sub |-> <<>>, scheme |-> HTTPS]
    [] i = 7 -> [hm |-> FALSE, dom |-> API, server |-> EX, sub |-> <<>>, scheme |-> HTTP]
    [] i = 8 -> [hm |-> FALSE, dom |-> <<>>, server |-> EX, sub |-> <<97>>, scheme |-> HTTP]     \* 8: bound on subdomain "a"
    \* 9..14: Map(default_subdomain="www"); rule subdomain None / "" / "api"; bind subdomain None / "" / "www" / "api"
    [] i = 9  -> [Sd(<<>>, TRUE, <<>>, TRUE) EXCEPT !.scheme = HTTPS]
    [] i = 10 -> Sd(<<>>, FALSE, <<>>, TRUE)
    [] i = 11 -> Sd(<<>>, TRUE, <<>>, FALSE)
    [] i = 12 -> Sd(<<>>, FALSE, <<>>, FALSE)
    [] i = 13 -> Sd(API, FALSE, WWW, FALSE)
    [] OTHER -> Sd(<<>>, TRUE, API, FALSE)
BindX(i) == LET b == BindU(i) IN IF i >= 9 THEN b ELSE [hm |-> b.hm, dom |-> b.dom, server |-> b.server, sub |-> b.sub, scheme |-> b.scheme, dsub |-> <<>>, domnone |-> FALSE, subnone |-> FALSE]

Lit(t) == [k |-> "lit", t |-> t, pre |-> <<>>, name |-> <<>>, conv |-> ConvU(1), post |-> <<>>, more |-> <<>>]
Var(pre, n, c, post) == [k |-> "var", t |-> <<>>, pre |-> pre, name |-> n, conv |-> c, post |-> post, more |-> <<>>]
Var2(pre, n, c, post, n2, c2, post2) == [Var(pre, n, c, post) EXCEPT !.more = <<[name |-> n2, conv |-> c2, post |-> post2]>>]
Rule(ep, segs, branch, defaults, dom) == [ep |-> ep, segs |-> segs, branch |-> branch, defaults |-> defaults, dom |-> dom, dsegs |-> <<>>, domnone |-> FALSE]
DynRule(ep, segs, branch, dseg) == [ep |-> ep, segs |-> segs, branch |-> branch, defaults |-> <<>>, dom |-> <<>>, dsegs |-> <<dseg>>, domnone |-> FALSE]
UN == <<117>>            \* "u"
PN == <<112, 111, 114, 116>>   \* "port"
DomVals == {Val("str", <<97>>), Val("str", <<97, 46, 98>>), Val("str", <<120, 45, 49>>)}      \* a | a.b | x-1
PortVals == {Val("int", <<56, 48, 56, 48>>), Val("int", <<56, 49>>)}                          \* 8080 | 81
LA == <<108, 97>>       \* "la"
LB == <<108, 98>>       \* "lb"
EDIT == <<101, 100, 105, 116>>
WEIRD == <<97, 32, 98, 37, 233>>   \* "a b%e-acute": a static segment that needs quoting
C2 == ConvU(4)          \* second variable of shape 4: an int

Dflt(c) == CASE c.k \in {"string", "path"} -> Val("str", IF c.a = 2 THEN <<97, 37>> ELSE IF c.c = 2 THEN <<97, 97>> ELSE <<97>>)
             [] c.k = "any" -> Val("str", <<97, 32, 98>>)
             [] c.k = "int" -> Val("int", <<55>>)
             [] c.k = "float" -> Val("float", <<49, 46, 53>>)
             [] OTHER -> Val("uuid", U1)
\* shapes 9..14: one endpoint served by three rules that share the arguments x, y and carry 2, 1 and 0 defaults
\* (/la {x, y}; /lb/<x> {y}; /lc/<int:y>/<x>), declared in each of the six orders
LC == <<108, 99>>
Group(c, v, dom) ==
  <<Rule(1, <<Lit(LA)>>, FALSE, <<Named(X, v), Named(Y, Dflt(C2))>>, dom),
    Rule(1, <<Lit(LB), Var(<<>>, X, c, <<>>)>>, FALSE, <<Named(Y, Dflt(C2))>>, dom),
    Rule(1, <<Lit(LC), Var(<<>>, Y, C2, <<>>), Var(<<>>, X, c, <<>>)>>, FALSE, <<>>, dom)>>
Perm(k) == CASE k = 1 -> <<1, 2, 3>> [] k = 2 -> <<1, 3, 2>> [] k = 3 -> <<2, 1, 3>> [] k = 4 -> <<2, 3, 1>>
             [] k = 5 -> <<3, 1, 2>> [] OTHER -> <<3, 2, 1>>
GroupY == {NoVal, Dflt(C2), Val("int", <<52, 50>>)}

KN == <<107>>
\* default of a placeholder: an int-typed default for float converters, a text that needs quoting for string / path,
\* a negative one for signed ints
DfltP(c) == CASE c.k = "float" -> Val("int", <<55>>)
              [] c.k \in {"string", "path"} -> Val("str", <<37, 52, 49>>)
              [] c.k = "any" -> Val("str", <<120, 37, 52, 49>>)
              [] c.k = "int" -> IF c.signed THEN Val("int", <<45, 53>>) ELSE Val("int", <<55>>)
              [] OTHER -> Val("uuid", U2)

\* the rules of the map for a shape (dom filled in by the binding)
RulesFor(s, c, v0, dom) ==
  LET v == Dflt(c) IN
  CASE s = 1 -> <<Rule(1, <<Lit(LA), Var(<<>>, X, c, <<>>)>>, FALSE, <<>>, dom)>>
    [] s = 2 -> <<Rule(1, <<Lit(LA), Var(<<>>, X, c, <<>>)>>, TRUE, <<>>, dom)>>
    [] s = 3 -> <<Rule(1, <<Lit(LA), Var(<<112, 45>>, X, c, <<126, 115>>)>>, FALSE, <<>>, dom)>>
    [] s = 4 -> <<Rule(1, <<Lit(LA), Var(<<>>, X, c, <<>>), Lit(EDIT)>>, FALSE, <<>>, dom)>>
    [] s = 5 -> <<Rule(1, <<Lit(LA)>>, TRUE, <<Named(X, v)>>, dom), Rule(1, <<Lit(LB), Var(<<>>, X, c, <<>>)>>, FALSE, <<>>, dom)>>
    [] s = 6 -> <<Rule(1, <<Lit(WEIRD), Var(<<>>, X, c, <<>>)>>, TRUE, <<Named(Q, Val("str", <<122>>))>>, dom)>>
    [] s = 7 -> <<Rule(2, <<Lit(LB)>>, FALSE, <<>>, dom), Rule(1, <<Lit(LA), Var(<<>>, Y, C2, <<>>), Var(<<>>, X, c, <<>>)>>, FALSE, <<>>, dom)>>
    [] s = 8 -> <<Rule(1, <<Lit(LB), Var(<<>>, X, c, <<>>)>>, FALSE, <<>>, dom), Rule(1, <<Lit(LA)>>, TRUE, <<Named(X, v)>>, dom)>>
    [] s \in 9..14 -> [i \in 1..3 |-> Group(c, v, dom)[Perm(s - 8)[i]]]
    \* 15..17: variables in the domain part: subdomain <u>; host <u>.example.com; host example.com:<int:port>
    [] s = 15 -> <<DynRule(1, <<Lit(LA), Var(<<>>, X, c, <<>>)>>, FALSE, Var(<<>>, UN, ConvU(1), <<>>))>>
    [] s = 16 -> <<DynRule(1, <<Lit(LA), Var(<<>>, X, c, <<>>)>>, TRUE, Var(<<>>, UN, ConvU(1), <<DOT>> \o EX))>>
    [] s = 17 -> <<DynRule(1, <<Lit(LA), Var(<<>>, X, c, <<>>)>>, FALSE, Var(EX \o <<COLON>>, PN, ConvU(4), <<>>))>>
    \* 18, 19: two variables in one segment: /la/<int:y>-<x>   /la/v<x>.<int:y>~s
    [] s = 18 -> <<Rule(1, <<Lit(LA), Var2(<<>>, Y, C2, <<MINUS>>, X, c, <<>>)>>, FALSE, <<>>, dom)>>
    [] s = 19 -> <<Rule(1, <<Lit(LA), Var2(<<118>>, X, c, <<DOT>>, Y, C2, <<126, 115>>)>>, TRUE, <<>>, dom)>>
    \* 22..25: a default for a placeholder of the rule itself (resolved through to_url at compile time):
    \* /la/<x> {x}; the same next to /lb/<x> without defaults; in a subdomain / host placeholder <int(fixed_digits=3):k>
    [] s = 22 -> <<Rule(1, <<Lit(LA), Var(<<>>, X, c, <<>>)>>, FALSE, <<Named(X, DfltP(c))>>, dom)>>
    [] s = 23 -> <<Rule(1, <<Lit(LB), Var(<<>>, X, c, <<>>)>>, TRUE, <<>>, dom), Rule(1, <<Lit(LA), Var(<<112, 45>>, X, c, <<>>)>>, FALSE, <<Named(X, DfltP(c))>>, dom)>>
    [] s = 24 -> <<[DynRule(1, <<Lit(LA), Var(<<>>, X, c, <<>>)>>, FALSE, Var(<<>>, KN, ConvU(5), <<>>)) EXCEPT !.defaults = <<Named(KN, Val("int", <<55>>))>>]>>
    [] s = 25 -> <<[DynRule(1, <<Lit(LA), Var(<<>>, X, c, <<>>)>>, TRUE, Var(<<>>, KN, ConvU(7), <<DOT>> \o EX)) EXCEPT !.defaults = <<Named(KN, Val("int", <<45, 53>>))>>]>>
    \* 20, 21: shape 3 (extra query values) under sort_parameters / sort_key = value
    [] OTHER -> <<Rule(1, <<Lit(LA), Var(<<112, 45>>, X, c, <<126, 115>>)>>, FALSE, <<>>, dom)>>

\* shapes where the variable is not the last segment cannot hold a path converter followed by a variable
ShapeOKFor(s, c) == (s \in {7, 18, 19} => c.k # "path")
BindOKFor(s, b) == (s \in {16, 17, 25} => BindU(b).hm) /\ (s \in {15, 24} => ~BindU(b).hm)

RawRules == RulesFor(sh, ConvU(cv), val, BindU(bd).dom)
MapOf == [rules |-> [i \in 1..Len(RawRules) |-> [RawRules[i] EXCEPT !.domnone = BindX(bd).domnone /\ RawRules[i].dsegs = <<>>]],
          host_matching |-> BindU(bd).hm, redirect_defaults |-> TRUE, dsub |-> BindX(bd).dsub,
          sort |-> IF sh = 20 THEN 1 ELSE IF sh = 21 THEN 2 ELSE 0]
BindOf == [server |-> BindU(bd).server, script |-> ScriptU(sc), sub |-> BindU(bd).sub, scheme |-> BindU(bd).scheme, subnone |-> BindX(bd).subnone]
\* the call: endpoint 1 with x (not given in the defaults shapes half of the time: val2 = "none"), y for shape 7, an extra for shape 3
ValsOf == IF sh = 22 THEN (IF val2.ty = "none" THEN <<>> ELSE <<Named(X, DfltP(ConvU(cv)))>>)
          ELSE IF sh = 23 THEN (IF val2.ty # "none" THEN <<Named(X, DfltP(ConvU(cv)))>> ELSE IF val.ty = "none" THEN <<>> ELSE <<Named(X, val)>>)
          ELSE IF sh \in {24, 25} THEN <<Named(X, val)>> \o (IF val2.ty = "none" THEN <<>> ELSE <<Named(KN, Val("int", IF sh = 24 THEN <<55>> ELSE <<45, 53>>))>>)
          ELSE IF sh \in {15, 16} THEN <<Named(X, val), Named(UN, val2)>>
          ELSE IF sh = 17 THEN <<Named(PN, val2), Named(X, val)>>
          ELSE IF sh \in {18, 19} THEN <<Named(X, val), Named(Y, val2)>>
          ELSE IF sh \in 9..14 THEN (IF val.ty = "none" THEN <<>> ELSE <<Named(X, val)>>) \o (IF val2.ty = "none" THEN <<>> ELSE <<Named(Y, val2)>>)
          ELSE
          (IF sh \in {5, 8} /\ val2.ty = "none" THEN <<>> ELSE <<Named(X, val)>>)
          \o (IF sh = 7 THEN <<Named(Y, val2)>> ELSE <<>>)
          \o (IF sh \in {3, 20, 21} THEN <<Named(Q, Val("str", <<97, 32, 38, 61, 233>>)), [name |-> <<122>>, ty |-> "list", v |-> <<>>, items |-> <<<<49>>, <<43>>>>]>> ELSE <<>>)

\* initial states = (shape, converter, binding): cheap; the values are chosen by Next so that the laws
\* are evaluated by all workers
Init == /\ ph = 0
        /\ sh \in Shapes
        /\ cv \in ConvIds
        /\ ShapeOKFor(sh, ConvU(cv))
        /\ \E x \in Binds : bd = x \div 10 /\ sc = x % 10
        /\ BindOKFor(sh, bd)
        /\ val = NoVal /\ val2 = NoVal /\ ext = FALSE
Next == /\ ph = 0 /\ ph' = 1
        /\ val' \in (IF sh = 22 THEN {NoVal} ELSE ValuesOf(ConvU(cv)) \cup (IF sh \in (9..14) \cup {23} THEN {NoVal} ELSE {}))
        /\ val2' \in (IF sh \in 9..14 THEN GroupY ELSE IF sh \in {15, 16} THEN DomVals ELSE IF sh = 17 THEN PortVals
                      ELSE IF sh \in {18, 19} THEN ValuesOf(C2) ELSE IF sh \in 22..25 THEN {NoVal, Val("str", <<>>)} ELSE IF sh = 7 THEN ValuesOf(C2) ELSE IF sh \in {5, 8} THEN {NoVal, Val("str", <<>>)} ELSE {NoVal})
        /\ ext' \in BOOLEAN
        /\ UNCHANGED <<sh, cv, bd, sc>>
NoNext == FALSE /\ UNCHANGED vars

SeqOfSet(S) == LET RECURSIVE F(_) F(R) == IF R = {} THEN <<>> ELSE LET x == CHOOSE y \in R : TRUE IN <<x>> \o F(R \ {x}) IN F(S)
AsVals(S) == LET q == SeqOfSet(S) IN [i \in 1..Len(q) |-> [name |-> q[i][1], ty |-> q[i][2], v |-> q[i][3], items |-> q[i][4]]]

\* the URL is plain ASCII without raw space, control characters or '#'
L0(Built) == IsAsciiSeq(Built.url) /\ \A i \in 1..Len(Built.url) : Built.url[i] > 32 /\ Built.url[i] # HASH /\ Built.url[i] # 127
\* build -> deliver -> match is the identity on (endpoint, values); extras come back from the query
L1(m, vals, Built, Delivered, Dom, Matches) ==
        /\ Built.ok
        /\ Delivered.under /\ Dom.ok
        /\ Cardinality(Matches) = 1
        /\ \A x \in Matches : /\ x.ep = 1
                              /\ x.vals \in ExpectedVals(m, 1, vals)
                              /\ QueryDecode(Delivered.query) \in ExpectedExtras(m, 1, vals, x.vals)
                              /\ x.rule = Built.rule
\* building the match again gives the URL (without the query)
L2(m, b, Built, Matches) == \A x \in Matches : BuildUrl(m, b, x.ep, AsVals(x.vals), ext).url = StripQuery(Built.url)
\* converse: whatever the map admits among the neighbours of a delivered path is a fixed point of
\* match . deliver . build, and a canonical spelling is given back literally
NearPaths(p) ==
  {p, p \o <<SLASH>>, <<SLASH>> \o p, RStripSlash(p)}
  \cup {Take(p, i) \o <<ZERO>> \o Drop(p, i) : i \in 0..Len(p)}
  \cup {Take(p, i) \o Drop(p, i + 1) : i \in 0..(Len(p) - 1)}
L3(m, b, Delivered, Dom) == \A p \in NearPaths(Delivered.path) :
   \A x \in MatchM(m, Dom.dom, p) :
     LET rb == BuildUrl(m, b, x.ep, AsVals(x.vals), ext)
         d2 == Deliver(m, b, rb.url)
     IN (\A tv \in x.vals : tv[2] # "float?") =>
        /\ rb.ok /\ d2.under
        /\ \E y \in MatchM(m, Dom.dom, d2.path) : y.ep = x.ep /\ y.vals = x.vals
        /\ CanonPath(m, Dom.dom, p) => d2.path = p

Laws ==
  LET m == NormMap(MapOf)
      b == NormBind(MapOf, BindOf)
      vals == ValsOf
      Built == BuildUrl(m, b, 1, vals, ext)
      Delivered == Deliver(m, b, Built.url)
      Dom == DomPart(m, b, Delivered.host)
      Matches == MatchM(m, Dom.dom, Delivered.path)
      bad == IF ~L0(Built) THEN "Law0" ELSE IF ~L1(m, vals, Built, Delivered, Dom, Matches) THEN "Law1"
             ELSE IF ~L2(m, b, Built, Matches) THEN "Law2" ELSE IF ~L3(m, b, Delivered, Dom) THEN "Law3" ELSE "ok"
  IN IF ph = 0 \/ bad = "ok" \/ Candidates(m.rules, 1, vals) = {} \/ (\E i \in Candidates(m.rules, 1, vals) : ~InDomain(m.rules[i], vals)) THEN TRUE ELSE PrintT(<<bad, Built.url, Delivered, Matches>>) /\ FALSE

ExportCase == LET m == MapOf b == BindOf IN    \* exported unresolved: the real Map / bind resolve None themselves
  ph = 0 \/ Candidates(m.rules, 1, ValsOf) = {} \/ (\E i \in Candidates(m.rules, 1, ValsOf) : ~InDomain(m.rules[i], ValsOf)) \/ PrintT(ToJson([map |-> m, bind |-> b, ep |-> 1, vals |-> ValsOf, ext |-> ext, url |-> BuildUrl(NormMap(m), NormBind(m, b), 1, ValsOf, ext).url]))
=============================================================================
