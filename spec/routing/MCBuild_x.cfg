CONSTANTS
  PathDot = "fixed"
  AnyQuote = "fixed"
  DefaultVia = "to_url"
  KeyDefaults = "count"
  Alpha = {97, 32, 37, 63, 35, 59, 43, 233, 8364, 10, 50}
  MaxText = 1
  Shapes = {1, 2, 3, 4, 5, 6, 7, 8}
  ConvIds = {1, 2, 3, 4, 5, 6, 7, 8, 9, 10, 11, 12}
  Binds = {12, 61}
INIT Init
NEXT Next
INVARIANT ExportCase
