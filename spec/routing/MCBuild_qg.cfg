CONSTANTS
  PathDot = "fixed"
  AnyQuote = "fixed"
  DefaultVia = "to_url"
  KeyDefaults = "count"
  Alpha = {97, 32, 37, 63, 35, 59, 43, 233, 8364, 10, 50, 46, 45}
  MaxText = 1
  Shapes = {15, 16, 17, 18, 19, 20, 21}
  ConvIds = {1, 13, 14}
  Binds = {11, 82, 52}
INIT Init
NEXT Next
INVARIANT Laws
