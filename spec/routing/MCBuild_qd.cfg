CONSTANTS
  PathDot = "fixed"
  AnyQuote = "fixed"
  DefaultVia = "to_url"
  KeyDefaults = "count"
  Alpha = {97, 32, 37, 63, 35, 59, 43, 233, 8364, 10, 50}
  MaxText = 1
  Shapes = {9, 10, 11, 12, 13, 14}
  ConvIds = {1, 4, 12}
  Binds = {11, 22}
INIT Init
NEXT Next
INVARIANT Laws
