CONSTANTS
  PathDot = "fixed"
  AnyQuote = "fixed"
  DefaultVia = "to_url"
  KeyDefaults = "count"
  Alpha = {97, 32, 37, 63, 35, 59, 43, 233, 8364, 10, 50, 46, 45}
  MaxText = 1
  Shapes = {22, 23, 24, 25}
  ConvIds = {1, 5, 7, 8, 9, 10, 12}
  Binds = {11, 52, 83}
INIT Init
NEXT Next
INVARIANT Laws
