-------------------------- MODULE RoutingBuildTrace --------------------------
(* Trace judge for C04.  Input: ndjson (TRACE_FILE), one self-contained line per observation.   *)
(*  rt  : [t, i, op, map, bind, ep, vals, ext, url, exc, under, dhost, dpath, dquery,            *)
(*         m: Obs (match on the building adapter, kind "skip" for external URLs),                *)
(*         e: Obs (match through Map.bind_to_environ on the delivered request),                  *)
(*         qargs: <<<<name, value>>>> (Request.args of the delivered request), rebuilt, rb_exc]  *)
(*  conv: [t, i, op, map, bind, path, m: Obs, rebuilt, rb_exc, under, d2path, rm: Obs]           *)
(*  Obs = [kind, ep, vals];  map = [rules, host_matching, redirect_defaults];                    *)
(*  bind = [server, script, sub, scheme].                                                        *)
(* Verdict clauses relate only observables the property names (build output, match output,       *)
(* rebuilt URL, query values); the recorder's own delivery is cross-checked against Deliver      *)
(* (clause HarnessDeliver = machinery); the Build / Match models are compared as drift.          *)
EXTENDS RoutingBuild, TLC, Json, IOUtils

Lines == ndJsonDeserialize(IOEnv.TRACE_FILE)
VARIABLES l
vars == <<l>>

\* generator predicate of the quantifier: rules on one domain part start with pairwise distinct literals
NonOverlap(m) == \A i, j \in 1..Len(m.rules) :
   /\ Len(m.rules[i].segs) >= 1 /\ m.rules[i].segs[1].k = "lit"
   /\ (i # j /\ m.rules[i].dom = m.rules[j].dom) => m.rules[i].segs[1].t # m.rules[j].segs[1].t

CallInDomain(r) == LET C == Candidates(r.map.rules, r.ep, r.vals) IN
   NonOverlap(r.map) /\ C # {} /\ \A i \in C : InDomain(r.map.rules[i], r.vals)

ObsClause(r, o) ==
  IF o.kind = "skip" THEN "ok"
  ELSE IF o.kind = "redirect" THEN "BuiltUrlRedirects"   \* the matcher sends the URL build() returned to another URL
  ELSE IF o.kind # "match" THEN "NotMatched"
  ELSE IF o.ep # r.ep THEN "EndpointDiffers"
  ELSE IF ValSet(o.vals) \notin ExpectedVals(r.map, r.ep, r.vals) THEN "ValuesDiffer"
  ELSE "ok"

JudgeRT(r) ==
  IF ~CallInDomain(r) THEN "ok"
  ELSE IF r.exc # "" THEN "BuildFailed"
  ELSE LET d == Deliver(r.map, r.bind, r.url)
           dp == DomPart(r.map, r.bind, d.host) IN
       IF ~d.under THEN "NotUnderScriptRoot"
       ELSE IF ~dp.ok THEN "HostNotServed"
       ELSE IF ~r.under \/ r.dhost # d.host \/ r.dpath # d.path \/ r.dquery # d.query THEN "HarnessDeliver"
       ELSE IF r.e.kind = "skip" THEN "HarnessDeliver"
       ELSE LET a == ObsClause(r, r.m) b == ObsClause(r, r.e) IN
            IF a # "ok" THEN a ELSE IF b # "ok" THEN b
            ELSE IF r.qargs \notin ExpectedExtras(r.map, r.ep, r.vals, ValSet(r.e.vals)) THEN "QueryDiffers"
            ELSE IF r.rb_exc # "" THEN "RebuildFailed"
            ELSE IF r.rebuilt # StripQuery(r.url) THEN "RebuildDiffers"
            ELSE "ok"

DomOfBind(m, b) == IF m.host_matching THEN b.server ELSE b.sub
JudgeConv(r) ==
  IF ~NonOverlap(r.map) \/ r.m.kind # "match" THEN "ok"
  ELSE IF \E i \in 1..Len(r.m.vals) : r.m.vals[i].ty = "other" THEN "ok"
  ELSE IF r.rb_exc # "" THEN "ConverseBuildFailed"
  ELSE LET d == Deliver(r.map, r.bind, r.rebuilt) IN
       IF ~d.under \/ d.host # AdapterHost(r.map, r.bind) THEN "NotUnderScriptRoot"
       ELSE IF ~r.under \/ r.d2path # d.path THEN "HarnessDeliver"
       ELSE IF r.rm.kind # "match" \/ r.rm.ep # r.m.ep \/ ValSet(r.rm.vals) # ValSet(r.m.vals) THEN "RematchDiffers"
       ELSE IF CanonPath(r.map, DomOfBind(r.map, r.bind), r.path) /\ d.path # r.path THEN "ConverseDiffers"
       ELSE "ok"

Verdict(r) == CASE r.op = "rt" -> JudgeRT(r) [] r.op = "conv" -> JudgeConv(r) [] OTHER -> "ok"

\* model drift: the Build / Match models against the observed URL / match (never a verdict)
DriftRT(r) ==
  IF ~CallInDomain(r) \/ r.exc # "" \/ Len(r.url) > 300 THEN "ok"
  ELSE LET bu == BuildUrl(r.map, r.bind, r.ep, r.vals, r.ext) IN
       IF ~bu.ok \/ bu.url # r.url THEN "build"
       ELSE IF r.e.kind = "match" /\ r.under
               /\ ~\E x \in MatchM(r.map, DomPart(r.map, r.bind, r.dhost).dom, r.dpath) : x.ep = r.e.ep /\ x.vals = ValSet(r.e.vals) THEN "match"
       ELSE "ok"
DriftConv(r) ==
  IF ~NonOverlap(r.map) \/ Len(r.path) > 200 THEN "ok"
  ELSE LET M == MatchM(r.map, DomOfBind(r.map, r.bind), r.path) IN
       IF r.m.kind = "match" THEN
            (IF (\A i \in 1..Len(r.m.vals) : r.m.vals[i].ty # "float") /\ ~\E x \in M : x.ep = r.m.ep /\ x.vals = ValSet(r.m.vals) THEN "match" ELSE "ok")
       ELSE IF r.m.kind = "notfound" /\ M # {} THEN "nomatch" ELSE "ok"
Drift(r) == CASE r.op = "rt" -> DriftRT(r) [] r.op = "conv" -> DriftConv(r) [] OTHER -> "ok"

Init == l = 1
Next == /\ l <= Len(Lines)
        /\ LET r == Lines[l] v == Verdict(r) d == Drift(r) IN
           /\ IF v = "ok" THEN TRUE ELSE PrintT(ToJson([reject |-> 1, t |-> r.t, i |-> r.i, clause |-> v]))
           /\ IF d = "ok" THEN TRUE ELSE PrintT(ToJson([drift |-> 1, t |-> r.t, i |-> r.i, what |-> d]))
        /\ l' = l + 1
Done == PrintT(ToJson([judged |-> Len(Lines)])) /\ TLCGet("generated") >= 0
=============================================================================
