-------------------------- MODULE RoutingBuildTrace --------------------------
(* Trace judge for C04.  Input: ndjson (TRACE_FILE), one self-contained line per observation.   *)
(*  rt  : [t, i, op, map, bind, ep, vals, ext, url, exc, under, dhost, dpath, dquery,            *)
(*         m: Obs (match on the building adapter, kind "skip" for external URLs),                *)
(*         e: Obs (match through Map.bind_to_environ on the delivered request),                  *)
(*         qargs: <<<<name, value>>>> (Request.args of the delivered request), rebuilt, rb_exc]  *)
(*  conv: [t, i, op, map, bind, path, m: Obs, rebuilt, rb_exc, under, d2path, rm: Obs]           *)
(*  Obs = [kind, ep, vals];  map = [rules, host_matching, redirect_defaults];                    *)
(*  bind = [server, script, sub, scheme].                                                        *)
(* Verdict clauses relate only observables the property names (build output, match output,       *)
(* rebuilt URL, query values); the recorder's own delivery is cross-checked against Deliver      *)
(* (clause HarnessDeliver = machinery); the Build / Match models are compared as drift.          *)
EXTENDS RoutingBuild, TLC, Json, IOUtils

Lines == ndJsonDeserialize(IOEnv.TRACE_FILE)
VARIABLES l
vars == <<l>>

\* generator predicate of the quantifier: rules on one domain part start with pairwise distinct literals
\* (a rule whose domain part has variables may meet any other rule: its first literal is distinct from all)
\* (the root rule "/" -- no segments -- meets no rule that starts with a literal)
NonOverlap(m) == \A i, j \in 1..Len(m.rules) :
   /\ Len(m.rules[i].segs) = 0 \/ m.rules[i].segs[1].k = "lit"
   /\ (i # j /\ (m.rules[i].dom = m.rules[j].dom \/ m.rules[i].dsegs # <<>> \/ m.rules[j].dsegs # <<>>)) =>
        IF Len(m.rules[i].segs) = 0 \/ Len(m.rules[j].segs) = 0 THEN Len(m.rules[i].segs) # Len(m.rules[j].segs)
        ELSE m.rules[i].segs[1].t # m.rules[j].segs[1].t

\* the values build() works with: None values are dropped; with append_unknown=False the values that are no
\* argument of any rule of the endpoint play no role
EpArgs(m, ep) == UNION {Args(m.rules[i]) : i \in {j \in 1..Len(m.rules) : m.rules[j].ep = ep}}
EffVals(r) == LET v == Live(r.vals) IN IF r.au THEN v ELSE SelectSeq(v, LAMBDA x : x.name \in EpArgs(r.map, r.ep))

\* growth features of a call decide the clause prefix: Dom (variables in the domain part), Multi (several
\* variables in one segment), Opt (min / max options), Qry (sorting, append_unknown=False, None values)
CandRules(r) == {r.map.rules[i] : i \in Candidates(r.map.rules, r.ep, EffVals(r))}
HasMulti(x) == \E i \in 1..Len(x.segs) : x.segs[i].k = "var" /\ x.segs[i].more # <<>>
HasRange(x) == \E i \in 1..Len(AllVars(x)) : AllVars(x)[i].conv.hasmin \/ AllVars(x)[i].conv.hasmax
Feature(r) == IF r.hist < 0 THEN "Conc"      \* round trip made by a second thread while the first use of the Map was parked inside Map.update()
              ELSE IF r.hist > 0 THEN "Alias"      \* a later round trip of a history on one Map / adapter (results and inputs were mutated in between)
              ELSE IF r.map.dsub # <<>> THEN "Sub"
              ELSE IF \E x \in CandRules(r) : HasPlaceholderDefault(x) THEN "Def"
              ELSE IF \E x \in CandRules(r) : x.dsegs # <<>> THEN "Dom"
              ELSE IF \E x \in CandRules(r) : HasMulti(x) THEN "Multi"
              ELSE IF r.map.sort # 0 \/ ~r.au \/ Len(Live(r.vals)) # Len(r.vals) THEN "Qry"
              ELSE IF \E x \in CandRules(r) : HasRange(x) THEN "Opt" ELSE ""
SameBag(a, b) == Len(a) = Len(b) /\ \A i \in 1..Len(a) :
   Cardinality({j \in 1..Len(a) : a[j] = a[i]}) = Cardinality({j \in 1..Len(b) : b[j] = a[i]})

CallInDomain(r) == LET C == Candidates(r.map.rules, r.ep, EffVals(r)) IN
   NonOverlap(r.map) /\ C # {} /\ \A i \in C : InDomain(r.map.rules[i], EffVals(r))

ObsClause(r, o) ==
  IF o.kind = "skip" THEN "ok"
  ELSE IF o.kind = "redirect" THEN "BuiltUrlRedirects"   \* the matcher sends the URL build() returned to another URL
  ELSE IF o.kind # "match" THEN "NotMatched"
  ELSE IF o.ep # r.ep THEN "EndpointDiffers"
  ELSE IF ValSet(o.vals) \notin ExpectedVals(r.map, r.ep, EffVals(r)) THEN "ValuesDiffer"
  ELSE "ok"

JudgeRT0(r) ==
  IF ~CallInDomain(r) THEN "ok"
  ELSE IF r.exc # "" THEN "BuildFailed"
  ELSE LET d == Deliver(r.map, r.bind, r.url)
           dp == DomPart(r.map, r.bind, d.host) IN
       IF ~d.under THEN "NotUnderScriptRoot"
       ELSE IF ~dp.ok THEN "HostNotServed"
       ELSE IF ~r.under \/ r.dhost # d.host \/ r.dpath # d.path \/ r.dquery # d.query THEN "HarnessDeliver"
       ELSE IF r.e.kind = "skip" THEN "HarnessDeliver"
       ELSE LET a == ObsClause(r, r.m) b == ObsClause(r, r.e) IN
            IF a # "ok" THEN a ELSE IF b # "ok" THEN b
            ELSE IF r.map.sort = 0 /\ r.qargs \notin ExpectedExtras(r.map, r.ep, EffVals(r), ValSet(r.e.vals)) THEN "QueryDiffers"
            ELSE IF r.map.sort # 0 /\ ~\E x \in ExpectedExtras(r.map, r.ep, EffVals(r), ValSet(r.e.vals)) : SameBag(r.qargs, x) THEN "QueryDiffers"
            ELSE IF r.rb_exc # "" THEN "RebuildFailed"
            ELSE IF r.rebuilt # StripQuery(r.url) THEN "RebuildDiffers"
            ELSE "ok"

JudgeRT(r) == LET c == JudgeRT0(r) IN IF c \in {"ok", "HarnessDeliver"} THEN c ELSE Feature(r) \o c

DomOfBind(m, b) == IF m.host_matching THEN b.server ELSE b.sub
ConvFeature(r) == IF r.map.dsub # <<>> THEN "Sub"
                  ELSE IF \E i \in 1..Len(r.map.rules) : HasPlaceholderDefault(r.map.rules[i]) THEN "Def"
                  ELSE IF \E i \in 1..Len(r.map.rules) : r.map.rules[i].dsegs # <<>> THEN "Dom"
                  ELSE IF \E i \in 1..Len(r.map.rules) : HasMulti(r.map.rules[i]) THEN "Multi"
                  ELSE IF \E i \in 1..Len(r.map.rules) : HasRange(r.map.rules[i]) THEN "Opt" ELSE ""
\* the adapter of a conv line is bound on a domain part whose variable values are inside the claimed domain
DomGuard(r) == LET d == DomOfBind(r.map, r.bind) IN
  \A j \in 1..Len(r.map.rules) : (r.map.rules[j].dsegs # <<>> /\ DomAdmits(r.map.rules[j], d, FALSE)) => DomAdmits(r.map.rules[j], d, TRUE)
JudgeConv0(r) ==
  IF ~NonOverlap(r.map) \/ r.m.kind # "match" \/ ~DomGuard(r) THEN "ok"
  ELSE IF \E i \in 1..Len(r.m.vals) : r.m.vals[i].ty = "other" THEN "ok"
  \* a matched float whose str() is not positional (1e-05 from the path "0.00001") or has more than 15 significant
  \* digits is outside the float converter's canonical domain: the law promises nothing about rebuilding it
  ELSE IF \E i \in 1..Len(r.m.vals) : r.m.vals[i].ty = "float" /\ ~FloatCanon(r.m.vals[i].v, TRUE) THEN "ok"
  ELSE IF r.rb_exc # "" THEN "ConverseBuildFailed"
  ELSE LET d == Deliver(r.map, r.bind, r.rebuilt) IN
       IF ~d.under \/ d.host # AdapterHost(r.map, r.bind) THEN "NotUnderScriptRoot"
       ELSE IF ~r.under \/ r.d2path # d.path THEN "HarnessDeliver"
       ELSE IF r.rm.kind # "match" \/ r.rm.ep # r.m.ep \/ ValSet(r.rm.vals) # ValSet(r.m.vals) THEN "RematchDiffers"
       ELSE IF CanonPath(r.map, DomOfBind(r.map, r.bind), r.path) /\ d.path # r.path THEN "ConverseDiffers"
       ELSE "ok"

JudgeConv(r) == LET c == JudgeConv0(r) IN IF c \in {"ok", "HarnessDeliver"} THEN c ELSE ConvFeature(r) \o c

Verdict(r) == CASE r.op = "rt" -> JudgeRT(r) [] r.op = "conv" -> JudgeConv(r) [] OTHER -> "ok"

\* model drift: the Build / Match models against the observed URL / match (never a verdict)
DriftRT(r) ==
  IF ~CallInDomain(r) \/ r.exc # "" \/ Len(r.url) > 300 THEN "ok"
  ELSE LET bu == BuildUrl(r.map, r.bind, r.ep, EffVals(r), r.ext) IN
       IF ~bu.ok \/ bu.url # r.url THEN "build"
       ELSE IF r.e.kind = "match" /\ r.under /\ (\A i \in 1..Len(r.e.vals) : r.e.vals[i].ty = "float" => FloatCanon(r.e.vals[i].v, TRUE))
               /\ ~\E x \in MatchM(r.map, DomPart(r.map, r.bind, r.dhost).dom, r.dpath) : x.ep = r.e.ep /\ x.vals = ValSet(r.e.vals) THEN "match"
       ELSE IF r.map.sort # 0 /\ r.under /\ QueryDecode(r.dquery) \notin ExpectedExtras(r.map, r.ep, EffVals(r), ValSet(r.e.vals)) THEN "qsort"
       ELSE "ok"
DriftConv(r) ==
  IF ~NonOverlap(r.map) \/ Len(r.path) > 200 THEN "ok"
  ELSE LET M == MatchM(r.map, DomOfBind(r.map, r.bind), r.path) IN
       IF r.m.kind = "match" THEN
            (IF (\A i \in 1..Len(r.m.vals) : r.m.vals[i].ty # "float") /\ ~\E x \in M : x.ep = r.m.ep /\ x.vals = ValSet(r.m.vals) THEN "match" ELSE "ok")
       ELSE IF r.m.kind = "notfound" /\ M # {} THEN "nomatch" ELSE "ok"
Drift(r) == CASE r.op = "rt" -> DriftRT(r) [] r.op = "conv" -> DriftConv(r) [] OTHER -> "ok"

Init == l = 1
Next == /\ l <= Len(Lines)
        /\ LET r == [Lines[l] EXCEPT !.map = NormMap(Lines[l].map), !.bind = NormBind(Lines[l].map, Lines[l].bind)]
               v == Verdict(r) d == Drift(r) IN
           /\ IF v = "ok" THEN TRUE ELSE PrintT(ToJson([reject |-> 1, t |-> r.t, i |-> r.i, clause |-> v]))
           /\ IF d = "ok" THEN TRUE ELSE PrintT(ToJson([drift |-> 1, t |-> r.t, i |-> r.i, what |-> d]))
        /\ l' = l + 1
Done == PrintT(ToJson([judged |-> Len(Lines)])) /\ TLCGet("generated") >= 0
=============================================================================
