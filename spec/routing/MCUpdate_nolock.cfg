CONSTANTS
  Threads = {1, 2, 3}
  Variant = "nolock"
INIT Init
NEXT Next
INVARIANT NoUseDuringSort
INVARIANT OneSorter
CHECK_DEADLOCK FALSE
