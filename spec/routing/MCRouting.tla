------------------------------ MODULE MCRouting ------------------------------
(* Bounded model check of C03: for every map of 1..K distinct rules of the universe subset RuleIds, *)
(* in every insertion order, under the four strict_slashes x merge_slashes settings, for every   *)
(* path of at most MaxParts parts over the token alphabet Toks (empty token = doubled / trailing *)
(* slash) and every method: the outcome of the implementation-shaped matcher model is one of the *)
(* outcomes the declarative contract accepts.                                                    *)
EXTENDS RoutingImpl, MCRoutingU, TLC, Json

CONSTANTS RuleIds, K, Toks, MaxParts, Methods

VARIABLE c
vars == <<c>>

TokQ == {<<97>>, <<98>>, <<49, 50>>, <<48, 48, 55>>, <<>>}                         \* a b 12 007 ""
TokT == TokQ \cup {<<49, 46, 53>>, <<118, 49, 50>>, <<97, 98>>, <<45, 51>>, <<97, 46, 120>>, <<48, 55>>}   \* 1.5 v12 ab -3 a.x 07
\* fixed_digits neighbourhood: exactly N digits with leading zeros (07, 00), without (12), N-1 (7), N+1 (007)
TokZ == {<<97>>, <<48, 55>>, <<48, 48>>, <<49, 50>>, <<55>>, <<48, 48, 55>>, <<>>}                 \* a 07 00 12 7 007 ""
TokZ3 == {<<97>>, <<98>>, <<48, 55>>, <<49, 50>>, <<48, 48, 55>>, <<>>}                            \* a b 07 12 007 ""

Distinct(s) == \A i, j \in 1..Len(s) : i # j => s[i] # s[j]
IdxSeqs == {s \in SeqsUpTo(RuleIds, K) : s # <<>> /\ Distinct(s)}
PathOf(ps) == <<SLASH>> \o JoinFrom(ps, 1)
PartSeqs == {ps \in SeqsUpTo(Toks, MaxParts) : ps # <<>> /\ ~HasTriple(PathOf(ps))}

RulesOf(idx) == [i \in 1..Len(idx) |-> Universe[idx[i]]]
MapOf(x) == [strict |-> x.strict, merge |-> x.merge, rd |-> TRUE]

\* two levels so that the workers share the evaluation: initial states = maps x settings (st = 0),
\* successors = that map with every path and method (st = 1, judged)
Init == c \in [idx : IdxSeqs, strict : BOOLEAN, merge : BOOLEAN, parts : {<<>>}, meth : {""}, st : {0}]
Next == /\ c.st = 0
        /\ c' \in {[c EXCEPT !.parts = ps, !.meth = mm, !.st = 1] : ps \in PartSeqs, mm \in Methods}

Verdict(x) == JudgeOutcome(RulesOf(x.idx), MapOf(x), <<SLASH>>, PathOf(x.parts), x.meth,
                           ImplOutcome(RulesOf(x.idx), MapOf(x), x.meth, PathOf(x.parts)))
ImplInExpected == c.st = 1 => Verdict(c) = "ok"

\* C12 on the model: the target of every redirect the matcher issues (missing slash, merged slashes)
\* matches without a further redirect, and that match is one the contract accepts for the target
RedirectConverges ==
  c.st = 1 =>
    LET R == RulesOf(c.idx)
        m == MapOf(c)
        o == ImplOutcome(R, m, c.meth, PathOf(c.parts))
    IN (o.kind = "redirect" /\ ~OutOfDomain(R, m, PathOf(c.parts))) =>
         LET o2 == ImplOutcome(R, m, c.meth, o.rpath) IN
         o2.kind = "match" /\ JudgeOutcome(R, m, <<SLASH>>, o.rpath, c.meth, o2) = "ok"

\* the model's cases for the spec -> code replay (a deterministic 1-in-ExportEvery sample)
ExportCase == c.st = 0 \/ PrintT(ToJson([idx |-> c.idx, strict |-> c.strict, merge |-> c.merge, path |-> PathOf(c.parts),
                             meth |-> c.meth, model |-> ImplOutcome(RulesOf(c.idx), MapOf(c), c.meth, PathOf(c.parts)).kind]))
=============================================================================
