---------------------------- MODULE RoutingUpdate ----------------------------
(* C04, concurrent first use: Map.update() runs lazily on the first bind / match / build.            *)
(* Threads call update() and then use the rule lists (build / match).  update(): fast path            *)
(* "if not _remap: return"; else take the lock, re-check, sort the rule lists (several steps, during  *)
(* which a list is in flux -- CPython's list.sort leaves it empty), clear the flag, release.          *)
(* Variant "late" (the code): the flag is cleared after sorting; "early": before sorting;             *)
(* "nolock": the lock is not taken.  Invariant: no thread uses the lists while they are being sorted, *)
(* and every thread that uses them sees them sorted.                                                  *)
EXTENDS Naturals, FiniteSets, TLC

CONSTANTS Threads, Variant

VARIABLES pc, remap, lock, influx, sorted
vars == <<pc, remap, lock, influx, sorted>>

Init == pc = [t \in Threads |-> "start"] /\ remap = TRUE /\ lock = 0 /\ influx = FALSE /\ sorted = FALSE

Go(t, to) == pc' = [pc EXCEPT ![t] = to]

Start(t) == /\ pc[t] = "start"
            /\ IF ~remap THEN Go(t, "use") ELSE Go(t, "wait")
            /\ UNCHANGED <<remap, lock, influx, sorted>>
Acquire(t) == /\ pc[t] = "wait"
              /\ IF Variant = "nolock" THEN UNCHANGED lock ELSE lock = 0 /\ lock' = t
              /\ Go(t, "locked")
              /\ UNCHANGED <<remap, influx, sorted>>
Recheck(t) == /\ pc[t] = "locked"
              /\ IF ~remap THEN Go(t, "release") /\ UNCHANGED remap
                 ELSE Go(t, "sort1") /\ remap' = (IF Variant = "early" THEN FALSE ELSE remap)
              /\ UNCHANGED <<lock, influx, sorted>>
Sort1(t) == pc[t] = "sort1" /\ influx' = TRUE /\ Go(t, "sort2") /\ UNCHANGED <<remap, lock, sorted>>
Sort2(t) == pc[t] = "sort2" /\ Go(t, "sort3") /\ UNCHANGED <<remap, lock, influx, sorted>>
Sort3(t) == /\ pc[t] = "sort3"
            /\ influx' = FALSE /\ sorted' = TRUE
            /\ remap' = FALSE
            /\ Go(t, "release")
            /\ UNCHANGED lock
Release(t) == /\ pc[t] = "release"
              /\ lock' = (IF lock = t THEN 0 ELSE lock)
              /\ Go(t, "use")
              /\ UNCHANGED <<remap, influx, sorted>>
Use(t) == pc[t] = "use" /\ Go(t, "done") /\ UNCHANGED <<remap, lock, influx, sorted>>

Next == \E t \in Threads : Start(t) \/ Acquire(t) \/ Recheck(t) \/ Sort1(t) \/ Sort2(t) \/ Sort3(t) \/ Release(t) \/ Use(t)

\* a thread that builds / matches sees stable, sorted rule lists
NoUseDuringSort == \A t \in Threads : pc[t] = "use" => ~influx /\ sorted
\* at most one thread sorts
OneSorter == Cardinality({t \in Threads : pc[t] \in {"sort1", "sort2", "sort3"}}) <= 1
\* everybody gets through
Done == <>(\A t \in Threads : pc[t] = "done")
=============================================================================
