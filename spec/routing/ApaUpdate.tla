---------------------------- MODULE ApaUpdate ----------------------------
(* Apalache wrapper of RoutingUpdate.tla (C04, concurrent first use of a Map): an inductive invariant *)
(* of the variant the code implements ("late": the flag is cleared after sorting, under the lock).    *)
(* Discharged with                                                                                     *)
(*   apalache-mc check --init=IndInit --inv=IndInv --length=1 ApaUpdate.tla   (IndInv is inductive)    *)
(*   apalache-mc check --init=Init    --inv=IndInv --length=0 ApaUpdate.tla   (Init => IndInv)         *)
(*   apalache-mc check --init=IndInit --inv=Safety --length=0 ApaUpdate.tla   (IndInv => properties)   *)
(* so NoUseDuringSort and OneSorter hold in every reachable state of every behaviour, of any length,  *)
(* for N threads (N = 6 here; TLC explores 3 exhaustively).                                            *)
EXTENDS Naturals, FiniteSets

Threads == 1..6
Variant == "late"

VARIABLES
  \* @type: Int -> Str;
  pc,
  \* @type: Bool;
  remap,
  \* @type: Int;
  lock,
  \* @type: Bool;
  influx,
  \* @type: Bool;
  sorted

INSTANCE RoutingUpdate

PcStates == {"start", "wait", "locked", "sort1", "sort2", "sort3", "release", "use", "done"}
Held     == {"locked", "sort1", "sort2", "sort3", "release"}

TypeOK == /\ pc \in [Threads -> PcStates]
          /\ remap \in BOOLEAN /\ influx \in BOOLEAN /\ sorted \in BOOLEAN
          /\ lock \in Threads \cup {0}

IndInv ==
  /\ TypeOK
  /\ \A t \in Threads : (pc[t] \in Held) <=> (lock = t)              \* the lock is held exactly in the critical section
  /\ influx <=> (\E t \in Threads : pc[t] \in {"sort2", "sort3"})    \* lists in flux only while someone is mid-sort
  /\ \A t \in Threads : pc[t] \in {"sort1", "sort2", "sort3"} => remap   \* the flag stays set until the sort ends
  /\ sorted <=> ~remap                                               \* the flag is cleared exactly when the lists are sorted
  /\ \A t \in Threads : pc[t] \in {"release", "use", "done"} => ~remap   \* nobody leaves the critical section with the flag set

IndInit == IndInv
TypeInit == TypeOK
Safety  == NoUseDuringSort /\ OneSorter
=============================================================================
