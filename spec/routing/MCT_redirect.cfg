CONSTANTS
  Variant = "fixed"
  RuleIds = {1, 2, 3, 4, 5, 6, 7, 8, 9, 10, 11, 12, 13, 14, 15, 16, 17, 18, 19, 20, 21, 22, 23, 24, 25, 26, 27, 28, 29, 30, 31}
  K = 2
  Toks <- TokQ
  MaxParts = 3
  Methods = {"GET", "POST"}
INIT Init
NEXT Next
INVARIANT RedirectConverges
