CONSTANTS
  PathDot = "fixed"
  AnyQuote = "fixed"
  DefaultVia = "to_url"
  KeyDefaults = "count"
  Alpha = {97, 37, 233}
  MaxText = 1
  Shapes = {1, 2, 3, 4, 5, 6, 7, 8, 9, 14, 18, 22, 23}
  ConvIds = {1, 2, 3, 4, 5, 6, 7, 8, 9, 10, 11, 12}
  Binds = {91, 92, 93, 101, 102, 103, 111, 112, 113, 121, 122, 123, 131, 132, 133, 141, 142, 143}
INIT Init
NEXT Next
INVARIANT Laws
