CONSTANTS
  Variant = "fixed"
  RuleIds = {6, 8, 11, 13, 19, 21, 22, 31}
  K = 2
  Toks <- TokZ3
  MaxParts = 3
  Methods = {"GET", "POST"}
INIT Init
NEXT Next
INVARIANT ImplInExpected
