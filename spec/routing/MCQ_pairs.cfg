CONSTANTS
  Variant = "fixed"
  RuleIds = {3, 5, 8, 9, 10, 11, 13, 19}
  K = 2
  Toks <- TokQ
  MaxParts = 3
  Methods = {"GET", "POST"}
INIT Init
NEXT Next
INVARIANT ImplInExpected
