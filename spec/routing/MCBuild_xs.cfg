CONSTANTS
  PathDot = "fixed"
  AnyQuote = "fixed"
  DefaultVia = "to_url"
  KeyDefaults = "count"
  Alpha = {97, 37, 233}
  MaxText = 1
  Shapes = {1, 2, 5, 22}
  ConvIds = {1, 4, 12}
  Binds = {91, 102, 113, 121, 132, 143}
INIT Init
NEXT Next
INVARIANT ExportCase
