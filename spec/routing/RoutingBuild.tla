---------------------------- MODULE RoutingBuild ----------------------------
(* C04: URL building and matching are mutually inverse.                                        *)
(*                                                                                              *)
(* Contract part (used by the judge for verdicts): value domains of the converters (Accepts),   *)
(* Deliver (what a server hands to the router for a URL: host, script root stripped, path       *)
(* percent-decoded, query apart), and the relations RoundTrip / Converse over the observables   *)
(* build output, match output, rebuilt URL and parsed query.                                    *)
(* Model part (checked by TLC against the contract in MCBuild, compared with the code as model  *)
(* drift): ToUrl / Parse per converter, BuildUrl (rule selection by suitable_for and            *)
(* build_compare_key, defaults, query encoding, script root, subdomain / host, force_external)  *)
(* and MatchM for maps whose rules have pairwise distinct literal first segments.               *)
(*                                                                                              *)
(* Text = sequence of code points.  A value is a typed text [ty, v, items]:                     *)
(*   ty \in "str" | "int" | "float" | "uuid" | "list"; v = str(value) as code points;           *)
(*   items = the texts of a list value (extra query values only).                               *)
(* conv = [k, a, b, c, signed, items]: string(minlength a, maxlength b (0 none), length c       *)
(*   (0 none)), int(fixed_digits a (0 none), signed), float(signed), any(items), uuid, path.    *)
(* seg  = [k \in "lit"|"var", t, pre, name, conv, post, more]  (more = further variables of    *)
(*   the same segment, each [name, conv, post]: pre <v1> post1 <v2> post2 ...)                   *)
(* rule = [ep, segs, branch, defaults, dom, dsegs] (dom = static subdomain or host text, <<>>   *)
(*   for none; dsegs = <<>> or <<seg>>: a domain part with variables, e.g. <u>.example.com).    *)
(* conv also carries hasmin, min, hasmax, max (ints; thousandths for float).                    *)
(* rule.domnone / bind.subnone / map.dsub: subdomain left to Map(default_subdomain) (see NormMap).   *)
(* map = [rules, host_matching, redirect_defaults, sort] (sort: 0 none, 1 sort_parameters,      *)
(*   2 sort_parameters with sort_key = the value).                                              *)
EXTENDS Integers, Sequences, FiniteSets, Text

CONSTANTS PathDot,   \* "fixed": the path converter admits LF inside a value; "orig": its '.' stops at LF
          AnyQuote,  \* "fixed": any-converter items are percent-encoded like every other text; "orig": emitted raw
          DefaultVia, \* "to_url": a default for a placeholder is spelled by the converter's to_url (as the code does); "str": by str()
          KeyDefaults \* "count": build_compare_key orders by the number of defaults (as documented); "flag": only by having any

SLASH == 47
QM == 63
HASH == 35
AMPC == 38
EQC == 61
COLON == 58
DOT == 46
MINUS == 45
ZERO == 48

\* urllib.quote(safe="!$&'()*+,/:;=@")  -- url-path-segment set used by to_url and for static rule text
SegSafe == {c \in 0..127 : Unreserved(c)} \cup {33, 36, 38, 39, 40, 41, 42, 43, 44, 47, 58, 59, 61, 64}
\* urllib.urlencode(safe="!$'()*,/:;?@") via quote_plus
QrySafe == {c \in 0..127 : Unreserved(c)} \cup {33, 36, 39, 40, 41, 42, 44, 47, 58, 59, 63, 64}

SegQuote(text) == PctEncode(Utf8Enc(text), SegSafe)
QuotePlus(text) == LET enc == PctEncode(Utf8Enc(text), QrySafe \cup {SP})
                   IN [i \in 1..Len(enc) |-> IF enc[i] = SP THEN PLUS ELSE enc[i]]
Unquote(s) == Utf8Dec(PctDecode(Utf8Enc(s)))   \* raw non-ASCII in a URL stands for its UTF-8 bytes (urllib.unquote)
UnquotePlus(s) == Utf8Dec(PctDecode([i \in 1..Len(s) |-> IF s[i] = PLUS THEN SP ELSE s[i]]))

IsDigit(c) == c >= 48 /\ c <= 57
AllDigits(s) == Len(s) > 0 /\ \A i \in 1..Len(s) : IsDigit(s[i])
AllScalar(s) == \A i \in 1..Len(s) : IsScalar(s[i])
NoSlash(s) == \A i \in 1..Len(s) : s[i] # SLASH
Zeros(n) == [i \in 1..n |-> ZERO]
RECURSIVE StripZeros(_)
StripZeros(ds) == IF Len(ds) > 1 /\ ds[1] = ZERO THEN StripZeros(Tail(ds)) ELSE ds
IsNeg(t) == Len(t) > 0 /\ t[1] = MINUS
Mag(t) == IF IsNeg(t) THEN Tail(t) ELSE t

\* ---------------------------------------------------------------- number / uuid texts
IntShape(t, signed) == (IsNeg(t) => signed) /\ AllDigits(Mag(t))
\* str(int(t))
IntCanonOf(t) == LET m == StripZeros(Mag(t)) IN IF IsNeg(t) /\ m # <<ZERO>> THEN <<MINUS>> \o m ELSE m
IntCanon(t, signed) == IntShape(t, signed) /\ IntCanonOf(t) = t
Zfill(t, n) == IF Len(t) >= n THEN t
               ELSE IF IsNeg(t) THEN <<MINUS>> \o Zeros(n - Len(t)) \o Tail(t)
               ELSE Zeros(n - Len(t)) \o t

DotAt(t) == FindFrom(t, <<DOT>>, 1)
FloatShape(t, signed) == LET m == Mag(t) d == DotAt(m) IN
  (IsNeg(t) => signed) /\ d > 1 /\ d < Len(m) /\ AllDigits(Take(m, d - 1)) /\ AllDigits(Drop(m, d))
\* texts t with repr(float(t)) = t: positional, no superfluous zeros, <= 15 significant digits, not below 1e-4
FloatCanonN(t, signed, n) ==
  FloatShape(t, signed) /\
  LET m == Mag(t) d == DotAt(m) ip == Take(m, d - 1) fp == Drop(m, d) IN
  /\ (Len(ip) = 1 \/ ip[1] # ZERO)
  /\ (Len(fp) = 1 \/ fp[Len(fp)] # ZERO)
  /\ Len(ip) + Len(fp) <= n
  /\ ~(ip = <<ZERO>> /\ Len(fp) >= 5 /\ \A i \in 1..4 : fp[i] = ZERO)
FloatCanon(t, signed) == FloatCanonN(t, signed, 15)
\* a float VALUE of a call is recorded as its repr(): up to 17 significant digits ("0." + 17 digits = 18), positional
FloatValueOK(t, signed) == FloatCanonN(t, signed, 18)

IsLowerHex(c) == IsDigit(c) \/ (c >= 97 /\ c <= 102)
LowerC(c) == IF c >= 65 /\ c <= 90 THEN c + 32 ELSE c
Lower(t) == [i \in 1..Len(t) |-> LowerC(t[i])]
UuidShape(t) == Len(t) = 36 /\ \A i \in 1..36 : IF i \in {9, 14, 19, 24} THEN t[i] = MINUS ELSE IsHex(t[i])
UuidCanon(t) == UuidShape(t) /\ Lower(t) = t

\* ---------------------------------------------------------------- min / max options
RECURSIVE NatOf(_)
NatOf(ds) == IF ds = <<>> THEN 0 ELSE NatOf(Take(ds, Len(ds) - 1)) * 10 + (ds[Len(ds)] - 48)
InRange(conv, n) == (~conv.hasmin \/ n >= conv.min) /\ (~conv.hasmax \/ n <= conv.max)
\* [known, ok] for an int text (any size) / a float text (known only up to 6 + 3 digits)
IntRange(conv, t) ==
  IF ~conv.hasmin /\ ~conv.hasmax THEN [known |-> TRUE, ok |-> TRUE]
  ELSE LET m == StripZeros(Mag(t)) IN
       IF Len(m) > 9 THEN [known |-> TRUE, ok |-> IF IsNeg(t) THEN ~conv.hasmin ELSE ~conv.hasmax]
       ELSE [known |-> TRUE, ok |-> InRange(conv, IF IsNeg(t) THEN 0 - NatOf(m) ELSE NatOf(m))]
FloatRange(conv, t) ==
  IF ~conv.hasmin /\ ~conv.hasmax THEN [known |-> TRUE, ok |-> TRUE]
  ELSE LET m == Mag(t) d == FindFrom(m, <<DOT>>, 1) ip == Take(m, d - 1) fp == Drop(m, d) IN
       IF Len(ip) > 6 \/ Len(fp) > 3 THEN [known |-> FALSE, ok |-> FALSE]
       ELSE LET n == NatOf(ip) * 1000 + NatOf(fp \o Zeros(3 - Len(fp))) IN
            [known |-> TRUE, ok |-> InRange(conv, IF IsNeg(t) THEN 0 - n ELSE n)]

\* ---------------------------------------------------------------- values and converters
Val(ty, v) == [ty |-> ty, v |-> v, items |-> <<>>]
StrLenOK(conv, n) == IF conv.c > 0 THEN n = conv.c ELSE n >= conv.a /\ (conv.b = 0 \/ n <= conv.b)
ItemSet(conv) == {conv.items[i] : i \in 1..Len(conv.items)}

\* the canonical domain of a converter (the values "its converter accepts", property quantifier)
Accepts(conv, val) ==
  CASE conv.k = "string" -> val.ty = "str" /\ AllScalar(val.v) /\ NoSlash(val.v) /\ Len(val.v) >= 1 /\ StrLenOK(conv, Len(val.v))
    [] conv.k = "path"   -> val.ty = "str" /\ AllScalar(val.v) /\ Len(val.v) >= 1 /\ val.v[1] # SLASH /\ val.v[Len(val.v)] # SLASH
    [] conv.k = "any"    -> val.ty = "str" /\ val.v \in ItemSet(conv) /\ AllScalar(val.v) /\ NoSlash(val.v) /\ Len(val.v) >= 1
    [] conv.k = "int"    -> val.ty = "int" /\ IntCanon(val.v, conv.signed) /\ (conv.a = 0 \/ Len(val.v) <= conv.a) /\ IntRange(conv, val.v).ok
    [] conv.k = "float"  -> val.ty = "float" /\ FloatValueOK(val.v, conv.signed) /\ FloatRange(conv, val.v).ok
    [] conv.k = "uuid"   -> val.ty = "uuid" /\ UuidCanon(val.v)
    [] OTHER -> FALSE

\* model of converter.to_url (already percent-encoded text)
ToUrl(conv, val) ==
  CASE conv.k \in {"string", "path"} -> SegQuote(val.v)
    [] conv.k = "any" -> IF AnyQuote = "fixed" THEN SegQuote(val.v) ELSE val.v
    [] conv.k = "int" -> IF conv.a > 0 THEN Zfill(val.v, conv.a) ELSE val.v
    [] OTHER -> val.v

\* model of regex + to_python on the (decoded) text of one variable: [ok, val]
\* a float text that is not canonical parses to an unknown repr: ty "float?"
NoVal == Val("none", <<>>)
Parse(conv, t) ==
  CASE conv.k = "string" -> [ok |-> Len(t) >= 1 /\ NoSlash(t) /\ StrLenOK(conv, Len(t)), val |-> Val("str", t)]
    [] conv.k = "any"    -> [ok |-> t \in ItemSet(conv), val |-> Val("str", t)]
    [] conv.k = "int"    -> IF IntShape(t, conv.signed) /\ (conv.a = 0 \/ Len(t) = conv.a) /\ IntRange(conv, t).ok
                            THEN [ok |-> TRUE, val |-> Val("int", IntCanonOf(t))] ELSE [ok |-> FALSE, val |-> NoVal]
    [] conv.k = "float"  -> IF FloatShape(t, conv.signed) /\ (FloatRange(conv, t).ok \/ ~FloatRange(conv, t).known)
                            THEN [ok |-> TRUE, val |-> IF FloatCanon(t, conv.signed) /\ FloatRange(conv, t).known THEN Val("float", t) ELSE Val("float?", t)]
                            ELSE [ok |-> FALSE, val |-> NoVal]
    [] conv.k = "uuid"   -> [ok |-> UuidShape(t), val |-> Val("uuid", Lower(t))]
    [] conv.k = "path"   -> [ok |-> Len(t) >= 1 /\ t[1] # SLASH /\ (PathDot = "fixed" \/ \A i \in 2..Len(t) : t[i] # LF),
                             val |-> Val("str", t)]
    [] OTHER -> [ok |-> FALSE, val |-> NoVal]

\* is the text t (as it appears in a delivered path) the one to_url produces for the value it parses to?
CanonText(conv, t) == LET p == Parse(conv, t) IN
  p.ok /\ p.val.ty # "float?" /\ Accepts(conv, p.val) /\ Unquote(ToUrl(conv, p.val)) = t

\* ---------------------------------------------------------------- valuations
\* a valuation is a sequence of [name, ty, v, items]; compared as a set of tuples
Names(vs) == {vs[i].name : i \in 1..Len(vs)}
ValOf(vs, n) == LET i == CHOOSE i \in 1..Len(vs) : vs[i].name = n IN [ty |-> vs[i].ty, v |-> vs[i].v, items |-> vs[i].items]
Tup(x) == <<x.name, x.ty, x.v, x.items>>
ValSet(vs) == {Tup(vs[i]) : i \in 1..Len(vs)}
Restrict(vs, ns) == SelectSeq(vs, LAMBDA x : x.name \in ns)
Update(S, ds) == {x \in S : x[1] \notin Names(ds)} \cup ValSet(ds)
Named(n, val) == [name |-> n, ty |-> val.ty, v |-> val.v, items |-> val.items]

\* ---------------------------------------------------------------- rules
SegVars(s) == <<[name |-> s.name, conv |-> s.conv, post |-> s.post]>> \o s.more
RECURSIVE VarsOfSegs(_)
VarsOfSegs(segs) == IF segs = <<>> THEN <<>> ELSE (IF Head(segs).k = "var" THEN SegVars(Head(segs)) ELSE <<>>) \o VarsOfSegs(Tail(segs))
AllVars(r) == VarsOfSegs(r.dsegs \o r.segs)
VarNames(r) == {AllVars(r)[i].name : i \in 1..Len(AllVars(r))}
Args(r) == VarNames(r) \cup Names(r.defaults)
ConvOf(r, n) == LET vs == AllVars(r) i == CHOOSE i \in 1..Len(vs) : vs[i].name = n IN vs[i].conv

\* Rule.suitable_for (method = None)
Suitable(r, vals) ==
  /\ \A a \in Args(r) : a \in Names(r.defaults) \/ a \in Names(vals)
  /\ \A i \in 1..Len(r.defaults) : r.defaults[i].name \in Names(vals) => Tup(Named(r.defaults[i].name, ValOf(vals, r.defaults[i].name))) = Tup(r.defaults[i])

\* the value rule r puts into the URL for variable n
\* (a default for a placeholder of the rule is resolved through the converter's to_url when the rule is
\* compiled: an int-typed default of a float converter is spelled str(float(d)) = d.0)
Coerce(conv, val) == IF conv.k = "float" /\ val.ty = "int" THEN Val("float", val.v \o <<DOT, ZERO>>) ELSE val
UrlVal(r, vals, n) == IF n \in Names(r.defaults) THEN Coerce(ConvOf(r, n), ValOf(r.defaults, n)) ELSE ValOf(vals, n)
\* the path / host text of a placeholder that carries a default: the only canonical spelling
DefaultText(r, n) == Unquote(ToUrl(ConvOf(r, n), Coerce(ConvOf(r, n), ValOf(r.defaults, n))))
HasPlaceholderDefault(r) == \E i \in 1..Len(r.defaults) : r.defaults[i].name \in VarNames(r)
CharsOf(t) == {t[i] : i \in 1..Len(t)}
\* literal characters of a segment: prefix and every separator / suffix
LitChars(s) == CharsOf(s.pre) \cup UNION {CharsOf(SegVars(s)[i].post) : i \in 1..Len(SegVars(s))}
\* several variables in one segment: the inverse law is claimed only where the separators cannot split the
\* values ambiguously -- adjacent variables are separated by a non-empty literal and no value (as it is
\* spelled in the path) contains a literal character of the segment
MultiClean(s, ts) == /\ \A i \in 1..(Len(SegVars(s)) - 1) : SegVars(s)[i].post # <<>>
                     /\ \A i \in 1..Len(ts) : CharsOf(ts[i]) \cap LitChars(s) = {}
MultiOK(r, s, vals) == s.more = <<>> \/ MultiClean(s, [i \in 1..Len(SegVars(s)) |-> Unquote(ToUrl(SegVars(s)[i].conv, UrlVal(r, vals, SegVars(s)[i].name)))])
\* values in a domain part: what survives a client (lower-case host, default port dropped): lower-case
\* letters, digits and hyphens in non-empty labels separated by dots; ints other than the default ports
IsLDH(c) == IsDigit(c) \/ (c >= 97 /\ c <= 122) \/ c = MINUS
DomTextOK(t) == Len(t) >= 1 /\ t[1] # DOT /\ t[Len(t)] # DOT /\ (\A i \in 1..Len(t) : IsLDH(t[i]) \/ t[i] = DOT)
                /\ \A i \in 1..(Len(t) - 1) : ~(t[i] = DOT /\ t[i + 1] = DOT)
DomValueOK(conv, val) == IF conv.k = "int" THEN val.v \notin {<<56, 48>>, <<52, 52, 51>>} ELSE conv.k \in {"string", "any"} /\ DomTextOK(val.v)
\* the values of the call are inside the claimed domain for rule r
InDomain(r, vals) ==
  /\ \A n \in VarNames(r) : IF n \in Names(r.defaults) THEN Accepts(ConvOf(r, n), Coerce(ConvOf(r, n), ValOf(r.defaults, n)))
                            ELSE n \in Names(vals) /\ Accepts(ConvOf(r, n), ValOf(vals, n))
  /\ \A i \in 1..Len(r.segs) : r.segs[i].k = "var" => MultiOK(r, r.segs[i], vals)
  /\ \A i \in 1..Len(r.dsegs) : MultiOK(r, r.dsegs[i], vals) /\ \A j \in 1..Len(SegVars(r.dsegs[i])) :
        DomValueOK(SegVars(r.dsegs[i])[j].conv, UrlVal(r, vals, SegVars(r.dsegs[i])[j].name))

RECURSIVE VarsText(_, _, _)
VarsText(r, vs, vals) == IF vs = <<>> THEN <<>>
                         ELSE (IF DefaultVia = "str" /\ Head(vs).name \in Names(r.defaults) THEN ValOf(r.defaults, Head(vs).name).v
                               ELSE ToUrl(Head(vs).conv, UrlVal(r, vals, Head(vs).name))) \o SegQuote(Head(vs).post) \o VarsText(r, Tail(vs), vals)
SegText(r, s, vals) == IF s.k = "lit" THEN SegQuote(s.t) ELSE SegQuote(s.pre) \o VarsText(r, SegVars(s), vals)
\* the domain part the rule builds: its static subdomain / host or the filled-in pattern
DomText(r, vals) == IF r.dsegs = <<>> THEN r.dom ELSE SegText(r, r.dsegs[1], vals)

\* Map.update sorts the rules of an endpoint by build_compare_key = (alias, -|arguments|, -|defaults|), stably
DefKey(r) == IF KeyDefaults = "count" THEN Len(r.defaults) ELSE IF Len(r.defaults) > 0 THEN 1 ELSE 0
BuildKeyLess(r1, r2) == \/ Cardinality(Args(r1)) > Cardinality(Args(r2))
                        \/ Cardinality(Args(r1)) = Cardinality(Args(r2)) /\ DefKey(r1) > DefKey(r2)
Before(rules, i, j) == BuildKeyLess(rules[i], rules[j]) \/ (~BuildKeyLess(rules[j], rules[i]) /\ i < j)
Candidates(rules, ep, vals) == {i \in 1..Len(rules) : rules[i].ep = ep /\ Suitable(rules[i], vals)}
\* index of the rule MapAdapter.build uses (0: BuildError); host matching prefers a rule on the bound host
ChooseRule(m, b, ep, vals) ==
  LET C == Candidates(m.rules, ep, vals)
      P == IF m.host_matching /\ \E i \in C : DomText(m.rules[i], vals) = b.server THEN {i \in C : DomText(m.rules[i], vals) = b.server} ELSE C
  IN IF C = {} THEN 0 ELSE CHOOSE i \in P : \A j \in P : j = i \/ Before(m.rules, i, j)
RECURSIVE SegsText(_, _, _)
SegsText(r, segs, vals) == IF segs = <<>> THEN <<>> ELSE <<SLASH>> \o SegText(r, Head(segs), vals) \o SegsText(r, Tail(segs), vals)
BuildPath(r, vals) == SegsText(r, r.segs, vals) \o (IF r.branch THEN <<SLASH>> ELSE <<>>)

\* iter_multi_items + urlencode over the values that are not arguments of the rule (dict order)
RECURSIVE Pairs(_)
Pairs(vs) == IF vs = <<>> THEN <<>>
             ELSE LET x == Head(vs) IN
                  (IF x.ty = "list" THEN [i \in 1..Len(x.items) |-> <<x.name, x.items[i]>>]
                   ELSE IF x.ty = "none" THEN <<>> ELSE <<<<x.name, x.v>>>>) \o Pairs(Tail(vs))
\* values given as None are dropped by build()
Live(vals) == SelectSeq(vals, LAMBDA x : x.ty # "none")
\* code point order of str, (key, value) tuple order, stable insertion sort (sorted())
RECURSIVE TextLess(_, _)
TextLess(a, b) == IF b = <<>> THEN FALSE ELSE IF a = <<>> THEN TRUE ELSE IF a[1] # b[1] THEN a[1] < b[1] ELSE TextLess(Tail(a), Tail(b))
PairLess(mode, x, y) == IF mode = 2 THEN TextLess(x[2], y[2]) ELSE TextLess(x[1], y[1]) \/ (x[1] = y[1] /\ TextLess(x[2], y[2]))
RECURSIVE InsertSorted(_, _, _)
InsertSorted(mode, x, q) == IF q = <<>> THEN <<x>> ELSE IF PairLess(mode, x, Head(q)) THEN <<x>> \o q ELSE <<Head(q)>> \o InsertSorted(mode, x, Tail(q))
RECURSIVE SortFrom(_, _, _)
SortFrom(mode, ps, acc) == IF ps = <<>> THEN acc ELSE SortFrom(mode, Tail(ps), InsertSorted(mode, Head(ps), acc))
SortQ(m, ps) == IF m.sort = 0 THEN ps ELSE SortFrom(m.sort, ps, <<>>)
Extras(m, r, vals) == SortQ(m, Pairs(SelectSeq(vals, LAMBDA x : x.name \notin Args(r))))
RECURSIVE UrlEncode(_)
UrlEncode(ps) == IF ps = <<>> THEN <<>>
                 ELSE QuotePlus(ps[1][1]) \o <<EQC>> \o QuotePlus(ps[1][2]) \o (IF Len(ps) > 1 THEN <<AMPC>> \o UrlEncode(Tail(ps)) ELSE <<>>)
QueryOf(ps) == IF ps = <<>> THEN <<>> ELSE <<QM>> \o UrlEncode(ps)

\* names are ASCII identifiers sent as code points
\* ---------------------------------------------------------------- adapter / URL assembly
RStripSlash(s) == IF Len(s) > 0 /\ s[Len(s)] = SLASH THEN Take(s, Len(s) - 1) ELSE s
\* script_name "/" | "/app" | "/app/" -> "" | "/app"  (at most one trailing slash in the claimed configurations)
Root(script) == RStripSlash(script)
AdapterHost(m, b) == IF m.host_matching \/ b.sub = <<>> THEN b.server ELSE b.sub \o <<DOT>> \o b.server
HostFor(m, b, dom) == IF m.host_matching THEN dom ELSE IF dom = <<>> THEN b.server ELSE dom \o <<DOT>> \o b.server
BuildUrl(m, b, ep, vals, ext) ==
  LET i == ChooseRule(m, b, ep, vals) IN
  IF i = 0 THEN [ok |-> FALSE, url |-> <<>>, rule |-> 0]
  ELSE LET r == m.rules[i]
           path == BuildPath(r, vals) \o QueryOf(Extras(m, r, vals))
           dom == DomText(r, vals)
           host == HostFor(m, b, dom)
           rel == ~ext /\ (IF m.host_matching THEN host = b.server ELSE dom = b.sub)
       IN [ok |-> TRUE, rule |-> i,
           url |-> IF rel THEN Root(b.script) \o path
                   ELSE b.scheme \o <<COLON, SLASH, SLASH>> \o host \o Root(b.script) \o path]

\* ---------------------------------------------------------------- default_subdomain
\* Map(default_subdomain=m.dsub): a rule declared without a subdomain (domnone) lives on the default subdomain,
\* bind(subdomain=None) (subnone) binds on it; an explicitly empty subdomain stays empty.  Everything else in
\* this module works on the resolved records.
NormMap(m) == [m EXCEPT !.rules = [i \in 1..Len(m.rules) |->
                 [m.rules[i] EXCEPT !.dom = IF m.rules[i].domnone /\ ~m.host_matching /\ m.rules[i].dsegs = <<>> THEN m.dsub ELSE @]]]
NormBind(m, b) == [b EXCEPT !.sub = IF b.subnone /\ ~m.host_matching THEN m.dsub ELSE @]

\* ---------------------------------------------------------------- Deliver
\* what a server hands to the application for the URL u (a relative URL goes to the adapter's own host)
HTTP == <<104, 116, 116, 112>>
SchemeLen(u) == IF IsPrefixOf(HTTP \o <<COLON, SLASH, SLASH>>, u) THEN 7
                ELSE IF IsPrefixOf(HTTP \o <<115, COLON, SLASH, SLASH>>, u) THEN 8 ELSE 0
CutAt(s, c) == LET p == FindFrom(s, <<c>>, 1) IN IF p = 0 THEN s ELSE Take(s, p - 1)
AfterFirst(s, c) == LET p == FindFrom(s, <<c>>, 1) IN IF p = 0 THEN <<>> ELSE Drop(s, p)
\* a client lower-cases the host and drops the default port of the scheme
ClientHost(h, scheme) ==
  LET l == Lower(h)
      dp == IF scheme = HTTP THEN <<COLON, 56, 48>> ELSE <<COLON, 52, 52, 51>>
  IN IF Len(l) > Len(dp) /\ Drop(l, Len(l) - Len(dp)) = dp THEN Take(l, Len(l) - Len(dp)) ELSE l
Deliver(m, b, u) ==
  LET sl == SchemeLen(u)
      rest0 == Drop(u, sl)
      host0 == IF sl = 0 THEN AdapterHost(m, b) ELSE CutAt(rest0, SLASH)
      host == ClientHost(host0, IF sl = 0 THEN b.scheme ELSE Take(u, sl - 3))
      rest1 == IF sl = 0 THEN u ELSE Drop(rest0, Len(host0))
      nofrag == CutAt(rest1, HASH)
      rawpath == CutAt(nofrag, QM)
      root == Root(b.script)
      under == IsPrefixOf(root \o <<SLASH>>, rawpath)
  IN [under |-> under, host |-> host, scheme |-> Take(u, IF sl = 0 THEN 0 ELSE sl - 3),
      path |-> IF under THEN Unquote(Drop(rawpath, Len(root))) ELSE <<>>,
      query |-> AfterFirst(nofrag, QM), rawpath |-> rawpath]

\* the domain part the router sees for a delivered host: the host itself (host matching) or the subdomain
DomPart(m, b, host) ==
  IF m.host_matching THEN [ok |-> TRUE, dom |-> host]
  ELSE IF host = b.server THEN [ok |-> TRUE, dom |-> <<>>]
  ELSE LET n == Len(host) - Len(b.server) - 1 IN
       IF n >= 1 /\ Drop(host, n) = <<DOT>> \o b.server THEN [ok |-> TRUE, dom |-> Take(host, n)] ELSE [ok |-> FALSE, dom |-> <<>>]

\* parse_qsl(keep_blank_values) as used for Request.args
DecodeField(f) == LET e == FindFrom(f, <<EQC>>, 1) IN
                  IF e = 0 THEN <<UnquotePlus(f), <<>>>> ELSE <<UnquotePlus(Take(f, e - 1)), UnquotePlus(Drop(f, e))>>
QueryDecode(q) == LET fs == SelectSeq(SplitOn(q, AMPC, <<>>), LAMBDA f : f # <<>>) IN [i \in 1..Len(fs) |-> DecodeField(fs[i])]

\* ---------------------------------------------------------------- match model
\* (maps whose rules on one domain part have pairwise distinct literal first segments)
PathIdx(r) == IF \E i \in 1..Len(r.segs) : r.segs[i].k = "var" /\ r.segs[i].conv.k = "path"
              THEN CHOOSE i \in 1..Len(r.segs) : r.segs[i].k = "var" /\ r.segs[i].conv.k = "path" ELSE 0

\* the raw text of the variable in segment s for the path part p: [ok, t]
VarText(s, p) == LET n == Len(p) - Len(s.pre) - Len(s.post) IN
  IF n >= 1 /\ IsPrefixOf(s.pre, p) /\ Drop(p, Len(p) - Len(s.post)) = s.post
  THEN [ok |-> TRUE, t |-> Sub(p, Len(s.pre) + 1, Len(s.pre) + n)] ELSE [ok |-> FALSE, t |-> <<>>]

\* parts of the path that rule segment i must consume: one part, or (path converter) all but the tail
PartFor(r, parts, i) ==
  LET k == PathIdx(r)
      tailn == (Len(r.segs) - k) + (IF r.branch THEN 1 ELSE 0)
  IN IF k = 0 \/ i < k THEN parts[i]
     ELSE IF i = k THEN JoinWith(SubSeq(parts, k, Len(parts) - tailn), SLASH)
     ELSE parts[Len(parts) - tailn + (i - k)]

ShapeOK(r, parts) ==
  LET k == PathIdx(r) n == Len(r.segs) + (IF r.branch THEN 1 ELSE 0) IN
  /\ IF k = 0 THEN Len(parts) = n ELSE Len(parts) >= n
  /\ r.branch => parts[Len(parts)] = <<>>

\* what the regular expression of a converter admits (before to_python)
RegexOK(conv, t) == IF conv.k = "int" THEN IntShape(t, conv.signed) ELSE Parse(conv, t).ok
\* several variables in one segment: Python's backtracking gives every group the longest text for which
\* the rest of the segment still matches.  text = <v1> post1 <v2> post2 ... ; result [ok, ts]
RECURSIVE Split(_, _)
Split(text, vs) ==
  IF vs = <<>> THEN [ok |-> text = <<>>, ts |-> <<>>]
  ELSE LET v == Head(vs)
           Ls == {L \in 1..Len(text) : /\ RegexOK(v.conv, Take(text, L))
                                       /\ IsPrefixOf(v.post, Drop(text, L))
                                       /\ Split(Drop(text, L + Len(v.post)), Tail(vs)).ok}
       IN IF Ls = {} THEN [ok |-> FALSE, ts |-> <<>>]
          ELSE LET L == CHOOSE x \in Ls : \A y \in Ls : y <= x IN
               [ok |-> TRUE, ts |-> <<Take(text, L)>> \o Split(Drop(text, L + Len(v.post)), Tail(vs)).ts]
\* the raw texts of the variables of segment s for the part p
SegTexts(s, p) == IF s.more = <<>> THEN LET vt == VarText(s, p) IN [ok |-> vt.ok, ts |-> <<vt.t>>]
                  ELSE IF IsPrefixOf(s.pre, p) THEN Split(Drop(p, Len(s.pre)), SegVars(s)) ELSE [ok |-> FALSE, ts |-> <<>>]
VarSegOK(r, s, p, canon, isdom) ==
  LET st == SegTexts(s, p) vs == SegVars(s) IN
  /\ st.ok
  /\ \A j \in 1..Len(vs) : IF canon THEN /\ CanonText(vs[j].conv, st.ts[j]) /\ (isdom => DomValueOK(vs[j].conv, Parse(vs[j].conv, st.ts[j]).val))
                                         /\ vs[j].name \in Names(r.defaults) => st.ts[j] = DefaultText(r, vs[j].name)
                            ELSE Parse(vs[j].conv, st.ts[j]).ok
  /\ (canon /\ s.more # <<>>) => MultiClean(s, st.ts)
SegOK(r, parts, i, canon) ==
  LET s == r.segs[i] p == PartFor(r, parts, i) IN
  IF s.k = "lit" THEN p = s.t
  ELSE /\ VarSegOK(r, s, p, canon, FALSE)
       /\ (s.conv.k = "path" /\ r.branch /\ i = Len(r.segs)) => LET t == SegTexts(s, p).ts[1] IN t[Len(t)] # SLASH
\* the domain part (subdomain or host) the router sees against the rule's static or dynamic domain
DomAdmits(r, dom, canon) == IF r.dsegs = <<>> THEN r.dom = dom ELSE VarSegOK(r, r.dsegs[1], dom, canon, TRUE)

PartsOf(path) == SplitOn(Tail(path), SLASH, <<>>)
RuleAdmits(r, path, canon) ==
  /\ Len(path) >= 1 /\ path[1] = SLASH
  /\ LET parts == PartsOf(path) IN ShapeOK(r, parts) /\ \A i \in 1..Len(r.segs) : SegOK(r, parts, i, canon)

SegValSet(s, p) == LET st == SegTexts(s, p) vs == SegVars(s) IN
  {Tup(Named(vs[j].name, Parse(vs[j].conv, st.ts[j]).val)) : j \in 1..Len(vs)}
RuleVals(r, dom, path) ==
  LET parts == PartsOf(path)
      vi == {i \in 1..Len(r.segs) : r.segs[i].k = "var"}
  IN Update(UNION {SegValSet(r.segs[i], PartFor(r, parts, i)) : i \in vi}
            \cup (IF r.dsegs = <<>> THEN {} ELSE SegValSet(r.dsegs[1], dom)), r.defaults)

\* Map.redirect_defaults: a rule of the same endpoint and the same arguments that carries defaults, is
\* preferred for building and is suitable for the matched values turns the match into a redirect
SuitableSet(r, S) ==
  /\ \A a \in Args(r) : a \in Names(r.defaults) \/ \E x \in S : x[1] = a
  /\ \A i \in 1..Len(r.defaults) : \A x \in S : x[1] = r.defaults[i].name => x = Tup(r.defaults[i])
Redirected(m, i, S) ==
  m.redirect_defaults /\ \E j \in 1..Len(m.rules) :
     /\ j # i /\ m.rules[j].ep = m.rules[i].ep /\ Len(m.rules[j].defaults) > 0 /\ Before(m.rules, j, i)
     /\ Args(m.rules[j]) = Args(m.rules[i]) /\ <<m.rules[j].segs, m.rules[j].dom, m.rules[j].dsegs>> # <<m.rules[i].segs, m.rules[i].dom, m.rules[i].dsegs>> /\ SuitableSet(m.rules[j], S)

\* MapAdapter.match collapses leading slashes ("//a" is "/a")
RECURSIVE OneLead(_)
OneLead(p) == IF Len(p) >= 2 /\ p[1] = SLASH /\ p[2] = SLASH THEN OneLead(Tail(p)) ELSE p
\* set of matches (at most one for non-overlapping rules): [rule, ep, vals]
MatchM(m, dom, path0) ==
  LET path == OneLead(path0) IN
  {x \in {[rule |-> i, ep |-> m.rules[i].ep, vals |-> RuleVals(m.rules[i], dom, path)] :
             i \in {j \in 1..Len(m.rules) : DomAdmits(m.rules[j], dom, FALSE) /\ RuleAdmits(m.rules[j], path, FALSE)}} :
     ~Redirected(m, x.rule, x.vals)}
\* is path the canonical spelling of what it matches under the (unique) rule that admits it?
CanonPath(m, dom, path) == \E j \in 1..Len(m.rules) : DomAdmits(m.rules[j], dom, TRUE) /\ RuleAdmits(m.rules[j], path, TRUE)

\* ---------------------------------------------------------------- the contract relations
\* matched values allowed for build(ep, vals): the given values for the arguments of some suitable rule of the
\* endpoint, completed by that rule's defaults
ExpectedVals(m, ep, vals) ==
  {Update(ValSet(Restrict(vals, Args(m.rules[i]))), m.rules[i].defaults) : i \in Candidates(m.rules, ep, vals)}
ExpectedExtras(m, ep, vals, matched) ==
  {Extras(m, m.rules[i], vals) : i \in {j \in Candidates(m.rules, ep, vals) :
                                       Update(ValSet(Restrict(vals, Args(m.rules[j]))), m.rules[j].defaults) = matched}}
StripQuery(u) == CutAt(u, QM)
=============================================================================
