CONSTANTS
  PathDot = "fixed"
  AnyQuote = "fixed"
  DefaultVia = "to_url"
  KeyDefaults = "count"
INIT Init
NEXT Next
POSTCONDITION Done
CHECK_DEADLOCK FALSE
