CONSTANTS
  PathDot = "fixed"
  AnyQuote = "fixed"
  KeyDefaults = "count"
INIT Init
NEXT Next
POSTCONDITION Done
CHECK_DEADLOCK FALSE
