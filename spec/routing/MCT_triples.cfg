CONSTANTS
  Variant = "fixed"
  RuleIds = {3, 4, 8, 9, 11, 13, 20, 24, 31}
  K = 3
  Toks <- TokQ
  MaxParts = 3
  Methods = {"GET", "POST"}
INIT Init
NEXT Next
INVARIANT ImplInExpected
