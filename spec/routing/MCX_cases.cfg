CONSTANTS
  Variant = "fixed"
  RuleIds = {3, 8, 10, 11, 13, 19, 22}
  K = 2
  Toks <- TokQ
  MaxParts = 2
  Methods = {"GET", "POST"}
INIT Init
NEXT Next
INVARIANT ExportCase
