CONSTANTS
  Variant = "fixed"
  Datas <- DatasD
  Limits = {0, 5, 7, 9}
  Modes = {TRUE, FALSE}
  RIs = {TRUE, FALSE}
  KMax = 3
  ErrBudget = 2
  MaxOps = 5
  Sizes = {1, 3, 8}
  OpNames = {"read", "readinto", "readinto_mv", "readall", "exhaust", "next", "readlines", "readline"}
INIT Init
NEXT Next
VIEW ViewNoHist
INVARIANT Contract
INVARIANT NoOverReadInv
INVARIANT PosEqualsUpos
INVARIANT LoopBound
