CONSTANTS
  Variant = "fixed"
  Datas <- DatasT
  Limits = {0, 3, 5, 7, 9}
  Modes = {TRUE, FALSE}
  RIs = {TRUE, FALSE}
  BufSizes = {1, 2, 4}
  KMax = 3
  ErrBudget = 1
  MaxOps = 3
  Sizes = {1, 2, 5, 10}
  OpNames = {"read", "read1", "peek", "readall", "readline", "next", "readinto", "readinto1"}
INIT Init
NEXT Next
VIEW ViewNoHist
INVARIANT Contract
INVARIANT NoOverReadInv
INVARIANT Accounting
