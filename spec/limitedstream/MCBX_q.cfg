CONSTANTS
  Variant = "fixed"
  Datas <- DatasQ
  Limits = {2, 6}
  Modes = {TRUE, FALSE}
  RIs = {TRUE, FALSE}
  BufSizes = {2}
  KMax = 2
  ErrBudget = 1
  MaxOps = 2
  Sizes = {1, 8}
  OpNames = {"read", "read1", "peek", "readall", "readline", "next", "readinto", "readinto1"}
INIT Init
NEXT Next
INVARIANT ExportHist
