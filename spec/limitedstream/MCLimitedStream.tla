---- MODULE MCLimitedStream ----
EXTENDS LimitedStream
\* "a\nbc" , "ab\ncd\ne"
D4 == <<97, 10, 98, 99>>
D7 == <<97, 98, 10, 99, 100, 10, 101>>
D0 == <<>>
DatasD == {D7}
D8 == <<10, 97, 98, 10, 10, 99, 100, 101>>
DatasB == {D7, D8}
DatasQ == {D0, D4}
DatasT == {D0, D4, D7}
DatasX == {D4}
====
