CONSTANTS
  Variant = "hookspin"
  Datas <- DatasQ
  Limits = {2, 6}
  Modes = {TRUE, FALSE}
  RIs = {TRUE}
  KMax = 2
  ErrBudget = 1
  MaxOps = 2
  Sizes = {1, 8}
  OpNames = {"read", "readinto", "readall", "exhaust", "next", "readlines", "readline"}
INIT Init
NEXT Next
VIEW ViewNoHist
INVARIANT Contract
INVARIANT NoOverReadInv
INVARIANT PosEqualsUpos
INVARIANT LoopBound
