----------------------------- MODULE InputChoice -----------------------------
(* Decision table of werkzeug.wsgi.get_input_stream, transcribed from its documentation and   *)
(* from the property text (C09), not from the code:                                            *)
(*  - usable length: None for a chunked request or without CONTENT_LENGTH; a header that is    *)
(*    not a plain ASCII integer (optional '-', ASCII digits, surrounding blanks) or is         *)
(*    negative counts as 0                                                                     *)
(*  - a usable length above max_content_length -> RequestEntityTooLarge at once                *)
(*  - wsgi.input_terminated: the input itself, or limited to max_content_length (a maximum)    *)
(*  - otherwise: no usable length -> empty stream (safe_fallback) or the input itself;         *)
(*    else limited to the content length                                                       *)
(* and of what reading the returned stream must then give (read() followed by read(2)).        *)
EXTENDS Bytes, Integers

HugeVal == 1000000000      \* stands for every length of more than 9 significant digits
Blank(ch) == ch \in {32, 9, 10, 11, 12, 13}
Digit(ch) == ch >= 48 /\ ch <= 57

RECURSIVE LStrip(_)
LStrip(s) == IF s # <<>> /\ Blank(Head(s)) THEN LStrip(Tail(s)) ELSE s
RECURSIVE RStrip(_)
RStrip(s) == IF s # <<>> /\ Blank(s[Len(s)]) THEN RStrip(SubSeq(s, 1, Len(s) - 1)) ELSE s
RECURSIVE DropZeros(_)
DropZeros(s) == IF Len(s) > 1 /\ Head(s) = 48 THEN DropZeros(Tail(s)) ELSE s
RECURSIVE DigitsVal(_, _)
DigitsVal(s, acc) == IF s = <<>> THEN acc ELSE DigitsVal(Tail(s), acc * 10 + (Head(s) - 48))

\* [ok |-> is a plain integer, neg, val]
PlainInt(text) ==
  LET s   == RStrip(LStrip(text))
      neg == s # <<>> /\ Head(s) = 45
      d   == IF neg THEN Tail(s) ELSE s
  IN IF d = <<>> \/ \E j \in 1..Len(d) : ~Digit(d[j]) THEN [ok |-> FALSE, neg |-> FALSE, val |-> 0]
     ELSE LET z == DropZeros(d) IN
          [ok |-> TRUE, neg |-> neg, val |-> IF Len(z) > 9 THEN HugeVal ELSE DigitsVal(z, 0)]

NoLen == 0 - 1
\* usable content length, NoLen for a streaming request
UsableLength(in) ==
  IF in.chunked \/ ~in.has_cl THEN NoLen
  ELSE LET p == PlainInt(in.cl) IN IF p.ok /\ ~p.neg THEN p.val ELSE 0

\* in: [has_cl, cl, chunked, terminated, max (NoLen = None), safe]
Expected(in) ==
  LET L == UsableLength(in) IN
  IF L # NoLen /\ in.max # NoLen /\ L > in.max THEN [kind |-> "too_large", limit |-> 0]
  ELSE IF in.terminated THEN
       (IF in.max # NoLen THEN [kind |-> "max", limit |-> in.max] ELSE [kind |-> "input", limit |-> 0])
  ELSE IF L = NoLen THEN
       (IF in.safe THEN [kind |-> "empty", limit |-> 0] ELSE [kind |-> "input", limit |-> 0])
  ELSE [kind |-> "length", limit |-> L]

\* r: the recorded outcome [gx, r1k, r1, r1x, r2k, r2, r2x, consumed1, consumed2, maxreq, calls, data]
ChoiceVerdict(r) ==
  LET e == Expected(r)
      D == Len(r.data)
      Pre(n) == Take(r.data, n)
      Bytes1(b) == r.r1k = "bytes" /\ r.r1 = b
      Bytes2(b) == r.r2k = "bytes" /\ r.r2 = b
      Exc1(x) == r.r1k = "exc" /\ r.r1x = x
      Exc2(x) == r.r2k = "exc" /\ r.r2x = x
  IN
  IF e.kind = "too_large" THEN
       (IF r.gx = "RequestEntityTooLarge" THEN "ok" ELSE "TooLargeOnMax")
  ELSE IF r.gx # "" THEN (IF r.gx = "RequestEntityTooLarge" THEN "SpuriousTooLarge" ELSE "OnlyDocumentedExceptions")
  ELSE IF e.kind = "empty" THEN
       (IF r.calls # 0 \/ r.consumed2 # 0 THEN "NoOverRead"
        ELSE IF Bytes1(<<>>) /\ Bytes2(<<>>) THEN "ok" ELSE "EmptyWhenNoLength")
  ELSE IF e.kind = "input" THEN
       (IF Bytes1(r.data) /\ Bytes2(<<>>) THEN "ok" ELSE "InputWhenTerminated")
  ELSE IF e.kind = "length" THEN
       (IF r.maxreq > e.limit \/ r.consumed2 > e.limit THEN "NoOverRead"
        ELSE IF D < e.limit THEN (IF Exc1("ClientDisconnected") THEN "ok" ELSE "DisconnectOnShort")
        ELSE IF ~Bytes1(Pre(e.limit)) THEN "PrefixOfData"
        ELSE IF ~Bytes2(<<>>) THEN "ExhaustedIsEmpty"
        ELSE "ok")
  ELSE \* a maximum
       (IF r.maxreq > e.limit \/ r.consumed2 > e.limit THEN "NoOverRead"
        ELSE IF D < e.limit THEN (IF Bytes1(r.data) /\ Bytes2(<<>>) THEN "ok" ELSE "PrefixOfData")
        ELSE IF D = e.limit THEN
             (IF (Bytes1(r.data) \/ Exc1("RequestEntityTooLarge")) /\ (Bytes2(<<>>) \/ Exc2("RequestEntityTooLarge"))
              THEN "ok" ELSE "PrefixOfData")
        ELSE \* the client sent more than the maximum: never a silently truncated body
             (IF Exc1("RequestEntityTooLarge") /\ Exc2("RequestEntityTooLarge") THEN "ok" ELSE "TooLargeOnMax"))
=============================================================================
