----------------------------- MODULE LSContract -----------------------------
(* Contract of the request body stream (property C09), as a relation over observables only.  *)
(* It is used twice: as the invariant the implementation-shaped model LimitedStream.tla must  *)
(* satisfy for every behaviour (TLC, exhaustive within bounds), and as the judge of recorded  *)
(* executions of the real werkzeug.wsgi.LimitedStream (LimitedStreamTrace.tla).               *)
(*                                                                                             *)
(* c  : [data, limit, is_max, wrapper]   wrapper \in {"raw","buffered","text"}                *)
(* st : [ylo, upos, synced]   ylo = index in data of the next byte the application must see,  *)
(*      upos = bytes the underlying (server) stream has handed out, synced = ylo is exact     *)
(* ln : one application-level call                                                             *)
(*      [op, n, ev, rk, rb, rx, cuts, bafter, bn, pos]                                         *)
(*      ev  = <<  <<m, got>> ... >>  the underlying calls made during this call, in order:     *)
(*            m requested size (-1 unbounded), got bytes handed out, -1 raised OSError,        *)
(*            -2 the environment's hang guard fired                                            *)
(*      rk  = "bytes" | "exc" | "stop"(StopIteration);  rb result bytes; rx exception class    *)
(*      cuts = line lengths (readlines); bafter = caller's buffer after readinto, bn = return  *)
(*      pos = LimitedStream.tell() after the call                                              *)
EXTENDS Bytes, Integers, FiniteSets

FILL == 238
CD == "ClientDisconnected"
TL == "RequestEntityTooLarge"

Got(e) == IF e[2] > 0 THEN e[2] ELSE 0
RECURSIVE Consumed(_)
Consumed(evs) == IF evs = <<>> THEN 0 ELSE Got(Head(evs)) + Consumed(Tail(evs))
UBefore(evs, u, k) == u + Consumed(SubSeq(evs, 1, k - 1))

\* the wrapper asks the server's input for more than what is left of the limit
OverRequest(c, evs, u) == \E k \in 1..Len(evs) : evs[k][1] < 0 \/ evs[k][1] > c.limit - UBefore(evs, u, k)
SawErr(evs)  == \E k \in 1..Len(evs) : evs[k][2] = -1
SawHang(evs) == \E k \in 1..Len(evs) : evs[k][2] = -2
SawEOF(evs)  == \E k \in 1..Len(evs) : evs[k][2] = 0 /\ evs[k][1] > 0
SawShortEOF(c, evs, u) == \E k \in 1..Len(evs) : evs[k][2] = 0 /\ evs[k][1] > 0 /\ UBefore(evs, u, k) < c.limit
ZeroEvents(evs) == Cardinality({k \in 1..Len(evs) : evs[k][2] <= 0})

\* longest run of consecutive underlying calls that delivered nothing (no progress)
RECURSIVE ZeroRun(_, _, _)
ZeroRun(evs, cur, best) ==
  IF evs = <<>> THEN Max2(cur, best)
  ELSE IF Head(evs)[2] <= 0 THEN ZeroRun(Tail(evs), cur + 1, best)
  ELSE ZeroRun(Tail(evs), 0, Max2(cur, best))

IsRaw(c) == c.wrapper = "raw"

\* Documented subclass hooks (scenario parameters, absent = the defaults of LimitedStream):
\*   dq = on_disconnect overridden to return normally (b"" / None) instead of raising
\*   ex = on_exhausted: "default" (RequestEntityTooLarge iff the limit is a maximum),
\*        "quiet" (returns normally), "raise" (raises the subclass's own exception HookExhausted)
\* With a quiet on_disconnect a short body / an OSError ends the read with what was read so far;
\* the rest of the contract (bounded underlying reads per call, never beyond the limit, prefix of
\* what was sent, no loss) is unchanged.
Dq(c) == IF "dq" \in DOMAIN c THEN c.dq ELSE FALSE
Ex(c) == IF "ex" \in DOMAIN c THEN c.ex ELSE "default"
TLmode(c) == Ex(c) = "default" /\ c.is_max
HX == "HookExhausted"
SliceAt(c, y, B) == y + Len(B) <= Len(c.data) /\ B = SubSeq(c.data, y + 1, y + Len(B))

Sized(op)   == op \in {"read", "read1", "readline", "readinto", "readinto_mv", "readinto1"}
IntoOp(op)  == op \in {"readinto", "readinto_mv", "readinto1"}
LineOp(op)  == op \in {"readline", "next"}

\* Request-level consumers of the body stream (werkzeug.wrappers.Request): each reads the whole
\* body (an unbounded read of the stream handed to the application), the recorded result is the
\* body bytes the consumer delivered (raw, or re-encoded from the decoded text / JSON / form value).
\* req_stream_read = request.stream.read() after such a consumer; req_close = Request.close(),
\* which delivers nothing and may or may not drain the stream (never beyond the limit).
ReqAll(op) == op \in {"req_get_data", "req_get_data_nocache", "req_data", "req_get_data_text",
                      "req_get_json", "req_form", "req_stream_read"}
ReqClose(op) == op = "req_close"

EndsLF(B) == B # <<>> /\ B[Len(B)] = LF
OneLine(B) == \A j \in 1..(Len(B) - 1) : B[j] # LF

\* readlines: the pieces partition the result, each piece is one line, all but the last end in LF
\* (strict = FALSE: a quiet on_disconnect hook ended a line early at an OSError / empty read)
RECURSIVE PiecesOK(_, _, _, _)
PiecesOK(B, cuts, off, strict) ==
  IF cuts = <<>> THEN off = Len(B)
  ELSE LET k == Head(cuts) IN
       /\ k > 0 /\ off + k <= Len(B)
       /\ OneLine(SubSeq(B, off + 1, off + k))
       /\ (strict /\ Tail(cuts) # <<>> => B[off + k] = LF)
       /\ PiecesOK(B, Tail(cuts), off + k, strict)

ShapeOK(ln, B, strict) ==
  CASE LineOp(ln.op)        -> OneLine(B)
    [] ln.op = "readlines"  -> PiecesOK(B, ln.cuts, 0, strict)
    [] OTHER                -> TRUE

\* "no silent truncation": a call may stop before it satisfied the request only at the limit,
\* or (limit is a maximum) because the server's input ended
\* A bounded request (read(n), readinto) has got everything it may get when the limit is reached;
\* the excess of an oversized body surfaces at the next call.  An unbounded request (read(),
\* readline, readlines) that returns normally at a *maximum* although the client sent more than
\* the maximum has silently truncated the body: it must raise RequestEntityTooLarge instead
\* (for a body of exactly the maximum both outcomes are accepted: the wrapper cannot tell).
\* exhaust() is documented to return the remaining data "until the limit is reached".
Complete(c, ln, evs, B, y1) ==
  LET eofOK == ((c.is_max \/ Dq(c)) /\ SawEOF(evs)) \/ (Dq(c) /\ SawErr(evs))
      stopS == y1 = c.limit \/ eofOK
      stopU == \/ ~TLmode(c) /\ y1 = c.limit
               \/ eofOK
               \/ TLmode(c) /\ y1 = c.limit /\ Len(c.data) <= c.limit
      nB == Len(B)
  IN CASE ln.op \in {"read", "readinto", "readinto_mv"} ->
              IF IsRaw(c) THEN nB > 0 \/ stopS ELSE nB = ln.n \/ stopS
       [] ln.op \in {"read1", "readinto1", "peek"} -> nB > 0 \/ stopS
       [] ln.op = "exhaust" -> stopS
       [] ln.op = "readall" \/ ReqAll(ln.op) -> stopU
       [] LineOp(ln.op) -> EndsLF(B) \/ (ln.n > 0 /\ nB = ln.n) \/ stopU
       [] ln.op = "readlines" -> (ln.n > 0 /\ nB >= ln.n) \/ stopU
       [] OTHER -> TRUE

BufOK(ln, B) == /\ Len(ln.bafter) = ln.n
                /\ ln.bn = Len(B)
                /\ \A j \in 1..Len(ln.bafter) : IF j <= Len(B) THEN ln.bafter[j] = B[j] ELSE ln.bafter[j] = FILL

\* After an exception under io.BufferedReader / io.TextIOWrapper (CPython) bytes of the failed call
\* may be dropped, also from the middle of what is delivered later.  What is still required: the
\* bytes delivered are, in order, bytes of the data between the last known position and what was
\* consumed (nothing fabricated, nothing from beyond the limit).  Greedy match; 0 - 1 = no match,
\* else the index after the last matched byte (a sound lower bound for what follows).
RECURSIVE MatchEnd(_, _, _, _, _)
MatchEnd(data, y, B, j, hi) ==
  IF j > Len(B) THEN y
  ELSE IF y >= hi \/ y >= Len(data) THEN 0 - 1
  ELSE IF data[y + 1] = B[j] THEN MatchEnd(data, y + 1, B, j + 1, hi)
  ELSE MatchEnd(data, y + 1, B, j, hi)

OpVerdict(c, st, ln) ==
  LET evs == ln.ev
      u0  == st.upos
      u1  == u0 + Consumed(evs)
      isB == ln.rk = "bytes" \/ (ln.rk = "stop" /\ ln.op = "next")
      B   == IF ln.rk = "bytes" THEN ln.rb ELSE <<>>
      nB  == Len(B)
  IN
  \* every call returns after finitely many underlying reads: at most 4 that deliver nothing (with a
  \* quiet on_disconnect hook OSErrors do not end the call, so: at most 4 in a row)
  IF SawHang(evs) \/ ln.rx = "HangGuard" \/ (~Dq(c) /\ ZeroEvents(evs) > 4) \/ ZeroRun(evs, 0, 0) > 4 THEN "StepBound"
  ELSE IF OverRequest(c, evs, u0) \/ u1 > c.limit THEN "NoOverRead"
  ELSE IF ~isB THEN
       IF ln.rk = "exc" /\ ln.rx = CD THEN
            (IF ~Dq(c) /\ (SawErr(evs) \/ (SawShortEOF(c, evs, u0) /\ ~c.is_max)) THEN
                 (IF ln.pos # u1 THEN "PosAccounting" ELSE "ok")
             ELSE "SpuriousDisconnect")
       ELSE IF ln.rk = "exc" /\ ln.rx = TL THEN
            (IF TLmode(c) /\ u1 >= c.limit THEN (IF ln.pos # u1 THEN "PosAccounting" ELSE "ok")
             ELSE "SpuriousTooLarge")
       ELSE IF ln.rk = "exc" /\ ln.rx = HX /\ Ex(c) = "raise" /\ u1 >= c.limit THEN
            (IF ln.pos # u1 THEN "PosAccounting" ELSE "ok")
       ELSE "OnlyDocumentedExceptions"
  ELSE IF ln.pos # u1 THEN "PosAccounting"
  ELSE IF SawErr(evs) /\ ~Dq(c) THEN "DisconnectOnError"
  ELSE IF SawShortEOF(c, evs, u0) /\ ~c.is_max /\ ~Dq(c) THEN "DisconnectOnShort"
  ELSE IF TLmode(c) /\ u0 >= c.limit /\ st.synced /\ st.ylo = u0 /\ ln.op # "exhaust" /\ ~ReqClose(ln.op) THEN "TooLargeOnMax"
  ELSE IF st.synced /\ ~SliceAt(c, st.ylo, B) THEN "PrefixOfData"
  ELSE IF ~st.synced /\ MatchEnd(c.data, st.ylo, B, 1, u1) < 0 THEN "PrefixOfData"
  ELSE IF st.synced /\ st.ylo + nB > u1 THEN "PrefixOfData"
  ELSE IF st.synced /\ IsRaw(c) /\ st.ylo + nB # u1 /\ ~ReqClose(ln.op) THEN "NoLoss"
  ELSE IF Sized(ln.op) /\ ln.n > 0 /\ nB > ln.n THEN "SizeBound"
  ELSE IF ~ShapeOK(ln, B, ~(Dq(c) /\ (SawErr(evs) \/ SawEOF(evs)))) THEN "LineShape"
  ELSE IF st.synced /\ ~Complete(c, ln, evs, B, st.ylo + nB) THEN "Truncated"
  ELSE IF IntoOp(ln.op) /\ ~BufOK(ln, B) THEN "CallerBufferIntact"
  ELSE "ok"

\* contract state after the call (total: also after a rejected line)
OpNext(c, st, ln) ==
  LET u1  == st.upos + Consumed(ln.ev)
      isB == ln.rk = "bytes" \/ (ln.rk = "stop" /\ ln.op = "next")
      B   == IF ln.rk = "bytes" THEN ln.rb ELSE <<>>
  IN IF isB /\ ReqClose(ln.op) THEN [ylo |-> u1, upos |-> u1, synced |-> st.synced]      \* close may drain
     ELSE IF isB /\ ln.op = "peek" THEN [ylo |-> st.ylo, upos |-> u1, synced |-> st.synced]   \* peek delivers without consuming
     ELSE IF isB THEN
          IF st.synced THEN [ylo |-> st.ylo + Len(B), upos |-> u1, synced |-> TRUE]
          ELSE IF MatchEnd(c.data, st.ylo, B, 1, u1) >= 0
               THEN [ylo |-> MatchEnd(c.data, st.ylo, B, 1, u1), upos |-> u1, synced |-> FALSE]
               ELSE [ylo |-> st.ylo, upos |-> u1, synced |-> FALSE]
     ELSE \* an exception surfaced: bytes consumed by the failed call may be gone; a raw stream
          \* has no buffer, so the next byte is the next one the server hands out
          IF IsRaw(c) THEN [ylo |-> u1, upos |-> u1, synced |-> TRUE]
          ELSE [ylo |-> st.ylo, upos |-> u1, synced |-> FALSE]

St0 == [ylo |-> 0, upos |-> 0, synced |-> TRUE]
=============================================================================
