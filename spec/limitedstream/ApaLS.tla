------------------------------- MODULE ApaLS -------------------------------
(* Unbounded accounting of werkzeug.wsgi.LimitedStream.readinto, integers only, for Apalache.  *)
(* No bound on the limit, the caller's buffer size, the data or the number of calls: the        *)
(* invariant is inductive.  pos = LimitedStream._pos, upos = bytes the underlying stream has    *)
(* handed out, demand = (bytes handed out before the last underlying call) + (size requested    *)
(* by it): what a stream that delivers everything it is asked for would have consumed.          *)
(*   apalache-mc check --init=IndInit --inv=IndInv --length=1 ApaLS.tla     (IndInv inductive)  *)
(*   apalache-mc check --init=Init    --inv=IndInv --length=0 ApaLS.tla     (Init => IndInv)    *)
(*   apalache-mc check --init=IndInit --inv=Safety --length=0 ApaLS.tla     (IndInv => Safety)  *)
(*   ... --next=NextOver must FAIL the first obligation (non-vacuity)                           *)
EXTENDS Integers

VARIABLES
  \* @type: Int;
  pos,
  \* @type: Int;
  upos,
  \* @type: Int;
  limit,
  \* @type: Bool;
  isMax,
  \* @type: Int;
  demand,
  \* @type: Str;
  outcome

Min2(a, b) == IF a <= b THEN a ELSE b

Init == /\ pos = 0 /\ upos = 0 /\ demand = 0 /\ outcome = "none"
        /\ limit \in Nat /\ isMax \in BOOLEAN

\* one readinto(buffer of `size` bytes); the underlying stream answers `got`:
\* -1 = raised OSError, 0 = end of input, 1..m = that many bytes (never more than requested)
ReadInto(size, got, m) ==
  /\ UNCHANGED <<limit, isMax>>
  /\ IF limit - pos <= 0
     THEN /\ UNCHANGED <<pos, upos, demand>>
          /\ outcome' = IF isMax THEN "RequestEntityTooLarge" ELSE "empty"
     ELSE /\ got >= 0 - 1 /\ got <= m
          /\ demand' = upos + m
          /\ IF got > 0
             THEN pos' = pos + got /\ upos' = upos + got /\ outcome' = "bytes"
             ELSE /\ UNCHANGED <<pos, upos>>
                  /\ outcome' = IF got < 0 \/ ~isMax THEN "ClientDisconnected" ELSE "empty"

\* the code: the request is min(size, remaining) on both the readinto and the read path
Next == \E size \in Nat : \E got \in Int : size > 0 /\ ReadInto(size, got, Min2(size, limit - pos))
\* mutant: asks the underlying stream for the caller's size
NextOver == \E size \in Nat : \E got \in Int : size > 0 /\ ReadInto(size, got, size)

TypeOK == /\ pos \in Int /\ upos \in Int /\ limit \in Int /\ demand \in Int /\ isMax \in BOOLEAN
          /\ outcome \in {"none", "bytes", "empty", "ClientDisconnected", "RequestEntityTooLarge"}

IndInv == /\ 0 <= pos /\ pos <= limit /\ upos = pos
          /\ 0 <= demand /\ demand <= limit
          /\ (outcome = "RequestEntityTooLarge" => isMax /\ pos >= limit)

IndInit == TypeOK /\ IndInv

\* what the property states: never consumes - nor asks for - more than the limit
Safety == upos <= limit /\ demand <= limit
=============================================================================
