----------------------------- MODULE BufferedLS -----------------------------
(* io.BufferedReader(LimitedStream(underlying, limit, is_max), buffer_size = B) as a state     *)
(* machine: the buffering layer of CPython (Modules/_io/bufferedio.c: read_fast / read_generic *)
(* / read_all / read1 / peek / _buffered_readline / _buffered_readinto_generic / fill_buffer / *)
(* raw_read) over the model of LimitedStream.readinto / readall, over the environment          *)
(* (underlying stream: short reads up to KMax, end of input, OSError budget).                  *)
(*                                                                                             *)
(* State: pos = LimitedStream._pos, upos = bytes the SERVER's input handed out, bpos / bend =  *)
(* BufferedReader.pos / read_end (bend = -1: no valid read buffer).  The buffer always holds   *)
(* a contiguous piece of the data ending at upos, so the read-ahead is data[upos-RA+1..upos].  *)
(* Each public call is one atomic action whose outcomes (one per environment behaviour) are    *)
(* computed by recursive set-valued operators shaped like the C loops.                         *)
(*                                                                                             *)
(* TLC checks: the buffering layer reads ahead but never beyond the limit (NoOverReadInv),     *)
(* upos = delivered + read-ahead (Accounting), and every completed call satisfies the contract *)
(* LSContract!OpVerdict with wrapper = "buffered".  Variants: "fixed"; "f10" (temp-buffer      *)
(* short read -> ValueError on the memoryview BufferedReader passes); "over" (LimitedStream    *)
(* asks for the caller's size: the read-ahead goes beyond the limit).                          *)
EXTENDS LSContract, TLC, Json

CONSTANTS Datas, Limits, Modes, RIs, BufSizes, KMax, ErrBudget, MaxOps, Sizes, OpNames, Variant

VARIABLES c, s, nops, last, pst, cst, hist
vars == <<c, s, nops, last, pst, cst, hist>>
ViewNoHist == <<c, s, nops, last, pst, cst>>

Big == 65536
B == c.bufsize
RA(t) == IF t.bend >= 0 THEN t.bend - t.bpos ELSE 0            \* READAHEAD()
Y(t) == t.upos - RA(t)                                          \* data index of the next buffered byte
Slice(y, n) == IF n <= 0 THEN <<>> ELSE SubSeq(c.data, y + 1, y + n)
ExcName(ret) == CASE ret = "CD" -> CD [] ret = "TL" -> TL [] OTHER -> "ValueError"

(* LimitedStream.readinto(memoryview of `size` bytes) in state t: set of [ev, ret, k, t]        *)
RawRI(t, size) ==
  LET rem == c.limit - t.pos IN
  IF rem <= 0
  THEN {[ev |-> <<>>, ret |-> IF c.is_max THEN "TL" ELSE "ok", k |-> 0, t |-> t]}
  ELSE LET m     == IF Variant = "over" THEN size ELSE Min2(size, rem)
           avail == Len(c.data) - t.upos
           temp  == c.hasri /\ size > rem
           gots  == IF avail <= 0 THEN {0} ELSE 1..Min2(Min2(m, avail), KMax)
       IN {LET ve == Variant = "f10" /\ temp /\ g > 0 /\ g < rem IN
           [ev  |-> << <<m, g>> >>,
            ret |-> IF g = 0 THEN (IF c.is_max THEN "ok" ELSE "CD") ELSE IF ve THEN "VE" ELSE "ok",
            k   |-> IF ve THEN 0 ELSE g,
            t   |-> [t EXCEPT !.upos = @ + g, !.pos = IF ve THEN @ ELSE @ + g]] : g \in gots}
          \cup (IF t.errs < ErrBudget
                THEN {[ev |-> << <<m, 0 - 1>> >>, ret |-> "CD", k |-> 0, t |-> [t EXCEPT !.errs = @ + 1]]}
                ELSE {})

\* outcomes of a public call
\* part = what a failed readinto had already copied into the caller's buffer
Ok(evs, rb, t)   == [evs |-> evs, rk |-> "bytes", rb |-> rb, rx |-> "", t |-> t, part |-> rb]
ExcP(evs, ret, t, part) == [evs |-> evs, rk |-> "exc", rb |-> <<>>, rx |-> ExcName(ret), t |-> t, part |-> part]
Exc(evs, ret, t) == ExcP(evs, ret, t, <<>>)
Reset(t) == [t EXCEPT !.bend = 0 - 1]                           \* _bufferedreader_reset_buf
TakeBuf(t, n) == [t EXCEPT !.bpos = @ + n]

\* _bufferedreader_fill_buffer: appends at read_end (or starts at 0); outcome k = bytes added
Fill(t) ==
  LET start == IF t.bend >= 0 THEN t.bend ELSE 0 IN
  {[o EXCEPT !.t = IF o.ret = "ok" /\ o.k > 0
                   THEN [o.t EXCEPT !.bend = start + o.k, !.bpos = IF t.bend >= 0 THEN t.bpos ELSE 0]
                   ELSE o.t] : o \in RawRI(t, B - start)}

\* LimitedStream.readall (raw.readall() as BufferedReader.read() calls it)
RECURSIVE RawAll(_, _, _)
RawAll(t, acc, evs) ==
  UNION {IF o.ret # "ok" THEN {Exc(evs \o o.ev, o.ret, o.t)}
         ELSE IF o.k = 0 THEN {Ok(evs \o o.ev, acc, o.t)}
         ELSE LET acc2 == acc \o Slice(t.upos, o.k) IN
              IF o.t.pos >= c.limit
              THEN (IF c.is_max THEN {Exc(evs \o o.ev, "TL", o.t)} ELSE {Ok(evs \o o.ev, acc2, o.t)})
              ELSE RawAll(o.t, acc2, evs \o o.ev) : o \in RawRI(t, Big)}

BReadAll(t) ==
  LET acc == Slice(Y(t), RA(t))
      t0  == Reset(TakeBuf(t, RA(t)))
  IN IF t0.pos >= c.limit
     THEN (IF c.is_max THEN {Exc(<<>>, "TL", t0)} ELSE {Ok(<<>>, acc, t0)})
     ELSE RawAll(t0, acc, <<>>)

\* _bufferedreader_read_generic, second loop: fill the buffer until the request is satisfied
RECURSIVE Gen2(_, _, _, _)
Gen2(t, rem, acc, evs) ==
  IF rem <= 0 \/ t.bend >= B THEN {Ok(evs, acc, t)}
  ELSE UNION {IF o.ret # "ok" THEN {Exc(evs \o o.ev, o.ret, o.t)}
              ELSE IF o.k = 0 THEN {Ok(evs \o o.ev, acc, o.t)}
              ELSE LET n == Min2(rem, RA(o.t)) IN
                   Gen2(TakeBuf(o.t, n), rem - n, acc \o Slice(Y(o.t), n), evs \o o.ev) : o \in Fill(t)}
\* first loop: whole blocks directly into the result
RECURSIVE Gen1(_, _, _, _)
Gen1(t, rem, acc, evs) ==
  LET r == (rem \div B) * B IN
  IF rem <= 0 \/ r = 0 THEN Gen2([t EXCEPT !.bpos = 0, !.bend = 0], rem, acc, evs)
  ELSE UNION {IF o.ret # "ok" THEN {Exc(evs \o o.ev, o.ret, o.t)}
              ELSE IF o.k = 0 THEN {Ok(evs \o o.ev, acc, o.t)}
              ELSE Gen1(o.t, rem - o.k, acc \o Slice(t.upos, o.k), evs \o o.ev) : o \in RawRI(t, r)}

BRead(t, n) ==
  IF n <= RA(t) THEN {Ok(<<>>, Slice(Y(t), n), TakeBuf(t, n))}
  ELSE Gen1(Reset(TakeBuf(t, RA(t))), n - RA(t), Slice(Y(t), RA(t)), <<>>)

BRead1(t, n) ==
  IF RA(t) > 0 THEN LET k == Min2(RA(t), n) IN {Ok(<<>>, Slice(Y(t), k), TakeBuf(t, k))}
  ELSE {IF o.ret # "ok" THEN Exc(o.ev, o.ret, o.t) ELSE Ok(o.ev, Slice(t.upos, o.k), o.t) : o \in RawRI(Reset(t), n)}

BPeek(t) ==
  IF RA(t) > 0 THEN {Ok(<<>>, Slice(Y(t), RA(t)), t)}
  ELSE {IF o.ret # "ok" THEN Exc(o.ev, o.ret, o.t) ELSE Ok(o.ev, Slice(Y(o.t), RA(o.t)), o.t) : o \in Fill(Reset(t))}

FirstLF(seg) == IF \E j \in 1..Len(seg) : seg[j] = LF THEN CHOOSE j \in 1..Len(seg) : seg[j] = LF /\ \A i \in 1..(j - 1) : seg[i] # LF ELSE 0

\* _buffered_readline, the loop after the buffer held no complete line
RECURSIVE RL(_, _, _, _)
RL(t, lim, acc, evs) ==
  UNION {IF o.ret # "ok" THEN {Exc(evs \o o.ev, o.ret, o.t)}
         ELSE IF o.k = 0 THEN {Ok(evs \o o.ev, acc, o.t)}
         ELSE LET n   == IF lim >= 0 /\ o.k > lim THEN lim ELSE o.k
                  seg == Slice(Y(o.t), n)
                  j   == FirstLF(seg)
              IN IF j > 0 THEN {Ok(evs \o o.ev, acc \o Take(seg, j), TakeBuf(o.t, j))}
                 ELSE IF n = lim THEN {Ok(evs \o o.ev, acc \o seg, TakeBuf(o.t, n))}
                 ELSE RL(Reset(TakeBuf(o.t, n)), IF lim >= 0 THEN lim - n ELSE lim, acc \o seg, evs \o o.ev)
         : o \in Fill(Reset(t))}

BReadline(t, lim) ==
  LET n   == IF lim >= 0 THEN Min2(RA(t), lim) ELSE RA(t)
      seg == Slice(Y(t), n)
      j   == FirstLF(seg)
  IN IF j > 0 THEN {Ok(<<>>, Take(seg, j), TakeBuf(t, j))}
     ELSE IF n = lim THEN {Ok(<<>>, seg, TakeBuf(t, n))}
     ELSE RL(TakeBuf(t, n), IF lim >= 0 THEN lim - n ELSE lim, seg, <<>>)

\* _buffered_readinto_generic
RECURSIVE Into(_, _, _, _, _)
Into(t, rem, acc, evs, one) ==
  IF rem <= 0 THEN {Ok(evs, acc, t)}
  ELSE IF rem > B
  THEN UNION {IF o.ret # "ok" THEN {ExcP(evs \o o.ev, o.ret, o.t, acc)}
              ELSE IF o.k = 0 THEN {Ok(evs \o o.ev, acc, o.t)}
              ELSE IF one THEN {Ok(evs \o o.ev, acc \o Slice(t.upos, o.k), o.t)}
              ELSE Into(o.t, rem - o.k, acc \o Slice(t.upos, o.k), evs \o o.ev, one) : o \in RawRI(t, rem)}
  ELSE IF ~(one /\ acc # <<>>)
  THEN UNION {IF o.ret # "ok" THEN {ExcP(evs \o o.ev, o.ret, o.t, acc)}
              ELSE IF o.k = 0 THEN {Ok(evs \o o.ev, acc, o.t)}
              ELSE LET n == Min2(rem, RA(o.t)) IN
                   Into(TakeBuf(o.t, n), rem - n, acc \o Slice(Y(o.t), n), evs \o o.ev, one) : o \in Fill(t)}
  ELSE {Ok(evs, acc, t)}

BInto(t, len, one) ==
  IF RA(t) > 0 /\ RA(t) >= len THEN {Ok(<<>>, Slice(Y(t), len), TakeBuf(t, len))}
  ELSE Into([Reset(t) EXCEPT !.bpos = 0], len - RA(t), Slice(Y(t), RA(t)), <<>>, one)

Outcomes(op, n) ==
  CASE op = "read"      -> BRead(s, n)
    [] op = "read1"     -> BRead1(s, n)
    [] op = "peek"      -> BPeek(s)
    [] op = "readall"   -> BReadAll(s)
    [] op = "readline"  -> BReadline(s, n)
    [] op = "next"      -> BReadline(s, 0 - 1)
    [] op = "readinto"  -> BInto(s, n, FALSE)
    [] op = "readinto1" -> BInto(s, n, TRUE)

Rep(x, k) == [j \in 1..k |-> x]
IsInto(op) == op \in {"readinto", "readinto1"}

LineOf(op, n, o) ==
  LET stop == op = "next" /\ o.rk = "bytes" /\ o.rb = <<>> IN
  [op |-> op, n |-> n, ev |-> o.evs,
   rk |-> IF stop THEN "stop" ELSE o.rk, rb |-> o.rb, rx |-> IF stop THEN "StopIteration" ELSE o.rx,
   cuts |-> <<>>,
   bafter |-> IF IsInto(op) THEN o.part \o Rep(FILL, n - Len(o.part)) ELSE <<>>,
   bn |-> IF IsInto(op) /\ o.rk = "bytes" THEN Len(o.rb) ELSE 0 - 1,
   pos |-> o.t.pos]

Init == /\ c \in [data : Datas, limit : Limits, is_max : Modes, hasri : RIs, wrapper : {"buffered"}, bufsize : BufSizes]
        /\ s = [pos |-> 0, upos |-> 0, errs |-> 0, bpos |-> 0, bend |-> 0 - 1]
        /\ nops = 0 /\ last = [op |-> "none"] /\ pst = St0 /\ cst = St0 /\ hist = <<>>

Do(op, n) ==
  /\ nops < MaxOps
  /\ \E o \in Outcomes(op, n) :
       LET ln == LineOf(op, n, o) IN
       /\ s' = o.t /\ c' = c /\ nops' = nops + 1
       /\ last' = ln /\ pst' = cst /\ cst' = OpNext(c, cst, ln) /\ hist' = Append(hist, ln)

Next == \/ \E op \in OpNames \cap {"read", "read1", "readinto", "readinto1"} : \E n \in Sizes : Do(op, n)
        \/ \E op \in OpNames \cap {"peek", "readall", "next"} : Do(op, 0 - 1)
        \/ \E n \in Sizes \cup {0 - 1} : "readline" \in OpNames /\ Do("readline", n)

----------------------------------------------------------------------------
Contract      == last.op = "none" \/ OpVerdict(c, pst, last) = "ok"
\* the buffered layer reads ahead, but never beyond the limit of the server's input
NoOverReadInv == s.upos <= c.limit /\ s.pos <= c.limit
\* bytes taken from the server = bytes delivered to the application + bytes held in the buffer
Accounting    == /\ s.pos = s.upos
                 /\ RA(s) >= 0 /\ RA(s) <= B
                 /\ (cst.synced => cst.ylo + RA(s) = s.upos)

ExportHist == (nops = MaxOps) => PrintT(ToJson([c |-> c, hist |-> hist]))
=============================================================================
