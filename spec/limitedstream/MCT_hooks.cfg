CONSTANTS
  Variant = "hooks"
  Datas <- DatasQ
  Limits = {0, 2, 4, 6}
  Modes = {TRUE, FALSE}
  RIs = {TRUE, FALSE}
  KMax = 2
  ErrBudget = 2
  MaxOps = 3
  Sizes = {1, 3, 8}
  OpNames = {"read", "readinto", "readinto_mv", "readall", "exhaust", "next", "readlines", "readline"}
INIT Init
NEXT Next
VIEW ViewNoHist
INVARIANT Contract
INVARIANT NoOverReadInv
INVARIANT PosEqualsUpos
INVARIANT LoopBound
