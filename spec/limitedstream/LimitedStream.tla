---------------------------- MODULE LimitedStream ----------------------------
(* Implementation-shaped model of werkzeug.wsgi.LimitedStream (io.RawIOBase subclass) used    *)
(* directly (no buffering wrapper), together with its environment: an underlying stream that  *)
(* hands out at most KMax bytes per call (any short read >= 1 while data is left, 0 at its    *)
(* end) and may raise OSError ErrBudget times.                                                 *)
(*                                                                                             *)
(* State like the code: pos = LimitedStream._pos; upos = bytes the underlying stream handed    *)
(* out.  Public calls: read(n) / readinto(bytearray(n)) / readinto(memoryview) are one         *)
(* LimitedStream.readinto call; readall (= read(), read(-1)), exhaust, readline(n), next,      *)
(* readlines() are loops of such calls exactly as io.RawIOBase / io.IOBase and the overriding  *)
(* readall implement them; the loops are small-step so every interleaving of environment       *)
(* choices is a distinct behaviour.                                                            *)
(*                                                                                             *)
(* Variant "fixed" = the code after the repairs; "f10" = temp-buffer assignment               *)
(* `b[:out_size] = temp_b` (caller's bytearray grows / memoryview ValueError, _pos not         *)
(* advanced); "trunc" = readall returning the truncated body at a maximum.  TLC checks that    *)
(* every completed call of "fixed" satisfies the contract LSContract!OpVerdict; the two other  *)
(* variants must violate it (non-vacuity).                                                     *)
EXTENDS LSContract, TLC, Json

CONSTANTS Datas, Limits, Modes, RIs, KMax, ErrBudget, MaxOps, Sizes, OpNames, Variant

VARIABLES c, upos, pos, errs, nops, cur, last, pst, cst, hist
vars == <<c, upos, pos, errs, nops, cur, last, pst, cst, hist>>
ViewNoHist == <<c, upos, pos, errs, nops, cur, last, pst, cst>>

Big == 65536
\* Variants "live" (= "fixed") and "spin" (readall does not leave its loop on a zero-byte read)
\* are for the liveness configs: the bookkeeping of underlying calls / history is switched off
\* there, so that the state space is finite without any bound on the loops.
Track == Variant \notin {"live", "spin"}
Ev(evs) == IF Track THEN evs ELSE <<>>
IdleRec == [op |-> "idle", n |-> 0, acc |-> <<>>, done |-> <<>>, cuts |-> <<>>, evs |-> <<>>]
Idle == cur.op = "idle"
NoLine == [op |-> "none"]

Rep(x, k) == [j \in 1..k |-> x]
ExcName(ret) == CASE ret = "CD" -> CD [] ret = "TL" -> TL [] ret = "HX" -> HX [] OTHER -> "ValueError"

\* Variants "hooks" / "hookspin": the scenario also ranges over subclasses overriding the documented
\* hooks (c.dq: on_disconnect returns normally; c.ex: on_exhausted default / quiet / raising its own
\* exception).  "hookspin" = a readall whose loop leaves on an empty read only when the limit is a
\* maximum: with a quiet on_disconnect it never terminates on a short body (LoopBound must fail).
HookVar == Variant \in {"hooks", "hookspin"}
\* what on_exhausted does: "ok" = returns normally
Exh == CASE c.ex = "quiet" -> "ok" [] c.ex = "raise" -> "HX" [] OTHER -> IF c.is_max THEN "TL" ELSE "ok"

MkLine(op, n, evs, rk, rb, rx, cuts, bafter, bn, p) ==
  [op |-> op, n |-> n, ev |-> evs, rk |-> rk, rb |-> rb, rx |-> rx, cuts |-> cuts,
   bafter |-> bafter, bn |-> bn, pos |-> p]
BytesLine(op, n, evs, rb, cuts, p) == MkLine(op, n, evs, "bytes", rb, "", cuts, <<>>, 0 - 1, p)
ExcLine(op, n, evs, ret, p) == MkLine(op, n, evs, "exc", <<>>, ExcName(ret), <<>>, <<>>, 0 - 1, p)

(* One call of LimitedStream.readinto with a buffer of `size` bytes: the set of outcomes the    *)
(* environment can produce.  ret: "ok" (k bytes), "CD" ClientDisconnected, "TL"                 *)
(* RequestEntityTooLarge, "VE" ValueError (variant f10 only).                                   *)
RI(size, mv) ==
  LET rem == c.limit - pos IN
  IF rem <= 0
  THEN {[ev |-> <<>>, ret |-> Exh, k |-> 0, dup |-> 0, derr |-> 0, grow |-> 0]}
  ELSE LET m     == Min2(size, rem)
           avail == Len(c.data) - upos
           temp  == c.hasri /\ size > rem            \* the temp-buffer branch
           gots  == IF avail <= 0 THEN {0} ELSE 1..Min2(Min2(m, avail), KMax)
       IN {LET short == Variant = "f10" /\ temp /\ g > 0 /\ g < rem IN
           [ev   |-> << <<m, g>> >>,
            ret  |-> IF g = 0 THEN (IF c.is_max \/ c.dq THEN "ok" ELSE "CD") ELSE IF short /\ mv THEN "VE" ELSE "ok",
            k    |-> IF short /\ mv THEN 0 ELSE g,
            dup  |-> g, derr |-> 0,
            grow |-> IF short /\ ~mv THEN rem - g ELSE 0] : g \in gots}
          \cup (IF errs < ErrBudget
                THEN {[ev |-> << <<m, 0 - 1>> >>, ret |-> IF c.dq THEN "ok" ELSE "CD", k |-> 0, dup |-> 0, derr |-> 1, grow |-> 0]}
                ELSE {})

Fin(ln) == /\ last' = ln /\ pst' = cst /\ cst' = OpNext(c, cst, ln) /\ hist' = IF Track THEN Append(hist, ln) ELSE hist
           /\ cur' = IdleRec /\ nops' = nops + 1
Cont(nc) == cur' = nc /\ UNCHANGED <<last, pst, cst, hist, nops>>
Env(o) == pos' = pos + o.k /\ upos' = upos + o.dup /\ errs' = errs + o.derr /\ c' = c
Handed(o) == SubSeq(c.data, upos + 1, upos + o.k)     \* the bytes the caller receives

Init == /\ c \in [data : Datas, limit : Limits, is_max : Modes, hasri : RIs, wrapper : {"raw"},
                  dq : IF HookVar THEN BOOLEAN ELSE {FALSE},
                  ex : IF HookVar THEN {"default", "quiet", "raise"} ELSE {"default"}]
        /\ upos = 0 /\ pos = 0 /\ errs = 0 /\ nops = 0 /\ cur = IdleRec
        /\ last = NoLine /\ pst = St0 /\ cst = St0 /\ hist = <<>>

\* read(n), readinto(bytearray(n)), readinto(memoryview(bytearray(n))): one readinto call
Single(op, n) ==
  /\ Idle /\ nops < MaxOps
  /\ \E o \in RI(n, op = "readinto_mv") :
       /\ Env(o)
       /\ LET into == op # "read"
              rb   == Handed(o)
          IN IF o.ret = "ok"
             THEN Fin(MkLine(op, n, Ev(o.ev), "bytes", rb, "", <<>>,
                             IF into THEN rb \o Rep(0, o.grow) \o Rep(FILL, n - o.k) ELSE <<>>,
                             IF into THEN o.k ELSE 0 - 1, pos + o.k))
             ELSE Fin(MkLine(op, n, Ev(o.ev), "exc", <<>>, ExcName(o.ret), <<>>,
                             IF into THEN Rep(FILL, n) ELSE <<>>, 0 - 1, pos + o.k))

Start(op, n) ==
  /\ Idle /\ nops < MaxOps
  /\ UNCHANGED <<c, upos, pos, errs>>
  /\ IF op \in {"readall", "exhaust"} /\ pos >= c.limit
     THEN IF op = "readall" /\ Exh # "ok" THEN Fin(ExcLine(op, n, <<>>, Exh, pos))
          ELSE Fin(BytesLine(op, n, <<>>, <<>>, <<>>, pos))
     ELSE Cont([op |-> op, n |-> n, acc |-> <<>>, done |-> <<>>, cuts |-> <<>>, evs |-> <<>>])

\* a line is complete inside readline / next / readlines
EndLine(line, evs, p) ==
  CASE cur.op = "readline" -> Fin(BytesLine("readline", cur.n, evs, line, <<>>, p))
    [] cur.op = "next" -> IF line = <<>> THEN Fin(MkLine("next", cur.n, evs, "stop", <<>>, "StopIteration", <<>>, <<>>, 0 - 1, p))
                          ELSE Fin(BytesLine("next", cur.n, evs, line, <<>>, p))
    [] OTHER -> IF line = <<>> THEN Fin(BytesLine("readlines", cur.n, evs, cur.done, cur.cuts, p))
                ELSE Cont([cur EXCEPT !.acc = <<>>, !.done = @ \o line, !.cuts = Append(@, Len(line)), !.evs = evs])

Step ==
  /\ ~Idle
  /\ IF cur.op \in {"readall", "exhaust"}
     THEN \E o \in RI(Big, FALSE) :
            /\ Env(o)
            /\ LET evs == Ev(cur.evs \o o.ev)
                   acc == cur.acc \o Handed(o)
                   p   == pos + o.k
               IN IF o.ret # "ok" THEN Fin(ExcLine(cur.op, cur.n, evs, o.ret, p))
                  ELSE IF o.k = 0 /\ Variant = "spin"                                         \* broken: no break
                       THEN Cont([cur EXCEPT !.cuts = IF @ = <<>> THEN <<0>> ELSE <<>>])
                  ELSE IF o.k = 0 /\ (Variant # "hookspin" \/ c.is_max)
                       THEN Fin(BytesLine(cur.op, cur.n, evs, acc, <<>>, p))                  \* break
                  ELSE IF p >= c.limit
                       THEN (IF c.is_max /\ Variant # "trunc" /\ Exh # "ok" THEN Fin(ExcLine(cur.op, cur.n, evs, Exh, p))
                             ELSE Fin(BytesLine(cur.op, cur.n, evs, acc, <<>>, p)))
                  ELSE Cont([cur EXCEPT !.acc = acc, !.evs = evs])
     ELSE \E o \in RI(1, FALSE) :                                       \* IOBase.readline: read(1) loop
            /\ Env(o)
            /\ LET evs == Ev(cur.evs \o o.ev)
                   acc == cur.acc \o Handed(o)
                   p   == pos + o.k
               IN IF o.ret # "ok" THEN Fin(ExcLine(cur.op, cur.n, evs, o.ret, p))
                  ELSE IF o.k = 0 THEN EndLine(acc, evs, p)
                  ELSE IF acc[Len(acc)] = LF \/ (cur.op = "readline" /\ cur.n > 0 /\ Len(acc) >= cur.n)
                       THEN EndLine(acc, evs, p)
                  ELSE Cont([cur EXCEPT !.acc = acc, !.evs = evs])

Next == \/ \E op \in OpNames \cap {"read", "readinto", "readinto_mv"} : \E n \in Sizes : Single(op, n)
        \/ \E op \in OpNames \cap {"readall", "exhaust", "next", "readlines"} : Start(op, 0 - 1)
        \/ \E n \in Sizes \cup {0 - 1} : "readline" \in OpNames /\ Start("readline", n)
        \/ Step

----------------------------------------------------------------------------
\* the property, on the model
Contract      == last.op = "none" \/ OpVerdict(c, pst, last) = "ok"
NoOverReadInv == upos <= c.limit /\ pos <= c.limit
PosEqualsUpos == pos = upos
LoopBound     == Len(cur.evs) <= c.limit + 2          \* every loop iteration advances or exits

\* liveness: every started read loop (readall, exhaust, readline, iteration, readlines) terminates
\* under weak fairness of the loop step, whatever the environment answers (>= 1 byte while data is
\* left, end of input, OSError).  Checked without any state constraint.
LiveSpec   == Init /\ [][Next]_vars /\ WF_vars(Step)
Terminates == [](~Idle => <>Idle)

\* spec -> code: the behaviours (scenario + complete call history incl. environment choices)
ExportHist == (Idle /\ nops = MaxOps) => PrintT(ToJson([c |-> c, hist |-> hist]))
=============================================================================
