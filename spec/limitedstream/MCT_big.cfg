CONSTANTS
  Variant = "fixed"
  Datas <- DatasB
  Limits = {0, 1, 4, 7, 8, 9, 12}
  Modes = {TRUE, FALSE}
  RIs = {TRUE, FALSE}
  KMax = 4
  ErrBudget = 2
  MaxOps = 4
  Sizes = {1, 2, 5, 12}
  OpNames = {"read", "readinto", "readinto_mv", "readall", "exhaust", "next", "readlines", "readline"}
INIT Init
NEXT Next
VIEW ViewNoHist
INVARIANT Contract
INVARIANT NoOverReadInv
INVARIANT PosEqualsUpos
INVARIANT LoopBound
