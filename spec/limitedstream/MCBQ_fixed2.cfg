CONSTANTS
  Variant = "fixed"
  Datas <- DatasQ
  Limits = {0, 2, 4, 6}
  Modes = {TRUE, FALSE}
  RIs = {TRUE, FALSE}
  BufSizes = {2, 3}
  KMax = 2
  ErrBudget = 1
  MaxOps = 2
  Sizes = {1, 3, 8}
  OpNames = {"read", "read1", "peek", "readall", "readline", "next", "readinto", "readinto1"}
INIT Init
NEXT Next
VIEW ViewNoHist
INVARIANT Contract
INVARIANT NoOverReadInv
INVARIANT Accounting
