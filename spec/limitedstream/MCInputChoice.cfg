INIT Init
NEXT NoNext
INVARIANT Export
INVARIANT EmptyWhenNoLength
INVARIANT NeverAboveMax
INVARIANT LimitedUnlessTerminatedOrUnsafe
INVARIANT MalformedIsZero
