------------------------- MODULE LimitedStreamTrace -------------------------
(* Trace judge for C09.  Input: ndjson, TRACE_FILE, one TLC state per line.                   *)
(*   cfg    : [t, op, data, limit, is_max, hasri, wrapper, bufsize, exp]                       *)
(*            exp = the lines the TLA+ model LimitedStream.tla predicted for this scenario     *)
(*            (spec -> code replay), <<>> for free-running traces                              *)
(*   call   : [t, i, op, n, ev, rk, rb, rx, cuts, bafter, bn, pos]   (see LSContract.tla)      *)
(*   choice : [t, i, op = "choice", has_cl, cl, chunked, terminated, max, safe, data, gx, ...] *)
(* Verdicts come from LSContract!OpVerdict / InputChoice!ChoiceVerdict only; a difference to  *)
(* the model's prediction is printed as drift, never as a reject.                              *)
EXTENDS LSContract, InputChoice, TLC, Json, IOUtils

Lines == ndJsonDeserialize(IOEnv.TRACE_FILE)

VARIABLES l, cfg, st
vars == <<l, cfg, st>>

SameAsModel(c, ln) ==
  \/ ln.i + 1 > Len(c.exp)
  \/ LET e == c.exp[ln.i + 1] IN
     /\ e.op = ln.op /\ e.n = ln.n /\ e.ev = ln.ev
     /\ e.rk = ln.rk /\ e.rb = ln.rb /\ e.rx = ln.rx /\ e.pos = ln.pos
     /\ e.cuts = ln.cuts /\ e.bafter = ln.bafter /\ e.bn = ln.bn

Init == l = 1 /\ cfg = [op |-> "none"] /\ st = St0

Next == /\ l <= Len(Lines)
        /\ LET line == Lines[l] IN
           IF line.op = "cfg"
           THEN cfg' = line /\ st' = St0
           ELSE IF line.op = "choice"
           THEN /\ cfg' = cfg /\ st' = st
                /\ LET v == ChoiceVerdict(line) IN
                   IF v = "ok" THEN TRUE
                   ELSE PrintT(ToJson([reject |-> 1, t |-> line.t, i |-> line.i, clause |-> v]))
           ELSE /\ cfg' = cfg
                /\ st' = OpNext(cfg, st, line)
                /\ LET v == OpVerdict(cfg, st, line) IN
                   IF v = "ok" THEN TRUE
                   ELSE PrintT(ToJson([reject |-> 1, t |-> line.t, i |-> line.i, clause |-> v]))
                /\ IF SameAsModel(cfg, line) THEN TRUE
                   ELSE PrintT(ToJson([drift |-> 1, t |-> line.t, i |-> line.i, what |-> "LimitedStream model predicted another outcome"]))
        /\ l' = l + 1

Done == PrintT(ToJson([judged |-> Len(Lines)])) /\ TLCGet("generated") >= 0
=============================================================================
