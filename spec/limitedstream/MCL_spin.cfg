CONSTANTS
  Variant = "spin"
  Datas <- DatasX
  Limits = {2, 4, 6}
  Modes = {TRUE, FALSE}
  RIs = {TRUE, FALSE}
  KMax = 2
  ErrBudget = 1
  MaxOps = 2
  Sizes = {2}
  OpNames = {"read", "readall", "exhaust", "next", "readlines", "readline"}
SPECIFICATION LiveSpec
PROPERTY Terminates
INVARIANT NoOverReadInv
INVARIANT PosEqualsUpos
