---- MODULE MCBufferedLS ----
EXTENDS BufferedLS
D4 == <<97, 10, 98, 99>>
D7 == <<97, 98, 10, 99, 100, 10, 101>>
D0 == <<>>
DatasQ == {D4}
DatasT == {D0, D4, D7}
DatasD == {D7}
====
