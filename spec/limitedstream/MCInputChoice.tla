---- MODULE MCInputChoice ----
(* Enumerates the input table of get_input_stream (spec -> code export) and checks the laws   *)
(* the property states on the table itself.                                                    *)
EXTENDS InputChoice, TLC, Json

\* CONTENT_LENGTH texts (code points): "3" " 3 " "03" "0" "-1" "-0" "abc" "" "+3" "3_0" "3.0" "1e1"
\* U+0663 (ARABIC-INDIC DIGIT THREE) U+FF13 (FULLWIDTH 3) U+00B3 (SUPERSCRIPT 3) "99999999999" "3 3" "0x3"
CLTexts == { <<51>>, <<32, 51, 32>>, <<48, 51>>, <<48>>, <<45, 49>>, <<45, 48>>, <<97, 98, 99>>, <<>>,
             <<43, 51>>, <<51, 95, 48>>, <<51, 46, 48>>, <<49, 101, 49>>, <<1635>>, <<65299>>, <<179>>,
             <<57, 57, 57, 57, 57, 57, 57, 57, 57, 57, 57>>, <<51, 32, 51>>, <<48, 120, 51>>, <<53>> }
Maxes == {NoLen, 0, 2, 3, 5}

VARIABLE in
Inputs == [has_cl : BOOLEAN, cl : CLTexts, chunked : BOOLEAN, terminated : BOOLEAN, max : Maxes, safe : BOOLEAN]
Init == in \in {x \in Inputs : x.has_cl \/ x.cl = <<>>}
NoNext == FALSE /\ UNCHANGED in

Export == PrintT(ToJson([in |-> in, kind |-> Expected(in).kind, limit |-> Expected(in).limit]))

\* laws of the documented table (property text)
EmptyWhenNoLength == (UsableLength(in) = NoLen /\ ~in.terminated /\ in.safe) => Expected(in).kind = "empty"
NeverAboveMax == (in.max # NoLen /\ Expected(in).kind \in {"length", "max"}) => Expected(in).limit <= in.max
LimitedUnlessTerminatedOrUnsafe ==
  Expected(in).kind = "input" => (in.terminated /\ in.max = NoLen) \/ (~in.safe /\ UsableLength(in) = NoLen)
MalformedIsZero == (in.has_cl /\ ~in.chunked /\ ~in.terminated /\ in.cl \in {<<97, 98, 99>>, <<>>, <<43, 51>>, <<1635>>, <<45, 49>>})
                   => Expected(in) = [kind |-> "length", limit |-> 0]
====
