CONSTANTS
  Variant = "fixed"
  Datas <- DatasX
  Limits = {2, 4, 6}
  Modes = {TRUE, FALSE}
  RIs = {TRUE, FALSE}
  KMax = 2
  ErrBudget = 1
  MaxOps = 3
  Sizes = {2, 8}
  OpNames = {"read", "readinto", "readinto_mv", "readall", "exhaust", "next", "readlines", "readline"}
INIT Init
NEXT Next
INVARIANT ExportHist
