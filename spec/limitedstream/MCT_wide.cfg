CONSTANTS
  Variant = "fixed"
  Datas <- DatasT
  Limits = {0, 3, 5, 7, 9}
  Modes = {TRUE, FALSE}
  RIs = {TRUE, FALSE}
  KMax = 3
  ErrBudget = 2
  MaxOps = 3
  Sizes = {1, 2, 4, 10}
  OpNames = {"read", "readinto", "readinto_mv", "readall", "exhaust", "next", "readlines", "readline"}
INIT Init
NEXT Next
VIEW ViewNoHist
INVARIANT Contract
INVARIANT NoOverReadInv
INVARIANT PosEqualsUpos
INVARIANT LoopBound
