CONSTANTS
  Variant = "hooks"
  Datas <- DatasQ
  Limits = {0, 2, 4, 6}
  Modes = {TRUE, FALSE}
  RIs = {TRUE}
  KMax = 2
  ErrBudget = 1
  MaxOps = 2
  Sizes = {1, 8}
  OpNames = {"read", "readinto", "readall", "exhaust", "next", "readlines", "readline"}
INIT Init
NEXT Next
VIEW ViewNoHist
INVARIANT Contract
INVARIANT NoOverReadInv
INVARIANT PosEqualsUpos
INVARIANT LoopBound
