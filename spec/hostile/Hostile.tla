------------------------------- MODULE Hostile -------------------------------
(* C07 -- no client-controlled text can crash request parsing.                               *)
(*                                                                                           *)
(* The specification contributes the two halves of the property that can be written down     *)
(* without being the implementation:                                                         *)
(*  (a) the HOSTILE INPUT SPACE: the domain of client-controlled text (RFC 9110 field-value  *)
(*      characters: SP, VCHAR and obs-text 0x80-0xFF, i.e. latin-1 without C0 controls and   *)
(*      DEL), per header family a token alphabet rich in separators, quotes, '=', '*', '%',  *)
(*      RFC 2231 markers, base64, dates, digits, brackets and high-bit bytes, the families'  *)
(*      token sequences (enumerated by TLC in MCHostile), grammar-generated number / instant *)
(*      neighbourhoods (GramTexts), single-character sweeps in                               *)
(*      contexts and pumped (long repetition) inputs; and which functions / environ slots    *)
(*      each family is fed to;                                                               *)
(*  (b) the OUTCOME CONTRACT: per function and per position (position 1 = the call, further  *)
(*      positions = uses of the returned object) the documented result signatures, and       *)
(*      Clause(): a value of a documented signature or a werkzeug HTTP exception with a 4xx  *)
(*      code; anything else is named NoUnrelatedException / DocumentedType / Terminates.     *)
(* Text is a sequence of code points.  Nothing here is transcribed from the implementation.  *)
EXTENDS Naturals, Sequences, FiniteSets, TLC, Bytes, HostileBody, HostileExt, HostileNum

(* ---- (a) domain ------------------------------------------------------------------------- *)
DomainChars == (32..126) \cup (128..255)
InDomain(s) == \A i \in 1..Len(s) : s[i] \in DomainChars

Families == <<"options", "ctype", "cond", "auth", "cookie", "url", "range", "date", "body", "accept", "ext">>

Tok_options == <<
  <<97>>,   \*  1  a
  <<116, 101, 120, 116, 47, 104, 116, 109, 108>>,   \*  2  text/html
  <<42, 47, 42>>,   \*  3  */*
  <<59>>,   \*  4  ;
  <<44>>,   \*  5  ,
  <<61>>,   \*  6  =
  <<34>>,   \*  7  "
  <<92>>,   \*  8  \
  <<32>>,   \*  9  SP
  <<42>>,   \* 10  *
  <<42, 48>>,   \* 11  *0
  <<42, 49>>,   \* 12  *1
  <<113, 61>>,   \* 13  q=
  <<48, 46, 53>>,   \* 14  0.5
  <<49>>,   \* 15  1
  <<45, 49>>,   \* 16  -1
  <<117, 116, 102, 45, 56, 39, 39>>,   \* 17  utf-8''
  <<39>>,   \* 18  '
  <<37, 67, 51, 37, 65, 57>>,   \* 19  %C3%A9
  <<37, 70, 70>>,   \* 20  %FF
  <<37>>,   \* 21  %
  <<233>>,   \* 22  \xE9
  <<255>>,   \* 23  \xFF
  <<128>>,   \* 24  \x80
  <<47>>,   \* 25  /
  <<109, 97, 120, 45, 97, 103, 101>>,   \* 26  max-age
  <<110, 111, 45, 99, 97, 99, 104, 101>>,   \* 27  no-cache
  <<98, 32, 99>>    \* 28  bSPc
>>
Ctx_options == <<
  <<<<>>, <<>>>>,   \*  _ 
  <<<<97, 59>>, <<61, 98>>>>,   \* a; _ =b
  <<<<97, 59, 98, 61>>, <<>>>>,   \* a;b= _ 
  <<<<97, 59, 98, 61, 34>>, <<34>>>>,   \* a;b=" _ "
  <<<<97, 59, 98, 42, 61, 117, 116, 102, 45, 56, 39, 39>>, <<>>>>,   \* a;b*=utf-8'' _ 
  <<<<97, 44>>, <<59, 113, 61, 49>>>>    \* a, _ ;q=1
>>

Tok_ctype == <<
  <<109, 117, 108, 116, 105, 112, 97, 114, 116, 47, 102, 111, 114, 109, 45, 100, 97, 116, 97>>,   \*  1  multipart/form-data
  <<97, 112, 112, 108, 105, 99, 97, 116, 105, 111, 110, 47, 120, 45, 119, 119, 119, 45, 102, 111, 114, 109, 45, 117, 114, 108, 101, 110, 99, 111, 100, 101, 100>>,   \*  2  application/x-www-form-urlencoded
  <<97, 112, 112, 108, 105, 99, 97, 116, 105, 111, 110, 47, 106, 115, 111, 110>>,   \*  3  application/json
  <<116, 101, 120, 116, 47, 112, 108, 97, 105, 110>>,   \*  4  text/plain
  <<59>>,   \*  5  ;
  <<32>>,   \*  6  SP
  <<98, 111, 117, 110, 100, 97, 114, 121, 61>>,   \*  7  boundary=
  <<98, 111, 117, 110, 100, 97, 114, 121>>,   \*  8  boundary
  <<98>>,   \*  9  b
  <<99, 104, 97, 114, 115, 101, 116, 61>>,   \* 10  charset=
  <<99, 104, 97, 114, 115, 101, 116>>,   \* 11  charset
  <<117, 116, 102, 45, 56>>,   \* 12  utf-8
  <<98, 111, 103, 117, 115>>,   \* 13  bogus
  <<34>>,   \* 14  "
  <<61>>,   \* 15  =
  <<42>>,   \* 16  *
  <<42, 48>>,   \* 17  *0
  <<42, 61>>,   \* 18  *=
  <<117, 116, 102, 45, 56, 39, 39>>,   \* 19  utf-8''
  <<37>>,   \* 20  %
  <<233>>,   \* 21  \xE9
  <<255>>,   \* 22  \xFF
  <<44>>,   \* 23  ,
  <<47>>,   \* 24  /
  <<43, 106, 115, 111, 110>>,   \* 25  +json
  <<92>>    \* 26  \
>>
Ctx_ctype == <<
  <<<<>>, <<>>>>,   \*  _ 
  <<<<109, 117, 108, 116, 105, 112, 97, 114, 116, 47, 102, 111, 114, 109, 45, 100, 97, 116, 97, 59, 32, 98, 111, 117, 110, 100, 97, 114, 121, 61>>, <<>>>>,   \* multipart/form-data;SPboundary= _ 
  <<<<116, 101, 120, 116, 47, 112, 108, 97, 105, 110, 59, 32, 99, 104, 97, 114, 115, 101, 116, 61>>, <<>>>>,   \* text/plain;SPcharset= _ 
  <<<<97, 112, 112, 108, 105, 99, 97, 116, 105, 111, 110, 47, 106, 115, 111, 110, 59, 32>>, <<61, 120>>>>    \* application/json;SP _ =x
>>

Tok_cond == <<
  <<87, 47>>,   \*  1  W/
  <<34>>,   \*  2  "
  <<97>>,   \*  3  a
  <<42>>,   \*  4  *
  <<44>>,   \*  5  ,
  <<32>>,   \*  6  SP
  <<98, 121, 116, 101, 115>>,   \*  7  bytes
  <<61>>,   \*  8  =
  <<45>>,   \*  9  -
  <<47>>,   \* 10  /
  <<48>>,   \* 11  0
  <<49>>,   \* 12  1
  <<57>>,   \* 13  9
  <<57, 57, 57, 57, 57, 57, 57, 57, 57, 57, 57, 57, 57, 57, 57, 57, 57, 57, 57, 57>>,   \* 14  99999999999999999999
  <<77, 111, 110, 44, 32, 48, 49, 32, 74, 97, 110, 32, 50, 48, 50, 52, 32, 48, 48, 58, 48, 48, 58, 48, 48, 32, 71, 77, 84>>,   \* 15  Mon,SP01SPJanSP2024SP00:00:00SPGMT
  <<77, 111, 110, 44>>,   \* 16  Mon,
  <<48, 49>>,   \* 17  01
  <<74, 97, 110>>,   \* 18  Jan
  <<50, 48, 50, 52>>,   \* 19  2024
  <<57, 57, 57, 57, 57, 57, 57, 57>>,   \* 20  99999999
  <<48, 48, 58, 48, 48, 58, 48, 48>>,   \* 21  00:00:00
  <<50, 53, 58, 54, 49, 58, 54, 49>>,   \* 22  25:61:61
  <<71, 77, 84>>,   \* 23  GMT
  <<43, 48, 48, 48, 48>>,   \* 24  +0000
  <<45, 57, 57, 57, 57>>,   \* 25  -9999
  <<43, 57, 57, 53, 57>>,   \* 26  +9959
  <<233>>,   \* 27  \xE9
  <<255>>,   \* 28  \xFF
  <<92>>,   \* 29  \
  <<58>>,   \* 30  :
  <<178>>,   \* 31  \xB2
  <<95>>,   \* 32  _
  <<43>>    \* 33  +
>>
Ctx_cond == <<
  <<<<>>, <<>>>>,   \*  _ 
  <<<<34>>, <<34>>>>,   \* " _ "
  <<<<87, 47>>, <<>>>>,   \* W/ _ 
  <<<<98, 121, 116, 101, 115, 61>>, <<45>>>>,   \* bytes= _ -
  <<<<98, 121, 116, 101, 115, 32, 48, 45, 49, 47>>, <<>>>>,   \* bytesSP0-1/ _ 
  <<<<77, 111, 110, 44, 32, 48, 49, 32, 74, 97, 110, 32, 50, 48, 50, 52, 32, 48, 48, 58, 48, 48, 58, 48>>, <<32, 71, 77, 84>>>>,   \* Mon,SP01SPJanSP2024SP00:00:0 _ SPGMT
  <<<<49>>, <<>>>>    \* 1 _ 
>>

Tok_auth == <<
  <<66, 97, 115, 105, 99>>,   \*  1  Basic
  <<68, 105, 103, 101, 115, 116>>,   \*  2  Digest
  <<66, 101, 97, 114, 101, 114>>,   \*  3  Bearer
  <<32>>,   \*  4  SP
  <<81, 81, 61, 61>>,   \*  5  QQ==
  <<89, 84, 112, 105>>,   \*  6  YTpi
  <<119, 54, 107, 61>>,   \*  7  w6k=
  <<54, 81, 61, 61>>,   \*  8  6Q==
  <<61>>,   \*  9  =
  <<97>>,   \* 10  a
  <<44>>,   \* 11  ,
  <<34>>,   \* 12  "
  <<114, 101, 97, 108, 109>>,   \* 13  realm
  <<42>>,   \* 14  *
  <<117, 116, 102, 45, 56, 39, 39>>,   \* 15  utf-8''
  <<37, 67, 51, 37, 65, 57>>,   \* 16  %C3%A9
  <<37, 70, 70>>,   \* 17  %FF
  <<233>>,   \* 18  \xE9
  <<255>>,   \* 19  \xFF
  <<58>>,   \* 20  :
  <<92>>,   \* 21  \
  <<59>>,   \* 22  ;
  <<45>>,   \* 23  -
  <<95>>,   \* 24  _
  <<47>>,   \* 25  /
  <<43>>,   \* 26  +
  <<81>>    \* 27  Q
>>
Ctx_auth == <<
  <<<<>>, <<>>>>,   \*  _ 
  <<<<66, 97, 115, 105, 99, 32>>, <<>>>>,   \* BasicSP _ 
  <<<<66, 97, 115, 105, 99, 32, 81, 81>>, <<61>>>>,   \* BasicSPQQ _ =
  <<<<68, 105, 103, 101, 115, 116, 32, 114, 101, 97, 108, 109, 61>>, <<>>>>,   \* DigestSPrealm= _ 
  <<<<68, 105, 103, 101, 115, 116, 32, 114, 101, 97, 108, 109, 61, 34>>, <<34>>>>,   \* DigestSPrealm=" _ "
  <<<<66, 101, 97, 114, 101, 114, 32>>, <<>>>>    \* BearerSP _ 
>>

Tok_cookie == <<
  <<97>>,   \*  1  a
  <<98>>,   \*  2  b
  <<61>>,   \*  3  =
  <<59>>,   \*  4  ;
  <<32>>,   \*  5  SP
  <<34>>,   \*  6  "
  <<92>>,   \*  7  \
  <<48>>,   \*  8  0
  <<55>>,   \*  9  7
  <<51>>,   \* 10  3
  <<92, 48, 55, 51>>,   \* 11  \073
  <<92, 51, 48, 51, 92, 50, 53, 49>>,   \* 12  \303\251
  <<92, 51, 55, 55>>,   \* 13  \377
  <<92, 52>>,   \* 14  \4
  <<233>>,   \* 15  \xE9
  <<255>>,   \* 16  \xFF
  <<195, 169>>,   \* 17  \xC3\xA9
  <<195>>,   \* 18  \xC3
  <<37, 67, 51, 37, 65, 57>>,   \* 19  %C3%A9
  <<44>>,   \* 20  ,
  <<36>>,   \* 21  $
  <<128>>    \* 22  \x80
>>
Ctx_cookie == <<
  <<<<>>, <<>>>>,   \*  _ 
  <<<<97, 61>>, <<>>>>,   \* a= _ 
  <<<<97, 61, 34>>, <<34>>>>,   \* a=" _ "
  <<<<>>, <<61, 98>>>>,   \*  _ =b
  <<<<97, 61, 34, 92>>, <<34>>>>    \* a="\ _ "
>>

Tok_url == <<
  <<108, 111, 99, 97, 108, 104, 111, 115, 116>>,   \*  1  localhost
  <<97>>,   \*  2  a
  <<46>>,   \*  3  .
  <<58>>,   \*  4  :
  <<56, 48>>,   \*  5  80
  <<97, 98, 99>>,   \*  6  abc
  <<91>>,   \*  7  [
  <<93>>,   \*  8  ]
  <<58, 58, 49>>,   \*  9  ::1
  <<120, 110, 45, 45>>,   \* 10  xn--
  <<120, 110, 45, 45, 97>>,   \* 11  xn--a
  <<99, 111, 109>>,   \* 12  com
  <<233>>,   \* 13  \xE9
  <<255>>,   \* 14  \xFF
  <<195, 169>>,   \* 15  \xC3\xA9
  <<37>>,   \* 16  %
  <<37, 67, 51, 37, 65, 57>>,   \* 17  %C3%A9
  <<37, 70, 70>>,   \* 18  %FF
  <<37, 50>>,   \* 19  %2
  <<38>>,   \* 20  &
  <<61>>,   \* 21  =
  <<43>>,   \* 22  +
  <<59>>,   \* 23  ;
  <<47>>,   \* 24  /
  <<63>>,   \* 25  ?
  <<35>>,   \* 26  #
  <<64>>,   \* 27  @
  <<32>>,   \* 28  SP
  <<44>>,   \* 29  ,
  <<48>>,   \* 30  0
  <<57, 57, 57, 57, 57>>,   \* 31  99999
  <<45>>,   \* 32  -
  <<95>>,   \* 33  _
  <<223>>,   \* 34  \xDF
  <<181>>    \* 35  \xB5
>>
Ctx_url == <<
  <<<<>>, <<>>>>,   \*  _ 
  <<<<108, 111, 99, 97, 108, 104, 111, 115, 116, 58>>, <<>>>>,   \* localhost: _ 
  <<<<91>>, <<93>>>>,   \* [ _ ]
  <<<<97, 61>>, <<38, 98>>>>,   \* a= _ &b
  <<<<37>>, <<>>>>,   \* % _ 
  <<<<120, 110, 45, 45>>, <<46, 99, 111, 109>>>>,   \* xn-- _ .com
  <<<<97, 46>>, <<46, 98>>>>    \* a. _ .b
>>

Tok_range == <<
  <<98, 121, 116, 101, 115, 61>>,   \*  1  bytes=
  <<98, 121, 116, 101, 115, 32>>,   \*  2  bytesSP
  <<45>>,   \*  3  -
  <<44>>,   \*  4  ,
  <<47>>,   \*  5  /
  <<42>>,   \*  6  *
  <<48>>,   \*  7  0
  <<49>>,   \*  8  1
  <<52>>,   \*  9  4
  <<53>>,   \* 10  5
  <<57>>,   \* 11  9
  <<49, 48>>,   \* 12  10
  <<32>>,   \* 13  SP
  <<105, 116, 101, 109, 115, 61>>,   \* 14  items=
  <<45, 45>>,   \* 15  --
  <<48, 48>>,   \* 16  00
  <<178>>    \* 17  \xB2
>>
Ctx_range == <<
  <<<<>>, <<>>>>,   \*  _ 
  <<<<98, 121, 116, 101, 115, 61>>, <<45>>>>,   \* bytes= _ -
  <<<<98, 121, 116, 101, 115, 61, 48, 45>>, <<>>>>,   \* bytes=0- _ 
  <<<<98, 121, 116, 101, 115, 61, 45>>, <<>>>>,   \* bytes=- _ 
  <<<<98, 121, 116, 101, 115, 32, 48, 45, 49, 47>>, <<>>>>,   \* bytesSP0-1/ _ 
  <<<<98, 121, 116, 101, 115, 32, 48, 45>>, <<47, 50>>>>,   \* bytesSP0- _ /2
  <<<<98, 121, 116, 101, 115, 61, 48, 45, 49, 44>>, <<45, 51>>>>    \* bytes=0-1, _ -3
>>

Tok_date == <<
  <<77, 111, 110, 44, 32>>,   \*  1  Mon,SP
  <<48, 49, 32>>,   \*  2  01SP
  <<51, 49, 32>>,   \*  3  31SP
  <<74, 97, 110, 32>>,   \*  4  JanSP
  <<68, 101, 99, 32>>,   \*  5  DecSP
  <<48, 48, 48, 49, 32>>,   \*  6  0001SP
  <<57, 57, 57, 57, 32>>,   \*  7  9999SP
  <<50, 48, 50, 52, 32>>,   \*  8  2024SP
  <<48, 48, 58, 48, 48, 58, 48, 48>>,   \*  9  00:00:00
  <<50, 51, 58, 53, 57, 58, 53, 57>>,   \* 10  23:59:59
  <<32, 43, 48, 48, 48, 49>>,   \* 11  SP+0001
  <<32, 45, 48, 48, 48, 49>>,   \* 12  SP-0001
  <<32, 71, 77, 84>>,   \* 13  SPGMT
  <<32, 69, 83, 84>>,   \* 14  SPEST
  <<50, 52, 58, 48, 48, 58, 48, 48>>,   \* 15  24:00:00
  <<50, 51, 58, 53, 57, 58, 54, 48>>,   \* 16  23:59:60
  <<49, 48, 48, 48, 48, 32>>,   \* 17  10000SP
  <<48, 48, 48, 48, 32>>,   \* 18  0000SP
  <<32, 43, 50, 51, 53, 57>>,   \* 19  SP+2359
  <<32, 45, 50, 51, 53, 57>>,   \* 20  SP-2359
  <<32, 90>>,   \* 21  SPZ
  <<32, 85, 84>>,   \* 22  SPUT
  <<32, 80, 83, 84>>,   \* 23  SPPST
  <<48, 48, 32>>,   \* 24  00SP
  <<70, 101, 98, 32>>    \* 25  FebSP
>>
Ctx_date == <<
  <<<<>>, <<>>>>,   \*  _ 
  <<<<77, 111, 110, 44, 32, 48, 49, 32, 74, 97, 110, 32, 50, 48, 50, 52, 32, 48, 48, 58, 48, 48, 58, 48>>, <<32, 71, 77, 84>>>>,   \* Mon,SP01SPJanSP2024SP00:00:0 _ SPGMT
  <<<<77, 111, 110, 44, 32, 48, 49, 32, 74, 97, 110, 32, 50, 48, 50, 52, 32, 48, 48, 58, 48, 48, 58, 48, 48, 32>>, <<>>>>,   \* Mon,SP01SPJanSP2024SP00:00:00SP _ 
  <<<<77, 111, 110, 44, 32, 48, 49, 32, 74, 97, 110, 32, 48, 48, 48>>, <<32, 48, 48, 58, 48, 48, 58, 48, 48, 32, 43, 48, 48, 48, 49>>>>,   \* Mon,SP01SPJanSP000 _ SP00:00:00SP+0001
  <<<<77, 111, 110, 44, 32, 51, 49, 32, 68, 101, 99, 32, 57, 57, 57>>, <<32, 50, 51, 58, 53, 57, 58, 53, 57, 32, 45, 48, 48, 48, 49>>>>,   \* Mon,SP31SPDecSP999 _ SP23:59:59SP-0001
  <<<<77, 111, 110, 44, 32, 48, 49, 32, 74, 97, 110, 32, 50, 48, 50, 52, 32, 48, 48, 58, 48, 48, 58, 48, 48, 32, 43, 48, 48, 48>>, <<>>>>    \* Mon,SP01SPJanSP2024SP00:00:00SP+000 _ 
>>

T_bytesEq == <<98, 121, 116, 101, 115, 61>>   \* bytes=
T_bytesSp == <<98, 121, 116, 101, 115, 32>>   \* bytesSP
T_dash == <<45>>   \* -
T_comma == <<44>>   \* ,
T_slash == <<47>>   \* /
T_star == <<42>>   \* *
T_wkday == <<77, 111, 110, 44, 32>>   \* Mon,SP
T_sp == <<32>>   \* SP
DateYears == {<<48, 48, 48, 48>>, <<48, 48, 48, 49>>, <<48, 48, 48, 50>>, <<49, 57, 54, 57>>, <<49, 57, 55, 48>>, <<50, 48, 50, 52>>, <<57, 57, 57, 56>>, <<57, 57, 57, 57>>, <<49, 48, 48, 48, 48>>, <<48, 48>>, <<54, 57>>, <<57, 57>>}   \* 0000 | 0001 | 0002 | 1969 | 1970 | 2024 | 9998 | 9999 | 10000 | 00 | 69 | 99
DateEdges == {<<<<48, 49, 32, 74, 97, 110>>, <<48, 48, 58, 48, 48, 58, 48, 48>>>>, <<<<51, 49, 32, 68, 101, 99>>, <<50, 51, 58, 53, 57, 58, 53, 57>>>>}   \* first / last second of the year
DateOddDays == {<<48, 48, 32, 74, 97, 110>>, <<51, 50, 32, 74, 97, 110>>, <<50, 57, 32, 70, 101, 98>>, <<51, 48, 32, 70, 101, 98>>, <<51, 49, 32, 65, 112, 114>>, <<48, 49, 32, 70, 111, 111>>, <<49, 32, 74, 97, 110>>, <<48, 48, 32, 48, 48>>}   \* 00SPJan | 32SPJan | 29SPFeb | 30SPFeb | 31SPApr | 01SPFoo | 1SPJan | 00SP00
DateOddTimes == {<<50, 52, 58, 48, 48, 58, 48, 48>>, <<50, 51, 58, 53, 57, 58, 54, 48>>, <<50, 51, 58, 54, 48, 58, 48, 48>>, <<48, 48, 58, 48, 48>>, <<48, 48, 58, 48, 48, 58, 48, 48, 46, 53>>, <<57, 57, 58, 57, 57, 58, 57, 57>>, <<45, 49, 58, 48, 48, 58, 48, 48>>, <<48, 48, 58, 48, 48, 58, 45, 49>>}   \* 24:00:00 | 23:59:60 | 23:60:00 | 00:00 | 00:00:00.5 | 99:99:99 | -1:00:00 | 00:00:-1
DateZones == {<<>>, <<32, 71, 77, 84>>, <<32, 85, 84>>, <<32, 90>>, <<32, 69, 83, 84>>, <<32, 69, 68, 84>>, <<32, 80, 83, 84>>, <<32, 65>>, <<32, 43, 48, 48, 48, 48>>, <<32, 45, 48, 48, 48, 48>>, <<32, 43, 48, 48, 48, 49>>, <<32, 45, 48, 48, 48, 49>>, <<32, 43, 49, 52, 48, 48>>, <<32, 45, 49, 50, 48, 48>>, <<32, 43, 50, 51, 53, 57>>, <<32, 45, 50, 51, 53, 57>>, <<32, 43, 50, 52, 48, 48>>, <<32, 45, 50, 52, 48, 48>>, <<32, 43, 57, 57, 53, 57>>, <<32, 48, 48, 48, 48>>, <<32, 43, 48, 48, 58, 48, 49>>}   \* (empty) | SPGMT | SPUT | SPZ | SPEST | SPEDT | SPPST | SPA | SP+0000 | SP-0000 | SP+0001 | SP-0001 | SP+1400 | SP-1200 | SP+2359 | SP-2359 | SP+2400 | SP-2400 | SP+9959 | SP0000 | SP+00:01

Tok_accept == <<
  <<101, 110, 45, 85, 83>>,   \*  1  en-US
  <<59, 113, 61, 48>>,   \*  2  ;q=0
  <<44>>,   \*  3  ,
  <<101, 110>>,   \*  4  en
  <<100, 101>>,   \*  5  de
  <<32>>,   \*  6  SP
  <<59, 113, 61, 48, 46, 48>>,   \*  7  ;q=0.0
  <<100, 101, 45, 65, 84>>,   \*  8  de-AT
  <<42>>,   \*  9  *
  <<59, 113, 61, 48, 46, 48, 48, 48>>,   \* 10  ;q=0.000
  <<59, 113, 61, 48, 46, 53>>,   \* 11  ;q=0.5
  <<101, 110, 95, 103, 98>>,   \* 12  en_gb
  <<122, 104, 45, 72, 97, 110, 115, 45, 67, 78>>,   \* 13  zh-Hans-CN
  <<59, 113, 61, 49>>,   \* 14  ;q=1
  <<59>>,   \* 15  ;
  <<113, 61>>,   \* 16  q=
  <<116, 101, 120, 116, 47, 104, 116, 109, 108>>,   \* 17  text/html
  <<116, 101, 120, 116, 47, 42>>,   \* 18  text/*
  <<42, 47, 42>>,   \* 19  */*
  <<117, 116, 102, 45, 56>>,   \* 20  utf-8
  <<108, 97, 116, 105, 110, 49>>,   \* 21  latin1
  <<103, 122, 105, 112>>,   \* 22  gzip
  <<45>>,   \* 23  -
  <<95>>,   \* 24  _
  <<85, 83>>,   \* 25  US
  <<59, 108, 101, 118, 101, 108, 61, 49>>,   \* 26  ;level=1
  <<233>>,   \* 27  \xE9
  <<59, 113, 61, 48, 46, 48, 48, 49>>,   \* 28  ;q=0.001
  <<59, 113, 61, 45, 48>>,   \* 29  ;q=-0
  <<59, 113, 61, 48, 48>>    \* 30  ;q=00
>>
Ctx_accept == <<
  <<<<>>, <<>>>>,   \*  _ 
  <<<<101, 110, 45>>, <<59, 113, 61, 48, 44, 32, 101, 110>>>>,   \* en- _ ;q=0,SPen
  <<<<101, 110, 45, 85, 83, 59, 113, 61, 48>>, <<44, 32, 101, 110>>>>,   \* en-US;q=0 _ ,SPen
  <<<<101, 110, 45, 85, 83, 59, 113, 61>>, <<44, 32, 100, 101>>>>,   \* en-US;q= _ ,SPde
  <<<<116, 101, 120, 116, 47>>, <<59, 113, 61, 48, 44, 32, 116, 101, 120, 116, 47, 42>>>>    \* text/ _ ;q=0,SPtext/*
>>

Toks(fam) == CASE fam = "options" -> Tok_options [] fam = "ctype" -> Tok_ctype [] fam = "cond" -> Tok_cond
               [] fam = "auth" -> Tok_auth [] fam = "cookie" -> Tok_cookie [] fam = "url" -> Tok_url
               [] fam = "range" -> Tok_range [] fam = "date" -> Tok_date [] fam = "body" -> Tok_body
               [] fam = "accept" -> Tok_accept [] fam = "ext" -> Tok_ext
Ctxs(fam) == CASE fam = "options" -> Ctx_options [] fam = "ctype" -> Ctx_ctype [] fam = "cond" -> Ctx_cond
               [] fam = "auth" -> Ctx_auth [] fam = "cookie" -> Ctx_cookie [] fam = "url" -> Ctx_url
               [] fam = "range" -> Ctx_range [] fam = "date" -> Ctx_date [] fam = "body" -> Ctx_body
               [] fam = "accept" -> Ctx_accept [] fam = "ext" -> Ctx_ext

\* Slots that parse what a sweep context surrounds: the sweep texts of context k always go to CtxTargets(fam)[k]
\* (in the quick tier the other slots of the family get a seeded sample only).  <<>> = no particular slot.
CtxTargets(fam) ==
  CASE fam = "url"   -> << <<>>, <<"HOST">>, <<"HOST">>, <<"QUERY_STRING">>, <<"QUERY_STRING", "PATH_INFO">>, <<"HOST">>, <<"HOST">> >>
    [] fam = "cond"  -> << <<>>, <<"IF_MATCH", "IF_NONE_MATCH", "IF_RANGE">>, <<"IF_NONE_MATCH">>, <<"RANGE">>, <<>>,
                           <<"IF_MODIFIED_SINCE", "IF_UNMODIFIED_SINCE", "IF_RANGE", "DATE">>, <<"CONTENT_LENGTH", "MAX_FORWARDS">> >>
    [] fam = "range" -> << <<>>, <<"RANGE">>, <<"RANGE">>, <<"RANGE">>, <<>>, <<>>, <<"RANGE">> >>
    [] fam = "date"  -> << <<>>, <<"IF_MODIFIED_SINCE", "DATE">>, <<"IF_UNMODIFIED_SINCE", "IF_RANGE">>, <<"IF_MODIFIED_SINCE">>, <<"DATE">>, <<"IF_RANGE">> >>
    [] fam = "ctype" -> << <<>>, <<"CONTENT_TYPE_MP">>, <<"CONTENT_TYPE_URL">>, <<"CONTENT_TYPE_JSON">> >>
    [] fam = "auth"  -> [k \in 1..Len(Ctxs(fam)) |-> <<"AUTHORIZATION">>]
    [] fam = "cookie" -> [k \in 1..Len(Ctxs(fam)) |-> <<"COOKIE">>]
    [] OTHER -> [k \in 1..Len(Ctxs(fam)) |-> <<>>]

\* text of a sequence of token indices
RECURSIVE TextOf(_, _)
TextOf(fam, seq) == IF seq = <<>> THEN <<>> ELSE Toks(fam)[Head(seq)] \o TextOf(fam, Tail(seq))

\* single character c in context k
SweepText(fam, k, c) == Ctxs(fam)[k][1] \o <<c>> \o Ctxs(fam)[k][2]

\* token j repeated until the text is about n characters long, in context k
RECURSIVE Rep(_, _)
Rep(tok, m) == IF m = 0 THEN <<>> ELSE IF m = 1 THEN tok
               ELSE LET h == Rep(tok, m \div 2) IN IF m % 2 = 0 THEN h \o h ELSE h \o h \o tok
PumpText(fam, k, j, n) == LET tok == Toks(fam)[j] IN Ctxs(fam)[k][1] \o Rep(tok, n \div Len(tok)) \o Ctxs(fam)[k][2]

(* ---- numeric / instant grammars ----------------------------------------------------------- *)
(* Token sequences rarely put two numbers next to each other in a *chosen relation*.  For the   *)
(* families whose grammar has numeric positions the texts below are generated from the grammar: *)
(* every numeric position takes, relative to its left neighbour n, the values n-1, n, n+1 (and  *)
(* absent), so that decreasing, equal and adjacent pairs all occur; plus very long digit runs.  *)
RECURSIVE Dig(_)
Dig(n) == IF n < 10 THEN <<48 + n>> ELSE Dig(n \div 10) \o <<48 + (n % 10)>>
Near(n) == (IF n > 0 THEN {n - 1} ELSE {}) \cup {n, n + 1}
RangeBases == {0, 1, 5, 10}
LongRuns == {Rep(<<57>>, 20), Rep(<<57>>, 5000), <<49>> \o Rep(<<48>>, 400)}

\* one range-spec: first-last with last around first, open ended, suffix, and a doubled dash
RangeSpecs == UNION {{Dig(a) \o T_dash \o Dig(b) : b \in Near(a)} : a \in RangeBases}
         \cup {Dig(a) \o T_dash : a \in RangeBases \cup {9}}
         \cup {T_dash \o Dig(n) : n \in {0, 1, 5}}
         \cup {Dig(a) \o T_dash \o T_dash \o Dig(1) : a \in {0, 5}}
\* two range-specs: the second starts around the end (and the start) of the first
RangePairs == UNION {UNION {UNION {{Dig(a) \o T_dash \o Dig(b) \o T_comma \o Dig(c) \o T_dash \o Dig(d) : d \in Near(c)} :
                                       c \in Near(a) \cup Near(b) \cup {b + 7}} : b \in {a, a + 3}} : a \in {0, 5}}
          \cup {s \o T_comma \o t : s \in {T_dash \o Dig(1), Dig(5) \o T_dash}, t \in {Dig(0) \o T_dash \o Dig(3), T_dash \o Dig(0)}}
RangeTexts == {T_bytesEq \o s : s \in RangeSpecs \cup RangePairs}
         \cup {T_bytesEq \o r \o T_dash : r \in LongRuns} \cup {T_bytesEq \o Dig(0) \o T_dash \o r : r \in LongRuns}
         \cup {T_bytesEq \o T_dash \o r : r \in LongRuns}

\* Content-Range: first-last/length with last around first and length around last, unknown parts
ContentRangeTexts ==
       UNION {UNION {{T_bytesSp \o Dig(a) \o T_dash \o Dig(b) \o T_slash \o l :
                        l \in {Dig(n) : n \in Near(b) \cup {b + 2, 10}} \cup {T_star}} : b \in Near(a)} : a \in RangeBases}
  \cup {T_bytesSp \o T_star \o T_slash \o l : l \in {Dig(0), Dig(1), T_star}}
  \cup {T_bytesSp \o Dig(0) \o T_dash \o Dig(0) \o T_slash \o Dig(0)}
  \cup {T_bytesSp \o r \o T_dash \o r \o T_slash \o r : r \in LongRuns}
  \cup {T_bytesSp \o Dig(0) \o T_dash \o r \o T_slash \o T_star : r \in LongRuns}

\* instants: the first and the last second of boundary years, and out-of-range day / time fields, each with every zone
DateTexts ==
       {T_wkday \o e[1] \o T_sp \o y \o T_sp \o e[2] \o z : e \in DateEdges, y \in DateYears, z \in DateZones}
  \cup {e[1] \o T_sp \o y \o T_sp \o e[2] \o z : e \in DateEdges, y \in {<<48, 48, 48, 49>>, <<57, 57, 57, 57>>}, z \in DateZones}
  \cup {T_wkday \o d \o T_sp \o <<50, 48, 50, 52>> \o T_sp \o <<48, 48, 58, 48, 48, 58, 48, 48>> \o z : d \in DateOddDays, z \in DateZones}
  \cup {T_wkday \o <<48, 49, 32, 74, 97, 110>> \o T_sp \o y \o T_sp \o t \o z : t \in DateOddTimes, y \in {<<48, 48, 48, 49>>, <<57, 57, 57, 57>>}, z \in DateZones}

\* Accept grammar: lists of one or two elements `range[;q=..]`; the q set contains every spelling of a refusal,
\* the range sets contain a tag, its regional variants, its primary tag / generalisations and aliases
AccLangTags == {<<101, 110>>, <<101, 110, 45, 85, 83>>, <<101, 110, 95, 103, 98>>, <<100, 101>>, <<100, 101, 45, 65, 84>>, <<42>>}   \* en | en-US | en_gb | de | de-AT | *
AccLangQ == {<<>>, <<59, 113, 61, 48>>, <<59, 113, 61, 48, 46, 48>>, <<59, 113, 61, 48, 46, 48, 48, 48>>, <<59, 113, 61, 48, 46, 53>>}   \* (none) | ;q=0 | ;q=0.0 | ;q=0.000 | ;q=0.5
AccMimeTags == {<<116, 101, 120, 116, 47, 104, 116, 109, 108>>, <<116, 101, 120, 116, 47, 42>>, <<42, 47, 42>>, <<97, 112, 112, 108, 105, 99, 97, 116, 105, 111, 110, 47, 106, 115, 111, 110>>, <<116, 101, 120, 116, 47, 104, 116, 109, 108, 59, 108, 101, 118, 101, 108, 61, 49>>}   \* text/html | text/* | */* | application/json | text/html;level=1
AccQ == {<<>>, <<59, 113, 61, 48>>, <<59, 113, 61, 48, 46, 53>>}   \* (none) | ;q=0 | ;q=0.5
AccCharsetTags == {<<117, 116, 102, 45, 56>>, <<117, 116, 102, 56>>, <<108, 97, 116, 105, 110, 49>>, <<105, 115, 111, 45, 56, 56, 53, 57, 45, 49>>, <<42>>}   \* utf-8 | utf8 | latin1 | iso-8859-1 | *
AccEncTags == {<<103, 122, 105, 112>>, <<98, 114>>, <<105, 100, 101, 110, 116, 105, 116, 121>>, <<42>>}   \* gzip | br | identity | *
T_commaSp == <<44, 32>>
AccElems(tags, qs) == {t \o q : t \in tags, q \in qs}
AccLists(E) == E \cup {a \o T_comma \o b : a \in E, b \in E}
AcceptTexts == AccLists(AccElems(AccLangTags, AccLangQ)) \cup AccLists(AccElems(AccMimeTags, AccQ))
          \cup AccLists(AccElems(AccCharsetTags, AccQ)) \cup AccLists(AccElems(AccEncTags, AccQ))
          \cup {a \o T_commaSp \o b \o T_commaSp \o c : a \in AccElems({<<101, 110, 45, 85, 83>>}, AccLangQ), b \in AccElems({<<101, 110>>, <<100, 101>>}, {<<>>, <<59, 113, 61, 48>>}), c \in AccElems({<<100, 101, 45, 65, 84>>, <<42>>}, {<<>>, <<59, 113, 61, 48>>})}

GramTexts(fam) == CASE fam = "range" -> RangeTexts \cup ContentRangeTexts
                    [] fam = "date" -> DateTexts
                    [] fam = "accept" -> AcceptTexts
                    [] fam = "ext" -> ExtTexts             \* HostileExt: RFC 2231 / 8187 extended parameters
                    [] fam = "body" -> BodyCTypeTexts      \* HostileBody: CONTENT_TYPE grammar of the body family
                    [] OTHER -> {}

\* which pure functions and which environ slots of a Request a family is fed to
FamFns(fam) ==
  CASE fam = "options" -> <<"parse_options_header", "parse_list_header", "parse_dict_header", "parse_set_header",
                            "parse_accept_header", "parse_accept_header[MIMEAccept]", "parse_cache_control_header",
                            "parse_cache_control_header[ResponseCacheControl]", "parse_csp_header", "unquote_header_value">>
    [] fam = "ctype"   -> <<"parse_options_header", "parse_dict_header">>
    [] fam = "cond"    -> <<"parse_etags", "parse_range_header", "parse_content_range_header", "parse_if_range_header",
                            "parse_date", "parse_age", "unquote_etag">>
    [] fam = "auth"    -> <<"Authorization.from_header", "WWWAuthenticate.from_header", "parse_dict_header">>
    [] fam = "cookie"  -> <<"parse_cookie", "parse_cookie[environ]">>
    [] fam = "url"     -> <<"parse_list_header", "wsgi.get_host", "wsgi.get_current_url">>
    [] fam = "range"   -> <<"parse_range_header", "parse_content_range_header", "parse_if_range_header", "parse_age">>
    [] fam = "date"    -> <<"parse_date", "parse_if_range_header">>
    [] fam = "body"    -> <<"parse_options_header">>
    [] fam = "ext"     -> <<"parse_options_header", "parse_dict_header", "parse_accept_header">>
    [] fam = "accept"  -> <<"parse_accept_header", "parse_accept_header[MIMEAccept]", "parse_accept_header[LanguageAccept]",
                            "parse_accept_header[CharsetAccept]">>
FamSlots(fam) ==
  CASE fam = "options" -> <<"ACCEPT", "ACCEPT_CHARSET", "ACCEPT_ENCODING", "ACCEPT_LANGUAGE", "CACHE_CONTROL", "PRAGMA",
                            "ACR_HEADERS", "ALL_HEADERS">>
    [] fam = "ctype"   -> <<"CONTENT_TYPE_URL", "CONTENT_TYPE_MP", "CONTENT_TYPE_JSON", "CONTENT_TYPE_GET">>
    [] fam = "cond"    -> <<"IF_MATCH", "IF_NONE_MATCH", "IF_MODIFIED_SINCE", "IF_UNMODIFIED_SINCE", "IF_RANGE", "RANGE",
                            "DATE", "MAX_FORWARDS", "CONTENT_LENGTH">>
    [] fam = "auth"    -> <<"AUTHORIZATION">>
    [] fam = "cookie"  -> <<"COOKIE">>
    [] fam = "url"     -> <<"HOST", "QUERY_STRING", "PATH_INFO", "X_FORWARDED_FOR", "REFERER", "ORIGIN", "USER_AGENT",
                            "ACR_METHOD", "CONTENT_ENCODING", "CONTENT_MD5", "ALL_HEADERS">>
    [] fam = "range"   -> <<"RANGE", "IF_RANGE", "CONTENT_LENGTH", "MAX_FORWARDS">>
    [] fam = "date"    -> <<"IF_MODIFIED_SINCE", "IF_UNMODIFIED_SINCE", "IF_RANGE", "DATE">>
    [] fam = "accept"  -> <<"ACCEPT", "ACCEPT_CHARSET", "ACCEPT_ENCODING", "ACCEPT_LANGUAGE">>
    \* ext: also the header values of a multipart part, function "RequestPart" (see PartSlots)
    [] fam = "ext"     -> <<"CONTENT_TYPE_URL", "CONTENT_TYPE_MP", "ACCEPT", "ACCEPT_LANGUAGE">>
    [] fam = "body"    -> <<>>   \* the body family's texts are the CONTENT_TYPE of function "RequestBody" (see BodySlots)
Slots == {"HOST", "COOKIE", "AUTHORIZATION", "ACCEPT", "ACCEPT_CHARSET", "ACCEPT_ENCODING", "ACCEPT_LANGUAGE", "CACHE_CONTROL",
          "PRAGMA", "IF_MATCH", "IF_NONE_MATCH", "IF_MODIFIED_SINCE", "IF_UNMODIFIED_SINCE", "IF_RANGE", "RANGE", "DATE",
          "MAX_FORWARDS", "X_FORWARDED_FOR", "USER_AGENT", "REFERER", "ORIGIN", "CONTENT_ENCODING", "CONTENT_MD5", "ACR_HEADERS",
          "ACR_METHOD", "CONTENT_LENGTH", "QUERY_STRING", "PATH_INFO", "CONTENT_TYPE_URL", "CONTENT_TYPE_MP",
          "CONTENT_TYPE_JSON", "CONTENT_TYPE_GET", "ALL_HEADERS"}

(* ---- (b) outcome contract ----------------------------------------------------------------- *)
(* A recorded signature is a sequence <<head, elem, ...>>: the type name of the value and, for *)
(* containers, the distinct signatures of what they contain ("k:v" for mappings).  A position  *)
(* is `core` when the property statement names it (the parser call, membership / quality /     *)
(* best_match of the Accept classes, the lazily converting accessors, every Request attribute) *)
(* and not core when it is a further use recorded for information (serialisers), which can     *)
(* never produce a verdict.                                                                    *)
V(name, core, heads) == [n |-> name, core |-> core, h |-> heads, e |-> {}]
C(name, core, heads, elems) == [n |-> name, core |-> core, h |-> heads, e |-> elems]

None == "NoneType"
OptStr == {"str", None}
OptInt == {"int", None}
QItem == {"tuple[str,int]", "tuple[str,float]"}
StrMap == {"str:str"}
OptMap == {"str:str", "str:NoneType"}

(* Offers derived from the header under test (recorder rule, harness/hostile.py derive_offers): every range of the  *)
(* text, its primary tag, regional variants x-YY / x_yy, for MIME its type/* and */* generalisations, charset aliases, *)
(* and one unrelated offer (invalid mimetype offers are left out: they are a documented ValueError for the developer).  *)
(* Positions: membership and quality of each offer; best_match of every singleton, every ordered pair and the full     *)
(* list, and with a default.                                                                                           *)
DerivedUses ==
  << C("derived.contains", TRUE, {"list"}, {"bool"}), C("derived.quality", TRUE, {"list"}, {"int", "float"}),
     C("derived.best_match_singletons", TRUE, {"list"}, OptStr), C("derived.best_match_pairs", TRUE, {"list"}, OptStr),
     V("derived.best_match_full", TRUE, OptStr), C("derived.best_match_default", TRUE, {"list"}, {"str"}) >>
DerivedAll(n) == C(n, TRUE, {"list"}, {"bool", "int", "float", "str", None})

AcceptUses ==
  << C("iter", TRUE, {"list"}, QItem), C("contains", TRUE, {"list"}, {"bool"}), C("quality", TRUE, {"list"}, {"int", "float"}),
     C("getitem", TRUE, {"list"}, {"int", "float"} \cup QItem), C("find", TRUE, {"list"}, {"int"}),
     V("best_match", TRUE, OptStr), V("best_match_default", TRUE, {"str"}), V("best", TRUE, OptStr),
     C("values", TRUE, {"list"}, {"str"}), V("to_header", FALSE, {"str"}), V("str", FALSE, {"str"}) >> \o DerivedUses


AuthUses ==
  << V("type", TRUE, {"str"}), V("token", TRUE, OptStr) >>

CCBool(n) == V(n, TRUE, {"bool"})
CCInt(n) == V(n, TRUE, OptInt)

RequestPositions ==
  << V("call", TRUE, {"Request"}),
     V("method", TRUE, {"str"}), V("scheme", TRUE, {"str"}), V("server", TRUE, {"tuple[str,int]", "tuple[str,NoneType]", None}),
     V("root_path", TRUE, {"str"}), V("path", TRUE, {"str"}), V("query_string", TRUE, {"bytes"}), V("remote_addr", TRUE, OptStr),
     C("headers", TRUE, {"list"}, {"tuple[str,str]"}),
     C("args", TRUE, {"ImmutableMultiDict"}, StrMap),
     V("url", TRUE, {"str"}), V("base_url", TRUE, {"str"}), V("url_root", TRUE, {"str"}), V("host_url", TRUE, {"str"}),
     V("root_url", TRUE, {"str"}), V("host", TRUE, {"str"}), V("full_path", TRUE, {"str"}), V("script_root", TRUE, {"str"}),
     V("is_secure", TRUE, {"bool"}), C("cookies", TRUE, {"ImmutableMultiDict"}, StrMap),
     V("content_type", TRUE, OptStr), V("content_length", TRUE, OptInt), V("content_encoding", TRUE, OptStr),
     V("content_md5", TRUE, OptStr), V("referrer", TRUE, OptStr), V("date", TRUE, {"datetime", None}),
     V("max_forwards", TRUE, OptInt), V("origin", TRUE, OptStr), V("mimetype", TRUE, {"str"}),
     C("mimetype_params", TRUE, {"dict"}, StrMap), V("is_json", TRUE, {"bool"}),
     V("pragma", TRUE, {"HeaderSet"}), V("pragma.to_header", FALSE, {"str"}),
     C("accept_mimetypes", TRUE, {"MIMEAccept"}, QItem), V("accept_mimetypes.best_match", TRUE, OptStr),
     V("accept_mimetypes.to_header", FALSE, {"str"}), DerivedAll("accept_mimetypes.derived"),
     C("accept_charsets", TRUE, {"CharsetAccept"}, QItem), V("accept_charsets.best_match", TRUE, OptStr), DerivedAll("accept_charsets.derived"),
     C("accept_encodings", TRUE, {"Accept"}, QItem), V("accept_encodings.best_match", TRUE, OptStr), DerivedAll("accept_encodings.derived"),
     C("accept_languages", TRUE, {"LanguageAccept"}, QItem), V("accept_languages.best_match", TRUE, OptStr), DerivedAll("accept_languages.derived"),
     C("cache_control", TRUE, {"RequestCacheControl"}, OptMap), V("cache_control.max_age", TRUE, OptInt),
     V("cache_control.max_stale", TRUE, {"int", "bool", None}),
     V("if_match", TRUE, {"ETags"}), V("if_match.to_header", FALSE, {"str"}),
     V("if_none_match", TRUE, {"ETags"}), V("if_none_match.contains", TRUE, {"bool"}),
     V("if_modified_since", TRUE, {"datetime", None}), V("if_unmodified_since", TRUE, {"datetime", None}),
     V("if_range", TRUE, {"IfRange"}), V("if_range.to_header", FALSE, {"str"}),
     V("range", TRUE, {"Range", None}), V("range.range_for_length", FALSE, {"tuple[int,int]", None}),
     V("range.to_header", FALSE, OptStr),
     V("user_agent", TRUE, {"UserAgent"}), V("user_agent.string", TRUE, {"str"}), V("user_agent.to_header", FALSE, {"str"}),
     V("authorization", TRUE, {"Authorization", None}), V("authorization.to_header", FALSE, OptStr),
     V("authorization.username", TRUE, OptStr),
     C("access_route", TRUE, {"ImmutableList"}, {"str"}),
     V("access_control_request_headers", TRUE, {"HeaderSet", None}), V("access_control_request_method", TRUE, OptStr),
     V("want_form_data_parsed", TRUE, {"bool"}), V("stream", TRUE, {"LimitedStream", "BytesIO"}),
     C("form", TRUE, {"ImmutableMultiDict"}, StrMap), C("files", TRUE, {"ImmutableMultiDict"}, {"str:FileStorage"}),
     C("values", TRUE, {"CombinedMultiDict"}, StrMap), V("data", TRUE, {"bytes"}),
     V("get_data", TRUE, {"bytes"}), V("get_data_text", TRUE, {"str"}),
     C("get_json_silent", TRUE, {"dict", None}, {"str:list[int|str]"}), C("get_json", TRUE, {"dict"}, {"str:list[int|str]"}),
     C("json", TRUE, {"dict"}, {"str:list[int|str]"}),
     V("make_form_data_parser", FALSE, {"FormDataParser"}), V("repr", FALSE, {"str"}), V("close", FALSE, {None}) >>

(* The body family: function "RequestBody" builds a Request whose CONTENT_TYPE is the hostile text, whose   *)
(* body is one of HostileBody!Bodies and whose CONTENT_LENGTH is one of the variants (slot = "body|variant"). *)
(* Documented behaviour per body-derived attribute: form / files / values -- the form parser is silent: a    *)
(* malformed body gives empty multi dicts (ValueError is swallowed by design), limits give 413; data /       *)
(* get_data -- bytes (str with as_text, decoded with replacement); get_json / json -- any JSON value, 415    *)
(* when the mimetype is not JSON, 400 when the document cannot be decoded; stream.read -- bytes, 400         *)
(* ClientDisconnected when the body is shorter than CONTENT_LENGTH; content_length -- int, None without the   *)
(* header, 0 for a malformed / negative value; mimetype -- lower-cased str; mimetype_params -- dict[str,str]. *)
JsonHeads == {"dict", "list", "str", "int", "float", "bool", None}
BodyMap == {"str:str"}
RequestBodyPositions ==
  [w \in 1..Len(RequestPositions) |->
     IF RequestPositions[w].n \in {"get_json_silent", "get_json", "json"} THEN C(RequestPositions[w].n, TRUE, JsonHeads, {"*"})
     ELSE RequestPositions[w]] \o
  << V("fresh.stream.read", TRUE, {"bytes"}), V("fresh.get_data", TRUE, {"bytes"}), V("fresh.get_data_text", TRUE, {"str"}),
     C("fresh.get_json_force", TRUE, JsonHeads, {"*"}), C("fresh.get_json_force_silent", TRUE, JsonHeads, {"*"}),
     C("fresh.files", TRUE, {"ImmutableMultiDict"}, {"str:FileStorage"}), C("fresh.values", TRUE, {"CombinedMultiDict"}, BodyMap),
     C("fresh.read_then_form", TRUE, {"ImmutableMultiDict"}, BodyMap), V("fresh.close", TRUE, {None}),
     C("files.read", FALSE, {"list"}, {"bytes"}), C("files.names", FALSE, {"list"}, OptStr),
     C("files.mimetype_params", FALSE, {"list"}, {"dict[]", "dict[str:str]"}), C("files.content_length", FALSE, {"list"}, {"int"}) >>

(* Function "RequestPart": a multipart/form-data request with one part whose Content-Disposition (slot DISPOSITION)  *)
(* or Content-Type (slot PART_TYPE, a file part) header value is the hostile text.  form / files / values are the     *)
(* Request attributes (silent parser: a malformed part gives empty multi dicts); the FileStorage attributes that      *)
(* parse the part's Content-Type lazily are recorded but are not Request attributes (never a verdict).                *)
PartSlots == {"DISPOSITION", "PART_TYPE"}
RequestPartPositions ==
  << V("call", TRUE, {"Request"}), C("files", TRUE, {"ImmutableMultiDict"}, {"str:FileStorage"}),
     C("form", TRUE, {"ImmutableMultiDict"}, BodyMap), C("values", TRUE, {"CombinedMultiDict"}, BodyMap),
     C("files.names", FALSE, {"list"}, OptStr), C("files.mimetype_params", FALSE, {"list"}, {"dict[]", "dict[str:str]"}),
     C("files.headers", FALSE, {"list"}, {"tuple[str,str]"}) >>

BodySlots == {Bodies[i][1] \o "|" \o CLNames[j] : i \in 1..Len(Bodies), j \in 1..Len(CLNames)}

Table ==
  "parse_options_header" :> << V("call", TRUE, {"tuple[str,dict[]]", "tuple[str,dict[str:str]]"}) >> @@
  "parse_list_header" :> << C("call", TRUE, {"list"}, {"str"}) >> @@
  "parse_dict_header" :> << C("call", TRUE, {"dict"}, OptMap) >> @@
  "parse_set_header" :> << V("call", TRUE, {"HeaderSet"}), C("iter", TRUE, {"list"}, {"str"}), V("contains", TRUE, {"bool"}),
                           V("len", TRUE, {"int"}), V("find", TRUE, {"int"}), C("as_set", TRUE, {"set"}, {"str"}),
                           V("to_header", FALSE, {"str"}) >> @@
  "parse_accept_header" :> << C("call", TRUE, {"Accept"}, QItem) >> \o AcceptUses @@
  "parse_accept_header[MIMEAccept]" :> << C("call", TRUE, {"MIMEAccept"}, QItem) >> \o AcceptUses
                                        \o << V("accept_flags", TRUE, {"tuple[bool,bool,bool]"}) >> @@
  "parse_accept_header[LanguageAccept]" :> << C("call", TRUE, {"LanguageAccept"}, QItem) >> \o AcceptUses @@
  "parse_accept_header[CharsetAccept]" :> << C("call", TRUE, {"CharsetAccept"}, QItem) >> \o AcceptUses @@
  "parse_cache_control_header" :>
     << C("call", TRUE, {"RequestCacheControl"}, OptMap), CCBool("no_cache"), CCBool("no_store"), CCInt("max_age"),
        CCBool("no_transform"), V("max_stale", TRUE, {"int", "bool", None}), CCInt("min_fresh"), CCBool("only_if_cached"),
        V("to_header", FALSE, {"str"}), V("str", FALSE, {"str"}) >> @@
  "parse_cache_control_header[ResponseCacheControl]" :>
     << C("call", TRUE, {"ResponseCacheControl"}, OptMap), V("no_cache", TRUE, {"str", "bool", None}), CCBool("no_store"),
        CCInt("max_age"), CCBool("no_transform"), CCBool("public"), V("private", TRUE, {"str", "bool", None}),
        CCBool("must_revalidate"), CCBool("proxy_revalidate"), CCInt("s_maxage"), CCBool("immutable"),
        CCBool("must_understand"), CCInt("stale_while_revalidate"), CCInt("stale_if_error"), V("to_header", FALSE, {"str"}) >> @@
  "parse_csp_header" :> << C("call", TRUE, {"ContentSecurityPolicy"}, StrMap), V("default_src", TRUE, OptStr),
                           V("script_src", TRUE, OptStr), C("items", TRUE, {"dict"}, StrMap), V("to_header", FALSE, {"str"}) >> @@
  "parse_etags" :> << V("call", TRUE, {"ETags"}), C("iter", TRUE, {"list"}, {"str"}), V("contains", TRUE, {"bool"}),
                      V("contains_weak", TRUE, {"bool"}), V("contains_raw", TRUE, {"bool"}), V("is_weak", TRUE, {"bool"}),
                      V("is_strong", TRUE, {"bool"}), C("as_set", TRUE, {"set"}, {"str"}), V("star_tag", TRUE, {"bool"}),
                      V("bool", TRUE, {"bool"}), V("to_header", FALSE, {"str"}) >> @@
  "parse_range_header" :> << V("call", TRUE, {"Range", None}), V("units", TRUE, {"str"}),
                             C("ranges", TRUE, {"list"}, {"tuple[int,int]", "tuple[int,NoneType]"}),
                             V("range_for_length", FALSE, {"tuple[int,int]", None}), V("range_for_length_none", FALSE, {None}),
                             V("make_content_range", FALSE, {"ContentRange", None}), V("to_header", FALSE, {"str"}),
                             V("to_content_range_header", FALSE, OptStr) >> @@
  "parse_content_range_header" :> << V("call", TRUE, {"ContentRange", None}), V("units", TRUE, OptStr), V("start", TRUE, OptInt),
                                     V("stop", TRUE, OptInt), V("length", TRUE, OptInt), V("to_header", FALSE, {"str"}) >> @@
  "parse_if_range_header" :> << V("call", TRUE, {"IfRange"}), V("etag", TRUE, OptStr), V("date", TRUE, {"datetime", None}),
                                V("to_header", FALSE, {"str"}) >> @@
  "parse_date" :> << V("call", TRUE, {"datetime", None}), V("utcoffset", TRUE, {"timedelta"}), V("http_date", FALSE, {"str"}) >> @@
  "parse_age" :> << V("call", TRUE, {"timedelta", None}), V("dump_age", FALSE, {"str"}) >> @@
  "parse_cookie" :> << C("call", TRUE, {"MultiDict"}, StrMap), C("to_dict", FALSE, {"dict"}, StrMap) >> @@
  "parse_cookie[environ]" :> << C("call", TRUE, {"MultiDict"}, StrMap) >> @@
  "Authorization.from_header" :>
     << V("call", TRUE, {"Authorization", None}) >> \o AuthUses \o
     << C("parameters", TRUE, {"dict"}, OptMap), V("username", TRUE, OptStr), V("password", TRUE, OptStr), V("realm", TRUE, OptStr),
        V("contains", TRUE, {"bool"}), V("to_header", FALSE, {"str"}), V("str", FALSE, {"str"}) >> @@
  "WWWAuthenticate.from_header" :>
     << V("call", TRUE, {"WWWAuthenticate", None}) >> \o AuthUses \o
     << C("parameters", TRUE, {"CallbackDict", "dict"}, OptMap), V("realm", TRUE, OptStr), V("algorithm", TRUE, OptStr),
        V("qop", TRUE, OptStr), V("stale", TRUE, OptStr), V("nonce", TRUE, OptStr), V("opaque", TRUE, OptStr),
        V("domain", TRUE, OptStr), V("contains", TRUE, {"bool"}), V("get", TRUE, OptStr),
        V("to_header", FALSE, {"str"}), V("str", FALSE, {"str"}) >> @@
  "unquote_etag" :> << V("call", TRUE, {"tuple[str,bool]", "tuple[NoneType,NoneType]"}) >> @@
  "unquote_header_value" :> << V("call", TRUE, {"str"}) >> @@
  "wsgi.get_host" :> << V("call", TRUE, {"str"}) >> @@             \* environ with HTTP_HOST = text
  "wsgi.get_current_url" :> << V("call", TRUE, {"str"}) >> @@
  "Request" :> RequestPositions @@
  "RequestBody" :> RequestBodyPositions @@
  "RequestPart" :> RequestPartPositions

Fns == DOMAIN Table

\* kd: 0 value, 1 other exception, 2 CPU-time budget exhausted, 3 not executed, otherwise the code of a werkzeug HTTPException
\* ty: signature of the value, or <<exception class name>>.  first = <<kd, ty>> of position 1.
Clause(fn, w, kd, ty, kd1, ty1) ==
  LET p == Table[fn][w] IN
  IF kd = 0 THEN (IF Len(ty) >= 1 /\ ty[1] \in p.h /\ ("*" \in p.e \/ \A k \in 2..Len(ty) : ty[k] \in p.e) THEN "ok" ELSE "DocumentedType")
  ELSE IF kd = 1 THEN "NoUnrelatedException"
  ELSE IF kd = 2 THEN "Terminates"
  ELSE IF kd = 3 THEN (IF w > 1 /\ (kd1 # 0 \/ ty1 = <<None>>) THEN "ok" ELSE "MalformedTraceLine")
  ELSE IF kd >= 400 /\ kd <= 499 THEN "ok"
  ELSE "OnlyClientErrorResponses"

TableWellFormed ==
  /\ \A p \in TargetPairs : p[1] \in (Fns \ {"Request", "RequestBody", "RequestPart"}) \cup Slots
  /\ \A i \in 1..Len(Families) : /\ Len(CtxTargets(Families[i])) = Len(Ctxs(Families[i]))
                                 /\ \A k \in 1..Len(Ctxs(Families[i])) : \A j \in 1..Len(CtxTargets(Families[i])[k]) :
                                        \E m \in 1..Len(FamSlots(Families[i])) : FamSlots(Families[i])[m] = CtxTargets(Families[i])[k][j]
  /\ \A fn \in Fns : Len(Table[fn]) >= 1 /\ Table[fn][1].n = "call" /\ Table[fn][1].core
  /\ \A i \in 1..Len(Families) : /\ \A k \in 1..Len(FamFns(Families[i])) : FamFns(Families[i])[k] \in Fns \ {"Request", "RequestBody", "RequestPart"}
                                 /\ \A k \in 1..Len(FamSlots(Families[i])) : FamSlots(Families[i])[k] \in Slots
  /\ \A fn \in Fns \ {"Request", "RequestBody", "RequestPart"} : \E i \in 1..Len(Families) : \E k \in 1..Len(FamFns(Families[i])) : FamFns(Families[i])[k] = fn
  /\ \A sl \in Slots : \E i \in 1..Len(Families) : \E k \in 1..Len(FamSlots(Families[i])) : FamSlots(Families[i])[k] = sl
  /\ \A i \in 1..Len(Families) : /\ \A k \in 1..Len(Toks(Families[i])) : Toks(Families[i])[k] # <<>> /\ InDomain(Toks(Families[i])[k])
                                 /\ \A k \in 1..Len(Ctxs(Families[i])) : InDomain(Ctxs(Families[i])[k][1] \o Ctxs(Families[i])[k][2])
=============================================================================
