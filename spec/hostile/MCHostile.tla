------------------------------ MODULE MCHostile ------------------------------
(* Enumeration of the hostile input space of Hostile.tla by TLC, and its export to the driver. *)
(*  mode "seq"   : every sequence of at most FullLen tokens of a family, and every sequence of  *)
(*                 at most MaxLen tokens among the family's first CoreToks tokens (one state   *)
(*                 each)                                                                        *)
(*  mode "sweep" : every domain character in every context of the family                       *)
(*  mode "pump"  : every token repeated to about PumpLen characters in every context           *)
(*  mode "pump2" : every ordered pair of distinct tokens among the first Pump2Toks, repeated to *)
(*                 about Pump2Len characters, in every context                                 *)
(*  mode "gram"  : every text of the family's numeric / instant grammar (Hostile!GramTexts);   *)
(*                 the state variable seq holds the text itself                                *)
(*  mode "target": every pair of Hostile!TargetPairs; fam holds the target (function or slot), *)
(*                 seq the text                                                                *)
(*  mode "table" : the families' token tables and function / slot lists (for the seeded driver)*)
(* Invariants: every generated text is in the domain of the property and within the bounds.    *)
EXTENDS Hostile, Json

CONSTANTS Fams, FullLen, MaxLen, CoreToks, PumpLen, Pump2Toks, Pump2Len, Modes

VARIABLES mode, fam, seq, k, c
vars == <<mode, fam, seq, k, c>>

FamSet == {Families[i] : i \in 1..Len(Families)} \cap Fams
IsCore(sq) == \A i \in 1..Len(sq) : sq[i] <= CoreToks

Init ==
  \/ /\ "seq" \in Modes /\ mode = "seq" /\ fam \in FamSet /\ seq = <<>> /\ k = 0 /\ c = 0
  \/ /\ "sweep" \in Modes /\ mode = "sweep" /\ fam \in FamSet /\ seq = <<>> /\ k \in 1..Len(Ctxs(fam)) /\ c \in DomainChars
  \/ /\ "pump" \in Modes /\ mode = "pump" /\ fam \in FamSet /\ seq = <<>> /\ k \in 1..Len(Ctxs(fam)) /\ c \in 1..Len(Toks(fam))
  \/ /\ "pump2" \in Modes /\ mode = "pump2" /\ fam \in FamSet /\ k \in 1..Len(Ctxs(fam)) /\ c = 0
     /\ seq \in {<<a, b>> : a \in 1..Min2(Pump2Toks, Len(Toks(fam))), b \in 1..Min2(Pump2Toks, Len(Toks(fam)))} /\ seq[1] # seq[2]
  \/ /\ "gram" \in Modes /\ mode = "gram" /\ fam \in FamSet /\ seq \in GramTexts(fam) /\ k = 0 /\ c = 0
  \/ /\ "target" \in Modes /\ mode = "target" /\ k = 0 /\ c = 0 /\ \E p \in TargetPairs : fam = p[1] /\ seq = p[2]
  \/ /\ "table" \in Modes /\ mode = "table" /\ fam \in FamSet /\ seq = <<>> /\ k = 0 /\ c = 0

Next == /\ mode = "seq" /\ Len(seq) < MaxLen
        /\ \E j \in 1..Len(Toks(fam)) : /\ (Len(seq) < FullLen \/ (j <= CoreToks /\ IsCore(seq)))
                                          /\ seq' = Append(seq, j)
        /\ UNCHANGED <<mode, fam, k, c>>

Text == CASE mode = "seq" -> TextOf(fam, seq)
          [] mode = "sweep" -> SweepText(fam, k, c)
          [] mode \in {"gram", "target"} -> seq
          [] mode = "pump" -> PumpText(fam, k, c, PumpLen)
          [] mode = "pump2" -> LET unit == TextOf(fam, seq) IN Ctxs(fam)[k][1] \o Rep(unit, Pump2Len \div Len(unit)) \o Ctxs(fam)[k][2]
          [] OTHER -> <<>>

MaxTokLen == 33
ASSUME TokLenBound == \A i \in 1..Len(Families) : \A j \in 1..Len(Toks(Families[i])) : Len(Toks(Families[i])[j]) <= MaxTokLen
ASSUME ContractTable == TableWellFormed

TextInDomain == InDomain(Text)
TextBounded == CASE mode = "seq" -> Len(Text) <= MaxLen * MaxTokLen
                 [] mode \in {"gram", "target"} -> Len(Text) <= 16000
                 [] mode = "sweep" -> Len(Text) <= 64
                 [] mode = "pump" -> Len(Text) <= PumpLen + 64 /\ Len(Text) >= PumpLen \div 2
                 [] mode = "pump2" -> Len(Text) <= Pump2Len + 64 /\ Len(Text) >= Pump2Len \div 2
                 [] OTHER -> TRUE

BodyTable == [i \in 1..Len(Bodies) |->
               [name |-> Bodies[i][1], kind |-> Bodies[i][2], bytes |-> Bodies[i][3], canon |-> CanonicalCType(Bodies[i][2]),
                cls |-> [j \in 1..Len(CLNames) |-> [name |-> CLNames[j], present |-> CLPresent(CLNames[j]),
                                                    text |-> CLText(CLNames[j], Len(Bodies[i][3]))]]]]
Export == IF mode = "table" /\ fam = "body"
          THEN PrintT(ToJson([table |-> fam, toks |-> Toks(fam), fns |-> FamFns(fam), slots |-> FamSlots(fam), ctxt |-> CtxTargets(fam), bodies |-> BodyTable]))
          ELSE IF mode = "table"
          THEN PrintT(ToJson([table |-> fam, toks |-> Toks(fam), fns |-> FamFns(fam), slots |-> FamSlots(fam), ctxt |-> CtxTargets(fam)]))
          ELSE PrintT(ToJson([fam |-> fam, mode |-> mode, len |-> Len(seq), k |-> k, s |-> Text]))
=============================================================================
