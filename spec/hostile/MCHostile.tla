------------------------------ MODULE MCHostile ------------------------------
(* Enumeration of the hostile input space of Hostile.tla by TLC, and its export to the driver. *)
(*  mode "seq"   : every sequence of at most MaxLen tokens of a family (one state each; the    *)
(*                 token indices are restricted to 1..CoreToks when CoreToks > 0)              *)
(*  mode "sweep" : every domain character in every context of the family                       *)
(*  mode "pump"  : every token repeated to about PumpLen characters in every context           *)
(*  mode "table" : the families' token tables and function / slot lists (for the seeded driver)*)
(* Invariants: every generated text is in the domain of the property and within the bounds.    *)
EXTENDS Hostile, Json

CONSTANTS Fams, MaxLen, CoreToks, PumpLen, Modes

VARIABLES mode, fam, seq, k, c
vars == <<mode, fam, seq, k, c>>

FamSet == {Families[i] : i \in 1..Len(Families)} \cap Fams
NTok(f) == IF CoreToks > 0 THEN Min2(CoreToks, Len(Toks(f))) ELSE Len(Toks(f))

Init ==
  \/ /\ "seq" \in Modes /\ mode = "seq" /\ fam \in FamSet /\ seq = <<>> /\ k = 0 /\ c = 0
  \/ /\ "sweep" \in Modes /\ mode = "sweep" /\ fam \in FamSet /\ seq = <<>> /\ k \in 1..Len(Ctxs(fam)) /\ c \in DomainChars
  \/ /\ "pump" \in Modes /\ mode = "pump" /\ fam \in FamSet /\ seq = <<>> /\ k \in 1..Len(Ctxs(fam)) /\ c \in 1..Len(Toks(fam))
  \/ /\ "table" \in Modes /\ mode = "table" /\ fam \in FamSet /\ seq = <<>> /\ k = 0 /\ c = 0

Next == /\ mode = "seq" /\ Len(seq) < MaxLen
        /\ \E j \in 1..NTok(fam) : seq' = Append(seq, j)
        /\ UNCHANGED <<mode, fam, k, c>>

Text == CASE mode = "seq" -> TextOf(fam, seq)
          [] mode = "sweep" -> SweepText(fam, k, c)
          [] mode = "pump" -> PumpText(fam, k, c, PumpLen)
          [] OTHER -> <<>>

MaxTokLen == 33
ASSUME TokLenBound == \A i \in 1..Len(Families) : \A j \in 1..Len(Toks(Families[i])) : Len(Toks(Families[i])[j]) <= MaxTokLen
ASSUME ContractTable == TableWellFormed

TextInDomain == InDomain(Text)
TextBounded == CASE mode = "seq" -> Len(Text) <= MaxLen * MaxTokLen
                 [] mode = "sweep" -> Len(Text) <= 64
                 [] mode = "pump" -> Len(Text) <= PumpLen + 64 /\ Len(Text) >= PumpLen \div 2
                 [] OTHER -> TRUE

Export == IF mode = "table"
          THEN PrintT(ToJson([table |-> fam, toks |-> Toks(fam), fns |-> FamFns(fam), slots |-> FamSlots(fam)]))
          ELSE PrintT(ToJson([fam |-> fam, mode |-> mode, len |-> Len(seq), s |-> Text]))
=============================================================================
