------------------------------ MODULE HostileNum ------------------------------
(* C07: targeted grammars.  Token classes that int() / float() / codecs / idna / ipaddress reject are rare in   *)
(* token sequences and sweeps, and in the quick tier those reach only a sampled slot.  TargetPairs puts every   *)
(* `digit-like` text (ASCII digits, superscript digits, vulgar fractions, other latin-1 str.isdigit /          *)
(* isnumeric characters, signs, spaces, empty, underscores, exponents, radix prefixes, very long runs) into     *)
(* every numeric grammar position of every function / slot that parses a number, and every host / port / idna / *)
(* bracketed-address text into the Host header; each pair <<target, text>> is executed in BOTH tiers.           *)
EXTENDS Naturals, Sequences

RECURSIVE RepN(_, _)
RepN(tok, m) == IF m = 0 THEN <<>> ELSE IF m = 1 THEN tok
                ELSE LET h == RepN(tok, m \div 2) IN IF m % 2 = 0 THEN h \o h ELSE h \o h \o tok
NumShort == {
  <<>>,   \* (empty)
  <<48>>,   \* 0
  <<49>>,   \* 1
  <<56, 48>>,   \* 80
  <<56, 48, 56, 48>>,   \* 8080
  <<54, 53, 53, 51, 53>>,   \* 65535
  <<54, 53, 53, 51, 54>>,   \* 65536
  <<57, 57, 57, 57, 57>>,   \* 99999
  <<48, 48, 55>>,   \* 007
  <<178>>,   \* \xB2
  <<179>>,   \* \xB3
  <<185>>,   \* \xB9
  <<56, 179>>,   \* 8\xB3
  <<178, 56>>,   \* \xB28
  <<178, 179, 185>>,   \* \xB2\xB3\xB9
  <<188>>,   \* \xBC
  <<189>>,   \* \xBD
  <<190>>,   \* \xBE
  <<49, 189>>,   \* 1\xBD
  <<43, 56, 48>>,   \* +80
  <<45, 56, 48>>,   \* -80
  <<45, 48>>,   \* -0
  <<45, 45, 49>>,   \* --1
  <<43>>,   \* +
  <<45>>,   \* -
  <<32, 56, 48>>,   \* SP80
  <<56, 48, 32>>,   \* 80SP
  <<32>>,   \* SP
  <<56, 32, 48>>,   \* 8SP0
  <<49, 95, 48>>,   \* 1_0
  <<95, 49>>,   \* _1
  <<49, 101, 51>>,   \* 1e3
  <<56, 48, 46, 48>>,   \* 80.0
  <<46, 53>>,   \* .5
  <<48, 120, 53, 48>>,   \* 0x50
  <<48, 98, 49>>,   \* 0b1
  <<48, 111, 55>>,   \* 0o7
  <<97, 98, 99>>,   \* abc
  <<56, 97>>,   \* 8a
  <<97, 56>>,   \* a8
  <<233>>,   \* \xE9
  <<170>>,   \* \xAA
  <<186>>,   \* \xBA
  <<78, 97, 78>>,   \* NaN
  <<105, 110, 102>>,   \* inf
  <<49, 44, 48>>    \* 1,0
}
NumLong == {RepN(<<57>>, 20), RepN(<<57>>, 4300), RepN(<<57>>, 4301), <<49>> \o RepN(<<48>>, 5000), RepN(<<178>>, 30)}
NumTexts == NumShort \cup NumLong
HostNames == {
  <<101, 120, 97, 109, 112, 108, 101, 46, 99, 111, 109>>,   \* example.com
  <<108, 111, 99, 97, 108, 104, 111, 115, 116>>,   \* localhost
  <<49, 50, 55, 46, 48, 46, 48, 46, 49>>,   \* 127.0.0.1
  <<91, 58, 58, 49, 93>>,   \* [::1]
  <<>>,   \* (empty)
  <<120, 110, 45, 45, 110, 51, 104, 46, 110, 101, 116>>,   \* xn--n3h.net
  <<91, 58, 58, 49>>,   \* [::1
  <<97>>    \* a
}
HostSpecial == {
  <<120, 110, 45, 45>>,   \* xn--
  <<120, 110, 45, 45, 97>>,   \* xn--a
  <<120, 110, 45, 45, 97, 46, 99, 111, 109>>,   \* xn--a.com
  <<97, 46, 46, 98>>,   \* a..b
  <<46>>,   \* .
  <<46, 97>>,   \* .a
  <<97, 46>>,   \* a.
  <<233, 46, 99, 111, 109>>,   \* \xE9.com
  <<120, 110, 45, 45, 233>>,   \* xn--\xE9
  <<91, 93>>,   \* []
  <<91, 58, 58, 103, 93>>,   \* [::g]
  <<91, 49, 46, 50, 46, 51, 46, 52, 93>>,   \* [1.2.3.4]
  <<91, 58, 58, 49, 37, 101, 116, 104, 48, 93>>,   \* [::1%eth0]
  <<91, 118, 49, 46, 120, 93>>,   \* [v1.x]
  <<91, 58, 58, 49, 93, 120>>,   \* [::1]x
  <<93>>,   \* ]
  <<91>>,   \* [
  <<91, 91, 58, 58, 49, 93, 93>>,   \* [[::1]]
  <<97, 58, 98, 58, 99>>,   \* a:b:c
  <<58>>,   \* :
  <<58, 58>>,   \* ::
  <<58, 56, 48>>,   \* :80
  <<97, 64, 98>>,   \* a@b
  <<97, 64, 98, 58, 56, 48>>,   \* a@b:80
  <<97, 47, 98>>,   \* a/b
  <<97, 63, 98>>,   \* a?b
  <<97, 35, 98>>,   \* a#b
  <<97, 92, 98>>,   \* a\b
  <<97, 32, 98>>,   \* aSPb
  <<37, 52, 49>>,   \* %41
  <<37>>,   \* %
  <<181, 46, 99, 111, 109>>,   \* \xB5.com
  <<223, 46, 100, 101>>,   \* \xDF.de
  RepN(<<97>>, 64) \o <<46, 99, 111, 109>>,   \* a x 64 .com
  RepN(<<97, 46>>, 150) \o <<97>>    \* a. x 150 a
}
HostTexts == HostNames \cup HostSpecial \cup {h \o <<58>> \o p : h \in HostNames, p \in NumTexts}
         \cup {h \o <<58>> \o <<56, 48>> : h \in HostSpecial} \cup {<<97, 58, 56, 48, 58>> \o p : p \in NumShort}
N_bytesEq == <<98, 121, 116, 101, 115, 61>>   \* bytes=
N_bytesSp == <<98, 121, 116, 101, 115, 32>>   \* bytesSP
N_dash == <<45>>   \* -
N_maxage == <<109, 97, 120, 45, 97, 103, 101, 61>>   \* max-age=
N_maxstale == <<109, 97, 120, 45, 115, 116, 97, 108, 101, 61>>   \* max-stale=
N_minfresh == <<109, 105, 110, 45, 102, 114, 101, 115, 104, 61>>   \* min-fresh=
N_smaxage == <<115, 45, 109, 97, 120, 97, 103, 101, 61>>   \* s-maxage=
N_aq == <<97, 59, 113, 61>>   \* a;q=
N_slash9 == <<47, 57>>   \* /9
N_09 == <<48, 45, 57, 47>>   \* 0-9/
N_0d == <<48, 45>>   \* 0-
N_star == <<47, 42>>   \* /*
N_comma == <<44, 32, 120>>   \* ,SPx
RangeNum == {N_bytesEq \o n \o N_dash : n \in NumTexts} \cup {N_bytesEq \o <<48>> \o N_dash \o n : n \in NumTexts} \cup {N_bytesEq \o N_dash \o n : n \in NumTexts}
ContentRangeNum == {N_bytesSp \o n \o N_dash \o <<57>> \o N_slash9 : n \in NumTexts} \cup {N_bytesSp \o N_0d \o n \o N_star : n \in NumTexts}
               \cup {N_bytesSp \o N_09 \o n : n \in NumTexts}
CacheNum == {d \o n : d \in {N_maxage, N_maxstale, N_minfresh, N_smaxage}, n \in NumTexts} \cup {N_maxage \o <<34>> \o n \o <<34>> : n \in NumShort}
QNum == {N_aq \o n : n \in NumTexts} \cup {N_aq \o n \o N_comma : n \in NumShort}

\* <<target, text>>: target = a function of Hostile!Table or an environ slot of "Request"
Over(targets, texts) == {<<t, x>> : t \in targets, x \in texts}
TargetPairs ==
       Over({"HOST", "wsgi.get_host", "wsgi.get_current_url"}, HostTexts)
  \cup Over({"CONTENT_LENGTH", "MAX_FORWARDS", "parse_age"}, NumTexts)
  \cup Over({"RANGE", "IF_RANGE", "parse_range_header"}, RangeNum)
  \cup Over({"parse_content_range_header"}, ContentRangeNum)
  \cup Over({"CACHE_CONTROL", "parse_cache_control_header", "parse_cache_control_header[ResponseCacheControl]"}, CacheNum)
  \cup Over({"ACCEPT", "ACCEPT_LANGUAGE", "ACCEPT_CHARSET", "ACCEPT_ENCODING", "parse_accept_header", "parse_accept_header[LanguageAccept]"}, QNum)
=============================================================================
