CONSTANTS
  Fams = {"options", "ctype", "cond", "auth", "cookie", "url", "range", "date", "body", "accept", "ext"}
  FullLen = 3
  MaxLen = 4
  CoreToks = 14
  PumpLen = 8192
  Pump2Toks = 12
  Pump2Len = 2048
  Modes = {"seq", "gram", "target", "sweep", "pump", "pump2", "table"}
INIT Init
NEXT Next
CHECK_DEADLOCK FALSE
INVARIANT TextInDomain
INVARIANT TextBounded
INVARIANT Export
