CONSTANTS
  Fams = {"options", "ctype", "cond", "auth", "cookie", "url"}
  MaxLen = 4
  CoreToks = 14
  PumpLen = 4096
  Modes = {"seq"}
INIT Init
NEXT Next
CHECK_DEADLOCK FALSE
INVARIANT TextInDomain
INVARIANT TextBounded
INVARIANT Export
