----------------------------- MODULE HostileTrace -----------------------------
(* Trace judge for C07.  Input: ndjson (TRACE_FILE), one TLC state per line.                  *)
(*  class  : [t, i, op, fn, slot, kd, ty, n, ex]                                              *)
(*           an outcome class: n recorded calls of function fn (for fn = "Request": of a      *)
(*           Request whose environ carries the hostile text in `slot`; for "RequestBody": as  *)
(*           CONTENT_TYPE of a request with body and CONTENT_LENGTH variant `slot`) that had  *)
(*           outcome vector (kd, ty) -- one entry per position of Hostile!Table[fn] -- with   *)
(*           up to five of the input texts (ex, code point sequences).  The contract is a     *)
(*           function of (fn, position, kd, ty) only, so judging the class judges its calls.  *)
(*  schema : [t, i, op, fn, names]   the recorder's position names of fn                      *)
(* Verdicts are total: a rejected line prints one reject record per failing position          *)
(* (w = position, core = whether the property statement names that position) and judging      *)
(* goes on.                                                                                   *)
EXTENDS Hostile, Json, IOUtils

Lines == ndJsonDeserialize(IOEnv.TRACE_FILE)

VARIABLES l
vars == <<l>>

Rej(ln, w, core, clause) ==
  PrintT(ToJson([reject |-> 1, t |-> ln.t, i |-> ln.i, w |-> w, core |-> core, clause |-> clause]))

JudgeClass(ln) ==
  IF ln.fn \notin Fns \/ (ln.fn = "Request") # (ln.slot \in Slots) \/ (ln.fn = "RequestBody") # (ln.slot \in BodySlots) \/ (ln.fn = "RequestPart") # (ln.slot \in PartSlots) \/ Len(ln.kd) # Len(Table[ln.fn]) \/ Len(ln.ty) # Len(ln.kd)
     \/ ln.n < 1 \/ Len(ln.ex) < 1
  THEN Rej(ln, 0, TRUE, "MalformedTraceLine")
  ELSE /\ IF \A e \in 1..Len(ln.ex) : InDomain(ln.ex[e]) THEN TRUE ELSE Rej(ln, 0, TRUE, "OutOfDomain")
       /\ \A w \in 1..Len(ln.kd) :
            LET cl == Clause(ln.fn, w, ln.kd[w], ln.ty[w], ln.kd[1], ln.ty[1]) IN
            IF cl = "ok" THEN TRUE ELSE Rej(ln, w, Table[ln.fn][w].core \/ cl = "MalformedTraceLine", cl)

JudgeSchema(ln) ==
  IF ln.fn \in Fns /\ ln.names = [w \in 1..Len(Table[ln.fn]) |-> Table[ln.fn][w].n] THEN TRUE
  ELSE Rej(ln, 0, TRUE, "SchemaMismatch")

Init == l = 1

Next ==
  /\ l <= Len(Lines)
  /\ l' = l + 1
  /\ LET ln == Lines[l] IN
     CASE ln.op = "class" -> JudgeClass(ln)
       [] ln.op = "schema" -> JudgeSchema(ln)
       [] OTHER -> Rej([t |-> ln.t, i |-> 0], 0, TRUE, "MalformedTraceLine")

Done == PrintT(ToJson([judged |-> Len(Lines)])) /\ TLCGet("generated") >= 0
=============================================================================
