CONSTANTS
  Fams = {"options", "ctype", "cond", "auth", "cookie", "url", "range", "date", "body", "accept", "ext"}
  FullLen = 2
  MaxLen = 3
  CoreToks = 9
  PumpLen = 2048
  Pump2Toks = 5
  Pump2Len = 1024
  Modes = {"seq", "gram", "target", "sweep", "pump", "pump2", "table"}
INIT Init
NEXT Next
CHECK_DEADLOCK FALSE
INVARIANT TextInDomain
INVARIANT TextBounded
INVARIANT Export
