CONSTANTS
  Fams = {"options", "ctype", "cond", "auth", "cookie", "url"}
  MaxLen = 2
  CoreToks = 0
  PumpLen = 4096
  Modes = {"seq", "sweep", "pump", "table"}
INIT Init
NEXT Next
CHECK_DEADLOCK FALSE
INVARIANT TextInDomain
INVARIANT TextBounded
INVARIANT Export
