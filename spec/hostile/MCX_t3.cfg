CONSTANTS
  Fams = {"options", "ctype", "cond", "auth", "cookie", "url"}
  MaxLen = 3
  CoreToks = 0
  PumpLen = 8192
  Modes = {"seq", "sweep", "pump", "table"}
INIT Init
NEXT Next
CHECK_DEADLOCK FALSE
INVARIANT TextInDomain
INVARIANT TextBounded
INVARIANT Export
