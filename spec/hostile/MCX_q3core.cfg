CONSTANTS
  Fams = {"options", "ctype", "cond", "auth", "cookie", "url"}
  MaxLen = 3
  CoreToks = 12
  PumpLen = 4096
  Modes = {"seq"}
INIT Init
NEXT Next
CHECK_DEADLOCK FALSE
INVARIANT TextInDomain
INVARIANT TextBounded
INVARIANT Export
