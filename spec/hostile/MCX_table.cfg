CONSTANTS
  Fams = {"body"}
  FullLen = 0
  MaxLen = 0
  CoreToks = 0
  PumpLen = 0
  Pump2Toks = 0
  Pump2Len = 0
  Modes = {"table"}
INIT Init
NEXT Next
CHECK_DEADLOCK FALSE
INVARIANT Export
