------------------------------ MODULE HostileExt ------------------------------
(* C07, family `ext`: RFC 2231 / 8187 extended parameters.  name*=charset'lang'value and the continuations  *)
(* name*0*= / name*1*= with the charset label drawn from real codec names, their spelling variants and   *)
(* non-codecs, always with a value that contains percent escapes (valid, invalid, truncated) so that the  *)
(* label is used; in the same parameter, carried to a later continuation section, and carried to a later  *)
(* extended parameter with an empty / missing charset.                                                    *)
EXTENDS Naturals, Sequences

ExtLabels == <<
  <<117, 116, 102, 45, 56>>,   \*  1  utf-8
  <<117, 116, 102, 56>>,   \*  2  utf8
  <<85, 84, 70, 95, 56>>,   \*  3  UTF_8
  <<85, 84, 70, 45, 56>>,   \*  4  UTF-8
  <<117, 115, 45, 97, 115, 99, 105, 105>>,   \*  5  us-ascii
  <<117, 115, 97, 115, 99, 105, 105>>,   \*  6  usascii
  <<97, 115, 99, 105, 105>>,   \*  7  ascii
  <<105, 115, 111, 45, 56, 56, 53, 57, 45, 49>>,   \*  8  iso-8859-1
  <<105, 115, 111, 56, 56, 53, 57, 49>>,   \*  9  iso88591
  <<73, 83, 79, 45, 56, 56, 53, 57, 49>>,   \* 10  ISO-88591
  <<117, 116, 45, 102, 56>>,   \* 11  ut-f8
  <<97, 115, 99, 45, 105, 105>>,   \* 12  asc-ii
  <<108, 97, 116, 105, 110, 45, 49>>,   \* 13  latin-1
  <<108, 97, 116, 105, 110, 49>>,   \* 14  latin1
  <<99, 112, 49, 50, 53, 50>>,   \* 15  cp1252
  <<105, 100, 110, 97>>,   \* 16  idna
  <<112, 117, 110, 121, 99, 111, 100, 101>>,   \* 17  punycode
  <<114, 111, 116, 49, 51>>,   \* 18  rot13
  <<104, 101, 120>>,   \* 19  hex
  <<98, 97, 115, 101, 54, 52>>,   \* 20  base64
  <<117, 110, 100, 101, 102, 105, 110, 101, 100>>,   \* 21  undefined
  <<117, 110, 105, 99, 111, 100, 101, 95, 101, 115, 99, 97, 112, 101>>,   \* 22  unicode_escape
  <<117, 116, 102, 45, 49, 54>>,   \* 23  utf-16
  <<117, 116, 102, 45, 55>>,   \* 24  utf-7
  <<>>,   \* 25  (empty)
  <<98, 97, 100>>,   \* 26  bad
  <<117, 116, 102, 32, 56>>,   \* 27  utfSP8
  <<117, 116, 102, 45, 56, 32>>,   \* 28  utf-8SP
  <<117, 233>>,   \* 29  u\xE9
  <<45>>,   \* 30  -
  <<95>>,   \* 31  _
  <<117, 116, 102, 45, 45, 56>>,   \* 32  utf--8
  <<117, 116, 102, 95, 56>>    \* 33  utf_8
>>
ExtValues == <<
  <<37, 67, 51, 37, 65, 57>>,   \*  1  %C3%A9
  <<37, 70, 70>>,   \*  2  %FF
  <<37, 69, 57>>,   \*  3  %E9
  <<37, 67, 51>>,   \*  4  %C3
  <<37>>,   \*  5  %
  <<37, 52>>,   \*  6  %4
  <<97, 37, 50, 48, 98>>,   \*  7  a%20b
  <<37, 122, 122, 37, 52, 49>>,   \*  8  %zz%41
  <<37, 48, 48>>,   \*  9  %00
  <<37, 56, 48, 37, 52, 49>>    \* 10  %80%41
>>
ExtConts == <<
  <<37, 65, 57>>,   \*  1  %A9
  <<37, 52, 49>>,   \*  2  %41
  <<98>>    \*  3  b
>>
ExtHeads == <<
  <<97, 116, 116, 97, 99, 104, 109, 101, 110, 116, 59, 32, 102, 105, 108, 101, 110, 97, 109, 101>>,   \*  1  attachment;SPfilename
  <<116, 101, 120, 116, 47, 112, 108, 97, 105, 110, 59, 32, 99, 104, 97, 114, 115, 101, 116>>,   \*  2  text/plain;SPcharset
  <<102, 111, 114, 109, 45, 100, 97, 116, 97, 59, 32, 110, 97, 109, 101, 61, 34, 102, 34, 59, 32, 102, 105, 108, 101, 110, 97, 109, 101>>,   \*  3  form-data;SPname="f";SPfilename
  <<116, 101, 120, 116, 47, 104, 116, 109, 108, 59, 108, 101, 118, 101, 108>>    \*  4  text/html;level
>>
Tok_ext == <<
  <<97, 59, 98>>,   \*  1  a;b
  <<42, 61>>,   \*  2  *=
  <<42, 48, 42, 61>>,   \*  3  *0*=
  <<59, 98, 42, 49, 42, 61>>,   \*  4  ;b*1*=
  <<39, 39>>,   \*  5  ''
  <<117, 116, 102, 45, 56>>,   \*  6  utf-8
  <<117, 116, 45, 102, 56>>,   \*  7  ut-f8
  <<37, 67, 51, 37, 65, 57>>,   \*  8  %C3%A9
  <<37, 70, 70>>,   \*  9  %FF
  <<39>>,   \* 10  '
  <<59, 98, 42, 49, 61>>,   \* 11  ;b*1=
  <<114, 111, 116, 49, 51>>,   \* 12  rot13
  <<105, 115, 111, 45, 56, 56, 53, 57, 45, 49>>,   \* 13  iso-8859-1
  <<117, 115, 97, 115, 99, 105, 105>>,   \* 14  usascii
  <<37>>,   \* 15  %
  <<37, 67, 51>>,   \* 16  %C3
  <<101, 110>>,   \* 17  en
  <<59>>,   \* 18  ;
  <<61>>,   \* 19  =
  <<105, 100, 110, 97>>,   \* 20  idna
  <<117, 110, 100, 101, 102, 105, 110, 101, 100>>,   \* 21  undefined
  <<85, 84, 70, 95, 56>>    \* 22  UTF_8
>>
Ctx_ext == <<
  <<<<97, 59, 32, 98, 42, 61>>, <<39, 39, 37, 67, 51, 37, 65, 57>>>>,   \* a;SPb*= _ ''%C3%A9
  <<<<97, 59, 32, 98, 42, 61, 117, 116, 102, 45, 56, 39>>, <<39, 37, 70, 70>>>>,   \* a;SPb*=utf-8' _ '%FF
  <<<<97, 59, 32, 98, 42, 61, 117, 116, 102, 45, 56, 39, 39, 37>>, <<>>>>,   \* a;SPb*=utf-8''% _ (empty)
  <<<<97, 59, 32, 98, 42, 61, 117, 116>>, <<102, 56, 39, 39, 37, 52, 49>>>>    \* a;SPb*=ut _ f8''%41
>>
RangeOf(s) == {s[i] : i \in 1..Len(s)}
X_star == <<42, 61>>   \* *=
X_s0 == <<42, 48, 42, 61>>   \* *0*=
X_s1 == <<42, 49, 42, 61>>   \* *1*=
X_p1 == <<42, 49, 61>>   \* *1=
X_q == <<39>>   \* '
X_en == <<101, 110>>   \* en
X_semi == <<59, 32>>   \* ;SP
X_other == <<59, 32, 111, 116, 104, 101, 114, 42, 61>>   \* ;SPother*=
X_name == <<59, 32, 110, 97, 109, 101, 42, 61>>   \* ;SPname*=
\* h = head `value; name`, cs = label, v / w = percent-escaped values
ExtSame(h, cs, l, v) == h \o X_star \o cs \o X_q \o l \o X_q \o v                                   \* name*=cs'l'v
ExtValuesCore == {ExtValues[i] : i \in 1..4}
ExtTexts ==
       {ExtSame(h, cs, <<>>, v) : h \in RangeOf(ExtHeads), cs \in RangeOf(ExtLabels), v \in RangeOf(ExtValues)}
  \cup {ExtSame(h, cs, X_en, v) : h \in RangeOf(ExtHeads), cs \in RangeOf(ExtLabels), v \in {ExtValues[1], ExtValues[2], ExtValues[5]}}
  \* continuation: the label is given in section 0 only; section 1 is extended (n*1*=) or plain (n*1=)
  \cup {h \o X_s0 \o cs \o X_q \o X_q \o v \o <<59, 32>> \o n \o s1 \o w :
          h \in {ExtHeads[1], ExtHeads[3]}, n \in {<<102, 105, 108, 101, 110, 97, 109, 101>>}, cs \in RangeOf(ExtLabels), v \in ExtValuesCore,
          s1 \in {X_s1, X_p1}, w \in {ExtConts[1], ExtConts[3]}}
  \* a later extended parameter with an empty charset, or without any charset marker, after one that named a label
  \cup {ExtSame(h, cs, <<>>, v) \o X_other \o m \o w : h \in {ExtHeads[1], ExtHeads[2]}, cs \in RangeOf(ExtLabels), v \in ExtValuesCore,
          m \in {<<39, 39>>, <<>>, <<39>>}, w \in {ExtConts[2]}}
=============================================================================
