------------------------------- MODULE MCWide -------------------------------
(* Bounded model of the wide header parser (AcceptWide.tla): header texts are rendered from    *)
(* the universe's structured ranges in several styles (quoted parameter values, OWS and HTAB   *)
(* around ';', upper-case Q, empty parameter segments, a quoted value containing ',' and ';')  *)
(* with several separators (OWS, empty list elements), and the parser must return the intended *)
(* items: the intended parse is always a candidate, it is the ONLY candidate when no undecided *)
(* q text ("1.", "00.250") was used, and the narrow parser of Accept.tla agrees on plain text. *)
EXTENDS AcceptWide, MCUniverse, Json

CONSTANTS Fams, MaxItems, QTexts, Styles, WSeps
VARIABLES fam, hdr, want, und, plain, n
vars == <<fam, hdr, want, und, plain, n>>

RangesOf(f) == IF f = "mime" THEN RangesMime ELSE RangesAccept
StylesOf(f) == IF f = "mime" THEN Styles ELSE Styles \ {"quoted", "commaq"}
QPick == {q \in QAll : q.txt \in {<<>>, <<48,46,53>>, <<97,98,99>>, <<49,46>>, <<48,48,46,50,53,48>>, <<46,53>>, <<49,46,48,48,48>>}}
Undecided == {<<49,46>>, <<48,48,46,50,53,48>>}
SepSet == {<<44>>, <<32,44,9>>, <<44,44>>, <<44,32,44,32>>}
SepOne == {<<44>>}
CQ == <<116,61,34,120,44,121,59,122,34>>       \* t="x,y;z"
CQN == <<116,61,120,44,121,59,122>>             \* t=x,y;z

Render(r, q, style) ==
  LET sc == IF style = "ows" THEN <<32,59,9>> ELSE <<59>>
      ptxt(p) == IF style = "quoted"
                 THEN LET e == IndexOf(p, EQ) IN Take(p, e) \o <<DQ>> \o Drop(p, e) \o <<DQ>>
                 ELSE p
      ps == Concat([i \in 1..Len(r.params) |-> sc \o ptxt(r.params[i])])
      qt == IF q.absent THEN <<>> ELSE sc \o (IF style = "upperq" THEN <<81>> ELSE <<113>>) \o <<EQ>> \o q.txt
  IN r.main \o ps \o (IF style = "commaq" THEN sc \o CQ ELSE <<>>)
     \o (IF style = "emptyseg" THEN <<59>> ELSE <<>>) \o qt \o (IF style = "emptyseg" THEN <<59,32>> ELSE <<>>)

Init == fam \in Fams /\ hdr = <<>> /\ want = <<>> /\ und = FALSE /\ plain = TRUE /\ n = 0
Add == /\ n < MaxItems
       /\ \E r \in RangesOf(fam), q \in QTexts, st \in StylesOf(fam), sep \in (IF n = 0 THEN SepOne ELSE WSeps) :
            /\ hdr' = IF n = 0 THEN Render(r, q, st) ELSE hdr \o sep \o Render(r, q, st)
            /\ want' = IF q.val < 0 THEN want
                       ELSE Append(want, [main |-> r.main, params |-> r.params \o (IF st = "commaq" THEN <<CQN>> ELSE <<>>),
                                          q |-> 1000 * q.val])
            /\ und' = (und \/ q.txt \in Undecided)
            /\ plain' = (plain /\ st = "plain" /\ sep = <<44>>)
       /\ n' = n + 1 /\ UNCHANGED fam
Next == Add
Spec == Init /\ [][Next]_vars

E == ElemsW(hdr)
WideInDomain == n > 0 => WideDomain(fam, hdr, E)
IntendedIsCandidate == n > 0 => want \in Candidates(E)
DecidedIsUnique == (n > 0 /\ ~und) => Candidates(E) = {want}
UndecidedIsSmall == (n > 0 /\ und) => Cardinality(Candidates(E)) <= 4
NarrowAgrees == (n > 0 /\ plain) =>
                  LET V == Valid(hdr) IN [i \in 1..Len(V) |-> [main |-> V[i].main, params |-> V[i].params, q |-> 1000 * V[i].q]] = want
=============================================================================
