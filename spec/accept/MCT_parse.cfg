CONSTANTS
  Fams = {"mime"}
  MaxItems = 2
  MaxOffers = 1
  QTexts <- QProp
  Seps <- SepAll
  QPres <- QPreAll
  Wide = FALSE
  Variant = "fixed"
INIT Init
NEXT Next
CHECK_DEADLOCK FALSE
INVARIANT UniverseInDomain
INVARIANT ParseIgnoresBadQ
INVARIANT ImplMeetsContract
INVARIANT ImplQualityOK
INVARIANT NeverZeroOrUnmatched
INVARIANT HighestQuality
INVARIANT MoreSpecificWinsTies
INVARIANT OfferOrderBreaksTies
INVARIANT FallbackSharesPrimary
INVARIANT SortKeepsOrder
