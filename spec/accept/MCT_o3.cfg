CONSTANTS
  Fams = {"mime", "language"}
  MaxItems = 2
  MaxOffers = 3
  QTexts <- QProp
  Seps <- SepPlain
  QPres <- QPrePlain
  Wide = FALSE
  Variant = "fixed"
INIT Init
NEXT Next
CHECK_DEADLOCK FALSE
INVARIANT UniverseInDomain
INVARIANT ParseIgnoresBadQ
INVARIANT ImplMeetsContract
INVARIANT ImplQualityOK
INVARIANT NeverZeroOrUnmatched
INVARIANT HighestQuality
INVARIANT MoreSpecificWinsTies
INVARIANT OfferOrderBreaksTies
INVARIANT FallbackSharesPrimary
INVARIANT SortKeepsOrder
