---------------------------- MODULE AcceptTrace ----------------------------
(* Trace judge for C17.  Input: ndjson, TRACE_FILE; every line is one negotiation executed    *)
(* on the real classes:                                                                       *)
(*   [t, i, op |-> "neg", fam, api, hdr: code points of the header text,                      *)
(*    offers: <<code points>>, order: <<[v: code points, q: thousandths]>>  (iteration order  *)
(*    of the parsed Accept object), quals: <<thousandths>> (quality(offer) per offer),        *)
(*    best: code points of best_match(offers) (<<>> if None), none: BOOLEAN, exc: class name] *)
(* The judge parses the header text itself (Accept.tla), computes the contract and compares.  *)
(* Clauses: OutOfDomain (harness error, never a verdict), Raised, InvalidQIgnored,            *)
(* ParseKeepsOrder, QualityIsMostSpecific, ChoiceIsAnOffer, NeverZeroOrUnmatched[/fallback],  *)
(* HighestQuality, MoreSpecificWinsTies, OfferOrderBreaksTies, LanguageFallback.              *)
EXTENDS Accept, Json, IOUtils

Lines == ndJsonDeserialize(IOEnv.TRACE_FILE)

VARIABLES l
vars == <<l>>

\* items in a comparable normal form (range text lowercased; parameters are already lowercased)
NormItem(it) == [main |-> Lower(it.main), params |-> it.params, q |-> it.q]

ClassOf(f, it) == <<SpecOf(f, it), it.q>>
Filter(f, s, c) == SelectSeq(s, LAMBDA it : ClassOf(f, it) = c)

FirstIdx(offers, b) == LET H == {k \in 1..Len(offers) : offers[k] = b} IN
                       IF H = {} THEN 0 ELSE CHOOSE k \in H : \A j \in H : k <= j

RankClause(sm, got, exp) ==
  IF got > 0 /\ ~sm[got].m THEN "NeverZeroOrUnmatched"
  ELSE IF got = 0 THEN "HighestQuality"
  ELSE IF exp = 0 THEN "NeverZeroOrUnmatched"
  ELSE IF sm[got].q < sm[exp].q THEN "HighestQuality"
  ELSE IF LexLess(sm[got].ds, sm[exp].ds) THEN "MoreSpecificWinsTies"
  ELSE "OfferOrderBreaksTies"

Verdict(ln) ==
  LET f == ln.fam IN
  IF ~(f \in {"accept", "mime", "language", "charset"}) THEN "OutOfDomain"
  ELSE LET ps == ParseAll(ln.hdr) IN
  IF ~InDomainP(f, ln.hdr, ps) \/ ln.offers = <<>>
          \/ \E k \in 1..Len(ln.offers) : ~OfferInDomain(f, ln.offers[k]) THEN "OutOfDomain"
  ELSE IF ln.exc # "" THEN "Raised"
  ELSE
  LET V   == ValidP(ps)
      VN  == [i \in 1..Len(V) |-> NormItem(V[i])]
      R   == [i \in 1..Len(ln.order) |->
                LET pv == ParseValue(ln.order[i].v) IN
                [main |-> Lower(pv.main), params |-> pv.params, q |-> ln.order[i].q]]
      sm  == Summary(f, V, ln.offers)
      ch  == IF f = "language" THEN LangStageS(V, ln.offers, sm, TRUE)
             ELSE [idx |-> BestOfSummary(sm), stage |-> 1]
      exp == ch.idx
      got == IF ln.none THEN 0 ELSE FirstIdx(ln.offers, ln.best)
  IN IF BagOf(R) # BagOf(VN) THEN "InvalidQIgnored"
     ELSE IF \E i \in 1..Len(VN) : Filter(f, R, ClassOf(f, VN[i])) # Filter(f, VN, ClassOf(f, VN[i])) THEN "ParseKeepsOrder"
     ELSE IF Len(ln.quals) # Len(ln.offers) \/ \E k \in 1..Len(ln.offers) : ln.quals[k] # sm[k].q THEN "QualityIsMostSpecific"
     ELSE IF ~ln.none /\ got = 0 THEN "ChoiceIsAnOffer"
     ELSE IF got = exp THEN "ok"
     ELSE IF got > 0 /\ sm[got].m /\ sm[got].q = 0
          THEN (IF f = "language" /\ BestOfSummary(sm) = 0 THEN "NeverZeroOrUnmatched/fallback" ELSE "NeverZeroOrUnmatched")
     ELSE IF f = "language" /\ BestOfSummary(sm) = 0 THEN "LanguageFallback"
     ELSE RankClause(sm, got, exp)

\* model drift (never a verdict): the iteration order is the stable descending sort of the model
DriftOK(ln) ==
  LET f == ln.fam IN
  IF ~(f \in {"accept", "mime", "language", "charset"}) \/ ~HeaderInDomain(f, ln.hdr) \/ ln.exc # "" THEN TRUE
  ELSE LET V == Valid(ln.hdr)
           S == SortDesc([i \in 1..Len(V) |-> PrepItem(f, V[i]) @@ [pos |-> i]])
       IN Len(ln.order) # Len(V) \/
          \A i \in 1..Len(V) : LET pv == ParseValue(ln.order[i].v) IN
                               [main |-> Lower(pv.main), params |-> pv.params, q |-> ln.order[i].q] = NormItem(V[S[i].pos])

Init == l = 1
Next == /\ l <= Len(Lines)
        /\ LET ln == Lines[l]
               v == Verdict(ln) IN
           /\ IF v = "ok" THEN TRUE
              ELSE PrintT(ToJson([reject |-> 1, t |-> ln.t, i |-> ln.i, clause |-> v]))
           /\ IF v # "ok" \/ DriftOK(ln) THEN TRUE
              ELSE PrintT(ToJson([drift |-> 1, t |-> ln.t, what |-> "iteration order differs from the model's stable (specificity, q) sort"]))
        /\ l' = l + 1

Done == PrintT(ToJson([judged |-> Len(Lines)])) /\ TLCGet("generated") >= 0
=============================================================================
