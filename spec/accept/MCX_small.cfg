CONSTANTS
  Fams = {"accept", "mime", "language", "charset"}
  MaxItems = 2
  MaxOffers = 1
  QTexts <- QSmall
  Seps <- SepPlain
  QPres <- QPrePlain
  Wide = FALSE
  Variant = "fixed"
INIT Init
NEXT Next
CHECK_DEADLOCK FALSE
INVARIANT Export
