CONSTANTS
  Fams = {"mime"}
  MaxItems = 3
  MaxOffers = 2
  QTexts <- QSmall
  Seps <- SepPlain
  QPres <- QPrePlain
  Wide = FALSE
  Variant = "fixed"
INIT Init
NEXT Next
CHECK_DEADLOCK FALSE
INVARIANT UniverseInDomain
INVARIANT ParseIgnoresBadQ
INVARIANT ImplMeetsContract
INVARIANT ImplQualityOK
INVARIANT NeverZeroOrUnmatched
INVARIANT HighestQuality
INVARIANT MoreSpecificWinsTies
INVARIANT OfferOrderBreaksTies
INVARIANT FallbackSharesPrimary
INVARIANT SortKeepsOrder
