-------------------------- MODULE AcceptWideTrace --------------------------
(* Trace judge for the wider C17 domain (AcceptWide.tla) and for Accept objects recorded from  *)
(* the repository's own tests.  Lines (every field always present):                            *)
(*   [t, i, op, fam, api, hdr, items: <<[v, q]>>, offers, order: <<[v, q]>>, hasq, quals,      *)
(*    hasbest, best, none, exc, rt: BOOLEAN, rtorder: <<[v, q]>>,                              *)
(*    look: [on, contains: <<BOOLEAN>>, find: <<Int>>, html, xhtml, json]]      q: millionths  *)
(*   op = "wide": hdr is a header text, parsed here into the SET of candidate parses (one per  *)
(*        combination of undecided treatments); the candidate whose items are the ones the     *)
(*        code kept is used for the order / quality / choice clauses.                          *)
(*   op = "obj" : items are the (value, q) pairs an Accept object was constructed from.        *)
(* Clause names carry the prefix in field `pre` ("Wide", "Coding", "RepoTests").               *)
(* Drift only: find / index / __contains__ / accept_html.. / to_header round trip.             *)
EXTENDS AcceptWide, Json, IOUtils

Lines == ndJsonDeserialize(IOEnv.TRACE_FILE)
VARIABLES l
vars == <<l>>

Fams == {"accept", "mime", "language", "charset"}
NormItem(it) == [main |-> Lower(it.main), params |-> it.params, q |-> it.q]
NormSeq(s) == [i \in 1..Len(s) |-> NormItem(s[i])]
FromPairs(ps) == SelectSeq([i \in 1..Len(ps) |-> LET v == ValueW(ps[i].v) IN
                                                 [main |-> Lower(v.main), params |-> v.params, q |-> ps[i].q]],
                           LAMBDA it : it.main # <<>>)
PairsWF(ps) == \A i \in 1..Len(ps) : LET e == ElemW(ps[i].v) IN e.wf /\ ps[i].q >= 0 /\ ps[i].q <= MICRO
ClassOf(f, it) == <<SpecOf(f, it), it.q>>
Filter(f, s, c) == SelectSeq(s, LAMBDA it : ClassOf(f, it) = c)
FirstIdx(offers, b) == LET H == {k \in 1..Len(offers) : offers[k] = b} IN
                       IF H = {} THEN 0 ELSE CHOOSE k \in H : \A j \in H : k <= j

RankClause(sm, got, exp) ==
  IF got > 0 /\ ~sm[got].m THEN "NeverZeroOrUnmatched"
  ELSE IF got = 0 THEN "HighestQuality"
  ELSE IF exp = 0 THEN "NeverZeroOrUnmatched"
  ELSE IF sm[got].q < sm[exp].q THEN "HighestQuality"
  ELSE IF LexLess(sm[got].ds, sm[exp].ds) THEN "MoreSpecificWinsTies"
  ELSE "OfferOrderBreaksTies"

\* the client's order is kept among items of equal (specificity, q)
OrderOK(f, V, R) == \A i \in 1..Len(V) : Filter(f, R, ClassOf(f, V[i])) = Filter(f, V, ClassOf(f, V[i]))

\* the clauses that need the items V (client's order, normal form) and the recorded order R
AfterParse(ln, f, V, R) ==
  LET sm  == Summary(f, V, ln.offers)
      ch  == IF f = "language" THEN LangStageS(V, ln.offers, sm, TRUE) ELSE [idx |-> BestOfSummary(sm), stage |-> 1]
      exp == ch.idx
      got == IF ln.none THEN 0 ELSE FirstIdx(ln.offers, ln.best)
  IN IF ~OrderOK(f, V, R) THEN "ParseKeepsOrder"
     ELSE IF ln.hasq /\ (Len(ln.quals) # Len(ln.offers) \/ \E k \in 1..Len(ln.offers) : ln.quals[k] # sm[k].q) THEN "QualityIsMostSpecific"
     ELSE IF ~ln.hasbest THEN "ok"
     ELSE IF ~ln.none /\ got = 0 THEN "ChoiceIsAnOffer"
     ELSE IF got = exp THEN "ok"
     ELSE IF got > 0 /\ sm[got].m /\ sm[got].q = 0
          THEN (IF f = "language" /\ BestOfSummary(sm) = 0 THEN "NeverZeroOrUnmatchedFallback" ELSE "NeverZeroOrUnmatched")
     ELSE IF f = "language" /\ BestOfSummary(sm) = 0 THEN "LanguageFallback"
     ELSE RankClause(sm, got, exp)

OffersOK(f, offers) == offers # <<>> /\ \A k \in 1..Len(offers) : OfferInDomain(f, offers[k])

\* [v |-> clause, V |-> the items used (for the drift checks), part |-> only the item clause was judged]
Judge(ln) ==
  LET f == ln.fam
      none == [v |-> "OutOfDomain", V |-> <<>>, part |-> TRUE]
  IN
  IF ~(f \in Fams) \/ ~OffersOK(f, ln.offers) THEN none
  ELSE IF ln.op = "wide" THEN
       LET E == ElemsW(ln.hdr) IN
       IF ~WideDomain(f, ln.hdr, E) THEN none
       ELSE IF ln.exc # "" THEN [v |-> "Raised", V |-> <<>>, part |-> TRUE]
       ELSE IF ~PairsWF(ln.order) THEN [v |-> "InvalidQIgnored", V |-> <<>>, part |-> TRUE]   \* items no parse can yield
       ELSE LET R == FromPairs(ln.order)
                C == {c \in Candidates(E) : BagOf(NormSeq(c)) = BagOf(R)}
            IN IF C = {} THEN [v |-> "InvalidQIgnored", V |-> <<>>, part |-> TRUE]
               \* Several candidate parses can keep the same items (the same text may be kept from one list element
               \* or from another under the undecided readings); they differ only in the client's order, so the
               \* order clause holds iff it holds for one of them.  Quality and choice depend on the bag only.
               ELSE LET CO == {c \in C : OrderOK(f, NormSeq(c), R)}
                        V  == NormSeq(IF CO # {} THEN CHOOSE c \in CO : TRUE ELSE CHOOSE c \in C : TRUE) IN
                    IF IsSpecial(E) THEN [v |-> "ok", V |-> V, part |-> TRUE]
                    ELSE [v |-> AfterParse(ln, f, V, R), V |-> V, part |-> FALSE]
  ELSE IF ln.op = "obj" THEN
       IF ~PairsWF(ln.items) \/ (\E i \in 1..Len(ln.items) : ElemW(ln.items[i].v).special) \/ (f # "mime" /\ \E i \in 1..Len(ln.items) : ValueW(ln.items[i].v).params # <<>>)
          \/ (f = "mime" /\ \E i \in 1..Len(ln.items) : Len(Split(ValueW(ln.items[i].v).main, SLASH)) > 2) THEN none
       ELSE IF ln.exc # "" THEN [v |-> "Raised", V |-> <<>>, part |-> TRUE]
       ELSE IF ~PairsWF(ln.order) THEN [v |-> "ItemsKept", V |-> <<>>, part |-> TRUE]
       ELSE LET V == FromPairs(ln.items)
                R == FromPairs(ln.order)
            IN IF BagOf(V) # BagOf(R) THEN [v |-> "ItemsKept", V |-> V, part |-> TRUE]
               ELSE [v |-> AfterParse(ln, f, V, R), V |-> V, part |-> FALSE]
  ELSE none

\* drift (never a verdict): lookups, helpers, to_header round trip
Drift(ln, j) ==
  IF j.v # "ok" \/ j.part THEN "ok"
  ELSE LET f == ln.fam
           sm == Summary(f, j.V, ln.offers)
           M(o) == Matched(f, j.V, o)
           html == <<116,101,120,116,47,104,116,109,108>>
           xhtml == <<97,112,112,108,105,99,97,116,105,111,110,47,120,104,116,109,108,43,120,109,108>>
           xml == <<97,112,112,108,105,99,97,116,105,111,110,47,120,109,108>>
           json == <<97,112,112,108,105,99,97,116,105,111,110,47,106,115,111,110>>
       IN IF ln.look.on /\ \E k \in 1..Len(ln.offers) : ln.look.contains[k] # sm[k].m THEN "__contains__ differs from 'some range matches'"
          ELSE IF ln.look.on /\ \E k \in 1..Len(ln.offers) : (ln.look.find[k] >= 0) # sm[k].m THEN "find/index differs from 'some range matches'"
          ELSE IF ln.look.on /\ f = "mime" /\ ln.look.xhtml # (M(xhtml) \/ M(xml)) THEN "accept_xhtml differs from the model"
          ELSE IF ln.look.on /\ f = "mime" /\ ln.look.html # (M(html) \/ M(xhtml) \/ M(xml)) THEN "accept_html differs from the model"
          ELSE IF ln.look.on /\ f = "mime" /\ ln.look.json # M(json) THEN "accept_json differs from the model"
          ELSE IF ln.rt /\ FromPairs(ln.rtorder) # FromPairs(ln.order) THEN "parse(to_header()) differs from the object"
          ELSE "ok"

Init == l = 1
Next == /\ l <= Len(Lines)
        /\ LET ln == Lines[l]
               j == Judge(ln)
               d == Drift(ln, j) IN
           /\ IF j.v = "ok" THEN TRUE
              ELSE PrintT(ToJson([reject |-> 1, t |-> ln.t, i |-> ln.i, clause |-> j.v]))
           /\ IF d = "ok" THEN TRUE ELSE PrintT(ToJson([drift |-> 1, t |-> ln.t, what |-> d]))
        /\ l' = l + 1

Done == PrintT(ToJson([judged |-> Len(Lines)])) /\ TLCGet("generated") >= 0
=============================================================================
