CONSTANTS
  Fams = {"accept", "mime", "language", "charset"}
  MaxItems = 1
  MaxOffers = 1
  QTexts <- QAll
  Seps <- SepPlain
  QPres <- QPreAll
  Wide = TRUE
  Variant = "fixed"
INIT Init
NEXT Next
CHECK_DEADLOCK FALSE
INVARIANT UniverseInDomain
INVARIANT ParseIgnoresBadQ
INVARIANT ImplMeetsContract
INVARIANT ImplQualityOK
INVARIANT NeverZeroOrUnmatched
INVARIANT HighestQuality
INVARIANT MoreSpecificWinsTies
INVARIANT OfferOrderBreaksTies
INVARIANT FallbackSharesPrimary
INVARIANT SortKeepsOrder
