CONSTANTS
  Fams = {"mime"}
  MaxItems = 2
  QTexts <- QSmall
  Styles = {"plain", "commaq", "ows"}
  WSeps <- SepSet
INIT Init
NEXT Next
CHECK_DEADLOCK FALSE
INVARIANT WideInDomain
INVARIANT IntendedIsCandidate
INVARIANT DecidedIsUnique
INVARIANT UndecidedIsSmall
INVARIANT NarrowAgrees
