------------------------------- MODULE Accept -------------------------------
(* Content negotiation (C17): contract and implementation-shaped model.                      *)
(*                                                                                           *)
(* Text is a sequence of code points.  A header is parsed by this module's own parser into   *)
(* items  [main, params, q]  (q in thousandths; items whose q is malformed, negative or > 1  *)
(* are ignored).  Per family f in {"accept", "mime", "language", "charset"}:                 *)
(*   Matches(f, item, offer), SpecOf(f, item)   -- range matching and specificity            *)
(*   Quality(f, V, offer)    -- q of the most specific matching range (max q among equals)   *)
(*   BestIdx(f, V, offers)   -- declarative choice: maximal positive quality, then the more  *)
(*                              specific deciding range, then offer order; 0 = no choice     *)
(*   LangBest(V, offers, strict) -- LanguageAccept with its documented primary-tag fallbacks *)
(* The contract is written from the property text / RFC 9110 section 12 / the class docs.    *)
(* The second half (Impl..)is shaped like the code: stable sort by (specificity, q)          *)
(* descending, first-match lookup, the best_match loop, the three-stage language fallback.   *)
EXTENDS Naturals, Sequences, FiniteSets, Bytes, TLC

COMMA == 44
SEMI == 59
EQ == 61
SLASH == 47
STAR == 42
DOT == 46
USCORE == 95
QCH == 113
STARS == <<42>>

IsWS(c) == c = SP \/ c = TAB
LowerC(c) == IF c >= 65 /\ c <= 90 THEN c + 32 ELSE c
Lower(s) == [i \in 1..Len(s) |-> LowerC(s[i])]
IsDigit(c) == c >= 48 /\ c <= 57
IsAlpha(c) == (c >= 65 /\ c <= 90) \/ (c >= 97 /\ c <= 122)
AllDigits(s) == s # <<>> /\ \A i \in 1..Len(s) : IsDigit(s[i])

RECURSIVE LTrim(_)
LTrim(s) == IF s # <<>> /\ IsWS(s[1]) THEN LTrim(Tail(s)) ELSE s
RECURSIVE RTrim(_)
RTrim(s) == IF s # <<>> /\ IsWS(s[Len(s)]) THEN RTrim(SubSeq(s, 1, Len(s) - 1)) ELSE s
Trim(s) == RTrim(LTrim(s))

IndexOf(s, c) == FindFrom(s, <<c>>, 1)

\* split on a code point (segments between the occurrences of c, in order)
Split(s, c) == LET P == {i \in 1..Len(s) : s[i] = c}
                   Rank(p) == Cardinality({d \in P : d <= p})
                   At(k) == IF k = 0 THEN 0 ELSE IF k > Cardinality(P) THEN Len(s) + 1 ELSE CHOOSE p \in P : Rank(p) = k
               IN IF P = {} THEN <<s>>
                  ELSE [k \in 1..(Cardinality(P) + 1) |-> SubSeq(s, At(k - 1) + 1, At(k) - 1)]

RECURSIVE Num(_)
Num(ds) == IF ds = <<>> THEN 0 ELSE 10 * Num(SubSeq(ds, 1, Len(ds) - 1)) + (ds[Len(ds)] - 48)

\* lexicographic order on sequences of naturals (a proper prefix is smaller), as for tuples
RECURSIVE LexLess(_, _)
LexLess(a, b) == IF b = <<>> THEN FALSE
                 ELSE IF a = <<>> THEN TRUE
                 ELSE IF a[1] # b[1] THEN a[1] < b[1]
                 ELSE LexLess(Tail(a), Tail(b))

(***************************************************************************)
(* Parsing                                                                 *)
(***************************************************************************)
QIgnored == 0 - 1       \* malformed, negative or > 1: the item is ignored
QOutside == 0 - 2       \* outside the claimed domain (more than 3 decimals, "-0", very long)

\* non-negative decimal  DIGIT+ [ "." DIGIT+ ]  in thousandths; QIgnored when malformed
UnsignedQ(t) ==
  LET parts == Split(t, DOT) IN
  IF Len(t) > 8 THEN QOutside
  ELSE IF Len(parts) = 1 THEN (IF AllDigits(t) THEN 1000 * Num(t) ELSE QIgnored)
  ELSE IF Len(parts) = 2 /\ AllDigits(parts[1]) /\ AllDigits(parts[2]) THEN
       (IF Len(parts[2]) > 3 THEN QOutside
        ELSE 1000 * Num(parts[1])
             + Num(parts[2]) * (CASE Len(parts[2]) = 1 -> 100 [] Len(parts[2]) = 2 -> 10 [] OTHER -> 1))
  ELSE QIgnored

QVal(t) ==
  IF t # <<>> /\ t[1] = DASH THEN
       LET u == UnsignedQ(Tail(t)) IN
       IF u = QOutside \/ u = 0 THEN QOutside ELSE QIgnored      \* negative (or malformed)
  ELSE LET u == UnsignedQ(t) IN
       IF u = QOutside THEN QOutside ELSE IF u = QIgnored \/ u > 1000 THEN QIgnored ELSE u

MainChar(c) == IsAlpha(c) \/ IsDigit(c) \/ c \in {DASH, USCORE, DOT, 43, STAR, SLASH}
ParamChar(c) == IsAlpha(c) \/ IsDigit(c) \/ c \in {DASH, USCORE, DOT, 43}

\* one list element -> [main, params, qs, wf]; params are "name=value" lowercased, q excluded
ParseItem(txt) ==
  LET segs == Split(txt, SEMI)
      main == Trim(segs[1])
      raw  == [i \in 1..(Len(segs) - 1) |-> Trim(segs[i + 1])]
      eqAt == [i \in 1..Len(raw) |-> IndexOf(raw[i], EQ)]
      name == [i \in 1..Len(raw) |-> Lower(Take(raw[i], eqAt[i] - 1))]
      val  == [i \in 1..Len(raw) |-> Drop(raw[i], eqAt[i])]
      isq  == [i \in 1..Len(raw) |-> name[i] = <<QCH>>]
      qidx == {i \in 1..Len(raw) : isq[i]}
      pidx == {i \in 1..Len(raw) : ~isq[i]}
      RECURSIVE Pick(_)
      Pick(i) == IF i > Len(raw) THEN <<>>
                 ELSE IF isq[i] THEN Pick(i + 1)
                 ELSE <<name[i] \o <<EQ>> \o Lower(val[i])>> \o Pick(i + 1)
      wfp  == \A i \in 1..Len(raw) :
                /\ eqAt[i] > 1 /\ val[i] # <<>>
                /\ \A k \in 1..Len(name[i]) : ParamChar(name[i][k])
                /\ \A k \in 1..Len(val[i]) : ParamChar(val[i][k])
  IN [main   |-> main,
      params |-> Pick(1),
      q      |-> IF qidx = {} THEN 1000 ELSE QVal(val[CHOOSE i \in qidx : TRUE]),
      wf     |-> /\ main # <<>> /\ \A k \in 1..Len(main) : MainChar(main[k])
                 /\ wfp /\ Cardinality(qidx) <= 1]

ParseAll(h) == LET els == Split(h, COMMA) IN [i \in 1..Len(els) |-> ParseItem(Trim(els[i]))]

\* the claimed input domain of header texts (see the driver: everything it generates is inside)
InDomainP(f, h, ps) ==
  /\ h # <<>>
  /\ \A i \in 1..Len(ps) : /\ ps[i].wf /\ ps[i].q # QOutside
                           /\ (f # "mime" => ps[i].params = <<>>)
                           /\ (f = "mime" => Len(Split(ps[i].main, SLASH)) <= 2)
HeaderInDomain(f, h) == InDomainP(f, h, ParseAll(h))

\* the valid items in the client's order
ValidP(ps) == SelectSeq([i \in 1..Len(ps) |-> [main |-> ps[i].main, params |-> ps[i].params, q |-> ps[i].q]],
                        LAMBDA it : it.q # QIgnored)
Valid(h) == ValidP(ParseAll(h))

\* an item as the code exposes it ("main; p=1; r=2", no q) -> [main, params]
ParseValue(txt) == LET p == ParseItem(txt) IN [main |-> p.main, params |-> p.params]

(***************************************************************************)
(* Families                                                                *)
(***************************************************************************)
DelimPos(s) == LET a == IndexOf(s, DASH) b == IndexOf(s, USCORE) IN
               IF a = 0 THEN b ELSE IF b = 0 THEN a ELSE Min2(a, b)
Primary(s) == IF DelimPos(s) = 0 THEN s ELSE Take(s, DelimPos(s) - 1)
NormLang(s) == [i \in 1..Len(s) |-> IF s[i] = USCORE THEN DASH ELSE LowerC(s[i])]

\* charset alias classes (python codec registry), on lowercased names
U8  == {<<117,116,102,56>>, <<117,116,102,45,56>>, <<117,116,102,95,56>>, <<117,56>>}
L1  == {<<108,97,116,105,110,49>>, <<108,97,116,105,110,45,49>>, <<105,115,111,45,56,56,53,57,45,49>>,
        <<105,115,111,56,56,53,57,45,49>>, <<108,49>>}
ASC == {<<97,115,99,105,105>>, <<117,115,45,97,115,99,105,105>>, <<54,52,54>>}
Canon(s) == LET x == Lower(s) IN
            IF x \in U8 THEN <<1>> ELSE IF x \in L1 THEN <<2>> ELSE IF x \in ASC THEN <<3>> ELSE x

\* MIME: [ok, type, subtype, params (sorted as a bag)]
BagOf(ps) == [x \in {ps[i] : i \in 1..Len(ps)} |-> Cardinality({i \in 1..Len(ps) : ps[i] = x})]
MimeOf(main, params) ==
  LET p == Split(Lower(main), SLASH) IN
  IF Len(p) # 2 THEN [ok |-> FALSE, ty |-> <<>>, st |-> <<>>, ps |-> BagOf(<<>>)]
  ELSE [ok |-> ~(p[1] = STARS /\ p[2] # STARS), ty |-> p[1], st |-> p[2], ps |-> BagOf(params)]
MimeOffer(o) == LET v == ParseValue(o) IN MimeOf(v.main, v.params)
MimeMatches(r, v) ==
  /\ r.ok /\ v.ok
  /\ \/ (r.ty = STARS /\ r.st = STARS) \/ (v.ty = STARS /\ v.st = STARS)
     \/ /\ r.ty = v.ty
        /\ (r.st = STARS \/ v.st = STARS \/ (r.st = v.st /\ r.ps = v.ps))

OfferInDomain(f, o) ==
  /\ o # <<>>
  /\ IF f = "mime" THEN LET p == ParseItem(o) IN p.wf /\ p.q = 1000 /\ MimeOffer(o).ok
     ELSE \A k \in 1..Len(o) : MainChar(o[k]) /\ o[k] # SLASH /\ o[k] # STAR

\* prepared forms (computed once per item / offer): what matching and ranking look at
PrepItem(f, it) ==
  [q    |-> it.q,
   star |-> it.main = STARS,
   nf   |-> CASE f = "accept" -> Lower(it.main) [] f = "language" -> NormLang(it.main)
              [] f = "charset" -> Canon(it.main) [] f = "mime" -> MimeOf(it.main, it.params),
   spec |-> IF f = "mime"       \* specificity: compared lexicographically; a wildcard component counts 0
            THEN LET p == Split(it.main, SLASH) IN
                 [i \in 1..Len(p) |-> IF p[i] = STARS THEN 0 ELSE 1] \o [i \in 1..Len(it.params) |-> 1]
            ELSE <<IF it.main = STARS THEN 0 ELSE 1>>]
PrepOffer(f, o) == CASE f = "accept" -> Lower(o) [] f = "language" -> NormLang(o)
                     [] f = "charset" -> Canon(o) [] f = "mime" -> MimeOffer(o)
PrepItems(f, V) == [i \in 1..Len(V) |-> PrepItem(f, V[i])]
PrepOffers(f, offers) == [k \in 1..Len(offers) |-> PrepOffer(f, offers[k])]

\* does the client's range (prepared) match the server's offer (prepared)?
MatchesP(f, pi, po) == IF f = "mime" THEN MimeMatches(pi.nf, po) ELSE pi.star \/ pi.nf = po
Matches(f, it, o) == MatchesP(f, PrepItem(f, it), PrepOffer(f, o))
SpecOf(f, it) == PrepItem(f, it).spec

(***************************************************************************)
(* Contract                                                                *)
(***************************************************************************)
\* per offer: m = some range matches; q = the q of the most specific matching range (the
\* maximum among equally specific ones), 0 if none; ds = the specificity of that range
SummaryP(f, V, PV, PO) ==
     [k \in 1..Len(PO) |->
        LET M == {i \in 1..Len(V) : MatchesP(f, PV[i], PO[k])}
            T == {i \in M : \A j \in M : ~LexLess(PV[i].spec, PV[j].spec)}
        IN IF M = {} THEN [m |-> FALSE, q |-> 0, ds |-> <<>>]
           ELSE [m |-> TRUE,
                 q |-> CHOOSE q \in {V[i].q : i \in T} : \A i \in T : V[i].q <= q,
                 ds |-> PV[CHOOSE i \in T : TRUE].spec]]
Summary(f, V, offers) == SummaryP(f, V, PrepItems(f, V), PrepOffers(f, offers))
Quality(f, V, o) == Summary(f, V, <<o>>)[1].q
Matched(f, V, o) == Summary(f, V, <<o>>)[1].m

\* the choice from a summary: maximal positive quality, then the more specific deciding
\* range, then offer order; 0 = no acceptable offer
BestOfSummary(sm) ==
  LET C  == {k \in DOMAIN sm : sm[k].m /\ sm[k].q > 0}
      BQ == {k \in C : \A j \in C : sm[j].q <= sm[k].q}
      BS == {k \in BQ : \A j \in BQ : ~LexLess(sm[k].ds, sm[j].ds)}
  IN IF BS = {} THEN 0 ELSE CHOOSE k \in BS : \A j \in BS : k <= j
BestIdx(f, V, offers) == BestOfSummary(Summary(f, V, offers))

\* LanguageAccept: exact stage, then the client's ranges cut to their primary tag, then the
\* offers cut to their primary tag.  strict: an offer that some range matches exactly (it then
\* has quality 0 when the exact stage chose nothing) is never chosen by a fallback.
LangStageS(V, offers, sm, strict) ==
  LET b1 == BestOfSummary(sm)
      E  == SelectSeq([k \in 1..Len(offers) |-> k], LAMBDA k : ~strict \/ ~sm[k].m)
      oe == [k \in 1..Len(E) |-> offers[E[k]]]
      V2 == [i \in 1..Len(V) |-> [main |-> Primary(V[i].main), params |-> V[i].params, q |-> V[i].q]]
      b2 == BestIdx("accept", V2, oe)
      b3 == BestIdx("language", V, [k \in 1..Len(oe) |-> Primary(oe[k])])
  IN IF b1 > 0 THEN [idx |-> b1, stage |-> 1]
     ELSE IF E = <<>> THEN [idx |-> 0, stage |-> 0]
     ELSE IF b2 > 0 THEN [idx |-> E[b2], stage |-> 2]
     ELSE IF b3 > 0 THEN [idx |-> E[b3], stage |-> 3]
     ELSE [idx |-> 0, stage |-> 0]
LangStage(V, offers, strict) == LangStageS(V, offers, Summary("language", V, offers), strict)
LangBest(V, offers, strict) == LangStage(V, offers, strict).idx

ChoiceS(f, V, offers, sm) == IF f = "language" THEN LangStageS(V, offers, sm, TRUE).idx ELSE BestOfSummary(sm)
Choice(f, V, offers) == ChoiceS(f, V, offers, Summary(f, V, offers))

(***************************************************************************)
(* Implementation-shaped model                                             *)
(***************************************************************************)
\* the implementation-shaped operators work on prepared items (PrepItems) and prepared offers
KeyLess(a, b) == LexLess(a.spec, b.spec) \/ (a.spec = b.spec /\ a.q < b.q)
\* sorted(values, key=(specificity, q), reverse=True): stable, descending
RECURSIVE InsertDesc(_, _)
InsertDesc(sorted, x) ==
  IF sorted = <<>> THEN <<x>>
  ELSE IF KeyLess(Head(sorted), x) THEN <<x>> \o sorted
  ELSE <<Head(sorted)>> \o InsertDesc(Tail(sorted), x)
RECURSIVE SortDesc(_)
SortDesc(PV) == IF PV = <<>> THEN <<>> ELSE InsertDesc(SortDesc(SubSeq(PV, 1, Len(PV) - 1)), PV[Len(PV)])

\* _best_single_match on the sorted list: position of the first matching item, 0 if none
RECURSIVE FirstMatch(_, _, _, _)
FirstMatch(f, S, po, i) == IF i > Len(S) THEN 0 ELSE IF MatchesP(f, S[i], po) THEN i ELSE FirstMatch(f, S, po, i + 1)
ImplQuality(f, S, po) == LET i == FirstMatch(f, S, po, 1) IN IF i = 0 THEN 0 ELSE S[i].q

\* the best_match loop; variant "nospec": without the specificity tie-break (a plausible regression)
RECURSIVE ImplLoop(_, _, _, _, _, _)
ImplLoop(f, S, PO, k, st, variant) ==
  IF k > Len(PO) THEN st.res
  ELSE LET i == FirstMatch(f, S, PO[k], 1) IN
       IF i = 0 THEN ImplLoop(f, S, PO, k + 1, st, variant)
       ELSE LET q == S[i].q  sp == S[i].spec IN
            IF q <= 0 \/ (st.res > 0 /\ q < st.bq) THEN ImplLoop(f, S, PO, k + 1, st, variant)
            ELSE IF st.res = 0 \/ q > st.bq \/ (variant # "nospec" /\ LexLess(st.bs, sp))
                 THEN ImplLoop(f, S, PO, k + 1, [res |-> k, bq |-> q, bs |-> sp], variant)
                 ELSE ImplLoop(f, S, PO, k + 1, st, variant)
ImplBest(f, S, PO, variant) == ImplLoop(f, S, PO, 1, [res |-> 0, bq |-> 0, bs |-> <<>>], variant)

\* LanguageAccept.best_match; variant "head" = the code before the fixes (the fallbacks consider
\* every offer; the third stage maps back with str.startswith), otherwise after the fixes.
FirstStartsWith(offers, p) == LET H == {k \in 1..Len(offers) : IsPrefixOf(p, offers[k])} IN
                              CHOOSE k \in H : \A j \in H : k <= j
ImplLang(V, offers, variant) ==
  LET S  == SortDesc(PrepItems("language", V))
      PO == PrepOffers("language", offers)
      r1 == ImplBest("language", S, PO, variant)
      E  == SelectSeq([k \in 1..Len(offers) |-> k],
                      LAMBDA k : variant = "head" \/ FirstMatch("language", S, PO[k], 1) = 0)
      oe == [k \in 1..Len(E) |-> offers[E[k]]]
      \* the fallback list is built from the sorted list and sorted again as a plain Accept
      VS == LET idx == SortDesc([i \in 1..Len(V) |-> PrepItem("language", V[i]) @@ [pos |-> i]]) IN
            [i \in 1..Len(V) |-> V[idx[i].pos]]
      S2 == SortDesc(PrepItems("accept", [i \in 1..Len(VS) |-> [main |-> Primary(VS[i].main), params |-> <<>>, q |-> VS[i].q]]))
      r2 == ImplBest("accept", S2, PrepOffers("accept", oe), variant)
      fb == [k \in 1..Len(oe) |-> Primary(oe[k])]
      r3 == ImplBest("language", S, PrepOffers("language", fb), variant)
  IN IF r1 > 0 THEN r1
     ELSE IF E = <<>> THEN 0
     ELSE IF r2 > 0 THEN E[r2]
     ELSE IF r3 > 0 THEN (IF variant = "head" THEN E[FirstStartsWith(oe, fb[r3])] ELSE E[r3])
     ELSE 0

ImplChoice(f, V, offers, variant) ==
  IF f = "language" THEN ImplLang(V, offers, variant)
  ELSE ImplBest(f, SortDesc(PrepItems(f, V)), PrepOffers(f, offers), variant)
=============================================================================
