----------------------------- MODULE AcceptWide -----------------------------
(* C17, wider header domain: what RFC 9110 allows and real clients send.                      *)
(*                                                                                            *)
(* Decided (by the property text, RFC 9110 5.6.1 / 5.6.6 / 12.4.2 and parse_accept_header's    *)
(* documentation, which agree): list elements are split at commas OUTSIDE quoted strings,      *)
(* parameters at semicolons outside quoted strings, optional SP / HTAB around ',' and ';',     *)
(* empty parameter segments are skipped, parameter names are case-insensitive ("Q=" is the     *)
(* weight), a quoted parameter value equals its unquoted token form, an item whose q is not    *)
(* DIGIT+ ["." DIGIT+] (".5", "abc", "1e0", "+1"), is negative or > 1 is ignored.              *)
(*                                                                                            *)
(* Not decided (RFC 9110 and werkzeug's documented grammar disagree, or neither speaks): every *)
(* treatment is accepted and the one observed is reported as drift, never as a verdict:        *)
(*   q "1." / "0."  (RFC: valid, werkzeug: malformed)         -> ignored | its value           *)
(*   q with > 3 decimals, leading zeros "00.5" (RFC: malformed, werkzeug: number) -> ignored | *)
(*     its value (if > 1: ignored);   "-0", "-0.0" -> ignored | 0                              *)
(*   duplicate q parameters            -> any one of them decides                              *)
(*   white space around "=" (RFC "bad whitespace"; parse_options_header skips invalid parts)   *)
(*                                     -> value used | parameter skipped | (for q) item ignored*)
(*   q= with an empty value            -> parameter skipped (q = 1) | item ignored             *)
(*   q="0.5" (quoted weight)           -> as the token | item ignored                          *)
(*   parameters after q (accept-ext of RFC 7231, dropped by RFC 9110) -> part of the range |   *)
(*                                        not part of the range                                *)
(*   empty list elements ("a,,b"; RFC: ignore them; the text says nothing) -> no item | an     *)
(*     item with an empty range (it can match no offer of the domain); filtered on both sides  *)
(* Outside the domain (skipped and counted): backslash escapes (urllib's list splitter drops   *)
(* the backslash), quotes anywhere but around a whole parameter value, parameters without      *)
(* "=", names with "*", duplicate parameter names other than q, non-token characters, q with > 6 decimals, > 64 alternative parses.    *)
(* q values are in millionths here.                                                            *)
EXTENDS Accept

DQ == 34
BSL == 92
MICRO == 1000000

\* st[i] = 1 iff character i lies inside a quoted string (the quotes themselves count as inside)
RECURSIVE ScanQ(_, _, _)
ScanQ(s, i, inq) == IF i > Len(s) THEN <<>>
                    ELSE IF s[i] = DQ THEN <<1>> \o ScanQ(s, i + 1, ~inq)
                    ELSE <<IF inq THEN 1 ELSE 0>> \o ScanQ(s, i + 1, inq)
HasQuote(s) == \E i \in 1..Len(s) : s[i] = DQ
BalancedQuotes(s) == Cardinality({i \in 1..Len(s) : s[i] = DQ}) % 2 = 0

\* split at the occurrences of c outside quoted strings
SplitQ(s, c) ==
  IF ~HasQuote(s) THEN Split(s, c)
  ELSE LET m == ScanQ(s, 1, FALSE)
           P == {i \in 1..Len(s) : s[i] = c /\ m[i] = 0}
           Rank(p) == Cardinality({d \in P : d <= p})
           At(k) == IF k = 0 THEN 0 ELSE IF k > Cardinality(P) THEN Len(s) + 1 ELSE CHOOSE p \in P : Rank(p) = k
       IN IF P = {} THEN <<s>>
          ELSE [k \in 1..(Cardinality(P) + 1) |-> SubSeq(s, At(k - 1) + 1, At(k) - 1)]

Pow10(n) == CASE n = 0 -> 1 [] n = 1 -> 10 [] n = 2 -> 100 [] n = 3 -> 1000 [] n = 4 -> 10000 [] n = 5 -> 100000 [] OTHER -> 1000000
AllZero(ds) == \A i \in 1..Len(ds) : ds[i] = 48
Bit(d) == d = <<48>> \/ d = <<49>>

\* the set of admissible meanings of a q token: millionths, QIgnored, or QOutside
QAltsTok(t) ==
  LET neg   == t # <<>> /\ t[1] = DASH
      u     == IF neg THEN Tail(t) ELSE t
      parts == Split(u, DOT)
      cap(v) == IF v > MICRO THEN QIgnored ELSE v
  IN IF Len(t) > 9 THEN {QOutside}
     ELSE IF Len(parts) = 1 THEN
          (IF ~AllDigits(u) THEN {QIgnored}
           ELSE IF neg THEN (IF Num(u) = 0 THEN {QIgnored, 0} ELSE {QIgnored})
           ELSE IF Bit(u) THEN {MICRO * Num(u)}
           ELSE {QIgnored, cap(MICRO * Num(u))})                              \* "01", "2", "00"
     ELSE IF Len(parts) = 2 /\ AllDigits(parts[1]) /\ parts[2] = <<>> THEN       \* "1."
          (IF neg \/ ~Bit(parts[1]) THEN {QIgnored} ELSE {QIgnored, MICRO * Num(parts[1])})
     ELSE IF Len(parts) = 2 /\ AllDigits(parts[1]) /\ AllDigits(parts[2]) THEN
          (IF Len(parts[2]) > 6 THEN {QOutside}
           ELSE LET v == MICRO * Num(parts[1]) + Num(parts[2]) * Pow10(6 - Len(parts[2]))
                    rfc == Bit(parts[1]) /\ Len(parts[2]) <= 3 /\ (parts[1] = <<49>> => AllZero(parts[2]))
                IN IF neg THEN (IF v = 0 THEN {QIgnored, 0} ELSE {QIgnored})
                   ELSE IF v > MICRO THEN {QIgnored}
                   ELSE IF rfc THEN {v} ELSE {QIgnored, v})
     ELSE {QIgnored}

QuotedChar(c) == c >= 32 /\ c <= 126 /\ c # DQ /\ c # BSL

\* one parameter segment (trimmed, non-empty) -> record
ParamW(raw) ==
  LET e    == IndexOf(raw, EQ)
      nraw == Take(raw, e - 1)
      vraw == Drop(raw, e)
      name == Lower(Trim(nraw))
      v0   == Trim(vraw)
      quoted == v0 # <<>> /\ v0[1] = DQ
      val  == IF quoted /\ Len(v0) >= 2 THEN SubSeq(v0, 2, Len(v0) - 1) ELSE v0
  IN [name   |-> name,
      val    |-> val,
      quoted |-> quoted,
      wsbad  |-> e > 0 /\ (nraw # RTrim(nraw) \/ vraw # LTrim(vraw)),
      isq    |-> name = <<QCH>>,
      ok     |-> /\ e > 1 /\ name # <<>>
                 /\ \A k \in 1..Len(name) : ParamChar(name[k])
                 /\ IF quoted THEN /\ Len(v0) >= 2 /\ v0[Len(v0)] = DQ
                                   /\ \A k \in 1..Len(val) : QuotedChar(val[k])
                    ELSE \A k \in 1..Len(v0) : ParamChar(v0[k]),
      \* "/" and ";" inside a value: the MIME normal form of the code splits there (undecided ranking)
      special |-> \E k \in 1..Len(val) : val[k] = SEMI \/ val[k] = SLASH]

NormParam(p) == p.name \o <<EQ>> \o Lower(p.val)

\* one list element -> [wf, special, alts]; alts = set of [main, params, q] (q may be QIgnored)
ElemW(txt) ==
  LET segs == SplitQ(txt, SEMI)
      main == Trim(segs[1])
      raws == SelectSeq([i \in 1..(Len(segs) - 1) |-> Trim(segs[i + 1])], LAMBDA x : x # <<>>)
      ps   == [i \in 1..Len(raws) |-> ParamW(raws[i])]
      qi   == {i \in 1..Len(ps) : ps[i].isq}
      firstq == IF qi = {} THEN Len(ps) + 1 ELSE CHOOSE i \in qi : \A j \in qi : i <= j
      RECURSIVE Sel(_, _, _)
      \* non-q parameters: upto = positions considered, skipbad = leave out those with bad white space
      Sel(i, upto, skipbad) ==
        IF i > Len(ps) \/ i >= upto THEN <<>>
        ELSE IF ps[i].isq \/ (skipbad /\ ps[i].wsbad) \/ (~ps[i].wsbad /\ ps[i].val = <<>> /\ ~ps[i].quoted)
             THEN Sel(i + 1, upto, skipbad)
             ELSE <<NormParam(ps[i])>> \o Sel(i + 1, upto, skipbad)
      PA == {Sel(1, Len(ps) + 1, FALSE), Sel(1, Len(ps) + 1, TRUE), Sel(1, firstq, FALSE), Sel(1, firstq, TRUE)}
      QOf(p) == IF p.wsbad THEN QAltsTok(p.val) \cup {MICRO, QIgnored}
                ELSE IF p.val = <<>> THEN {MICRO, QIgnored}
                ELSE IF p.quoted THEN QAltsTok(p.val) \cup {QIgnored}
                ELSE QAltsTok(p.val)
      QA == IF qi = {} THEN {MICRO} ELSE UNION {QOf(ps[i]) : i \in qi}
  IN [wf      |-> /\ \A k \in 1..Len(main) : MainChar(main[k])
                  /\ \A i \in 1..Len(ps) : ps[i].ok
                  /\ \A i, j \in 1..Len(ps) : (i < j /\ ~ps[i].isq /\ ps[i].name = ps[j].name) => FALSE   \* duplicate names: undecided
                  /\ ~(QOutside \in QA),
      empty   |-> main = <<>>,
      special |-> \E i \in 1..Len(ps) : ps[i].special,
      alts    |-> {[main |-> main, params |-> p, q |-> q] : p \in PA, q \in QA}]

ElemsW(h) == LET els == SplitQ(h, COMMA) IN [i \in 1..Len(els) |-> ElemW(Trim(els[i]))]

RECURSIVE Product(_)
Product(E) == IF E = <<>> THEN {<<>>}
              ELSE {<<a>> \o r : a \in Head(E).alts, r \in Product(Tail(E))}
RECURSIVE Combos(_)
Combos(E) == IF E = <<>> THEN 1 ELSE Cardinality(Head(E).alts) * Combos(Tail(E))

\* the candidate parses of a header: sequences of valid items in the client's order
WideDomain(f, h, E) ==
  /\ h # <<>> /\ BalancedQuotes(h) /\ ~(\E i \in 1..Len(h) : h[i] = BSL)
  /\ \A i \in 1..Len(E) : E[i].wf
  /\ Combos(E) <= 64
  /\ (f # "mime" => \A i \in 1..Len(E) : \A a \in E[i].alts : a.params = <<>>)
  /\ (f = "mime" => \A i \in 1..Len(E) : \A a \in E[i].alts : Len(Split(a.main, SLASH)) <= 2)
Candidates(E) ==
  LET NE == SelectSeq(E, LAMBDA e : ~e.empty) IN
  {SelectSeq(c, LAMBDA it : it.q # QIgnored) : c \in Product(NE)}
IsSpecial(E) == \E i \in 1..Len(E) : E[i].special

\* a value as the code exposes it ("main; p=1; t=\"a b\"") -> [main, params]
ValueW(txt) == LET e == ElemW(txt) IN
               LET a == CHOOSE x \in e.alts : \A y \in e.alts : Len(y.params) <= Len(x.params) IN
               [main |-> a.main, params |-> a.params]
=============================================================================
