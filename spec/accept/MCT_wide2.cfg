CONSTANTS
  Fams = {"mime", "accept"}
  MaxItems = 2
  QTexts <- QPick
  Styles = {"plain", "quoted", "ows", "upperq", "emptyseg", "commaq"}
  WSeps <- SepSet
INIT Init
NEXT Next
CHECK_DEADLOCK FALSE
INVARIANT WideInDomain
INVARIANT IntendedIsCandidate
INVARIANT DecidedIsUnique
INVARIANT UndecidedIsSmall
INVARIANT NarrowAgrees
