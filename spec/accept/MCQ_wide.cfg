CONSTANTS
  Fams = {"mime", "accept"}
  MaxItems = 1
  QTexts <- QAll
  Styles = {"plain", "quoted", "ows", "upperq", "emptyseg", "commaq"}
  WSeps <- SepOne
INIT Init
NEXT Next
CHECK_DEADLOCK FALSE
INVARIANT WideInDomain
INVARIANT IntendedIsCandidate
INVARIANT DecidedIsUnique
INVARIANT UndecidedIsSmall
INVARIANT NarrowAgrees
