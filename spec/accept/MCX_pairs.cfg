CONSTANTS
  Fams = {"accept", "mime", "language", "charset"}
  MaxItems = 1
  MaxOffers = 2
  QTexts <- QSmall
  Seps <- SepPlain
  QPres <- QPrePlain
  Wide = TRUE
  Variant = "fixed"
INIT Init
NEXT Next
CHECK_DEADLOCK FALSE
INVARIANT Export
