------------------------------ MODULE MCAccept ------------------------------
(* Bounded instance for C17: every header of at most MaxItems items over the family's range  *)
(* universe x q texts (x separators), every non-empty offer list of at most MaxOffers.        *)
(* The header is a TEXT; it is parsed by Accept.tla's parser, the contract (Choice, Quality)  *)
(* is evaluated on the parse, and the implementation-shaped model (sort + loops) must meet it.*)
EXTENDS Accept, MCUniverse, TLC, Json

CONSTANTS Fams,        \* subset of {"accept", "mime", "language", "charset"}
          MaxItems, MaxOffers,
          QTexts,      \* QSmall / QProp / QAll
          Seps, QPres, \* separators
          Wide,        \* BOOLEAN: the wider range / offer universe
          Variant      \* "fixed" | "head" (language fallbacks before the fixes) | "nospec" | "qfirst"
VARIABLES fam, offers, hdr, want, n
vars == <<fam, offers, hdr, want, n>>

RangesOf(f) == CASE f = "mime" -> IF Wide THEN RangesWideMime ELSE RangesMime
                 [] f = "language" -> IF Wide THEN RangesWideLanguage ELSE RangesLanguage
                 [] f = "charset" -> IF Wide THEN RangesWideCharset ELSE RangesCharset
                 [] f = "accept" -> IF Wide THEN RangesWideAccept ELSE RangesAccept
OffersOf(f) == CASE f = "mime" -> IF Wide THEN OffersWideMime ELSE OffersMime
                 [] f = "language" -> IF Wide THEN OffersWideLanguage ELSE OffersLanguage
                 [] f = "charset" -> IF Wide THEN OffersWideCharset ELSE OffersCharset
                 [] f = "accept" -> IF Wide THEN OffersWideAccept ELSE OffersAccept

Init == /\ fam \in Fams
        /\ offers \in (SeqsUpTo(OffersOf(fam), MaxOffers) \ {<<>>})
        /\ hdr = <<>> /\ want = <<>> /\ n = 0

\* append one list element; `want` is the intended parse, kept structurally (not via the parser)
Add == /\ n < MaxItems
       /\ \E r \in RangesOf(fam), q \in QTexts, sep \in Seps, qp \in QPres :
            LET it == r.txt \o (IF q.absent THEN <<>> ELSE qp \o q.txt) IN
            /\ hdr' = IF n = 0 THEN it ELSE hdr \o sep \o it
            /\ want' = IF q.val < 0 THEN want ELSE Append(want, [main |-> r.main, params |-> r.params, q |-> q.val])
       /\ n' = n + 1
       /\ UNCHANGED <<fam, offers>>
Next == Add
Spec == Init /\ [][Next]_vars

V == IF n = 0 THEN <<>> ELSE Valid(hdr)
S == SortDesc(fam, V)
\* variant "qfirst": sort by quality before specificity (the order before werkzeug 0.9)
RECURSIVE InsQ(_, _)
InsQ(sorted, x) == IF sorted = <<>> THEN <<x>>
                   ELSE IF Head(sorted).q < x.q \/ (Head(sorted).q = x.q /\ LexLess(SpecOf(fam, Head(sorted)), SpecOf(fam, x)))
                        THEN <<x>> \o sorted ELSE <<Head(sorted)>> \o InsQ(Tail(sorted), x)
RECURSIVE SortQ(_)
SortQ(W) == IF W = <<>> THEN <<>> ELSE InsQ(SortQ(SubSeq(W, 1, Len(W) - 1)), W[Len(W)])
SI == IF Variant = "qfirst" THEN SortQ(V) ELSE S
Impl == IF fam = "language" THEN ImplLang(V, offers, Variant) ELSE ImplBest(fam, SI, offers, Variant)
Q(k) == Quality(fam, V, offers[k])

\* ---- the universe is inside the claimed domain, and the parser returns the intended items
UniverseInDomain == /\ (n > 0 => HeaderInDomain(fam, hdr))
                    /\ \A k \in 1..Len(offers) : OfferInDomain(fam, offers[k])
ParseIgnoresBadQ == n > 0 => Valid(hdr) = want
\* ---- the property, stated on the implementation-shaped model's result
ImplMeetsContract == Impl = Choice(fam, V, offers)
ImplQualityOK == \A k \in 1..Len(offers) : ImplQuality(fam, SI, offers[k]) = Q(k)
NeverZeroOrUnmatched ==
  Impl > 0 => IF fam = "language" THEN ~(Matched(fam, V, offers[Impl]) /\ Q(Impl) = 0)
              ELSE Matched(fam, V, offers[Impl]) /\ Q(Impl) > 0
HighestQuality ==
  /\ Impl > 0 => (Q(Impl) > 0 => \A k \in 1..Len(offers) : Q(k) <= Q(Impl))
  /\ Impl = 0 => \A k \in 1..Len(offers) : Q(k) = 0
MoreSpecificWinsTies ==
  (Impl > 0 /\ Q(Impl) > 0) => \A k \in 1..Len(offers) :
      Q(k) = Q(Impl) => ~LexLess(DecSpec(fam, V, offers[Impl]), DecSpec(fam, V, offers[k]))
OfferOrderBreaksTies ==
  (Impl > 0 /\ Q(Impl) > 0) => \A k \in 1..(Impl - 1) :
      ~(Q(k) = Q(Impl) /\ DecSpec(fam, V, offers[k]) = DecSpec(fam, V, offers[Impl]))
\* language fallbacks: a fallback choice shares its primary tag with a range of positive q
FallbackSharesPrimary ==
  (fam = "language" /\ Impl > 0 /\ Q(Impl) = 0) =>
      \E i \in 1..Len(V) : V[i].q > 0 /\ V[i].main # STARS
                           /\ Lower(Primary(V[i].main)) = Lower(Primary(offers[Impl]))
\* sorted list: stable, i.e. the client's order among equal (specificity, q)
SortKeepsOrder ==
  \A i, j \in 1..Len(S) : (i < j /\ SpecOf(fam, S[i]) = SpecOf(fam, S[j]) /\ S[i].q = S[j].q) =>
      \E a, b \in 1..Len(V) : a < b /\ V[a] = S[i] /\ V[b] = S[j]

\* ---- export for the replay against the real classes
Export == IF n = 0 THEN TRUE
          ELSE PrintT(ToJson([fam |-> fam, hdr |-> hdr, offers |-> offers, best |-> Choice(fam, V, offers),
                              quals |-> [k \in 1..Len(offers) |-> Q(k)]]))
=============================================================================
