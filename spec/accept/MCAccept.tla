------------------------------ MODULE MCAccept ------------------------------
(* Bounded instance for C17: every header of at most MaxItems items over the family's range  *)
(* universe x q texts (x separators), every non-empty offer list of at most MaxOffers.        *)
(* The header is a TEXT; it is parsed by Accept.tla's parser, the contract (Choice, Quality)  *)
(* is evaluated on the parse, and the implementation-shaped model (sort + loops) must meet it.*)
EXTENDS Accept, MCUniverse, TLC, Json

CONSTANTS Fams,        \* subset of {"accept", "mime", "language", "charset"}
          MaxItems, MaxOffers,
          QTexts,      \* QSmall / QProp / QAll
          Seps, QPres, \* separators
          Wide,        \* BOOLEAN: the wider range / offer universe
          Variant      \* "fixed" | "head" (language fallbacks before the fixes) | "nospec" | "qfirst"
VARIABLES fam, offers, hdr, want, n,
          r            \* everything derived from (fam, hdr, offers), computed once per state
vars == <<fam, offers, hdr, want, n, r>>

RangesOf(f) == CASE f = "mime" -> IF Wide THEN RangesWideMime ELSE RangesMime
                 [] f = "language" -> IF Wide THEN RangesWideLanguage ELSE RangesLanguage
                 [] f = "charset" -> IF Wide THEN RangesWideCharset ELSE RangesCharset
                 [] f = "accept" -> IF Wide THEN RangesWideAccept ELSE RangesAccept
OffersOf(f) == CASE f = "mime" -> IF Wide THEN OffersWideMime ELSE OffersMime
                 [] f = "language" -> IF Wide THEN OffersWideLanguage ELSE OffersLanguage
                 [] f = "charset" -> IF Wide THEN OffersWideCharset ELSE OffersCharset
                 [] f = "accept" -> IF Wide THEN OffersWideAccept ELSE OffersAccept

\* variant "qfirst": sort by quality before specificity (the order before werkzeug 0.9)
RECURSIVE InsQ(_, _)
InsQ(sorted, x) == IF sorted = <<>> THEN <<x>>
                   ELSE IF Head(sorted).q < x.q \/ (Head(sorted).q = x.q /\ LexLess(Head(sorted).spec, x.spec))
                        THEN <<x>> \o sorted ELSE <<Head(sorted)>> \o InsQ(Tail(sorted), x)
RECURSIVE SortQ(_)
SortQ(W) == IF W = <<>> THEN <<>> ELSE InsQ(SortQ(SubSeq(W, 1, Len(W) - 1)), W[Len(W)])

Eval(f, h, os, nn) ==
  LET ps == ParseAll(h)
      V  == IF nn = 0 THEN <<>> ELSE ValidP(ps)
      PV == [i \in 1..Len(V) |-> PrepItem(f, V[i]) @@ [pos |-> i]]
      PO == PrepOffers(f, os)
      sm == SummaryP(f, V, PV, PO)
      S  == IF Variant = "qfirst" THEN SortQ(PV) ELSE SortDesc(PV)
  IN [V      |-> V,
      sm     |-> sm,
      choice |-> ChoiceS(f, V, os, sm),
      impl   |-> IF f = "language" THEN ImplLang(V, os, Variant) ELSE ImplBest(f, S, PO, Variant),
      iq     |-> [k \in 1..Len(os) |-> ImplQuality(f, S, PO[k])],
      S      |-> S,
      indom  |-> (nn > 0 => InDomainP(f, h, ps)) /\ \A k \in 1..Len(os) : OfferInDomain(f, os[k])]

Init == /\ fam \in Fams
        /\ offers \in (SeqsUpTo(OffersOf(fam), MaxOffers) \ {<<>>})
        /\ hdr = <<>> /\ want = <<>> /\ n = 0
        /\ r = Eval(fam, hdr, offers, 0)

\* append one list element; `want` is the intended parse, kept structurally (not via the parser)
Add == /\ n < MaxItems
       /\ \E rg \in RangesOf(fam), q \in QTexts, sep \in Seps, qp \in QPres :
            LET it == rg.txt \o (IF q.absent THEN <<>> ELSE qp \o q.txt) IN
            /\ hdr' = IF n = 0 THEN it ELSE hdr \o sep \o it
            /\ want' = IF q.val < 0 THEN want ELSE Append(want, [main |-> rg.main, params |-> rg.params, q |-> q.val])
       /\ n' = n + 1
       /\ UNCHANGED <<fam, offers>>
       /\ r' = Eval(fam, hdr', offers, n')
Next == Add
Spec == Init /\ [][Next]_vars

Impl == r.impl
Q(k) == r.sm[k].q
DS(k) == r.sm[k].ds

\* ---- the universe is inside the claimed domain, and the parser returns the intended items
UniverseInDomain == r.indom
ParseIgnoresBadQ == r.V = want
\* ---- the property, stated on the implementation-shaped model's result
ImplMeetsContract == Impl = r.choice
ImplQualityOK == \A k \in 1..Len(offers) : r.iq[k] = Q(k)
NeverZeroOrUnmatched ==
  Impl > 0 => IF fam = "language" THEN ~(r.sm[Impl].m /\ Q(Impl) = 0)
              ELSE r.sm[Impl].m /\ Q(Impl) > 0
HighestQuality ==
  /\ Impl > 0 => (Q(Impl) > 0 => \A k \in 1..Len(offers) : Q(k) <= Q(Impl))
  /\ Impl = 0 => \A k \in 1..Len(offers) : Q(k) = 0
MoreSpecificWinsTies ==
  (Impl > 0 /\ Q(Impl) > 0) => \A k \in 1..Len(offers) : Q(k) = Q(Impl) => ~LexLess(DS(Impl), DS(k))
OfferOrderBreaksTies ==
  (Impl > 0 /\ Q(Impl) > 0) => \A k \in 1..(Impl - 1) : ~(Q(k) = Q(Impl) /\ DS(k) = DS(Impl))
\* language fallbacks: a fallback choice shares its primary tag with a range of positive q
FallbackSharesPrimary ==
  (fam = "language" /\ Impl > 0 /\ Q(Impl) = 0) =>
      \E i \in 1..Len(r.V) : r.V[i].q > 0 /\ r.V[i].main # STARS
                             /\ Lower(Primary(r.V[i].main)) = Lower(Primary(offers[Impl]))
\* sorted list: a permutation that keeps the client's order among equal (specificity, q)
SortKeepsOrder ==
  /\ {r.S[i].pos : i \in 1..Len(r.S)} = 1..Len(r.V) /\ Len(r.S) = Len(r.V)
  /\ \A i, j \in 1..Len(r.S) : (i < j /\ r.S[i].spec = r.S[j].spec /\ r.S[i].q = r.S[j].q) => r.S[i].pos < r.S[j].pos

\* ---- export for the replay against the real classes
Export == IF n = 0 THEN TRUE
          ELSE PrintT(ToJson([fam |-> fam, hdr |-> hdr, offers |-> offers, best |-> r.choice,
                              quals |-> [k \in 1..Len(offers) |-> Q(k)]]))
=============================================================================
