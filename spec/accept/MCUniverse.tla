---- MODULE MCUniverse ----
(* Generated once (harness/accept.py, universe_module()): the bounded universe of the C17 model as code
   point sequences.  Ranges carry their intended parse (main, params), q texts their intended meaning
   (thousandths, -1 = the item is ignored): the parser of Accept.tla is checked against these. *)
EXTENDS Naturals, Sequences

\* mime: ranges ['a/b', 'a/*', '*/*', 'a/b;p=1', 'c/d'] (wide: + ['A/b;P=1', '*/b', 'a']); offers ['a/b', 'a/b;p=1', 'c/d', 'a/c'] (wide: + ['a/*', '*/*', 'A/B', 'a/b; p=1'])
RangesMime == {[txt |-> <<97,47,98>>, main |-> <<97,47,98>>, params |-> <<>>], [txt |-> <<97,47,42>>, main |-> <<97,47,42>>, params |-> <<>>], [txt |-> <<42,47,42>>, main |-> <<42,47,42>>, params |-> <<>>], [txt |-> <<97,47,98,59,112,61,49>>, main |-> <<97,47,98>>, params |-> <<<<112,61,49>>>>], [txt |-> <<99,47,100>>, main |-> <<99,47,100>>, params |-> <<>>]}
RangesWideMime == RangesMime \cup {[txt |-> <<65,47,98,59,80,61,49>>, main |-> <<65,47,98>>, params |-> <<<<112,61,49>>>>], [txt |-> <<42,47,98>>, main |-> <<42,47,98>>, params |-> <<>>], [txt |-> <<97>>, main |-> <<97>>, params |-> <<>>]}
OffersMime == {<<97,47,98>>, <<97,47,98,59,112,61,49>>, <<99,47,100>>, <<97,47,99>>}
OffersWideMime == OffersMime \cup {<<97,47,42>>, <<42,47,42>>, <<65,47,66>>, <<97,47,98,59,32,112,61,49>>}

\* language: ranges ['en', 'en-US', 'en_gb', 'de', '*'] (wide: + ['EN', 'fr-CA']); offers ['en', 'en-us', 'EN-GB', 'de-AT', 'deu'] (wide: + ['de', 'fr'])
RangesLanguage == {[txt |-> <<101,110>>, main |-> <<101,110>>, params |-> <<>>], [txt |-> <<101,110,45,85,83>>, main |-> <<101,110,45,85,83>>, params |-> <<>>], [txt |-> <<101,110,95,103,98>>, main |-> <<101,110,95,103,98>>, params |-> <<>>], [txt |-> <<100,101>>, main |-> <<100,101>>, params |-> <<>>], [txt |-> <<42>>, main |-> <<42>>, params |-> <<>>]}
RangesWideLanguage == RangesLanguage \cup {[txt |-> <<69,78>>, main |-> <<69,78>>, params |-> <<>>], [txt |-> <<102,114,45,67,65>>, main |-> <<102,114,45,67,65>>, params |-> <<>>]}
OffersLanguage == {<<101,110>>, <<101,110,45,117,115>>, <<69,78,45,71,66>>, <<100,101,45,65,84>>, <<100,101,117>>}
OffersWideLanguage == OffersLanguage \cup {<<100,101>>, <<102,114>>}

\* charset: ranges ['utf-8', 'UTF8', 'latin1', 'x-foo', '*'] (wide: + ['us-ascii', 'L1']); offers ['utf8', 'iso-8859-1', 'X-FOO', 'ascii'] (wide: + ['UTF_8', 'x-bar'])
RangesCharset == {[txt |-> <<117,116,102,45,56>>, main |-> <<117,116,102,45,56>>, params |-> <<>>], [txt |-> <<85,84,70,56>>, main |-> <<85,84,70,56>>, params |-> <<>>], [txt |-> <<108,97,116,105,110,49>>, main |-> <<108,97,116,105,110,49>>, params |-> <<>>], [txt |-> <<120,45,102,111,111>>, main |-> <<120,45,102,111,111>>, params |-> <<>>], [txt |-> <<42>>, main |-> <<42>>, params |-> <<>>]}
RangesWideCharset == RangesCharset \cup {[txt |-> <<117,115,45,97,115,99,105,105>>, main |-> <<117,115,45,97,115,99,105,105>>, params |-> <<>>], [txt |-> <<76,49>>, main |-> <<76,49>>, params |-> <<>>]}
OffersCharset == {<<117,116,102,56>>, <<105,115,111,45,56,56,53,57,45,49>>, <<88,45,70,79,79>>, <<97,115,99,105,105>>}
OffersWideCharset == OffersCharset \cup {<<85,84,70,95,56>>, <<120,45,98,97,114>>}

\* accept: ranges ['gzip', 'GZIP', 'br', 'identity', '*'] (wide: + ['x-gzip']); offers ['gzip', 'br', 'deflate', 'Identity'] (wide: + ['BR'])
RangesAccept == {[txt |-> <<103,122,105,112>>, main |-> <<103,122,105,112>>, params |-> <<>>], [txt |-> <<71,90,73,80>>, main |-> <<71,90,73,80>>, params |-> <<>>], [txt |-> <<98,114>>, main |-> <<98,114>>, params |-> <<>>], [txt |-> <<105,100,101,110,116,105,116,121>>, main |-> <<105,100,101,110,116,105,116,121>>, params |-> <<>>], [txt |-> <<42>>, main |-> <<42>>, params |-> <<>>]}
RangesWideAccept == RangesAccept \cup {[txt |-> <<120,45,103,122,105,112>>, main |-> <<120,45,103,122,105,112>>, params |-> <<>>]}
OffersAccept == {<<103,122,105,112>>, <<98,114>>, <<100,101,102,108,97,116,101>>, <<73,100,101,110,116,105,116,121>>}
OffersWideAccept == OffersAccept \cup {<<66,82>>}

\* q texts: '', '0', '0.001', '0.5', '1', '1.000', 'abc', '-1', '2', '0.50', '1.', '.5', '1.001', '0.5x', '1e0', '-0.5', '00.250'
QProp == {[txt |-> <<>>, absent |-> TRUE, val |-> 1000], [txt |-> <<48>>, absent |-> FALSE, val |-> 0], [txt |-> <<48,46,48,48,49>>, absent |-> FALSE, val |-> 1], [txt |-> <<48,46,53>>, absent |-> FALSE, val |-> 500], [txt |-> <<49>>, absent |-> FALSE, val |-> 1000], [txt |-> <<49,46,48,48,48>>, absent |-> FALSE, val |-> 1000], [txt |-> <<97,98,99>>, absent |-> FALSE, val |-> 0 - 1], [txt |-> <<45,49>>, absent |-> FALSE, val |-> 0 - 1], [txt |-> <<50>>, absent |-> FALSE, val |-> 0 - 1]}   \* the set named by the property
QSmall == {[txt |-> <<>>, absent |-> TRUE, val |-> 1000], [txt |-> <<48>>, absent |-> FALSE, val |-> 0], [txt |-> <<48,46,53>>, absent |-> FALSE, val |-> 500], [txt |-> <<97,98,99>>, absent |-> FALSE, val |-> 0 - 1]}
QAll == QProp \cup {[txt |-> <<48,46,53,48>>, absent |-> FALSE, val |-> 500], [txt |-> <<49,46>>, absent |-> FALSE, val |-> 0 - 1], [txt |-> <<46,53>>, absent |-> FALSE, val |-> 0 - 1], [txt |-> <<49,46,48,48,49>>, absent |-> FALSE, val |-> 0 - 1], [txt |-> <<48,46,53,120>>, absent |-> FALSE, val |-> 0 - 1], [txt |-> <<49,101,48>>, absent |-> FALSE, val |-> 0 - 1], [txt |-> <<45,48,46,53>>, absent |-> FALSE, val |-> 0 - 1], [txt |-> <<48,48,46,50,53,48>>, absent |-> FALSE, val |-> 250]}

\* separators between list elements and before / inside the q parameter
SepPlain == {<<44>>}
SepAll == {<<44>>, <<44,32>>, <<32,44>>, <<9,44,32>>}
QPrePlain == {<<59,113,61>>}
QPreAll == {<<59,113,61>>, <<59,32,113,61>>, <<32,59,81,61>>, <<59,9,113,61>>}
====
