CONSTANTS
  NF = 3
  MaxM = 2
  Classes <- C3
  MaxEvents = 3
  MaxRestarts = 2
  DieCodes = {0, 3}
  Interleave = FALSE
  Compare = "gt"
  Mutant = "none"
INIT Init
NEXT Next
VIEW view
ACTION_CONSTRAINT Export
