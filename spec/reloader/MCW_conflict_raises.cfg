CONSTANTS
  MaxEv = 3
  Mutant = "conflict_raises"
SPECIFICATION Spec
INVARIANT ObserverAlive
