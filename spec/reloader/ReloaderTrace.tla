--------------------------- MODULE ReloaderTrace ---------------------------
(* Trace judge of X06 (the development server's reloader).  One TLC state per recorded line:        *)
(*  case: [t, i, op, mode ("direct": restart_with_reloader + StatReloaderLoop driven step by step;   *)
(*         "rwr": run_with_reloader in parent and child), interval (ms), files: <<[kind, path]>>,     *)
(*         pats: <<exclude pattern>>, argv: the argv the child must get, ev: <<event>>]               *)
(*        event = [e, s, f, m, c, a, mt], in the order things really happened:                        *)
(*          fs (s: touch|create|delete, f, m: new mtime, 0 = gone)      the environment               *)
(*          die (c, s = "kbd" for KeyboardInterrupt)                    the child ends on its own      *)
(*          spawn (s: value of WERKZEUG_RUN_MAIN, a: argv)              parent: subprocess.call        *)
(*          scan_begin / scan_end (s: ok | exit | exception class, c: exit code, f: file given to       *)
(*                     trigger_reload or 0, mt: StatReloaderLoop.mtimes per file)   child: run_step     *)
(*          sleep (m: ms), main_start (s: daemon|nondaemon), main_call  child: run()                    *)
(*          child_exit (c), parent_exit (c), end (the schedule ran out)                                 *)
(*  args: [kind, exe, script, mod, rest, got, exc]     _get_args_for_reloading                          *)
(*  echo: [kind, before, after, same, exc]             ensure_echo_on on a pseudo terminal              *)
(*  glob: [pat, s, got]                                self test of Glob against Python's fnmatch       *)
(* The contract is evaluated on observables only: which file a reload was attributed to, exit codes,  *)
(* argv / environment of the child, sleeps.  The judge keeps, per file, the SET of mtimes the child   *)
(* may have recorded (the documentation does not say at which instant of a scan a file is looked at,  *)
(* so a file that changes while a scan runs may have been seen before or after the change).           *)
(* StatReloaderLoop.mtimes is compared with that set as model drift only.                             *)
EXTENDS Naturals, Integers, Sequences, FiniteSets, TLC, Json, IOUtils

Lines == ndJsonDeserialize(IOEnv.TRACE_FILE)
VARIABLES l
vars == <<l>>

\* ------------------------------------------------------------------------------ fnmatch (exclude_patterns)
\* run_simple: ":param exclude_patterns: The reloader will ignore changes to any files matching these :mod:`fnmatch`
\* patterns."  fnmatch: "*" everything, "?" any single character, "[seq]" any character in seq, "[!seq]" any not in seq
STAR == 42
QM   == 63
LBR  == 91
RBR  == 93
BANG == 33
HYPH == 45
RECURSIVE CloseAt(_, _)
CloseAt(p, j) == IF j > Len(p) THEN 0 ELSE IF p[j] = RBR THEN j ELSE CloseAt(p, j + 1)
ClassEnd(p, i) == LET j0 == IF i + 1 <= Len(p) /\ p[i + 1] = BANG THEN i + 2 ELSE i + 1
                      j1 == IF j0 <= Len(p) /\ p[j0] = RBR THEN j0 + 1 ELSE j0
                  IN  CloseAt(p, j1)
RECURSIVE InBody(_, _, _, _)
InBody(p, a, b, c) == IF a > b THEN FALSE
                      ELSE IF a + 2 <= b /\ p[a + 1] = HYPH THEN (p[a] <= c /\ c <= p[a + 2]) \/ InBody(p, a + 3, b, c)
                      ELSE p[a] = c \/ InBody(p, a + 1, b, c)
ClassMatch(p, i, e, c) == LET neg == p[i + 1] = BANG
                              a   == IF neg THEN i + 2 ELSE i + 1
                          IN  InBody(p, a, e - 1, c) # neg
RECURSIVE GlobM(_, _, _, _)
GlobM(p, i, s, j) ==
  IF i > Len(p) THEN j > Len(s)
  ELSE IF p[i] = STAR THEN \E k \in j..(Len(s) + 1) : GlobM(p, i + 1, s, k)
  ELSE IF j > Len(s) THEN FALSE
  ELSE IF p[i] = QM THEN GlobM(p, i + 1, s, j + 1)
  ELSE IF p[i] = LBR /\ ClassEnd(p, i) # 0
       THEN LET e == ClassEnd(p, i) IN ClassMatch(p, i, e, s[j]) /\ GlobM(p, e + 1, s, j + 1)
  ELSE p[i] = s[j] /\ GlobM(p, i + 1, s, j + 1)
Glob(p, s) == GlobM(p, 1, s, 1)

\* ------------------------------------------------------------------------------ which files are observed
\* docs/serving.rst: "The Werkzeug reloader constantly monitors modules and paths of your web application";
\* _iter_module_paths: "Find the filesystem paths associated with imported modules" ("Zip file, find the base file
\* without the module path"); CHANGES 2.0: "The default stat reloader will watch Python files under
\* non-system/virtualenv sys.path entries ... It will also watch all Python files under directories given in
\* extra_files."; run_simple: ":param extra_files: The reloader will watch these files for changes in addition to
\* Python modules. For example, watch a configuration file."
MustKinds     == {"module", "zipmod", "syspath", "syspkg", "extra", "extradir"}
\* not stated either way (compiled files, other files below a sys.path entry / an extra directory): a reload may be
\* attributed to them when they changed, none is demanded
OptionalKinds == {"pyc", "plain", "extratxt"}
\* a Python file nowhere referenced; CHANGES 2.0: "The reloader ignores ``__pycache__`` directories again."
NeverKinds    == {"stray", "pycache"}

ClsOfN(x, f, never) == LET k == x.files[f].kind IN
               IF k \in never \/ k \notin (MustKinds \cup OptionalKinds \cup NeverKinds) THEN "unwatched"
               ELSE IF \E p \in 1..Len(x.pats) : Glob(x.pats[p], x.files[f].path) THEN "excluded"
               ELSE IF k \in MustKinds THEN "watched" ELSE "optional"
ClsOf(x, f) == ClsOfN(x, f, NeverKinds)

\* ------------------------------------------------------------------------------ the run
NoCode == 999
AnyCode == 998
St0(n) == [fs |-> [f \in 1..n |-> 0], poss |-> [f \in 1..n |-> {0}], win |-> [f \in 1..n |-> {0}],
           inscan |-> FALSE, par |-> "run", child |-> "none", code |-> NoCode, pend |-> NoCode, nsp |-> 0,
           scans |-> 0, slept |-> FALSE, mains |-> 0, v |-> "ok", d |-> "", k |-> 0, wf |-> 0]

May(cl, st, f)   == /\ cl[f] \in {"watched", "optional"}
                    /\ \E r \in st.poss[f], v \in st.win[f] : r # 0 /\ v # 0 /\ v # r
Must(cl, st, f)  == /\ cl[f] = "watched"
                    /\ \A r \in st.poss[f], v \in st.win[f] : r # 0 /\ v # 0 /\ v > r
Older(cl, st, f) == /\ cl[f] = "watched"
                    /\ \A r \in st.poss[f], v \in st.win[f] : r # 0 /\ v # 0 /\ v < r
\* what the child may have recorded after a scan that did not end it: r recorded before, v seen
Nxt(r, v) == IF v = 0 THEN (IF r = 0 THEN {0} ELSE {r, 0})     \* absent: skipped; whether a recorded mtime survives is not stated
             ELSE IF r = 0 THEN {v}                             \* first sight records
             ELSE IF v > r THEN {}                              \* would have ended the child
             ELSE {r}
PossUpd(st, f) == LET s == UNION {Nxt(r, v) : r \in st.poss[f], v \in st.win[f]} IN IF s = {} THEN st.poss[f] ELSE s

Rej(st, c)   == [st EXCEPT !.v = c]
Drift(st, w) == IF st.d = "" THEN [st EXCEPT !.d = w] ELSE st

\* initial mtimes are not part of the line: the first fs events of the case come from setup; the judge learns the
\* state of a file from the events only, so the recorder logs the initial state as fs events before anything else
EvFs(x, cl, st, e) ==
  IF e.f < 1 \/ e.f > Len(x.files) THEN st
  ELSE [st EXCEPT !.fs[e.f] = e.m, !.win[e.f] = IF st.inscan THEN st.win[e.f] \cup {e.m} ELSE st.win[e.f]]

\* restart_with_reloader: "Spawn a new Python interpreter with the same arguments as the current one, but running the
\* reloader thread."  (new_environ["WERKZEUG_RUN_MAIN"] = "true"; is_running_from_reloader: "Check if the server is
\* running as a subprocess within the Werkzeug reloader.")  It spawns again only after exit code 3: "if exit_code != 3:
\* return exit_code".
EvSpawn(x, cl, st, e) ==
  IF st.child = "exit" /\ st.code # 3 THEN Rej(st, "RestartOnlyAfter3")
  ELSE IF st.child = "run" THEN Rej(st, "OneChild")
  ELSE IF e.s # "true" THEN Rej(st, "ChildRunsMain")
  ELSE IF e.a # x.argv THEN Rej(st, "SameArguments")
  ELSE LET n == Len(x.files)
           s1 == [st EXCEPT !.child = "run", !.code = NoCode, !.pend = NoCode, !.nsp = st.nsp + 1, !.scans = 0, !.slept = FALSE,
                            !.mains = 0, !.inscan = FALSE, !.poss = [f \in 1..n |-> {0}]]
       IN  IF e.c % 2 = 1 \/ e.c < 2 THEN Drift(s1, "child started with close_fds or without the parent's environment") ELSE s1

\* run(): "Continually run the watch step, sleeping for the configured interval after each step."; docs/serving.rst:
\* "checks the mtime of all files in a regular interval"; run_simple: ":param reloader_interval: How often the reloader
\* tries to check for changes."; run_with_reloader: "Enter the reloader to set up initial state, then start the app
\* thread and reloader update loop."
EvScanBegin(x, cl, st, e) ==
  IF x.mode = "rwr" /\ st.scans >= 2 /\ ~st.slept THEN Rej(st, "RegularInterval")
  ELSE IF x.mode = "rwr" /\ st.scans = 1 /\ st.mains = 0 THEN Rej(st, "AppThreadStarted")
  ELSE [st EXCEPT !.inscan = TRUE, !.win = [f \in 1..Len(x.files) |-> {st.fs[f]}]]

EvScanEnd(x, cl, st, e) ==
  LET n  == Len(x.files)
      s0 == [st EXCEPT !.inscan = FALSE, !.scans = st.scans + 1, !.slept = FALSE]
  IN
  IF e.s = "exit" THEN
     \* docs/serving.rst: "restarts the server if any of the observed files change" -- only then: the file named must be
     \* observed, not excluded, seen before by this child (__enter__: "run one step of the watch to populate the initial
     \* filesystem state") and its mtime must differ from the recorded one; trigger_reload: "sys.exit(3)"
     IF e.f = 0 THEN (IF e.c # 3 THEN Rej(s0, "WatcherCrash")
                      ELSE IF \E f \in 1..n : May(cl, st, f) THEN Drift([s0 EXCEPT !.pend = 3], "exit 3 from a scan without trigger_reload")
                      ELSE Rej(s0, "ReloadOnlyOnChange"))
     ELSE IF e.f < 1 \/ e.f > n THEN Rej(s0, "ReloadOnlyOnChange")
     ELSE IF cl[e.f] = "excluded" THEN Rej(s0, "NeverForExcluded")
     ELSE IF cl[e.f] = "unwatched" THEN Rej(s0, "ReloadOnlyObserved")
     ELSE IF ~May(cl, st, e.f) THEN Rej(s0, IF st.poss[e.f] = {0} THEN "FirstSightRecords" ELSE "ReloadOnlyOnChange")
     ELSE IF e.c # 3 THEN Rej(s0, "ReloadExitsWith3")
     ELSE [s0 EXCEPT !.pend = 3]
  ELSE IF e.s = "ok" THEN
     \* "restarts the server if any of the observed files change": a scan over a file that this child has seen, that is
     \* observed and whose mtime is newer during the whole scan cannot end quietly
     IF \E f \in 1..n : Must(cl, st, f) THEN [Rej(s0, "ChangeMissed") EXCEPT !.wf = CHOOSE f \in 1..n : Must(cl, st, f)]
     ELSE LET p2 == [f \in 1..n |-> PossUpd(st, f)]
              s1 == [s0 EXCEPT !.poss = p2]
              s2 == IF \E f \in 1..n : Older(cl, st, f) THEN Drift(s1, "an older mtime than the recorded one is not acted on (mtime > recorded)") ELSE s1
          IN  IF Len(e.mt) = n /\ \E f \in 1..n : cl[f] = "watched" /\ e.mt[f] \notin p2[f]
              THEN Drift(s2, "StatReloaderLoop.mtimes differs from the model") ELSE s2
  \* "except OSError: continue": a path that cannot be stat'ed is skipped; nothing else may leave run_step
  ELSE Rej(s0, "WatcherCrash")

EvParentExit(x, cl, st, e) ==
  IF st.child = "exit" THEN
     IF st.code = 3 THEN Rej(st, "RestartAfterExit3")
     ELSE IF e.c # st.code THEN Rej(st, "StopsWithChildCode")
     ELSE [st EXCEPT !.par = "done"]
  ELSE Rej(st, "ParentWaitsForChild")

Step(x, cl, st, e) ==
  CASE e.e = "fs"          -> EvFs(x, cl, st, e)
    [] e.e = "spawn"       -> EvSpawn(x, cl, st, e)
    [] e.e = "scan_begin"  -> EvScanBegin(x, cl, st, e)
    [] e.e = "scan_end"    -> EvScanEnd(x, cl, st, e)
    [] e.e = "die"         -> [st EXCEPT !.inscan = FALSE, !.pend = IF e.s = "kbd" THEN AnyCode ELSE e.c]
    [] e.e = "child_exit"  -> LET s1 == [st EXCEPT !.child = "exit", !.code = e.c, !.inscan = FALSE] IN
                              IF st.pend \notin {AnyCode, e.c} THEN Drift(s1, "exit code seen by the parent differs from the child's") ELSE s1
    [] e.e = "parent_exit" -> EvParentExit(x, cl, st, e)
    [] e.e = "sleep"       -> IF x.mode = "rwr" /\ e.m # x.interval THEN Rej(st, "RegularInterval") ELSE [st EXCEPT !.slept = TRUE]
    \* run_with_reloader: "Run the given function in an independent Python interpreter." (the child, never the parent)
    [] e.e = "main_start"  -> IF st.child # "run" THEN Rej(st, "MainOnlyInChild")
                              ELSE IF st.mains >= 1 THEN Rej(st, "AppThreadStarted")
                              ELSE LET s1 == [st EXCEPT !.mains = 1] IN
                                   IF e.s # "daemon" \/ e.c # 1 THEN Drift(s1, "app thread: not a daemon thread of main_func") ELSE s1
    [] e.e = "main_call"   -> IF st.child # "run" THEN Rej(st, "MainOnlyInChild") ELSE Drift(st, "main_func called outside its thread")
    [] OTHER               -> st

RECURSIVE Run(_, _, _, _)
Run(x, cl, st, k) == IF k > Len(x.ev) \/ st.v # "ok" THEN st
                     ELSE Run(x, cl, [Step(x, cl, st, x.ev[k]) EXCEPT !.k = k], k + 1)

EvalCase(x) == LET n  == Len(x.files)
                   cl == [f \in 1..n |-> ClsOf(x, f)]
                   st == Run(x, cl, St0(n), 1)
               IN  <<st.v, st.d, st.k, st.wf>>

\* ------------------------------------------------------------------------------ _get_args_for_reloading
\* "Determine how the script was executed, and return the args needed to execute it again in a new process."
\*  modern ("sys.orig_argv ... contains the exact args used to invoke Python. Still replace argv[0] with sys.executable")
\*  script ("Executed a file, like "python app.py"": the absolute path of the script)
\*  module ("Executed a module, like "python -m werkzeug.serving"": "-m" and the module name, "Rewritten by Python from
\*  "-m script" to "/path/to/script.py"", "Incorrectly rewritten by pydevd debugger from "-m script" to "script"")
DASH_M == <<45, 109>>
EvalArgs(x) == LET want == CASE x.kind = "modern" -> <<x.exe>> \o x.rest
                             [] x.kind \in {"script", "script_abs"} -> <<x.exe, x.script>> \o x.rest
                             [] OTHER -> <<x.exe, DASH_M, x.mod>> \o x.rest
               IN  <<IF x.exc # "" \/ x.got # want THEN "ArgsReconstructInvocation" ELSE "ok", "", 0, 0>>

\* ------------------------------------------------------------------------------ ensure_echo_on
\* "Ensure that echo mode is enabled. Some tools such as PDB disable it which causes usability issues after a reload."
\* ("tcgetattr will fail if stdin isn't a tty"; CHANGES 1.0: "The reloader doesn't crash if sys.stdin is somehow None.")
EvalEcho(x) == <<IF x.exc # "" THEN "EchoNoCrash"
                 ELSE IF x.kind \in {"echo_off", "echo_on"} /\ x.after # 1 THEN "EchoEnabled" ELSE "ok",
                 IF x.kind \in {"echo_off", "echo_on"} /\ x.same # 1 THEN "ensure_echo_on changed other terminal attributes" ELSE "", 0, 0>>

\* ------------------------------------------------------------------------------ WatchdogReloaderLoop
\* docs/serving.rst: "The ``watchdog`` backend uses filesystem events"; same contract: "restarts the server if any of the
\* observed files change", never for exclude_patterns; _find_watchdog_paths: "Looks at the same sources as the stat
\* reloader, but watches everything under directories instead of individual files."; docs note: "Some edge cases, like
\* modules that failed to import correctly, are not handled by the stat reloader ... The watchdog reloader monitors such
\* files too." (a Python file nowhere referenced may reload); CHANGES 2.3: "The Watchdog reloader ignores file opened
\* events."  3.0.4: "The Watchdog reloader ignores file closed no write events."  0.10.2: "Correctly detect file changes
\* made by moving temporary files over the original".   WatchdogReloaderLoop.run: "sys.exit(3)" once a change was seen.
\*  events: wd_watch (a: <<directory>>, s: recursive|flat), sleep (m), wd_event (s: type, f), wd_flag (should_reload became
\*  true during the dispatch of the last wd_event), exit (c), end (s: "" | "return" | exception class)
WdMustTypes    == {"modified", "created", "moved_over"}
WdMayTypes     == {"deleted", "moved_away", "closed"}          \* acted on by the code; not stated
WdIgnoredTypes == {"opened", "closed_no_write"}
SLASH == 47
Under(d, p) == /\ Len(d) < Len(p) /\ SubSeq(p, 1, Len(d)) = d /\ p[Len(d) + 1] = SLASH
Direct(d, p) == Under(d, p) /\ \A j \in (Len(d) + 2)..Len(p) : p[j] # SLASH
Wd0 == [cur |-> 0, curt |-> "", flagged |-> FALSE, curflag |-> FALSE, watches |-> {}, sleeps |-> 0, v |-> "ok", k |-> 0, wf |-> 0]
WdFinal(cl, st) == IF st.cur # 0 /\ st.curt \in WdMustTypes /\ cl[st.cur] = "watched" /\ ~st.flagged
                   THEN [st EXCEPT !.v = "WdChangeMissed", !.wf = st.cur] ELSE st
WdStep(x, cl, st0, e) ==
  LET st == IF e.e \in {"wd_event", "sleep", "exit", "end"} THEN WdFinal(cl, st0) ELSE st0 IN
  IF st.v # "ok" THEN st
  ELSE CASE e.e = "wd_watch" -> [st EXCEPT !.watches = st.watches \cup {[p |-> e.a[1], r |-> e.s = "recursive"]}]
    [] e.e = "sleep" ->
         IF e.m # x.interval THEN [st EXCEPT !.v = "RegularInterval"]
         ELSE IF st.flagged THEN [st EXCEPT !.v = "WdExitAfterChange"]
         ELSE IF st.sleeps = 0 /\ \E f \in 1..Len(x.files) :
                   /\ cl[f] = "watched" /\ x.files[f].exists
                   /\ ~\E w \in st.watches : IF w.r THEN Under(w.p, x.files[f].path) ELSE Direct(w.p, x.files[f].path)
              THEN [st EXCEPT !.v = "WdWatchCovers",
                              !.wf = CHOOSE f \in 1..Len(x.files) : /\ cl[f] = "watched" /\ x.files[f].exists
                                        /\ ~\E w \in st.watches : IF w.r THEN Under(w.p, x.files[f].path) ELSE Direct(w.p, x.files[f].path)]
         ELSE [st EXCEPT !.sleeps = st.sleeps + 1, !.cur = 0]
    [] e.e = "wd_event" -> IF e.f < 1 \/ e.f > Len(x.files) THEN st ELSE [st EXCEPT !.cur = e.f, !.curt = e.s]
    [] e.e = "wd_flag" ->
         IF st.cur = 0 THEN [st EXCEPT !.v = "WdReloadOnlyOnChange"]
         ELSE IF st.curt \in WdIgnoredTypes THEN [st EXCEPT !.v = "WdIgnoredEventTypes", !.wf = st.cur]
         ELSE IF cl[st.cur] = "excluded" THEN [st EXCEPT !.v = "WdNeverForExcluded", !.wf = st.cur]
         ELSE IF cl[st.cur] = "unwatched" THEN [st EXCEPT !.v = "WdReloadOnlyObserved", !.wf = st.cur]
         ELSE [st EXCEPT !.flagged = TRUE]
    [] e.e = "exit" -> IF ~st.flagged THEN [st EXCEPT !.v = "WdReloadOnlyOnChange"]
                       ELSE IF e.c # 3 THEN [st EXCEPT !.v = "WdExitsWith3"] ELSE [st EXCEPT !.cur = 0]
    [] e.e = "end" -> IF e.s # "" THEN [st EXCEPT !.v = "WatcherCrash"] ELSE [st EXCEPT !.cur = 0]
    [] OTHER -> st
RECURSIVE WdRun(_, _, _, _)
WdRun(x, cl, st, k) == IF k > Len(x.ev) \/ st.v # "ok" THEN st
                       ELSE WdRun(x, cl, [WdStep(x, cl, st, x.ev[k]) EXCEPT !.k = k], k + 1)
EvalWd(x) == LET n  == Len(x.files)
                 cl == [f \in 1..n |-> ClsOfN(x, f, {"pycache"})]
                 st == WdRun(x, cl, Wd0, 1)
             IN  <<st.v, "", st.k, st.wf>>

Eval(x) == CASE x.op = "case" -> EvalCase(x)
             [] x.op = "wd" -> EvalWd(x)
             [] x.op = "args" -> EvalArgs(x)
             [] x.op = "echo" -> EvalEcho(x)
             [] x.op = "glob" -> <<"ok", IF Glob(x.pat, x.s) # x.got THEN "glob-selftest" ELSE "", 0, 0>>
             [] OTHER -> <<"ok", "", 0, 0>>

Init == l = 1
Next == /\ l <= Len(Lines)
        /\ LET x == Lines[l]  r == Eval(x) IN
           /\ IF r[1] = "ok" THEN TRUE ELSE PrintT(ToJson([reject |-> 1, t |-> x.t, i |-> x.i, clause |-> r[1], step |-> r[3], file |-> r[4]]))
           /\ IF r[2] = "" THEN TRUE ELSE PrintT(ToJson([drift |-> 1, t |-> x.t, i |-> x.i, what |-> r[2]]))
        /\ l' = l + 1
Done == PrintT(ToJson([judged |-> Len(Lines)])) /\ TLCGet("generated") >= 0
=============================================================================
