CONSTANTS
  MaxEv = 3
  Mutant = "none"
SPECIFICATION Spec
INVARIANT ObserverAlive
INVARIANT WdExitsWith3
PROPERTY WdOnlyObservedChange
PROPERTY WdChangeLeadsToExit
