CONSTANTS
  MaxEv = 3
  Mutant = "opened_counts"
SPECIFICATION Spec
PROPERTY WdOnlyObservedChange
