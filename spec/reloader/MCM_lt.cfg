CONSTANTS
  NF = 2
  MaxM = 2
  Classes <- C2
  MaxEvents = 3
  MaxRestarts = 2
  DieCodes = {0, 1, 3}
  Interleave = TRUE
  Compare = "gt"
  Mutant = "lt"
SPECIFICATION Spec
VIEW view
PROPERTY ChangeLeadsToReload
