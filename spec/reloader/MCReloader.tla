---------------------------- MODULE MCReloader ----------------------------
(* Model-checking wrapper: class assignments of the files (cfg files accept no tuples). *)
EXTENDS Reloader
W == "watched"
X == "excluded"
U == "unwatched"
C1  == { <<W>> }
C2  == { <<W, W>>, <<W, X>>, <<W, U>> }
C2w == { <<W, W>> }
C3  == { <<W, W, W>>, <<W, W, X>>, <<W, X, U>> }
C3w == { <<W, W, W>> }
C3x == { <<W, W, X>>, <<W, X, U>> }
=============================================================================
