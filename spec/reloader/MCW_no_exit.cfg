CONSTANTS
  MaxEv = 3
  Mutant = "no_exit"
SPECIFICATION Spec
PROPERTY WdChangeLeadsToExit
