------------------------------ MODULE Reloader ------------------------------
(* X06 -- the development server's reloader (src/werkzeug/_reloader.py) as a concurrent protocol   *)
(* between three processes:                                                                        *)
(*   Parent       ReloaderLoop.restart_with_reloader: "Spawn a new Python interpreter with the     *)
(*                same arguments as the current one, but running the reloader thread."  It starts  *)
(*                a child with WERKZEUG_RUN_MAIN=true, waits for it, starts another one whenever   *)
(*                the child ended with exit code 3 and returns any other exit code.                *)
(*   ChildWatcher StatReloaderLoop: __enter__ runs one scan "to populate the initial filesystem    *)
(*                state", run() "Continually run[s] the watch step, sleeping for the configured    *)
(*                interval after each step".  A scan lists the observed paths (modules, Python     *)
(*                files under sys.path, extra_files, minus exclude_patterns) and stats them one by *)
(*                one: OSError -> skipped, first sight -> recorded, newer than recorded ->         *)
(*                trigger_reload -> sys.exit(3).                                                    *)
(*   FileSystem   touch / create / delete of files, at any moment (also in the middle of a scan),  *)
(*                and the child's main thread, which may end the process on its own (Die).          *)
(* The model is implementation shaped (rec = StatReloaderLoop.mtimes, todo = the paths of the      *)
(* running scan still to be stat'ed); the contract is the list of invariants, action properties    *)
(* and liveness properties at the end, each next to the documentation sentence it comes from.      *)
(* TLC checks them for every interleaving within the constants of the MC*.cfg files; Mutant        *)
(* selects deliberately broken variants that must fail.                                            *)
EXTENDS Naturals, FiniteSets, Sequences, TLC, Json

CONSTANTS NF,          \* the files are 1..NF
          MaxM,        \* mtime values 1..MaxM (0 = the file does not exist)
          Classes,     \* set of sequences of length NF over {"watched","excluded","unwatched"}; one is chosen in Init
          MaxEvents,   \* budget of environment events (file system events + Die)
          MaxRestarts, \* the environment stops once the parent has restarted the child this often
          DieCodes,    \* exit codes of a child that ends otherwise than through the watcher
          Interleave,  \* TRUE: fs events between any two stats; FALSE: only between scans and right after the listing
          Compare,     \* "gt" (as the code: newer) or "ne" (any difference): both satisfy the contract
          Mutant       \* "none" or the name of a broken variant

VARIABLES cls,         \* class of every file: observed ("watched"), observed but matching an exclude pattern, not observed
          fs,          \* fs[f] = mtime of f, 0 = absent
          budget,      \* environment events left
          par,         \* parent: "idle" (about to spawn) | "waiting" | "stopped"
          pcode,       \* exit code the parent stopped with (NoCode before)
          spawns,      \* children started so far
          ch,          \* child: "none" | "boot" (before __enter__) | "scan" | "idle" (sleeping) | "exited"
          stage,       \* within a scan: "listed" (nothing stat'ed yet) | "stat"
          todo,        \* paths of the running scan still to be stat'ed
          rec,         \* StatReloaderLoop.mtimes, 0 = None
          ccode,       \* exit code of the last child (NoCode while it runs)
          trig,        \* file whose change ended the child, 0 = none
          runmain,     \* the child was started with WERKZEUG_RUN_MAIN=true and the argv of the parent
          pend,        \* used by a mutant only (0 or a file)
          first,       \* the running / next scan is the one of __enter__
          held,        \* history: files changed when the scan listed them and untouched since
          act          \* label of the last action (bookkeeping for the export, not part of the state identity)

vars == <<cls, fs, budget, par, pcode, spawns, ch, stage, todo, rec, ccode, trig, runmain, pend, first, held, act>>
view == <<cls, fs, budget, par, pcode, spawns, ch, stage, todo, rec, ccode, trig, runmain, pend, first, held>>

Files   == 1..NF
NoCode  == 99
Running == ch \in {"boot", "scan", "idle"}
Zero    == [f \in Files |-> 0]

\* what the scan lists: "_find_stat_paths ... Returns imported module files, Python files under non-system paths.
\* Extra files and Python files under extra directories can also be scanned", then _remove_by_pattern
Listed(f) == cls[f] = "watched" \/ (Mutant = "exclude_ignored" /\ cls[f] = "excluded")
Newer(m, r) == CASE Mutant = "ge" -> m >= r
                 [] Mutant = "lt" -> m < r
                 [] Compare = "ne" -> m # r
                 [] OTHER -> m > r
\* a change the documentation promises to act on: an observed file already seen by this child has a newer mtime
Changed(f) == /\ ch \in {"scan", "idle"} /\ cls[f] = "watched" /\ rec[f] # 0 /\ fs[f] > rec[f]

Init == /\ cls \in Classes /\ fs \in [Files -> 0..MaxM]
        /\ budget = MaxEvents /\ par = "idle" /\ pcode = NoCode /\ spawns = 0
        /\ ch = "none" /\ stage = "stat" /\ todo = {} /\ rec = Zero /\ ccode = NoCode /\ trig = 0
        /\ runmain = TRUE /\ pend = 0 /\ first = TRUE /\ held = {} /\ act = [op |-> "init", f |-> 0, m |-> 0]

A(op, f, m) == act' = [op |-> op, f |-> f, m |-> m]

\* ------------------------------------------------------------------------------ Parent
Spawn == /\ par = "idle"
         /\ par' = "waiting" /\ spawns' = spawns + 1
         /\ ch' = "boot" /\ rec' = Zero /\ todo' = {} /\ stage' = "stat" /\ ccode' = NoCode /\ trig' = 0
         /\ runmain' = (Mutant # "no_runmain") /\ pend' = 0 /\ first' = TRUE /\ held' = {}
         /\ A("spawn", 0, 0) /\ UNCHANGED <<cls, fs, budget, pcode>>
RestartCode(c) == CASE Mutant = "restart_any" -> TRUE
                    [] Mutant = "restart_nonzero" -> c # 0
                    [] Mutant = "restart_never" -> FALSE
                    [] OTHER -> c = 3
Reap == /\ par = "waiting" /\ ch = "exited"
        /\ ch' = "none"
        /\ IF RestartCode(ccode) THEN par' = "idle" /\ pcode' = pcode
           ELSE par' = "stopped" /\ pcode' = (IF Mutant = "stop_zero" THEN 0 ELSE ccode)
        /\ A("reap", 0, ccode)
        /\ UNCHANGED <<cls, fs, budget, spawns, stage, todo, rec, ccode, trig, runmain, pend, first, held>>
Parent == Spawn \/ Reap

\* ------------------------------------------------------------------------------ ChildWatcher
ScanList == /\ ch \in {"boot", "idle"}
            /\ ch' = "scan" /\ stage' = "listed"
            /\ todo' = {f \in Files : fs[f] # 0 /\ Listed(f)}
            /\ held' = {f \in Files : cls[f] = "watched" /\ rec[f] # 0 /\ fs[f] > rec[f]}
            /\ A("list", 0, 0)
            /\ UNCHANGED <<cls, fs, budget, par, pcode, spawns, rec, ccode, trig, runmain, pend, first>>
Exit3(f) == /\ ch' = "exited" /\ ccode' = (IF Mutant = "exit_code" THEN 1 ELSE 3) /\ trig' = f /\ todo' = {}
Stat(f) == /\ ch = "scan" /\ f \in todo
           /\ stage' = "stat"
           /\ IF fs[f] = 0                               \* "except OSError: continue"
              THEN IF Mutant = "crash_on_missing"
                   THEN ch' = "exited" /\ ccode' = 1 /\ trig' = 0 /\ todo' = {} /\ UNCHANGED <<rec, pend>>
                   ELSE todo' = todo \ {f} /\ UNCHANGED <<ch, ccode, trig, rec, pend>>
              ELSE IF rec[f] = 0                         \* first sight
              THEN IF Mutant = "first_sight" /\ ~first
                   THEN Exit3(f) /\ UNCHANGED <<rec, pend>>
                   ELSE rec' = [rec EXCEPT ![f] = fs[f]] /\ todo' = todo \ {f} /\ UNCHANGED <<ch, ccode, trig, pend>>
              ELSE IF Newer(fs[f], rec[f])
              THEN IF Mutant = "toggle"                  \* decides at the end of the scan; two changes in one scan cancel
                   THEN pend' = (IF pend = 0 THEN f ELSE 0) /\ todo' = todo \ {f} /\ UNCHANGED <<ch, ccode, trig, rec>>
                   ELSE Exit3(f) /\ UNCHANGED <<rec, pend>>
              ELSE todo' = todo \ {f} /\ UNCHANGED <<ch, ccode, trig, rec, pend>>
           /\ A("stat", f, fs[f])
           /\ UNCHANGED <<cls, fs, budget, par, pcode, spawns, runmain, first, held>>
ScanEnd == /\ ch = "scan" /\ todo = {}
           /\ IF pend # 0 THEN Exit3(pend) /\ pend' = 0
              ELSE ch' = "idle" /\ UNCHANGED <<ccode, trig, todo, pend>>
           /\ first' = FALSE /\ A("scanend", 0, 0)
           /\ UNCHANGED <<cls, fs, budget, par, pcode, spawns, stage, rec, runmain, held>>
Watcher == ScanList \/ (\E f \in Files : Stat(f)) \/ ScanEnd

\* ------------------------------------------------------------------------------ FileSystem and the child's main thread
EnvMay == /\ budget > 0 /\ par # "stopped" /\ spawns <= MaxRestarts
          /\ (Interleave \/ ch # "scan" \/ stage = "listed")
SetM(f, m, op) == /\ fs' = [fs EXCEPT ![f] = m] /\ budget' = budget - 1 /\ held' = held \ {f}
                  /\ A(op, f, m)
                  /\ UNCHANGED <<cls, par, pcode, spawns, ch, stage, todo, rec, ccode, trig, runmain, pend, first>>
Touch(f, m)  == EnvMay /\ fs[f] # 0 /\ m # fs[f] /\ SetM(f, m, "touch")
Create(f, m) == EnvMay /\ fs[f] = 0 /\ SetM(f, m, "create")
Delete(f)    == EnvMay /\ fs[f] # 0 /\ SetM(f, 0, "delete")
Die(c) == /\ EnvMay /\ Running /\ (ch # "scan" \/ stage = "listed" \/ Interleave)
          /\ ch' = "exited" /\ ccode' = c /\ trig' = 0 /\ todo' = {} /\ budget' = budget - 1
          /\ A("die", 0, c)
          /\ UNCHANGED <<cls, fs, par, pcode, spawns, stage, rec, runmain, pend, first, held>>
Env == \/ \E f \in Files, m \in 1..MaxM : Touch(f, m) \/ Create(f, m)
       \/ \E f \in Files : Delete(f)
       \/ \E c \in DieCodes : Die(c)

Next == Parent \/ Watcher \/ Env
NoNext == FALSE /\ UNCHANGED vars
\* weak fairness of the watcher thread and of the parent; none for the environment
Spec       == Init /\ [][Next]_vars /\ WF_vars(Watcher) /\ WF_vars(Parent)
SpecNoFair == Init /\ [][Next]_vars /\ WF_vars(Parent)

\* =============================================================================== the contract
TypeOK == /\ fs \in [Files -> 0..MaxM] /\ rec \in [Files -> 0..MaxM] /\ todo \subseteq Files
          /\ ch \in {"none", "boot", "scan", "idle", "exited"} /\ par \in {"idle", "waiting", "stopped"}

\* docs/serving.rst: "The Werkzeug reloader constantly monitors modules and paths of your web application, and restarts
\* the server if any of the observed files change."  "The default ``stat`` backend simply checks the ``mtime`` of all
\* files in a regular interval."  -- safety half: a reload is attributed only to an observed file that this child has
\* seen before (first sight records, ReloaderLoop.__enter__: "run one step of the watch to populate the initial
\* filesystem state") and whose mtime differs from the recorded one.
ReloadOnlyOnChange == [][(trig' # 0 /\ trig = 0) =>
                           /\ cls[trig'] # "unwatched" /\ rec[trig'] # 0 /\ fs[trig'] # 0 /\ fs[trig'] # rec[trig']]_vars
\* run_simple: ":param exclude_patterns: The reloader will ignore changes to any files matching these fnmatch patterns."
NeverForExcluded   == trig # 0 => cls[trig] = "watched"
\* first sight of a file records its mtime and does not end the child
FirstSightRecords  == [][\A f \in Files : (rec[f] = 0 /\ rec'[f] # 0) => (rec'[f] = fs[f] /\ ch' = ch)]_vars
\* ReloaderLoop.trigger_reload: "sys.exit(3)"; the watcher ends the child in no other way ("except OSError: continue":
\* a file that disappears between listing and stat is skipped)
WatcherExitsOnlyWith3 == [][(ch = "scan" /\ ch' = "exited" /\ act'.op # "die") => (ccode' = 3 /\ trig' # 0)]_vars
\* safety form of "restarts the server if any of the observed files change": a change that was there when the scan
\* listed the paths and stayed untouched during the scan cannot survive the scan
ScanMissesNothing  == [][(ch = "scan" /\ ch' = "idle") => held = {}]_vars
\* restart_with_reloader: "if exit_code != 3: return exit_code" / run_with_reloader: "sys.exit(reloader.restart_with_reloader())"
RestartOnlyAfter3  == [][(spawns' = spawns + 1) => (spawns = 0 \/ ccode = 3)]_vars
StopsWithChildCode == par = "stopped" => (pcode = ccode /\ pcode # 3)
\* "new_environ["WERKZEUG_RUN_MAIN"] = "true"" with "the same arguments as the current one"
ChildRunsMain      == ch # "none" => runmain
OneChild           == (ch = "none") = (par # "waiting")

\* liveness, under weak fairness of the watcher: every change of an observed file is eventually acted on (the child
\* ends - through the watcher, or on its own - or the change is undone by the environment) ...
ChangeLeadsToReload == \A f \in Files : Changed(f) ~> ~Changed(f)
\* ... and once the environment is quiet, a pending change ends in a new child that runs the reloader thread
ChangeLeadsToNewChild == \A n \in 1..(MaxEvents + 1) :
                            (spawns = n /\ budget = 0 /\ \E f \in Files : Changed(f)) ~> (spawns = n + 1 /\ Running /\ runmain)
\* "restarts the child whenever it exits with code 3", "stops with the child's exit code for any other code"
Exit3LeadsToRestart == \A n \in 1..(MaxEvents + 1) : (spawns = n /\ ch = "exited" /\ ccode = 3) ~> (spawns = n + 1)
OtherExitLeadsToStop == \A c \in (DieCodes \cup {1}) \ {3} : (ch = "exited" /\ ccode = c) ~> (par = "stopped" /\ pcode = c)
\* "constantly monitors": a running child scans again and again
KeepsScanning == []<>(~Running \/ ch = "scan")

\* ------------------------------------------------------------------------------ export (spec -> code)
Proj == [fs |-> fs, rec |-> rec, ch |-> ch, par |-> par, spawns |-> spawns, ccode |-> ccode, pcode |-> pcode,
         stage |-> stage, todo |-> todo, budget |-> budget, cls |-> cls, trig |-> trig, first |-> first, held |-> held]
Export == PrintT(ToJson([pre |-> Proj, act |-> act', post |-> Proj']))
=============================================================================
