CONSTANTS
  NF = 2
  MaxM = 2
  Classes <- C2
  MaxEvents = 3
  MaxRestarts = 2
  DieCodes = {0, 3}
  Interleave = FALSE
  Compare = "gt"
  Mutant = "none"
SPECIFICATION Spec
VIEW view
INVARIANT TypeOK
INVARIANT NeverForExcluded
INVARIANT StopsWithChildCode
INVARIANT ChildRunsMain
INVARIANT OneChild
PROPERTY ReloadOnlyOnChange
PROPERTY FirstSightRecords
PROPERTY WatcherExitsOnlyWith3
PROPERTY ScanMissesNothing
PROPERTY RestartOnlyAfter3
PROPERTY ChangeLeadsToReload
PROPERTY ChangeLeadsToNewChild
PROPERTY Exit3LeadsToRestart
PROPERTY OtherExitLeadsToStop
PROPERTY KeepsScanning
