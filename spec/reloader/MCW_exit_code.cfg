CONSTANTS
  MaxEv = 3
  Mutant = "exit_code"
SPECIFICATION Spec
INVARIANT WdExitsWith3
