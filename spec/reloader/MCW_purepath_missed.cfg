CONSTANTS
  MaxEv = 3
  Mutant = "purepath_exclude"
SPECIFICATION Spec
PROPERTY WdChangeLeadsToExit
