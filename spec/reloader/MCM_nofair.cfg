CONSTANTS
  NF = 2
  MaxM = 2
  Classes <- C2
  MaxEvents = 3
  MaxRestarts = 2
  DieCodes = {0, 3}
  Interleave = TRUE
  Compare = "gt"
  Mutant = "none"
SPECIFICATION SpecNoFair
VIEW view
PROPERTY KeepsScanning
