------------------------------ MODULE Watchdog ------------------------------
(* X06 -- WatchdogReloaderLoop as two threads: the observer thread, which dispatches file system   *)
(* events to the loop's event handler (PatternMatchingEventHandler.dispatch -> on_any_event ->     *)
(* trigger_reload: "should_reload = True"), and the reloader loop                                  *)
(*      while not self.should_reload: self.run_step(); time.sleep(self.interval)                   *)
(*      sys.exit(3)                                                                                 *)
(* A path is abstracted by three facts: inc (it matches a watched pattern: "*.py", "*.pyc",        *)
(* "*.zip" or an extra file), fx (it matches an exclude pattern in the sense of fnmatch, the       *)
(* documented one) and wx (it matches an exclude pattern the way watchdog matches ignore patterns: *)
(* PurePath.match, right anchored, "*" stays within one path component, case-insensitive);  cf     *)
(* says that some exclude pattern is, as text, also one of the watched patterns.                   *)
(* Mutant = "none" is the code after repo commit 1626832.  The two behaviours before it are kept   *)
(* as broken variants that must fail:                                                               *)
(*   conflict_raises   exclude patterns handed to watchdog's ignore_patterns: a pattern that is    *)
(*                     both watched and ignored makes every dispatch raise ValueError, the         *)
(*                     observer thread dies (FX06-1)                                                *)
(*   purepath_exclude  exclusion decided by watchdog's matching (wx) instead of fnmatch (fx)       *)
(*                     (FX06-2)                                                                     *)
EXTENDS Naturals, TLC

CONSTANTS MaxEv, Mutant

Types       == {"modified", "created", "moved", "deleted", "closed", "opened", "closed_no_write"}
\* CHANGES 2.3: "The Watchdog reloader ignores file opened events."  3.0.4: "... ignores file closed no write events."
ChangeTypes == Types \ {"opened", "closed_no_write"}
MustTypes   == {"modified", "created", "moved"}
Paths       == [inc : BOOLEAN, fx : BOOLEAN, wx : BOOLEAN]

VARIABLES cf, obs, flag, loop, code, n, last, must
vars == <<cf, obs, flag, loop, code, n, last, must>>

Init == /\ cf \in BOOLEAN /\ obs = "run" /\ flag = FALSE /\ loop = "check" /\ code = 99 /\ n = 0
        /\ last = [t |-> "none", p |-> [inc |-> FALSE, fx |-> FALSE, wx |-> FALSE]] /\ must = FALSE

\* ------------------------------------------------------------------------------ observer thread
Excluded(p) == IF Mutant = "purepath_exclude" THEN p.wx ELSE p.fx
Acts(t)     == IF Mutant = "opened_counts" THEN TRUE ELSE t \in ChangeTypes
Dispatch(t, p) ==
  /\ obs = "run" /\ n < MaxEv /\ loop # "exited"
  /\ n' = n + 1 /\ last' = [t |-> t, p |-> p]
  /\ IF Mutant = "conflict_raises" /\ cf
     THEN obs' = "dead" /\ UNCHANGED <<flag, must>>           \* ValueError: conflicting patterns ... included and excluded
     ELSE /\ obs' = obs
          /\ flag' = (flag \/ (p.inc /\ ~Excluded(p) /\ Acts(t)))
          /\ must' = (must \/ (p.inc /\ ~p.fx /\ t \in MustTypes))
  /\ UNCHANGED <<cf, loop, code>>
Observer == \E t \in Types, p \in Paths : Dispatch(t, p)

\* ------------------------------------------------------------------------------ reloader loop
Check == /\ loop = "check"
         /\ IF flag /\ Mutant # "no_exit" THEN loop' = "exited" /\ code' = (IF Mutant = "exit_code" THEN 1 ELSE 3)
            ELSE loop' = "sleep" /\ code' = code
         /\ UNCHANGED <<cf, obs, flag, n, last, must>>
Wake  == loop = "sleep" /\ loop' = "check" /\ UNCHANGED <<cf, obs, flag, code, n, last, must>>
Loop  == Check \/ Wake

Next == Observer \/ Loop
Spec == Init /\ [][Next]_vars /\ WF_vars(Loop)

\* =============================================================================== the contract
\* docs/serving.rst: "restarts the server if any of the observed files change"; run_simple: ":param exclude_patterns: The
\* reloader will ignore changes to any files matching these :mod:`fnmatch` patterns."
WdOnlyObservedChange == [][(flag' /\ ~flag) => (last'.p.inc /\ ~last'.p.fx /\ last'.t \in ChangeTypes)]_vars
\* the observer thread survives every event, whatever the exclude patterns are
ObserverAlive        == obs = "run"
\* WatchdogReloaderLoop.run: "sys.exit(3)"
WdExitsWith3         == loop = "exited" => (code = 3 /\ flag)
\* liveness (weak fairness of the loop): a change event on an observed, not excluded file ends the child with exit code 3
WdChangeLeadsToExit  == must ~> (loop = "exited" /\ code = 3)
=============================================================================
