CONSTANTS
  NF = 3
  MaxM = 3
  Classes <- C3
  MaxEvents = 4
  MaxRestarts = 2
  DieCodes = {0, 1, 3}
  Interleave = TRUE
  Compare = "gt"
  Mutant = "none"
SPECIFICATION Spec
VIEW view
INVARIANT TypeOK
INVARIANT NeverForExcluded
INVARIANT StopsWithChildCode
INVARIANT ChildRunsMain
INVARIANT OneChild
PROPERTY ReloadOnlyOnChange
PROPERTY FirstSightRecords
PROPERTY WatcherExitsOnlyWith3
PROPERTY ScanMissesNothing
PROPERTY RestartOnlyAfter3
PROPERTY ChangeLeadsToReload
PROPERTY ChangeLeadsToNewChild
PROPERTY Exit3LeadsToRestart
PROPERTY OtherExitLeadsToStop
PROPERTY KeepsScanning
