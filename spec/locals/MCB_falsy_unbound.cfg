CONSTANTS
  Ctxs = {1, 2, 3}
  Names = {"x", "y"}
  Boxes = {1, 2}
  Vals = {0, 1}
  MaxStack = 2
  MaxOps = 5
  OpKinds = {"set", "get", "del", "iter", "release", "push", "pop", "top", "release_stack", "cleanup", "mkproxy", "proxy_read", "proxy_mutate", "spawn"}
  Made0 <- NoneMade
  Bug = "falsy_unbound"
INIT Init
NEXT Next
INVARIANT ViewEqualsIdeal
INVARIANT ProxiesAgree
INVARIANT ContentsAgree
INVARIANT ReturnsAgree
