CONSTANTS
  Ctxs = {1, 2, 3}
  Names = {"x"}
  Boxes = {3, 9}
  Vals = {0, 1}
  MaxStack = 1
  MaxOps = 5
  OpKinds = {"set", "del", "push", "pop", "mkproxy", "proxy_read", "proxy_iadd", "proxy_isub", "proxy_ior", "proxy_imul", "spawn"}
  Made0 <- NoneMade
  Bug = "none"
  IopArgs <- IopQuick
INIT Init
NEXT Next
INVARIANT ViewEqualsIdeal
INVARIANT ProxiesAgree
INVARIANT ContentsAgree
INVARIANT ReturnsAgree
