CONSTANTS
  Ctxs = {1, 2}
  Names = {"x"}
  Boxes = {3, 9}
  Vals = {0, 1}
  MaxStack = 1
  MaxOps <- NoLimit
  OpKinds = {"set", "del", "push", "pop", "proxy_iadd", "proxy_isub", "proxy_ior", "proxy_imul", "spawn"}
  Made0 <- AllMade
  IopArgs <- SmallIop
INIT Init
NEXT Next
VIEW ViewState
ACTION_CONSTRAINT Export
