----------------------------- MODULE LocalsTrace -----------------------------
(* Trace judge for C18.  Input: ndjson (TRACE_FILE).  A trace is one "cfg" line followed by    *)
(* one line per operation executed on the real werkzeug.local objects in one of the three     *)
(* realisations of contexts (copy_context / threads / asyncio):                               *)
(*   cfg : [t, op = "cfg", real, made: <<proxy kinds that exist before the first step>>]       *)
(*   op  : [t, i, op, ctx, n, b, v, k, child, r: [tag, id, exc],                               *)
(*          obs: << per alive context: [c, get: <<[n, id]>>, iter: <<[n, id, val]>>, top,      *)
(*                  stack: <<ids>>, sval: <<vals>>,                                            *)
(*                  prox: <<[k, isproxy, truthy, unb, repobj, id, val, cur,                    *)
(*                           fw: <<len, iter, [0], 7 in, +, hash, str>>, ag]>>] >>]            *)
(* `obs` is what every live context reads *after* the step (getattr per name, iteration, top, *)
(* the whole stack, and for every existing proxy: bool(), repr() is the unbound fallback,      *)
(* repr() is the resolved object's repr, an operation forwarded through the proxy (attribute    *)
(* read / ==; 0 = RuntimeError, -1 = any other failure), the object's state read through the    *)
(* proxy (field / len), _get_current_object() identified by `is`).                              *)
(* The judge advances the contract state (Locals.tla) with the recorded operation and compares *)
(* the recorded result and every context's recorded reads with it.  One TLC state per line;    *)
(* verdicts are total: the first failing clause of a trace is printed, the rest of that trace  *)
(* is skipped (its model state is no longer meaningful), judging continues with the next.      *)
EXTENDS Locals, TLC, Json, IOUtils

Lines == ndJsonDeserialize(IOEnv.TRACE_FILE)

VARIABLES l, st, dead
vars == <<l, st, dead>>

SeqSet(s) == {s[i] : i \in 1..Len(s)}

\* ---- one context's recorded reads against the contract state S ---------------------------------
AttrOK(S, e) ==
  LET c == e.c IN
  /\ \A i \in 1..Len(e.get) :
       LET g == e.get[i] IN
       /\ g.n \in Names /\ g.id = S.attrs[c][g.n]           \* getattr: the object / AttributeError (0)
       /\ g.h = (IF S.attrs[c][g.n] # NoBox THEN 1 ELSE 0)    \* hasattr()
       /\ g.d = (IF S.attrs[c][g.n] # NoBox THEN 0 ELSE 1)    \* getattr(.., default) gave the default
  /\ Len(e.iter) = Cardinality(BoundNames(S, c))
  /\ {<<x.n, x.id, x.val>> : x \in SeqSet(e.iter)}
       = {<<nm, S.attrs[c][nm], S.cont[S.attrs[c][nm]]>> : nm \in BoundNames(S, c)}

StackOK(S, e) ==
  LET c == e.c IN
  /\ e.top = TopOf(S.stack[c])
  /\ e.stack = S.stack[c]
  /\ e.sval = [i \in 1..Len(S.stack[c]) |-> S.cont[S.stack[c][i]]]

SizeOrInt(cont, b) == IF NumLike(b) THEN IntVal(b) ELSE SizeOf(cont, b)
IdsOK(ids, b) == b \in SeqSet(ids) /\ \A i \in SeqSet(ids) : i \in Boxes /\ KindOf(i) = KindOf(b)
\* other forwarded dunders: len, iter, [0], 7 in, +, hash, str, == -- computed on the object bound
\* in the accessing context; RuntimeError (code RTE) for each of them where nothing is bound
\* (== is not judged there: CPython turns the failed lookup of __eq__ into NotImplemented)
FwdOK(S, b, p) ==
  LET f == p.fw IN      \* <<len, iter, [0], 7 in, +, hash, str, dir() non-empty>>
  IF b = NoBox THEN /\ f[1] = RTE /\ f[3] = RTE /\ f[4] = RTE /\ f[5] = RTE /\ f[7] = RTE
                    /\ f[8] = 0                         \* dir(unbound proxy) = []
                    \* iter() and hash(): CPython's type slots swallow the RuntimeError raised while
                    \* looking the method up and answer TypeError (not iterable / unhashable) themselves
                    /\ f[2] \in {RTE, TYE} /\ f[6] \in {RTE, TYE}
  ELSE /\ f[1] = SizeOf(S.cont, b) /\ f[2] = SizeOf(S.cont, b)
       /\ f[3] = GetItemCode(S.cont, b) /\ f[4] \in InCodes(S.cont, b) /\ f[5] = AddCode(S.cont, b)
       /\ f[6] = HashCode(b) /\ f[7] = 1 /\ f[8] = 1
       \* ==, str() and hash() through the proxy agree with the bound object's own (and with no
       \* object of another kind)
       /\ IdsOK(p.ag, b)

ProxyOK(S, e) ==
  /\ {p.k : p \in SeqSet(e.prox)} = S.made
  /\ Len(e.prox) = Cardinality(S.made)
  /\ \A p \in SeqSet(e.prox) :
       LET b == Bound(S, e.c, p.k) IN
       \* bool(proxy) = bool(bound object): falsy where nothing is bound, and also for a bound
       \* object that is itself falsy (0, "", empty or emptied container, __bool__ -> False)
       /\ p.truthy = (b # NoBox /\ TruthyC(S.cont, b))
       /\ p.unb = (b = NoBox)               \* fallback repr exactly where nothing is bound
       /\ p.repobj = (b # NoBox)            \* otherwise repr(proxy) is the bound object's repr
       /\ p.id = b                          \* attribute read: the bound object's / RuntimeError (0)
       /\ p.cur = b                         \* _get_current_object(): the bound object / RuntimeError (0)
       /\ p.val = (IF b = NoBox THEN 0 ELSE IF Immutable(b) THEN SizeOrInt(S.cont, b) ELSE S.cont[b])
       /\ p.isproxy                         \* the name still holds the LocalProxy (also after +=)
       /\ FwdOK(S, b, p)

CtxClause(S, o, e) ==
  IF ~(AttrOK(S, e) /\ StackOK(S, e)) THEN
       \* after a release path the acting context must see nothing of what was released
       (IF o.op = "mw_abandon" THEN "ReleaseIsLocal"       \* nobody released: nothing may be gone
        ELSE IF e.c = o.ctx THEN (IF o.op \in ReleaseOps THEN "ReleaseReleases" ELSE "ViewEqualsIdeal")
        ELSE IF o.op = "spawn" /\ e.c = o.child THEN "ChildSeesSnapshot"
        ELSE IF o.op \in ReleaseOps THEN "ReleaseIsLocal"
        ELSE "NoLeakBetweenContexts")
  ELSE IF ~ProxyOK(S, e) THEN
       (IF \E p \in SeqSet(e.prox) : p.k \in AllKinds /\ Bound(S, e.c, p.k) = NoBox
                                      /\ (p.truthy \/ ~p.unb \/ p.id # 0 \/ p.cur # 0 \/ ~p.isproxy
                                          \/ ~FwdOK(S, NoBox, p))
        THEN "ProxyReportsUnbound"
        \* a bound but falsy object must still be reported as bound (no RuntimeError, its own repr)
        ELSE IF \E p \in SeqSet(e.prox) : p.k \in AllKinds /\ Bound(S, e.c, p.k) # NoBox
                      /\ ~TruthyC(S.cont, Bound(S, e.c, p.k))
                      /\ (p.cur = 0 \/ p.id = 0 \/ p.unb \/ ~p.repobj)
        THEN "FalsyBoundObjectIsBound"
        ELSE "ProxyResolvesInAccessingContext")
  ELSE "ok"

RECURSIVE FirstBad(_, _, _, _)
FirstBad(S, o, obs, i) ==
  IF i > Len(obs) THEN "ok"
  ELSE IF obs[i].c \notin S.alive THEN "drift:observed-context-not-alive"
  ELSE LET v == CtxClause(S, o, obs[i]) IN IF v # "ok" THEN v ELSE FirstBad(S, o, obs, i + 1)

\* what the driver's own (main) context reads: it never wrote, so whatever the other contexts did
\* it sees an empty namespace, an empty stack and only unbound proxies
MainClause(S, main) ==
  IF Len(main) = 0 THEN "ok"
  ELSE LET Z == [S EXCEPT !.attrs[1] = NoAttrs, !.stack[1] = <<>>, !.cvar[1] = NoBox,
                          !.cvd[1] = [k \in CvdKinds |-> NoBox]]   \* (defaults: bound there too)
           e == main[1]
       IN IF ~(AttrOK(Z, e) /\ StackOK(Z, e)) THEN "NoLeakBetweenContexts"
          ELSE IF ~ProxyOK(Z, e) THEN "ProxyReportsUnbound" ELSE "ok"

OpOf(line) == [ctx |-> line.ctx, op |-> line.op, n |-> line.n, b |-> line.b, v |-> line.v,
               k |-> line.k, child |-> line.child]

\* "ok" | a clause of the property | "drift:..." (the trace is not a behaviour of the model's
\* vocabulary: a harness problem, reported as drift, never as a verdict)
\* The state the contract prescribes after the recorded call.  Two outcomes are left open by the
\* documentation and decided by what was recorded:
\*  - LocalManager(x) that raised (the bare-LocalStack form does on this tree although the type
\*    annotation lists it): no new manager exists, the old one stays in use;
\*  - a middleware request whose app raised: released or not (AltNextOf), whichever was observed.
Target(S, o, line) == IF o.op = "mkmgr" /\ line.r.tag = "exc" THEN S ELSE NextOf(S, o)

JudgeAgainst(T, S, o, line) ==
  IF {e.c : e \in SeqSet(line.obs)} # T.alive \/ Len(line.obs) # Cardinality(T.alive)
  THEN "drift:contexts-observed"
  \* results of LocalManager(...) and of the middleware call are not part of the property
  ELSE IF o.op \notin {"mkmgr", "mw", "mw_enter"} /\ line.r # RetOf(S, o) THEN
       (IF o.op \in ProxyOps THEN "ProxyResolvesInAccessingContext"
        ELSE IF o.op \in ReleaseOps THEN "ReleaseReleases" ELSE "ReturnValue")
  ELSE LET v == FirstBad(T, o, line.obs, 1) IN
       IF v # "ok" THEN v ELSE MainClause(T, line.main)

\* [v |-> "ok" | a clause of the property | "drift:..." (the trace is not a behaviour of the
\* model's vocabulary: a harness problem, reported as drift, never as a verdict), s |-> next state]
Verdict(S, line) ==
  LET o == OpOf(line) IN
  IF ~Enabled(S, o) THEN [v |-> "drift:operation-not-enabled", s |-> S]
  ELSE LET T1 == Target(S, o, line)
           v1 == JudgeAgainst(T1, S, o, line)
           T2 == AltNextOf(S, o)
       IN IF v1 = "ok" \/ T2 = T1 THEN [v |-> v1, s |-> T1]
          ELSE IF JudgeAgainst(T2, S, o, line) = "ok" THEN [v |-> "ok", s |-> T2]
          ELSE [v |-> v1, s |-> T1]

IsDrift(v) == v \in {"drift:operation-not-enabled", "drift:contexts-observed", "drift:observed-context-not-alive"}

Init == l = 1 /\ st = InitState({}) /\ dead = TRUE

Next == /\ l <= Len(Lines)
        /\ LET line == Lines[l] IN
           IF line.op = "cfg"
           THEN st' = InitState(SeqSet(line.made)) /\ dead' = FALSE
           ELSE IF dead THEN UNCHANGED <<st, dead>>
           ELSE LET j == Verdict(st, line) v == j.v IN
                /\ dead' = (v # "ok")
                /\ st' = IF v = "ok" THEN j.s ELSE st
                /\ IF v = "ok" THEN TRUE
                   ELSE IF IsDrift(v)
                        THEN PrintT(ToJson([drift |-> 1, t |-> line.t, i |-> line.i, what |-> v]))
                        ELSE PrintT(ToJson([reject |-> 1, t |-> line.t, i |-> line.i, clause |-> v]))
        /\ l' = l + 1

Done == PrintT(ToJson([judged |-> Len(Lines)])) /\ TLCGet("generated") >= 0
=============================================================================
