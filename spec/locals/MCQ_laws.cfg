CONSTANTS
  Ctxs = {1, 2, 3}
  Names = {"x", "y"}
  Boxes = {2, 3}
  Vals = {0, 1}
  MaxStack = 2
  MaxOps = 5
  OpKinds = {"set", "get", "del", "iter", "release", "push", "pop", "top", "release_stack", "cleanup", "mkproxy", "proxy_read", "proxy_mutate", "proxy_pop", "proxy_clear", "spawn"}
  Made0 <- NoneMade
INIT Init
NEXT Next
VIEW ViewBounded
INVARIANT TypeOK
PROPERTY LawNoLeak
PROPERTY LawSnapshot
PROPERTY LawRelease
PROPERTY LawProxy
PROPERTY LawReads
