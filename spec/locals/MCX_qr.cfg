CONSTANTS
  Ctxs = {1, 2}
  Names = {"x"}
  Boxes = {1}
  Vals = {0, 1}
  MaxStack = 1
  MaxOps <- NoLimit
  OpKinds = {"set", "push", "release_dunder", "release_stack_dunder", "pop_all", "cleanup", "mw", "mkmgr", "mgr_append", "spawn"}
  Made0 <- AllMade
  MwForms <- MwMake
  MwPush <- MwNoPush
INIT Init
NEXT Next
VIEW ViewState
ACTION_CONSTRAINT Export
