CONSTANTS
  Ctxs = {1, 2}
  Names = {"x"}
  Boxes = {1, 2}
  Vals = {0, 1}
  MaxStack = 2
  MaxOps <- NoLimit
  OpKinds = {"set", "del", "release", "push", "pop", "release_stack", "cleanup", "mkproxy", "proxy_mutate", "spawn"}
  Made0 <- NoneMade
INIT Init
NEXT Next
VIEW ViewState
ACTION_CONSTRAINT Export
