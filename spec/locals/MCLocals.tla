------------------------------ MODULE MCLocals ------------------------------
(* Bounded instance of the contract Locals.tla: every interleaving of the operations of the  *)
(* contexts in Ctxs.  Used (a) to check the laws of the property statement on the contract,  *)
(* (b) to export the labelled transition system (pre, act, post) for replay on the real code. *)
EXTENDS Locals, TLC, Json

CONSTANTS Vals,       \* values written through a proxy
          MaxStack,   \* pushes are enabled below this depth
          MaxOps,     \* bound on the number of operations of a behaviour (0 - 1: none)
          OpKinds,    \* operation names that are enabled in this configuration
          Made0       \* proxies that exist before the first operation

VARIABLES st, act, n
vars == <<st, act, n>>

O(c, op, nm, b, v, k, ch) == [ctx |-> c, op |-> op, n |-> nm, b |-> b, v |-> v, k |-> k, child |-> ch]

AllOps ==
       {O(c, "set", nm, b, 0, "", 0) : c \in Ctxs, nm \in Names, b \in Boxes}
  \cup {O(c, op, nm, 0, 0, "", 0) : c \in Ctxs, op \in {"get", "del"}, nm \in Names}
  \cup {O(c, op, "", 0, 0, "", 0) : c \in Ctxs, op \in {"iter", "release", "pop", "top", "release_stack", "cleanup",
                                                            "release_dunder", "release_stack_dunder", "pop_all"}}
  \cup {O(c, "cv_set", "", b, 0, "", 0) : c \in Ctxs, b \in Boxes}
  \cup {O(c, "cvd_set", "", b, 0, k, 0) : c \in Ctxs, b \in Boxes, k \in CvdKinds}
  \cup {O(c, "cvd_reset", "", 0, 0, k, 0) : c \in Ctxs, k \in CvdKinds}
  \cup {O(c, "mw_enter", nm, b, v, k, 0) : c \in Ctxs, nm \in Names, b \in Boxes, v \in {0, 3}, k \in MwForms}
  \cup {O(c, "mw_enter", "", b, v, k, 0) : c \in Ctxs, b \in MwPush, v \in {0, 3}, k \in MwForms}
  \cup {O(c, "mw_close", "", 0, v, "", 0) : c \in Ctxs, v \in 0..2}
  \cup {O(c, "mw_abandon", "", 0, 0, "", ch) : c \in Ctxs, ch \in Ctxs}
  \cup {O(c, "mkmgr", "", 0, 0, k, 0) : c \in Ctxs, k \in MgrForms}
  \cup {O(c, "mgr_append", "", 0, 0, k, 0) : c \in Ctxs, k \in {"local", "stack"}}
  \cup {O(c, "mw", nm, b, v, k, 0) : c \in Ctxs, nm \in Names, b \in Boxes, v \in MwVariants, k \in MwForms}
  \cup {O(c, "mw", "", b, v, k, 0) : c \in Ctxs, b \in MwPush, v \in MwVariants, k \in MwForms}
  \cup {O(c, "push", "", b, 0, "", 0) : c \in Ctxs, b \in Boxes}
  \cup {O(c, op, "", 0, 0, k, 0) : c \in Ctxs, op \in {"mkproxy", "proxy_read"}, k \in MCKinds}
  \cup {O(c, "proxy_mutate", "", 0, v, k, 0) : c \in Ctxs, v \in Vals, k \in MCKinds}
  \cup {O(c, op, "", 0, 0, k, 0) : c \in Ctxs, op \in {"proxy_pop", "proxy_clear"}, k \in MCKinds}
  \cup {O(c, op, "", 0, v, k, 0) : c \in Ctxs, op \in {"proxy_iadd", "proxy_isub", "proxy_ior"}, v \in IopArgs, k \in MCKinds}
  \cup {O(c, "proxy_imul", "", 0, 2, k, 0) : c \in Ctxs, k \in MCKinds}
  \cup {O(c, "spawn", "", 0, 0, "", ch) : c \in Ctxs, ch \in Ctxs}

Allowed(S, o) == /\ o.op \in OpKinds
                 /\ Enabled(S, o)
                 /\ (o.op = "push" => Len(S.stack[o.ctx]) < MaxStack)
                 /\ (o.op \in {"mw", "mw_enter"} /\ o.n = "" /\ o.b # NoBox => Len(S.stack[o.ctx]) < MaxStack)
                 \* lists grown through a proxy stay small
                 /\ (o.op \in {"proxy_iadd", "proxy_imul"} =>
                        LET b == Bound(S, o.ctx, o.k) IN
                        IF b = NoBox THEN TRUE ELSE IF KindOf(b) # "list" THEN TRUE ELSE S.cont[b] <= 2)
                 \* children are created in the order 2, 3, ... (symmetry: ids are only names)
                 /\ (o.op = "spawn" => \A d \in Ctxs : (d < o.child) => d \in S.alive)

NoAct == [op |-> O(0, "init", "", 0, 0, "", 0), ret |-> OkR]

Init == st = InitState(Made0) /\ act = NoAct /\ n = 0

Next == /\ (MaxOps < 0 \/ n < MaxOps)
        /\ \E o \in AllOps :
             /\ Allowed(st, o)
             /\ st' = NextOf(st, o)
             /\ act' = [op |-> o, ret |-> RetOf(st, o)]
        /\ n' = IF MaxOps < 0 THEN n ELSE n + 1    \* unbounded configs: n stays 0 (finite state space)

Spec == Init /\ [][Next]_vars

ViewBounded == <<st, n>>      \* model checking: the step counter bounds the behaviours
ViewState   == st             \* export: the transition system of the contract itself

\* ---- laws (action properties, checked on every transition) ---------------------------------
TypeOK == /\ st.alive \subseteq Ctxs /\ 1 \in st.alive
          /\ \A c \in Ctxs : c \notin st.alive => st.attrs[c] = NoAttrs /\ st.stack[c] = <<>>
          /\ st.made \subseteq AllKinds
LawNoLeak     == [][NoLeak(st, act'.op, st')]_vars
LawSnapshot   == [][ChildSeesSnapshot(st, act'.op, st')]_vars
LawRelease    == [][ReleaseIsLocal(st, act'.op, st')]_vars
LawProxy      == [][ProxyInAccessingContext(st, act'.op, st')]_vars
LawReads      == [][ReadsArePure(st, act'.op, st')]_vars

\* ---- export ------------------------------------------------------------------------------
Export == PrintT(ToJson([pre |-> st, act |-> act', post |-> st']))

NoLimit == 0 - 1
NoneMade == {}
AllMade == PKinds
EveryKind == AllKinds
=============================================================================
