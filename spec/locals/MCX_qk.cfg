CONSTANTS
  Ctxs = {1, 2}
  Names = {"x"}
  Boxes = {1}
  Vals = {0, 1}
  MaxStack = 1
  MaxOps <- NoLimit
  OpKinds = {"set", "del", "push", "pop", "cv_set", "release", "spawn"}
  Made0 <- EveryKind
  MwForms <- MwMake
  MwPush <- MwNoPush
INIT Init
NEXT Next
VIEW ViewState
ACTION_CONSTRAINT Export
