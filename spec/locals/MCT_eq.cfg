CONSTANTS
  Ctxs = {1, 2, 3}
  Names = {"x"}
  Boxes = {1, 17, 18}
  Vals = {0, 1}
  MaxStack = 1
  MaxOps = 6
  OpKinds = {"set", "get", "del", "push", "pop", "mkproxy", "proxy_read", "proxy_mutate", "mw", "spawn"}
  Made0 <- NoneMade
  Bug = "none"
  MwForms <- MwMake
  MwVariants <- MwClosed
INIT Init
NEXT Next
INVARIANT Isolation
INVARIANT ViewEqualsIdeal
INVARIANT ProxiesAgree
INVARIANT ContentsAgree
INVARIANT ReturnsAgree
