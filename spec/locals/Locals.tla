------------------------------- MODULE Locals -------------------------------
(* C18 -- contract ("documented model") of werkzeug.local: Local, LocalStack, LocalManager,   *)
(* release_local and LocalProxy over execution contexts.                                      *)
(*                                                                                            *)
(* One immutable mapping (the Local namespace) and one immutable stack (the LocalStack) per   *)
(* context.  The stored values are references to mutable objects ("boxes", each with one      *)
(* mutable field `val`), because "mutate through a proxy" needs an object to mutate: the      *)
(* snapshot a child context receives is a snapshot of the *bindings* (name -> object, stack   *)
(* of objects), exactly like contextvars; the content of an object is global.                 *)
(*                                                                                            *)
(* The contract is a set of pure operators over a state record, so that the same text is      *)
(* (a) model-checked on its own (MCLocals: the isolation laws of the property statement),     *)
(* (b) the reference the implementation-shaped heap model is checked against (LocalsImpl),    *)
(* (c) the oracle of the trace judge (LocalsTrace) and the source of the exported behaviours. *)
(* Transcribed from the documentation of werkzeug.local and the property text, not the code.  *)
EXTENDS Integers, Sequences, FiniteSets

CONSTANTS Ctxs,    \* context identifiers, 1 is the root context
          Names,   \* attribute names of the Local namespace (strings)
          Boxes    \* identifiers of the mutable objects that get stored (positive integers)

\* ---- the universe of stored objects ------------------------------------------------------------
\* Object identifiers are fixed names for the following Python objects (harness/locals.py creates
\* exactly these).  What matters to the property: an object may be *falsy* -- always (0, "", an
\* empty container) or depending on its state (an object whose __bool__ looks at a field, a
\* container that is emptied *through the proxy*).  A proxy bound to a falsy object is still
\* bound: bool(proxy) = bool(object), but _get_current_object(), attribute reads and repr behave
\* as for any bound object; unbound-ness is never decided by truthiness.
\*   1, 4 : plain object with a field `val`            (always truthy)
\*   2    : object with a field `val` whose __bool__ is `val != 0`  (initially falsy)
\*   3    : list, initially [7, 7]       7 : list, initially []       8 : dict, initially {}
\*   5    : the int 0                    6 : the str ""
\*   9    : the int 3      10 : the str "ab"      11 : the tuple (1, 2)      12 : frozenset({1})
\* Objects that are EQUAL (==) BUT NOT IDENTICAL to another one of the universe -- the model binds
\* identities; that two objects compare equal must never make one stand in for the other:
\*   13 : a second []  (== 7)      14 : a second {}  (== 8)      15, 16 : two set()
\*   17, 18 : two plain objects with a field `val` whose __eq__ says True to each other
\*   19 : True    20 : the int 1    21 : the float 1.0            (19 == 20 == 21)
\*   22, 23 : two str "e q!" built at run time (not interned)
\* cont[b] is the object's state: the field `val` (1, 2, 4, 17, 18), the length (3, 7, 8, 13 .. 16),
\* 0 for the immutable ones, whose value never changes whatever is done through a proxy.
KindOf(b) == CASE b \in {1, 4, 17, 18} -> "box" [] b = 2 -> "fbox" [] b \in {3, 7, 13} -> "list"
               [] b \in {8, 14} -> "dict" [] b \in {15, 16} -> "set"
               [] b \in {5, 9, 19, 20} -> "int" [] b = 21 -> "float" [] b \in {6, 10, 22, 23} -> "str"
               [] b = 11 -> "tuple" [] OTHER -> "fset"
Init0(b)  == IF b = 3 THEN 2 ELSE 0
IntVal(b) == CASE b = 9 -> 3 [] b \in {19, 20, 21} -> 1 [] OTHER -> 0
FixedSize(b) == CASE b \in {10, 11} -> 2 [] b = 12 -> 1 [] b \in {22, 23} -> 4 [] OTHER -> 0
Immutable(b) == KindOf(b) \in {"int", "float", "str", "tuple", "fset"}
NumLike(b)   == KindOf(b) \in {"int", "float"}
\* a == b in Python although a and b may be different objects (where the model can tell: the items
\* of non-empty lists are not modelled)
ValEq(cont, a, b) ==
  \/ a = b
  \/ (NumLike(a) /\ NumLike(b) /\ IntVal(a) = IntVal(b))
  \/ (KindOf(a) = KindOf(b) /\
       CASE KindOf(a) \in {"list", "dict", "set"} -> cont[a] = 0 /\ cont[b] = 0
         [] KindOf(a) = "box" -> {a, b} = {17, 18}
         [] KindOf(a) = "str" -> FixedSize(a) = FixedSize(b) /\ (FixedSize(a) = 4 \/ FixedSize(a) = 0)
         [] OTHER -> FALSE)
\* result codes of reads that fail: the exception class
RTE == 0 - 1      \* RuntimeError (the proxy says it is unbound)
TYE == 0 - 2      \* TypeError
IXE == 0 - 3      \* IndexError
KYE == 0 - 4      \* KeyError
SizeOf(cont, b) == CASE KindOf(b) \in {"list", "dict", "set"} -> cont[b]
                     [] KindOf(b) \in {"str", "tuple", "fset"} -> FixedSize(b)
                     [] OTHER -> TYE                                  \* len() of an int / plain object
TruthyC(cont, b) == CASE KindOf(b) = "box" -> TRUE
                      [] KindOf(b) = "fbox" -> cont[b] # 0
                      [] NumLike(b) -> IntVal(b) # 0
                      [] OTHER -> SizeOf(cont, b) # 0
\* what Python answers when these are applied to the object itself (the proxy must answer the same,
\* computed on the object bound in the accessing context):
GetItemCode(cont, b) ==        \* obj[0]: 1 = an item
  CASE KindOf(b) \in {"str", "tuple", "list"} -> IF SizeOf(cont, b) > 0 THEN 1 ELSE IXE
    [] KindOf(b) = "dict" -> KYE
    [] OTHER -> TYE
InCodes(cont, b) ==            \* 7 in obj  (0 / 1; the items of a list are not modelled)
  CASE KindOf(b) \in {"tuple", "fset", "dict"} -> {0}
    [] KindOf(b) = "list" -> IF cont[b] = 0 THEN {0} ELSE {0, 1}
    [] KindOf(b) = "set" -> IF cont[b] = 0 THEN {0} ELSE {1}      \* (only 7 is ever put into it)
    [] OTHER -> {TYE}
AddCode(cont, b) ==            \* obj + obj: the int, or the length of the concatenation
  CASE NumLike(b) -> 2 * IntVal(b)
    [] KindOf(b) \in {"str", "tuple", "list"} -> 2 * SizeOf(cont, b)
    [] OTHER -> TYE
HashCode(b) == IF KindOf(b) \in {"list", "dict", "set"} THEN TYE ELSE 1

TOP    == "@top"                 \* proxy kind: stack() -- the top of the LocalStack
PKinds == Names \cup {TOP}       \* proxy kinds: ns(name) for each name, and stack()
CVK    == "@cv"                  \* LocalProxy(a plain ContextVar without default)
FNK    == "@fn"                  \* LocalProxy(callable): the callable is the resolver of ns("x")
\* LocalProxy(ContextVar(.., default=obj)): where the var was never set (or was reset) var.get()
\* answers the declared default, so the proxy is BOUND to it there; only a var without default
\* that was never set is unbound.  "@cvd": default = object 4 (truthy), "@cvz": default = object 5
\* (the int 0: bound and falsy).
CvdKinds == {"@cvd", "@cvz"}
CvdDefault(k) == IF k = "@cvd" THEN 4 ELSE 5
AllKinds == PKinds \cup {CVK, FNK} \cup CvdKinds
MCKinds  == PKinds               \* kinds enumerated by the bounded models (overridable in a cfg)
NoBox  == 0

NsOps      == {"set", "get", "del", "iter", "release"}
StackOps   == {"push", "pop", "top", "release_stack"}
ProxyOps   == {"mkproxy", "proxy_read", "proxy_mutate", "proxy_pop", "proxy_clear",
               "proxy_iadd", "proxy_isub", "proxy_ior", "proxy_imul"}
IopOps     == {"proxy_iadd", "proxy_isub", "proxy_ior", "proxy_imul"}   \* name += / -= / |= / *= operand
ObjOps     == {"proxy_mutate", "proxy_pop", "proxy_clear"} \cup IopOps   \* forwarded to the bound object
\* operand of an augmented assignment, selected by o.v:  1 -> 1   2 -> "z"   3 -> (7,)
\* 4 -> frozenset({7})   5 -> [7, 7]   (`*=` always multiplies by 2)
IopArgs    == 1..5
SmallIop   == {1, 3}
\* middleware requests enumerated by the bounded models (overridable in a cfg)
MwVariants == 0..3
MwForms    == {"make", "deco"}
MwPush     == Boxes \cup {NoBox}
MwMake     == {"make"}
MwClosed   == {1}
MwNoPush   == {NoBox}
IopQuick   == {1, 5}
\* release paths: release_local(local) / local.__release_local__() for the namespace and the stack,
\* LocalManager.cleanup(), closing the iterable returned by the LocalManager middleware, popping
\* the stack until it is empty
ReleaseOps == {"release", "release_stack", "cleanup", "release_dunder", "release_stack_dunder",
               "mw", "mw_close", "pop_all"}
MgrOps     == {"mkmgr", "mgr_append"}
MgrForms   == {"none", "local", "stack", "both", "lstack"}    \* LocalManager() / (ns) / (stack) / ([ns, stack]) / ([stack])
KnownOps   == NsOps \cup StackOps \cup ProxyOps \cup ReleaseOps \cup MgrOps
              \cup {"spawn", "nop", "cv_set", "mw_enter", "cvd_set", "cvd_reset", "mw_abandon"}
ReadOps    == {"get", "iter", "top", "proxy_read"}

\* ---- state ------------------------------------------------------------------------------
\*  alive : contexts that exist                    attrs : per context, name -> box | NoBox
\*  stack : per context, sequence of boxes         cont  : box -> value of its field `val`
\*  mgr   : the locals the LocalManager object in use manages (a subset of {"ns", "stack"}); one
\*          global Python object like the proxies, replaced by "mkmgr", extended by "mgr_append"
\*  made  : proxy kinds for which a LocalProxy object exists (a proxy is one global object held
\*          in one Python name; it is not bound to the context that created it, and the name
\*          keeps holding the proxy whatever is done through it, augmented assignment included)
InitState(made0) ==
  [alive |-> {1},
   attrs |-> [c \in Ctxs |-> [n \in Names |-> NoBox]],
   stack |-> [c \in Ctxs |-> <<>>],
   cont  |-> [b \in Boxes |-> Init0(b)],
   made  |-> made0,
   mgr   |-> {"ns", "stack"},      \* what the current LocalManager manages (initially both)
   cvar  |-> [c \in Ctxs |-> NoBox],   \* value of the plain ContextVar behind the @cv proxy
   infl  |-> {},
   \* the two ContextVars with a default: value set in the context (NoBox = not set there), and
   \* the values the context's outstanding set() tokens restore (reset() undoes the latest set();
   \* a token is only valid in the context that created it, a child starts without any)
   cvd   |-> [c \in Ctxs |-> [k \in CvdKinds |-> NoBox]],
   cvtok |-> [c \in Ctxs |-> [k \in CvdKinds |-> <<>>]]]                   \* contexts with a request in flight in the manager middleware

\* ---- operations -------------------------------------------------------------------------
\* op record : [ctx, op, n (name | ""), b (box | 0), v (value), k (proxy kind | ""), child (ctx | 0)]
\* result    : [tag \in {"ok","box","none","int","exc"}, id, exc]
Ret(tag, id, exc) == [tag |-> tag, id |-> id, exc |-> exc]
OkR      == Ret("ok", 0, "")
NoneR    == Ret("none", 0, "")
BoxR(b)  == Ret("box", b, "")
IntR(i)  == Ret("int", i, "")
ExcR(e)  == Ret("exc", 0, e)

TopOf(s) == IF Len(s) = 0 THEN NoBox ELSE s[Len(s)]
\* the object a proxy of kind k resolves to *in context c* (NoBox: nothing bound there)
Bound(S, c, k) == IF k = TOP THEN TopOf(S.stack[c])
                  ELSE IF k = CVK THEN S.cvar[c]
                  ELSE IF k \in CvdKinds THEN (IF S.cvd[c][k] = NoBox THEN CvdDefault(k) ELSE S.cvd[c][k])
                  ELSE IF k = FNK THEN (IF "x" \in Names THEN S.attrs[c]["x"] ELSE NoBox)
                  ELSE S.attrs[c][k]
BoundNames(S, c) == {n \in Names : S.attrs[c][n] # NoBox}
NoAttrs == [n \in Names |-> NoBox]

Enabled(S, o) ==
  /\ o.op \in KnownOps
  /\ o.ctx \in S.alive
  /\ CASE o.op = "set"                              -> o.n \in Names /\ o.b \in Boxes
       [] o.op \in {"get", "del"}                   -> o.n \in Names
       [] o.op = "push"                             -> o.b \in Boxes
       [] o.op = "mkproxy"                          -> o.k \in AllKinds
       [] o.op = "cv_set"                           -> o.b \in Boxes
       [] o.op = "cvd_set"                          -> o.b \in Boxes /\ o.k \in CvdKinds
       [] o.op = "cvd_reset"                        -> o.k \in CvdKinds /\ Len(S.cvtok[o.ctx][o.k]) > 0
       [] o.op \in {"proxy_read"} \cup ObjOps       -> o.k \in S.made
       [] o.op = "spawn"                            -> o.child \in Ctxs \ S.alive
       \* (vocabulary: the manager object is not replaced while one of its requests is in flight)
       [] o.op = "mkmgr"                            -> o.k \in MgrForms /\ S.infl = {}
       \* the same request in two steps, so that requests of different contexts overlap:
       \* mw_enter = the call of the middleware (the app runs; v = 3: it raises), mw_close = the
       \* returned iterable is consumed (v as for "mw": 0 all, 1 nothing, 2 partly) and closed
       [] o.op = "mw_enter" -> /\ o.ctx \notin S.infl /\ o.k \in {"make", "deco"} /\ o.v \in {0, 3}
                               /\ (IF o.n # "" THEN o.n \in Names /\ o.b \in Boxes ELSE o.b \in Boxes \cup {NoBox})
       [] o.op = "mw_close" -> o.ctx \in S.infl /\ o.v \in 0..2
       \* the unclosed iterable of context o.child's request is handed to context o.ctx, which drops
       \* the last reference to it and runs the garbage collector
       [] o.op = "mw_abandon" -> o.child \in S.infl /\ o.child # o.ctx
       [] o.op = "mgr_append"                       -> o.k \in {"local", "stack"}
       \* one request through manager.make_middleware(app) ("make") / @manager.middleware ("deco");
       \* the app binds name n to b (n given), else pushes b (b given), else touches nothing;
       \* v: 0 = body consumed then closed, 1 = closed unconsumed, 2 = partly consumed then closed,
       \*    3 = the app raises (nothing is returned that could be closed)
       [] o.op = "mw"  -> /\ o.k \in {"make", "deco"} /\ o.v \in 0..3
                          /\ (IF o.n # "" THEN o.n \in Names /\ o.b \in Boxes ELSE o.b \in Boxes \cup {NoBox})
       [] OTHER                                     -> TRUE

MgrOf(k) == CASE k = "none" -> {} [] k = "local" -> {"ns"} [] k \in {"stack", "lstack"} -> {"stack"}
              [] OTHER -> {"ns", "stack"}
\* the locals in m are released in context c (and nowhere else)
ReleaseIn(S, c, m) == [S EXCEPT !.attrs[c] = IF "ns" \in m THEN NoAttrs ELSE @,
                                !.stack[c] = IF "stack" \in m THEN <<>> ELSE @]
AppEffect(S, o) == IF o.n # "" THEN [S EXCEPT !.attrs[o.ctx][o.n] = o.b]
                   ELSE IF o.b # NoBox THEN [S EXCEPT !.stack[o.ctx] = Append(@, o.b)] ELSE S
\* what a release path releases in the acting context
Released(S, o) == CASE o.op \in {"release", "release_dunder"} -> {"ns"}
                    [] o.op \in {"release_stack", "release_stack_dunder", "pop_all"} -> {"stack"}
                    [] o.op = "cleanup" -> S.mgr
                    [] o.op = "mw" -> IF o.v = 3 THEN {} ELSE S.mgr
                    [] o.op = "mw_close" -> S.mgr
                    [] OTHER -> {}

\* An operation forwarded by a proxy to the object b it resolved to (b # NoBox): what Python does.
\*   proxy.val = v : plain objects take it; list / dict / int / str have no such attribute
\*   proxy.pop()   : list -> drops the last item (IndexError when empty); dict.pop() needs a key
\*   proxy.clear() : list / dict -> empty
\*   name += x etc. where name is the proxy (`_ProxyIOp`: "the method is wrapped to return the proxy
\*   instead of the object"): the operator is applied to the bound object, the result is dropped,
\*   the name stays the proxy.  So an immutable object is unaffected, a list is extended in place,
\*   and an operand of the wrong type raises what Python raises for the object itself.
IopExc(kd, op, v) ==           \* "" = no exception
  CASE op = "proxy_iadd" -> IF \/ (kd \in {"int", "float"} /\ v = 1) \/ (kd = "str" /\ v = 2) \/ (kd = "tuple" /\ v = 3)
                               \/ (kd = "list" /\ v # 1) THEN "" ELSE "TypeError"
    [] op = "proxy_isub" -> IF (kd \in {"int", "float"} /\ v = 1) \/ (kd \in {"fset", "set"} /\ v = 4) THEN "" ELSE "TypeError"
    [] op = "proxy_ior"  -> IF (kd = "int" /\ v = 1) \/ (kd \in {"fset", "set"} /\ v = 4) THEN ""
                            ELSE IF kd = "dict" /\ v = 2 THEN "ValueError" ELSE "TypeError"
    [] op = "proxy_imul" -> IF kd \in {"int", "float", "str", "tuple", "list"} THEN "" ELSE "TypeError"
ObjRet(cont, b, o) ==
  LET kd == KindOf(b) IN
  CASE o.op \in IopOps -> IF IopExc(kd, o.op, o.v) = "" THEN OkR ELSE ExcR(IopExc(kd, o.op, o.v))
    [] o.op = "proxy_mutate" -> IF kd \in {"box", "fbox"} THEN OkR ELSE ExcR("AttributeError")
    [] o.op = "proxy_pop"    -> IF kd = "list" THEN (IF cont[b] > 0 THEN OkR ELSE ExcR("IndexError"))
                                ELSE IF kd = "set" THEN (IF cont[b] > 0 THEN OkR ELSE ExcR("KeyError"))
                                ELSE IF kd = "dict" THEN ExcR("TypeError") ELSE ExcR("AttributeError")
    [] o.op = "proxy_clear"  -> IF kd \in {"list", "dict", "set"} THEN OkR ELSE ExcR("AttributeError")
ObjNext(cont, b, o) ==
  LET kd == KindOf(b) IN
  CASE o.op = "proxy_iadd" -> IF kd = "list" /\ o.v # 1
                              THEN [cont EXCEPT ![b] = @ + (IF o.v = 5 THEN 2 ELSE 1)] ELSE cont
    [] o.op = "proxy_imul" -> IF kd = "list" THEN [cont EXCEPT ![b] = 2 * @] ELSE cont
    \* set |= frozenset({7}) / set -= frozenset({7}) work in place
    [] o.op = "proxy_ior"  -> IF kd = "set" /\ o.v = 4 THEN [cont EXCEPT ![b] = 1] ELSE cont
    [] o.op = "proxy_isub" -> IF kd = "set" /\ o.v = 4 THEN [cont EXCEPT ![b] = 0] ELSE cont
    [] o.op = "proxy_mutate" -> IF kd \in {"box", "fbox"} THEN [cont EXCEPT ![b] = o.v] ELSE cont
    [] o.op = "proxy_pop"    -> IF kd \in {"list", "set"} /\ cont[b] > 0 THEN [cont EXCEPT ![b] = @ - 1] ELSE cont
    [] o.op = "proxy_clear"  -> IF kd \in {"list", "dict", "set"} THEN [cont EXCEPT ![b] = 0] ELSE cont

\* result of the call
RetOf(S, o) ==
  LET c == o.ctx IN
  CASE o.op = "get"  -> IF S.attrs[c][o.n] # NoBox THEN BoxR(S.attrs[c][o.n]) ELSE ExcR("AttributeError")
    [] o.op = "del"  -> IF S.attrs[c][o.n] # NoBox THEN OkR ELSE ExcR("AttributeError")
    [] o.op = "iter" -> IntR(Cardinality(BoundNames(S, c)))
    [] o.op \in {"pop", "top"} -> IF Len(S.stack[c]) = 0 THEN NoneR ELSE BoxR(TopOf(S.stack[c]))
    [] o.op = "pop_all" -> IntR(Len(S.stack[c]))                 \* number of items popped before None
    [] o.op \in {"mw", "mw_enter"} -> IF o.v = 3 THEN ExcR("AppError") ELSE OkR  \* (not judged: not part of the property)
    [] o.op = "proxy_read"   -> IF Bound(S, c, o.k) # NoBox THEN BoxR(Bound(S, c, o.k)) ELSE ExcR("RuntimeError")
    [] o.op \in ObjOps -> IF Bound(S, c, o.k) # NoBox THEN ObjRet(S.cont, Bound(S, c, o.k), o)
                           ELSE ExcR("RuntimeError")
    [] OTHER -> OkR

\* state after the call
NextOf(S, o) ==
  LET c == o.ctx IN
  CASE o.op = "set"  -> [S EXCEPT !.attrs[c][o.n] = o.b]
    [] o.op = "del"  -> [S EXCEPT !.attrs[c][o.n] = NoBox]
    [] o.op \in {"release", "release_dunder"} -> [S EXCEPT !.attrs[c] = NoAttrs]
    [] o.op = "push" -> [S EXCEPT !.stack[c] = Append(@, o.b)]
    [] o.op = "pop"  -> IF Len(S.stack[c]) = 0 THEN S
                        ELSE [S EXCEPT !.stack[c] = SubSeq(@, 1, Len(@) - 1)]
    [] o.op \in {"release_stack", "release_stack_dunder", "pop_all"} -> [S EXCEPT !.stack[c] = <<>>]
    [] o.op = "cleanup" -> ReleaseIn(S, c, S.mgr)
    \* "local data is released automatically after the response has been sent": closing the returned
    \* iterable releases (consumed or not); when the app raises there is nothing to close
    [] o.op = "mw" -> IF o.v = 3 THEN AppEffect(S, o) ELSE ReleaseIn(AppEffect(S, o), c, S.mgr)
    \* overlapping requests: entering affects the entering context only (the app's writes); closing
    \* releases in the closing context only, whatever other requests are still in flight
    [] o.op = "mw_enter" -> IF o.v = 3 THEN AppEffect(S, o) ELSE [AppEffect(S, o) EXCEPT !.infl = @ \cup {c}]
    [] o.op = "mw_close" -> ReleaseIn([S EXCEPT !.infl = @ \ {c}], c, S.mgr)
    \* an abandoned response releases nothing anywhere: certainly not in the context that happens to
    \* drop it ("releasing a local affects only the releasing context"; nobody released here)
    [] o.op = "mw_abandon" -> [S EXCEPT !.infl = @ \ {o.child}]
    [] o.op = "cv_set" -> [S EXCEPT !.cvar[c] = o.b]
    [] o.op = "cvd_set" -> [S EXCEPT !.cvd[c][o.k] = o.b, !.cvtok[c][o.k] = Append(@, S.cvd[c][o.k])]
    [] o.op = "cvd_reset" -> LET t == S.cvtok[c][o.k] IN
                             [S EXCEPT !.cvd[c][o.k] = t[Len(t)], !.cvtok[c][o.k] = SubSeq(t, 1, Len(t) - 1)]
    [] o.op = "mkmgr" -> [S EXCEPT !.mgr = MgrOf(o.k)]
    [] o.op = "mgr_append" -> [S EXCEPT !.mgr = @ \cup MgrOf(o.k)]
    [] o.op = "mkproxy" -> [S EXCEPT !.made = @ \cup {o.k}]
    [] o.op \in ObjOps -> IF Bound(S, c, o.k) # NoBox
                           THEN [S EXCEPT !.cont = ObjNext(S.cont, Bound(S, c, o.k), o)] ELSE S
    [] o.op = "spawn" -> [S EXCEPT !.alive = @ \cup {o.child},
                                   !.attrs[o.child] = S.attrs[c],
                                   !.stack[o.child] = S.stack[c],
                                   !.cvar[o.child] = S.cvar[c],
                                   !.cvd[o.child] = S.cvd[c]]
    [] OTHER -> S          \* get, iter, top, proxy_read

\* Outcomes the documentation leaves open (the judge accepts NextOf or this one):
\*  - the app raised inside the middleware: releasing anyway is as acceptable as not releasing
AltNextOf(S, o) == IF o.op \in {"mw", "mw_enter"} /\ o.v = 3 THEN ReleaseIn(AppEffect(S, o), o.ctx, S.mgr)
                   ELSE NextOf(S, o)

Step(S, o) == [s |-> NextOf(S, o), ret |-> RetOf(S, o)]

\* what one context can see: its bindings, its stack, and what every existing proxy
\* resolves to there
ViewOf(S, c) == [attrs |-> S.attrs[c], stack |-> S.stack[c],
                 prox  |-> [k \in S.made |-> Bound(S, c, k)]]

\* ---- the property statement as laws over one step S --o--> T ------------------------------
\* (checked by TLC on the contract in MCLocals; the judge enforces them on the real code by
\* comparing every context's observed view with the contract state after every step)
NoLeak(S, o, T) ==            \* an operation in one context changes no sibling's bindings
  \A d \in S.alive : d # o.ctx => T.attrs[d] = S.attrs[d] /\ T.stack[d] = S.stack[d] /\ T.cvar[d] = S.cvar[d]
                                   /\ T.cvd[d] = S.cvd[d]
ChildSeesSnapshot(S, o, T) == \* a child starts with exactly the parent's bindings
  o.op = "spawn" => /\ T.attrs[o.child] = S.attrs[o.ctx] /\ T.stack[o.child] = S.stack[o.ctx]
                    /\ T.attrs[o.ctx] = S.attrs[o.ctx]   /\ T.stack[o.ctx] = S.stack[o.ctx]
ReleaseIsLocal(S, o, T) ==    \* releasing empties the releasing context, and only that one
  o.op \in ReleaseOps =>
     /\ ("ns" \in Released(S, o) => T.attrs[o.ctx] = NoAttrs)
     /\ ("stack" \in Released(S, o) => T.stack[o.ctx] = <<>>)
     /\ \A d \in S.alive \ {o.ctx} : ViewOf(T, d) = ViewOf(S, d)
ProxyInAccessingContext(S, o, T) ==   \* a proxy acts on the object bound where it is used
  /\ o.op = "proxy_read" =>
       RetOf(S, o) = (IF Bound(S, o.ctx, o.k) = NoBox THEN ExcR("RuntimeError") ELSE BoxR(Bound(S, o.ctx, o.k)))
  /\ o.op \in ObjOps =>
       /\ \A b \in Boxes : T.cont[b] # S.cont[b] => b = Bound(S, o.ctx, o.k)
       \* bound (truthy or falsy) <=> the call is forwarded, i.e. no RuntimeError
       /\ (RetOf(S, o) = ExcR("RuntimeError")) = (Bound(S, o.ctx, o.k) = NoBox)
ReadsArePure(S, o, T) == o.op \in ReadOps => T = S
=============================================================================
