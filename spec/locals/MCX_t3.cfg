CONSTANTS
  Ctxs = {1, 2, 3}
  Names = {"x"}
  Boxes = {1, 2}
  Vals = {0, 1}
  MaxStack = 1
  MaxOps <- NoLimit
  OpKinds = {"set", "del", "release", "push", "pop", "release_stack", "cleanup", "spawn"}
  Made0 <- AllMade
INIT Init
NEXT Next
VIEW ViewState
ACTION_CONSTRAINT Export
