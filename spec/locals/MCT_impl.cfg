CONSTANTS
  Ctxs = {1, 2, 3}
  Names = {"x", "y"}
  Boxes = {2, 3}
  Vals = {0, 1}
  MaxStack = 2
  MaxOps = 7
  OpKinds = {"set", "get", "del", "iter", "release", "push", "pop", "top", "release_stack", "cleanup", "mkproxy", "proxy_read", "proxy_mutate", "proxy_pop", "proxy_clear", "spawn"}
  Made0 <- NoneMade
  Bug = "none"
INIT Init
NEXT Next
INVARIANT ViewEqualsIdeal
INVARIANT ProxiesAgree
INVARIANT ContentsAgree
INVARIANT ReturnsAgree
