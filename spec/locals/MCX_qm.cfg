CONSTANTS
  Ctxs = {1, 2}
  Names = {"x"}
  Boxes = {2}
  Vals = {0, 1}
  MaxStack = 1
  MaxOps <- NoLimit
  OpKinds = {"set", "push", "pop", "proxy_mutate", "spawn"}
  Made0 <- AllMade
INIT Init
NEXT Next
VIEW ViewState
ACTION_CONSTRAINT Export
