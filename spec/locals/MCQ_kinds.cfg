CONSTANTS
  Ctxs = {1, 2}
  Names = {"x"}
  Boxes = {1}
  Vals = {0, 1}
  MaxStack = 1
  MaxOps = 5
  OpKinds = {"set", "del", "push", "pop", "cv_set", "mkproxy", "proxy_read", "release", "spawn"}
  Made0 <- NoneMade
  Bug = "none"
  MwForms <- MwMake
  MCKinds <- EveryKindI
INIT Init
NEXT Next
INVARIANT ViewEqualsIdeal
INVARIANT ProxiesAgree
INVARIANT ContentsAgree
INVARIANT ReturnsAgree
INVARIANT ReleaseReleases
