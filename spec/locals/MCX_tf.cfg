CONSTANTS
  Ctxs = {1, 2, 3}
  Names = {"x"}
  Boxes = {3}
  Vals = {0, 1}
  MaxStack = 1
  MaxOps <- NoLimit
  OpKinds = {"set", "del", "push", "pop", "proxy_mutate", "proxy_pop", "proxy_clear", "spawn"}
  Made0 <- AllMade
INIT Init
NEXT Next
VIEW ViewState
ACTION_CONSTRAINT Export
