CONSTANTS
  Ctxs = {1, 2, 3}
  Names = {"x"}
  Boxes = {1}
  Vals = {0, 1}
  MaxStack = 1
  MaxOps <- NoLimit
  OpKinds = {"set", "push", "cleanup", "mgr_append", "mw_enter", "mw_close", "spawn"}
  Made0 <- AllMade
  MwForms <- MwMake
  MwPush <- MwNoPush
INIT Init
NEXT Next
VIEW ViewState
ACTION_CONSTRAINT Export
