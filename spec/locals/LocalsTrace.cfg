CONSTANTS
  Ctxs = {1, 2, 3, 4}
  Names = {"x", "y", "z"}
  Boxes = {1, 2, 3, 4, 5, 6, 7, 8, 9, 10, 11, 12, 13, 14, 15, 16, 17, 18, 19, 20, 21, 22, 23}
INIT Init
NEXT Next
POSTCONDITION Done
CHECK_DEADLOCK FALSE
