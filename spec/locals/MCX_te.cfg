CONSTANTS
  Ctxs = {1, 2, 3}
  Names = {"x"}
  Boxes = {17, 18}
  Vals = {0, 1}
  MaxStack = 1
  MaxOps <- NoLimit
  OpKinds = {"set", "del", "proxy_mutate", "mw", "spawn"}
  Made0 <- AllMade
  MwForms <- MwMake
  MwVariants <- MwClosed
  MwPush <- MwNoPush
INIT Init
NEXT Next
VIEW ViewState
ACTION_CONSTRAINT Export
