CONSTANTS
  Ctxs = {1, 2}
  Names = {"x"}
  Boxes = {1, 4, 5}
  Vals = {0, 1}
  MaxStack = 1
  MaxOps = 5
  OpKinds = {"cvd_set", "cvd_reset", "cv_set", "mkproxy", "proxy_read", "proxy_mutate", "spawn"}
  Made0 <- NoneMade
  Bug = "cvd_default_unbound"
  MCKinds <- CvKindsI
INIT Init
NEXT Next
INVARIANT Isolation
INVARIANT ProxiesAgree
INVARIANT ReturnsAgree
