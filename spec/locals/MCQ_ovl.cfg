CONSTANTS
  Ctxs = {1, 2}
  Names = {"x"}
  Boxes = {1}
  Vals = {0, 1}
  MaxStack = 1
  MaxOps = 6
  OpKinds = {"set", "push", "cleanup", "mgr_append", "mw", "mw_enter", "mw_close", "mw_abandon", "spawn"}
  Made0 <- NoneMade
  Bug = "none"
  MwForms <- MwMake
  MCKinds <- EveryKindI
INIT Init
NEXT Next
INVARIANT ViewEqualsIdeal
INVARIANT ProxiesAgree
INVARIANT ContentsAgree
INVARIANT ReturnsAgree
INVARIANT ReleaseReleases
