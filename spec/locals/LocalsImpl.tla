----------------------------- MODULE LocalsImpl -----------------------------
(* C18 -- implementation-shaped model of werkzeug.local, checked against the contract.       *)
(*                                                                                           *)
(* Written like the code: a Local is a ContextVar whose value is a *reference* to a dict, a   *)
(* LocalStack a ContextVar whose value is a reference to a list; contextvars.copy_context()   *)
(* / Thread start with a copied context / asyncio.create_task copy the *references* (the      *)
(* child shares the payload objects with its parent); every mutator must therefore allocate   *)
(* a fresh payload (copy-on-write) and re-point the ContextVar of the acting context only.    *)
(* A LocalProxy stores how to look the object up, not the object.                             *)
(*                                                                                           *)
(* The constant Bug switches one operation to the plausible wrong implementation (in-place    *)
(* update of the shared payload; proxy resolved when it is created).  Bug = "none" must       *)
(* satisfy the contract for every interleaving; every other value must violate it (this is    *)
(* the non-vacuity demonstration run by the check).                                           *)
EXTENDS Locals, TLC

CONSTANTS Vals, MaxStack, MaxOps, OpKinds, Made0,
          Bug      \* "none" | "setattr" | "delattr" | "release" | "push" | "pop" |
                   \* "release_stack" | "proxy_early" | "spawn_fresh" | "release_all" | "falsy_unbound" |
                   \* "iop_rebind" | "mgr_iter" | "cleanup_first" | "mw_forget" | "mw_counter" |
                   \* "cv_lookup" | "set_skip_equal" | "cvd_default_unbound" | "gc_cleanup"

VARIABLES st,     \* contract state (Locals.tla)
          im,     \* implementation state
          bad,    \* a return value differed from the contract's
          relbad, \* a release path left something it releases visible in the releasing context
          n
vars == <<st, im, bad, relbad, n>>

\* ---- heap ----------------------------------------------------------------------------------
NCtx   == Cardinality(Ctxs)
Refs   == 1..(NCtx + 1)        \* per payload kind: one per context plus the one being allocated
NoRef  == 0                    \* ContextVar has no value in that context: .get(default) is used
EmptyD == [nm \in Names |-> NoBox]

\* im: [hd : Refs -> dict, hl : Refs -> list, cvd : Ctxs -> Refs \cup {0}, cvl : likewise,
\*      cont : Boxes -> Vals, pmade : set of proxy kinds, pearly : PKinds -> box captured at creation]
InitImpl == [hd |-> [r \in Refs |-> EmptyD], hl |-> [r \in Refs |-> <<>>],
             cvd |-> [c \in Ctxs |-> NoRef], cvl |-> [c \in Ctxs |-> NoRef],
             cont |-> [b \in Boxes |-> Init0(b)], pmade |-> Made0, pearly |-> [k \in AllKinds |-> NoBox],
             pproxy |-> [k \in AllKinds |-> TRUE],
             cvar |-> [c \in Ctxs |-> NoBox],   \* the plain ContextVar behind LocalProxy(contextvar)
             dvar |-> [c \in Ctxs |-> [k \in CvdKinds |-> NoBox]],    \* the ContextVars declared with a default
             dtok |-> [c \in Ctxs |-> [k \in CvdKinds |-> <<>>]],
             infl |-> {},                 \* contexts holding an unclosed ClosingIterator of the middleware
             nfl |-> 0,                   \* (Bug "mw_counter": a global count of requests in flight)
             mgr |-> {"ns", "stack"},     \* LocalManager.locals of the manager in use
             mbroken |-> FALSE]           \* .locals holds something that is not a local      \* the Python name k still holds the LocalProxy

DictOf(I, c) == IF I.cvd[c] = NoRef THEN EmptyD ELSE I.hd[I.cvd[c]]
ListOf(I, c) == IF I.cvl[c] = NoRef THEN <<>> ELSE I.hl[I.cvl[c]]

UsedD(I, alive) == {I.cvd[c] : c \in alive} \ {NoRef}
UsedL(I, alive) == {I.cvl[c] : c \in alive} \ {NoRef}
FreshD(I, alive) == CHOOSE r \in Refs \ UsedD(I, alive) : \A q \in Refs \ UsedD(I, alive) : r <= q
FreshL(I, alive) == CHOOSE r \in Refs \ UsedL(I, alive) : \A q \in Refs \ UsedL(I, alive) : r <= q

\* garbage collection + canonical numbering: unreachable payloads are reset and the reachable
\* ones renumbered in the order of the least context that points to them (reference identifiers
\* are opaque, so this is a symmetry reduction of the model, it keeps the state space small)
\* (contexts are numbered 1..NCtx)
RECURSIVE Order(_, _, _, _)
Order(cv, alive, c, acc) ==
  IF c > NCtx THEN acc
  ELSE IF c \in alive /\ cv[c] # NoRef /\ ~(\E i \in 1..Len(acc) : acc[i] = cv[c])
       THEN Order(cv, alive, c + 1, Append(acc, cv[c]))
       ELSE Order(cv, alive, c + 1, acc)
Idx(seq, r) == CHOOSE i \in 1..Len(seq) : seq[i] = r
Renumber(heap, cv, alive, empty) ==
  LET ord == Order(cv, alive, 1, <<>>) IN
  [hp |-> [r \in Refs |-> IF r <= Len(ord) THEN heap[ord[r]] ELSE empty],
   cv |-> [c \in Ctxs |-> IF c \in alive /\ cv[c] # NoRef THEN Idx(ord, cv[c]) ELSE NoRef]]
GC(I, alive) ==
  LET d == Renumber(I.hd, I.cvd, alive, EmptyD)
      l == Renumber(I.hl, I.cvl, alive, <<>>)
  IN [I EXCEPT !.hd = d.hp, !.cvd = d.cv, !.hl = l.hp, !.cvl = l.cv]

\* storage.set(new dict object) in context c   /   mutate the dict object c's ContextVar points to
SetDictFresh(I, alive, c, d) == LET r == FreshD(I, alive) IN [I EXCEPT !.hd[r] = d, !.cvd[c] = r]
SetDictInPlace(I, alive, c, d) == IF I.cvd[c] = NoRef THEN SetDictFresh(I, alive, c, d)
                                  ELSE [I EXCEPT !.hd[I.cvd[c]] = d]
SetListFresh(I, alive, c, l) == LET r == FreshL(I, alive) IN [I EXCEPT !.hl[r] = l, !.cvl[c] = r]
SetListInPlace(I, alive, c, l) == IF I.cvl[c] = NoRef THEN SetListFresh(I, alive, c, l)
                                  ELSE [I EXCEPT !.hl[I.cvl[c]] = l]

SetDict(I, alive, c, d, op) == IF Bug = op THEN SetDictInPlace(I, alive, c, d) ELSE SetDictFresh(I, alive, c, d)
SetList(I, alive, c, l, op) == IF Bug = op THEN SetListInPlace(I, alive, c, l) ELSE SetListFresh(I, alive, c, l)

\* LocalProxy._get_current_object() evaluated in context c
Lookup(I, c, k) == IF k = TOP THEN TopOf(ListOf(I, c))
                   ELSE IF k = CVK THEN I.cvar[c]
                   \* var.get(): the value set in this context, else the declared default.  Bug
                   \* "cvd_default_unbound": the proxy only accepts a value that was set()
                   ELSE IF k \in CvdKinds THEN (IF I.dvar[c][k] # NoBox THEN I.dvar[c][k]
                                                ELSE IF Bug = "cvd_default_unbound" THEN NoBox ELSE CvdDefault(k))
                   ELSE IF k = FNK THEN (IF "x" \in Names THEN DictOf(I, c)["x"] ELSE NoBox)
                   ELSE DictOf(I, c)[k]
Resolve(I, c, k) == IF Bug = "proxy_early" THEN I.pearly[k]
                    \* "if not obj:" instead of "if obj is None:" -- a falsy top counts as unbound
                    ELSE IF Bug = "falsy_unbound" /\ k = TOP /\ Lookup(I, c, k) # NoBox
                            /\ ~TruthyC(I.cont, Lookup(I, c, k)) THEN NoBox
                    ELSE Lookup(I, c, k)

\* LocalManager.cleanup() in context c: release_local() for each managed local
ICleanup(I, alive, c) ==
  IF I.mbroken THEN I
  ELSE LET m  == IF Bug = "cleanup_first" /\ I.mgr = {"ns", "stack"} THEN {"ns"} ELSE I.mgr
           I1 == IF "ns" \in m THEN SetDict(I, alive, c, EmptyD, "release") ELSE I
       IN IF "stack" \in m THEN SetList(I1, alive, c, <<>>, "release_stack") ELSE I1
\* what the WSGI app of an "mw" request does before it returns its body
IAppEffect(I, alive, o) ==
  IF o.n # "" THEN SetDict(I, alive, o.ctx, [DictOf(I, o.ctx) EXCEPT ![o.n] = o.b], "setattr")
  ELSE IF o.b # NoBox THEN SetList(I, alive, o.ctx, Append(ListOf(I, o.ctx), o.b), "push") ELSE I

\* LocalProxy(contextvar) turns the ContextVar's LookupError into RuntimeError (Bug "cv_lookup": it does not)
UnboundExc(k) == ExcR(IF Bug = "cv_lookup" /\ k = CVK THEN "LookupError" ELSE "RuntimeError")

IRet(I, o) ==
  LET c == o.ctx d == DictOf(I, c) l == ListOf(I, c) IN
  CASE o.op = "pop_all" -> IntR(Len(l))
    [] o.op = "cleanup" -> IF I.mbroken THEN ExcR("AttributeError") ELSE OkR
    [] o.op = "mw_enter" -> IF o.v = 3 THEN ExcR("AppError") ELSE OkR
    [] o.op = "mw_close" -> IF I.mbroken /\ ~(Bug = "mw_counter" /\ I.nfl > 1) THEN ExcR("AttributeError") ELSE OkR
    [] o.op = "mw" -> IF o.v = 3 THEN ExcR("AppError")
                      ELSE IF I.mbroken /\ Bug # "mw_forget" THEN ExcR("AttributeError") ELSE OkR
    [] o.op = "get"  -> IF d[o.n] # NoBox THEN BoxR(d[o.n]) ELSE ExcR("AttributeError")
    [] o.op = "del"  -> IF d[o.n] # NoBox THEN OkR ELSE ExcR("AttributeError")
    [] o.op = "iter" -> IntR(Cardinality({nm \in Names : d[nm] # NoBox}))
    [] o.op \in {"pop", "top"} -> IF Len(l) = 0 THEN NoneR ELSE BoxR(l[Len(l)])
    [] o.op = "proxy_read"   -> IF Resolve(I, c, o.k) # NoBox THEN BoxR(Resolve(I, c, o.k)) ELSE UnboundExc(o.k)
    [] o.op \in ObjOps -> IF Resolve(I, c, o.k) # NoBox THEN ObjRet(I.cont, Resolve(I, c, o.k), o)
                           ELSE UnboundExc(o.k)
    [] OTHER -> OkR

INext(I, alive, o) ==
  LET c == o.ctx d == DictOf(I, c) l == ListOf(I, c) IN
  \* Bug "set_skip_equal": `if name in values and values[name] == value: return` -- binding an object
  \* that is equal to, but not the same as, the current (e.g. inherited) one is dropped
  CASE o.op = "set"  -> IF Bug = "set_skip_equal" /\ d[o.n] # NoBox /\ ValEq(I.cont, d[o.n], o.b) THEN I
                        ELSE SetDict(I, alive, c, [d EXCEPT ![o.n] = o.b], "setattr")
    [] o.op = "del"  -> IF d[o.n] = NoBox THEN I ELSE SetDict(I, alive, c, [d EXCEPT ![o.n] = NoBox], "delattr")
    [] o.op \in {"release", "release_dunder"} ->
         IF Bug = "release_all" THEN [I EXCEPT !.cvd = [x \in Ctxs |-> NoRef]]
         ELSE SetDict(I, alive, c, EmptyD, "release")
    [] o.op = "push" -> SetList(I, alive, c, Append(l, o.b), "push")
    [] o.op = "pop"  -> IF Len(l) = 0 THEN I ELSE SetList(I, alive, c, SubSeq(l, 1, Len(l) - 1), "pop")
    [] o.op \in {"release_stack", "release_stack_dunder"} -> SetList(I, alive, c, <<>>, "release_stack")
    [] o.op = "pop_all" -> IF Len(l) = 0 THEN I ELSE SetList(I, alive, c, <<>>, "pop")
    [] o.op = "cleanup" -> ICleanup(I, alive, c)
    \* ClosingIterator(app(environ, start_response), self.cleanup): the app runs first; if it raises
    \* nothing is wrapped; otherwise close() -- however much of the body was consumed -- runs cleanup
    [] o.op = "mw" -> IF o.v = 3 \/ Bug = "mw_forget" \/ (Bug = "mw_counter" /\ I.nfl > 0)
                      THEN IAppEffect(I, alive, o)
                      ELSE ICleanup(IAppEffect(I, alive, o), alive, c)
    \* the two halves of a request.  Bug "mw_counter": the middleware keeps a count of requests in
    \* flight (state shared by all contexts) and cleans up only when the last one is closed
    [] o.op = "mw_enter" -> IF o.v = 3 THEN IAppEffect(I, alive, o)
                            ELSE [IAppEffect(I, alive, o) EXCEPT !.infl = @ \cup {c}, !.nfl = @ + 1]
    [] o.op = "mw_close" ->
         LET I1 == [I EXCEPT !.infl = @ \ {c}, !.nfl = @ - 1] IN
         IF Bug = "mw_forget" \/ (Bug = "mw_counter" /\ I1.nfl > 0) THEN I1 ELSE ICleanup(I1, alive, c)
    \* ClosingIterator has no finaliser: dropping it does nothing.  Bug "gc_cleanup": a __del__ that
    \* runs the callbacks -- in whichever context the garbage collector happens to run
    [] o.op = "mw_abandon" ->
         LET I1 == [I EXCEPT !.infl = @ \ {o.child}, !.nfl = @ - 1] IN
         IF Bug = "gc_cleanup" THEN ICleanup(I1, alive, c) ELSE I1
    [] o.op = "cv_set" -> [I EXCEPT !.cvar[c] = o.b]
    [] o.op = "cvd_set" -> [I EXCEPT !.dvar[c][o.k] = o.b, !.dtok[c][o.k] = Append(@, I.dvar[c][o.k])]
    [] o.op = "cvd_reset" -> LET t == I.dtok[c][o.k] IN
                             [I EXCEPT !.dvar[c][o.k] = t[Len(t)], !.dtok[c][o.k] = SubSeq(t, 1, Len(t) - 1)]
    \* LocalManager(x): None -> [], a Local -> [x], anything else -> list(x).  Bug "mgr_iter" drops
    \* the isinstance test: list(a Local) are the (name, value) items of the constructing context
    [] o.op = "mkmgr" ->
         IF Bug = "mgr_iter" /\ o.k = "local"
         THEN [I EXCEPT !.mgr = {}, !.mbroken = (d # EmptyD)]
         ELSE [I EXCEPT !.mgr = MgrOf(o.k), !.mbroken = FALSE]
    [] o.op = "mgr_append" -> [I EXCEPT !.mgr = @ \cup MgrOf(o.k)]
    [] o.op = "mkproxy" -> [I EXCEPT !.pmade = @ \cup {o.k},
                                     !.pearly[o.k] = Lookup(I, c, o.k)]
    [] o.op \in ObjOps ->
         LET b == Resolve(I, c, o.k) IN
         IF b = NoBox THEN I
         \* "return the operator's result unless it is the object itself": for an immutable object
         \* `name += x` then rebinds the caller's name to a plain, context-free value
         ELSE IF Bug = "iop_rebind" /\ o.op \in IopOps /\ Immutable(b) /\ ObjRet(I.cont, b, o) = OkR
              THEN [I EXCEPT !.pproxy[o.k] = FALSE]
         ELSE [I EXCEPT !.cont = ObjNext(I.cont, b, o)]
    [] o.op = "spawn" -> IF Bug = "spawn_fresh" THEN I     \* child starts empty instead of with the snapshot
                         ELSE [I EXCEPT !.cvd[o.child] = I.cvd[c], !.cvl[o.child] = I.cvl[c],
                                        !.cvar[o.child] = I.cvar[c], !.dvar[o.child] = I.dvar[c]]
    [] OTHER -> I

\* ---- product with the contract ---------------------------------------------------------------
O(c, op, nm, b, v, k, ch) == [ctx |-> c, op |-> op, n |-> nm, b |-> b, v |-> v, k |-> k, child |-> ch]
AllOps ==
       {O(c, "set", nm, b, 0, "", 0) : c \in Ctxs, nm \in Names, b \in Boxes}
  \cup {O(c, op, nm, 0, 0, "", 0) : c \in Ctxs, op \in {"get", "del"}, nm \in Names}
  \cup {O(c, op, "", 0, 0, "", 0) : c \in Ctxs, op \in {"iter", "release", "pop", "top", "release_stack", "cleanup",
                                                            "release_dunder", "release_stack_dunder", "pop_all"}}
  \* (LocalManager(bare LocalStack) is left out: the type annotation allows it, the code raises
  \*  TypeError; the contract leaves its outcome open, so the refinement says nothing about it)
  \cup {O(c, "cv_set", "", b, 0, "", 0) : c \in Ctxs, b \in Boxes}
  \cup {O(c, "cvd_set", "", b, 0, k, 0) : c \in Ctxs, b \in Boxes, k \in CvdKinds}
  \cup {O(c, "cvd_reset", "", 0, 0, k, 0) : c \in Ctxs, k \in CvdKinds}
  \cup {O(c, "mw_enter", nm, b, v, k, 0) : c \in Ctxs, nm \in Names, b \in Boxes, v \in {0, 3}, k \in MwForms}
  \cup {O(c, "mw_enter", "", b, v, k, 0) : c \in Ctxs, b \in MwPush, v \in {0, 3}, k \in MwForms}
  \cup {O(c, "mw_close", "", 0, v, "", 0) : c \in Ctxs, v \in 0..2}
  \cup {O(c, "mw_abandon", "", 0, 0, "", ch) : c \in Ctxs, ch \in Ctxs}
  \cup {O(c, "mkmgr", "", 0, 0, k, 0) : c \in Ctxs, k \in MgrForms \ {"stack"}}
  \cup {O(c, "mgr_append", "", 0, 0, k, 0) : c \in Ctxs, k \in {"local", "stack"}}
  \cup {O(c, "mw", nm, b, v, k, 0) : c \in Ctxs, nm \in Names, b \in Boxes, v \in MwVariants, k \in MwForms}
  \cup {O(c, "mw", "", b, v, k, 0) : c \in Ctxs, b \in MwPush, v \in MwVariants, k \in MwForms}
  \cup {O(c, "push", "", b, 0, "", 0) : c \in Ctxs, b \in Boxes}
  \cup {O(c, op, "", 0, 0, k, 0) : c \in Ctxs, op \in {"mkproxy", "proxy_read"}, k \in MCKinds}
  \cup {O(c, "proxy_mutate", "", 0, v, k, 0) : c \in Ctxs, v \in Vals, k \in MCKinds}
  \cup {O(c, op, "", 0, 0, k, 0) : c \in Ctxs, op \in {"proxy_pop", "proxy_clear"}, k \in MCKinds}
  \cup {O(c, op, "", 0, v, k, 0) : c \in Ctxs, op \in {"proxy_iadd", "proxy_isub", "proxy_ior"}, v \in IopArgs, k \in MCKinds}
  \cup {O(c, "proxy_imul", "", 0, 2, k, 0) : c \in Ctxs, k \in MCKinds}
  \cup {O(c, "spawn", "", 0, 0, "", ch) : c \in Ctxs, ch \in Ctxs}

Allowed(S, o) == /\ o.op \in OpKinds
                 /\ Enabled(S, o)
                 /\ (o.op = "push" => Len(S.stack[o.ctx]) < MaxStack)
                 /\ (o.op \in {"mw", "mw_enter"} /\ o.n = "" /\ o.b # NoBox => Len(S.stack[o.ctx]) < MaxStack)
                 \* lists grown through a proxy stay small
                 /\ (o.op \in {"proxy_iadd", "proxy_imul"} =>
                        LET b == Bound(S, o.ctx, o.k) IN
                        IF b = NoBox THEN TRUE ELSE IF KindOf(b) # "list" THEN TRUE ELSE S.cont[b] <= 2)
                 /\ (o.op = "spawn" => \A d \in Ctxs : (d < o.child) => d \in S.alive)

Init == st = InitState(Made0) /\ im = InitImpl /\ bad = FALSE /\ relbad = FALSE /\ n = 0

Next == /\ (MaxOps < 0 \/ n < MaxOps)
        /\ \E o \in AllOps :
             /\ Allowed(st, o)
             /\ st' = NextOf(st, o)
             /\ im' = GC(INext(im, st.alive, o), st'.alive)
             /\ bad' = (bad \/ IRet(im, o) # RetOf(st, o))
             /\ relbad' = (relbad \/ (o.op \in ReleaseOps /\
                             ~(/\ ("ns" \in Released(st, o) => DictOf(im', o.ctx) = EmptyD)
                               /\ ("stack" \in Released(st, o) => ListOf(im', o.ctx) = <<>>))))
        /\ n' = IF MaxOps < 0 THEN n ELSE n + 1    \* unbounded configs: n stays 0 (finite state space)

Spec == Init /\ [][Next]_vars

\* ---- refinement: what every context sees in the implementation is the contract's view ------
ViewEqualsIdeal == \A c \in st.alive : DictOf(im, c) = st.attrs[c] /\ ListOf(im, c) = st.stack[c]
ProxiesAgree    == /\ im.pmade = st.made
                   /\ \A k \in st.made : im.pproxy[k]
                   /\ \A c \in st.alive : \A k \in st.made : Resolve(im, c, k) = Bound(st, c, k)
ContentsAgree   == im.cont = st.cont
\* isolation of bindings by identity: what a context reads is the very object it (or, before it
\* existed, its parent) bound -- never another context's equal one
Isolation       == ViewEqualsIdeal /\ ContentsAgree
ReturnsAgree    == ~bad
\* "releasing ... does affect the releasing context": after a release path (cleanup, closing the
\* middleware's iterable, release_local, __release_local__, pop to empty) nothing of what it releases
\* is left in the releasing context -- whatever other contexts have in flight
ReleaseReleases == ~relbad
\* "releasing a local affects only the releasing context": whatever the implementation released in a
\* context the contract does not release in (a sibling's cleanup, an abandoned response collected
\* there) shows as a difference between that context's view and the contract's
ReleaseIsLocalInv == ViewEqualsIdeal   \* (the law ReleaseIsLocal of Locals.tla as a state invariant of the product)
\* sanity of the heap model itself: copy-on-write means a payload object is never shared by two
\* contexts after one of them wrote -- sharing exists only through spawn (checked as reachability
\* by the coverage note below, not as a property)

NoLimit == 0 - 1
NoneMade == {}
EveryKindI == AllKinds
CvKindsI == CvdKinds \cup {CVK}
=============================================================================
