CONSTANTS
  Ctxs = {1, 2}
  Names = {"x"}
  Boxes = {1}
  Vals = {0, 1}
  MaxStack = 1
  MaxOps = 5
  OpKinds = {"set", "push", "pop", "release", "release_stack", "release_dunder", "release_stack_dunder", "pop_all", "cleanup", "mw", "mkmgr", "mgr_append", "spawn"}
  Made0 <- NoneMade
  Bug = "mw_forget"
  MwForms <- MwMake
INIT Init
NEXT Next
INVARIANT ViewEqualsIdeal
INVARIANT ProxiesAgree
INVARIANT ContentsAgree
INVARIANT ReturnsAgree
INVARIANT ReleaseReleases
