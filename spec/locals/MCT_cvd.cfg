CONSTANTS
  Ctxs = {1, 2, 3}
  Names = {"x"}
  Boxes = {1, 4, 5}
  Vals = {0, 1}
  MaxStack = 1
  MaxOps = 6
  OpKinds = {"cvd_set", "cvd_reset", "cv_set", "mkproxy", "proxy_read", "proxy_mutate", "spawn"}
  Made0 <- NoneMade
  Bug = "none"
  MCKinds <- CvKindsI
INIT Init
NEXT Next
INVARIANT Isolation
INVARIANT ProxiesAgree
INVARIANT ReturnsAgree
