CONSTANTS
  Variant = "fixed"
  Size = "x"
INIT Init
NEXT Next
CHECK_DEADLOCK FALSE
INVARIANT WellFormed
INVARIANT Export
