CONSTANTS
  Variant = "fixed"
  Size = "t"
INIT Init
NEXT Next
CHECK_DEADLOCK FALSE
INVARIANT WellFormed
