CONSTANTS
  Variant = "cl_before_encode"
  Size = "q"
INIT Init
NEXT Next
CHECK_DEADLOCK FALSE
INVARIANT WellFormed
