------------------------------ MODULE MCFinal ------------------------------
(* The finalisation decision table: every combination of body shape x items x status        *)
(* (int / HTTPStatus / "code reason") x method x preset Content-Length x Location kind x     *)
(* autocorrect x pre-finalisation access x number of close callbacks x server plan.          *)
(* TLC checks that the documented rules (Response!Finalize) satisfy every clause of the      *)
(* property (Response!FinClause); the export config prints the inputs for the replay on the  *)
(* real Response.                                                                            *)
EXTENDS Response, TLC, Json

CONSTANT Size        \* "q" quick, "x" export (pairwise-ish), "t" thorough
VARIABLE inp

S(v) == [k |-> "s", v |-> v]
B(v) == [k |-> "b", v |-> v]
Sa == S(<<97>>)            \* "a"
Se == S(<<233>>)           \* "é": one code point, two bytes
Sw == S(<<97, 8364, 128512>>)   \* "a€😀": 3 code points, 8 bytes
S0 == S(<<>>)
Bx == B(<<195>>)           \* a lone byte (not valid UTF-8 on its own)
B2 == B(<<120, 0>>)
B0 == B(<<>>)

Mixed == {Sa, Se, S0, Bx}
ByteItems == {Bx, B0}
Bd(shape, items, pt) == [shape |-> shape, items |-> items, pt |-> pt]
ItemSeqs == IF Size = "t" THEN SeqsUpTo(Mixed, 2)
            ELSE {<<>>, <<Se>>, <<S0, Bx>>, <<Se, Sa>>, <<Bx, S0>>}
Bodies ==
  {Bd("str", <<s>>, FALSE) : s \in {Sa, Se, Sw, S0}}
  \cup {Bd("bytes", <<b>>, FALSE) : b \in {Bx, B2, B0}}
  \cup {Bd(sh, its, FALSE) : sh \in {"list", "tuple", "gen", "iter"}, its \in ItemSeqs}
  \cup {Bd(sh, its, TRUE) : sh \in {"gen", "iter"}, its \in SeqsUpTo(ByteItems, 2)}
  \cup {Bd("file", <<b>>, TRUE) : b \in {B2, B0}}

Codes == IF Size = "t" THEN {100, 101, 200, 201, 204, 206, 301, 302, 304, 400, 404, 500, 503}
         ELSE {100, 200, 204, 302, 304, 404}
St(kind, c) == [kind |-> kind, code |-> IF kind = "str" THEN 0 ELSE c,
                text |-> IF kind = "str" THEN DecOf(c) \o <<32>> \o Reason(c) ELSE <<>>]
Statuses == {St(k, c) : k \in {"int", "enum", "str"}, c \in Codes}
Methods == {"GET", "HEAD", "POST"}
None == [has |-> FALSE, val |-> <<>>]
Some(v) == [has |-> TRUE, val |-> v]
CLs == {None, Some(<<55>>)}
LocVals == {<<47, 112>>,                                   \* /p
            <<47, 233, 63, 113, 61, 8364>>,                \* /é?q=€
            <<114, 47, 120, 35, 233>>,                     \* r/x#é
            HTTPP \o <<104, 46, 120, 47, 233>>}            \* http://h.x/é
Locs == {<<None, FALSE>>} \cup {<<Some(v), ac>> : v \in LocVals, ac \in BOOLEAN}
Pres == {"none", "get_data", "make_sequence"}
NCBs == {0, 2}
Plans == {0, 1, 99}
Extra == {<<>>, <<H(<<88>>, <<97>>), H(<<88>>, <<98>>)>>}

Mk(b, st, m, cl, lc, pre, ncb, plan, ex) ==
  [shape |-> b.shape, items |-> b.items, pt |-> b.pt, st |-> st, method |-> m, cl |-> cl,
   stage |-> 1, loc |-> lc[1], ac |-> lc[2], pre |-> pre, ncb |-> ncb, plan |-> plan, ex |-> ex, envstd |-> TRUE,
   hdrs |-> Construct(b.shape, Concat([k \in 1..Len(b.items) |-> EncItem(b.items[k])]), cl, lc[1], ex)]

\* Every body x method x status is combined with the secondary dimensions (preset length, location,
\* pre-access, callbacks, plan, extra headers) varied around the default: one at a time ("q", "x")
\* or two at a time ("t", which also has more items and statuses); Location kinds only with
\* 201 / 3xx statuses; "x" keeps the non-int status kinds only for the default secondary dimensions.
NonDefault(cl, lc, pre, ncb, plan, ex) ==
  Cardinality({k \in 1..6 : ~(<<cl = None, lc[1] = None, pre = "none", ncb = 2, plan = 99, ex = <<>> >>)[k]})
\* constant sets (evaluated once): secondary dimensions and statuses, already sliced
Secondary == {s \in CLs \X Locs \X Pres \X NCBs \X Plans \X Extra :
                NonDefault(s[1], s[2], s[3], s[4], s[5], s[6]) <= (IF Size = "t" THEN 2 ELSE 1)}
IsDefault(s) == NonDefault(s[1], s[2], s[3], s[4], s[5], s[6]) = 0
SecDefault == {s \in Secondary : IsDefault(s)}
SecLoc == {s \in Secondary : s[2][1] # None}
LocStatuses == {st \in Statuses : Code(st) \in {201, 301, 302}}
IntStatuses == {st \in Statuses : st.kind = "int"}
Pairs == {<<st, s>> \in Statuses \X Secondary :
            /\ (s \in SecLoc => st \in LocStatuses)
            /\ (Size # "x" \/ st \in IntStatuses \/ s \in SecDefault)}

\* two stages so that TLC's workers share the product: stage 0 = (body, method), stage 1 = input
Init == \E b \in Bodies, m \in Methods : inp = [stage |-> 0, b |-> b, m |-> m]
Next == /\ inp.stage = 0
        /\ \E p \in Pairs :
             /\ (inp.b.pt => p[2][3] = "none")
             /\ inp' = Mk(inp.b, p[1], inp.m, p[2][1], p[2][2], p[2][3], p[2][4], p[2][5], p[2][6])

\* every clause of the property holds on the documented rules; and the documented Content-Length
\* rule is not vacuous: a fixed-length body without a preset length gets exactly one on every
\* status that may carry a body
WellFormed == inp.stage = 1 =>
  LET out == Finalize(inp) IN
  /\ FinClause(inp, out, TRUE) = "ok"
  /\ ((IsSeqShape(inp.shape) /\ ~inp.cl.has /\ ~Bodyless(Code(inp.st))) => Len(ValuesNamed(out.headers, CLN)) = 1)
Export == inp.stage = 1 => PrintT(ToJson(inp))
=============================================================================
