CONSTANTS
  Variant = "fixed"
  MaxDepth = 4
  NCB = 0
INIT Init
NEXT Next
CHECK_DEADLOCK FALSE
VIEW View
INVARIANT ShapeOK
