-------------------------------- MODULE Shape --------------------------------
(* C05 growth: the body of a Response between construction and WSGI output.                  *)
(* Implementation-shaped state machine of the `response` attribute, the Content-Length        *)
(* header, direct_passthrough, implicit_sequence_conversion and the close registrations       *)
(* under set_data / data / get_data / response assignment / make_sequence / freeze /          *)
(* iter_encoded / calculate_content_length / stream.write, writelines, tell; followed by the  *)
(* finalisation rules of Response.tla.  Contract = the C05 clauses on the observed output     *)
(* (`ShapeClause`).  Variant "fixed" = freeze() closes the iterable it consumed (F100);       *)
(* "orig_freeze" = it is dropped.  The stale Content-Length after a `response` assignment     *)
(* (open finding F101) is modelled as the code behaves and tracked by the `stale` flag.       *)
EXTENDS Response

BI(v) == [k |-> "b", v |-> v]
Enc(items) == [k \in 1..Len(items) |-> BI(EncItem(items[k]))]
Bytes(items) == Concat([k \in 1..Len(items) |-> EncItem(items[k])])
RawLen(items) == SumSeq([k \in 1..Len(items) |-> Len(items[k].v)])
IsSeq(s) == s.kind \in {"list", "tuple"}
Okk(s) == [s |-> s, exc |-> ""]
Err(s, e) == [s |-> s, exc |-> e]
Start(its, id) == IF id = 0 THEN its ELSE [its EXCEPT ![id].started = TRUE]
Closed(its, id) == IF id = 0 THEN its ELSE [its EXCEPT ![id].closes = @ + 1]

\* make_sequence consumes the iterable and closes it at once (it is no longer referenced afterwards)
MakeSeq(s) == IF IsSeq(s) THEN s
              ELSE [s EXCEPT !.kind = "list", !.items = Enc(s.items), !.src = 0,
                             !.its = Closed(Start(s.its, s.src), s.src)]
EnsureSeq(s, mutable) ==
  IF IsSeq(s) THEN Okk(IF mutable /\ s.kind = "tuple" THEN [s EXCEPT !.kind = "list"] ELSE s)
  ELSE IF s.pt \/ ~s.isc THEN Err(s, "RuntimeError")
  ELSE Okk(MakeSeq(s))
Write(r, it) == IF r.exc # "" THEN r
                ELSE LET e == EnsureSeq(r.s, TRUE) IN
                     IF e.exc # "" THEN e
                     ELSE Okk([e.s EXCEPT !.items = Append(@, it), !.cl = 0 - 1, !.stale = FALSE])
NewId(s) == IF ~s.its[1].live THEN 1 ELSE 2

\* op = [o, k, v (an item), items, b]
Apply(s, op) ==
  CASE op.o \in {"set_data", "data_set"} ->
         Okk([s EXCEPT !.kind = "list", !.items = <<BI(EncItem(op.v))>>, !.src = 0,
                       !.cl = Len(EncItem(op.v)), !.stale = FALSE])
    [] op.o \in {"get_data", "data_get"} ->
         LET e == EnsureSeq(s, FALSE) IN
         IF e.exc = "" /\ op.b /\ ~Utf8Valid(Bytes(e.s.items), 1) THEN Err(e.s, "UnicodeDecodeError") ELSE e
    [] op.o = "assign" ->
         IF op.k = "iter"
         THEN Okk([s EXCEPT !.kind = "iter", !.items = op.items, !.src = NewId(s), !.stale = (s.cl >= 0),
                            !.its = [@ EXCEPT ![NewId(s)].live = TRUE]])
         ELSE Okk([s EXCEPT !.kind = op.k, !.items = op.items, !.src = 0, !.stale = (s.cl >= 0)])
    [] op.o = "make_sequence" -> Okk(MakeSeq(s))
    [] op.o = "freeze" ->
         LET its1 == Start(s.its, s.src)
             its2 == IF Variant = "orig_freeze" THEN its1 ELSE Closed(its1, s.src)
         IN Okk([s EXCEPT !.kind = "list", !.items = Enc(s.items), !.src = 0, !.its = its2,
                          !.cl = Len(Bytes(s.items)), !.stale = FALSE])
    [] op.o = "iter_consume" ->
         IF IsSeq(s) THEN Okk(s) ELSE Okk([s EXCEPT !.items = <<>>, !.its = Start(s.its, s.src)])
    [] op.o = "set_isc" -> Okk([s EXCEPT !.isc = op.b])
    [] op.o = "set_pt" -> Okk([s EXCEPT !.pt = op.b])
    [] op.o = "calc_len" -> Okk(EnsureSeq(s, FALSE).s)
    [] op.o = "stream_write" -> Write(Okk(s), op.v)
    [] op.o = "stream_writelines" -> Write(Write(Okk(s), op.items[1]), op.items[2])
    [] op.o = "stream_tell" -> EnsureSeq(s, FALSE)
    [] OTHER -> Okk(s)
\* the operation during which an iterable was first advanced owns it (werkzeug consumed it / the application did)
ApplyO(s, op) ==
  LET r == Apply(s, op) IN
  [r EXCEPT !.s.its = [k \in 1..2 |-> IF r.s.its[k].started /\ ~s.its[k].started
                                       THEN [r.s.its[k] EXCEPT !.owner = op.o] ELSE r.s.its[k]]]
\* an iterable id must be free for an iterator assignment
Enabled(s, op) == op.o # "assign" \/ op.k # "iter" \/ ~s.its[2].live

\* state after Response(body, direct_passthrough=pt): init = [kind: str|bytes|list|tuple|iter, items, pt]
NoIt == [live |-> FALSE, started |-> FALSE, closes |-> 0, owner |-> ""]
InitState(init) ==
  LET one == init.kind \in {"str", "bytes"} IN
  [kind |-> IF one THEN "list" ELSE init.kind,
   items |-> IF one THEN <<BI(EncItem(init.items[1]))>> ELSE init.items,
   src |-> IF init.kind = "iter" THEN 1 ELSE 0,
   cl |-> IF one THEN Len(EncItem(init.items[1])) ELSE 0 - 1,
   pt |-> init.pt, isc |-> TRUE, oncl |-> <<>>,
   its |-> <<[NoIt EXCEPT !.live = (init.kind = "iter")], NoIt>>, stale |-> FALSE]

\* model run over a recorded history: <<final state, first step whose exception differs (0 = none), in-domain>>
RECURSIVE RunHist(_, _, _)
RunHist(s, hist, i) ==
  IF i > Len(hist) THEN [s |-> s, bad |-> 0, ood |-> FALSE]
  ELSE IF ~Enabled(s, hist[i]) THEN [s |-> s, bad |-> 0, ood |-> TRUE]
  ELSE LET r == ApplyO(s, hist[i]) IN
       IF r.exc # hist[i].exc THEN [s |-> r.s, bad |-> i, ood |-> FALSE] ELSE RunHist(r.s, hist, i + 1)

\* finalisation (get_wsgi_response, full iteration, close) of the state: observable result
FinalizeS(s, method, code, ncb) ==
  LET supp == method = "HEAD" \/ Bodyless(code)
      cl0  == IF NoCLStatus(code) \/ code = 304 THEN 0 - 1 ELSE s.cl     \* 304: entity headers stripped
      cl1  == IF IsSeq(s) /\ s.cl < 0 /\ ~Bodyless(code) THEN Len(Bytes(s.items)) ELSE cl0
      raw  == ~supp /\ s.pt /\ ncb = 0 /\ s.oncl = <<>>
      body == IF supp THEN <<>> ELSE Bytes(s.items)
      its1 == Closed(s.its, s.src)
      its2 == IF s.oncl = <<>> THEN its1
              ELSE IF Len(s.oncl) = 1 THEN Closed(its1, s.oncl[1]) ELSE Closed(Closed(its1, s.oncl[1]), s.oncl[2])
  IN [cl |-> cl1, body |-> body, raw |-> raw, cb |-> [k \in 1..ncb |-> 1],
      closes |-> <<its2[1].closes, its2[2].closes>>, wrapped |-> s.src]

\* ---- the contract on what was observed (out as in Response!FinClause; its: per iterable
\* [live, owner (the operation during which it was first advanced, "" if never), wrapped, closes])
Werkzeug == {"make_sequence", "get_data", "data_get", "freeze", "calc_len", "stream_write", "stream_writelines", "stream_tell"}
ShapeClause(method, code, ncb, out, its, native) ==
  LET supp == method = "HEAD" \/ Bodyless(code)
      cls  == ValuesNamed(out.headers, CLN)
  IN IF out.exc # "" THEN "ShapeFinalizeRaised"
     ELSE IF ~native \/ \E k \in 1..Len(out.headers) : HasCRLF(out.headers[k].v) THEN "ShapeHeaderValue"
     ELSE IF supp /\ out.body # <<>> THEN "ShapeNoBody"
     ELSE IF NoCLStatus(code) /\ cls # <<>> THEN "ShapeNoContentLength"
     ELSE IF ~supp /\ \E k \in 1..Len(cls) : cls[k] # DecOf(Len(out.body)) THEN "ShapeContentLength"
     ELSE IF Len(out.cb) # ncb \/ \E k \in 1..Len(out.cb) : out.cb[k] # 1 THEN "ShapeCallbacksOnce"
     ELSE IF \E k \in 1..Len(its) : its[k].live /\ (its[k].wrapped \/ its[k].owner \in Werkzeug) /\ its[k].closes # 1
          THEN "ShapeIterableClosedOnce"
     ELSE IF \E k \in 1..Len(its) : its[k].closes > 1 THEN "ShapeIterableClosedTwice"
     ELSE "ok"
=============================================================================
