CONSTANTS
  Variant = "fixed"
  MaxDepth = 4
  NCB = 1
INIT Init
NEXT Next
CHECK_DEADLOCK FALSE
VIEW View
INVARIANT ShapeOK
