CONSTANTS
  Variant = "orig"
  Size = "q"
INIT Init
NEXT Next
CHECK_DEADLOCK FALSE
INVARIANT WellFormed
