----------------------------- MODULE MCHeaders -----------------------------
(* Every history of Headers mutators over a small universe (names X / x / Y, clean and CR/LF  *)
(* values), list length bounded by MaxLen, unbounded depth.  TLC checks that the sequential   *)
(* model never stores a CR/LF value and raises exactly when the call attempts to store one.   *)
(* The export config prints every transition for the replay on the real Headers object.       *)
EXTENDS Response, TLC, Json

CONSTANTS MaxLen, Size
VARIABLES hdrs, act
vars == <<hdrs, act>>
View == hdrs

X == <<88>>
Xl == <<120>>
Y == <<89>>
Names == {X, Xl, Y}
Clean == IF Size = "q" THEN {<<97>>} ELSE {<<97>>, <<98, 32, 99>>}
Dirty == {<<97, 10, 98>>, <<13>>}
Vals == Clean \cup Dirty

C0 == [m |-> "", n |-> <<>>, i |-> 0, j |-> 0, vs |-> <<>>, ps |-> <<>>, kn |-> <<>>, kv |-> <<>>, form |-> ""]
Mk(m, n, vs) == [C0 EXCEPT !.m = m, !.n = n, !.vs = vs]
P(n, v) == [n |-> n, vs |-> <<v>>]
PV == {<<97>>, <<97, 10, 98>>}
P1 == {P(n, v) : n \in {X, Y}, v \in PV}
PairLists == {<<>>} \cup {<<p>> : p \in {P(n, v) : n \in Names, v \in Vals}} \cup {<<p, q>> : p \in P1, q \in P1}
\* mapping forms: distinct keys
ListVals == SeqsUpTo(PV, 2)
Maps == {<<>>} \cup {<<[n |-> n, vs |-> vs]>> : n \in {X, Xl}, vs \in ListVals}
        \cup {<<[n |-> X, vs |-> a], [n |-> Y, vs |-> b]>> : a \in ListVals, b \in ListVals}
ScalarMaps == {m \in Maps : \A k \in 1..Len(m) : Len(m[k].vs) = 1}

Calls ==
  {Mk(m, n, <<v>>) : m \in {"add", "set", "setitem", "setdefault"}, n \in Names, v \in Vals}
  \cup {[Mk(m, n, <<<<97>>>>) EXCEPT !.kn = <<112>>, !.kv = kv] : m \in {"add_kw", "set_kw"}, n \in {X, Y}, kv \in Vals \cup {<<98, 32, 34>>}}
  \cup {Mk(m, n, vs) : m \in {"setlist", "setlistdefault"}, n \in Names, vs \in SeqsUpTo(Vals, 2)}
  \cup {[Mk("setitem_int", n, <<v>>) EXCEPT !.i = i] : n \in {X, Y}, v \in Vals, i \in 0..(MaxLen - 1)}
  \cup {[C0 EXCEPT !.m = "setitem_slice", !.i = i, !.j = j, !.ps = ps] : i \in 0..MaxLen, j \in 0..MaxLen, ps \in {q \in PairLists : Len(q) # 1 \/ q[1].n # Xl}}
  \cup {[C0 EXCEPT !.m = m, !.ps = ps, !.form = "pairs"] : m \in {"extend", "update", "ctor"}, ps \in PairLists}
  \cup {[C0 EXCEPT !.m = m, !.ps = ps, !.form = "dict"] : m \in {"extend", "update", "ctor"}, ps \in ScalarMaps}
  \cup {[C0 EXCEPT !.m = m, !.ps = ps, !.form = "dictlist"] : m \in {"extend", "update", "ctor"}, ps \in Maps}
  \cup {[C0 EXCEPT !.m = "update", !.ps = ps, !.form = "kwargs"] : ps \in Maps}
  \cup {Mk("remove", n, <<>>) : n \in {X, Y}} \cup {Mk("clear", <<>>, <<>>)}

Init == /\ hdrs \in {<<>>} \cup {<<H(n, v)>> : n \in {X, Y}, v \in Clean}
        /\ act = [c |-> C0, exc |-> ""]

Next == \E c \in Calls :
          /\ CallShapeOK(hdrs, c)
          /\ LET r == ApplyMut(hdrs, c) IN
             /\ Len(r.h) <= MaxLen
             /\ hdrs' = r.h
             /\ act' = [c |-> c, exc |-> r.exc]

NoCRLFStored == StoredClean(hdrs)
RaisedIffDirty == [][act'.exc = (IF AttemptsDirty(hdrs, act'.c) THEN "ValueError" ELSE "")]_vars
\* a refused call leaves only values in the list that were there before or were supplied clean
Export == PrintT(ToJson([pre |-> hdrs, c |-> act'.c, exc |-> act'.exc, post |-> hdrs']))
=============================================================================
