------------------------------- MODULE MCReuse -------------------------------
(* State machine of a response object that is sent repeatedly.  `oncl` is the response's       *)
(* private callback list (_on_close): ids 1..NCB are call_on_close callbacks; cnt[0] counts  *)
(* the runs of the iterable's own close (make_sequence closes a consumed iterable at once).     *)
(* Variant "fixed": the code as it is.  Broken variants (must violate PerSend / NoAccumulation):*)
(*   "dup_callbacks_per_send"  every send re-registers the callbacks                           *)
(*   "register_iterable_close_per_send"  the passthrough path stores the iterable's close in   *)
(*                              _on_close instead of a copy                                    *)
EXTENDS Response, TLC

CONSTANTS NCB, MaxSends, MaxDepth
VARIABLES st, sends, depth, act
vars == <<st, sends, depth, act>>

Kinds == {"list", "reiter", "iter", "file"}       \* list/str; re-iterable closable; one-shot closable iterator; FileWrapper
HasClose(s) == s.kind # "list"
Ids == 0..NCB
RECURSIVE RunAll(_, _)
RunAll(cnt, ids) == IF ids = <<>> THEN cnt ELSE RunAll([cnt EXCEPT ![Head(ids)] = @ + 1], Tail(ids))
\* Response.close(): the iterable's close if it has one, then every entry of _on_close
CloseResp(s) == RunAll(IF HasClose(s) THEN [s.cnt EXCEPT ![0] = @ + 1] ELSE s.cnt, s.oncl)

Init == /\ \E k \in Kinds, pt \in BOOLEAN :
             /\ (pt => k # "list") /\ (k = "file" => pt)
             /\ st = [kind |-> k, hasit |-> k # "list", pt |-> pt, code |-> 200,
                      oncl |-> [i \in 1..NCB |-> i], cnt |-> [i \in Ids |-> 0]]
        /\ sends = 0 /\ depth = 0 /\ act = [ev |-> "init", pre |-> [i \in Ids |-> 0]]

Send(method) ==
  /\ sends < MaxSends
  /\ LET supp == method = "HEAD" \/ Bodyless(st.code)
         raw  == ~supp /\ st.pt /\ st.oncl = <<>>
         cnt1 == IF ~supp /\ st.pt
                 THEN (IF raw THEN (IF HasClose(st) THEN [st.cnt EXCEPT ![0] = @ + 1] ELSE st.cnt)
                       ELSE RunAll(IF HasClose(st) THEN [st.cnt EXCEPT ![0] = @ + 1] ELSE st.cnt, st.oncl))   \* ClosingIterator(response, copy of _on_close)
                 ELSE CloseResp(st)                                                                             \* ClosingIterator(.., self.close)
         oncl1 == IF Variant = "dup_callbacks_per_send" THEN st.oncl \o [i \in 1..NCB |-> i]
                  ELSE IF Variant = "register_iterable_close_per_send" /\ ~supp /\ st.pt /\ ~raw /\ HasClose(st) THEN <<0>> \o st.oncl
                  ELSE st.oncl
     IN st' = [st EXCEPT !.cnt = cnt1, !.oncl = oncl1]
  /\ sends' = sends + 1
  /\ act' = [ev |-> "send", pre |-> st.cnt]
With == /\ st' = [st EXCEPT !.cnt = CloseResp(st)] /\ UNCHANGED sends /\ act' = [ev |-> "with", pre |-> st.cnt]
SetStatus(c) == /\ st.code # c /\ st' = [st EXCEPT !.code = c] /\ UNCHANGED sends /\ act' = [ev |-> "status", pre |-> st.cnt]
MakeSequence == /\ st.kind \in {"reiter", "iter"} /\ ~st.pt
                /\ st' = [st EXCEPT !.kind = "list", !.hasit = FALSE, !.cnt = [@ EXCEPT ![0] = @ + 1]]   \* closed at once
                /\ UNCHANGED sends /\ act' = [ev |-> "make_sequence", pre |-> st.cnt]
Next == /\ depth < MaxDepth
        /\ depth' = depth + 1
        /\ (\E m \in {"GET", "HEAD", "POST"} : Send(m)) \/ With \/ (\E c \in {200, 204, 304} : SetStatus(c)) \/ MakeSequence

\* each send runs every callback and the iterable's own close exactly once more
PerSend == [][act'.ev = "send" => \A i \in Ids : (i = 0 /\ ~st.hasit) \/ st'.cnt[i] = st.cnt[i] + 1]_vars
NoAccumulation == Len(st.oncl) <= NCB + 1
=============================================================================
