CONSTANTS
  Variant = "fixed"
  MaxLen = 2
  Size = "q"
INIT Init
NEXT Next
CHECK_DEADLOCK FALSE
VIEW View
ACTION_CONSTRAINT Export
INVARIANT NoCRLFStored
PROPERTY RaisedIffDirty
