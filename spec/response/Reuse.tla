-------------------------------- MODULE Reuse --------------------------------
(* C05 growth: ONE response object sent several times.  "After the server closes the returned  *)
(* iterable, every registered close callback and the wrapped iterable's own close have run    *)
(* exactly once" holds per send: the n-th server close raises every callback's count and the   *)
(* iterable's close count by exactly one; nothing accumulates in the response's private        *)
(* callback list between sends.                                                                *)
(*  - `ReuseClause`: the contract on a recorded history of events (send / with / status / ...) *)
(*  - MCReuse.tla: implementation-shaped state machine with the "send again" action            *)
EXTENDS Response

NativeH(hs) == \A k \in 1..Len(hs) : hs[k].s

\* one recorded send: [ev, via, method, code, out: [exc, headers, body], cb: counts after, ic: count after]
SendClause(e, ncb, closable, cbPrev, icPrev) ==
  LET supp == e.method = "HEAD" \/ Bodyless(e.code)
      cls  == ValuesNamed(e.out.headers, CLN)
  IN IF e.out.exc # "" THEN "ReuseSendRaised"
     ELSE IF ~NativeH(e.out.headers) \/ \E k \in 1..Len(e.out.headers) : HasCRLF(e.out.headers[k].v) THEN "ReuseHeaderValue"
     ELSE IF supp /\ e.out.body # <<>> THEN "ReuseNoBody"
     ELSE IF NoCLStatus(e.code) /\ cls # <<>> THEN "ReuseNoContentLength"
     ELSE IF ~supp /\ \E k \in 1..Len(cls) : cls[k] # DecOf(Len(e.out.body)) THEN "ReuseContentLength"
     ELSE IF Len(e.cb) # ncb \/ \E k \in 1..Len(e.cb) : e.cb[k] # cbPrev[k] + 1 THEN "ReuseCallbacksOncePerSend"
     ELSE IF closable /\ e.ic # icPrev + 1 THEN "ReuseIterableClosedOncePerSend"
     ELSE "ok"

RECURSIVE ReuseFold(_, _, _, _, _, _)
ReuseFold(evs, i, ncb, closable, cbPrev, icPrev) ==
  IF i > Len(evs) THEN [clause |-> "ok", at |-> 0]
  ELSE LET e == evs[i]
           c == IF e.ev = "send" /\ Len(cbPrev) = ncb THEN SendClause(e, ncb, closable, cbPrev, icPrev) ELSE "ok"
       IN IF c # "ok" THEN [clause |-> c, at |-> i]
          \* after make_sequence the wrapped body is a list: the consumed iterable is not closed per send any more
          ELSE ReuseFold(evs, i + 1, ncb, closable /\ ~(e.ev = "make_sequence" /\ e.out.exc = ""),
                         IF Len(e.cb) = ncb THEN e.cb ELSE cbPrev, e.ic)
ReuseClause(ln) == ReuseFold(ln.events, 1, ln.ncb, ln.closable, [k \in 1..ln.ncb |-> 0], 0).clause
\* not named by the property: an explicit Response.close() (context manager) also runs everything once
ReuseDrift(ln) ==
  IF \E i \in 2..Len(ln.events) : ln.events[i].ev = "with" /\ Len(ln.events[i].cb) = ln.ncb /\ Len(ln.events[i - 1].cb) = ln.ncb
        /\ \E k \in 1..ln.ncb : ln.events[i].cb[k] # ln.events[i - 1].cb[k] + 1
  THEN "reuse-with-close" ELSE "ok"
=============================================================================
