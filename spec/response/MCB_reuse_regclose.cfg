CONSTANTS
  Variant = "register_iterable_close_per_send"
  NCB = 1
  MaxSends = 3
  MaxDepth = 4
INIT Init
NEXT Next
CHECK_DEADLOCK FALSE
INVARIANT NoAccumulation
PROPERTY PerSend
