CONSTANTS
  Variant = "fixed"
  MaxLen = 2
  Size = "q"
INIT Init
NEXT Next
CHECK_DEADLOCK FALSE
VIEW View
INVARIANT NoCRLFStored
PROPERTY RaisedIffDirty
