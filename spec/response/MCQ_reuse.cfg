CONSTANTS
  Variant = "fixed"
  NCB = 2
  MaxSends = 3
  MaxDepth = 5
INIT Init
NEXT Next
CHECK_DEADLOCK FALSE
INVARIANT NoAccumulation
PROPERTY PerSend
