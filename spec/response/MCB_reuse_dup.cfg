CONSTANTS
  Variant = "dup_callbacks_per_send"
  NCB = 2
  MaxSends = 3
  MaxDepth = 4
INIT Init
NEXT Next
CHECK_DEADLOCK FALSE
INVARIANT NoAccumulation
PROPERTY PerSend
