CONSTANTS
  Variant = "double_close"
  Size = "q"
INIT Init
NEXT Next
CHECK_DEADLOCK FALSE
INVARIANT WellFormed
