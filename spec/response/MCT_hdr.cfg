CONSTANTS
  Variant = "fixed"
  MaxLen = 3
  Size = "t"
INIT Init
NEXT Next
CHECK_DEADLOCK FALSE
VIEW View
INVARIANT NoCRLFStored
PROPERTY RaisedIffDirty
