---------------------------- MODULE ResponseTrace ----------------------------
(* Trace judge for C05.  Input: ndjson (TRACE_FILE); every line is self-contained.           *)
(*  hdr : [t, i, op, target, pre: <<[n, v]>>, c: call (see Response!ApplyMut), exc,           *)
(*         post: <<[n, v, s]>>]     one mutator call on a real Headers object                 *)
(*  hdrx: like hdr for entry points of the Response API that store a header value (location,  *)
(*        set_cookie, Response(headers=..) ...): c.m = "api", post = the list handed to the     *)
(*        server; only StoredClean / native are judged                                         *)
(*  s = isinstance(value, str); values of other types are recorded by their str() text         *)
(*  rfin: like fin, recorded from the repository's own tests (verdict clauses only, no drift)  *)
(*  fin : [t, i, op, inp: (see Response!Finalize; plus envstd, mhdrs), out: [exc, status,     *)
(*         headers: <<[n, v, s]>>, body, allbytes, cb, ic, raw]]                              *)
(*         one real Response finalised with get_wsgi_response, iterated `plan` chunks, closed *)
(* s = `type(value) is str`.  Verdicts come only from the clauses of the property statement   *)
(* (Response!FinClause, StoredClean, AttemptsDirty); everything else is model drift.          *)
EXTENDS Shape, Reuse, TLC, Json, IOUtils

Lines == ndJsonDeserialize(IOEnv.TRACE_FILE)

VARIABLE l
vars == <<l>>

Native(hs) == \A k \in 1..Len(hs) : hs[k].s
Plain(hs) == [k \in 1..Len(hs) |-> H(hs[k].n, hs[k].v)]

HdrClause(ln) ==
  IF ~Native(ln.post) THEN "HeaderValueNative"
  ELSE IF ~StoredClean(ln.post) THEN "StoredCRLF"
  ELSE IF ~CallShapeOK(ln.pre, ln.c) THEN "ok"
  ELSE IF AttemptsDirty(ln.pre, ln.c) /\ ln.exc # "ValueError" THEN "DirtyNotRefused"
  ELSE "ok"
HdrDrift(ln) ==
  IF ~CallShapeOK(ln.pre, ln.c) THEN "ok"
  ELSE LET r == ApplyMut(ln.pre, ln.c) IN
       IF r.exc # ln.exc THEN "mutator-exception" ELSE IF r.h # Plain(ln.post) THEN "mutator-list" ELSE "ok"

FinDriftAll(ln) ==
  IF ln.inp.hdrs # ln.inp.mhdrs THEN "construct"
  ELSE IF ln.out.exc = "" /\ ~ln.out.allbytes THEN "chunk-not-bytes"
  ELSE FinDrift(ln.inp, ln.out)

\* ---- shape : [init: [kind, items, pt], hist: <<[o, k, v, items, b, exc]>>, method, code, ncb, out, its]
\*      a history of body operations on one real Response, then get_wsgi_response / iterate / close
ShapeDrift(ln) ==
  LET r == RunHist(InitState(ln.init), ln.hist, 1) IN
  IF r.ood THEN "ok"
  ELSE IF r.bad > 0 THEN "shape-exception"
  ELSE IF ln.out.exc # "" THEN "ok"
  ELSE LET f == FinalizeS(r.s, ln.method, ln.code, ln.ncb)
           cls == ValuesNamed(ln.out.headers, CLN)
       IN IF f.body # ln.out.body THEN "shape-body"
          ELSE IF cls # (IF f.cl >= 0 THEN <<DecOf(f.cl)>> ELSE <<>>) THEN "shape-length"
          ELSE IF f.closes # <<ln.its[1].closes, ln.its[2].closes>> THEN "shape-closes"
          ELSE IF f.raw # ln.out.raw THEN "shape-raw"
          ELSE "ok"

\* ---- exc : [cls, via, method, hb: header-bound argument texts, twin: length of the GET body of the same
\*      exception, out]  an HTTPException rendered through get_response / __call__
ExcClause(ln) ==
  LET out == ln.out
      dirty == \E k \in 1..Len(ln.hb) : HasCRLF(ln.hb[k])
      cls == ValuesNamed(out.headers, CLN)
      locs == ValuesNamed(out.headers, LOCN)
  IN IF out.exc # "" THEN (IF dirty /\ out.exc = "ValueError" THEN "ok" ELSE "ExcRaised")
     ELSE IF ~Native(out.headers) THEN "ExcHeaderValueNative"
     ELSE IF \E k \in 1..Len(out.headers) : HasCRLF(out.headers[k].v) THEN "ExcHeaderValueCRLF"
     ELSE IF ln.method = "HEAD" /\ out.body # <<>> THEN "ExcNoBodyForHead"
     ELSE IF \E k \in 1..Len(cls) : cls[k] # DecOf(IF ln.method = "HEAD" THEN ln.twin ELSE Len(out.body)) THEN "ExcContentLength"
     ELSE IF \E k \in 1..Len(locs) : ~VisibleAscii(locs[k]) THEN "ExcLocationAscii"
     ELSE IF \E k \in 1..Len(out.cb) : out.cb[k] # 1 THEN "ExcCallbacksOnce"
     ELSE "ok"
ExcDrift(ln) == IF ln.out.exc = "" /\ ~IsPrefixOf(DecOf(ln.code), ln.out.status) THEN "exc-status" ELSE "ok"

Verdict(ln) == CASE ln.op \in {"hdr", "hdrx"} -> HdrClause(ln)   \* hdrx: an entry point of the Response API (no drift)
                 [] ln.op = "fin" -> FinClause(ln.inp, ln.out, Native(ln.out.headers))
                 [] ln.op = "rfin" -> FinClause(ln.inp, ln.out, Native(ln.out.headers))   \* recorded from the repository's tests
                 [] ln.op = "shape" -> ShapeClause(ln.method, ln.code, ln.ncb, ln.out, ln.its, Native(ln.out.headers))
                 [] ln.op = "exc" -> ExcClause(ln)
                 [] ln.op = "reuse" -> ReuseClause(ln)      \* one response object sent several times (Reuse.tla)
                 [] OTHER -> "ok"
Drift(ln) == CASE ln.op = "hdr" -> HdrDrift(ln)
               [] ln.op = "fin" -> FinDriftAll(ln)
               [] ln.op = "shape" -> ShapeDrift(ln)
               [] ln.op = "exc" -> ExcDrift(ln)
               [] ln.op = "reuse" -> ReuseDrift(ln)
               [] OTHER -> "ok"

Init == l = 1
Next == /\ l <= Len(Lines)
        /\ LET ln == Lines[l] v == Verdict(ln) IN
           /\ IF v = "ok" THEN TRUE ELSE PrintT(ToJson([reject |-> 1, t |-> ln.t, i |-> ln.i, clause |-> v]))
           /\ IF v # "ok" THEN TRUE
              ELSE LET d == Drift(ln) IN
                   IF d = "ok" THEN TRUE ELSE PrintT(ToJson([drift |-> 1, t |-> ln.t, i |-> ln.i, what |-> d]))
        /\ l' = l + 1

Done == PrintT(ToJson([judged |-> Len(Lines)])) /\ TLCGet("generated") >= 0
=============================================================================
