---------------------------- MODULE ResponseTrace ----------------------------
(* Trace judge for C05.  Input: ndjson (TRACE_FILE); every line is self-contained.           *)
(*  hdr : [t, i, op, target, pre: <<[n, v]>>, c: call (see Response!ApplyMut), exc,           *)
(*         post: <<[n, v, s]>>]     one mutator call on a real Headers object                 *)
(*  fin : [t, i, op, inp: (see Response!Finalize; plus envstd, mhdrs), out: [exc, status,     *)
(*         headers: <<[n, v, s]>>, body, allbytes, cb, ic, raw]]                              *)
(*         one real Response finalised with get_wsgi_response, iterated `plan` chunks, closed *)
(* s = `type(value) is str`.  Verdicts come only from the clauses of the property statement   *)
(* (Response!FinClause, StoredClean, AttemptsDirty); everything else is model drift.          *)
EXTENDS Response, TLC, Json, IOUtils

Lines == ndJsonDeserialize(IOEnv.TRACE_FILE)

VARIABLE l
vars == <<l>>

Native(hs) == \A k \in 1..Len(hs) : hs[k].s
Plain(hs) == [k \in 1..Len(hs) |-> H(hs[k].n, hs[k].v)]

HdrClause(ln) ==
  IF ~Native(ln.post) THEN "HeaderValueNative"
  ELSE IF ~StoredClean(ln.post) THEN "StoredCRLF"
  ELSE IF ~CallShapeOK(ln.pre, ln.c) THEN "ok"
  ELSE IF AttemptsDirty(ln.pre, ln.c) /\ ln.exc # "ValueError" THEN "DirtyNotRefused"
  ELSE "ok"
HdrDrift(ln) ==
  IF ~CallShapeOK(ln.pre, ln.c) THEN "ok"
  ELSE LET r == ApplyMut(ln.pre, ln.c) IN
       IF r.exc # ln.exc THEN "mutator-exception" ELSE IF r.h # Plain(ln.post) THEN "mutator-list" ELSE "ok"

FinDriftAll(ln) ==
  IF ln.inp.hdrs # ln.inp.mhdrs THEN "construct"
  ELSE IF ln.out.exc = "" /\ ~ln.out.allbytes THEN "chunk-not-bytes"
  ELSE FinDrift(ln.inp, ln.out)

Verdict(ln) == CASE ln.op = "hdr" -> HdrClause(ln)
                 [] ln.op = "fin" -> FinClause(ln.inp, ln.out, Native(ln.out.headers))
                 [] OTHER -> "ok"
Drift(ln) == CASE ln.op = "hdr" -> HdrDrift(ln)
               [] ln.op = "fin" -> FinDriftAll(ln)
               [] OTHER -> "ok"

Init == l = 1
Next == /\ l <= Len(Lines)
        /\ LET ln == Lines[l] v == Verdict(ln) IN
           /\ IF v = "ok" THEN TRUE ELSE PrintT(ToJson([reject |-> 1, t |-> ln.t, i |-> ln.i, clause |-> v]))
           /\ IF v # "ok" THEN TRUE
              ELSE LET d == Drift(ln) IN
                   IF d = "ok" THEN TRUE ELSE PrintT(ToJson([drift |-> 1, t |-> ln.t, i |-> ln.i, what |-> d]))
        /\ l' = l + 1

Done == PrintT(ToJson([judged |-> Len(Lines)])) /\ TLCGet("generated") >= 0
=============================================================================
