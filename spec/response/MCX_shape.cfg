CONSTANTS
  Variant = "fixed"
  MaxDepth = 2
  NCB = 1
INIT Init
NEXT Next
CHECK_DEADLOCK FALSE
VIEW View
INVARIANT ShapeOK
ACTION_CONSTRAINT Export
