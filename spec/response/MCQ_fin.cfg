CONSTANTS
  Variant = "fixed"
  Size = "q"
INIT Init
NEXT Next
CHECK_DEADLOCK FALSE
INVARIANT WellFormed
