CONSTANTS
  Variant = "keep_cl_204"
  Size = "q"
INIT Init
NEXT Next
CHECK_DEADLOCK FALSE
INVARIANT WellFormed
