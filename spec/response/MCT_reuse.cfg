CONSTANTS
  Variant = "fixed"
  NCB = 2
  MaxSends = 4
  MaxDepth = 7
INIT Init
NEXT Next
CHECK_DEADLOCK FALSE
INVARIANT NoAccumulation
PROPERTY PerSend
