------------------------------ MODULE Response ------------------------------
(* C05 -- responses are well-formed WSGI output.                                              *)
(*                                                                                            *)
(* Three layers, all over concrete code points / bytes (DESIGN.md section 5):                 *)
(*  1. Headers mutators: an implementation-shaped sequential model (every write to the list   *)
(*     goes through the CR/LF check, multi-value mutators stop at the first refused value and *)
(*     keep what they already applied) and the contract (`WouldStore`, `StoredClean`).        *)
(*  2. Finalisation: `Finalize(inp)` = the documented rules of Response.get_wsgi_response     *)
(*     followed by a WSGI server that pulls `plan` chunks and closes the iterable.            *)
(*  3. The contract `FinClause(inp, out)`: the clauses of the property statement, evaluated   *)
(*     both on the model's output (TLC, exhaustively over the product) and on the recorded    *)
(*     output of the real code (ResponseTrace.tla).                                           *)
(* Variant = "fixed" is the code as it should be; other values are deliberately broken model  *)
(* variants (non-vacuity of the invariants) and "orig" = the pinned tree before F12.          *)
EXTENDS Naturals, Sequences, FiniteSets, Text

CONSTANT Variant

\* ------------------------------------------------------------------ text helpers
LowerC(c) == IF c >= 65 /\ c <= 90 THEN c + 32 ELSE c
LowerSeq(s) == [i \in 1..Len(s) |-> LowerC(s[i])]
SameName(a, b) == LowerSeq(a) = LowerSeq(b)
HasCRLF(v) == \E i \in 1..Len(v) : v[i] \in {CR, LF}
RECURSIVE DecOf(_)
DecOf(n) == IF n < 10 THEN <<48 + n>> ELSE DecOf(n \div 10) \o <<48 + (n % 10)>>
IsDigit(c) == c >= 48 /\ c <= 57
RECURSIVE ValOf(_, _)
ValOf(s, acc) == IF s = <<>> THEN acc ELSE ValOf(Tail(s), acc * 10 + (Head(s) - 48))
FirstPos(s, c) == IF \E i \in 1..Len(s) : s[i] = c THEN CHOOSE i \in 1..Len(s) : s[i] = c /\ \A j \in 1..(i - 1) : s[j] # c
                  ELSE 0
VisibleAscii(v) == \A i \in 1..Len(v) : v[i] >= 33 /\ v[i] <= 126

CTN  == <<67, 111, 110, 116, 101, 110, 116, 45, 84, 121, 112, 101>>                 \* Content-Type
CTV  == <<116, 101, 120, 116, 47, 112, 108, 97, 105, 110, 59, 32, 99, 104, 97, 114, 115, 101, 116, 61, 117, 116, 102, 45, 56>>
CLN  == <<67, 111, 110, 116, 101, 110, 116, 45, 76, 101, 110, 103, 116, 104>>       \* Content-Length
LOCN == <<76, 111, 99, 97, 116, 105, 111, 110>>                                     \* Location
ORIGIN == <<104, 116, 116, 112, 58, 47, 47, 108, 111, 99, 97, 108, 104, 111, 115, 116>>   \* http://localhost
DIR  == <<47, 100, 47>>                                                             \* /d/   (request path /d/f)
HTTPP == <<104, 116, 116, 112, 58, 47, 47>>                                         \* http://

H(n, v) == [n |-> n, v |-> v]

\* ------------------------------------------------------------------ 1. Headers mutators
\* fold state: the list and the exception class raised so far ("" = none)
Ok(h) == [h |-> h, exc |-> ""]
Refuse(h) == [h |-> h, exc |-> "ValueError"]

FirstIdx(h, n) == IF \E i \in 1..Len(h) : SameName(h[i].n, n)
                  THEN CHOOSE i \in 1..Len(h) : SameName(h[i].n, n) /\ \A j \in 1..(i - 1) : ~SameName(h[j].n, n)
                  ELSE 0
Has(h, n) == FirstIdx(h, n) > 0
Without(h, n) == SelectSeq(h, LAMBDA e : ~SameName(e.n, n))
ValuesOf(h, n) == LET s == SelectSeq(h, LAMBDA e : SameName(e.n, n)) IN [i \in 1..Len(s) |-> s[i].v]

\* the check every write goes through (_str_header_value); a broken variant skips it at one site
Refused(site, v) == HasCRLF(v) /\ Variant # site

Add(r, n, v) == IF r.exc # "" THEN r
                ELSE IF Refused("nocheck_add", v) THEN Refuse(r.h)
                ELSE Ok(Append(r.h, H(n, v)))
Set(r, n, v) == IF r.exc # "" THEN r
                ELSE IF Refused("nocheck_set", v) THEN Refuse(r.h)
                ELSE LET i == FirstIdx(r.h, n) IN
                     IF i = 0 THEN Ok(Append(r.h, H(n, v)))
                     ELSE Ok(SubSeq(r.h, 1, i - 1) \o <<H(n, v)>> \o Without(SubSeq(r.h, i + 1, Len(r.h)), n))
RECURSIVE AddAll(_, _, _)
AddAll(r, n, vs) == IF vs = <<>> THEN r ELSE AddAll(Add(r, n, Head(vs)), n, Tail(vs))
SetList(r, n, vs) == IF r.exc # "" THEN r
                     ELSE IF vs = <<>> THEN Ok(Without(r.h, n))
                     ELSE AddAll(Set(r, n, Head(vs)), n, Tail(vs))

\* quote_header_value / dump_options_header for one keyword parameter
TokenExtra == {33, 35, 36, 37, 38, 39, 42, 43, 45, 46, 94, 95, 96, 124, 126}
IsToken(v) == v # <<>> /\ \A i \in 1..Len(v) : IsAlnum(v[i]) \/ v[i] \in TokenExtra
RECURSIVE Escaped(_)
Escaped(v) == IF v = <<>> THEN <<>>
              ELSE (IF Head(v) \in {34, 92} THEN <<92, Head(v)>> ELSE <<Head(v)>>) \o Escaped(Tail(v))
Quoted(v) == IF IsToken(v) THEN v ELSE <<34>> \o Escaped(v) \o <<34>>
\* keyword names: underscores become dashes
WithOption(v, kn, kv) == v \o <<59, 32>> \o [k \in 1..Len(kn) |-> IF kn[k] = 95 THEN 45 ELSE kn[k]] \o <<61>> \o Quoted(kv)

\* a call: [m, n, i, j, vs, ps, kn, kv, form]; ps = <<[n, vs]>>; form of the argument of
\* extend / update: "pairs" (iterable of pairs), "dict" (mapping name -> scalar), "dictlist"
\* (mapping name -> list), "kwargs" (keyword arguments, list values)
RECURSIVE ExtendPs(_, _)
ExtendPs(r, ps) == IF ps = <<>> THEN r ELSE ExtendPs(AddAll(r, Head(ps).n, Head(ps).vs), Tail(ps))
RECURSIVE UpdatePs(_, _, _)
UpdatePs(r, ps, form) ==
  IF ps = <<>> THEN r
  ELSE LET p == Head(ps) IN
       UpdatePs(IF form \in {"dictlist", "kwargs"} THEN SetList(r, p.n, p.vs) ELSE Set(r, p.n, p.vs[1]), Tail(ps), form)
Flat(ps) == Concat([k \in 1..Len(ps) |-> [x \in 1..Len(ps[k].vs) |-> H(ps[k].n, ps[k].vs[x])]])

CallShapeOK(h, c) ==
  CASE c.m \in {"add", "set", "setitem", "setdefault"} -> Len(c.vs) = 1
    [] c.m \in {"add_kw", "set_kw"} -> Len(c.vs) = 1
    [] c.m = "setitem_int" -> Len(c.vs) = 1 /\ c.i < Len(h)
    [] c.m = "setitem_slice" -> c.i <= c.j /\ c.j <= Len(h) /\ \A k \in 1..Len(c.ps) : Len(c.ps[k].vs) = 1
    [] c.m \in {"extend", "update"} -> \A k \in 1..Len(c.ps) : c.form \in {"dictlist", "kwargs"} \/ Len(c.ps[k].vs) = 1
    [] c.m \in {"setlist", "setlistdefault", "remove", "clear", "ctor"} -> TRUE
    [] OTHER -> FALSE

ApplyMut(h, c) ==
  CASE c.m = "add" -> Add(Ok(h), c.n, c.vs[1])
    [] c.m = "add_kw" -> Add(Ok(h), c.n, WithOption(c.vs[1], c.kn, c.kv))
    [] c.m \in {"set", "setitem"} -> Set(Ok(h), c.n, c.vs[1])
    [] c.m = "set_kw" -> Set(Ok(h), c.n, WithOption(c.vs[1], c.kn, c.kv))
    [] c.m = "setlist" -> SetList(Ok(h), c.n, c.vs)
    [] c.m = "setdefault" -> IF Has(h, c.n) THEN Ok(h) ELSE Set(Ok(h), c.n, c.vs[1])
    [] c.m = "setlistdefault" -> IF Has(h, c.n) THEN Ok(h) ELSE SetList(Ok(h), c.n, c.vs)
    [] c.m = "setitem_int" -> IF Refused("nocheck_int", c.vs[1]) THEN Refuse(h)
                              ELSE Ok([h EXCEPT ![c.i + 1] = H(c.n, c.vs[1])])
    [] c.m = "setitem_slice" -> LET new == Flat(c.ps) IN
                                IF \E k \in 1..Len(new) : Refused("nocheck_slice", new[k].v) THEN Refuse(h)
                                ELSE Ok(SubSeq(h, 1, c.i) \o new \o SubSeq(h, c.j + 1, Len(h)))
    [] c.m = "extend" -> ExtendPs(Ok(h), c.ps)
    [] c.m = "ctor" -> LET r == ExtendPs(Ok(<<>>), c.ps) IN    \* Headers(defaults): a refused value -> no new object
                       IF r.exc # "" THEN Refuse(h) ELSE r
    [] c.m = "update" -> UpdatePs(Ok(h), c.ps, c.form)
    [] c.m = "remove" -> Ok(Without(h, c.n))
    [] c.m = "clear" -> Ok(<<>>)

\* Contract side, independent of the sequential model: the values the call stores when every
\* one of them is acceptable (documented meaning of each mutator).
WouldStore(h, c) ==
  CASE c.m \in {"add", "set", "setitem", "setitem_int"} -> c.vs
    [] c.m \in {"add_kw", "set_kw"} -> <<WithOption(c.vs[1], c.kn, c.kv)>>
    [] c.m = "setlist" -> c.vs
    [] c.m \in {"setdefault", "setlistdefault"} -> IF Has(h, c.n) THEN <<>> ELSE c.vs
    [] c.m \in {"setitem_slice", "extend", "update", "ctor"} -> LET f == Flat(c.ps) IN [k \in 1..Len(f) |-> f[k].v]
    [] OTHER -> <<>>
AttemptsDirty(h, c) == LET w == WouldStore(h, c) IN \E k \in 1..Len(w) : HasCRLF(w[k])
StoredClean(h) == \A k \in 1..Len(h) : ~HasCRLF(h[k].v)

\* ------------------------------------------------------------------ 2. finalisation
\* inp = [shape, items: <<[k: "s"|"b", v]>>, pt, st: [kind, code, text], method, cl: [has, val]
\*        (has = the application set Content-Length itself), ac, pre, ncb, plan,
\*        hdrs: <<[n, v]>> the response's header list just before finalisation]
EncItem(it) == IF it.k = "s" THEN Utf8Enc(it.v) ELSE it.v
Chunks(inp) == IF inp.shape = "file"
               THEN (IF inp.items[1].v = <<>> THEN <<>> ELSE <<inp.items[1].v>>)
               ELSE [k \in 1..Len(inp.items) |-> EncItem(inp.items[k])]
EncBody(inp) == Concat(Chunks(inp))
CharLen(inp) == SumSeq([k \in 1..Len(inp.items) |-> Len(inp.items[k].v)])

Code(st) == IF st.kind = "str"
            THEN LET p == FirstPos(st.text, 32)
                     d == IF p = 0 THEN st.text ELSE SubSeq(st.text, 1, p - 1)
                 IN IF d # <<>> /\ Len(d) <= 4 /\ \A k \in 1..Len(d) : IsDigit(d[k]) THEN ValOf(d, 0) ELSE 0
            ELSE st.code
Reason(c) ==
  CASE c = 100 -> <<67, 79, 78, 84, 73, 78, 85, 69>>
    [] c = 101 -> <<83, 87, 73, 84, 67, 72, 73, 78, 71, 32, 80, 82, 79, 84, 79, 67, 79, 76, 83>>
    [] c = 200 -> <<79, 75>>
    [] c = 201 -> <<67, 82, 69, 65, 84, 69, 68>>
    [] c = 204 -> <<78, 79, 32, 67, 79, 78, 84, 69, 78, 84>>
    [] c = 206 -> <<80, 65, 82, 84, 73, 65, 76, 32, 67, 79, 78, 84, 69, 78, 84>>
    [] c = 301 -> <<77, 79, 86, 69, 68, 32, 80, 69, 82, 77, 65, 78, 69, 78, 84, 76, 89>>
    [] c = 302 -> <<70, 79, 85, 78, 68>>
    [] c = 304 -> <<78, 79, 84, 32, 77, 79, 68, 73, 70, 73, 69, 68>>
    [] c = 400 -> <<66, 65, 68, 32, 82, 69, 81, 85, 69, 83, 84>>
    [] c = 404 -> <<78, 79, 84, 32, 70, 79, 85, 78, 68>>
    [] c = 500 -> <<73, 78, 84, 69, 82, 78, 65, 76, 32, 83, 69, 82, 86, 69, 82, 32, 69, 82, 82, 79, 82>>
    [] c = 503 -> <<83, 69, 82, 86, 73, 67, 69, 32, 85, 78, 65, 86, 65, 73, 76, 65, 66, 76, 69>>
    [] OTHER -> <<>>
ReasonKnown(c) == Reason(c) # <<>>
StatusLine(st) == IF st.kind = "str" THEN st.text ELSE DecOf(st.code) \o <<32>> \o Reason(st.code)

Informational(c) == c >= 100 /\ c < 200
Bodyless(c) == Informational(c) \/ c \in {204, 304}
NoCLStatus(c) == Informational(c) \/ c = 204
IsSeqShape(s) == s \in {"str", "bytes", "list", "tuple"}
Closable(s) == s \in {"gen", "iter", "file"}

\* -- Location: iri_to_uri for the modelled class of locations (ASCII authority, no dot segments)
SafeBase == {45, 46, 95, 126} \cup {37, 33, 36, 38, 39, 40, 41, 42, 43, 44, 47, 58, 59, 61, 64}
Safe(extra) == {c \in 0..127 : IsAlnum(c)} \cup SafeBase \cup extra
Q(t, extra) == PctEncode(Utf8Enc(t), Safe(extra))
HostChar(c) == (c >= 97 /\ c <= 122) \/ IsDigit(c) \/ c \in {45, 46}
AuthEnd(v) == \* v starts with http:// ; index of the last authority character
  LET rest == {i \in 8..Len(v) : v[i] \in {47, 63, 35}} IN
  IF rest = {} THEN Len(v) ELSE (CHOOSE i \in rest : \A j \in rest : i <= j) - 1
IsAbs(v) == IsPrefixOf(HTTPP, v)
LocModelled(v, ac) ==
  /\ v # <<>>
  /\ \A i \in 1..Len(v) : v[i] > 32 /\ v[i] # 92 /\ v[i] # 127 /\ ~IsSurrogate(v[i]) /\ v[i] <= 1114111
  /\ IF IsAbs(v) THEN AuthEnd(v) >= 8 /\ \A i \in 8..AuthEnd(v) : HostChar(v[i]) /\ v[8] # 46 /\ v[AuthEnd(v)] # 46
                      /\ ~Contains(SubSeq(v, 8, AuthEnd(v)), <<46, 46>>)
                      /\ (AuthEnd(v) = Len(v) \/ v[AuthEnd(v) + 1] = 47)
     ELSE /\ (v[1] = 47 \/ IsAlnum(v[1]))
          /\ (Len(v) < 2 \/ ~(v[1] = 47 /\ v[2] = 47))
          /\ (v[1] = 47 \/ 58 \notin {v[i] : i \in 1..Len(v)})
  /\ (ac => 46 \notin {v[i] : i \in 1..Len(v)} \/ IsAbs(v))
  /\ (ac /\ IsAbs(v) => ~Contains(v, <<47, 46>>))
  /\ (ac => 59 \notin {v[i] : i \in 1..Len(v)})        \* urljoin drops an empty ';params' part
IriToUri(v) ==
  LET a    == IF IsAbs(v) THEN AuthEnd(v) ELSE 0
      rest == Drop(v, a)
      fp   == FirstPos(rest, 35)
      bf   == IF fp = 0 THEN rest ELSE SubSeq(rest, 1, fp - 1)
      frag == IF fp = 0 THEN <<>> ELSE Drop(rest, fp)
      qp   == FirstPos(bf, 63)
      path == IF qp = 0 THEN bf ELSE SubSeq(bf, 1, qp - 1)
      qry  == IF qp = 0 THEN <<>> ELSE Drop(bf, qp)
  IN Take(v, a) \o Q(path, {}) \o (IF qry = <<>> THEN <<>> ELSE <<63>> \o Q(qry, {63}))
     \o (IF frag = <<>> THEN <<>> ELSE <<35>> \o Q(frag, {63, 35}))
UrlJoin(u) == IF u = <<>> \/ IsAbs(u) THEN u
              ELSE IF u[1] = 47 THEN ORIGIN \o u ELSE ORIGIN \o DIR \o u
LocOut(v, ac) == LET u == IriToUri(v) IN IF ac THEN UrlJoin(u) ELSE u

EntityStripped == {LowerSeq(CTN), LowerSeq(CLN)}
Strip304(h) == SelectSeq(h, LAMBDA e : LowerSeq(e.n) \notin EntityStripped)
LastValue(h, n) == LET vs == ValuesOf(h, n) IN vs[Len(vs)]

\* documented construction: default Content-Type; a str / bytes body sets Content-Length
\* (set_data); then what the application does: extra headers, its own Content-Length, Location
Construct(shape, enc, cl, loc, ex) ==
  LET h0  == <<H(CTN, CTV)>> \o (IF shape \in {"str", "bytes"} THEN <<H(CLN, DecOf(Len(enc)))>> ELSE <<>>)
      h1  == ExtendPs(Ok(h0), [k \in 1..Len(ex) |-> [n |-> ex[k].n, vs |-> <<ex[k].v>>]]).h
      h1b == IF cl.has THEN Set(Ok(h1), CLN, cl.val).h ELSE h1
  IN IF loc.has THEN Set(Ok(h1b), LOCN, loc.val).h ELSE h1b

Finalize(inp) ==
  LET code  == Code(inp.st)
      enc   == EncBody(inp)
      h2    == inp.hdrs          \* the header list just before finalisation (see Construct)
      \* ---- implicit sequence conversion before finalisation (get_data / make_sequence)
      conv  == inp.pre # "none" /\ ~IsSeqShape(inp.shape) /\ ~inp.pt
      isseq == IsSeqShape(inp.shape) \/ conv
      \* ---- get_wsgi_headers
      h3    == IF Has(h2, LOCN) THEN Set(Ok(h2), LOCN, LocOut(LastValue(h2, LOCN), inp.ac)).h ELSE h2
      h4    == IF NoCLStatus(code) /\ Variant # "keep_cl_204" THEN Without(h3, CLN)
               ELSE IF code = 304 THEN Strip304(h3) ELSE h3
      clen  == IF Variant = "cl_before_encode" THEN CharLen(inp) ELSE Len(enc)
      h5    == IF isseq /\ ~Has(h2, CLN) /\ ~Bodyless(code) THEN Set(Ok(h4), CLN, DecOf(clen)).h ELSE h4
      \* ---- get_app_iter
      supp  == (inp.method = "HEAD" /\ Variant # "head_sends_body") \/ Bodyless(code)
      raw   == ~supp /\ inp.pt /\ (Variant = "orig" \/ inp.ncb = 0)
      chunks == IF supp THEN <<>> ELSE Chunks(inp)
      \* ---- the server pulls up to `plan` chunks, then closes the iterable
      body  == Concat(Take(chunks, inp.plan))
      \* ---- close chaining: ClosingIterator -> Response.close -> iterable close + callbacks
      nown  == IF ~Closable(inp.shape) THEN 0 - 1
               ELSE IF ~raw /\ inp.pt /\ ~supp /\ Variant = "double_close" THEN 2 ELSE 1
      ncall == IF raw THEN 0 ELSE 1
  IN [exc |-> "", status |-> StatusLine(inp.st), headers |-> h5, body |-> body,
      cb |-> [k \in 1..inp.ncb |-> ncall], ic |-> nown, raw |-> raw]

\* ------------------------------------------------------------------ 3. the contract
\* out.headers entries may carry s (type(value) is str) when they come from the real code
ValuesNamed(hs, n) == LET s == SelectSeq(hs, LAMBDA e : SameName(e.n, n)) IN [k \in 1..Len(s) |-> s[k].v]
FullPlan(inp) == inp.plan >= Len(Chunks(inp))

FinClause(inp, out, native) ==
  LET code == Code(inp.st)
      supp == inp.method = "HEAD" \/ Bodyless(code)
      cls  == ValuesNamed(out.headers, CLN)
      locs == ValuesNamed(out.headers, LOCN)
      want == DecOf(IF supp THEN Len(EncBody(inp)) ELSE Len(out.body))
  IN IF out.exc # "" THEN "FinalizeRaised"
     ELSE IF ~native THEN "HeaderValueNative"
     ELSE IF \E k \in 1..Len(out.headers) : HasCRLF(out.headers[k].v) THEN "HeaderValueNoCRLF"
     ELSE IF supp /\ out.body # <<>> THEN "NoBodyForHeadOrBodyless"
     ELSE IF NoCLStatus(code) /\ cls # <<>> THEN "NoContentLengthFor1xx204"
     ELSE IF ~inp.cl.has /\ (supp \/ FullPlan(inp)) /\ \E k \in 1..Len(cls) : cls[k] # want THEN "ComputedContentLength"
     ELSE IF \E k \in 1..Len(locs) : ~VisibleAscii(locs[k]) THEN "LocationAscii"
     ELSE IF \E k \in 1..Len(out.cb) : out.cb[k] # 1 THEN "CallbacksOnce"
     ELSE IF Len(out.cb) # inp.ncb THEN "CallbacksOnce"
     ELSE IF Closable(inp.shape) /\ out.ic # 1 THEN "IterableClosedOnce"
     ELSE "ok"

\* documented extras that are not named by the property: reported as model drift only
FinDrift(inp, out) ==
  LET m == Finalize(inp) IN
  IF out.exc # "" THEN "ok"
  ELSE IF out.status # m.status /\ (inp.st.kind = "str" \/ ReasonKnown(inp.st.code)) THEN "status"
  ELSE IF out.body # m.body THEN "body"
  ELSE IF inp.envstd /\ (~Has(inp.hdrs, LOCN) \/ LocModelled(LastValue(inp.hdrs, LOCN), inp.ac)) /\ [k \in 1..Len(out.headers) |-> H(out.headers[k].n, out.headers[k].v)] # m.headers THEN "headers"
  ELSE IF out.raw # m.raw THEN "raw"
  ELSE "ok"
=============================================================================
