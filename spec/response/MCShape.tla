------------------------------- MODULE MCShape -------------------------------
(* Every history of body-shape operations up to MaxDepth from every initial body; after each  *)
(* history the response is finalised for GET / HEAD x 200 / 204 and must satisfy the clauses. *)
EXTENDS Shape, TLC, Json

CONSTANTS MaxDepth, NCB
VARIABLES s, depth, act
vars == <<s, depth, act>>
View == <<s, depth>>

SI(v) == [k |-> "s", v |-> v]
Sa == SI(<<97>>)
Se == SI(<<233>>)
Bx == BI(<<195>>)
I(kind, items, pt) == [kind |-> kind, items |-> items, pt |-> pt]
\* initial bodies: Response("é"), Response(["é", ""]), Response((b"\xc3",)), Response(iterator), passthrough iterator
Inits == {[init |-> "str", st |-> InitState(I("str", <<Se>>, FALSE))],
          [init |-> "list", st |-> InitState(I("list", <<Se, SI(<<>>)>>, FALSE))],
          [init |-> "tuple", st |-> InitState(I("tuple", <<Bx>>, FALSE))],
          [init |-> "iter", st |-> InitState(I("iter", <<Se, Bx>>, FALSE))],
          [init |-> "iter_pt", st |-> InitState(I("iter", <<Bx, Bx>>, TRUE))]}
O0 == [o |-> "", k |-> "", v |-> BI(<<>>), items |-> <<>>, b |-> FALSE]
Ops == {[O0 EXCEPT !.o = o, !.v = v] : o \in {"set_data", "stream_write"}, v \in {Se, Bx}}
       \cup {[O0 EXCEPT !.o = "data_set", !.v = Sa]}
       \cup {[O0 EXCEPT !.o = o, !.b = b] : o \in {"get_data", "set_isc", "set_pt"}, b \in BOOLEAN}
       \cup {[O0 EXCEPT !.o = "data_get"]}
       \cup {[O0 EXCEPT !.o = "assign", !.k = "list", !.items = <<Sa>>],
             [O0 EXCEPT !.o = "assign", !.k = "tuple", !.items = <<Bx, Se>>],
             [O0 EXCEPT !.o = "assign", !.k = "iter", !.items = <<Se, Bx>>]}
       \cup {[O0 EXCEPT !.o = o] : o \in {"make_sequence", "freeze", "iter_consume", "calc_len", "stream_tell"}}
       \cup {[O0 EXCEPT !.o = "stream_writelines", !.items = <<Bx, Se>>]}

Init == \E i \in Inits : s = i.st /\ depth = 0 /\ act = [init |-> i.init, op |-> O0, exc |-> ""]
Next == /\ depth < MaxDepth
        /\ \E op \in Ops :
             /\ Enabled(s, op)
             /\ LET r == ApplyO(s, op) IN
                /\ s' = r.s
                /\ act' = [init |-> act.init, op |-> op, exc |-> r.exc]
        /\ depth' = depth + 1

\* observation of the model's own finalisation, in the shape the contract reads
Obs(method, code) ==
  LET f == FinalizeS(s, method, code, NCB) IN
  [out |-> [exc |-> "", headers |-> IF f.cl >= 0 THEN <<H(CLN, DecOf(f.cl))>> ELSE <<>>, body |-> f.body, cb |-> f.cb],
   its |-> [k \in 1..2 |-> [live |-> s.its[k].live, owner |-> s.its[k].owner,
                            wrapped |-> f.wrapped = k, closes |-> f.closes[k]]]]
Clause(method, code) == LET o == Obs(method, code) IN ShapeClause(method, code, NCB, o.out, o.its, TRUE)
ShapeOK == \A m \in {"GET", "HEAD"}, c \in {200, 204} :
             LET v == Clause(m, c) IN v = "ok" \/ (v = "ShapeContentLength" /\ s.stale /\ Variant # "strict_length")
Export == PrintT(ToJson([depth |-> depth, pre |-> s, init |-> act.init, op |-> act'.op, exc |-> act'.exc, post |-> s']))
=============================================================================
