CONSTANTS
  Variant = "fixed"
  NCB = 0
  MaxSends = 4
  MaxDepth = 7
INIT Init
NEXT Next
CHECK_DEADLOCK FALSE
INVARIANT NoAccumulation
PROPERTY PerSend
