CONSTANTS
  Variant = "head_sends_body"
  Size = "q"
INIT Init
NEXT Next
CHECK_DEADLOCK FALSE
INVARIANT WellFormed
