------------------------------ MODULE LintModel ------------------------------
(* Implementation-shaped model of werkzeug.middleware.lint (LintMiddleware.__call__, check_environ,   *)
(* check_start_response, check_headers, check_iterator, InputStream, ErrorStream, GuardedWrite,      *)
(* GuardedIterator) between a scripted application (case.script / cut / ret), a PEP 3333 conforming   *)
(* server stub (start_response twice without exc_info: AssertionError; exc_info after the first body  *)
(* chunk: re-raised) and the server's iteration pattern (case.srv).  State variables like the code's: *)
(* hset (headers_set), sent (sum(chunks)), closed.  One step = one script action or one server call.  *)
(*                                                                                                    *)
(* Step(case, s) is a function, so the same model serves                                              *)
(*   - TLC: LintImpl.tla, every behaviour of the bounded case universe, checked against LintContract   *)
(*     (Failing(case, obs) = {} in EVERY reachable state) plus action / liveness properties;           *)
(*   - the trace judge (LintTrace.tla): Run(case) recomputes the expected observation of any recorded  *)
(*     case; a difference from what the real monitor did is model drift, never a verdict.              *)
(* The committed model follows the repaired monitor (fixes/X05-*.diff); Mutant = "orig_..." are the    *)
(* three behaviours of the unrepaired code, the other mutants hand-broken monitors.  All must fail.    *)
EXTENDS LintContract, TLC, Json

CONSTANT Mutant

Wn(c, g) == [c |-> c, g |-> g]
NoDatum == [ty |-> "b", v |-> <<>>]
EmptyObs == [call |-> [q |-> 0, done |-> FALSE, w |-> <<>>, entered |-> FALSE, exc |-> "", envdiff |-> <<>>, envadded |-> <<>>],
             acts |-> <<>>,
             ret |-> [q |-> 0, w |-> <<>>, reached |-> FALSE, exc |-> "", appexc |-> ""],
             nexts |-> <<>>, closes |-> <<>>, gc |-> [q |-> 0, w |-> <<>>, ran |-> FALSE], stray |-> <<>>]
S0 == [phase |-> "entry", pc |-> 1, hset |-> <<>>, sent |-> 0, closed |-> FALSE, sstarted |-> FALSE, scommitted |-> FALSE,
       appdead |-> FALSE, innext |-> FALSE, nx |-> 0, tick |-> 1, lastr |-> "", pend |-> "", afterdone |-> FALSE, obs |-> EmptyObs]

\* ------------------------------------------------------------------ check_environ + wrapping
RequiredSeq == <<"REQUEST_METHOD", "SERVER_NAME", "SERVER_PORT", "wsgi.version", "wsgi.input", "wsgi.errors",
                 "wsgi.multithread", "wsgi.multiprocess", "wsgi.run_once">>
Entry(case, s) ==
  LET env == case.env
      miss == RangeOf(env.missing)
      w1 == IF env.sub THEN <<Wn(WS, "EnvNotDict")>> ELSE <<>>
      mk == SelectSeq(RequiredSeq, LAMBDA k : k \in miss)
      w2 == [i \in 1..Len(mk) |-> Wn(WS, "EnvMissing")]
      w3 == IF env.ver # <<1, 0>> THEN <<Wn(WS, "EnvVersion")>> ELSE <<>>
      w4 == IF "SCRIPT_NAME" \notin miss /\ env.script # <<>> /\ env.script[1] # 47 THEN <<Wn(WS, "EnvScript")>> ELSE <<>>
      w5 == IF "PATH_INFO" \notin miss /\ env.path # <<>> /\ env.path[1] # 47 THEN <<Wn(WS, "EnvPath")>> ELSE <<>>
      dead(w) == [s EXCEPT !.phase = "done", !.obs.call = [q |-> 0, done |-> TRUE, w |-> w, entered |-> FALSE, exc |-> "KeyError", envdiff |-> <<>>, envadded |-> <<>>]]
  IN IF "wsgi.version" \in miss THEN dead(w1 \o w2)
     ELSE IF "wsgi.input" \in miss \/ "wsgi.errors" \in miss THEN dead(w1 \o w2 \o w3 \o w4 \o w5)
     ELSE [s EXCEPT !.phase = "call",
                    !.obs.call = [q |-> 0, done |-> TRUE, w |-> w1 \o w2 \o w3 \o w4 \o w5, entered |-> TRUE, exc |-> "",
                                  envdiff |-> <<"wsgi.errors", "wsgi.input">>, envadded |-> <<"wsgi.file_wrapper">>]]

\* ------------------------------------------------------------------ check_start_response / check_headers
IsSpace(c) == IsWs(c) \/ c \in {133, 160, 5760, 8232, 8233, 8239, 8287, 12288} \/ (c >= 8192 /\ c <= 8202)
RECURSIVE SkipWs(_, _)
SkipWs(v, i) == IF i > Len(v) THEN i ELSE IF IsSpace(v[i]) THEN SkipWs(v, i + 1) ELSE i
RECURSIVE TokEnd(_, _)
TokEnd(v, i) == IF i > Len(v) THEN i ELSE IF IsSpace(v[i]) THEN i ELSE TokEnd(v, i + 1)
Tok(v) == LET a == SkipWs(v, 1) IN IF a > Len(v) THEN <<>> ELSE SubSeq(v, a, TokEnd(v, a) - 1)   \* status.split(None, 1)[0]
AllDigits(v) == \A i \in 1..Len(v) : IsDigit(v[i])
IntParse(tok) ==                                                                                   \* int(str)
  LET signed == Len(tok) >= 1 /\ tok[1] \in {43, 45}
      ds == IF signed THEN Drop(tok, 1) ELSE tok
      mag == IF Len(ds) > 9 THEN 1000000000 ELSE Num(ds)
  IN IF ds = <<>> \/ ~AllDigits(ds) THEN [ok |-> FALSE, val |-> 0]
     ELSE [ok |-> TRUE, val |-> IF signed /\ tok[1] = 45 THEN 0 - mag ELSE mag]

RECURSIVE HdLoop(_, _, _)
HdLoop(items, i, acc) ==
  IF i > Len(items) THEN [w |-> acc, exc |-> ""]
  ELSE LET it == items[i]
           w1 == IF it.ty # "tuple" \/ Len(it.f) # 2 THEN <<Wn(WS, "HeaderItem")>> ELSE <<>>
       IN IF Len(it.f) # 2 THEN [w |-> acc \o w1, exc |-> "ValueError"]                           \* name, value = item
          ELSE LET w2 == IF it.f[1].ty # "s" \/ it.f[2].ty # "s" THEN <<Wn(WS, "HeaderStr")>> ELSE <<>> IN
               IF it.f[1].ty = "i" THEN [w |-> acc \o w1 \o w2, exc |-> "AttributeError"]          \* name.lower()
               ELSE LET w3 == IF it.f[1].ty = "s" /\ LowerS(it.f[1].v) = N_STATUS THEN <<Wn(WS, "HeaderStatus")>> ELSE <<>>
                    IN HdLoop(items, i + 1, acc \o w1 \o w2 \o w3)

\* headers.get(name): first item whose key is a str equal to name ignoring case, value a str
FirstVal(items, nm) == LET c == {i \in 1..Len(items) : Len(items[i].f) = 2 /\ items[i].f[1].ty = "s" /\ LowerS(items[i].f[1].v) = nm} IN
  IF c = {} THEN [has |-> FALSE, v |-> <<>>]
  ELSE LET i == CHOOSE x \in c : \A y \in c : x <= y IN
       IF items[i].f[2].ty = "s" THEN [has |-> TRUE, v |-> items[i].f[2].v] ELSE [has |-> FALSE, v |-> <<>>]

\* urlparse(location): the text after an optional scheme; its netloc (between "//" and the next "/", "?" or "#")
AfterScheme(v) ==
  LET c == FindFrom(v, <<58>>, 1)
      sch == c > 1 /\ IsAlpha(v[1]) /\ \A i \in 1..(c - 1) : SchemeChar(v[i])
  IN IF sch THEN Drop(v, c) ELSE v
RECURSIVE NetlocEnd(_, _)
NetlocEnd(r, i) == IF i > Len(r) THEN i ELSE IF r[i] \in {47, 63, 35} THEN i ELSE NetlocEnd(r, i + 1)
Netloc(v) == LET r == AfterScheme(v) IN
  IF Len(r) >= 2 /\ r[1] = 47 /\ r[2] = 47 THEN SubSeq(r, 3, NetlocEnd(r, 3) - 1) ELSE <<>>
NetlocEmpty(v) == Netloc(v) = <<>>
\* urlsplit: ValueError("Invalid IPv6 URL") for a netloc with one bracket only
LocRaises(v) == LET n == RangeOf(Netloc(v)) IN (91 \in n) # (93 \in n)

HeaderWarns(items) ==
  LET et == FirstVal(items, N_ETAG)
      lo == FirstVal(items, N_LOCATION)
      lowW == et.has /\ Len(et.v) >= 2 /\ et.v[1] = 119 /\ et.v[2] = 47
      upW == et.has /\ Len(et.v) >= 2 /\ et.v[1] = 87 /\ et.v[2] = 47
      b == IF lowW \/ upW THEN Drop(et.v, 2) ELSE et.v
      ecat == IF Mutant = "etag_wsgi_class" THEN WS ELSE HT
      we == (IF lowW THEN <<Wn(HT, "ETagWeakCase")>> ELSE <<>>)
         \o (IF et.has /\ (b = <<>> \/ b[1] # 34 \/ b[Len(b)] # 34) /\ Mutant # "no_etag_check" THEN <<Wn(ecat, "ETagUnquoted")>> ELSE <<>>)
  IN IF lo.has /\ LocRaises(lo.v) THEN [w |-> we, exc |-> "ValueError"]
     ELSE [w |-> we \o (IF lo.has /\ NetlocEmpty(lo.v) THEN <<Wn(HT, "Location")>> ELSE <<>>), exc |-> ""]

\* result of one application -> monitor call: warnings, exception seen by the application, events that reached
\* the server side, result datum, and the monitor / server-stub state after it
Out(s, w, exc, fwd) == [w |-> w, exc |-> exc, fwd |-> fwd, res |-> NoDatum,
                        hset |-> s.hset, sent |-> s.sent, sstarted |-> s.sstarted, scommitted |-> s.scommitted]

ImplSR(a, s) ==
  IF a.st.ty # "s" THEN Out(s, <<Wn(WS, "StatusType")>>, "AttributeError", <<>>)
  ELSE
  LET v == a.st.v
      tok == Tok(v)
      wD == IF Len(tok) # 3 \/ ~AllDigits(tok) THEN <<Wn(WS, "StatusDigits")>> ELSE <<>>
      wF == IF Len(v) < 4 \/ v[4] # 32 THEN <<Wn(WS, "StatusFormat")>> ELSE <<>>
      ip == IntParse(tok)
      wL == IF ip.val < 100 /\ Mutant # "no_status_low" THEN <<Wn(WS, "StatusLow")>> ELSE <<>>
      wH == IF a.hd.ty # "list" THEN <<Wn(WS, "HeadersType")>> ELSE <<>>
      hl == HdLoop(a.hd.items, 1, <<>>)
      wX == IF a.x = "bad" THEN <<Wn(WS, "ExcInfo")>> ELSE <<>>
      w6 == wD \o wF \o wL \o wH \o hl.w
      crlf == \E i \in 1..Len(a.hd.items) : \E c \in RangeOf(a.hd.items[i].f[2].v) : c \in {10, 13}   \* Headers(): ValueError
      hw == HeaderWarns(a.hd.items)
      wAll == w6 \o wX \o hw.w
      x2 == IF Mutant = "drop_exc_info" THEN "none" ELSE a.x
      raised == IF x2 = "none" /\ s.sstarted THEN "AssertionError"
                ELSE IF x2 # "none" /\ s.scommitted THEN "ExcInfoError" ELSE ""
      ev == [k |-> "SR", st |-> a.st, hd |-> a.hd, x |-> x2, raised |-> raised, same |-> TRUE]
  IN IF tok = <<>> THEN Out(s, <<>>, "IndexError", <<>>)
     ELSE IF ~ip.ok THEN Out(s, wD \o wF, "ValueError", <<>>)
     ELSE IF hl.exc # "" THEN Out(s, w6, hl.exc, <<>>)
     ELSE IF crlf THEN Out(s, w6 \o wX, "ValueError", <<>>)
     ELSE IF hw.exc # "" THEN Out(s, wAll, hw.exc, <<>>)
     ELSE [Out(s, wAll, raised, <<ev>>) EXCEPT !.hset = <<[code |-> ip.val, hd |-> a.hd]>>,
                                              !.sstarted = (s.sstarted \/ raised = "")]

ImplW(a, s) ==
  LET w == IF a.d.ty # "b" THEN <<Wn(WS, "NonBytes")>> ELSE <<>>
      ev == [k |-> "W", d |-> a.d]
  IN [Out(s, w, "", IF Mutant = "write_twice" THEN <<ev, ev>> ELSE <<ev>>) EXCEPT !.sent = s.sent + Len(a.d.v), !.scommitted = TRUE]

ImplY(a, s) ==
  LET w == (IF s.hset = <<>> /\ Mutant # "no_yield_before_sr" THEN <<Wn(WS, "YieldBeforeSR")>> ELSE <<>>)
        \o (IF a.d.ty # "b" THEN <<Wn(WS, "NonBytes")>> ELSE <<>>)
  IN [Out(s, w, "", <<>>) EXCEPT !.sent = s.sent + Len(a.d.v), !.scommitted = TRUE]

INev(a, raised) == [k |-> "IN", m |-> a.m, args |-> a.args, r |-> NoDatum, raised |-> raised]
ImplIN(a, s) ==
  LET n == Len(a.args) IN
  CASE a.m = "read" ->
         IF n = 0 THEN Out(s, <<Wn(WS, "ReadNoSize")>>, "", <<INev(a, "")>>)
         ELSE IF n = 1 THEN Out(s, IF Mutant = "warn_read_size" THEN <<Wn(WS, "ReadNoSize")>> ELSE <<>>, "", <<INev(a, "")>>)
         ELSE Out(s, <<Wn(WS, "ReadArgs")>>, "TypeError", <<INev(a, "TypeError")>>)
    [] a.m = "readline" ->
         IF n = 0 THEN Out(s, <<Wn(WS, "ReadlineNoArg")>>, "", <<INev(a, "")>>)
         ELSE IF n = 1 THEN Out(s, <<Wn(WS, "ReadlineSize")>>, "", <<INev(a, "")>>)
         ELSE Out(s, <<>>, "TypeError", <<>>)
    [] a.m = "readlines" ->
         IF Mutant = "orig_readlines" THEN Out(s, <<>>, "AttributeError", <<>>)
         ELSE IF n <= 1 THEN Out(s, <<>>, "", <<INev(a, "")>>)
         ELSE Out(s, <<>>, "TypeError", <<INev(a, "TypeError")>>)
    [] a.m = "close" -> Out(s, IF Mutant = "no_input_close_warning" THEN <<>> ELSE <<Wn(WS, "InputClosed")>>, "", <<INev(a, "")>>)
    [] OTHER -> Out(s, <<>>, "", <<INev(a, "")>>)

ImplERR(a, s) ==
  LET wT == IF a.d.ty # "s" THEN <<Wn(WS, "ErrWriteType")>> ELSE <<>> IN
  CASE a.m = "write" -> Out(s, wT, "", <<[k |-> "ERR", m |-> "write", d |-> a.d, raised |-> ""]>>)
    [] a.m = "writelines" -> Out(s, wT, "", <<[k |-> "ERR", m |-> "write", d |-> a.d, raised |-> ""]>>)
    [] a.m = "close" -> Out(s, <<Wn(WS, "ErrorsClosed")>>, "", <<[k |-> "ERR", m |-> "close", d |-> a.d, raised |-> ""]>>)
    [] OTHER -> Out(s, <<>>, "", <<[k |-> "ERR", m |-> a.m, d |-> a.d, raised |-> ""]>>)

ImplAct(a, s) ==
  CASE a.k = "SR" -> ImplSR(a, s)
    [] a.k = "W" -> ImplW(a, s)
    [] a.k = "Y" -> ImplY(a, s)
    [] a.k = "IN" -> ImplIN(a, s)
    [] a.k = "ERR" -> ImplERR(a, s)
    [] OTHER -> Out(s, <<>>, "AppError", <<>>)

\* ------------------------------------------------------------------ GuardedIterator.close()
CloseWarns(case, s) ==
  IF s.hset = <<>> THEN <<>> ELSE
  LET code == s.hset[1].code
      items == s.hset[1].hd.items
      clv == FirstVal(items, N_CONTENT_LENGTH)
      none == ~clv.has \/ ~IsNum(clv.v)                                    \* headers.get("content-length", type=int) is None
      cl == IF none THEN 0 - 1 ELSE Num(clv.v)
      head == case.env.method = "HEAD" /\ "REQUEST_METHOD" \notin RangeOf(case.env.missing)
      ent == SelectSeq(items, LAMBDA it : it.f[1].ty = "s" /\ LowerS(it.f[1].v) \in (EntityNames \ {N_EXPIRES, N_CONTENT_LOCATION}))
  IN IF code = 304 THEN [i \in 1..Len(ent) |-> Wn(HT, "Entity304")]
                        \o (IF s.sent > 0 /\ Mutant # "no_304_body" THEN <<Wn(HT, "Body304")>> ELSE <<>>)
     ELSE IF NoBody(code) THEN
          (IF (IF Mutant = "orig_204" THEN none \/ cl # 0 ELSE ~none /\ cl # 0) THEN <<Wn(HT, "NoBodyCL")>> ELSE <<>>)
          \o (IF s.sent > 0 THEN <<Wn(HT, "NoBodyBody")>> ELSE <<>>)
     ELSE IF ~none /\ cl # s.sent /\ (Mutant = "orig_head" \/ ~(head /\ s.sent = 0)) THEN <<Wn(WS, "CLMismatch")>>
     ELSE <<>>

\* ------------------------------------------------------------------ the request as a sequence of steps
Script(case) == case.script
AppendAct(s, o) == Append(s.obs.acts, [q |-> s.tick, w |-> o.w, exc |-> o.exc, fwd |-> o.fwd, res |-> o.res])
Carry(s, o) == [s EXCEPT !.hset = o.hset, !.sent = o.sent, !.sstarted = o.sstarted, !.scommitted = o.scommitted,
                         !.obs.acts = AppendAct(s, o), !.pc = s.pc + 1, !.tick = s.tick + 1]

BeginNext(s) ==
  LET e == [q |-> s.tick, w |-> IF s.closed THEN <<Wn(WS, "IterAfterClose")>> ELSE <<>>, ac |-> Len(s.obs.closes) > 0,
            r |-> "", cls |-> "", item |-> NoDatum, appr |-> "", appcls |-> "", appitem |-> NoDatum, act |-> 0]
  IN [s EXCEPT !.innext = TRUE, !.nx = s.nx + 1, !.tick = s.tick + 1, !.obs.nexts = Append(s.obs.nexts, e)]
EndNext(s, r, cls, item, act) ==
  LET k == Len(s.obs.nexts)
      it2 == IF Mutant = "alter_item" /\ r = "item" /\ item.v # <<>> THEN [item EXCEPT !.v = Tail(item.v)] ELSE item
  IN [s EXCEPT !.innext = FALSE, !.lastr = r,
               !.obs.nexts[k] = [s.obs.nexts[k] EXCEPT !.r = r, !.cls = cls, !.item = it2, !.appr = r, !.appcls = cls,
                                                       !.appitem = item, !.act = act]]

InNext(case, s) ==
  IF s.appdead \/ s.pc > Len(Script(case)) THEN EndNext(s, "stop", "", NoDatum, 0)
  ELSE LET a == Script(case)[s.pc]
           o == ImplAct(a, s)
           t == Carry(s, o)
       IN IF a.k = "Y" THEN EndNext(t, "item", "", a.d, s.pc)
          ELSE IF o.exc # "" THEN EndNext([t EXCEPT !.appdead = TRUE], "exc", o.exc, NoDatum, 0)
          ELSE t

Step(case, s) ==
  CASE s.phase = "entry" -> Entry(case, s)
    [] s.phase = "call" ->
         IF s.pc <= case.cut /\ s.pc <= Len(Script(case)) THEN
              LET o == ImplAct(Script(case)[s.pc], s)  t == Carry(s, o) IN
              IF o.exc # "" THEN [t EXCEPT !.phase = "ret", !.pend = o.exc] ELSE t
         ELSE [s EXCEPT !.phase = "ret"]
    [] s.phase = "ret" ->
         LET w == IF s.pend = "" /\ case.ret = "str" /\ Mutant # "no_str_warning" THEN <<Wn(WS, "StrReturned")>> ELSE <<>> IN
         [s EXCEPT !.phase = IF s.pend = "" THEN "iter" ELSE "done",
                   !.tick = s.tick + 1,
                   !.obs.ret = [q |-> s.tick, w |-> w, reached |-> TRUE, exc |-> s.pend, appexc |-> s.pend]]
    [] s.phase = "iter" ->
         IF s.innext THEN InNext(case, s)
         ELSE IF s.nx < case.srv.take /\ s.lastr \notin {"stop", "exc"} THEN BeginNext(s)
         ELSE [s EXCEPT !.phase = "close"]
    [] s.phase = "close" ->
         IF Len(s.obs.closes) < case.srv.closes THEN
              LET e == [q |-> s.tick, w |-> CloseWarns(case, s), exc |-> "", na |-> Len(s.obs.acts), nn |-> Len(s.obs.nexts),
                        appcloses |-> IF case.ret = "gen" /\ Mutant # "swallow_close" THEN 1 ELSE 0]
              IN [s EXCEPT !.closed = TRUE, !.tick = s.tick + 1, !.obs.closes = Append(s.obs.closes, e)]
         ELSE [s EXCEPT !.phase = "after"]
    [] s.phase = "after" ->
         IF s.innext THEN InNext(case, s)
         ELSE IF case.srv.after /\ ~s.afterdone THEN [BeginNext(s) EXCEPT !.afterdone = TRUE]
         ELSE [s EXCEPT !.phase = "gc"]
    [] s.phase = "gc" ->
         [s EXCEPT !.phase = "done",
                   !.obs.gc = [q |-> s.tick, w |-> IF ~s.closed /\ Mutant # "no_gc_warning" THEN <<Wn(WS, "Unclosed")>> ELSE <<>>, ran |-> TRUE]]
    [] OTHER -> s

RECURSIVE RunFrom(_, _, _)
RunFrom(case, s, fuel) == IF s.phase = "done" \/ fuel = 0 THEN s ELSE RunFrom(case, Step(case, s), fuel - 1)
Run(case) == RunFrom(case, S0, 400).obs
=============================================================================
