CONSTANTS
  Mutant = "none"
  MaxLen = 2
  Family = "endtab"
  Deep = FALSE
  Alpha = "full"
  Cases <- Tables
SPECIFICATION MCSpec
INVARIANT Transparency
INVARIANT WarnedWhenBroken
INVARIANT SilentWhenCompliant
INVARIANT SentMatches
PROPERTY ServerSideAppendOnly
PROPERTY ClosedForGood
PROPERTY HeadersSetForGood
PROPERTY WarningsAppendOnly
PROPERTY Terminates
PROPERTY CloseReaches
PROPERTY UnclosedReported
