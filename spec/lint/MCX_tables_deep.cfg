CONSTANTS
  Mutant = "none"
  MaxLen = 2
  Family = "tables"
  Deep = TRUE
  Alpha = "full"
  Cases <- Tables
INIT MCInit
NEXT NoNext
INVARIANT ExportCase
