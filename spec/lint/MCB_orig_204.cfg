CONSTANTS
  Mutant = "orig_204"
  MaxLen = 2
  Family = "endtab"
  Deep = FALSE
  Alpha = "full"
  Cases <- Tables
SPECIFICATION MCSpec
INVARIANT Transparency
INVARIANT WarnedWhenBroken
INVARIANT SilentWhenCompliant
INVARIANT SentMatches
