CONSTANTS
  Mutant = "orig_204"
  MaxLen = 2
  Family = "endtab"
  Deep = FALSE
  Cases <- AllCases
SPECIFICATION Spec
INVARIANT Transparency
INVARIANT WarnedWhenBroken
INVARIANT SilentWhenCompliant
INVARIANT SentMatches
