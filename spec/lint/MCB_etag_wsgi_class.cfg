CONSTANTS
  Mutant = "etag_wsgi_class"
  MaxLen = 2
  Family = "srtab"
  Deep = FALSE
  Cases <- AllCases
SPECIFICATION Spec
INVARIANT Transparency
INVARIANT WarnedWhenBroken
INVARIANT SilentWhenCompliant
INVARIANT SentMatches
