CONSTANTS
  Mutant = "etag_wsgi_class"
  MaxLen = 2
  Family = "srtab"
  Deep = FALSE
  Alpha = "full"
  Cases <- Tables
SPECIFICATION MCSpec
INVARIANT Transparency
INVARIANT WarnedWhenBroken
INVARIANT SilentWhenCompliant
INVARIANT SentMatches
