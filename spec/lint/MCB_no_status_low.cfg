CONSTANTS
  Mutant = "no_status_low"
  MaxLen = 2
  Family = "srtab"
  Deep = FALSE
  Alpha = "full"
  Cases <- Tables
SPECIFICATION MCSpec
INVARIANT Transparency
INVARIANT WarnedWhenBroken
INVARIANT SilentWhenCompliant
INVARIANT SentMatches
