CONSTANTS
  Mutant = "no_status_low"
  MaxLen = 2
  Family = "srtab"
  Deep = FALSE
  Cases <- AllCases
SPECIFICATION Spec
INVARIANT Transparency
INVARIANT WarnedWhenBroken
INVARIANT SilentWhenCompliant
INVARIANT SentMatches
