CONSTANTS
  Mutant = "none"
  MaxLen = 2
  Family = "proto"
  Deep = TRUE
  Alpha = "full"
  Cases <- Tables
INIT MCInit
NEXT NoNext
INVARIANT ExportCase
