CONSTANTS
  Mutant = "none"
  MaxLen = 2
  Family = "proto"
  Deep = FALSE
  Cases <- AllCases
INIT Init
NEXT NoNext
INVARIANT ExportCase
