CONSTANTS
  Mutant = "none"
  MaxLen = 2
  Family = "all"
  Deep = FALSE
  Cases <- AllCases
SPECIFICATION Spec
INVARIANT Transparency
INVARIANT WarnedWhenBroken
INVARIANT SilentWhenCompliant
INVARIANT SentMatches
PROPERTY ServerSideAppendOnly
PROPERTY ClosedForGood
PROPERTY HeadersSetForGood
PROPERTY WarningsAppendOnly
PROPERTY Terminates
PROPERTY CloseReaches
PROPERTY UnclosedReported
