CONSTANTS
  Mutant = "no_304_body"
  MaxLen = 2
  Family = "endtab"
  Deep = FALSE
  Cases <- AllCases
SPECIFICATION Spec
INVARIANT Transparency
INVARIANT WarnedWhenBroken
INVARIANT SilentWhenCompliant
INVARIANT SentMatches
