CONSTANTS
  Mutant = "warn_read_size"
  MaxLen = 2
  Family = "iotab"
  Deep = FALSE
  Alpha = "full"
  Cases <- Tables
SPECIFICATION MCSpec
INVARIANT Transparency
INVARIANT WarnedWhenBroken
INVARIANT SilentWhenCompliant
INVARIANT SentMatches
