CONSTANTS
  Mutant = "warn_read_size"
  MaxLen = 2
  Family = "iotab"
  Deep = FALSE
  Cases <- AllCases
SPECIFICATION Spec
INVARIANT Transparency
INVARIANT WarnedWhenBroken
INVARIANT SilentWhenCompliant
INVARIANT SentMatches
