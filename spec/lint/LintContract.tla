---------------------------- MODULE LintContract ----------------------------
(* X05 -- werkzeug.middleware.lint.LintMiddleware as a run-time monitor of the PEP 3333 call    *)
(* protocol.  This module is the CONTRACT: a relation between one request's behaviour (case)    *)
(* and what was observed around the monitor (obs).  It is shared by the bounded model check     *)
(* (LintImpl.tla: the implementation-shaped model must satisfy it in every reachable state) and *)
(* by the trace judge (LintTrace.tla: recorded runs of the real LintMiddleware).                *)
(*                                                                                              *)
(* Sources (quoted next to each clause):                                                        *)
(*  [doc]  class docstring of LintMiddleware, src/werkzeug/middleware/lint.py:                  *)
(*         "Warns about common errors in the WSGI and HTTP behavior of the server and wrapped   *)
(*          application. Some of the issues it checks are: invalid status codes / non-bytes     *)
(*          sent to the WSGI server / strings returned from the WSGI application / non-empty    *)
(*          conditional responses / unquoted etags / relative URLs in the Location header /     *)
(*          unsafe calls to wsgi.input / unclosed iterators.  Error information is emitted      *)
(*          using the warnings module."                                                         *)
(*  [mod]  module docstring: "performs sanity checks on the behavior of the WSGI server and     *)
(*          application. It checks that the PEP 3333 WSGI spec is properly implemented. It also  *)
(*          warns on some common HTTP errors such as non-empty responses for 304 status codes."  *)
(*  [cls]  "class WSGIWarning: Warning class for WSGI warnings." / "class HTTPWarning: Warning  *)
(*          class for HTTP warnings."                                                           *)
(*  [pep]  PEP 3333.   [rfc]  RFC 7230 / 7232 / 9110 / 3875 where the rule is an HTTP / CGI one. *)
(*                                                                                              *)
(* Vocabulary (reuses spec/devserver/WsgiContract.tla: SR / W / Y / RAISE, cut):                *)
(*  case = [env, ret, cut, script, srv]                                                         *)
(*   env    = [sub (dict subclass), missing (Seq of key names), ver (wsgi.version as Seq),      *)
(*             script, path (code points of SCRIPT_NAME / PATH_INFO), method]                   *)
(*   ret    = what the application returns: "gen" (iterator with close()), "iter" (iterator    *)
(*            without close()), "str" (a string)                                                *)
(*   script = Seq of actions [k, st, hd, x, d, m, args]; actions 1..cut run inside the          *)
(*            application call, the others while the server iterates                            *)
(*     k = "SR"    start_response(st, hd [, exc_info])   st = datum, hd = [ty, items],          *)
(*                 item = [ty ("tuple"|"list"), f (Seq of datum)], x = "none"|"tuple"|"bad"     *)
(*     k = "W"     write(d)                k = "Y"  the iterable yields d                       *)
(*     k = "IN"    environ["wsgi.input"].m(args..) m = read|readline|readlines|iter|close      *)
(*     k = "ERR"   environ["wsgi.errors"].m(d)      m = write|writelines|flush|close            *)
(*     k = "RAISE" the application raises                                                       *)
(*   datum  = [ty ("s" str | "b" bytes | "i" int), v (code points / byte values)]               *)
(*   srv    = [take (max. next() calls), closes (close() calls), after (one next() after        *)
(*            close)]: the server side of the request                                           *)
(*  obs  = what the harness (or the implementation-shaped model) saw:                           *)
(*   call   [done, w, entered, exc, envdiff, envadded]  from the server's call to the app's entry *)
(*   acts   Seq [w, exc, fwd, res]         one per script action started: warnings emitted      *)
(*                                         during it, exception the app got, events that        *)
(*                                         reached the server side during it, result            *)
(*   ret    [w, reached, exc, appexc]      the application call returns / raises                *)
(*   nexts  Seq [w, ac, r, cls, item, appr, appcls, appitem, act]   per next() of the server    *)
(*   closes Seq [w, exc, appcloses, na, nn]  per close() of the server; na / nn = actions started  *)
(*                                         / next() calls made before it                          *)
(*   gc     [w, ran]                       the iterable is dropped and collected                *)
(*   stray  events on the server side outside any action                                        *)
(*   warning = [c (class name), g (tag derived from the text: drift only)]                      *)
(*   every step record also carries q, its sequence number within the request                   *)
(*                                                                                              *)
(* Every rule is [n, lvl, c, r]: lvl = "must" (documented check: broken <=> warning), "may"     *)
(* (the monitor is allowed to warn, nothing is claimed), c = warning class ("*" = not stated),  *)
(* r = the monitor may raise instead of / after warning (malformed arguments it cannot digest). *)
(* Verdict clauses:  Missing:<step>:<rule>   a documented rule is broken in that step, no warning *)
(*                                           of its class then or later in the request            *)
(*                   FalseAlarm:<step>:..    a warning in that step although no rule was broken    *)
(*                                           then or earlier in the request                        *)
(*                   Transparency:<step>:..  a call / datum / exception / close() did not pass   *)
(*                                           through unchanged, in order, exactly once           *)
EXTENDS Integers, Sequences, FiniteSets, Bytes

WS  == "WSGIWarning"
HT  == "HTTPWarning"
ANY == "*"
R(n, lvl, c, r) == [n |-> n, lvl |-> lvl, c |-> c, r |-> r]
F(fam, at, d) == [fam |-> fam, at |-> at, d |-> d]

N_STATUS == <<115, 116, 97, 116, 117, 115>>
N_ETAG == <<101, 116, 97, 103>>
N_LOCATION == <<108, 111, 99, 97, 116, 105, 111, 110>>
N_CONTENT_LENGTH == <<99, 111, 110, 116, 101, 110, 116, 45, 108, 101, 110, 103, 116, 104>>
N_EXPIRES == <<101, 120, 112, 105, 114, 101, 115>>
N_CONTENT_LOCATION == <<99, 111, 110, 116, 101, 110, 116, 45, 108, 111, 99, 97, 116, 105, 111, 110>>
EntityNames == { <<97, 108, 108, 111, 119>>,
  <<99, 111, 110, 116, 101, 110, 116, 45, 101, 110, 99, 111, 100, 105, 110, 103>>,
  <<99, 111, 110, 116, 101, 110, 116, 45, 108, 97, 110, 103, 117, 97, 103, 101>>,
  N_CONTENT_LENGTH, N_CONTENT_LOCATION,
  <<99, 111, 110, 116, 101, 110, 116, 45, 109, 100, 53>>,
  <<99, 111, 110, 116, 101, 110, 116, 45, 114, 97, 110, 103, 101>>,
  <<99, 111, 110, 116, 101, 110, 116, 45, 116, 121, 112, 101>>,
  N_EXPIRES,
  <<108, 97, 115, 116, 45, 109, 111, 100, 105, 102, 105, 101, 100>> }
RequiredKeys == {"REQUEST_METHOD", "SERVER_NAME", "SERVER_PORT", "wsgi.version", "wsgi.input", "wsgi.errors",
                 "wsgi.multithread", "wsgi.multiprocess", "wsgi.run_once"}
CrashKeys == {"wsgi.version", "wsgi.input", "wsgi.errors"}
Wrapped == {"wsgi.input", "wsgi.errors"}

RangeOf(f) == {f[i] : i \in DOMAIN f}
IsDigit(c) == c >= 48 /\ c <= 57
IsAlpha(c) == (c >= 65 /\ c <= 90) \/ (c >= 97 /\ c <= 122)
LowerC(c) == IF c >= 65 /\ c <= 90 THEN c + 32 ELSE c
LowerS(s) == [i \in 1..Len(s) |-> LowerC(s[i])]
IsWs(c) == c \in {9, 10, 11, 12, 13, 28, 29, 30, 31, 32}
Visible(c) == (c >= 33 /\ c <= 126) \/ (c >= 161 /\ c <= 5759)
Code3(v) == 100 * (v[1] - 48) + 10 * (v[2] - 48) + (v[3] - 48)

\* ---------------------------------------------------------------- status line
\* [pep] "status ... is a string consisting of a Status-Code and a Reason-Phrase, in that order and
\*        separated by a single space, with no surrounding whitespace or other characters"
\* [rfc 9110 15] "The status-code element is a 3-digit integer code"; classes 1xx..5xx, so < 100 is none
\* valid / invalid only where both texts are unambiguous; everything else is "open" (nothing claimed)
StatusClass(st) ==
  IF st.ty # "s" THEN "nonstr"
  ELSE LET v == st.v  n == Len(v) IN
    IF \E i \in 1..Min2(n, 4) : v[i] > 127 THEN "open"
    ELSE IF n >= 1 /\ IsWs(v[1]) THEN "open"
    ELSE IF n < 3 THEN "invalid"
    ELSE IF ~(IsDigit(v[1]) /\ IsDigit(v[2]) /\ IsDigit(v[3])) THEN "invalid"
    ELSE IF n = 3 THEN "invalid"
    ELSE IF v[4] # 32 THEN "invalid"
    ELSE IF Code3(v) < 100 THEN "invalid"
    ELSE IF n >= 5 /\ Visible(v[5]) /\ Visible(v[n]) /\ (\A i \in 5..n : v[i] >= 32 /\ v[i] # 127) THEN "valid"
    ELSE "open"

\* ---------------------------------------------------------------- header list
ItemWell(it) == it.ty = "tuple" /\ Len(it.f) = 2 /\ it.f[1].ty = "s" /\ it.f[2].ty = "s"
HdWell(hd) == hd.ty = "list" /\ \A i \in 1..Len(hd.items) : ItemWell(hd.items[i])
\* values of the well-formed items named nm (lower case), in order
RECURSIVE ValsFrom(_, _, _)
ValsFrom(items, nm, i) == IF i > Len(items) THEN <<>>
   ELSE (IF ItemWell(items[i]) /\ LowerS(items[i].f[1].v) = nm THEN <<items[i].f[2].v>> ELSE <<>>) \o ValsFrom(items, nm, i + 1)
Vals(hd, nm) == ValsFrom(hd.items, nm, 1)
HasCtl(v) == \E i \in 1..Len(v) : v[i] < 32 \/ v[i] = 127

\* [rfc 7232 2.3] entity-tag = [ weak ] opaque-tag ; weak = %x57.2F ; "W/", case-sensitive ;
\*                opaque-tag = DQUOTE *etagc DQUOTE          [doc] "unquoted etags"
ETagClass(v) ==
  LET weakU == Len(v) >= 2 /\ v[1] = 87 /\ v[2] = 47
      weakL == Len(v) >= 2 /\ v[1] = 119 /\ v[2] = 47
      b == IF weakU THEN Drop(v, 2) ELSE v
      n == Len(b)
  IN IF weakL THEN "open"
     ELSE IF n = 0 \/ b[1] # 34 \/ b[n] # 34 THEN "unquoted"
     ELSE IF n >= 2 /\ (\A i \in 2..(n - 1) : b[i] # 34) THEN "quoted"
     ELSE "open"

\* [doc] "relative URLs in the Location header".  absolute = scheme "://" host..., relative = no scheme and
\* no authority at all; anything else (opaque URIs, network-path references, blanks, brackets) is open
SchemeChar(c) == IsAlpha(c) \/ IsDigit(c) \/ c \in {43, 45, 46}
LocClass(v) ==
  LET n == Len(v)
      p == FindFrom(v, <<58, 47, 47>>, 1)            \* "://"
      plain == \A i \in 1..n : v[i] >= 33 /\ v[i] <= 126 /\ v[i] \notin {91, 93, 92}
  IN IF ~plain /\ n > 0 THEN "open"
     ELSE IF p > 1 /\ IsAlpha(v[1]) /\ (\A i \in 1..(p - 1) : SchemeChar(v[i])) /\ p + 3 <= n /\ v[p + 3] \notin {47, 63, 35, 58, 64}
          THEN "absolute"
     ELSE IF ~Contains(v, <<47, 47>>) /\ ~Contains(v, <<58>>) THEN "relative"
     ELSE "open"

RulesSR(a) ==
  LET sc == StatusClass(a.st)
      items == a.hd.items
      well == HdWell(a.hd)
      et == IF well THEN Vals(a.hd, N_ETAG) ELSE <<>>
      lo == IF well THEN Vals(a.hd, N_LOCATION) ELSE <<>>
      etc == {ETagClass(et[i]) : i \in 1..Len(et)}
      loc == {LocClass(lo[i]) : i \in 1..Len(lo)}
  IN
  \* [pep] "status ... is a string" / native strings: "must be of type str"
     (IF sc = "nonstr" THEN {R("StatusType", "must", WS, TRUE)} ELSE {})
  \* [doc] "invalid status codes"
  \cup (IF sc = "invalid" THEN {R("StatusInvalid", "must", WS, TRUE)} ELSE {})
  \cup (IF sc = "open" THEN {R("StatusOpen", "may", WS, TRUE)} ELSE {})
  \* [pep] "The response_headers argument is a list of (header_name, header_value) tuples. It must be a
  \*        Python list; i.e. type(response_headers) is ListType"
  \cup (IF a.hd.ty # "list" THEN {R("HeadersType", "must", WS, FALSE)} ELSE {})
  \cup (IF \E i \in 1..Len(items) : items[i].ty # "tuple" \/ Len(items[i].f) # 2
        THEN {R("HeaderItem", "must", WS, TRUE)} ELSE {})
  \* [pep] "each header_name / header_value" is a native string ("all strings passed to or from the server must be of type str")
  \cup (IF \E i \in 1..Len(items) : \E j \in 1..Len(items[i].f) : items[i].f[j].ty # "s"
        THEN {R("HeaderStr", "must", WS, TRUE)} ELSE {})
  \* nothing is claimed about the CONTENT checks of a malformed header list
  \cup (IF ~well /\ Len(items) > 0 THEN {R("HeaderOpen", "may", ANY, TRUE)} ELSE {})
  \* not documented (CGI's Status header): allowed, not required
  \cup (IF \E i \in 1..Len(items) : Len(items[i].f) >= 1 /\ items[i].f[1].ty = "s" /\ LowerS(items[i].f[1].v) = N_STATUS
        THEN {R("HeaderStatus", "may", WS, FALSE)} ELSE {})
  \* [pep] "Each header_value must not include any control characters": the monitor has no check of its own (may)
  \cup (IF well /\ \E i \in 1..Len(items) : HasCtl(items[i].f[1].v) \/ HasCtl(items[i].f[2].v)
        THEN {R("HeaderCtl", "may", ANY, TRUE)} ELSE {})
  \* [pep] "exc_info, if supplied, must be a Python sys.exc_info() tuple"
  \cup (IF a.x = "bad" THEN {R("ExcInfo", "must", WS, FALSE)} ELSE {})
  \* [doc] "unquoted etags"   [cls] an HTTP matter -> HTTPWarning
  \cup (IF etc = {"unquoted"} THEN {R("ETagUnquoted", "must", HT, FALSE)}
        ELSE IF etc \ {"quoted"} # {} THEN {R("ETagOpen", "may", HT, FALSE)} ELSE {})
  \* [doc] "relative URLs in the Location header"
  \cup (IF loc = {"relative"} THEN {R("LocationRelative", "must", HT, FALSE)}
        ELSE IF loc \ {"absolute"} # {} THEN {R("LocationOpen", "may", HT, TRUE)} ELSE {})

\* [doc] "non-bytes sent to the WSGI server"   [pep] write(body_data): "a bytestring"; the iterable yields "zero or more bytestrings"
RulesData(d) == IF d.ty # "b" THEN {R("NonBytes", "must", WS, FALSE)} ELSE {}
\* [pep] "the application must invoke the start_response() callable before the iterable yields its first body bytestring"
RuleYieldBeforeSR == R("YieldBeforeSR", "must", WS, FALSE)

\* [doc] "unsafe calls to wsgi.input": read() without a size ("WSGI does not guarantee an EOF marker on the input
\*       stream"); readline(size): [pep] "Servers should support the optional size argument to readline(), but as in
\*       WSGI 1.0, they are allowed to omit support for it"; read(size), readline(), readlines(hint), __iter__() are
\*       the methods [pep] lists, read(size) is the safe call.
\* [pep] "applications must not attempt to close these streams, even if they possess close() methods"
RulesIN(a) ==
  CASE a.m = "read" -> IF Len(a.args) = 0 THEN {R("ReadNoSize", "must", WS, FALSE)}
                       ELSE IF Len(a.args) > 1 THEN {R("ReadArgs", "may", WS, TRUE)} ELSE {}
    [] a.m = "readline" -> IF Len(a.args) = 1 THEN {R("ReadlineSize", "must", WS, FALSE)}
                           ELSE IF Len(a.args) = 0 THEN {R("ReadlineNoArg", "may", WS, FALSE)}
                           ELSE {R("ReadlineArgs", "may", WS, TRUE)}
    [] a.m = "readlines" -> IF Len(a.args) > 1 THEN {R("ReadlinesArgs", "may", WS, TRUE)} ELSE {}
    [] a.m = "close" -> {R("InputClosed", "must", WS, FALSE)}
    [] OTHER -> {}
RulesERR(a) ==
  CASE a.m = "close" -> {R("ErrorsClosed", "must", WS, FALSE)}
    [] a.m \in {"write", "writelines"} -> IF a.d.ty # "s" THEN {R("ErrWriteType", "may", WS, TRUE)} ELSE {}
    [] OTHER -> {}

\* [pep] "environ ... must be a builtin Python dictionary (not a subclass, UserDict or other dictionary emulation)";
\*       the required CGI and wsgi.* variables; "wsgi.version: The tuple (1, 0), representing WSGI version 1.0"
\* [rfc 3875 4.1.5 / 4.1.13] PATH_INFO = "" | ( "/" path ), SCRIPT_NAME = "" | ( "/" path )
RulesCALL(env) ==
  LET miss == RangeOf(env.missing) IN
     (IF env.sub THEN {R("EnvNotDict", "must", WS, FALSE)} ELSE {})
  \cup (IF miss \cap RequiredKeys # {} THEN {R("EnvMissing", "must", WS, miss \cap CrashKeys # {})} ELSE {})
  \cup (IF "wsgi.version" \notin miss /\ env.ver # <<1, 0>> THEN {R("EnvVersion", "must", WS, FALSE)} ELSE {})
  \cup (IF "SCRIPT_NAME" \notin miss /\ env.script # <<>> /\ env.script[1] # 47 THEN {R("EnvScript", "must", WS, FALSE)} ELSE {})
  \cup (IF "PATH_INFO" \notin miss /\ env.path # <<>> /\ env.path[1] # 47 THEN {R("EnvPath", "must", WS, FALSE)} ELSE {})
  \* [pep] requires wsgi.url_scheme too; the monitor documents no such check
  \cup (IF miss \ RequiredKeys # {} THEN {R("EnvOther", "may", WS, TRUE)} ELSE {})

\* ---------------------------------------------------------------- end of the response (close())
IsNum(v) == Len(v) >= 1 /\ Len(v) <= 9 /\ \A i \in 1..Len(v) : IsDigit(v[i])
RECURSIVE NumFrom(_, _, _)
NumFrom(v, i, acc) == IF i > Len(v) THEN acc ELSE NumFrom(v, i + 1, acc * 10 + (v[i] - 48))
Num(v) == NumFrom(v, 1, 0)
NoBody(code) == (code >= 100 /\ code < 200) \/ code = 204

\* [doc] "non-empty conditional responses"  [mod] "non-empty responses for 304 status codes" (an HTTP error -> [cls] HTTPWarning)
\* [rfc 7230 3.3.2] "A server MUST NOT send a Content-Length header field in any response with a status code of 1xx
\*       (Informational) or 204 (No Content)"; 3.3.3: such responses "cannot contain a message body"
\* [rfc 7232 4.1] a 304 "SHOULD NOT generate representation metadata other than" Cache-Control, Content-Location, Date, ETag, Expires, Vary
\* [pep] "if the application does not provide enough data to meet its stated Content-Length, the server should ... report the error"
\* [rfc 9110 9.3.2] HEAD: "The server SHOULD send the same header fields in response to a HEAD request as it would have
\*       sent if the request had been a GET" and "MUST NOT send content": a Content-Length without a body is what a
\*       compliant HEAD response looks like, and neither 304 nor 1xx / 204 announce a body by it
RulesCLOSE(code, hd, sent, head) ==
  LET cls == Vals(hd, N_CONTENT_LENGTH)
      hasCL == Len(cls) > 0
      clean == hasCL /\ (\A i \in 1..Len(cls) : cls[i] = cls[1]) /\ IsNum(cls[1])
      items == hd.items
  IN (IF code = 304 /\ sent > 0 THEN {R("Body304", "must", HT, FALSE)} ELSE {})
  \cup (IF code = 304 /\ \E i \in 1..Len(items) : LowerS(items[i].f[1].v) \in EntityNames THEN {R("Entity304", "may", HT, FALSE)} ELSE {})
  \cup (IF NoBody(code) /\ hasCL THEN {R("NoBodyCL", "may", HT, FALSE)} ELSE {})
  \cup (IF NoBody(code) /\ sent > 0 THEN {R("NoBodyBody", "may", HT, FALSE)} ELSE {})
  \cup (IF clean /\ Num(cls[1]) # sent /\ ~NoBody(code) /\ code # 304 /\ ~(head /\ sent = 0) THEN {R("CLMismatch", "may", ANY, FALSE)} ELSE {})
  \cup (IF hasCL /\ ~clean THEN {R("CLOpen", "may", ANY, FALSE)} ELSE {})
  \cup (IF head /\ sent > 0 THEN {R("HeadBody", "may", ANY, FALSE)} ELSE {})

\* ---------------------------------------------------------------- judging one request
\* The documentation says THAT the monitor warns, not WHEN.  Every step of a request carries a sequence number q
\* (call, each action, return, each next(), each close(), collection).  Verdicts are causal, not step-exact:
\*   Missing     a documented rule broken in step q  =>  a warning of its class in some step >= q of the request
\*               (nothing is claimed for a step the monitor itself left by raising on an argument it cannot digest,
\*               a rule with r = TRUE, nor for a start_response the server refused)
\*   FalseAlarm  a warning in step q  =>  a rule (of that class, or of no stated class) broken in some step <= q
\* That the real monitor warns in the very step (and in which order, with which text) is compared with the
\* implementation-shaped model as drift.  Tokens: [fam, at, d, q, c]
T(fam, at, d, q, c) == [fam |-> fam, at |-> at, d |-> d, q |-> q, c |-> c]
Cats(w) == {w[i].c : i \in 1..Len(w)}
MayRaise(rules) == \E r \in rules : r.r
\* tokens of one step: the broken rules, the warnings that must follow (unless waived), the warnings emitted
StepTokens(rules, w, waive, at, d, q) ==
     {T("rule", at, r.n, q, r.c) : r \in rules}
  \cup {T("need", at, r.n, q, r.c) : r \in {x \in rules : x.lvl = "must" /\ ~waive}}
  \cup {T("warn", at, d, q, c) : c \in Cats(w)}
Tr(at, d) == T("Transparency", at, d, 0, "")

\* ---- state reconstructed from the executed prefix
Executed(case, obs) == 1..Min2(Len(obs.acts), Len(case.script))
ExecutedTo(case, obs, na) == 1..Min2(na, Min2(Len(obs.acts), Len(case.script)))
AcceptedSR(case, obs, na) == {i \in ExecutedTo(case, obs, na) : case.script[i].k = "SR" /\ obs.acts[i].exc = "" /\ Len(obs.acts[i].fwd) >= 1}
MaxOf(S) == CHOOSE x \in S : \A y \in S : y <= x
DataLen(d) == Len(d.v)
RECURSIVE SentW(_, _, _, _)
SentW(case, obs, i, na) == IF i > Min2(na, Min2(Len(obs.acts), Len(case.script))) THEN 0
   ELSE (IF case.script[i].k = "W" /\ obs.acts[i].exc = "" THEN DataLen(case.script[i].d) ELSE 0) + SentW(case, obs, i + 1, na)
RECURSIVE SentY(_, _, _)
SentY(obs, k, upto) == IF k > upto \/ k > Len(obs.nexts) THEN 0
   ELSE (IF obs.nexts[k].r = "item" THEN DataLen(obs.nexts[k].item) ELSE 0) + SentY(obs, k + 1, upto)
NonBytesSent(case, obs, na, nn) == (\E i \in ExecutedTo(case, obs, na) : case.script[i].k = "W" /\ case.script[i].d.ty # "b")
                        \/ (\E k \in 1..Min2(nn, Len(obs.nexts)) : obs.nexts[k].r = "item" /\ obs.nexts[k].item.ty # "b")

\* ---- the steps; each returns its tokens
JudgeCALL(case, obs) ==
  LET rules == RulesCALL(case.env)  c == obs.call IN
  IF ~c.done THEN {} ELSE
     StepTokens(rules, c.w, c.exc # "" /\ ~c.entered /\ MayRaise(rules), "CALL", "env", c.q)
  \* transparent: the application is entered, with the server's environ: no variable removed or replaced but the two
  \* streams (keys the monitor ADDS, like its wsgi.file_wrapper, are the middleware's right under [pep]: drift only)
  \cup (IF ~MayRaise(rules) /\ (~c.entered \/ c.exc # "") THEN {Tr("CALL", "not-entered")} ELSE {})
  \cup (IF c.entered /\ RangeOf(c.envdiff) \ Wrapped # {} THEN {Tr("CALL", "environ")} ELSE {})

SameSR(e, a) == e.k = "SR" /\ e.st = a.st /\ e.hd = a.hd /\ e.x = a.x
JudgeAct(case, obs, i) ==
  LET a == case.script[i]  o == obs.acts[i]  nf == Len(o.fwd) IN
  CASE a.k = "SR" ->
       LET rules == RulesSR(a)
           passed == nf = 1 /\ SameSR(o.fwd[1], a) /\ o.exc = o.fwd[1].raised
           monitorRaised == nf = 0 /\ o.exc # ""
           refused == nf = 1 /\ o.fwd[1].raised # ""
       IN StepTokens(rules, o.w, refused \/ (monitorRaised /\ MayRaise(rules)), "SR", "args", o.q)
        \* "start_response(status, response_headers, exc_info=None)" reaches the server once, unchanged, before it
        \* returns; what the server raises reaches the application
        \cup (IF passed \/ (MayRaise(rules) /\ monitorRaised) THEN {} ELSE {Tr("SR", IF nf = 0 THEN "dropped" ELSE IF nf > 1 THEN "repeated" ELSE "changed")})
    [] a.k = "W" ->
          StepTokens(RulesData(a.d), o.w, FALSE, "W", "data", o.q)
        \* [pep] write(): the data is handed on before the call returns, unbuffered
        \cup (IF nf = 1 /\ o.fwd[1].k = "W" /\ o.fwd[1].d = a.d /\ o.exc = "" THEN {}
              ELSE {Tr("W", IF nf = 0 THEN "dropped" ELSE IF nf > 1 THEN "repeated" ELSE "changed")})
    [] a.k = "Y" ->
       LET started == \E j \in 1..(i - 1) : case.script[j].k = "SR" /\ obs.acts[j].exc = ""
           rules == RulesData(a.d) \cup (IF started THEN {} ELSE {RuleYieldBeforeSR})
       IN StepTokens(rules, o.w, FALSE, "Y", "data", o.q)
    [] a.k = "IN" ->
       LET rules == RulesIN(a)
           passed == nf = 1 /\ o.fwd[1].k = "IN" /\ o.fwd[1].m = a.m /\ o.fwd[1].args = a.args
                     /\ o.exc = o.fwd[1].raised /\ (o.exc = "" => o.res = o.fwd[1].r)
           monitorRaised == nf = 0 /\ o.exc # ""
       IN StepTokens(rules, o.w, monitorRaised /\ MayRaise(rules), "IN", a.m, o.q)
        \* the stream methods [pep] lists reach the server's stream, their result the application
        \cup (IF passed \/ (MayRaise(rules) /\ monitorRaised) \/ (a.m = "close" /\ nf = 0 /\ o.exc = "") THEN {}
              ELSE {Tr("IN", a.m)})
    [] a.k = "ERR" ->
       LET rules == RulesERR(a)
           passed == IF a.m \in {"write", "writelines"}
                     THEN nf = 1 /\ o.fwd[1].k = "ERR" /\ o.fwd[1].m \in {"write", "writelines"} /\ o.fwd[1].d = a.d /\ o.exc = o.fwd[1].raised
                     ELSE nf = 1 /\ o.fwd[1].k = "ERR" /\ o.fwd[1].m = a.m /\ o.exc = o.fwd[1].raised
           monitorRaised == nf = 0 /\ o.exc # ""
       IN StepTokens(rules, o.w, monitorRaised /\ MayRaise(rules), "ERR", a.m, o.q)
        \cup (IF passed \/ (MayRaise(rules) /\ monitorRaised) \/ (a.m = "close" /\ nf = 0 /\ o.exc = "") THEN {}
              ELSE {Tr("ERR", a.m)})
    [] OTHER -> StepTokens({}, o.w, FALSE, "RAISE", "raise", o.q) \cup (IF nf # 0 THEN {Tr("RAISE", "stray")} ELSE {})

JudgeRET(case, obs) ==
  IF ~obs.ret.reached THEN {} ELSE
  LET r == obs.ret
      \* [doc] "strings returned from the WSGI application"
      rules == IF case.ret = "str" /\ r.appexc = "" THEN {R("StrReturned", "must", WS, FALSE)} ELSE {}
  IN StepTokens(rules, r.w, FALSE, "RET", "return", r.q)
   \* what the application raises reaches the server; otherwise the server gets an iterable
   \cup (IF r.exc # r.appexc THEN {Tr("RET", "exception")} ELSE {})

JudgeNEXT(case, obs, k) ==
  LET n == obs.nexts[k]
      \* not documented ("Iterated over closed 'app_iter'"): allowed after a close()
      rules == IF n.ac THEN {R("IterAfterClose", "may", WS, FALSE)} ELSE {}
  IN StepTokens(rules, n.w, FALSE, "NEXT", "next", n.q)
   \* every item the application's iterable yields reaches the server unchanged, in order, once; so do its
   \* exhaustion and its exceptions
   \cup (IF n.r = n.appr /\ n.cls = n.appcls /\ (n.r = "item" => n.item = n.appitem) THEN {}
         ELSE {Tr("NEXT", IF n.r # n.appr THEN "outcome" ELSE IF n.r = "item" THEN "item" ELSE "exception")})

JudgeCLOSE(case, obs, j) ==
  LET c == obs.closes[j]
      acc == AcceptedSR(case, obs, c.na)
      lastSR == IF acc = {} THEN 0 ELSE MaxOf(acc)
      a == case.script[lastSR]
      \* nothing is claimed about the end-of-response checks unless the response is well-formed and all of it bytes
      \* (a start_response the server refused leaves the monitor and the server with different ideas of the response)
      open == (\E i \in ExecutedTo(case, obs, c.na) : case.script[i].k = "SR" /\ obs.acts[i].exc # "")
              \/ (lastSR # 0 /\ (StatusClass(a.st) # "valid" \/ ~HdWell(a.hd) \/ NonBytesSent(case, obs, c.na, c.nn)))
      code == Code3(a.st.v)
      sent == SentW(case, obs, 1, c.na) + SentY(obs, 1, c.nn)
      head == case.env.method = "HEAD" /\ "REQUEST_METHOD" \notin RangeOf(case.env.missing)
      rules == IF open THEN {R("CloseOpen", "may", ANY, FALSE)} ELSE IF lastSR = 0 THEN {} ELSE RulesCLOSE(code, a.hd, sent, head)
      hasCL == lastSR # 0 /\ Len(Vals(a.hd, N_CONTENT_LENGTH)) > 0
      why == IF open THEN "open" ELSE IF lastSR = 0 THEN "no-response"
             ELSE IF NoBody(code) /\ ~hasCL /\ sent = 0 THEN "204-or-1xx-no-content-length"
             ELSE IF head /\ sent = 0 /\ hasCL /\ code # 304 THEN "head-content-length"
             ELSE "other"
  IN \* [pep] "If the iterable returned by the application has a close() method, the server or gateway must call that
     \*        method": the monitor stands between them, so the server's close() reaches the iterable (once per call)
     (IF c.appcloses = (IF case.ret = "gen" THEN 1 ELSE 0) /\ c.exc = "" THEN {}
      ELSE {Tr("CLOSE", IF c.appcloses = 0 THEN "swallowed" ELSE IF c.exc # "" THEN "raised" ELSE "repeated")})
   \cup StepTokens(rules, c.w, FALSE, "CLOSE", why, c.q)

\* [doc] "unclosed iterators"  (reported when the iterable is collected)
JudgeGC(case, obs) ==
  IF ~obs.gc.ran THEN {} ELSE
  LET rules == IF Len(obs.closes) = 0 THEN {R("Unclosed", "must", WS, FALSE)} ELSE {} IN
  StepTokens(rules, obs.gc.w, FALSE, "GC", "closed", obs.gc.q)

Tokens(case, obs) ==
     JudgeCALL(case, obs)
  \cup UNION {JudgeAct(case, obs, i) : i \in Executed(case, obs)}
  \cup JudgeRET(case, obs)
  \cup UNION {JudgeNEXT(case, obs, k) : k \in 1..Len(obs.nexts)}
  \cup UNION {JudgeCLOSE(case, obs, j) : j \in 1..Len(obs.closes)}
  \cup JudgeGC(case, obs)
  \cup (IF Len(obs.stray) > 0 THEN {Tr("STRAY", "event")} ELSE {})

\* final = the request is over (Missing cannot be judged before: the warning may still come)
Failing(case, obs, final) ==
  LET ts == Tokens(case, obs)
      rule == {t \in ts : t.fam = "rule"}
      need == {t \in ts : t.fam = "need"}
      warn == {t \in ts : t.fam = "warn"}
  IN {F("Transparency", t.at, t.d) : t \in {x \in ts : x.fam = "Transparency"}}
  \cup (IF final THEN {F("Missing", t.at, t.d) : t \in {x \in need : ~\E u \in warn : u.q >= x.q /\ u.c = x.c}} ELSE {})
  \cup {F("FalseAlarm", u.at, u.d) : u \in {x \in warn : ~\E r \in rule : r.q <= x.q /\ (r.c = ANY \/ r.c = x.c)}}

Fam(fs, fam) == {f \in fs : f.fam = fam}
=============================================================================
