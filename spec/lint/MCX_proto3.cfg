CONSTANTS
  Mutant = "none"
  MaxLen = 3
  Family = "proto"
  Deep = TRUE
  Alpha = "full"
  Cases <- Tables
INIT MCInit
NEXT NoNext
INVARIANT ExportCase
