CONSTANTS
  Mutant = "none"
  MaxLen = 3
  Family = "proto"
  Deep = TRUE
  Cases <- AllCases
INIT Init
NEXT NoNext
INVARIANT ExportCase
