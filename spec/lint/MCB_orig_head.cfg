CONSTANTS
  Mutant = "orig_head"
  MaxLen = 2
  Family = "endtab"
  Deep = FALSE
  Cases <- AllCases
SPECIFICATION Spec
INVARIANT Transparency
INVARIANT WarnedWhenBroken
INVARIANT SilentWhenCompliant
INVARIANT SentMatches
