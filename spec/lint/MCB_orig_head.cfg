CONSTANTS
  Mutant = "orig_head"
  MaxLen = 2
  Family = "endtab"
  Deep = FALSE
  Alpha = "full"
  Cases <- Tables
SPECIFICATION MCSpec
INVARIANT Transparency
INVARIANT WarnedWhenBroken
INVARIANT SilentWhenCompliant
INVARIANT SentMatches
