------------------------------ MODULE LintImpl ------------------------------
(* TLC: all behaviours of the implementation-shaped monitor model (LintModel!Step) over a bounded case  *)
(* universe, checked against the contract (LintContract!Failing) in every reachable state, i.e. for     *)
(* every prefix of every request, plus action properties and liveness.                                  *)
EXTENDS LintModel

CONSTANT Cases
VARIABLES case, s
vars == <<case, s>>
Init == case \in Cases /\ s = S0
Next == s.phase # "done" /\ s' = Step(case, s) /\ UNCHANGED case
NoNext == FALSE /\ UNCHANGED vars
Spec == Init /\ [][Next]_vars /\ WF_vars(Next)

\* ---- safety: the contract holds in every reachable state (every prefix of every request; a warning that is
\*      still owed is judged when the request is over)
Fails == Failing(case, s.obs, s.phase = "done")
Transparency == Fam(Fails, "Transparency") = {}
WarnedWhenBroken == Fam(Fails, "Missing") = {}
SilentWhenCompliant == Fam(Fails, "FalseAlarm") = {}
\* the monitor's own accounting agrees with what crossed it
SentMatches == s.sent = SentW(case, s.obs, 1, Len(s.obs.acts)) + SentY(s.obs, 1, Len(s.obs.nexts))
\* ---- action properties
RECURSIVE TopLog(_, _)
TopLog(acts, i) == IF i > Len(acts) THEN <<>> ELSE acts[i].fwd \o TopLog(acts, i + 1)
ServerSideAppendOnly == [][IsPrefixOf(TopLog(s.obs.acts, 1), TopLog(s'.obs.acts, 1))]_vars
ClosedForGood == [][s.closed => s'.closed]_vars
HeadersSetForGood == [][s.hset # <<>> => s'.hset # <<>>]_vars
WarningsAppendOnly == [][Len(s'.obs.acts) >= Len(s.obs.acts) /\ Len(s'.obs.nexts) >= Len(s.obs.nexts) /\ Len(s'.obs.closes) >= Len(s.obs.closes)]_vars
\* ---- liveness
Terminates == <>(s.phase = "done")
\* every close() the server makes reaches an iterable that has close()
CloseReaches == [](s.phase = "done" => \A j \in 1..Len(s.obs.closes) : s.obs.closes[j].appcloses = (IF case.ret = "gen" THEN 1 ELSE 0))
\* an iterable that was handed to the server and never closed is reported when it is collected
UnclosedReported == [](s.phase = "done" /\ s.obs.gc.ran /\ Len(s.obs.closes) = 0 => Len(s.obs.gc.w) > 0)

ExportCase == PrintT(ToJson(case))
=============================================================================
