CONSTANTS
  Mutant = "no_str_warning"
  MaxLen = 2
  Family = "proto"
  Deep = FALSE
  Alpha = "full"
  Cases <- Tables
SPECIFICATION MCSpec
INVARIANT Transparency
INVARIANT WarnedWhenBroken
INVARIANT SilentWhenCompliant
INVARIANT SentMatches
