CONSTANTS
  Mutant = "none"
  MaxLen = 2
  Family = "tables"
  Deep = FALSE
  Cases <- AllCases
INIT Init
NEXT NoNext
INVARIANT ExportCase
