CONSTANTS
  Mutant = "no_input_close_warning"
  MaxLen = 2
  Family = "iotab"
  Deep = FALSE
  Cases <- AllCases
SPECIFICATION Spec
INVARIANT Transparency
INVARIANT WarnedWhenBroken
INVARIANT SilentWhenCompliant
INVARIANT SentMatches
