CONSTANTS
  Mutant = "no_input_close_warning"
  MaxLen = 2
  Family = "iotab"
  Deep = FALSE
  Alpha = "full"
  Cases <- Tables
SPECIFICATION MCSpec
INVARIANT Transparency
INVARIANT WarnedWhenBroken
INVARIANT SilentWhenCompliant
INVARIANT SentMatches
