CONSTANTS
  Mutant = "no_etag_check"
  MaxLen = 2
  Family = "srtab"
  Deep = FALSE
  Cases <- AllCases
SPECIFICATION Spec
INVARIANT Transparency
INVARIANT WarnedWhenBroken
INVARIANT SilentWhenCompliant
INVARIANT SentMatches
