CONSTANTS
  Mutant = "none"
  MaxLen = 5
  Family = "proto"
  Deep = FALSE
  Alpha = "small"
  Cases <- Tables
SPECIFICATION MCSpec
INVARIANT Transparency
INVARIANT WarnedWhenBroken
INVARIANT SilentWhenCompliant
INVARIANT SentMatches
PROPERTY ServerSideAppendOnly
PROPERTY ClosedForGood
PROPERTY HeadersSetForGood
PROPERTY WarningsAppendOnly
PROPERTY Terminates
PROPERTY CloseReaches
PROPERTY UnclosedReported
