------------------------------- MODULE MCLint -------------------------------
(* Bounded case universe for LintImpl: five families, each crossing the dimensions that interact.    *)
(*  Proto   every script of <= MaxLen protocol actions (start_response variants, write, yield, raise) *)
(*          x every cut x return kind x server pattern x method                                       *)
(*  SRTab   one start_response call for every (status form, header list form, exc_info form)          *)
(*  EnvTab  every environ defect combination in front of a compliant application                      *)
(*  IOTab   every wsgi.input / wsgi.errors call (and pairs of them), inside the call and the iterable  *)
(*  EndTab  every (status class, Content-Length / entity header form, body form, method, server       *)
(*          pattern) for the checks made when the response ends                                       *)
EXTENDS LintImpl

CONSTANTS MaxLen, Family, Deep, Alpha

S(v) == [ty |-> "s", v |-> v]
B(v) == [ty |-> "b", v |-> v]
I(v) == [ty |-> "i", v |-> v]
ST200 == S(<<50, 48, 48, 32, 79, 75>>)
ST404 == S(<<52, 48, 52, 32, 78, 111, 116, 32, 70, 111, 117, 110, 100>>)
ST999 == S(<<57, 57, 57, 32, 88>>)
ST304 == S(<<51, 48, 52, 32, 78, 111, 116, 32, 77, 111, 100, 105, 102, 105, 101, 100>>)
ST204 == S(<<50, 48, 52, 32, 78, 111, 32, 67, 111, 110, 116, 101, 110, 116>>)
ST100 == S(<<49, 48, 48, 32, 67, 111, 110, 116, 105, 110, 117, 101>>)
STnoreason == S(<<50, 48, 48>>)
ST2digit == S(<<50, 48, 32, 79, 75>>)
ST4digit == S(<<50, 48, 48, 48, 32, 79, 75>>)
STnospace == S(<<50, 48, 48, 79, 75>>)
STlow == S(<<48, 57, 57, 32, 88>>)
STalpha == S(<<97, 98, 99, 32, 100, 101, 102>>)
STempty == S(<<>>)
STtrail == S(<<50, 48, 48, 32>>)
STlead == S(<<32, 50, 48, 48, 32, 79, 75>>)
STplus == S(<<43, 50, 48, 32, 79, 75>>)
STtab == S(<<50, 48, 48, 9, 79, 75>>)
nCT == <<67, 111, 110, 116, 101, 110, 116, 45, 84, 121, 112, 101>>
nETag == <<69, 84, 97, 103>>
nLoc == <<76, 111, 99, 97, 116, 105, 111, 110>>
nCL == <<67, 111, 110, 116, 101, 110, 116, 45, 76, 101, 110, 103, 116, 104>>
nStatus == <<115, 84, 97, 84, 117, 115>>
nExp == <<69, 120, 112, 105, 114, 101, 115>>
nAllow == <<65, 108, 108, 111, 119>>
nX == <<88, 45, 65>>
vText == <<116, 101, 120, 116, 47, 112, 108, 97, 105, 110>>
vQ == <<34, 97, 34>>
vWQ == <<87, 47, 34, 97, 34>>
vU == <<97>>
vwQ == <<119, 47, 34, 97, 34>>
vE == <<>>
v1Q == <<34>>
vAbs == <<104, 116, 116, 112, 58, 47, 47, 104, 47, 112>>
vRelP == <<47, 112>>
vRel == <<112>>
vNet == <<47, 47, 104, 47, 112>>
vMail == <<109, 97, 105, 108, 116, 111, 58, 120>>
v0 == <<48>>
v2 == <<50>>
v5 == <<53>>
vAbc == <<97, 98, 99>>
vLF == <<97, 10, 98>>
vDate == <<120>>
STbytes == B(<<50, 48, 48, 32, 79, 75>>)
STint == I(<<2, 0, 0>>)

H(n, v) == [ty |-> "tuple", f |-> <<S(n), S(v)>>]
HL(items) == [ty |-> "list", items |-> items]
A0 == [k |-> "", st |-> S(<<>>), hd |-> HL(<<>>), x |-> "none", d |-> NoDatum, m |-> "", args |-> <<>>]
SRa(st, hd, x) == [A0 EXCEPT !.k = "SR", !.st = st, !.hd = hd, !.x = x]
Wa(d) == [A0 EXCEPT !.k = "W", !.d = d]
Ya(d) == [A0 EXCEPT !.k = "Y", !.d = d]
INa(m, args) == [A0 EXCEPT !.k = "IN", !.m = m, !.args = args]
ERRa(m, d) == [A0 EXCEPT !.k = "ERR", !.m = m, !.d = d]
RAISEa == [A0 EXCEPT !.k = "RAISE"]

GoodEnv(method) == [sub |-> FALSE, missing |-> <<>>, ver |-> <<1, 0>>, script |-> <<>>, path |-> <<47, 112>>, method |-> method]
Srv(take, closes, after) == [take |-> take, closes |-> closes, after |-> after]
FullSrv == Srv(99, 1, FALSE)
Case(env, ret, cut, script, srv) == [env |-> env, ret |-> ret, cut |-> cut, script |-> script, srv |-> srv]

AB == B(<<97, 98>>)
\* ---------------------------------------------------------------- Proto
SR200 == SRa(ST200, HL(<<>>), "none")
ProtoActs == IF Alpha = "small"
             THEN { SRa(ST200, HL(<<H(nCL, v2)>>), "none"), SRa(ST304, HL(<<H(nETag, vQ)>>), "none"), SRa(ST404, HL(<<>>), "tuple"),
                    Wa(AB), Ya(AB), Ya(S(<<97>>)), RAISEa }
             ELSE { SR200, SRa(ST200, HL(<<H(nCL, v2)>>), "none"), SRa(ST304, HL(<<H(nETag, vQ)>>), "none"),
                    SRa(ST204, HL(<<>>), "none"), SRa(ST404, HL(<<>>), "tuple"),
                    Wa(AB), Wa(S(<<97, 98>>)), Ya(AB), Ya(B(<<>>)), Ya(S(<<97>>)), RAISEa }
WellShaped(sc, c) == \A i \in 1..Len(sc) :
   /\ (sc[i].k = "Y" => i > c)
   /\ (sc[i].k = "W" => \E j \in 1..(i - 1) : sc[j].k = "SR")
   /\ (sc[i].k = "RAISE" => i = Len(sc))
StrShaped(sc, c) == \A i \in (c + 1)..Len(sc) : sc[i].k = "Y" /\ sc[i].d.ty = "s" /\ Len(sc[i].d.v) = 1
Srvs == IF Deep THEN {FullSrv, Srv(99, 0, FALSE), Srv(1, 1, FALSE), Srv(0, 1, FALSE), Srv(99, 2, FALSE), Srv(99, 1, TRUE), Srv(1, 0, FALSE)}
        ELSE {FullSrv, Srv(99, 0, FALSE), Srv(1, 1, TRUE)}
Methods == IF Deep THEN {"GET", "HEAD"} ELSE {"GET"}
Shaped == { p \in SeqsUpTo(ProtoActs, MaxLen) \X (0..MaxLen) : p[2] <= Len(p[1]) /\ WellShaped(p[1], p[2]) }
\* (not built as one set: TLC refuses sets of more than a million elements)
ProtoInit(c) == \E p \in Shaped : \E ret \in {"gen", "iter", "str"} : \E me \in Methods : \E sv \in Srvs :
                  /\ (ret = "str" => StrShaped(p[1], p[2]))
                  /\ c = Case(GoodEnv(me), ret, p[2], p[1], sv)

\* ---------------------------------------------------------------- SRTab
Statuses == { ST200, ST404, ST999, STnoreason, ST2digit, ST4digit, STnospace, STlow, STalpha, STempty, STtrail, STlead, STplus,
              STtab, STbytes, STint }
HeaderLists == {
  HL(<<>>), HL(<<H(nCT, vText)>>),
  HL(<<H(nETag, vQ)>>), HL(<<H(nETag, vWQ)>>), HL(<<H(nETag, vU)>>), HL(<<H(nETag, vwQ)>>), HL(<<H(nETag, vE)>>), HL(<<H(nETag, v1Q)>>),
  HL(<<H(nETag, vU), H(nETag, vQ)>>), HL(<<H(nETag, vQ), H(nETag, vU)>>),
  HL(<<H(nLoc, vAbs)>>), HL(<<H(nLoc, vRelP)>>), HL(<<H(nLoc, vRel)>>), HL(<<H(nLoc, vNet)>>), HL(<<H(nLoc, vMail)>>), HL(<<H(nLoc, vE)>>),
  HL(<<H(nStatus, vU)>>), HL(<<H(nCT, vText), H(nETag, vU), H(nLoc, vRelP)>>), HL(<<H(nX, vLF)>>),
  [ty |-> "tuple", items |-> <<H(nCT, vText)>>],
  HL(<<[ty |-> "list", f |-> <<S(nCT), S(vText)>>]>>),
  HL(<<[ty |-> "list", f |-> <<S(nETag), S(vU)>>]>>),
  HL(<<[ty |-> "tuple", f |-> <<S(nX), S(vU), S(vU)>>]>>), HL(<<[ty |-> "tuple", f |-> <<S(nX)>>]>>),
  HL(<<[ty |-> "tuple", f |-> <<S(nX), B(vU)>>]>>), HL(<<[ty |-> "tuple", f |-> <<B(nX), S(vU)>>]>>),
  HL(<<[ty |-> "tuple", f |-> <<I(<<7>>), S(vU)>>]>>), HL(<<[ty |-> "tuple", f |-> <<S(nX), I(<<7>>)>>]>>),
  HL(<<H(nCT, vText), [ty |-> "tuple", f |-> <<S(nX), S(vU), S(vU)>>], H(nETag, vU)>>) }
SRTabCases == { Case(GoodEnv("GET"), "gen", 1, <<SRa(st, hd, x), Ya(AB)>>, FullSrv) : st \in Statuses, hd \in HeaderLists, x \in {"none", "tuple", "bad"} }

\* ---------------------------------------------------------------- EnvTab
MissingSets == {<<>>} \cup {<<k>> : k \in RequiredKeys \cup {"wsgi.url_scheme", "SCRIPT_NAME", "PATH_INFO"}}
                \cup {<<"SERVER_NAME", "wsgi.run_once">>, <<"REQUEST_METHOD", "wsgi.input">>, <<"wsgi.version", "wsgi.errors">>}
Envs == { [sub |-> sb, missing |-> mi, ver |-> ve, script |-> sn, path |-> pa, method |-> "GET"] :
            sb \in BOOLEAN, mi \in MissingSets, ve \in {<<1, 0>>, <<0, 7>>, <<1, 0, 0>>}, sn \in {<<>>, <<47, 115>>, <<115>>},
            pa \in {<<47, 112>>, <<112>>, <<>>} }
EnvTabCases == { Case(e, "gen", 1, <<SR200, Ya(AB)>>, FullSrv) : e \in Envs }

\* ---------------------------------------------------------------- IOTab
IOActs == { INa("read", <<>>), INa("read", <<2>>), INa("read", <<1, 2>>), INa("readline", <<>>), INa("readline", <<2>>),
            INa("readline", <<1, 2>>), INa("readlines", <<>>), INa("readlines", <<2>>), INa("iter", <<>>), INa("close", <<>>),
            ERRa("write", S(<<101>>)), ERRa("write", B(<<101>>)), ERRa("writelines", S(<<101>>)), ERRa("flush", NoDatum),
            ERRa("close", NoDatum) }
IOTabCases == { Case(GoodEnv("GET"), "gen", 2, <<a, SR200, Ya(AB)>>, FullSrv) : a \in IOActs }
         \cup { Case(GoodEnv("GET"), "gen", 1, <<SR200, a, Ya(AB)>>, FullSrv) : a \in IOActs }
         \cup { Case(GoodEnv("GET"), "iter", 2, <<a, b, SR200, Ya(AB)>>, FullSrv) : a \in IOActs, b \in IOActs }

\* ---------------------------------------------------------------- EndTab
EndStatuses == {ST200, ST404, ST304, ST204, ST100}
EndHeaders == { HL(<<>>), HL(<<H(nCL, v0)>>), HL(<<H(nCL, v2)>>), HL(<<H(nCL, v5)>>), HL(<<H(nCL, vAbc)>>), HL(<<H(nCT, vText)>>),
                HL(<<H(nExp, vDate)>>), HL(<<H(nAllow, vU), H(nETag, vQ)>>), HL(<<H(nCL, v2), H(nCL, v5)>>) }
Bodies == { <<>>, <<Ya(AB)>>, <<Wa(AB), Ya(B(<<>>))>>, <<Ya(AB), Ya(AB)>> }
          \cup (IF Deep THEN { <<Ya(B(<<>>))>>, <<Ya(S(<<97, 98>>))>>, <<Wa(AB)>> } ELSE {})
EndSrvs == {FullSrv, Srv(1, 1, FALSE), Srv(99, 0, FALSE)} \cup (IF Deep THEN {Srv(0, 1, FALSE), Srv(99, 2, FALSE), Srv(99, 1, TRUE)} ELSE {})
EndTabCases == { Case(GoodEnv(me), ret, 1, <<SRa(st, hd, "none")>> \o bo, sv) :
                   me \in {"GET", "HEAD"}, ret \in {"gen", "iter"}, st \in EndStatuses, hd \in EndHeaders, bo \in Bodies, sv \in EndSrvs }

Tables == CASE Family = "srtab" -> SRTabCases
            [] Family = "envtab" -> EnvTabCases
            [] Family = "iotab" -> IOTabCases
            [] Family = "endtab" -> EndTabCases
            [] Family = "proto" -> {}
            [] OTHER -> SRTabCases \cup EnvTabCases \cup IOTabCases \cup EndTabCases
MCInit == /\ s = S0
          /\ \/ case \in Tables
             \/ Family \in {"proto", "all"} /\ ProtoInit(case)
MCSpec == MCInit /\ [][Next]_vars /\ WF_vars(Next)
=============================================================================
