CONSTANTS
  Mutant = "alter_item"
  MaxLen = 2
  Family = "proto"
  Deep = FALSE
  Cases <- AllCases
SPECIFICATION Spec
INVARIANT Transparency
INVARIANT WarnedWhenBroken
INVARIANT SilentWhenCompliant
INVARIANT SentMatches
