CONSTANTS
  Mutant = "drop_exc_info"
  MaxLen = 2
  Family = "proto"
  Deep = FALSE
  Cases <- AllCases
SPECIFICATION Spec
INVARIANT Transparency
INVARIANT WarnedWhenBroken
INVARIANT SilentWhenCompliant
INVARIANT SentMatches
