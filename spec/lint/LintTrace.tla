------------------------------ MODULE LintTrace ------------------------------
(* Trace judge of X05.  One line = one request through the real LintMiddleware:                      *)
(*   [t, i, op = "req", case, obs]      (vocabulary: LintContract.tla; recorder: harness/lint.py)     *)
(* Verdicts: every failing clause of LintContract!Failing(case, obs), one reject record each          *)
(*   clause = "<family>:<step>:<detail>", e.g. Transparency:IN:readlines, Missing:SR:StatusInvalid,   *)
(*   FalseAlarm:CLOSE:head-content-length.                                                            *)
(* Drift (never a verdict): the observation differs from what the implementation-shaped model         *)
(* (LintModel!Run) computes for the same case -- warning tags and their order, exception classes,     *)
(* how far the request got, object identity of the forwarded arguments.                               *)
EXTENDS LintModel, IOUtils

Lines == ndJsonDeserialize(IOEnv.TRACE_FILE)
VARIABLES l
vars == <<l>>

Tags(w) == [i \in 1..Len(w) |-> w[i].g]
Clz(w) == [i \in 1..Len(w) |-> w[i].c]
\* first difference between the model's observation m and the recorded one o ("" if none)
RECURSIVE ActDiff(_, _, _)
ActDiff(m, o, i) ==
  IF i > Len(m.acts) \/ i > Len(o.acts) THEN ""
  ELSE IF Tags(m.acts[i].w) # Tags(o.acts[i].w) \/ Clz(m.acts[i].w) # Clz(o.acts[i].w) THEN "warnings of an action"
  ELSE IF m.acts[i].exc # o.acts[i].exc THEN "exception class seen by the application"
  ELSE IF Len(m.acts[i].fwd) # Len(o.acts[i].fwd) THEN "events forwarded during an action"
  ELSE IF \E j \in 1..Len(o.acts[i].fwd) : o.acts[i].fwd[j].k = "SR" /\ ~o.acts[i].fwd[j].same THEN "start_response arguments re-created"
  ELSE ActDiff(m, o, i + 1)
Drift(case, o) ==
  LET m == Run(case) IN
  IF Tags(m.call.w) # Tags(o.call.w) \/ Clz(m.call.w) # Clz(o.call.w) THEN "warnings of the environ check"
  ELSE IF m.call.exc # o.call.exc \/ m.call.entered # o.call.entered THEN "exception of the environ check"
  ELSE IF m.call.entered /\ (m.call.envdiff # o.call.envdiff \/ m.call.envadded # o.call.envadded) THEN "environ keys replaced / added by the monitor"
  ELSE IF Len(m.acts) # Len(o.acts) THEN "number of application actions executed"
  ELSE IF ActDiff(m, o, 1) # "" THEN ActDiff(m, o, 1)
  ELSE IF Tags(m.ret.w) # Tags(o.ret.w) \/ m.ret.exc # o.ret.exc THEN "return of the application call"
  ELSE IF Len(m.nexts) # Len(o.nexts) THEN "number of next() calls"
  ELSE IF \E k \in 1..Len(m.nexts) : Tags(m.nexts[k].w) # Tags(o.nexts[k].w) \/ m.nexts[k].r # o.nexts[k].r \/ m.nexts[k].cls # o.nexts[k].cls
       THEN "outcome or warnings of a next() call"
  ELSE IF Len(m.closes) # Len(o.closes) THEN "number of close() calls"
  ELSE IF \E j \in 1..Len(m.closes) : Tags(m.closes[j].w) # Tags(o.closes[j].w) \/ Clz(m.closes[j].w) # Clz(o.closes[j].w)
       THEN "warnings of close()"
  ELSE IF Tags(m.gc.w) # Tags(o.gc.w) THEN "warnings at garbage collection"
  ELSE ""

Clause(f) == f.fam \o ":" \o f.at \o ":" \o f.d
RECURSIVE PrintAll(_, _)
PrintAll(fs, x) == IF fs = {} THEN TRUE
                   ELSE LET f == CHOOSE g \in fs : TRUE IN
                        PrintT(ToJson([reject |-> 1, t |-> x.t, i |-> x.i, clause |-> Clause(f)])) /\ PrintAll(fs \ {f}, x)

Init == l = 1
Next == /\ l <= Len(Lines)
        /\ LET x == Lines[l] IN
           IF x.op # "req" THEN TRUE
           ELSE LET fs == Failing(x.case, x.obs, TRUE)
                    d == IF fs = {} THEN Drift(x.case, x.obs) ELSE ""
                IN /\ PrintAll(fs, x)
                   /\ IF d = "" THEN TRUE ELSE PrintT(ToJson([drift |-> 1, t |-> x.t, i |-> x.i, what |-> d]))
        /\ l' = l + 1
Done == PrintT(ToJson([judged |-> Len(Lines)])) /\ TLCGet("generated") >= 0
=============================================================================
