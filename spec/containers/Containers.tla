----------------------------- MODULE Containers -----------------------------
(* The documented abstract model of werkzeug's multi-value containers (C08).               *)
(*                                                                                          *)
(*   MultiDict family : sequence of entries <<key, values>>; keys unique, in first-         *)
(*                      insertion order (a dict of lists); values in insertion order.       *)
(*   Headers          : sequence of pairs <<name, value>>; names compare case-insensitively.*)
(*   HeaderSet        : sequence of items, unique up to letter case (an ordered set).       *)
(*   CombinedMultiDict: read-through view over a list of MultiDict states.                  *)
(*   EnvironHeaders   : read-only view of an environ (sequence of <<KEY, value>>).          *)
(*                                                                                          *)
(* Keys, names, items and values are sequences of code points (ASCII in the drivers).       *)
(* Every public operation is the pure operator  Apply(kind, st, name, a) = [st, ret];       *)
(* every public read is  Read(kind, st, name, a) = ret.  The bounded model (MCContainers),  *)
(* the export for the spec->code replay and the trace judge (ContainersTrace) all use these *)
(* two operators, so there is exactly one transcription of the documentation.               *)
(*                                                                                          *)
(* A return value is a tagged record [tag, v]; exceptions are [tag |-> "exc", v |-> class]. *)
EXTENDS Bytes, Integers, FiniteSets

\* ------------------------------------------------------------------ text helpers
IsUp(c)  == c >= 65 /\ c <= 90
IsLow(c) == c >= 97 /\ c <= 122
Lower(s) == [i \in 1..Len(s) |-> IF IsUp(s[i]) THEN s[i] + 32 ELSE s[i]]
Upper(s) == [i \in 1..Len(s) |-> IF IsLow(s[i]) THEN s[i] - 32 ELSE s[i]]
\* str.title(): a cased letter is upper-cased after a non-letter, lower-cased after a letter
Title(s) == [i \in 1..Len(s) |->
               LET after == i > 1 /\ (IsUp(s[i-1]) \/ IsLow(s[i-1])) IN
               IF after THEN (IF IsUp(s[i]) THEN s[i] + 32 ELSE s[i])
               ELSE (IF IsLow(s[i]) THEN s[i] - 32 ELSE s[i])]
Repl(s, x, y) == [i \in 1..Len(s) |-> IF s[i] = x THEN y ELSE s[i]]
IsDigits(v) == Len(v) > 0 /\ \A i \in 1..Len(v) : v[i] >= 48 /\ v[i] <= 57
RECURSIVE DecVal(_)
DecVal(v) == IF v = <<>> THEN 0 ELSE DecVal(SubSeq(v, 1, Len(v) - 1)) * 10 + (v[Len(v)] - 48)
HasNL(v) == \E i \in 1..Len(v) : v[i] = 13 \/ v[i] = 10

Last(s)  == s[Len(s)]
Front(s) == SubSeq(s, 1, Len(s) - 1)
ToSet(s) == {s[i] : i \in 1..Len(s)}
RECURSIVE Fold(_, _, _)          \* Fold(Op, acc, seq): left fold
Fold(Op(_, _), acc, s) == IF s = <<>> THEN acc ELSE Fold(Op, Op(acc, Head(s)), Tail(s))
\* first index whose element satisfies P, 0 if none
FirstIdx(s, P(_)) == LET S == {i \in 1..Len(s) : P(s[i])} IN
                     IF S = {} THEN 0 ELSE CHOOSE i \in S : \A j \in S : i <= j
\* subsequence of the first occurrences (by key function)
UniqBy(s, K(_)) == LET keep == SelectSeq([i \in 1..Len(s) |-> i], LAMBDA i : \A j \in 1..(i - 1) : K(s[j]) # K(s[i]))
                   IN [m \in 1..Len(keep) |-> s[keep[m]]]

\* Python index / slice arithmetic on a list of length n (0-based, negatives from the end)
PyIdx(i, n)   == IF i < 0 THEN i + n ELSE i
IdxOK(i, n)   == PyIdx(i, n) >= 0 /\ PyIdx(i, n) < n
Clamp(i, n)   == IF i < 0 THEN Max2(i + n, 0) ELSE Min2(i, n)
PySlice(s, i, j) == LET a == Clamp(i, Len(s)) b == Clamp(j, Len(s)) IN
                    IF a < b THEN SubSeq(s, a + 1, b) ELSE <<>>
SliceRepl(s, i, j, new) == LET a == Clamp(i, Len(s)) b == Max2(Clamp(j, Len(s)), Clamp(i, Len(s))) IN
                           SubSeq(s, 1, a) \o new \o SubSeq(s, b + 1, Len(s))
DelAt(s, p)   == SubSeq(s, 1, p - 1) \o SubSeq(s, p + 1, Len(s))      \* p 1-based

\* ------------------------------------------------------------------ return values
RNone     == [tag |-> "none", v |-> <<>>]
RSelf     == [tag |-> "self", v |-> <<>>]
RVal(x)   == [tag |-> "val",  v |-> x]
RInt(n)   == [tag |-> "int",  v |-> n]
RBool(b)  == [tag |-> "bool", v |-> b]
RList(xs) == [tag |-> "list", v |-> xs]                 \* list of values / keys
RInts(ns) == [tag |-> "ints", v |-> ns]
RSet(xs)  == [tag |-> "set",  v |-> xs]                 \* order irrelevant (judged as a set)
RPair(k, x)  == [tag |-> "pair",  v |-> <<k, x>>]
RPairs(ps)   == [tag |-> "pairs", v |-> ps]             \* <<k, v>> ...
RKL(k, xs)   == [tag |-> "kl",    v |-> <<k, xs>>]      \* (key, list)
RKLs(es)     == [tag |-> "kls",   v |-> es]             \* <<k, <<v..>>>> ...
RLists(ls)   == [tag |-> "lists", v |-> ls]             \* list of lists
RNew(ps)     == [tag |-> "new",   v |-> ps]             \* a new container, by its flat pairs / items
RExc(c)      == [tag |-> "exc",   v |-> c]
KeyErr   == RExc("KeyError")
IndexErr == RExc("IndexError")
TypeErr  == RExc("TypeError")
ValueErr == RExc("ValueError")

\* total comparison of a recorded return value with a model value (never throws for
\* well-formed records: the tag decides the shape of v)
RetEq(a, b) == /\ a.tag = b.tag
               /\ IF a.tag = "set" THEN ToSet(a.v) = ToSet(b.v) /\ Len(a.v) = Len(b.v)
                  ELSE a.v = b.v

\* the argument `src` of constructors / update / extend: sequence of <<key, <<values>>>>
\* (a dict of lists, a MultiDict, ...; a dict or a pair list has one value per element).
Flatten(src) == Concat([i \in 1..Len(src) |-> [j \in 1..Len(src[i][2]) |-> <<src[i][1], src[i][2][j]>>]])

\* =================================================================== MultiDict family
MdPos(st, k)  == FirstIdx(st, LAMBDA e : e[1] = k)
MdHas(st, k)  == MdPos(st, k) # 0
MdVals(st, k) == IF MdHas(st, k) THEN st[MdPos(st, k)][2] ELSE <<>>
MdPut(st, k, vs) == IF MdHas(st, k) THEN [st EXCEPT ![MdPos(st, k)] = <<k, vs>>] ELSE Append(st, <<k, vs>>)
MdDel(st, k)  == SelectSeq(st, LAMBDA e : e[1] # k)
MdAdd(st, p)  == MdPut(st, p[1], MdVals(st, p[1]) \o <<p[2]>>)
MdFromPairs(ps) == Fold(MdAdd, <<>>, ps)
\* entries whose value list is empty can only be created with setlist(k, []) /
\* setlistdefault(k, []); the documentation does not say whether such a key "exists",
\* so reads are accepted in both views (see ReadOK): with and without those entries.
Purge(st)     == SelectSeq(st, LAMBDA e : e[2] # <<>>)
MdItemsMulti(st) == Flatten(st)
MdItems(st)   == LET p == Purge(st) IN [i \in 1..Len(p) |-> <<p[i][1], p[i][2][1]>>]
MdKeys(st)    == [i \in 1..Len(st) |-> st[i][1]]
MdListVals(st) == [i \in 1..Len(st) |-> st[i][2]]
Conv(vs)      == LET g == SelectSeq(vs, IsDigits) IN [i \in 1..Len(g) |-> DecVal(g[i])]
\* getlist(key, type=int): "all items will be converted ... if a ValueError is raised, the value is
\* omitted": the values whose text is a decimal integer, converted, in order
TypedList(vs) == Conv(vs)
\* get(key, default, type=int): the first value converted, the default when there is none or it fails
TypedGet(vals, dflt) == IF vals # <<>> /\ IsDigits(vals[1]) THEN RInt(DecVal(vals[1])) ELSE dflt

MdMutators == {"setitem", "delitem", "add", "setlist", "setdefault", "setlistdefault", "update",
               "ior", "pop", "popitem", "poplist", "popitemlist", "clear", "add_file"}

MdApply(st, name, a) ==
  LET k == a.k  has == MdHas(st, k)  vals == MdVals(st, k) IN
  CASE name = "setitem" -> [st |-> MdPut(st, k, <<a.v>>), ret |-> RNone]
    [] name \in {"add", "add_file"} -> [st |-> MdAdd(st, <<k, a.v>>), ret |-> RNone]
    [] name = "delitem" -> IF has THEN [st |-> MdDel(st, k), ret |-> RNone] ELSE [st |-> st, ret |-> KeyErr]
    [] name = "setlist" -> [st |-> MdPut(st, k, a.vs), ret |-> RNone]
    [] name = "setdefault" ->
         IF ~has THEN [st |-> MdPut(st, k, <<a.v>>), ret |-> RVal(a.v)]
         ELSE IF vals = <<>> THEN [st |-> st, ret |-> KeyErr]
         ELSE [st |-> st, ret |-> RVal(vals[1])]
    [] name = "setlistdefault" ->
         IF ~has THEN [st |-> MdPut(st, k, a.vs), ret |-> RList(a.vs)]
         ELSE [st |-> st, ret |-> RList(vals)]
    [] name = "update" -> [st |-> Fold(MdAdd, st, Flatten(a.src)), ret |-> RNone]
    [] name = "ior"    -> [st |-> Fold(MdAdd, st, Flatten(a.src)), ret |-> RSelf]
    [] name = "or"     -> IF a.form \in {"pairs", "headers"} THEN [st |-> st, ret |-> TypeErr]    \* only mappings
                          ELSE [st |-> st, ret |-> RNew(MdItemsMulti(Fold(MdAdd, st, Flatten(a.src))))]
    [] name = "pop" ->
         IF has /\ vals # <<>> THEN [st |-> MdDel(st, k), ret |-> RVal(vals[1])]
         ELSE [st |-> MdDel(st, k), ret |-> IF a.hasdef THEN RVal(a.v) ELSE KeyErr]
    [] name = "popitem" ->
         IF st = <<>> THEN [st |-> st, ret |-> KeyErr]
         ELSE [st |-> Front(st), ret |-> IF Last(st)[2] = <<>> THEN KeyErr ELSE RPair(Last(st)[1], Last(st)[2][1])]
    [] name = "poplist" -> [st |-> MdDel(st, k), ret |-> RList(vals)]
    [] name = "popitemlist" ->
         IF st = <<>> THEN [st |-> st, ret |-> KeyErr]
         ELSE [st |-> Front(st), ret |-> RKL(Last(st)[1], Last(st)[2])]
    [] name = "clear" -> [st |-> <<>>, ret |-> RNone]
    [] OTHER -> [st |-> st, ret |-> RExc("?unknown-op")]

\* immutable variants: every mutator raises TypeError and changes nothing; `|` builds a new dict
ImmApply(st, name, a) ==
  IF name \in MdMutators THEN [st |-> st, ret |-> TypeErr] ELSE MdApply(st, name, a)

\* reads of the MultiDict family.  a.k = probed key, a.v = default
MdRead(st, name, a) ==
  LET vals == MdVals(st, a.k) IN
  CASE name = "items_multi" -> RPairs(MdItemsMulti(st))
    [] name = "items"       -> RPairs(MdItems(st))
    [] name = "to_dict"     -> RPairs(MdItems(st))
    [] name = "values"      -> RList([i \in 1..Len(MdItems(st)) |-> MdItems(st)[i][2]])
    [] name \in {"keys", "iter"} -> RList(MdKeys(st))
    [] name \in {"lists", "to_dict_lists"} -> RKLs(st)
    [] name = "listvalues"  -> RLists(MdListVals(st))
    [] name = "len"         -> RInt(Len(st))
    [] name = "getlist"     -> RList(vals)
    [] name = "getlist_int" -> RInts(TypedList(vals))
    [] name = "getlist_str" -> RList(vals)                      \* type=str converts every (str) value to itself
    [] name = "get_int_default" -> TypedGet(vals, RVal(a.v))
    [] name = "get"         -> IF vals = <<>> THEN RNone ELSE RVal(vals[1])
    [] name = "get_default" -> IF vals = <<>> THEN RVal(a.v) ELSE RVal(vals[1])
    [] name = "get_int"     -> IF vals # <<>> /\ IsDigits(vals[1]) THEN RInt(DecVal(vals[1])) ELSE RNone
    [] name = "getitem"     -> IF vals = <<>> THEN KeyErr ELSE RVal(vals[1])
    [] name = "contains"    -> RBool(MdHas(st, a.k))
    [] OTHER -> RExc("?unknown-read")

\* equality of two dicts of lists (dict.__eq__: same keys, same lists, order irrelevant)
MdEq(s1, s2) == ToSet(s1) = ToSet(s2)

\* =================================================================== CombinedMultiDict
\* D = sequence of MultiDict states, read through in order
CmAllKeys(D)  == UniqBy(Concat([i \in 1..Len(D) |-> MdKeys(D[i])]), LAMBDA x : x)
CmGetList(D, k) == Concat([i \in 1..Len(D) |-> MdVals(D[i], k)])
CmLists(D)    == LET ks == CmAllKeys(D) IN [i \in 1..Len(ks) |-> <<ks[i], CmGetList(D, ks[i])>>]
CmItems(D)    == UniqBy(Concat([i \in 1..Len(D) |-> MdItems(D[i])]), LAMBDA p : p[1])
CmFirst(D, k) == FirstIdx(D, LAMBDA d : MdHas(d, k))       \* first dict that has the key
CmRead(D, name, a) ==
  LET k == a.k  f == CmFirst(D, k) IN
  CASE name = "items_multi" -> RPairs(Concat([i \in 1..Len(D) |-> MdItemsMulti(D[i])]))
    [] name \in {"items", "to_dict"} -> RPairs(CmItems(D))
    [] name = "values"      -> RList([i \in 1..Len(CmItems(D)) |-> CmItems(D)[i][2]])
    [] name \in {"keys", "iter"} -> RSet(CmAllKeys(D))            \* a Python set: no order
    [] name \in {"lists", "to_dict_lists"} -> RKLs(CmLists(D))
    [] name = "listvalues"  -> RLists([i \in 1..Len(CmLists(D)) |-> CmLists(D)[i][2]])
    [] name = "len"         -> RInt(Len(CmAllKeys(D)))
    [] name = "getlist"     -> RList(CmGetList(D, k))
    [] name = "getlist_int" -> RInts(TypedList(CmGetList(D, k)))
    [] name = "getlist_str" -> RList(CmGetList(D, k))
    [] name = "get"         -> IF f = 0 THEN RNone ELSE IF MdVals(D[f], k) = <<>> THEN KeyErr ELSE RVal(MdVals(D[f], k)[1])
    [] name = "get_default" -> IF f = 0 THEN RVal(a.v) ELSE IF MdVals(D[f], k) = <<>> THEN KeyErr ELSE RVal(MdVals(D[f], k)[1])
    [] name = "get_int"     ->      \* the first dict that has the key and whose first value converts
         LET g == FirstIdx(D, LAMBDA d : MdHas(d, k) /\ (MdVals(d, k) = <<>> \/ IsDigits(MdVals(d, k)[1]))) IN
         IF g = 0 THEN RNone ELSE IF MdVals(D[g], k) = <<>> THEN KeyErr ELSE RInt(DecVal(MdVals(D[g], k)[1]))
    [] name = "get_int_default" ->      \* the first dict that has the key and whose first value converts
         LET g == FirstIdx(D, LAMBDA d : MdHas(d, k) /\ (MdVals(d, k) = <<>> \/ IsDigits(MdVals(d, k)[1]))) IN
         IF g = 0 THEN RVal(a.v) ELSE IF MdVals(D[g], k) = <<>> THEN KeyErr ELSE RInt(DecVal(MdVals(D[g], k)[1]))
    [] name = "getitem"     -> IF f = 0 \/ MdVals(D[f], k) = <<>> THEN KeyErr ELSE RVal(MdVals(D[f], k)[1])
    [] name = "contains"    -> RBool(f # 0)
    [] OTHER -> RExc("?unknown-read")
CmState(D) == CmLists(D)          \* the MultiDict a copy() of the view yields

\* =================================================================== Headers
HdPos(st, k)  == FirstIdx(st, LAMBDA p : Lower(p[1]) = Lower(k))
HdHas(st, k)  == HdPos(st, k) # 0
HdVals(st, k) == LET m == SelectSeq(st, LAMBDA p : Lower(p[1]) = Lower(k)) IN [i \in 1..Len(m) |-> m[i][2]]
HdDel(st, k)  == SelectSeq(st, LAMBDA p : Lower(p[1]) # Lower(k))
\* set(): "either appears at the end of the list if there was no entry or replaces the first one"
HdSet(st, k, v) == IF ~HdHas(st, k) THEN Append(st, <<k, v>>)
                   ELSE LET i == HdPos(st, k) IN
                        SubSeq(st, 1, i - 1) \o <<<<k, v>>>> \o HdDel(SubSeq(st, i + 1, Len(st)), k)
HdSetP(st, p)   == HdSet(st, p[1], p[2])
HdAdd(st, p)    == Append(st, p)
HdSetList(st, k, vs) == IF vs = <<>> THEN HdDel(st, k)
                        ELSE HdSet(st, k, vs[1]) \o [i \in 1..Len(vs) - 1 |-> <<k, vs[i + 1]>>]
HdSetListE(st, e) == HdSetList(st, e[1], e[2])
\* update(): "replace headers in this object with items from another headers object"
HdUpdate(st, form, src) ==
  CASE form \in {"pairs", "dict"} -> Fold(HdSetP, st, Flatten(src))
    [] form = "headers" ->       \* src: one element per header line; all lines of a name replace it
         LET ps == Flatten(src) IN
         Fold(LAMBDA s, p : HdSetList(s, p[1], HdVals(ps, p[1])), st, ps)
    [] OTHER -> Fold(HdSetListE, st, src)              \* dict of lists / tuples / sets, MultiDict

HdApply(st, name, a) ==
  LET k == a.k  has == HdHas(st, k)  vals == HdVals(st, k)  n == Len(st) IN
  CASE name \in {"set", "setitem"} -> [st |-> HdSet(st, k, a.v), ret |-> RNone]
    [] name = "add"    -> [st |-> Append(st, <<k, a.v>>), ret |-> RNone]
    [] name = "extend" -> [st |-> st \o Flatten(a.src), ret |-> RNone]
    [] name = "update" -> [st |-> HdUpdate(st, a.form, a.src), ret |-> RNone]
    [] name = "ior"    -> [st |-> HdUpdate(st, a.form, a.src), ret |-> RSelf]
    [] name = "or"     -> IF a.form \in {"pairs", "headers"} THEN [st |-> st, ret |-> TypeErr]
                          ELSE [st |-> st, ret |-> RNew(HdUpdate(st, a.form, a.src))]
    [] name \in {"remove", "delitem"} -> [st |-> HdDel(st, k), ret |-> RNone]
    [] name = "delitem_idx" -> IF IdxOK(a.idx, n) THEN [st |-> DelAt(st, PyIdx(a.idx, n) + 1), ret |-> RNone]
                               ELSE [st |-> st, ret |-> IndexErr]
    [] name = "setitem_idx" -> IF IdxOK(a.idx, n) THEN [st |-> [st EXCEPT ![PyIdx(a.idx, n) + 1] = <<k, a.v>>], ret |-> RNone]
                               ELSE [st |-> st, ret |-> IndexErr]
    \* del h[i:j] / h[i:j] = pairs: the list slice [i:j] (indices clamped, empty when j <= i) is removed /
    \* replaced by the given lines
    [] name = "delitem_slice" -> [st |-> SliceRepl(st, a.idx, a.idx2, <<>>), ret |-> RNone]
    [] name = "setitem_slice" -> [st |-> SliceRepl(st, a.idx, a.idx2, Flatten(a.src)), ret |-> RNone]
    [] name = "pop" -> IF has THEN [st |-> HdDel(st, k), ret |-> RVal(vals[1])]
                       ELSE [st |-> st, ret |-> IF a.hasdef THEN RVal(a.v) ELSE KeyErr]
    [] name = "pop_idx" -> IF IdxOK(a.idx, n) THEN [st |-> DelAt(st, PyIdx(a.idx, n) + 1),
                                                    ret |-> RPair(st[PyIdx(a.idx, n) + 1][1], st[PyIdx(a.idx, n) + 1][2])]
                           ELSE [st |-> st, ret |-> IndexErr]
    [] name \in {"pop_last", "popitem"} -> IF n = 0 THEN [st |-> st, ret |-> IndexErr]
                                          ELSE [st |-> Front(st), ret |-> RPair(Last(st)[1], Last(st)[2])]
    [] name = "setlist" -> [st |-> HdSetList(st, k, a.vs), ret |-> RNone]
    [] name = "setdefault" -> IF has THEN [st |-> st, ret |-> RVal(vals[1])]
                              ELSE [st |-> HdSet(st, k, a.v), ret |-> RVal(a.v)]
    [] name = "setlistdefault" -> IF has THEN [st |-> st, ret |-> RList(vals)]
                                  ELSE [st |-> HdSetList(st, k, a.vs), ret |-> RList(a.vs)]
    [] name = "clear" -> [st |-> <<>>, ret |-> RNone]
    [] OTHER -> [st |-> st, ret |-> RExc("?unknown-op")]

HdLine(p) == p[1] \o <<58, 32>> \o p[2] \o <<13, 10>>
HdRead(st, name, a) ==
  LET vals == HdVals(st, a.k)  n == Len(st) IN
  CASE name \in {"items", "wsgi", "iter"} -> RPairs(st)
    [] name = "items_lower" -> RPairs([i \in 1..n |-> <<Lower(st[i][1]), st[i][2]>>])
    [] name = "keys"        -> RList([i \in 1..n |-> st[i][1]])
    [] name = "keys_lower"  -> RList([i \in 1..n |-> Lower(st[i][1])])
    [] name = "values"      -> RList([i \in 1..n |-> st[i][2]])
    [] name = "len"         -> RInt(n)
    [] name = "str"         -> RVal(Concat([i \in 1..n |-> HdLine(st[i])]) \o <<13, 10>>)
    [] name \in {"getlist", "get_all"} -> RList(vals)
    [] name = "getlist_int" -> RInts(TypedList(vals))
    [] name = "getlist_str" -> RList(vals)                      \* type=str converts every (str) value to itself
    [] name = "get_int_default" -> TypedGet(vals, RVal(a.v))
    [] name = "get"         -> IF vals = <<>> THEN RNone ELSE RVal(vals[1])
    [] name = "get_default" -> IF vals = <<>> THEN RVal(a.v) ELSE RVal(vals[1])
    [] name = "get_int"     -> IF vals # <<>> /\ IsDigits(vals[1]) THEN RInt(DecVal(vals[1])) ELSE RNone
    [] name = "getitem"     -> IF vals = <<>> THEN KeyErr ELSE RVal(vals[1])
    [] name = "contains"    -> RBool(vals # <<>>)
    [] name = "getitem_idx" -> IF IdxOK(a.idx, n) THEN RPair(st[PyIdx(a.idx, n) + 1][1], st[PyIdx(a.idx, n) + 1][2]) ELSE IndexErr
    [] name = "slice"       -> RNew(PySlice(st, a.idx, a.idx2))
    [] OTHER -> RExc("?unknown-read")
HdLowSeq(st) == [i \in 1..Len(st) |-> <<Lower(st[i][1]), st[i][2]>>]
HdLowSet(st) == {<<Lower(st[i][1]), st[i][2]>> : i \in 1..Len(st)}

\* =================================================================== HeaderSet
HsHas(st, x)  == \E i \in 1..Len(st) : Lower(st[i]) = Lower(x)
HsFind(st, x) == FirstIdx(st, LAMBDA y : Lower(y) = Lower(x))
HsAdd(st, x)  == IF HsHas(st, x) THEN st ELSE Append(st, x)
HsDel(st, x)  == SelectSeq(st, LAMBDA y : Lower(y) # Lower(x))
HsFrom(xs)    == Fold(HsAdd, <<>>, xs)
\* item assignment hs[i] = x with the full ordered-set meaning: position i holds x afterwards and x is
\* held once - assigning the member's own name or a case variant of it replaces the spelling in place,
\* assigning the name (or a case variant) of ANOTHER member keeps it at the assigned position and drops
\* the other occurrence, a fresh name simply replaces.  p is the 1-based normalised position.
HsAssignOK(st, i, x) == \A j \in 1..Len(st) : j # i => Lower(st[j]) # Lower(x)      \* no other member equals x
HsAssign(st, p, x) == LET s2   == [st EXCEPT ![p] = x]
                          keep == SelectSeq([j \in 1..Len(s2) |-> j], LAMBDA j : j = p \/ Lower(s2[j]) # Lower(x))
                      IN [m \in 1..Len(keep) |-> s2[keep[m]]]

HsApply(st, name, a) ==
  LET x == a.k  n == Len(st) IN
  CASE name = "add"     -> [st |-> HsAdd(st, x), ret |-> RNone]
    [] name = "update"  -> [st |-> Fold(HsAdd, st, a.vs), ret |-> RNone]
    [] name = "remove"  -> IF HsHas(st, x) THEN [st |-> HsDel(st, x), ret |-> RNone] ELSE [st |-> st, ret |-> KeyErr]
    [] name = "discard" -> [st |-> HsDel(st, x), ret |-> RNone]
    [] name = "clear"   -> [st |-> <<>>, ret |-> RNone]
    [] name = "delitem_idx" -> IF IdxOK(a.idx, n) THEN [st |-> DelAt(st, PyIdx(a.idx, n) + 1), ret |-> RNone]
                               ELSE [st |-> st, ret |-> IndexErr]
    [] name = "setitem_idx" -> IF IdxOK(a.idx, n) THEN [st |-> HsAssign(st, PyIdx(a.idx, n) + 1, x), ret |-> RNone]
                               ELSE [st |-> st, ret |-> IndexErr]
    [] OTHER -> [st |-> st, ret |-> RExc("?unknown-op")]

RECURSIVE JoinCS(_)
JoinCS(xs) == IF xs = <<>> THEN <<>> ELSE IF Len(xs) = 1 THEN xs[1] ELSE xs[1] \o <<44, 32>> \o JoinCS(Tail(xs))
HsRead(st, name, a) ==
  LET n == Len(st) IN
  CASE name = "iter"     -> RList(st)
    [] name = "len"      -> RInt(n)
    [] name = "bool"     -> RBool(n > 0)
    [] name = "str"      -> RVal(JoinCS(st))             \* items are tokens: no quoting
    [] name = "as_set"   -> RSet([i \in 1..n |-> Lower(st[i])])
    [] name = "as_set_case" -> RSet(st)
    [] name = "contains" -> RBool(HsHas(st, a.k))
    [] name = "find"     -> RInt(HsFind(st, a.k) - 1)
    [] name = "index"    -> IF HsHas(st, a.k) THEN RInt(HsFind(st, a.k) - 1) ELSE IndexErr
    [] name = "getitem_idx" -> IF IdxOK(a.idx, n) THEN RVal(st[PyIdx(a.idx, n) + 1]) ELSE IndexErr
    [] OTHER -> RExc("?unknown-read")
HsLowSet(st) == {Lower(st[i]) : i \in 1..Len(st)}

\* =================================================================== environ / EnvironHeaders
HTTPP == <<72, 84, 84, 80, 95>>                                  \* "HTTP_"
CT == <<67,79,78,84,69,78,84,95,84,89,80,69>>                    \* "CONTENT_TYPE"
CL == <<67,79,78,84,69,78,84,95,76,69,78,71,84,72>>              \* "CONTENT_LENGTH"
EnvPos(st, k) == FirstIdx(st, LAMBDA p : p[1] = k)
EnvApply(st, name, a) ==
  CASE name = "env_set" -> [st |-> IF EnvPos(st, a.k) # 0 THEN [st EXCEPT ![EnvPos(st, a.k)] = <<a.k, a.v>>]
                                   ELSE Append(st, <<a.k, a.v>>), ret |-> RNone]
    [] name = "env_del" -> IF EnvPos(st, a.k) # 0 THEN [st |-> SelectSeq(st, LAMBDA p : p[1] # a.k), ret |-> RNone]
                           ELSE [st |-> st, ret |-> KeyErr]
    [] OTHER -> [st |-> st, ret |-> RExc("?unknown-op")]
\* the header lines a WSGI environ denotes, in environ order
EhLine(p) == IF IsPrefixOf(HTTPP, p[1]) /\ p[1] \notin {HTTPP \o CT, HTTPP \o CL}
                THEN <<<<Title(Repl(Drop(p[1], 5), 95, 45)), p[2]>>>>
             ELSE IF p[1] \in {CT, CL} /\ p[2] # <<>> THEN <<<<Title(Repl(p[1], 95, 45)), p[2]>>>>
             ELSE <<>>
EhItems(env) == Concat([i \in 1..Len(env) |-> EhLine(env[i])])
EhKey(name)  == LET u == Repl(Upper(name), 45, 95) IN IF u \in {CT, CL} THEN u ELSE HTTPP \o u
EhRead(env, name, a) ==
  LET it == EhItems(env)  p == EnvPos(env, EhKey(a.k)) IN
  CASE name \in {"items", "iter", "wsgi"} -> RPairs(it)
    [] name = "len"      -> RInt(Len(it))
    [] name = "keys"     -> RList([i \in 1..Len(it) |-> it[i][1]])
    [] name = "values"   -> RList([i \in 1..Len(it) |-> it[i][2]])
    [] name = "get"      -> IF p = 0 THEN RNone ELSE RVal(env[p][2])
    [] name = "getitem"  -> IF p = 0 THEN KeyErr ELSE RVal(env[p][2])
    [] name = "contains" -> RBool(p # 0)
    [] name \in {"getlist", "get_all", "getlist_str"} -> RList(HdVals(it, a.k))
    [] name = "getlist_int"     -> RInts(TypedList(HdVals(it, a.k)))        \* read through the view, not a stored list
    [] name = "get_default"     -> IF p = 0 THEN RVal(a.v) ELSE RVal(env[p][2])
    [] name = "get_int"         -> IF p = 0 THEN RNone ELSE TypedGet(<<env[p][2]>>, RNone)
    [] name = "get_int_default" -> IF p = 0 THEN RVal(a.v) ELSE TypedGet(<<env[p][2]>>, RVal(a.v))
    [] OTHER -> RExc("?unknown-read")
HdMutators == {"set", "setitem", "add", "extend", "update", "ior", "remove", "delitem", "delitem_idx", "delitem_slice", "setitem_slice",
               "setitem_idx", "pop", "pop_idx", "pop_last", "popitem", "setlist", "setdefault",
               "setlistdefault", "clear"}

\* =================================================================== dispatch
MdKinds == {"MultiDict", "FileMultiDict"}
Apply(kind, st, name, a) ==
  CASE kind \in MdKinds -> MdApply(st, name, a)
    [] kind = "ImmutableMultiDict" -> ImmApply(st, name, a)
    [] kind = "Headers"   -> HdApply(st, name, a)
    [] kind = "HeaderSet" -> HsApply(st, name, a)
    [] kind = "Environ"   -> EnvApply(st, name, a)
    [] OTHER -> [st |-> st, ret |-> RExc("?unknown-kind")]

Ctor(kind, a) ==
  CASE kind \in MdKinds \cup {"ImmutableMultiDict"} -> MdFromPairs(Flatten(a.src))
    [] kind = "Headers"   -> Flatten(a.src)
    [] kind = "HeaderSet" -> HsFrom(a.vs)
    [] kind = "Environ"   -> Fold(LAMBDA s, p : EnvApply(s, "env_set", [k |-> p[1], v |-> p[2]]).st, <<>>, Flatten(a.src))
    [] OTHER -> <<>>

Read(kind, st, name, a) ==
  CASE kind \in MdKinds \cup {"ImmutableMultiDict"} -> MdRead(st, name, a)
    [] kind = "Headers"   -> HdRead(st, name, a)
    [] kind = "HeaderSet" -> HsRead(st, name, a)
    [] OTHER -> RExc("?unknown-kind")

\* ------------------------------------------------------------------ representation invariants
MdReprOK(st) == \A i, j \in 1..Len(st) : i # j => st[i][1] # st[j][1]
HsReprOK(st) == \A i, j \in 1..Len(st) : i # j => Lower(st[i]) # Lower(st[j])
ReprOK(kind, st) == CASE kind \in MdKinds \cup {"ImmutableMultiDict"} -> MdReprOK(st)
                      [] kind = "HeaderSet" -> HsReprOK(st)
                      [] OTHER -> TRUE
=============================================================================
