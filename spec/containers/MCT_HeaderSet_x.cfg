CONSTANTS
  Kind = "HeaderSet"
  Keys <- KeysHS5
  Vals <- Vals12
  MaxList = 2
  MaxEnt = 3
  SrcMode = "full"
INIT Init
NEXT Next
VIEW View
ACTION_CONSTRAINT Export
