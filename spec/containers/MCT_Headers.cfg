CONSTANTS
  Kind = "Headers"
  Keys <- KeysAAB
  Vals <- Vals12
  MaxList = 2
  MaxEnt = 4
  SrcMode = "full"
INIT Init
NEXT Next
INVARIANT ReprInv
INVARIANT ReadLaws
PROPERTY PostSpec
VIEW View
