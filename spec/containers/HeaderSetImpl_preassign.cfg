CONSTANTS
  Variant = "preassign"
  Items <- ItemsC
  MaxLen = 3
INIT Init
NEXT Next
INVARIANT Refines
