---------------------------- MODULE HeaderSetImpl ----------------------------
(* Implementation-shaped model of structures.HeaderSet: a list `_headers` and a parallel     *)
(* set `_set` of the lower-cased items.  TLC checks that, for every history over the bounded *)
(* alphabet, the pair refines the documented ordered set (Containers!HsApply): the list is   *)
(* the abstract sequence and the set describes exactly the same elements.                    *)
(* Variant "orig" is the code as found (remove() compares the un-lowered argument, the       *)
(* constructor does not de-duplicate): TLC finds the divergence.  "fixed" = after the fix.   *)
EXTENDS Containers, TLC

CONSTANTS Variant, Items, MaxLen
VARIABLES h, s, abs
vars == <<h, s, abs>>

LowSet(xs) == {Lower(xs[i]) : i \in 1..Len(xs)}
RECURSIVE UpdateImpl(_, _, _)
UpdateImpl(hh, ss, xs) == IF xs = <<>> THEN [h |-> hh, s |-> ss]
                          ELSE IF Lower(Head(xs)) \in ss THEN UpdateImpl(hh, ss, Tail(xs))
                          ELSE UpdateImpl(Append(hh, Head(xs)), ss \cup {Lower(Head(xs))}, Tail(xs))
CtorImpl(xs) == IF Variant = "orig" THEN [h |-> xs, s |-> LowSet(xs)] ELSE UpdateImpl(<<>>, {}, xs)
RemoveImpl(x) ==
  IF Lower(x) \notin s THEN [h |-> h, s |-> s]
  ELSE LET cmp == IF Variant = "orig" THEN x ELSE Lower(x)
           p   == FirstIdx(h, LAMBDA y : Lower(y) = cmp)
       IN [h |-> IF p = 0 THEN h ELSE DelAt(h, p), s |-> s \ {Lower(x)}]

A1(x) == [k |-> x, v |-> <<>>, vs |-> <<>>, src |-> <<>>, form |-> "pairs", hasdef |-> FALSE, idx |-> 0, idx2 |-> 0]
Lists == SeqsUpTo(Items, 2)

Init == \E xs \in SeqsUpTo(Items, MaxLen) :
          /\ h = CtorImpl(xs).h /\ s = CtorImpl(xs).s /\ abs = HsFrom(xs)
Add == \E x \in Items : LET r == UpdateImpl(h, s, <<x>>) IN
          h' = r.h /\ s' = r.s /\ abs' = HsApply(abs, "add", A1(x)).st
Upd == \E xs \in Lists : LET r == UpdateImpl(h, s, xs) IN
          h' = r.h /\ s' = r.s /\ abs' = HsApply(abs, "update", [A1(<<>>) EXCEPT !.vs = xs]).st
Rem == \E x \in Items : LET r == RemoveImpl(x) IN
          h' = r.h /\ s' = r.s /\ abs' = HsApply(abs, "discard", A1(x)).st
DelI == \E i \in 1..Len(h) : h' = DelAt(h, i) /\ s' = s \ {Lower(h[i])}
                             /\ abs' = HsApply(abs, "delitem_idx", [A1(<<>>) EXCEPT !.idx = i - 1]).st
SetI == \E i \in 1..Len(h), x \in Items :
          /\ i <= Len(abs) /\ HsAssignOK(abs, i, x)
          /\ h' = [h EXCEPT ![i] = x] /\ s' = (s \ {Lower(h[i])}) \cup {Lower(x)}
          /\ abs' = HsApply(abs, "setitem_idx", [A1(x) EXCEPT !.idx = i - 1]).st
Clear == h' = <<>> /\ s' = {} /\ abs' = <<>>
Next == (Add \/ Upd \/ Rem \/ DelI \/ SetI \/ Clear) /\ Len(h') <= MaxLen

\* the documented reads (iteration = h, len = |s|, membership = lower-case lookup in s) agree
\* with the abstract ordered set
Refines == /\ h = abs
           /\ s = LowSet(h)
           /\ Cardinality(s) = Len(h)
=============================================================================
