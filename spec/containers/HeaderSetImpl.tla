---------------------------- MODULE HeaderSetImpl ----------------------------
(* Implementation-shaped model of structures.HeaderSet: a list `_headers` and a parallel     *)
(* set `_set` of the lower-cased items.  TLC checks that, for every history over the bounded *)
(* alphabet, the pair refines the documented ordered set (Containers!HsApply): the list is   *)
(* the abstract sequence and the set describes exactly the same elements.                    *)
(* Variant "orig" is the code as found (remove() compares the un-lowered argument, the       *)
(* constructor does not de-duplicate): TLC finds the divergence.  "fixed" = after the fixes. *)
(* Variant "preassign" = fixed except item assignment as it was before its repair (hs[i] = x  *)
(* with x already a member elsewhere kept x twice in the list, once in the set): must violate.*)
EXTENDS Containers, TLC

CONSTANTS Variant, Items, MaxLen
VARIABLES h, s, abs
vars == <<h, s, abs>>

LowSet(xs) == {Lower(xs[i]) : i \in 1..Len(xs)}
RECURSIVE UpdateImpl(_, _, _)
UpdateImpl(hh, ss, xs) == IF xs = <<>> THEN [h |-> hh, s |-> ss]
                          ELSE IF Lower(Head(xs)) \in ss THEN UpdateImpl(hh, ss, Tail(xs))
                          ELSE UpdateImpl(Append(hh, Head(xs)), ss \cup {Lower(Head(xs))}, Tail(xs))
CtorImpl(xs) == IF Variant = "orig" THEN [h |-> xs, s |-> LowSet(xs)] ELSE UpdateImpl(<<>>, {}, xs)
RemoveImpl(x) ==
  IF Lower(x) \notin s THEN [h |-> h, s |-> s]
  ELSE LET cmp == IF Variant = "orig" THEN x ELSE Lower(x)
           p   == FirstIdx(h, LAMBDA y : Lower(y) = cmp)
       IN [h |-> IF p = 0 THEN h ELSE DelAt(h, p), s |-> s \ {Lower(x)}]

A1(x) == [k |-> x, v |-> <<>>, vs |-> <<>>, src |-> <<>>, form |-> "pairs", hasdef |-> FALSE, idx |-> 0, idx2 |-> 0]
Lists == SeqsUpTo(Items, 2)

Init == \E xs \in SeqsUpTo(Items, MaxLen) :
          /\ h = CtorImpl(xs).h /\ s = CtorImpl(xs).s /\ abs = HsFrom(xs)
Add == \E x \in Items : LET r == UpdateImpl(h, s, <<x>>) IN
          h' = r.h /\ s' = r.s /\ abs' = HsApply(abs, "add", A1(x)).st
Upd == \E xs \in Lists : LET r == UpdateImpl(h, s, xs) IN
          h' = r.h /\ s' = r.s /\ abs' = HsApply(abs, "update", [A1(<<>>) EXCEPT !.vs = xs]).st
Rem == \E x \in Items : LET r == RemoveImpl(x) IN
          h' = r.h /\ s' = r.s /\ abs' = HsApply(abs, "discard", A1(x)).st
DelI == \E i \in 1..Len(h) : h' = DelAt(h, i) /\ s' = s \ {Lower(h[i])}
                             /\ abs' = HsApply(abs, "delitem_idx", [A1(<<>>) EXCEPT !.idx = i - 1]).st
\* hs[i] = x.  "fixed" = the code after the repair (the other occurrence of an already present header is
\* dropped); "preassign" = the code before it: the item is stored at i, the lower-case set holds it once,
\* the other occurrence stays in the list (list ['b','b'] with len 1).
SetI == \E i \in 1..Len(h), x \in Items :
          LET key == Lower(x)
              s1  == s \ {Lower(h[i])}
              h1  == [h EXCEPT ![i] = x]
              oth == FirstIdx([j \in 1..Len(h1) |-> j], LAMBDA j : j # i /\ Lower(h1[j]) = key)
          IN /\ i <= Len(abs)
             /\ IF Variant = "preassign" \/ key \notin s1
                  THEN h' = h1 /\ s' = s1 \cup {key}
                  ELSE h' = (IF oth = 0 THEN h1 ELSE DelAt(h1, oth)) /\ s' = s1
             /\ abs' = HsApply(abs, "setitem_idx", [A1(x) EXCEPT !.idx = i - 1]).st
Clear == h' = <<>> /\ s' = {} /\ abs' = <<>>
Next == (Add \/ Upd \/ Rem \/ DelI \/ SetI \/ Clear) /\ Len(h') <= MaxLen

\* the documented reads (iteration = h, len = |s|, membership = lower-case lookup in s) agree
\* with the abstract ordered set
Refines == /\ h = abs
           /\ s = LowSet(h)
           /\ Cardinality(s) = Len(h)
=============================================================================
