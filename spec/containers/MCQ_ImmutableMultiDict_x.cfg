CONSTANTS
  Kind = "ImmutableMultiDict"
  Keys <- KeysAB
  Vals <- Vals1
  MaxList = 1
  MaxEnt = 2
  SrcMode = "small"
INIT Init
NEXT Next
VIEW View
ACTION_CONSTRAINT Export
