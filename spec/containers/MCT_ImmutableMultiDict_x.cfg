CONSTANTS
  Kind = "ImmutableMultiDict"
  Keys <- KeysAB
  Vals <- Vals12
  MaxList = 2
  MaxEnt = 2
  SrcMode = "full"
INIT Init
NEXT Next
VIEW View
ACTION_CONSTRAINT Export
