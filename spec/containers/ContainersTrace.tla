-------------------------- MODULE ContainersTrace --------------------------
(* Trace judge for C08.  Input: ndjson (TRACE_FILE), one TLC state per line.                *)
(*                                                                                          *)
(*  begin  : [t, i, op]                              starts a trace: no live objects        *)
(*  new    : [t, i, op, o, kind, over, a, r, s, x]   object number o (= number of live      *)
(*           objects + 1) built by the constructor of `kind` from the input a.src / a.vs;   *)
(*           views (CombinedMultiDict, EnvironHeaders) are built over the objects `over`    *)
(*  call   : [t, i, op, o, name, a, r, s, x]         public operation `name` on object o    *)
(*  derive : [t, i, op, o, how, a, r, s, x]          copy / deepcopy / pickle / constructor *)
(*           copy of object o; a successful derivation is object number Len(objs)+1         *)
(*  a : [k, v, vs, src, form, hasdef, idx, idx2]  (all fields always present)               *)
(*  r : the recorded return value [tag, v] (exception: tag "exc", v = class name)           *)
(*  s : the reads recorded after the step, for ALL live objects:                            *)
(*      <<[o, n, k, i, j, r]>>  read n of object o with key k / indexes i, j returned r      *)
(*  x : [has, st]  post state of object o in TLC's exported transition (replay only)        *)
(*                                                                                          *)
(* The judge applies the same operators as the bounded model (Containers!Apply / Read) and  *)
(* rejects a line when the recorded return value or any recorded read differs from the      *)
(* model.  Verdicts are total: a REJECT record is printed and judging goes on.              *)
EXTENDS Containers, TLC, Json, IOUtils

Lines == ndJsonDeserialize(IOEnv.TRACE_FILE)

VARIABLES l, objs
vars == <<l, objs>>

Dflt == <<63>>                                   \* the default the recorder passes: "?"
MdFam == MdKinds \cup {"ImmutableMultiDict"}
Hashable == {"ImmutableMultiDict", "CombinedMultiDict"}

Obj(kind, st, over) == [kind |-> kind, st |-> st, over |-> over]
\* the MultiDict states a combined view reads through (live objects, or its own snapshot)
DOf(os, ob) == IF ob.over # <<>> THEN [i \in 1..Len(ob.over) |-> os[ob.over[i]].st] ELSE ob.st
PurgeD(D)   == [i \in 1..Len(D) |-> Purge(D[i])]
HasEmpty(st) == \E i \in 1..Len(st) : st[i][2] = <<>>
ObjHasEmpty(os, ob) == CASE ob.kind \in MdFam -> HasEmpty(ob.st)
                         [] ob.kind = "CombinedMultiDict" -> \E i \in 1..Len(DOf(os, ob)) : HasEmpty(DOf(os, ob)[i])
                         [] OTHER -> FALSE
AnyEmpty(os) == \E i \in 1..Len(os) : ObjHasEmpty(os, os[i])

\* the dict-of-lists content of an object of the MultiDict family / a combined view
MdStateOf(os, ob) == IF ob.kind = "CombinedMultiDict" THEN CmState(DOf(os, ob)) ELSE ob.st

\* ------------------------------------------------------------------ reads
RdArg(rd) == [k |-> rd.k, v |-> Dflt, idx |-> rd.i, idx2 |-> rd.j]

\* equality probe: rd.i = other object; r = ints <<eq, hashrel>>, hashrel 1 equal / 0 differ / 2 n.a.
EqOK(os, ob, rd) ==
  /\ rd.r.tag = "ints" /\ Len(rd.r.v) = 2
  /\ rd.i \in 1..Len(os)
  /\ LET ot == os[rd.i]  eq == rd.r.v[1] = 1  hrel == rd.r.v[2] IN
     /\ (eq => hrel # 0)                                       \* x == y  =>  hash(x) == hash(y)
     /\ ((ob.kind \in Hashable /\ ot.kind \in Hashable) <=> hrel # 2)
     /\ CASE ob.kind \in MdFam \cup {"CombinedMultiDict"} /\ ot.kind \in MdFam \cup {"CombinedMultiDict"} ->
               \/ eq <=> MdEq(MdStateOf(os, ob), MdStateOf(os, ot))
               \/ eq <=> MdEq(Purge(MdStateOf(os, ob)), Purge(MdStateOf(os, ot)))
          [] ob.kind = "Headers" /\ ot.kind = "Headers" ->
               /\ (HdLowSeq(ob.st) = HdLowSeq(ot.st) => eq)          \* same lines => equal
               /\ (eq => HdLowSet(ob.st) = HdLowSet(ot.st))       \* equal => same set of lines
          [] ob.kind = "HeaderSet" /\ ot.kind = "HeaderSet" -> eq <=> HsLowSet(ob.st) = HsLowSet(ot.st)
          [] OTHER -> TRUE

\* the bare laws of == and hash on any two live objects, whatever == means for them (what counts
\* as equal is what the real == returned):  r = ints <<x == y, y == x, hash relation, y in {x},
\* {x: 1}.get(y) == 1>> (2 = not applicable: unhashable).  == is symmetric, and equal objects have
\* the same hash, i.e. they are one set member / one dict key.
LawOK(rd) == /\ rd.r.tag = "ints" /\ Len(rd.r.v) = 5
             /\ rd.r.v[1] = rd.r.v[2]
             /\ (rd.r.v[1] = 1 => rd.r.v[3] # 0 /\ rd.r.v[4] # 0 /\ rd.r.v[5] # 0)

OpaqueKinds == {"ImmutableDict", "ImmutableTypeConversionDict", "ImmutableOrderedMultiDict"}

ReadOK(os, rd) ==
  IF rd.o \notin 1..Len(os) THEN FALSE
  ELSE LET ob == os[rd.o]  a == RdArg(rd) IN
       IF rd.n = "eqlaw" THEN LawOK(rd)
       ELSE IF rd.n = "eq" THEN EqOK(os, ob, rd)
       ELSE CASE ob.kind \in MdFam ->
                   \/ RetEq(rd.r, MdRead(ob.st, rd.n, a))
                   \/ (HasEmpty(ob.st) /\ RetEq(rd.r, MdRead(Purge(ob.st), rd.n, a)))
              [] ob.kind = "CombinedMultiDict" ->
                   LET D == DOf(os, ob) IN
                   \/ RetEq(rd.r, CmRead(D, rd.n, a))
                   \/ (ObjHasEmpty(os, ob) /\ RetEq(rd.r, CmRead(PurgeD(D), rd.n, a)))
              [] ob.kind = "EnvironHeaders" -> RetEq(rd.r, EhRead(os[ob.over[1]].st, rd.n, a))
              [] ob.kind = "Environ" -> TRUE
              [] OTHER -> RetEq(rd.r, Read(ob.kind, ob.st, rd.n, a))

KindOf(os, o) == IF o \in 1..Len(os) THEN os[o].kind ELSE "?"
IsView(os, o) == o \in 1..Len(os) /\ os[o].over # <<>>
FirstBadRead(os, s) == FirstIdx([i \in 1..Len(s) |-> i], LAMBDA i : ~ReadOK(os, s[i]))

\* ------------------------------------------------------------------ steps
\* result of a step: the live objects afterwards and the set-like description of the
\* acceptable return values: rets = sequence of acceptable values
StepNew(os, ln) ==
  IF ln.kind \in {"CombinedMultiDict", "EnvironHeaders"}
  THEN [os |-> Append(os, Obj(ln.kind, <<>>, ln.over)), rets |-> <<RNone>>]
  ELSE [os |-> Append(os, Obj(ln.kind, Ctor(ln.kind, ln.a), <<>>)), rets |-> <<RNone>>]

StepCall(os, ln) ==
  LET ob == os[ln.o] IN
  CASE ob.kind = "CombinedMultiDict" ->
         IF ln.name \in MdMutators THEN [os |-> os, rets |-> <<TypeErr>>]
         ELSE [os |-> os, rets |-> <<MdApply(CmState(DOf(os, ob)), ln.name, ln.a).ret,
                                     MdApply(CmState(PurgeD(DOf(os, ob))), ln.name, ln.a).ret>>]
    [] ob.kind = "EnvironHeaders" ->
         IF ln.name \in HdMutators THEN [os |-> os, rets |-> <<TypeErr>>]
         ELSE IF ln.name \in {"copy", "or"} THEN [os |-> os, rets |-> <<TypeErr>>]
         ELSE [os |-> os, rets |-> <<RExc("?unknown-op")>>]
    [] OTHER -> LET r == Apply(ob.kind, ob.st, ln.name, ln.a) IN
                [os |-> [os EXCEPT ![ln.o] = Obj(ob.kind, r.st, ob.over)], rets |-> <<r.ret>>]

\* derive: how \in {copy, copy_copy, deepcopy, deepcopy_m, pickle, ctor, ctor_imm}
\*   copy      : the documented .copy() (immutable and combined dicts give a mutable MultiDict)
\*   copy_copy : copy.copy(x) ("a no-op for immutable types": returns x itself)
\*   deepcopy / deepcopy_m : copy.deepcopy(x) / x.deepcopy()
\*   pickle    : loads(dumps(x));   ctor / ctor_imm : MultiDict(x) | Headers(x) | HeaderSet(x) / ImmutableMultiDict(x)
DerivedOK(hashrel) == <<RInts(<<1, hashrel>>)>>
StepDerive(os, ln) ==
  LET ob == os[ln.o]  how == ln.how IN
  CASE ob.kind \in MdKinds ->
         LET st2 == IF how \in {"deepcopy", "deepcopy_m"} THEN Purge(ob.st) ELSE ob.st
             k2  == IF how = "ctor" THEN "MultiDict" ELSE IF how = "ctor_imm" THEN "ImmutableMultiDict" ELSE ob.kind IN
         [os |-> Append(os, Obj(k2, st2, <<>>)),
          rets |-> IF HasEmpty(ob.st) THEN <<RInts(<<1, 2>>), RInts(<<0, 2>>)>> ELSE DerivedOK(2)]
    [] ob.kind = "ImmutableMultiDict" ->
         IF how = "copy_copy" THEN [os |-> os, rets |-> <<RSelf>>]
         ELSE IF how \in {"copy", "ctor"} THEN [os |-> Append(os, Obj("MultiDict", ob.st, <<>>)), rets |-> DerivedOK(2)]
         ELSE \* deepcopy goes through to_dict(flat=False) and pickle through items(multi=True): neither carries an
              \* entry whose value list is empty (the either-view corner), ImmutableMultiDict(x) does
              [os |-> Append(os, Obj("ImmutableMultiDict", IF how \in {"deepcopy", "deepcopy_m", "pickle"} THEN Purge(ob.st) ELSE ob.st, <<>>)),
               rets |-> IF HasEmpty(ob.st) THEN <<RInts(<<1, 1>>), RInts(<<0, 1>>)>> ELSE DerivedOK(1)]
    [] ob.kind = "CombinedMultiDict" ->
         IF how \in {"copy", "copy_copy", "ctor"}
         THEN [os |-> Append(os, Obj("MultiDict", CmState(DOf(os, ob)), <<>>)),
               rets |-> IF ObjHasEmpty(os, ob) THEN <<RInts(<<1, 2>>), RInts(<<0, 2>>)>> ELSE DerivedOK(2)]
         ELSE IF how = "ctor_imm"
         THEN [os |-> Append(os, Obj("ImmutableMultiDict", CmState(DOf(os, ob)), <<>>)),
               rets |-> IF ObjHasEmpty(os, ob) THEN <<RInts(<<1, 1>>), RInts(<<0, 1>>), RInts(<<0, 0>>)>> ELSE DerivedOK(1)]
         ELSE [os |-> Append(os, Obj("CombinedMultiDict",      \* a new view over new dicts: a snapshot
                                     IF how = "pickle" THEN DOf(os, ob) ELSE PurgeD(DOf(os, ob)), <<>>)),
               rets |-> IF ObjHasEmpty(os, ob) THEN <<RInts(<<1, 1>>), RInts(<<0, 1>>), RInts(<<0, 0>>)>> ELSE DerivedOK(1)]
    [] ob.kind \in {"Headers", "HeaderSet"} -> [os |-> Append(os, Obj(ob.kind, ob.st, <<>>)), rets |-> DerivedOK(2)]
    [] ob.kind \in OpaqueKinds ->          \* no model: only "equal => same hash" is demanded of the derived object
         IF how = "copy_copy" THEN [os |-> os, rets |-> <<RSelf>>]
         ELSE [os |-> Append(os, Obj(ob.kind, <<>>, <<>>)), rets |-> <<RInts(<<1, 1>>), RInts(<<0, 1>>), RInts(<<0, 0>>)>>]
    [] OTHER -> [os |-> os, rets |-> <<RExc("?underivable")>>]

Step(os, ln) ==
  CASE ln.op = "new"    -> StepNew(os, ln)
    [] ln.op = "call"   -> StepCall(os, ln)
    [] ln.op = "derive" -> StepDerive(os, ln)
    [] OTHER -> [os |-> os, rets |-> <<>>]

WellFormedLine(os, ln) ==
  CASE ln.op = "new"  -> ln.o = Len(os) + 1 /\ \A i \in 1..Len(ln.over) : ln.over[i] \in 1..Len(os)
    [] ln.op \in {"call", "derive"} -> ln.o \in 1..Len(os)
    [] OTHER -> FALSE

RetOK(r, rets) == \E i \in 1..Len(rets) : RetEq(r, rets[i])

Init == l = 1 /\ objs = <<>>

Reject(ln, clause, what, kind, emp) ==
  PrintT(ToJson([reject |-> 1, t |-> ln.t, i |-> ln.i, clause |-> clause, what |-> what, kind |-> kind, emp |-> emp]))

Next ==
  /\ l <= Len(Lines)
  /\ LET ln == Lines[l] IN
     IF ln.op = "begin" THEN objs' = <<>>
     ELSE IF ~WellFormedLine(objs, ln) THEN objs' = objs /\ Reject(ln, "BadLine", "line", "", FALSE)
     ELSE LET r   == Step(objs, ln)
              bad == FirstBadRead(r.os, ln.s)
              knd == objs[ln.o].kind
              nm  == IF ln.op = "call" THEN ln.name ELSE IF ln.op = "derive" THEN ln.how ELSE "new"
          IN /\ objs' = r.os
             /\ IF ~RetOK(ln.r, r.rets)
                  THEN Reject(ln, IF ln.op = "derive" /\ ln.r.tag = "ints"      \* derived, but == / hash disagree
                                    THEN "EqHashConsistent"
                                  ELSE IF ln.op = "derive" THEN "CopyEqHashPickle"
                                  ELSE IF (\E q \in 1..Len(r.rets) : r.rets[q].tag = "exc" /\ r.rets[q].v = "TypeError") THEN "ImmutableRejects" ELSE "Return",
                              nm, IF ln.op = "new" THEN ln.kind ELSE knd, AnyEmpty(objs) \/ AnyEmpty(r.os))
                ELSE IF bad # 0
                  THEN Reject(ln, IF ln.s[bad].n \in {"eq", "eqlaw"} THEN "EqHashConsistent"
                                  ELSE IF ln.s[bad].o # ln.o /\ ln.op = "call" /\ ~IsView(r.os, ln.s[bad].o) THEN "CopyIndependent"
                                  ELSE "ReadsAgree",
                              ln.s[bad].n,
                              IF ln.s[bad].n \in {"eq", "eqlaw"} /\ KindOf(r.os, ln.s[bad].i) = "CombinedMultiDict" THEN "CombinedMultiDict"
                              ELSE KindOf(r.os, ln.s[bad].o), AnyEmpty(r.os))
                ELSE IF ln.x.has /\ ln.x.st # r.os[ln.o].st
                  THEN PrintT(ToJson([drift |-> 1, t |-> ln.t, i |-> ln.i, what |-> "exported post state differs from judge model"]))
                ELSE TRUE
  /\ l' = l + 1

Done == PrintT(ToJson([judged |-> Len(Lines)])) /\ TLCGet("generated") >= 0
=============================================================================
