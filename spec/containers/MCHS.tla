---- MODULE MCHS ----
EXTENDS HeaderSetImpl
ItemsC == {<<97>>, <<65>>, <<98>>, <<66>>}
====
