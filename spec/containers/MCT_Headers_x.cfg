CONSTANTS
  Kind = "Headers"
  Keys <- KeysAAB
  Vals <- Vals12
  MaxList = 2
  MaxEnt = 3
  SrcMode = "small"
INIT Init
NEXT Next
VIEW View
ACTION_CONSTRAINT Export
