CONSTANTS
  Kind = "MultiDict"
  Keys <- KeysAB
  Vals <- Vals12
  MaxList = 2
  MaxEnt = 2
  SrcMode = "full"
INIT Init
NEXT Next
INVARIANT ReprInv
INVARIANT ReadLaws
PROPERTY PostSpec
VIEW View
