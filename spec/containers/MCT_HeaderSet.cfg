CONSTANTS
  Kind = "HeaderSet"
  Keys <- KeysHS5
  Vals <- Vals12
  MaxList = 2
  MaxEnt = 3
  SrcMode = "full"
INIT Init
NEXT Next
INVARIANT ReprInv
INVARIANT ReadLaws
PROPERTY PostSpec
VIEW View
