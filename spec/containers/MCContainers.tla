---------------------------- MODULE MCContainers ----------------------------
(* Bounded state machine over the documented container model (Containers.tla): one object   *)
(* of kind Kind, every public mutator with every argument over small alphabets, to the      *)
(* fixpoint of the bounded state space.  TLC checks the representation invariants, the      *)
(* coherence laws between the reads, and the documented post-conditions of the mutators     *)
(* (stated through reads, independently of the constructive definition).  The same module   *)
(* exports the labelled transition system for the spec -> code replay (VIEW + Export).      *)
EXTENDS Containers, TLC, Json

CONSTANTS Kind,        \* "MultiDict" | "ImmutableMultiDict" | "Headers" | "HeaderSet"
          Keys,        \* set of keys / names / items (code point sequences)
          Vals,        \* set of values
          MaxList,     \* longest value list / argument list
          MaxEnt,      \* most entries (Headers lines, HeaderSet items, MultiDict keys)
          SrcMode      \* "full" | "small": how many update / extend / constructor arguments
VARIABLES obj, act
vars == <<obj, act>>
View == obj

Dflt == <<63>>
A0 == [k |-> <<>>, v |-> <<>>, vs |-> <<>>, src |-> <<>>, form |-> "pairs", hasdef |-> FALSE, idx |-> 0, idx2 |-> 0]
OA(name, a) == [name |-> name, a |-> a]

ValLists == SeqsUpTo(Vals, MaxList)
Idxs == (0 - (MaxEnt + 1))..MaxEnt
V0 == CHOOSE v \in Vals : TRUE
PairSrcs == {<<>>} \cup {<< <<k, <<v>>>> >> : k \in Keys, v \in Vals}
            \cup {<< <<k1, <<v1>>>>, <<k2, <<v2>>>> >> : k1 \in Keys, k2 \in Keys,
                                                      v1 \in IF SrcMode = "small" THEN {V0} ELSE Vals,
                                                      v2 \in IF SrcMode = "small" THEN Vals \ {V0} ELSE Vals}
ListSrcs == {<< <<k, vs>> >> : k \in Keys, vs \in IF SrcMode = "small" THEN {vs \in ValLists : Len(vs) # 1} ELSE ValLists}
            \cup IF SrcMode = "small" THEN {}
                 ELSE {s \in {<< <<k1, vs1>>, <<k2, vs2>> >> : k1 \in Keys, k2 \in Keys, vs1 \in ValLists, vs2 \in {<<>>} \cup {<<v>> : v \in Vals}} : s[1][1] # s[2][1]}
SrcArgs == {[A0 EXCEPT !.src = s, !.form = "pairs"] : s \in PairSrcs}
           \cup {[A0 EXCEPT !.src = s, !.form = "dictlist"] : s \in ListSrcs}
\* in "small" mode | and |= (same update semantics as update / extend) take the short arguments only
OrArgs(S) == IF SrcMode = "small" THEN {a \in S : Len(a.src) <= 1} ELSE S
HdSrcArgs == SrcArgs \cup {[A0 EXCEPT !.src = s, !.form = "headers"] : s \in PairSrcs}

KV  == {[A0 EXCEPT !.k = k, !.v = v] : k \in Keys, v \in Vals}
K1  == {[A0 EXCEPT !.k = k] : k \in Keys}
KD  == K1 \cup {[A0 EXCEPT !.k = k, !.v = Dflt, !.hasdef = TRUE] : k \in Keys}
KVS == {[A0 EXCEPT !.k = k, !.vs = vs] : k \in Keys, vs \in ValLists}
IX  == {[A0 EXCEPT !.idx = i] : i \in Idxs}
IKV == {[A0 EXCEPT !.idx = i, !.k = k, !.v = v] : i \in Idxs, k \in Keys, v \in Vals}
IK  == {[A0 EXCEPT !.idx = i, !.k = k] : i \in Idxs, k \in Keys}
SliceEnds == {0, 1, 0 - 1, MaxEnt + 1}            \* boundary slice indices
IJ  == {[A0 EXCEPT !.idx = i, !.idx2 = j] : i \in {0, 1, 0 - 1}, j \in SliceEnds}
IJS == {[A0 EXCEPT !.idx = i, !.idx2 = j, !.src = s] : i \in {0, 1, 0 - 1}, j \in SliceEnds,
                                                       s \in {<<>>} \cup {<< <<k, <<V0>>>> >> : k \in Keys}}
Ops(names, args) == {OA(n, a) : n \in names, a \in args}

MdOps == Ops({"setitem", "add", "setdefault"}, KV) \cup Ops({"delitem", "poplist"}, K1) \cup Ops({"pop"}, KD)
         \cup Ops({"setlist", "setlistdefault"}, KVS) \cup Ops({"popitem", "popitemlist", "clear"}, {A0})
         \cup Ops({"update"}, SrcArgs) \cup Ops({"ior", "or"}, OrArgs(SrcArgs))
HdOps == Ops({"set", "setitem", "add", "setdefault"}, KV) \cup Ops({"remove", "delitem"}, K1) \cup Ops({"pop"}, KD)
         \cup Ops({"setlist", "setlistdefault"}, KVS) \cup Ops({"pop_last", "popitem", "clear"}, {A0})
         \cup Ops({"pop_idx", "delitem_idx"}, IX) \cup Ops({"setitem_idx"}, IKV)
         \cup Ops({"delitem_slice"}, IJ) \cup (IF SrcMode = "small" THEN {} ELSE Ops({"setitem_slice"}, IJS))
         \cup Ops({"extend", "update"}, HdSrcArgs) \cup Ops({"ior", "or"}, OrArgs(HdSrcArgs))
HsOps == Ops({"add", "remove", "discard"}, K1) \cup Ops({"clear"}, {A0}) \cup Ops({"delitem_idx"}, IX)
         \cup Ops({"setitem_idx"}, IK)
         \cup Ops({"update"}, {[A0 EXCEPT !.vs = xs] : xs \in SeqsUpTo(Keys, MaxList)})
OpArgs == CASE Kind \in {"MultiDict", "ImmutableMultiDict"} -> MdOps
            [] Kind = "Headers" -> HdOps
            [] Kind = "HeaderSet" -> HsOps

Within(st) == /\ Len(st) <= MaxEnt
              /\ Kind \in {"MultiDict", "ImmutableMultiDict"} => \A i \in 1..Len(st) : Len(st[i][2]) <= MaxList
\* initial states: every constructor input of the bounded alphabet
CtorArgs == IF Kind = "HeaderSet" THEN {[A0 EXCEPT !.vs = xs] : xs \in SeqsUpTo(Keys, MaxList)}
            ELSE SrcArgs
Init == \E c \in CtorArgs : /\ obj = Ctor(Kind, c) /\ Within(obj)
                            /\ act = [name |-> "new", a |-> c, ret |-> RNone]
Next == \E oa \in OpArgs :
          LET r == Apply(Kind, obj, oa.name, oa.a) IN
          /\ Within(r.st)
          /\ obj' = r.st
          /\ act' = [name |-> oa.name, a |-> oa.a, ret |-> r.ret]
Spec == Init /\ [][Next]_vars

\* ------------------------------------------------------------------ invariants
ReprInv == ReprOK(Kind, obj)

R(name, k) == Read(Kind, obj, name, [A0 EXCEPT !.k = k, !.v = Dflt])
RI(name, i) == Read(Kind, obj, name, [A0 EXCEPT !.idx = i])
\* the reads describe one and the same multimap
ReadLaws ==
  CASE Kind \in {"MultiDict", "ImmutableMultiDict"} ->
         /\ R("len", <<>>).v = Len(R("keys", <<>>).v)
         /\ R("items_multi", <<>>).v = Flatten(R("lists", <<>>).v)
         /\ R("lists", <<>>).v = [i \in 1..Len(obj) |-> <<R("keys", <<>>).v[i], R("listvalues", <<>>).v[i]>>]   \* zip(keys, listvalues) = lists
         /\ \A k \in Keys :
              /\ R("contains", k).v <=> k \in ToSet(R("keys", <<>>).v)
              /\ R("getlist", k).v = <<>> <=> R("getitem", k).tag = "exc"
              /\ R("getlist", k).v # <<>> => /\ RetEq(R("getitem", k), RVal(R("getlist", k).v[1]))
                                             /\ RetEq(R("get", k), R("getitem", k))
                                             /\ <<k, R("getlist", k).v[1]>> \in ToSet(R("items", <<>>).v)
              /\ R("getlist", k).v = <<>> => RetEq(R("get", k), RNone) /\ RetEq(R("get_default", k), RVal(Dflt))
    [] Kind = "Headers" ->
         /\ R("len", <<>>).v = Len(R("items", <<>>).v)
         /\ \A k \in Keys :
              /\ R("getlist", k).v = HdVals(R("items", <<>>).v, k)
              /\ R("contains", k).v <=> R("getlist", k).v # <<>>
              /\ R("contains", k).v <=> R("getitem", k).tag # "exc"
              /\ R("contains", k).v => RetEq(R("get", k), RVal(R("getlist", k).v[1]))
              /\ R("getlist", Upper(k)) = R("getlist", k) /\ R("getlist", Lower(k)) = R("getlist", k)
         /\ \A i \in Idxs : IdxOK(i, Len(obj)) <=> RI("getitem_idx", i).tag # "exc"
    [] Kind = "HeaderSet" ->
         /\ R("len", <<>>).v = Len(R("iter", <<>>).v)
         /\ Cardinality(ToSet(R("as_set", <<>>).v)) = R("len", <<>>).v            \* unique up to case
         /\ \A k \in Keys :
              /\ R("contains", k).v <=> R("find", k).v >= 0
              /\ R("contains", k).v <=> R("index", k).tag # "exc"
              /\ R("contains", Upper(k)) = R("contains", k)
              /\ R("contains", k).v => Lower(R("iter", <<>>).v[R("find", k).v + 1]) = Lower(k)

\* documented post-conditions of the mutators, stated through reads of pre / post state
GL(st, k) == Read(Kind, st, "getlist", [A0 EXCEPT !.k = k]).v
Same(k1, k2) == IF Kind = "Headers" THEN Lower(k1) = Lower(k2) ELSE k1 = k2
OthersKept(k) == \A k2 \in Keys : ~Same(k, k2) => GL(obj', k2) = GL(obj, k2)
Post ==
  LET a == act'.a  n == act'.name  ok == act'.ret.tag # "exc" IN
  CASE Kind = "ImmutableMultiDict" -> obj' = obj /\ (n \in MdMutators => RetEq(act'.ret, TypeErr))
    [] Kind \in {"MultiDict", "Headers"} ->
         /\ n \in {"setitem", "set"} => GL(obj', a.k) = <<a.v>> /\ OthersKept(a.k)
         /\ n = "add" => GL(obj', a.k) = GL(obj, a.k) \o <<a.v>> /\ OthersKept(a.k)
         /\ n = "setlist" => GL(obj', a.k) = a.vs /\ OthersKept(a.k)
         /\ n \in {"delitem", "remove", "poplist", "pop"} => GL(obj', a.k) = <<>> /\ OthersKept(a.k)
         /\ n = "poplist" => RetEq(act'.ret, RList(GL(obj, a.k)))
         /\ n = "pop" /\ ok /\ GL(obj, a.k) # <<>> => RetEq(act'.ret, RVal(GL(obj, a.k)[1]))
         /\ n = "setdefault" /\ ok => GL(obj', a.k) = (IF GL(obj, a.k) = <<>> THEN <<a.v>> ELSE GL(obj, a.k)) /\ RetEq(act'.ret, RVal(GL(obj', a.k)[1]))
         /\ n = "clear" => \A k \in Keys : GL(obj', k) = <<>>
         /\ n \in {"update", "extend"} /\ Kind = "MultiDict" =>       \* "update() extends rather than replaces"
              \A k \in Keys : GL(obj', k) = GL(obj, k) \o GL(MdFromPairs(Flatten(a.src)), k)
         /\ n = "extend" /\ Kind = "Headers" => \A k \in Keys : GL(obj', k) = GL(obj, k) \o HdVals(Flatten(a.src), k)
         /\ n = "or" => obj' = obj
         /\ n \in {"delitem_slice", "setitem_slice"} /\ Kind = "Headers" =>     \* stated through the slice reads h[:i], h[i:j], h[j:]
              LET new == IF n = "setitem_slice" THEN Flatten(a.src) ELSE <<>> IN
              obj' = IF PySlice(obj, a.idx, a.idx2) = <<>>
                       THEN PySlice(obj, 0, a.idx) \o new \o PySlice(obj, a.idx, Len(obj))        \* empty slice: insert at i
                       ELSE PySlice(obj, 0, a.idx) \o new \o PySlice(obj, a.idx2, Len(obj))
         /\ ~ok => obj' = obj \/ n \in {"pop", "popitem"}       \* failed calls change nothing (pop* of an empty-list entry removes it)
    [] Kind = "HeaderSet" ->
         /\ n = "add" => HsHas(obj', a.k) /\ (HsHas(obj, a.k) => obj' = obj) /\ (~HsHas(obj, a.k) => obj' = Append(obj, a.k))
         /\ n \in {"remove", "discard"} => ~HsHas(obj', a.k) /\ \A x \in Keys : Lower(x) # Lower(a.k) => (HsHas(obj', x) <=> HsHas(obj, x))
         /\ n = "remove" => (ok <=> HsHas(obj, a.k))
         /\ n = "setitem_idx" => (ok <=> IdxOK(a.idx, Len(obj)))
         /\ n = "setitem_idx" /\ ok =>            \* position i holds the assigned item, once; the rest keeps its order
              LET p == PyIdx(a.idx, Len(obj)) + 1
                  dup == ~HsAssignOK(obj, p, a.k)              \* another member has that name
                  q == HsFind(obj', a.k)                       \* where the item is afterwards
              IN /\ HsHas(obj', a.k) /\ obj'[q] = a.k
                 /\ Len(obj') = Len(obj) - (IF dup THEN 1 ELSE 0)
                 /\ q = (IF dup /\ HsFind(obj, a.k) < p THEN p - 1 ELSE p)
                 /\ \A x \in Keys : (Lower(x) # Lower(a.k) /\ Lower(x) # Lower(obj[p])) => (HsHas(obj', x) <=> HsHas(obj, x))
                 /\ (Lower(obj[p]) # Lower(a.k)) => ~HsHas(obj', obj[p])
         /\ ~ok => obj' = obj
PostSpec == [][Post]_vars

\* ------------------------------------------------------------------ export (spec -> code)
Export == PrintT(ToJson([pre |-> obj, name |-> act'.name, a |-> act'.a, ret |-> act'.ret, post |-> obj']))
ExportInit == PrintT(ToJson([init |-> obj, a |-> act.a]))
NoNext == FALSE /\ UNCHANGED vars
=============================================================================
