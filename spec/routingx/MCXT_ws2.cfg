CONSTANTS
  Variant = "fixed"
  XVariant = "fixed"
  RuleIds = {1, 2, 3, 4, 5, 6, 7, 8, 9, 10, 11, 12, 28, 29, 30, 32, 34, 36}
  K = 2
  Toks <- TokQ
  MaxParts = 3
  Methods = {"GET", "POST"}
  Binds = {1}
  WsKinds = {FALSE, TRUE}
  ExportEvery = 1
INIT Init
NEXT Next
INVARIANT ImplInExpectedX
