CONSTANTS
  Variant = "fixed"
  XVariant = "fixed"
  RuleIds = {9, 13, 16, 17, 18, 19, 35}
  K = 2
  Toks <- TokQ
  MaxParts = 2
  Methods = {"GET", "POST"}
  Binds = {5}
  WsKinds = {FALSE}
  ExportEvery = 1
INIT Init
NEXT Next
INVARIANT ImplInExpectedX
