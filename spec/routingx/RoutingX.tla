------------------------------- MODULE RoutingX -------------------------------
(* X07: the parts of werkzeug.routing that C03 / C04 / C12 do not cover, as an extension of the   *)
(* declarative rule semantics of spec/routing/Routing.tla (EXTENDS, nothing is redefined).          *)
(* Run by hand:  JAVA_TOOL_OPTIONS=-DTLA-Library=/verif/spec/routing tools/tl.sh routingx <M> <cfg>  *)
(*                                                                                                  *)
(* Contract = sentences of docs/routing.rst and of the docstrings of Map / Rule / MapAdapter /      *)
(* the converters / the exceptions; each clause quotes its sentence.  What they do not state is     *)
(* never a verdict (drift records only).                                                            *)
(*                                                                                                  *)
(* An X rule is a rule record of Routing.tla with four more fields:                                 *)
(*   ws   : BOOLEAN          Rule(websocket=True)                                                   *)
(*   bo   : BOOLEAN          Rule(build_only=True)                                                  *)
(*   rt   : [k, items]       Rule(redirect_to=...): k = "none" | "str" (string template) | "fn"     *)
(*                           (callable); items = <<[k |-> "lit", t, name] | [k |-> "var", t, name]>> *)
(*   host : <<>> | <<seg>>   the rule's domain pattern: Rule(host=...) in a host_matching map,      *)
(*                           Rule(subdomain=...) otherwise; one segment of Routing.tla (a literal   *)
(*                           or pre <conv:name> post); <<>> = the empty pattern                      *)
(* and variable segments may carry  haslo, lo, hashi, hi (NumberConverter min / max; floats in      *)
(* thousandths) and cust (name of a custom converter's to_python rule, "" for none).                *)
(* Map settings m = [strict, merge, rd, hm] (hm = host_matching); bind b = [scheme, server, script, *)
(* sub] as texts (server lower case, sub = <<>> in a host_matching map).                            *)
EXTENDS Routing

T == INSTANCE Text

COLON == 58
QMARK == 63
Idx(n) == [i \in 1..n |-> i]

\* ------------------------------------------------------------------ domain part (d)
(* docs/routing.rst "Host Matching": "it's also possible to do matching on the whole host names     *)
(* instead of just the subdomain.  To enable this feature you need to pass host_matching=True to    *)
(* the Map constructor and provide the host argument to all routes"; "Variable parts are of course  *)
(* also possible in the host section".  Map docstring: "host_matching: if set to True it enables    *)
(* the host matching feature and disables the subdomain one.  If enabled the host parameter to      *)
(* rules is used instead of the subdomain one."  Rule docstring, subdomain: "If not specified the   *)
(* rule only matches for the default_subdomain of the map."                                         *)
DomOf(m, b) == IF m.hm THEN b.server ELSE b.sub
HostAdmits(r, dom) == IF r.host = <<>> THEN dom = <<>> ELSE dom # <<>> /\ SegOK(r.host[1], dom)
\* the domain part is matched like one more leading path segment (literal before variable etc.)
BaseOf(r, dom) == IF dom = <<>> THEN r ELSE [r EXCEPT !.segs = r.host \o r.segs]
PathX(dom, p) == IF dom = <<>> THEN p ELSE <<SLASH>> \o dom \o p
UnPath(dom, q) == IF dom = <<>> THEN q ELSE Drop(q, Len(dom) + 1)

\* ------------------------------------------------------------------ converters beyond C03 (f)
RECURSIVE NatOf(_)
NatOf(ds) == IF ds = <<>> THEN 0 ELSE NatOf(Take(ds, Len(ds) - 1)) * 10 + (ds[Len(ds)] - 48)
Neg(v) == v # <<>> /\ v[1] = MINUS
Mag(v) == IF Neg(v) THEN Tail(v) ELSE v
IntOf(v) == IF Neg(v) THEN 0 - NatOf(Mag(v)) ELSE NatOf(Mag(v))
\* float text (as Python prints it) in thousandths; known only for <= 6 + 3 digits
Milli(v) == LET u == Mag(v)
                d == FindFrom(u, <<DOT>>, 1)
                ip == Take(u, d - 1)
                fp == Drop(u, d)
            IN IF d = 0 \/ Len(ip) > 6 \/ Len(fp) > 3 THEN [known |-> FALSE, n |-> 0]
               ELSE LET n == NatOf(ip) * 1000 + NatOf(fp \o [i \in 1..(3 - Len(fp)) |-> 48])
                    IN [known |-> TRUE, n |-> IF Neg(v) THEN 0 - n ELSE n]
HasExtra(s) == s.k = "var" /\ "cust" \in DOMAIN s
(* IntegerConverter / FloatConverter docstring: ":param min: The minimal value.  :param max: The   *)
(* maximal value."  ValidationError docstring: "If a rule converter raises this exception the rule  *)
(* does not match the current URL and the next URL is tried."  docs "Custom Converters": "It can    *)
(* implement a to_python method ... This can also do extra validation that wasn't possible with the *)
(* regex attribute, and should raise a werkzeug.routing.ValidationError in that case."              *)
(* cust = "bool": the BooleanConverter of the docs ("maybe" is refused unless maybe=True: "boolm")  *)
ArgValid(s, a) ==
  IF ~HasExtra(s) THEN [known |-> TRUE, ok |-> TRUE]
  ELSE IF s.cust = "bool" THEN [known |-> TRUE, ok |-> a.v # <<109, 97, 121, 98, 101>>]
  ELSE IF a.ty = "int" /\ Len(Mag(a.v)) <= 9 THEN
       LET n == IntOf(a.v) IN [known |-> TRUE, ok |-> (~s.haslo \/ n >= s.lo) /\ (~s.hashi \/ n <= s.hi)]
  ELSE IF a.ty = "int" THEN      \* beyond 32 bits (the bounds themselves are small)
       [known |-> TRUE, ok |-> IF Neg(a.v) THEN ~s.haslo ELSE ~s.hashi]
  ELSE IF a.ty = "float" /\ (s.haslo \/ s.hashi) THEN
       LET f == Milli(a.v) IN [known |-> f.known, ok |-> (~s.haslo \/ f.n >= s.lo) /\ (~s.hashi \/ f.n <= s.hi)]
  ELSE [known |-> TRUE, ok |-> ~(s.haslo \/ s.hashi) \/ a.ty \notin {"int", "float"}]
VarSegsOf(r) == SelectSeq(r.segs, LAMBDA s : s.k = "var")
\* every way rule rb (domain part already prepended) admits px or its merged form
HowAll(rb, m, px) == How(rb, PartsOf(px), StrictOf(m, rb)) \cup How(rb, PartsOf(MergeSl(px)), StrictOf(m, rb))
ArgsValid(rb, args) == \A j \in 1..Len(VarSegsOf(rb)) :
                          LET s == VarSegsOf(rb)[j] IN \A a \in args : a.name = s.name => ArgValid(s, a).ok
ArgsKnown(rb, args) == \A j \in 1..Len(VarSegsOf(rb)) :
                          LET s == VarSegsOf(rb)[j] IN \A a \in args : a.name = s.name => ArgValid(s, a).known
\* the rule's converters accept the values (the rule is a candidate at all); mixed verdicts between the
\* path and its merged form, or a float outside the modelled precision, are outside the domain
ExtraOK(rb, m, px) == \A h \in HowAll(rb, m, px) : ArgsValid(rb, h.args)
ExtraUnknown(rb, m, px) == LET H == HowAll(rb, m, px) IN
                           \/ \E h \in H : ~ArgsKnown(rb, h.args)
                           \/ \E g, h \in H : ArgsValid(rb, g.args) # ArgsValid(rb, h.args)
\* the Python value a custom converter reports (BooleanConverter: value == 'yes')
XArg(s, a) == IF HasExtra(s) /\ s.cust \in {"bool", "boolm"}
              THEN [name |-> a.name, ty |-> "bool", v |-> IF a.v = <<121, 101, 115>> THEN <<84, 114, 117, 101>> ELSE <<70, 97, 108, 115, 101>>]
              ELSE a
XArgs(rb, args) == {LET S == {j \in 1..Len(VarSegsOf(rb)) : VarSegsOf(rb)[j].name = a.name}
                    IN IF S = {} THEN a ELSE XArg(VarSegsOf(rb)[CHOOSE j \in S : TRUE], a) : a \in args}

\* ------------------------------------------------------------------ redirect_to (b)
(* Rule docstring, redirect_to: "If given this must be either a string or callable.  In case of a   *)
(* callable it's called with the url adapter that triggered the match and the values of the URL as  *)
(* keyword arguments and has to return the target for the redirect, otherwise it has to be a string *)
(* with placeholders in rule syntax";  "When the rule is matched the routing system will raise a    *)
(* RequestRedirect exception with the target for the redirect.";  "Keep in mind that the URL will   *)
(* be joined against the URL root of the script so don't use a leading slash on the target URL      *)
(* unless you really mean root of that domain."                                                     *)
Zfill(v, n) == IF Len(v) >= n THEN v ELSE [i \in 1..(n - Len(v)) |-> 48] \o v
\* a placeholder of the string template is spelled as the rule's converter spells the value in a URL
UrlForm(s, a) == CASE a.ty = "int" -> Zfill(a.v, s.n)
                   [] a.ty = "str" -> Quote(a.v)
                   [] OTHER -> a.v
SegNamed(rb, nm) == LET S == {j \in 1..Len(VarSegsOf(rb)) : VarSegsOf(rb)[j].name = nm} IN
                    IF S = {} THEN [k |-> "none", n |-> 0] ELSE VarSegsOf(rb)[CHOOSE j \in S : TRUE]
ArgNamed(args, nm) == IF \E a \in args : a.name = nm THEN CHOOSE a \in args : a.name = nm ELSE [name |-> nm, ty |-> "none", v |-> <<>>]
RtItem(rb, args, it, viaUrl) ==
  IF it.k = "lit" THEN it.t
  ELSE LET a == ArgNamed(args, it.name)
           s == SegNamed(rb, it.name)
       IN IF viaUrl /\ s.k = "var" THEN UrlForm(s, a) ELSE a.v
Target(rb, args) == Concat([i \in 1..Len(rb.rt.items) |-> RtItem(rb, args, rb.rt.items[i], rb.rt.k = "str")])
UrlBase(b) == (IF b.scheme = <<>> THEN <<104, 116, 116, 112>> ELSE b.scheme) \o <<COLON, SLASH, SLASH>> \o HostOf(b)
\* RFC 3986 reference resolution for the three shapes the documentation talks about
TargetUrl(b, t) == IF Contains(t, <<COLON, SLASH, SLASH>>) THEN t
                   ELSE IF t # <<>> /\ t[1] = SLASH THEN UrlBase(b) \o t
                   ELSE UrlBase(b) \o Root(b.script) \o t
\* targets whose resolution needs more of RFC 3986 than that (dot segments, "//host", "scheme:") are outside the model
PathOfRef(t) == Take(t, FirstOf(t, {QMARK, 35}, 1) - 1)
TargetOOD(t) == LET segs == Split(PathOfRef(t), SLASH) IN
                \/ IsPrefixOf(<<SLASH, SLASH>>, t)
                \/ \E i \in 1..Len(segs) : segs[i] \in {<<DOT>>, <<DOT, DOT>>}
                \/ (~Contains(t, <<COLON, SLASH, SLASH>>) /\ COLON \in SeqToSet(segs[1]))
                \/ (~Contains(t, <<COLON, SLASH, SLASH>>) /\ HasDouble(PathOfRef(t)))    \* urljoin drops empty segments
\* percent-escapes are an encoding detail the documentation does not fix: URLs are compared decoded
Unq(u) == T!Utf8Dec(T!PctDecode(T!Utf8Enc(u)))

\* ------------------------------------------------------------------ matching (a) (c) (d)
(* (c) Rule docstring, build_only: "Set this to True and the rule will never match but will create  *)
(*     a URL that can be build."                                                                    *)
(* (a) docs "WebSockets": "If a Rule is created with websocket=True, it will only match if the Map  *)
(*     is bound to a request with a url_scheme of ws or wss."  Rule docstring: "By default, rules    *)
(*     will only match for HTTP requests."  MapAdapter.match: "you receive a WebsocketMismatch      *)
(*     exception if the only match is a WebSocket rule but the bind is an HTTP request, or if the   *)
(*     match is an HTTP rule but the bind is a WebSocket request."; ":param websocket: Match        *)
(*     WebSocket instead of HTTP requests.  A websocket request has a ws or wss url_scheme.  This   *)
(*     overrides that detection."                                                                   *)
(* ExpectedX = Expected of Routing.tla over the rules that can match this request at all (not       *)
(* build_only, domain pattern admits the bound domain part, converters accept, same kind), plus     *)
(* what the rules of the other kind add:                                                            *)
(*   A: a rule of the right kind admits the path as it is for another method   (Routing.tla: 405)   *)
(*   B: a rule of the other kind admits the path as it is, method fine                              *)
(*   C: a rule of the other kind admits the path as it is, method wrong too                         *)
(*   A, no B           -> MethodNotAllowed          B, no A, no C -> WebsocketMismatch              *)
(*   A and B, or C     -> either of the two (the documentation names both)                          *)
(*   only through a redirect (strict slash, merged slashes) -> NotFound is acceptable as well       *)
LiveIdx(rules, m, dom, px) ==
  SelectSeq(Idx(Len(rules)), LAMBDA i : /\ ~rules[i].bo
                                        /\ HostAdmits(rules[i], dom)
                                        /\ ExtraOK(BaseOf(rules[i], dom), m, px))
ExpectedX(rules, m, dom, p, method, ws) ==
  LET px   == PathX(dom, p)
      live == LiveIdx(rules, m, dom, px)
      same == SelectSeq(live, LAMBDA i : rules[i].ws = ws)
      oth  == SelectSeq(live, LAMBDA i : rules[i].ws # ws)
      RS   == [j \in 1..Len(same) |-> BaseOf(rules[same[j]], dom)]
      RO   == [j \in 1..Len(oth) |-> BaseOf(rules[oth[j]], dom)]
      e    == Expected(RS, m, px, method)
      okS  == {c \in Cands(RS, m, px) : MethodOK(RS[c.r], method)}
      X    == Cands(RO, m, px)
      XM   == IF m.merge /\ HasDouble(px) THEN {c \in Cands(RO, m, MergeSl(px)) : MergeOf(m, RO[c.r])} ELSE {}
      AsIs(c) == c.mode \in {"exact", "extra"} \/ (c.mode = "slash" /\ ~StrictOf(m, RO[c.r]))
      B    == {c \in X : AsIs(c) /\ MethodOK(RO[c.r], method)}
      C    == {c \in X : AsIs(c) /\ ~MethodOK(RO[c.r], method)}
      A    == e.outs = {} /\ ~e.nf
      anyO == X \cup XM
      MsO  == UNION {MethodsOf(RO[c.r]) : c \in anyO}
      allS == Cands(RS, m, px) \cup (IF m.merge /\ HasDouble(px) THEN Cands(RS, m, MergeSl(px)) ELSE {})
      mc   == MsO \cup UNION {MethodsOf(RS[c.r]) : c \in allS}       \* methods of every rule that admits the path somehow
      Out(x) == IF x.kind = "redirect" THEN [kind |-> "redirect", rule |-> 0, args |-> {}, path |-> UnPath(dom, x.path)]
                ELSE LET i == same[x.rule] IN
                     [kind |-> IF rules[i].rt.k = "none" THEN "match" ELSE "rt", rule |-> i,
                      args |-> XArgs(RS[x.rule], x.args), path |-> <<>>]
      outs == {Out(x) : x \in e.outs}
  IN IF okS # {} THEN [outs |-> outs, nf |-> FALSE, mna |-> FALSE, wsm |-> FALSE, mreq |-> {}, mall |-> {}, mcand |-> mc]
     ELSE IF outs # {} THEN [outs |-> outs, nf |-> FALSE, mna |-> e.mna \/ C # {}, wsm |-> B # {}, mreq |-> {},
                             mall |-> e.mall \cup MsO, mcand |-> mc]
     ELSE [outs |-> {}, nf |-> e.nf /\ B = {} /\ C = {},
           mna |-> e.mna \/ C # {} \/ \E c \in anyO : ~MethodOK(RO[c.r], method),
           wsm |-> B # {} \/ (~A /\ anyO # {}),
           mreq |-> e.mreq, mall |-> e.mall \cup MsO, mcand |-> mc]

OutOfDomainX(rules, m, dom, path) ==
  \/ path = <<>>
  \/ LET px == PathX(dom, Norm(path))
         cand == SelectSeq(Idx(Len(rules)), LAMBDA i : ~rules[i].bo /\ HostAdmits(rules[i], dom))
         RB == [j \in 1..Len(cand) |-> BaseOf(rules[cand[j]], dom)]
     IN OutOfDomain(RB, m, px) \/ \E j \in 1..Len(RB) : ExtraUnknown(RB[j], m, px)

\* the observed request kind: match(websocket=...) "overrides that detection"
WsOf(b, wsarg) == IF wsarg = "t" THEN TRUE ELSE IF wsarg = "f" THEN FALSE
                  ELSE b.scheme \in {<<119, 115>>, <<119, 115, 115>>}

(* o = [kind \in match|redirect|notfound|mna|wsm|other, rule, args (set), argc, url, methods (set),  *)
(*      fnrule (index of the rule whose redirect_to callable ran, 0 for none), fnargs (set: the       *)
(*      keyword arguments it got), fnadapter (it got the adapter)].  "ok" or the violated clause.     *)
SlashUrlOK(b, o, x) == LET u == SplitUrl(o.url) IN
                       u.ok /\ u.scheme = (IF b.scheme = <<>> THEN <<104, 116, 116, 112>> ELSE b.scheme)
                       /\ u.host = HostOf(b) /\ u.path = UrlPathFor(Root(b.script), x.path)
RtUrlOK(rules, b, dom, o, x) ==
  LET rb == BaseOf(rules[x.rule], dom)
      t == Target(rb, x.args)
  IN TargetOOD(t) \/ Unq(o.url) = Unq(TargetUrl(b, t))
RtFnOK(rules, o, x) == rules[x.rule].rt.k = "fn" => (o.fnrule = x.rule /\ o.fnargs = x.args /\ o.fnadapter)

JudgeXE(rules, b, dom, ws, o, e, ood) ==
  LET okr == o.rule \in 1..Len(rules)
  IN IF ood THEN "ok"
     ELSE CASE o.kind = "match" ->
                 IF okr /\ o.argc = Cardinality(o.args) /\ [kind |-> "match", rule |-> o.rule, args |-> o.args, path |-> <<>>] \in e.outs THEN "ok"
                 ELSE IF ~okr THEN "MatchNotAdmitted"
                 ELSE IF rules[o.rule].bo THEN "BuildOnlyMatched"
                 ELSE IF ~HostAdmits(rules[o.rule], dom) THEN "WrongHostMatched"
                 ELSE IF rules[o.rule].ws # ws THEN "WrongKindMatched"
                 ELSE IF \E x \in e.outs : x.kind = "rt" /\ x.rule = o.rule THEN "RedirectToIgnored"
                 ELSE IF \E x \in e.outs : x.kind = "match" /\ x.rule = o.rule THEN "MatchArguments"
                 ELSE IF e.outs # {} THEN "Priority"
                 ELSE "MatchNotAdmitted"
            [] o.kind = "redirect" ->
                 IF \E x \in e.outs : x.kind = "redirect" /\ SlashUrlOK(b, o, x) THEN "ok"
                 ELSE IF \E x \in e.outs : x.kind = "rt" /\ RtUrlOK(rules, b, dom, o, x) /\ RtFnOK(rules, o, x) THEN "ok"
                 ELSE IF \E x \in e.outs : x.kind = "rt" /\ RtUrlOK(rules, b, dom, o, x) THEN "RedirectToCallableArguments"
                 ELSE IF \E x \in e.outs : x.kind = "rt" THEN "RedirectTarget"
                 ELSE IF e.outs # {} THEN "Redirect"
                 ELSE "RedirectNotAdmitted"
            [] o.kind = "notfound" ->
                 IF e.nf THEN "ok" ELSE IF e.outs # {} THEN "NotFoundButAdmitted"
                 ELSE IF e.wsm /\ ~e.mna THEN "NotFoundButOtherKind"
                 ELSE IF e.mna /\ ~e.wsm THEN "NotFoundButMethodNotAllowed"
                 ELSE "NotFoundButOtherKindOrMethod"
            [] o.kind = "mna" ->
                 IF ~e.mna THEN "SpuriousMethodNotAllowed"
                 ELSE IF e.mreq \subseteq o.methods /\ o.methods \subseteq e.mall THEN "ok" ELSE "AllowedMethods"
            [] o.kind = "wsm" -> IF e.wsm THEN "ok" ELSE "SpuriousWebsocketMismatch"
            [] OTHER -> "UnexpectedException"
JudgeX(rules, m, b, path, method, ws, o) ==
  LET dom == DomOf(m, b) IN
  JudgeXE(rules, b, dom, ws, o, ExpectedX(rules, m, dom, Norm(path), method, ws), OutOfDomainX(rules, m, dom, path))

\* ------------------------------------------------------------------ the adapter's other methods (e)
(* allowed_methods: "Returns the valid methods that match for a given path."  Judged through the    *)
(* contract of a request with a method no rule lists: the methods a 405 must / may name.            *)
NOMETHOD == "--"
\* e = ExpectedX for the method NOMETHOD
JudgeAllowedE(e, ood, ms) ==
  IF ood THEN "ok"
  ELSE IF ~(ms \subseteq e.mcand) THEN "AllowedMethodsNotOfARule"
  ELSE IF e.outs = {} /\ ~e.nf /\ ~e.wsm /\ ~(e.mreq \subseteq ms) THEN "AllowedMethodsMissing"
  ELSE "ok"
JudgeAllowed(rules, m, b, path, ws, ms) ==
  LET dom == DomOf(m, b) IN
  JudgeAllowedE(ExpectedX(rules, m, dom, Norm(path), NOMETHOD, ws), OutOfDomainX(rules, m, dom, path), ms)
(* test: "Test if a rule would match.  Works like match but returns True if the URL matches, or     *)
(* False if it does not exist."                                                                     *)
JudgeTestE(e, ood, res) ==
  IF ood THEN "ok"
  ELSE IF res /\ e.outs = {} THEN "TestTrueButNoMatch"
  ELSE IF ~res /\ ~(e.nf \/ e.mna \/ e.wsm) THEN "TestFalseButMatches"
  ELSE "ok"
JudgeTest(rules, m, b, path, method, ws, res) ==
  LET dom == DomOf(m, b) IN
  JudgeTestE(ExpectedX(rules, m, dom, Norm(path), method, ws), OutOfDomainX(rules, m, dom, path), res)
(* dispatch: "Does the complete dispatching process.  view_func is called with the endpoint and a   *)
(* dict with the values for the view.  It should look up the view function, call it, and return a   *)
(* response object or WSGI application.  http exceptions are not caught by default so that          *)
(* applications can display nicer error messages by just catching them by hand.  If you want to     *)
(* stick with the default error messages you can pass it catch_http_exceptions=True and it will     *)
(* catch the http exceptions."  Related to what match() answers for the same request (o):           *)
(*   d = [called, cep, cargs (set), how \in returned|raised, what, same, catch, view]               *)
(*   view \in "ret" (returns a value) | "http" (raises an HTTPException) | "boom" (another error)   *)
(*   what = class name of what came out ("VIEWVALUE" for the view's value); same = it is the very   *)
(*   object the view returned / raised (or, for a redirect, carries match()'s new_url)              *)
JudgeDispatch(rules, o, d) ==
  IF o.kind = "match" THEN
       IF ~(o.rule \in 1..Len(rules)) THEN "ok"
       ELSE IF ~d.called \/ d.cep # rules[o.rule].endpoint \/ d.cargs # o.args THEN "DispatchViewCall"
       ELSE IF d.view = "ret" THEN (IF d.how = "returned" /\ d.what = "VIEWVALUE" /\ d.same THEN "ok" ELSE "DispatchReturnsViewValue")
       ELSE IF d.view = "http" THEN
            (IF d.catch THEN (IF d.how = "returned" /\ d.same THEN "ok" ELSE "DispatchCatchesHttpExceptions")
             ELSE (IF d.how = "raised" /\ d.same THEN "ok" ELSE "DispatchNotCaughtByDefault"))
       ELSE (IF d.how = "raised" /\ d.same THEN "ok" ELSE "DispatchOnlyHttpExceptions")
  ELSE IF d.called THEN "DispatchViewCalledWithoutMatch"
  ELSE IF o.kind = "redirect" THEN
       \* a RequestRedirect is an HTTPException: with catch_http_exceptions it must not escape; without, the
       \* documentation leaves open whether it is returned (as the code does) or raised
       (IF d.what # "RequestRedirect" \/ ~d.same THEN "DispatchRedirect"
        ELSE IF d.catch /\ d.how # "returned" THEN "DispatchCatchesHttpExceptions" ELSE "ok")
  ELSE IF o.kind \in {"notfound", "mna", "wsm"} THEN
       (IF d.what # o.exc THEN "DispatchSameAnswerAsMatch"
        ELSE IF d.catch THEN (IF d.how = "returned" THEN "ok" ELSE "DispatchCatchesHttpExceptions")
        ELSE (IF d.how = "raised" THEN "ok" ELSE "DispatchNotCaughtByDefault"))
  ELSE "ok"
(* get_host: "Figures out the full host name for the given domain part.  The domain part is a       *)
(* subdomain in case host matching is disabled or a full host name."                                *)
\* g = [none (no domain part given), dp, res]
GetHost(m, b, g) == IF m.hm THEN (IF g.none THEN b.server ELSE g.dp)
                    ELSE LET s == IF g.none THEN b.sub ELSE g.dp IN
                         IF s = <<>> THEN b.server ELSE s \o <<DOT>> \o b.server
JudgeGetHost(m, b, g) == IF g.res = GetHost(m, b, g) THEN "ok" ELSE "GetHost"
(* is_endpoint_expecting: "Iterate over all rules and check if the endpoint expects the arguments   *)
(* provided."  iter_rules: "Iterate over all rules or the rules of an endpoint."                    *)
ArgNames(r) == {s.name : s \in {x \in SeqToSet(r.host \o r.segs) : x.k = "var"}} \cup {d.name : d \in SeqToSet(r.defaults)}
Expecting(rules, ep, names) == \E i \in 1..Len(rules) : rules[i].endpoint = ep /\ names \subseteq ArgNames(rules[i])
JudgeExpecting(rules, x) ==
  IF ~\E i \in 1..Len(rules) : rules[i].endpoint = x.ep THEN "ok"      \* unknown endpoint: not documented
  ELSE IF x.res = Expecting(rules, x.ep, SeqToSet(x.names)) THEN "ok" ELSE "EndpointExpecting"
JudgeIter(rules, x) ==
  LET want == IF x.all THEN 1..Len(rules) ELSE {i \in 1..Len(rules) : rules[i].endpoint = x.ep} IN
  IF ~x.all /\ want = {} THEN "ok"
  ELSE IF SeqToSet(x.res) = want /\ Len(x.res) = Cardinality(want) THEN "ok" ELSE "IterRules"

\* ------------------------------------------------------------------ building (a) (c) (d)
(* docs "WebSockets": "As WebSocket URLs have a different scheme, rules are always built with a      *)
(* scheme and host, force_external=True is implied."  build_only: "will create a URL that can be    *)
(* build".  build docstring: "force_external ... will force external URLs.  Per default external    *)
(* URLs (include the server name) will only be used if the target URL is on a different subdomain." *)
(* Endpoints of build cases have exactly one rule (rule selection is C04's subject).                *)
ValNamed(vals, nm) == IF \E i \in 1..Len(vals) : vals[i].name = nm THEN vals[CHOOSE i \in 1..Len(vals) : vals[i].name = nm]
                      ELSE [name |-> nm, ty |-> "none", v |-> <<>>]
SegBuild(s, vals) == IF s.k = "lit" THEN Quote(s.pre)
                     ELSE Quote(s.pre) \o UrlForm(s, ValNamed(vals, s.name)) \o Quote(s.post)
RECURSIVE SegsBuild(_, _)
SegsBuild(segs, vals) == IF segs = <<>> THEN <<>> ELSE <<SLASH>> \o SegBuild(Head(segs), vals) \o SegsBuild(Tail(segs), vals)
BuildPath(r, vals) == IF r.segs = <<>> THEN <<SLASH>> ELSE SegsBuild(r.segs, vals) \o (IF r.branch THEN <<SLASH>> ELSE <<>>)
BuildDom(r, vals) == IF r.host = <<>> THEN <<>> ELSE SegBuild(r.host[1], vals)
BuildHost(m, b, dom) == IF m.hm THEN dom ELSE IF dom = <<>> THEN b.server ELSE dom \o <<DOT>> \o b.server
RootNoSlash(b) == LET r == Root(b.script) IN Take(r, Len(r) - 1)
IsWsScheme(s) == s \in {<<119, 115>>, <<119, 115, 115>>}
Secure(s) == s \in {<<104, 116, 116, 112, 115>>, <<119, 115, 115>>}
\* x = [ep, vals, ext, scheme (build(url_scheme=...), <<>> for none), url, ok]  ->  verdict clause; BuildDrift = what the
\* documentation leaves open
JudgeBuild(rules, m, b, x) ==
  LET R == {i \in 1..Len(rules) : rules[i].endpoint = x.ep} IN
  IF Cardinality(R) # 1 THEN "ok"
  ELSE LET r == rules[CHOOSE i \in R : TRUE]
           path == RootNoSlash(b) \o BuildPath(r, x.vals)
           dom == BuildDom(r, x.vals)
           host == BuildHost(m, b, dom)
           samehost == IF m.hm THEN host = b.server ELSE dom = b.sub
           u == SplitUrl(x.url)
       IN IF ~x.ok THEN (IF r.bo THEN "BuildOnlyBuilds" ELSE "BuildFails")
          ELSE IF r.ws THEN
               (IF u.ok /\ IsWsScheme(u.scheme) /\ u.host = host /\ u.path = path THEN "ok" ELSE "BuildWebsocketExternal")
          ELSE IF x.ext \/ ~samehost THEN
               (IF ~(u.ok /\ u.host = host /\ u.path = path) THEN (IF r.bo THEN "BuildOnlyBuilds" ELSE "BuildExternal")
                \* build docstring: ":param url_scheme: Scheme to use in place of the bound url_scheme."
                ELSE IF ~IsWsScheme(b.scheme) /\ b.scheme # <<>> /\ u.scheme # (IF x.scheme = <<>> THEN b.scheme ELSE x.scheme) THEN "BuildScheme"
                ELSE "ok")
          ELSE (IF x.url = path THEN "ok" ELSE IF r.bo THEN "BuildOnlyBuilds" ELSE "BuildRelative")
\* not documented (code comment only): wss iff the bound / given scheme is secure; an HTTP rule built from a
\* WebSocket bind gets http / https
BuildDrift(rules, m, b, x) ==
  LET R == {i \in 1..Len(rules) : rules[i].endpoint = x.ep} IN
  IF Cardinality(R) # 1 \/ ~x.ok THEN "ok"
  ELSE LET r == rules[CHOOSE i \in R : TRUE]
           u == SplitUrl(x.url)
           sec == Secure(IF x.scheme = <<>> THEN b.scheme ELSE x.scheme)
       IN IF ~u.ok THEN "ok"
          ELSE IF r.ws THEN (IF u.scheme = (IF sec THEN <<119, 115, 115>> ELSE <<119, 115>>) THEN "ok" ELSE "WsSchemeSecurity")
          ELSE IF u.scheme = (IF sec THEN <<104, 116, 116, 112, 115>> ELSE <<104, 116, 116, 112>>) THEN "ok" ELSE "HttpSchemeFromWsBind"

\* ------------------------------------------------------------------ rule factories (f)
(* RuleTemplate: "Returns copies of the rules wrapped and expands string templates in the endpoint, *)
(* rule, defaults or subdomain sections."  Rule.empty: "Return an unbound copy of this rule."       *)
(* Submount: "Like Subdomain but prefixes the URL rule with a given string".  Subdomain: "All URLs  *)
(* provided by this factory have the subdomain set to a specific domain."  EndpointPrefix:          *)
(* "Prefixes all endpoints (which must be strings for this factory) with another string."           *)
(* f = [fac, ctx (text substituted for $name / prefix / subdomain), src, out] with src / out =       *)
(*   [rule, endpoint, sub, subnone, host, hostnone, methods (set), anym, bo, strict, merge, alias,  *)
(*    ws, rt ("none" | "same" (the very redirect_to object) | "other"), defaults (set of [name, ty, v])] *)
RECURSIVE Subst(_, _)
\* string.Template substitution of $name by ctx (the only placeholder the drivers use)
Subst(s, ctx) == LET pat == <<36, 110, 97, 109, 101>> IN
                 IF s = <<>> THEN <<>> ELSE IF IsPrefixOf(pat, s) THEN ctx \o Subst(Drop(s, 5), ctx) ELSE <<s[1]>> \o Subst(Tail(s), ctx)
SubstDefaults(D, ctx) == {IF d.ty = "str" THEN [d EXCEPT !.v = Subst(d.v, ctx)] ELSE d : d \in D}
RStrip1(s) == RStripSlash(s)
ExpectedCopy(f) ==
  LET s == [f.src EXCEPT !.defaults = SeqToSet(f.src.defaults)] IN
  CASE f.fac = "RuleTemplate" -> [s EXCEPT !.rule = Subst(s.rule, f.ctx), !.endpoint = Subst(s.endpoint, f.ctx),
                                           !.sub = Subst(s.sub, f.ctx), !.defaults = SubstDefaults(s.defaults, f.ctx)]
    [] f.fac = "Submount" -> [s EXCEPT !.rule = RStrip1(f.ctx) \o s.rule]
    [] f.fac = "Subdomain" -> [s EXCEPT !.sub = f.ctx, !.subnone = FALSE]
    [] f.fac = "EndpointPrefix" -> [s EXCEPT !.endpoint = f.ctx \o s.endpoint]
    [] OTHER -> s
\* what the factory is documented to change / expand
CopyCore(x) == <<x.rule, x.endpoint, x.sub, x.subnone, x.defaults>>
CopyCoreObs(x) == <<x.rule, x.endpoint, x.sub, x.subnone, SeqToSet(x.defaults)>>
\* the rule's other options: a copy keeps them
CopyOptions(x) == <<x.host, x.hostnone, x.methods, x.anym, x.bo, x.strict, x.merge, x.alias, x.ws, x.rt>>
JudgeFactory(f) ==
  LET w == ExpectedCopy(f) IN
  IF CopyCoreObs(f.out) # CopyCore(w) THEN "FactoryExpands"
  ELSE IF CopyOptions(f.out) # CopyOptions(w) THEN "CopyKeepsOptions"
  ELSE "ok"
=============================================================================
