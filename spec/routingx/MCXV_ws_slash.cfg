CONSTANTS
  Variant = "fixed"
  XVariant = "ws_slash"
  RuleIds = {3, 4, 29}
  K = 1
  Toks <- TokS
  MaxParts = 2
  Methods = {"GET", "POST"}
  Binds = {1}
  WsKinds = {FALSE, TRUE}
  ExportEvery = 1
INIT Init
NEXT Next
INVARIANT ImplInExpectedX
