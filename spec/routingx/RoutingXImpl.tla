---------------------------- MODULE RoutingXImpl ----------------------------
(* Implementation-shaped model of the parts of StateMachineMatcher.match and MapAdapter.match that   *)
(* RoutingImpl.tla leaves out: the domain part as the first trie transition (Rule.compile: host or   *)
(* subdomain pattern, "" for none), build_only rules never added to the matcher (Map.add), the       *)
(* `rule.websocket != websocket` tests of the three places a rule is accepted (exact, one slash       *)
(* further, only a trailing slash left) with the websocket_mismatch flag next to have_match_for,      *)
(* NoMatch -> MethodNotAllowed before WebsocketMismatch before NotFound, converter validation beyond  *)
(* fixed_digits (min / max, a custom to_python), and redirect_to after a successful match.            *)
(* It reuses IParts / WKey / RegexOK / ValidOK / ArgsOf of RoutingImpl (Variant = "fixed").            *)
(*                                                                                                    *)
(* XVariant: "fixed"     the matcher with fixes/X07-websocket-mismatch-nonstrict-branch.diff           *)
(*           "orig"      the pinned tree: a non-strict branch rule of the other kind requested without  *)
(*                       its slash sets no websocket_mismatch (404 instead of WebsocketMismatch)        *)
(*           "ws_slash"  hand-broken: the websocket flag is ignored in the trailing-slash branch        *)
(*           "rt_first"  hand-broken: a redirect_to rule answers before its methods are checked         *)
(*           "bo_match"  hand-broken: build_only rules are added to the matcher                         *)
(*           "host_any"  hand-broken: a static domain transition is taken for any host                  *)
EXTENDS RoutingX, RoutingImpl

CONSTANT XVariant

WithDom(r) == [r EXCEPT !.segs = (IF r.host = <<>> THEN <<TrailSeg>> ELSE r.host) \o r.segs]
XValid(r, vals) == ValidOK(r, vals) /\ ArgsValid(r, ArgsOf(r, vals))
NoneX(hm, wm) == [kind |-> "none", r |-> 0, vals |-> <<>>, hm |-> hm, wm |-> wm]

RECURSIVE IMX(_, _, _, _, _, _, _, _, _, _)
RECURSIVE TDX(_, _, _, _, _, _, _, _, _, _, _)

(* R rules with the domain part prepended, m map settings, meth method, ws request kind;          *)
(* node = (S, d); parts still to match; vals captured; hm = have_match_for, wm = websocket_mismatch *)
IMX(R, m, meth, ws, S, d, parts, vals, hm, wm) ==
  LET IP(i) == IParts(R[i])
      here == {i \in S : Len(IP(i)) = d}
      Usable(i) == XValid(R[i], vals)
      Compat(i) == MethodOK(R[i], meth) \/ (XVariant = "rt_first" /\ R[i].rt.k # "none")
      Kind(i) == R[i].ws = ws
      StaticChild(c) == {i \in S : Len(IP(i)) > d /\ IP(i)[d + 1].static
                                   /\ (IP(i)[d + 1].seg.pre = c \/ (XVariant = "host_any" /\ d = 0))}
      \* `for rule in state.rules`: methods wrong -> have_match_for; elif kind wrong -> websocket_mismatch; else return
      Loop(cand) ==
        LET good == {i \in cand : Compat(i) /\ Kind(i)}
            c == IF good = {} THEN 0 ELSE MinOf(good)
            Bef(j) == c = 0 \/ j < c
        IN [c |-> c,
            hm |-> hm \cup UNION {MethodsOf(R[j]) : j \in {k \in cand : ~Compat(k) /\ Bef(k)}},
            wm |-> wm \/ \E j \in cand : Compat(j) /\ ~Kind(j) /\ Bef(j)]
  IN
  IF parts = <<>> THEN
       LET lp == Loop({i \in here : Usable(i)})
           tl == {i \in StaticChild(<<>>) : Len(IP(i)) = d + 1}
           KindS(i) == Kind(i) \/ XVariant = "ws_slash"
           sl == {i \in tl : KindS(i) /\ Compat(i) /\ Usable(i)}
           miss == {j \in tl : ~(KindS(j) /\ Compat(j)) /\ ~StrictOf(m, R[j]) /\ Usable(j)}
           hm3 == lp.hm \cup UNION {MethodsOf(R[j]) : j \in {k \in miss : IF XVariant = "orig" THEN Kind(k) ELSE ~Compat(k)}}
           wm3 == lp.wm \/ (XVariant # "orig" /\ \E j \in miss : Compat(j))
       IN IF lp.c # 0 THEN [kind |-> "rule", r |-> lp.c, vals |-> vals, hm |-> lp.hm, wm |-> lp.wm]
          ELSE IF sl # {} THEN
               (IF StrictOf(m, R[MinOf(sl)]) THEN [kind |-> "slashreq", r |-> 0, vals |-> <<>>, hm |-> lp.hm, wm |-> lp.wm]
                ELSE [kind |-> "rule", r |-> MinOf(sl), vals |-> vals, hm |-> lp.hm, wm |-> lp.wm])
          ELSE NoneX(hm3, wm3)
  ELSE
       LET part == parts[1]
           Tc == StaticChild(part)
           rs == IF Tc # {} THEN IMX(R, m, meth, ws, Tc, d + 1, Tail(parts), vals, hm, wm) ELSE NoneX(hm, wm)
       IN IF rs.kind # "none" THEN rs
          ELSE LET dyn == {IP(i)[d + 1] : i \in {j \in S : Len(IP(j)) > d /\ ~IP(j)[d + 1].static}}
                   rd == TDX(R, m, meth, ws, S, d, parts, vals, rs.hm, rs.wm, dyn)
               IN IF rd.kind # "none" THEN rd
                  ELSE IF parts = <<<<>>>> THEN
                       \* only a trailing slash is left: rules that are not strict about it match here
                       LET lp == [hm |-> rd.hm, wm |-> rd.wm]
                           cand == {i \in here : ~StrictOf(m, R[i]) /\ Usable(i)}
                           good == {i \in cand : Compat(i) /\ Kind(i)}
                           c == IF good = {} THEN 0 ELSE MinOf(good)
                           hm4 == rd.hm \cup UNION {MethodsOf(R[j]) : j \in {k \in cand : ~Compat(k) /\ (c = 0 \/ k < c)}}
                           wm4 == rd.wm \/ \E j \in cand : Compat(j) /\ ~Kind(j) /\ (c = 0 \/ j < c)
                       IN IF c # 0 THEN [kind |-> "rule", r |-> c, vals |-> vals, hm |-> hm4, wm |-> wm4] ELSE NoneX(hm4, wm4)
                  ELSE rd

TDX(R, m, meth, ws, S, d, parts, vals, hm, wm, todo) ==
  IF todo = {} THEN NoneX(hm, wm)
  ELSE
    LET IP(i) == IParts(R[i])
        First(pt) == MinOf({i \in S : Len(IP(i)) > d /\ IP(i)[d + 1] = pt})
        pt == CHOOSE x \in todo : \A y \in todo : WKey(x) < WKey(y) \/ (WKey(x) = WKey(y) /\ First(x) <= First(y))
        Tn == {i \in S : Len(IP(i)) > d /\ IP(i)[d + 1] = pt}
        target == IF pt.final THEN JoinFrom(parts, 1) ELSE parts[1]
        endsl == target # <<>> /\ target[Len(target)] = SLASH
        pval == IF pt.suffixed /\ endsl THEN Take(target, Len(target) - 1) ELSE target
        pok == /\ pval # <<>> /\ pval[1] # SLASH
               /\ (pt.suffixed => pval[Len(pval)] # SLASH)
        ok == IF pt.final THEN pok ELSE RegexOK(pt.seg, target)
        val == IF pt.final THEN pval ELSE Mid(pt.seg, target)
        remaining == IF pt.final THEN (IF pt.suffixed /\ endsl THEN <<<<>>>> ELSE <<>>) ELSE Tail(parts)
        r1 == IF ok THEN IMX(R, m, meth, ws, Tn, d + 1, remaining, Append(vals, val), hm, wm) ELSE NoneX(hm, wm)
    IN IF r1.kind # "none" THEN r1
       ELSE TDX(R, m, meth, ws, S, d, parts, vals, r1.hm, r1.wm, todo \ {pt})

\* MapAdapter.match around it; the outcome in the shape JudgeX reads
OutX(kind, rule, args, url, methods, fn) ==
  [kind |-> kind, rule |-> rule, args |-> args, argc |-> Cardinality(args), url |-> url, methods |-> methods,
   fnrule |-> IF fn THEN rule ELSE 0, fnargs |-> IF fn THEN args ELSE {}, fnadapter |-> fn, exc |-> ""]
NoMatchX(hm, wm) == IF hm # {} THEN OutX("mna", 0, {}, <<>>, hm, FALSE)
                    ELSE IF wm THEN OutX("wsm", 0, {}, <<>>, {}, FALSE)
                    ELSE OutX("notfound", 0, {}, <<>>, {}, FALSE)
RedirX(b, q) == [OutX("redirect", 0, {}, UrlBase(b) \o UrlPathFor(Root(b.script), q), {}, FALSE) EXCEPT !.exc = "path"]

ImplOutcomeX(rules, m, b, meth, ws, path) ==
  LET dom == DomOf(m, b)
      p == Norm(path)
      R == [i \in 1..Len(rules) |-> WithDom(rules[i])]
      all == {i \in 1..Len(rules) : XVariant = "bo_match" \/ ~rules[i].bo}       \* Map.add: `if not rule.build_only`
      PartsX(q) == <<dom>> \o PartsOf(q)
      r1 == IMX(R, m, meth, ws, all, 0, PartsX(p), <<>>, {}, FALSE)
  IN IF r1.kind = "slashreq" THEN RedirX(b, p \o <<SLASH>>)
     ELSE IF m.merge /\ r1.kind = "none" THEN
          LET pm == MergeSl(p)
              r2 == IMX(R, m, meth, ws, all, 0, PartsX(pm), <<>>, r1.hm, r1.wm)
          IN IF r2.kind = "slashreq" THEN RedirX(b, pm \o <<SLASH>>)
             ELSE IF r2.kind = "none" \/ ~MergeOf(m, R[r2.r]) THEN NoMatchX(r2.hm, r2.wm)
             ELSE RedirX(b, pm)
     ELSE IF r1.kind = "rule" THEN
          LET r == R[r1.r]
              a == XArgs(r, ArgsOf(r, r1.vals))
          IN IF r.rt.k = "none" THEN OutX("match", r1.r, a, <<>>, {}, FALSE)
             ELSE OutX("redirect", r1.r, a, TargetUrl(b, Target(r, a)), {}, r.rt.k = "fn")
     ELSE NoMatchX(r1.hm, r1.wm)
=============================================================================
