CONSTANTS
  Variant = "fixed"
  XVariant = "orig"
  RuleIds = {3, 4, 32}
  K = 1
  Toks <- TokS
  MaxParts = 2
  Methods = {"GET", "POST"}
  Binds = {1}
  WsKinds = {FALSE, TRUE}
  ExportEvery = 1
INIT Init
NEXT Next
INVARIANT ImplInExpectedX
