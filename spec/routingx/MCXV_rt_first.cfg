CONSTANTS
  Variant = "fixed"
  XVariant = "rt_first"
  RuleIds = {16, 18, 35}
  K = 1
  Toks <- TokS
  MaxParts = 2
  Methods = {"GET", "POST"}
  Binds = {5}
  WsKinds = {FALSE}
  ExportEvery = 1
INIT Init
NEXT Next
INVARIANT ImplInExpectedX
