CONSTANTS
  Variant = "fixed"
  XVariant = "fixed"
  RuleIds = {1, 2, 3, 4, 5, 6, 7, 8, 10, 11, 28, 29, 32, 34, 36}
  K = 3
  Toks <- TokS
  MaxParts = 2
  Methods = {"GET", "POST"}
  Binds = {1}
  WsKinds = {FALSE, TRUE}
  ExportEvery = 1
INIT Init
NEXT Next
INVARIANT ImplInExpectedX
