CONSTANTS
  Variant = "fixed"
  XVariant = "host_any"
  RuleIds = {21, 22, 24}
  K = 1
  Toks <- TokS
  MaxParts = 2
  Methods = {"GET", "POST"}
  Binds = {2, 3}
  WsKinds = {FALSE}
  ExportEvery = 1
INIT Init
NEXT Next
INVARIANT ImplInExpectedX
