CONSTANTS
  Variant = "fixed"
  XVariant = "fixed"
  RuleIds = {21, 23, 25, 26}
  K = 2
  Toks <- TokS
  MaxParts = 2
  Methods = {"GET", "POST"}
  Binds = {2, 4}
  WsKinds = {FALSE, TRUE}
  ExportEvery = 1
INIT Init
NEXT Next
INVARIANT ImplInExpectedX
