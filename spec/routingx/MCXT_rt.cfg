CONSTANTS
  Variant = "fixed"
  XVariant = "fixed"
  RuleIds = {9, 13, 14, 15, 16, 17, 18, 19, 20, 31, 35}
  K = 3
  Toks <- TokQ
  MaxParts = 2
  Methods = {"GET", "POST"}
  Binds = {5}
  WsKinds = {FALSE, TRUE}
  ExportEvery = 1
INIT Init
NEXT Next
INVARIANT ImplInExpectedX
