CONSTANTS
  Variant = "fixed"
  XVariant = "fixed"
  RuleIds = {3, 4, 8, 10, 13, 16, 18, 19, 35}
  K = 2
  Toks <- TokQ
  MaxParts = 2
  Methods = {"GET", "POST"}
  Binds = {5}
  WsKinds = {FALSE, TRUE}
  ExportEvery = 29
INIT Init
NEXT Next
INVARIANT ExportCase
