CONSTANTS
  Variant = "fixed"
  XVariant = "bo_match"
  RuleIds = {13, 14, 27}
  K = 1
  Toks <- TokS
  MaxParts = 2
  Methods = {"GET", "POST"}
  Binds = {1}
  WsKinds = {FALSE, TRUE}
  ExportEvery = 1
INIT Init
NEXT Next
INVARIANT ImplInExpectedX
