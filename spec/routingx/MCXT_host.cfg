CONSTANTS
  Variant = "fixed"
  XVariant = "fixed"
  RuleIds = {21, 22, 23, 24, 25, 26, 33}
  K = 3
  Toks <- TokS
  MaxParts = 2
  Methods = {"GET", "POST"}
  Binds = {2, 3, 4}
  WsKinds = {FALSE, TRUE}
  ExportEvery = 1
INIT Init
NEXT Next
INVARIANT ImplInExpectedX
