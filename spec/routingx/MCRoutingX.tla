------------------------------ MODULE MCRoutingX ------------------------------
(* Bounded model check of X07: for every map of 1..K distinct rules of the universe subset RuleIds  *)
(* (XUniverse: WebSocket / build_only / redirect_to / host rules over the alphabet a b 12 007 and   *)
(* the hosts h.x g.x), in every insertion order, under the four strict_slashes x merge_slashes      *)
(* settings, for every bind of Binds, both request kinds, every path of at most MaxParts parts over *)
(* Toks and every method: the outcome of the implementation-shaped matcher extension                 *)
(* (RoutingXImpl!ImplOutcomeX) is one the declarative contract (RoutingX!JudgeX) accepts.            *)
EXTENDS RoutingXImpl, MCRoutingXU, TLC, Json

CONSTANTS RuleIds, K, Toks, MaxParts, Methods, Binds, WsKinds, ExportEvery

VARIABLE c
vars == <<c>>

TokQ == {<<97>>, <<98>>, <<49, 50>>, <<48, 48, 55>>, <<>>}                         \* a b 12 007 ""
TokS == {<<97>>, <<98>>, <<49, 50>>, <<>>}                                         \* a b 12 ""

HTTP == <<104, 116, 116, 112>>
HX == <<104, 46, 120>>      \* h.x
GX == <<103, 46, 120>>      \* g.x
\* bind ids: 1 plain map, no subdomain; 2 / 3 host_matching map bound to h.x / g.x; 4 plain map bound with
\* subdomain "h.x" (rules carry subdomain patterns), script root /app
BindOf(id) ==
  CASE id = 1 -> [hm |-> FALSE, b |-> [scheme |-> HTTP, server |-> <<101, 46, 111>>, script |-> <<SLASH>>, sub |-> <<>>]]
    [] id = 2 -> [hm |-> TRUE,  b |-> [scheme |-> HTTP, server |-> HX, script |-> <<SLASH>>, sub |-> <<>>]]
    [] id = 3 -> [hm |-> TRUE,  b |-> [scheme |-> HTTP, server |-> GX, script |-> <<SLASH>>, sub |-> <<>>]]
    [] id = 4 -> [hm |-> FALSE, b |-> [scheme |-> HTTP, server |-> <<101, 46, 111>>, script |-> <<SLASH, 97, 112, 112>>, sub |-> HX]]
    [] id = 5 -> [hm |-> FALSE, b |-> [scheme |-> HTTP, server |-> <<101, 46, 111>>, script |-> <<SLASH, 97, 112, 112, SLASH>>, sub |-> <<>>]]

Distinct(s) == \A i, j \in 1..Len(s) : i # j => s[i] # s[j]
IdxSeqs == {s \in SeqsUpTo(RuleIds, K) : s # <<>> /\ Distinct(s)}
PathOf(ps) == <<SLASH>> \o JoinFrom(ps, 1)
PartSeqs == {ps \in SeqsUpTo(Toks, MaxParts) : ps # <<>> /\ ~HasTriple(PathOf(ps))}

RulesOf(idx) == [i \in 1..Len(idx) |-> XUniverse[idx[i]]]
MapOf(x) == [strict |-> x.strict, merge |-> x.merge, rd |-> TRUE, hm |-> BindOf(x.bind).hm]

\* two levels so that the workers share the evaluation (see MCRouting.tla)
Init == c \in [idx : IdxSeqs, strict : BOOLEAN, merge : BOOLEAN, bind : Binds, ws : WsKinds, parts : {<<>>}, meth : {""}, st : {0}]
Next == /\ c.st = 0
        /\ c' \in {[c EXCEPT !.parts = ps, !.meth = mm, !.st = 1] : ps \in PartSeqs, mm \in Methods}

Impl(x) == ImplOutcomeX(RulesOf(x.idx), MapOf(x), BindOf(x.bind).b, x.meth, x.ws, PathOf(x.parts))

\* the matcher model's answer is one the contract accepts; and the adapter's other methods on the model
\* (test() = "match() returned or redirected", allowed_methods() = the methods of the 405 for a method no
\* rule lists; the latter does not depend on the method and is checked once per path) are within theirs
ImplInExpectedX ==
  c.st = 1 =>
    LET R == RulesOf(c.idx)
        m == MapOf(c)
        b == BindOf(c.bind).b
        p == PathOf(c.parts)
        dom == DomOf(m, b)
        ood == OutOfDomainX(R, m, dom, p)
        o == ImplOutcomeX(R, m, b, c.meth, c.ws, p)
        e == ExpectedX(R, m, dom, Norm(p), c.meth, c.ws)
    IN /\ JudgeXE(R, b, dom, c.ws, o, e, ood) = "ok"
       /\ JudgeTestE(e, ood, o.kind \in {"match", "redirect"}) = "ok"
       /\ (c.meth = "GET" /\ ~ood) =>
             LET o0 == ImplOutcomeX(R, m, b, NOMETHOD, c.ws, p)
                 e0 == ExpectedX(R, m, dom, Norm(p), NOMETHOD, c.ws)
             IN JudgeAllowedE(e0, FALSE, IF o0.kind = "mna" THEN o0.methods ELSE {}) = "ok"

\* non-vacuity counters: how often each interesting answer occurs in the model (read in the POSTCONDITION)
Kinds == {"match", "redirect", "notfound", "mna", "wsm"}

\* the model's cases for the spec -> code replay (a deterministic 1-in-ExportEvery sample)
Hash(x) == Len(x.idx) * 7 + Len(x.parts) * 3 + (IF x.strict THEN 1 ELSE 0) + (IF x.merge THEN 2 ELSE 0) + (IF x.ws THEN 5 ELSE 0)
           + x.bind + SumSeq(x.idx) + SumSeq([i \in 1..Len(x.parts) |-> Len(x.parts[i]) + (IF x.parts[i] = <<>> THEN 0 ELSE x.parts[i][1])])
           + (IF x.meth = "GET" THEN 0 ELSE 1)
ExportCase ==
  IF c.st = 0 \/ Rem(Hash(c), ExportEvery) # 0 THEN TRUE
  ELSE PrintT(ToJson([idx |-> c.idx, strict |-> c.strict, merge |-> c.merge, bind |-> c.bind, ws |-> c.ws, path |-> PathOf(c.parts),
                      meth |-> c.meth, model |-> Impl(c).kind]))
=============================================================================
