CONSTANTS
  Variant = "fixed"
  XVariant = "fixed"
  RuleIds = {1, 2, 3, 4, 5, 6, 7, 8, 9, 10, 11, 12, 13, 14, 15, 16, 17, 18, 19, 20, 21, 22, 23, 24, 25, 26, 27, 28, 29, 30, 31, 32, 33, 34, 35, 36}
  K = 2
  Toks <- TokS
  MaxParts = 2
  Methods = {"GET", "POST"}
  Binds = {1, 2, 4}
  WsKinds = {FALSE, TRUE}
  ExportEvery = 1
INIT Init
NEXT Next
INVARIANT ImplInExpectedX
