CONSTANTS
  Variant = "fixed"
  XVariant = "fixed"
  RuleIds = {3, 4, 5, 8, 10, 32}
  K = 2
  Toks <- TokS
  MaxParts = 2
  Methods = {"GET", "POST"}
  Binds = {1}
  WsKinds = {FALSE, TRUE}
  ExportEvery = 1
INIT Init
NEXT Next
INVARIANT ImplInExpectedX
