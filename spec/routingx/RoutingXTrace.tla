---------------------------- MODULE RoutingXTrace ----------------------------
(* Trace judge for X07 (spec/routingx/RoutingX.tla).  Input: ndjson, TRACE_FILE.                      *)
(*   cfg      : [t, op, rules (X rules), map: [strict, merge, rd, hm], bind: [scheme, server, script, sub]] *)
(*   match    : [t, i, op, path, method, wsarg \in "none"|"t"|"f", r: Out]                             *)
(*   allowed  : [.., path, wsbind, methods]          test: [.., path, method, res]                     *)
(*   dispatch : [.., path, method, r: Out, d: [called, cep, cargs, how, what, same, catch, view]]      *)
(*   gethost  : [.., g: [none, dp, res]]             expecting: [.., x: [ep, names, res]]              *)
(*   iter     : [.., x: [all, ep, res]]              build: [.., x: [ep, vals, ext, url, ok]]          *)
(*   bindsub  : [.., raised, host]                   factory: [.., f: [fac, ctx, src, out]]            *)
(*   addbound : [.., raised]  (a rule of this map added to another Map)                                *)
(*   Out      : [kind \in match|redirect|notfound|mna|wsm|other, rule, args: <<[name, ty, v]>>, url,   *)
(*               methods, exc, fnrule, fnargs, fnadapter]                                              *)
(* One TLC state per line; every verdict is total.  A `match` line is also run through the             *)
(* implementation-shaped model (RoutingXImpl, XVariant of the cfg): a different answer kind is model   *)
(* drift, never a verdict.                                                                             *)
EXTENDS RoutingXImpl, TLC, Json, IOUtils

Lines == ndJsonDeserialize(IOEnv.TRACE_FILE)

VARIABLES l, cfg
vars == <<l, cfg>>

Obs(o) == [kind |-> o.kind, rule |-> o.rule, args |-> SeqToSet(o.args), argc |-> Len(o.args), url |-> o.url,
           methods |-> SeqToSet(o.methods), fnrule |-> o.fnrule, fnargs |-> SeqToSet(o.fnargs), fnadapter |-> o.fnadapter,
           exc |-> o.exc]

Verdict(c, ln) ==
  CASE ln.op = "match"     -> JudgeX(c.rules, c.map, c.bind, ln.path, ln.method, WsOf(c.bind, ln.wsarg), Obs(ln.r))
    [] ln.op = "allowed"   -> JudgeAllowed(c.rules, c.map, c.bind, ln.path, WsOf(c.bind, "none"), SeqToSet(ln.methods))
    [] ln.op = "test"      -> JudgeTest(c.rules, c.map, c.bind, ln.path, ln.method, WsOf(c.bind, "none"), ln.res)
    [] ln.op = "dispatch"  -> JudgeDispatch(c.rules, Obs(ln.r), [ln.d EXCEPT !.cargs = SeqToSet(ln.d.cargs)])
    [] ln.op = "gethost"   -> JudgeGetHost(c.map, c.bind, ln.g)
    [] ln.op = "expecting" -> JudgeExpecting(c.rules, ln.x)
    [] ln.op = "iter"      -> JudgeIter(c.rules, ln.x)
    [] ln.op = "build"     -> JudgeBuild(c.rules, c.map, c.bind, ln.x)
    [] ln.op = "bindsub"   -> (IF c.map.hm /\ ln.raised = "" /\ ln.host # c.bind.server THEN "HostMatchingDisablesSubdomain" ELSE "ok")
    [] ln.op = "factory"   -> JudgeFactory(ln.f)
    \* Map.add: "Add a new rule or factory to the map and bind it.  Requires that the rule is not bound to another map."
    [] ln.op = "addbound"  -> (IF ln.raised = "" THEN "AddRequiresUnboundRule" ELSE "ok")
    [] OTHER -> "UnknownOp"

Drift(c, ln) ==
  CASE ln.op = "match" ->
         (IF OutOfDomainX(c.rules, c.map, DomOf(c.map, c.bind), ln.path) THEN "ok"
          ELSE LET o == ImplOutcomeX(c.rules, c.map, c.bind, ln.method, WsOf(c.bind, ln.wsarg), ln.path) IN
               IF o.kind # ln.r.kind THEN "ModelAnswersOtherwise"
               ELSE IF o.kind = "match" /\ (o.rule # ln.r.rule \/ o.args # SeqToSet(ln.r.args)) THEN "ModelMatchesOtherRule"
               ELSE IF o.kind = "redirect" /\ o.url # ln.r.url
                       /\ (o.rule = 0 \/ ~TargetOOD(Target(WithDom(c.rules[o.rule]), o.args))) THEN "ModelRedirectsElsewhere"
               ELSE IF o.kind = "mna" /\ o.methods # SeqToSet(ln.r.methods) THEN "ModelListsOtherMethods"
               ELSE "ok")
    [] ln.op = "build" -> BuildDrift(c.rules, c.map, c.bind, ln.x)
    [] ln.op = "allowed" ->
         (IF OutOfDomainX(c.rules, c.map, DomOf(c.map, c.bind), ln.path) THEN "ok"
          ELSE LET o == ImplOutcomeX(c.rules, c.map, c.bind, NOMETHOD, WsOf(c.bind, "none"), ln.path) IN
               IF (IF o.kind = "mna" THEN o.methods ELSE {}) = SeqToSet(ln.methods) THEN "ok" ELSE "ModelAllowsOtherMethods")
    [] ln.op = "dispatch" ->
         (IF ln.r.kind = "redirect" /\ ~ln.d.catch /\ ln.d.how # "returned" THEN "RedirectRaisedByDispatch" ELSE "ok")
    [] OTHER -> "ok"

Init == l = 1 /\ cfg = [op |-> "none"]

Next == /\ l <= Len(Lines)
        /\ LET line == Lines[l] IN
           IF line.op = "cfg" THEN cfg' = line
           ELSE /\ cfg' = cfg
                /\ LET v == Verdict(cfg, line) IN
                   IF v = "ok" THEN TRUE
                   ELSE PrintT(ToJson([reject |-> 1, t |-> line.t, i |-> line.i, clause |-> v]))
                /\ LET w == Drift(cfg, line) IN
                   IF w = "ok" THEN TRUE
                   ELSE PrintT(ToJson([drift |-> 1, t |-> line.t, i |-> line.i, what |-> w]))
        /\ l' = l + 1

Done == PrintT(ToJson([judged |-> Len(Lines)])) /\ TLCGet("generated") >= 0
=============================================================================
