------------------------------ MODULE HeaderViews ------------------------------
(* Contract ("documented model") of the live views of response headers (C16).               *)
(*                                                                                            *)
(* A view is an abstract value; every documented mutator is a function value -> value (or a   *)
(* documented exception that changes nothing); every view kind has a serialiser to header     *)
(* text (code points).  The contract of a step on a view with value v, giving v2:             *)
(*    header text = Ser(v2), absent when Empty(v2)        (a no-op may leave the header alone) *)
(*    re-reading the property yields a view equal to NF(v2)                                   *)
(* Transcribed from the documentation (docstrings of HeaderSet, cache_control_property,       *)
(* _CacheControl, ContentSecurityPolicy, ContentRange, WWWAuthenticate, dump_header,          *)
(* quote_header_value, dump_options_header, http_date), not from the code.                    *)
(*                                                                                            *)
(* Encoding: text = sequence of code points; optional x = <<>> or <<x>>;                      *)
(*   set kinds   : sequence of texts (order kept, membership ignores ASCII letter case)       *)
(*   dict kinds  : sequence of [k |-> text, v |-> optional text] in insertion order           *)
(*   wa          : [ty |-> text, tok |-> optional text, ps |-> dict]                          *)
(*   cr          : [un |-> optional text, st, sp, ln |-> optional int]                        *)
(*   typed value : [tg |-> "none"|"true"|"false"|"int"|"str"|"dt"|"list", n, m, s, xs]        *)
EXTENDS Integers, Sequences, FiniteSets, Bytes, HVTables

None == <<>>
Some(x) == <<x>>
R(v, exc) == [v |-> v, exc |-> exc]

\* ------------------------------------------------------------------ text
IsUp(c) == c >= 65 /\ c <= 90
IsLo(c) == c >= 97 /\ c <= 122
LowC(c) == IF IsUp(c) THEN c + 32 ELSE c
UpC(c) == IF IsLo(c) THEN c - 32 ELSE c
Lower(s) == [i \in 1..Len(s) |-> LowC(s[i])]
\* str.title() on ASCII: a letter is upper-cased unless the preceding character is a letter
Title(s) == [i \in 1..Len(s) |-> IF i > 1 /\ (IsUp(s[i - 1]) \/ IsLo(s[i - 1])) THEN LowC(s[i]) ELSE UpC(s[i])]
AllToken(s) == \A i \in 1..Len(s) : s[i] \in TokenChars
Printable(s) == \A i \in 1..Len(s) : s[i] >= 32 /\ s[i] <= 126
NoEdgeSpace(s) == s = <<>> \/ (s[1] # 32 /\ s[Len(s)] # 32)
Has(s, c) == \E i \in 1..Len(s) : s[i] = c
RECURSIVE Esc(_)
Esc(s) == IF s = <<>> THEN <<>>
          ELSE (IF Head(s) = 92 \/ Head(s) = 34 THEN <<92, Head(s)>> ELSE <<Head(s)>>) \o Esc(Tail(s))
\* quote_header_value: "" -> two quotes; only token characters -> unchanged; else quoted + escaped
Quote(s, allowToken) == IF s = <<>> THEN <<34, 34>>
                        ELSE IF allowToken /\ AllToken(s) THEN s
                        ELSE <<34>> \o Esc(s) \o <<34>>
RECURSIVE Join(_, _)
Join(ss, sep) == IF ss = <<>> THEN <<>> ELSE IF Len(ss) = 1 THEN ss[1] ELSE ss[1] \o sep \o Join(Tail(ss), sep)
RECURSIVE DecN(_)
DecN(n) == IF n < 10 THEN <<48 + n>> ELSE DecN(n \div 10) \o <<48 + (n % 10)>>
Dec(n) == IF n < 0 THEN <<45>> \o DecN(0 - n) ELSE DecN(n)
Dec2(n) == IF n < 10 THEN <<48>> \o DecN(n) ELSE DecN(n)
Dec4(n) == IF n < 10 THEN <<48, 48, 48>> \o DecN(n) ELSE IF n < 100 THEN <<48, 48>> \o DecN(n)
           ELSE IF n < 1000 THEN <<48>> \o DecN(n) ELSE DecN(n)
AllDigits(s) == s # <<>> /\ \A i \in 1..Len(s) : s[i] >= 48 /\ s[i] <= 57
RECURSIVE ParseNat(_, _)
ParseNat(s, acc) == IF s = <<>> THEN acc ELSE ParseNat(Tail(s), acc * 10 + (Head(s) - 48))
\* characters int() tolerates around / inside a number: if none but digits occur the result is known
MaybeNumeric(s) == \A i \in 1..Len(s) : (s[i] >= 48 /\ s[i] <= 57) \/ s[i] \in {32, 43, 45, 95, 9, 10, 13, 11, 12}
RECURSIVE LStrip(_)
LStrip(s) == IF s # <<>> /\ Head(s) \in {32, 9} THEN LStrip(Tail(s)) ELSE s
RECURSIVE RStrip(_)
RStrip(s) == IF s # <<>> /\ s[Len(s)] \in {32, 9} THEN RStrip(SubSeq(s, 1, Len(s) - 1)) ELSE s
Strip(s) == RStrip(LStrip(s))
RemoveAt(s, i) == SubSeq(s, 1, i - 1) \o SubSeq(s, i + 1, Len(s))
PyIdx(n, len) == IF n < 0 THEN len + n + 1 ELSE n + 1      \* Python index -> 1-based

\* ------------------------------------------------------------------ HeaderSet (Vary, Allow, Content-Language)
SetHas(items, x) == \E i \in 1..Len(items) : Lower(items[i]) = Lower(x)
SetIdx(items, x) == CHOOSE i \in 1..Len(items) :
                      Lower(items[i]) = Lower(x) /\ \A j \in 1..(i - 1) : Lower(items[j]) # Lower(x)
SetAdd(items, x) == IF SetHas(items, x) THEN items ELSE Append(items, x)
RECURSIVE SetUpdate(_, _)
SetUpdate(items, xs) == IF xs = <<>> THEN items ELSE SetUpdate(SetAdd(items, Head(xs)), Tail(xs))
SetDistinct(items) == \A i, j \in 1..Len(items) : i # j => Lower(items[i]) # Lower(items[j])

SetApply(op, a, v) ==
  CASE op = "add"     -> R(SetAdd(v, a.x), "")
    [] op = "remove"  -> IF SetHas(v, a.x) THEN R(RemoveAt(v, SetIdx(v, a.x)), "") ELSE R(v, "KeyError")
    [] op = "discard" -> IF SetHas(v, a.x) THEN R(RemoveAt(v, SetIdx(v, a.x)), "") ELSE R(v, "")
    [] op = "clear"   -> R(<<>>, "")
    [] op = "update"  -> R(SetUpdate(v, a.xs), "")
    [] op = "setitem" -> LET i == PyIdx(a.n, Len(v)) IN
                         IF i >= 1 /\ i <= Len(v) THEN R([v EXCEPT ![i] = a.x], "") ELSE R(v, "IndexError")
    [] op = "delitem" -> LET i == PyIdx(a.n, Len(v)) IN
                         IF i >= 1 /\ i <= Len(v) THEN R(RemoveAt(v, i), "") ELSE R(v, "IndexError")
    [] OTHER -> R(v, "?")
SetItemOK(x) == x # <<>> /\ Printable(x) /\ NoEdgeSpace(x)
SetValOK(v) == SetDistinct(v) /\ \A i \in 1..Len(v) : SetItemOK(v[i])
SerSet(v) == Join([i \in 1..Len(v) |-> Quote(v[i], TRUE)], <<44, 32>>)

\* ------------------------------------------------------------------ dict kinds
DHas(d, k) == \E i \in 1..Len(d) : d[i].k = k
DIdx(d, k) == CHOOSE i \in 1..Len(d) : d[i].k = k
DGet(d, k) == d[DIdx(d, k)].v
DPut(d, k, v) == IF DHas(d, k) THEN [d EXCEPT ![DIdx(d, k)] = [k |-> k, v |-> v]] ELSE Append(d, [k |-> k, v |-> v])
DDel(d, k) == IF DHas(d, k) THEN RemoveAt(d, DIdx(d, k)) ELSE d
RECURSIVE DUpdate(_, _)
DUpdate(d, ps) == IF ps = <<>> THEN d ELSE DUpdate(DPut(d, Head(ps).k, Head(ps).v), Tail(ps))
DKeysDistinct(d) == \A i, j \in 1..Len(d) : i # j => d[i].k # d[j].k

DictApply(op, a, d) ==
  CASE op = "setitem"    -> R(DPut(d, a.x, a.y), "")
    \* del d[k] and pop(k) without a default: KeyError when the key is missing
    [] op \in {"delitem", "pop1"} -> IF DHas(d, a.x) THEN R(DDel(d, a.x), "") ELSE R(d, "KeyError")
    [] op = "ior"        -> R(DUpdate(d, a.ps), "")          \* d |= mapping / iterable of pairs
    [] op = "pop"        -> R(DDel(d, a.x), "")              \* pop(key, default)
    [] op = "clear"      -> R(<<>>, "")
    [] op = "update"     -> R(DUpdate(d, a.ps), "")
    [] op = "setdefault" -> R(IF DHas(d, a.x) THEN d ELSE DPut(d, a.x, a.y), "")
    [] op = "popitem"    -> IF d = <<>> THEN R(d, "KeyError") ELSE R(SubSeq(d, 1, Len(d) - 1), "")
    [] OTHER -> R(d, "?")
IsDictOp(op) == op \in {"setitem", "delitem", "pop", "pop1", "ior", "clear", "update", "setdefault", "popitem"}

\* dump_header of a dict: key alone when the value is None, else key=quoted value
SerPair(p) == IF p.v = None THEN p.k ELSE p.k \o <<61>> \o Quote(p.v[1], TRUE)
SerDict(d) == Join([i \in 1..Len(d) |-> SerPair(d[i])], <<44, 32>>)
KeyOK(k) == k # <<>> /\ AllToken(k) /\ k[Len(k)] # 42
ValOK(o) == o = None \/ Printable(o[1])
DictOK(d) == DKeysDistinct(d) /\ \A i \in 1..Len(d) : KeyOK(d[i].k) /\ ValOK(d[i].v)

\* --- Cache-Control typed directives
\* Python truth of an assigned value: True, non-zero int / float, non-empty str; False, None, 0, 0.0, "", [] are falsy
Truthy(tv) == tv.tg = "true" \/ (tv.tg \in {"int", "float"} /\ tv.n # 0) \/ (tv.tg = "str" /\ tv.s # <<>>)
CCKnown(tag) == tag \in DOMAIN CCDir
\* result: R(dict, exc); exc "ood" = outside the modelled input domain
CCSet(tag, tv, d) ==
  LET dir == CCDir[tag] k == dir.key IN
  IF dir.ty = "bool" THEN R(IF Truthy(tv) THEN DPut(d, k, None) ELSE DDel(d, k), "")
  ELSE IF tv.tg \in {"float", "elist"} THEN R(d, "ood")        \* only modelled on boolean directives
  ELSE IF tv.tg \in {"none", "false"} THEN R(DDel(d, k), "")
  ELSE IF tv.tg = "true" THEN R(DPut(d, k, None), "")
  ELSE IF dir.ty = "int" THEN
       (IF tv.tg = "int" THEN R(DPut(d, k, Some(Dec(tv.n))), "")
        ELSE IF AllDigits(tv.s) /\ Len(tv.s) <= 9 THEN R(DPut(d, k, Some(Dec(ParseNat(tv.s, 0)))), "")
        ELSE IF ~MaybeNumeric(tv.s) \/ tv.s = <<>> THEN R(d, "ValueError")
        ELSE R(d, "ood"))
  ELSE R(DPut(d, k, Some(IF tv.tg = "int" THEN Dec(tv.n) ELSE tv.s)), "")
TV(tg, n, s) == [tg |-> tg, n |-> n, s |-> s]
\* value read from the typed attribute ("any" = not determined by the documentation used here)
CCRead(tag, d) ==
  LET dir == CCDir[tag] k == dir.key IN
  IF dir.ty = "bool" THEN TV(IF DHas(d, k) THEN "true" ELSE "false", 0, <<>>)
  ELSE IF ~DHas(d, k) THEN TV("none", 0, <<>>)
  ELSE IF DGet(d, k) = None THEN TV(dir.em, 0, <<>>)
  ELSE LET s == DGet(d, k)[1] IN
       IF dir.ty = "str" THEN TV("str", 0, s)
       ELSE IF AllDigits(s) /\ Len(s) <= 9 THEN TV("int", ParseNat(s, 0), <<>>)
       ELSE IF ~MaybeNumeric(s) \/ s = <<>> THEN TV("none", 0, <<>>)
       ELSE TV("any", 0, <<>>)

\* --- Content-Security-Policy: "key value; key value"
SerCSP(d) == Join([i \in 1..Len(d) |-> d[i].k \o <<32>> \o d[i].v[1]], <<59, 32>>)
CSPKeyOK(k) == k # <<>> /\ Printable(k) /\ ~Has(k, 32) /\ ~Has(k, 59)
\* the empty string is a value (header text "key " -- it is not the same as None / absent); a value-less
\* directive does not survive re-parsing (parse_csp_header skips it), so only the re-read clause excludes it
CSPValOK(o) == o # None /\ Printable(o[1]) /\ ~Has(o[1], 59) /\ NoEdgeSpace(o[1])
CSPRoundTrips(d) == \A i \in 1..Len(d) : d[i].v[1] # <<>>
CSPOK(d) == DKeysDistinct(d) /\ \A i \in 1..Len(d) : CSPKeyOK(d[i].k) /\ CSPValOK(d[i].v)
CSPKnown(tag) == tag \in DOMAIN CSPDir
CSPSet(tag, y, d) == IF y = None THEN DDel(d, CSPDir[tag]) ELSE DPut(d, CSPDir[tag], y)

\* --- mimetype parameters: "mimetype; k=v; k=v"
MimeOf(text) == LET p == FindFrom(text, <<59>>, 1) IN Strip(IF p = 0 THEN text ELSE SubSeq(text, 1, p - 1))
SerMTP(mt, d) == Join(<<mt>> \o [i \in 1..Len(d) |-> d[i].k \o <<61>> \o Quote(d[i].v[1], TRUE)], <<59, 32>>)
MTPKeyOK(k) == KeyOK(k) /\ k = Lower(k) /\ ~(\E i \in 1..Len(k) : k[i] = 42)
MTPValOK(o) == o # None /\ Printable(o[1]) /\ ~Has(o[1], 37)
MTPOK(d) == DKeysDistinct(d) /\ \A i \in 1..Len(d) : MTPKeyOK(d[i].k) /\ MTPValOK(d[i].v)
EndsWith(s, suf) == Len(s) >= Len(suf) /\ SubSeq(s, Len(s) - Len(suf) + 1, Len(s)) = suf
\* get_content_type(mimetype, "utf-8") for text/* and *+xml types (the six listed application types are not used)
TextSlash == <<116, 101, 120, 116, 47>>
PlusXml == <<43, 120, 109, 108>>
CharsetUtf8 == <<59, 32, 99, 104, 97, 114, 115, 101, 116, 61, 117, 116, 102, 45, 56>>
ContentTypeFor(mt) == IF IsPrefixOf(TextSlash, mt) \/ EndsWith(mt, PlusXml) THEN mt \o CharsetUtf8 ELSE mt

\* ------------------------------------------------------------------ Content-Range
CRNone == [un |-> None, st |-> None, sp |-> None, ln |-> None]
CRValid(st, sp, ln) ==
  IF (st = None) # (sp = None) THEN FALSE
  ELSE IF st = None THEN ln = None \/ ln[1] >= 0
  ELSE IF ln = None THEN 0 <= st[1] /\ st[1] < sp[1]
  ELSE IF st[1] >= sp[1] THEN FALSE
  ELSE 0 <= st[1] /\ st[1] < ln[1]
CRApply(op, a, c) ==
  CASE op = "set"   -> IF CRValid(a.m1, a.m2, a.m3) THEN R([un |-> a.y, st |-> a.m1, sp |-> a.m2, ln |-> a.m3], "")
                       ELSE R(c, "AssertionError")
    [] op = "unset" -> R(CRNone, "")
    [] op = "set_units"  -> R([c EXCEPT !.un = a.y], "")
    [] op = "set_start"  -> R([c EXCEPT !.st = a.m1], "")
    [] op = "set_stop"   -> R([c EXCEPT !.sp = a.m1], "")
    [] op = "set_length" -> R([c EXCEPT !.ln = a.m1], "")
    [] OTHER -> R(c, "?")
UnitsOK(u) == u # <<>> /\ AllToken(u)
CROK(c) == c.un = None \/ (UnitsOK(c.un[1]) /\ CRValid(c.st, c.sp, c.ln))
SerCR(c) == c.un[1] \o <<32>>
            \o (IF c.st = None THEN <<42>> ELSE Dec(c.st[1]) \o <<45>> \o Dec(c.sp[1] - 1))
            \o <<47>> \o (IF c.ln = None THEN <<42>> ELSE Dec(c.ln[1]))

\* ------------------------------------------------------------------ WWW-Authenticate
WAApply(op, a, w) ==
  CASE op = "set_type"   -> R([w EXCEPT !.ty = a.x], "")
    [] op = "set_token"  -> R([w EXCEPT !.tok = a.y], "")
    [] op = "set_params" -> R([w EXCEPT !.ps = DUpdate(<<>>, a.ps)], "")
    [] op \in {"setitem", "setattr"} -> R([w EXCEPT !.ps = IF a.y = None THEN DDel(w.ps, a.x) ELSE DPut(w.ps, a.x, a.y)], "")
    [] op \in {"delitem", "delattr"} -> R([w EXCEPT !.ps = DDel(w.ps, a.x)], "")
    [] OTHER -> R(w, "?")
PDictOp(op) == CASE op = "p_pop1" -> "pop1" [] op = "p_ior" -> "ior" [] op = "p_setitem" -> "setitem" [] op = "p_delitem" -> "delitem" [] op = "p_pop" -> "pop"
                 [] op = "p_clear" -> "clear" [] op = "p_update" -> "update" [] op = "p_setdefault" -> "setdefault"
                 [] op = "p_popitem" -> "popitem" [] OTHER -> "?"
WAStep(op, a, w) == IF PDictOp(op) # "?"
                    THEN LET r == DictApply(PDictOp(op), a, w.ps) IN R([w EXCEPT !.ps = r.v], r.exc)
                    ELSE WAApply(op, a, w)
SerDigestPair(p) == p.k \o <<61>> \o Quote(p.v[1], ~(p.k \in DigestQuoted))
SerWA(w) == IF w.tok # None THEN Title(w.ty) \o <<32>> \o w.tok[1]
            ELSE IF w.ty = TDigest THEN <<68, 105, 103, 101, 115, 116, 32>> \o Join([i \in 1..Len(w.ps) |-> SerDigestPair(w.ps[i])], <<44, 32>>)
            ELSE Title(w.ty) \o <<32>> \o SerDict(w.ps)
TypeOK_(ty) == ty # <<>> /\ \A i \in 1..Len(ty) : IsLo(ty[i])
TokOK(tk) == \A i \in 1..Len(tk) : (tk[i] >= 48 /\ tk[i] <= 57) \/ IsUp(tk[i]) \/ IsLo(tk[i]) \/ tk[i] \in {45, 46, 95, 126, 43, 47}
WAOK(w) == /\ TypeOK_(w.ty)
           /\ DictOK(w.ps)
           /\ w.tok # None => TokOK(w.tok[1])
           /\ w.ty = TDigest => \A i \in 1..Len(w.ps) : w.ps[i].v # None
\* what re-reading yields: a token hides the parameters; no token and no parameters reads as the empty token
WANF(w) == IF w.tok # None THEN [w EXCEPT !.ps = <<>>]
           ELSE IF w.ps = <<>> THEN [w EXCEPT !.tok = Some(<<>>)] ELSE w
\* "only one of token / parameters should have a value"; a parameter list without any "=" reads back as a token
WARoundTrips(w) == IF w.tok # None THEN w.ps = <<>>
                   ELSE w.ps = <<>> \/ \E i \in 1..Len(w.ps) : w.ps[i].v # None

\* ------------------------------------------------------------------ aliasing
\* Aliasing steps: the value handed to a mutator / setter is (or shares structure with) what the view itself hands
\* out.  The documented model is by value: the result is what the same call gives with an equal, unrelated value.
SelfOps == {"update_self", "ior_self", "item_self", "setitem_self", "set_self", "attr_self", "type_self", "token_self",
            "cc_self", "csp_self", "alias_params", "params_ior", "ior"}
AliasApply(k, op, a, v) ==
  CASE op \in {"update_self", "ior_self", "attr_self", "type_self", "token_self"} -> R(v, "")
    [] op = "item_self" /\ k \in {"cc", "csp", "mtp"} -> IF DHas(v, a.x) THEN R(v, "") ELSE R(v, "KeyError")
    [] op = "setitem_self" /\ k = "set" -> LET i == PyIdx(a.n, Len(v)) IN IF i >= 1 /\ i <= Len(v) THEN R(v, "") ELSE R(v, "IndexError")
    [] op = "ior" /\ k = "set" -> R(SetUpdate(v, a.xs), "")
    [] op = "ior" /\ k \in {"cc", "csp", "mtp"} -> R(DUpdate(v, a.ps), "")
    [] op = "set_self" /\ k = "cr" -> IF CRValid(v.st, v.sp, v.ln) THEN R(v, "") ELSE R(v, "AssertionError")
    [] op = "cc_self" /\ k = "cc" -> IF ~CCKnown(a.tag) THEN R(v, "ood")
                                     ELSE LET tv == CCRead(a.tag, v) IN IF tv.tg = "any" THEN R(v, "ood") ELSE CCSet(a.tag, tv, v)
    [] op = "csp_self" /\ k = "csp" -> R(v, "")
    [] op = "alias_params" /\ k = "wa" -> R([v EXCEPT !.ps = IF a.tag = "mut" THEN DPut(v.ps, a.x, a.y) ELSE v.ps], "")
    [] op = "params_ior" /\ k = "wa" -> R([v EXCEPT !.ps = DUpdate(v.ps, a.ps)], "")
    [] OTHER -> R(v, "ood")

\* ------------------------------------------------------------------ steps that (re)assert the view
\* A step that stores / assigns something -- as opposed to "remove if present", "insert if absent" -- asserts the view's
\* state even when the stored value equals the one it replaces: afterwards the header equals the view's serialisation,
\* also when the header had been changed behind the view (direct edit, assignment, another view).  v2 = value after.
Reasserts(k, op, a, v2) ==
  CASE k = "cr"  -> TRUE
    [] k = "set" -> op \in {"clear", "setitem", "setitem_self"}
    [] k \in {"cc", "csp", "mtp"} ->
         \/ op \in {"setitem", "item_self", "update", "update_self", "ior", "ior_self", "clear"}
         \/ (op \in {"cc_set", "cc_self"} /\ k = "cc" /\ CCKnown(a.tag) /\ DHas(v2, CCDir[a.tag].key))
         \/ (op \in {"csp_set", "csp_self"} /\ k = "csp" /\ CSPKnown(a.tag) /\ DHas(v2, CSPDir[a.tag]))
    [] k = "wa"  -> op \in {"set_type", "type_self", "set_token", "token_self", "set_params", "alias_params", "params_ior",
                            "setitem", "setattr", "p_setitem", "p_update", "p_ior", "p_clear"}
    [] OTHER -> FALSE

\* ------------------------------------------------------------------ per kind dispatch
SetKinds == {"set"}
Empty(k, v) == CASE k = "set" -> v = <<>> [] k \in {"cc", "csp"} -> v = <<>> [] k = "cr" -> v.un = None [] OTHER -> FALSE
Ser(k, v, prevText) ==
  CASE k = "set" -> SerSet(v) [] k = "cc" -> SerDict(v) [] k = "csp" -> SerCSP(v) [] k = "cr" -> SerCR(v)
    [] k = "wa" -> SerWA(v) [] k = "mtp" -> SerMTP(MimeOf(prevText), v) [] OTHER -> <<>>
\* header after a notifying mutation: optional text
Written(k, v, prev) == IF Empty(k, v) THEN None ELSE Some(Ser(k, v, IF prev = None THEN <<>> ELSE prev[1]))
ValueOK(k, v) ==
  CASE k = "set" -> SetValOK(v) [] k = "cc" -> DictOK(v) [] k = "csp" -> CSPOK(v) [] k = "cr" -> CROK(v)
    [] k = "wa" -> WAOK(v) [] k = "mtp" -> MTPOK(v) [] OTHER -> FALSE
NF(k, v) == CASE k = "wa" -> WANF(v) [] k = "cr" -> (IF v.un = None THEN CRNone ELSE v) [] OTHER -> v

\* ------------------------------------------------------------------ HTTP dates (IMF-fixdate) from (day number, second of day), UTC
CivilY(day) ==
  LET z == day + 719468  era == z \div 146097  doe == z - era * 146097
      yoe == (doe - doe \div 1460 + doe \div 36524 - doe \div 146096) \div 365
      doy == doe - (365 * yoe + yoe \div 4 - yoe \div 100)
      mp == (5 * doy + 2) \div 153
      d == doy - (153 * mp + 2) \div 5 + 1
      m == IF mp < 10 THEN mp + 3 ELSE mp - 9
      y == yoe + era * 400
  IN [y |-> IF m <= 2 THEN y + 1 ELSE y, m |-> m, d |-> d]
ImfDate(day, sec) ==
  LET c == CivilY(day) IN
  DayNames[((day + 3) % 7) + 1] \o <<44, 32>> \o Dec2(c.d) \o <<32>> \o MonNames[c.m] \o <<32>> \o Dec4(c.y) \o <<32>>
  \o Dec2(sec \div 3600) \o <<58>> \o Dec2((sec % 3600) \div 60) \o <<58>> \o Dec2(sec % 60) \o TGMT
\* 0001-01-01 .. 9999-12-31
DateOK(day, sec) == day >= 0 - 719162 /\ day <= 2932896 /\ sec >= 0 /\ sec < 86400
\* years 1..99 print as 0001..0099, which RFC 2822 parsers read as two-digit years: no read-back claim there
DateReadsBack(day) == day >= 0 - 683003
=============================================================================
