--------------------------- MODULE HeaderViewsTrace ---------------------------
(* Trace judge for C16.  Input: ndjson (TRACE_FILE); one trace = one Response object.        *)
(* line = [t, i, op, k, h, vw, a, exc, ht, nh, nhh, nhb, vt, vp, rp, rb, hasexp, exp]         *)
(*   op  : "init" | "get_view" | view mutators | "assign" | "del_prop" | "direct_edit"        *)
(*         | "sync" | "adopt" (repository-test sessions, bookkeeping only)                    *)
(*         | "sc_assign" | "sc_del"                                                           *)
(*   k   : view kind "set"|"cc"|"csp"|"cr"|"wa"|"mtp"  (or the scalar class for sc ops)        *)
(*   h   : index of the header the step is about; vw: view slot (0 = none)                    *)
(*   a   : arguments [x, y, xs, ps, n, m1, m2, m3, tag, tv, w, ws] (all always present)        *)
(*   exc : "" or the exception class name                                                     *)
(*   ht  : present headers after the step, <<[h, t]>> (first line of each name); nh = number  *)
(*         of header lines, nhh / nhb = lines of header h after / before the step             *)
(*   ht2, nh2 : the same after the recorder re-read the property (state for the next line)    *)
(*   vt  : optional view.to_header(); vp: projection of the mutated view (reads through the    *)
(*         public API); rp: projection of the re-read property; rb: value read back            *)
(* The judge keeps, per trace, the documented-model value of every live view and the header    *)
(* texts; all verdicts are total.  Lines outside the modelled input domain are accepted and    *)
(* the model is re-synchronised from the observation (never a verdict).                        *)
EXTENDS HeaderViews, TLC, Json, IOUtils

Lines == ndJsonDeserialize(IOEnv.TRACE_FILE)

VARIABLES l, st
vars == <<l, st>>

HtGet(ht, h) == IF \E i \in 1..Len(ht) : ht[i].h = h
                THEN Some(ht[CHOOSE i \in 1..Len(ht) : ht[i].h = h].t) ELSE None
Others(ht, h) == SelectSeq(ht, LAMBDA e : e.h # h)

Apply(k, op, a, v) ==
  CASE op \in SelfOps -> AliasApply(k, op, a, v)
    [] k = "set" -> SetApply(op, a, v)
    [] k = "cc"  -> IF op = "cc_set" THEN (IF CCKnown(a.tag) THEN CCSet(a.tag, a.tv, v) ELSE R(v, "ood"))
                    ELSE IF op = "cc_del" THEN (IF CCKnown(a.tag) THEN R(DDel(v, CCDir[a.tag].key), "") ELSE R(v, "ood"))
                    ELSE DictApply(op, a, v)
    [] k = "csp" -> IF op = "csp_set" THEN (IF CSPKnown(a.tag) THEN R(CSPSet(a.tag, a.y, v), "") ELSE R(v, "ood"))
                    ELSE IF op = "csp_del" THEN (IF CSPKnown(a.tag) THEN R(DDel(v, CSPDir[a.tag]), "") ELSE R(v, "ood"))
                    ELSE DictApply(op, a, v)
    [] k = "mtp" -> DictApply(op, a, v)
    [] k = "cr"  -> CRApply(op, a, v)
    [] k = "wa"  -> WAStep(op, a, v)
    [] OTHER -> R(v, "ood")

RoundTrips(k, v) == IF k = "wa" THEN WARoundTrips(v) ELSE IF k = "csp" THEN CSPRoundTrips(v) ELSE TRUE
EmptyView(k) == CASE k = "cr" -> CRNone
                  [] k = "wa" -> [ty |-> <<98, 97, 115, 105, 99>>, tok |-> None, ps |-> <<>>]
                  [] OTHER -> <<>>
MimeOK(prev) == prev # None /\ MimeOf(prev[1]) # <<>> /\ AllToken(SelectSeq(MimeOf(prev[1]), LAMBDA c : c # 47))

\* expected value read back from a typed attribute after a typed set ("any": not determined)
TypedRead(k, op, a, v) ==
  IF k = "cc" /\ op \in {"cc_set", "cc_del"} THEN CCRead(a.tag, v)
  ELSE IF k = "csp" /\ op \in {"csp_set", "csp_del"}
       THEN (IF DHas(v, CSPDir[a.tag]) THEN TV("str", 0, DGet(v, CSPDir[a.tag])[1]) ELSE TV("none", 0, <<>>))
  ELSE TV("any", 0, <<>>)
RbEq(rb, e) == e.tg = "any" \/ (rb.tg = e.tg /\ rb.n = e.n /\ rb.s = e.s)

FrameOK(s, ln) == /\ Others(ln.ht, ln.h) = Others(s.ht, ln.h)
                  /\ ln.nh - ln.nhh = s.nh - ln.nhb
RereadOK(ln) == LET a == HtGet(ln.ht, ln.h) b == HtGet(ln.ht2, ln.h) IN
                /\ Others(ln.ht2, ln.h) = Others(ln.ht, ln.h)
                /\ (b = a \/ ~ValueOK(ln.k, ln.rp) \/ b = Written(ln.k, ln.rp, a))
\* number of lines of the header: untouched, or exactly one when present
NhhOK(ln, now, prev) == (now = prev /\ ln.nhh = ln.nhb) \/ ln.nhh = (IF now = None THEN 0 ELSE 1)
ModelPostOK(ln, now) == ~ln.hasexp \/ ln.exp = now

\* ---------------------------------------------------------------- a mutation through a live view
ViewStep(s, ln) ==
  LET k    == ln.k
      vw   == s.views[ln.vw]
      r    == Apply(k, ln.op, ln.a, vw.v)
      prev == HtGet(s.ht, ln.h)
      now  == HtGet(ln.ht, ln.h)
      ood  == \/ r.exc \in {"ood", "?"} \/ ~ValueOK(k, vw.v) \/ ~ValueOK(k, r.v)
              \/ (k = "mtp" /\ ~MimeOK(prev)) \/ vw.k # k \/ vw.h # ln.h
      wr   == Written(k, r.v, prev)
      c    == IF ood THEN "ok"
              ELSE IF ln.exc # r.exc THEN "OpOutcome"
              \* a kept reference to an object whose assignment only serialised it is not a view of the header
              ELSE IF ~vw.live THEN (IF now # prev \/ ~FrameOK(s, ln) \/ ln.nhh # ln.nhb THEN "Frame"
                                     ELSE IF ln.vp # r.v THEN "ViewValue" ELSE IF ~RereadOK(ln) THEN "RereadKeepsHeader" ELSE "ok")
              ELSE IF r.exc # "" THEN (IF now # prev THEN "HeaderEqualsView" ELSE IF ln.vp # vw.v THEN "ViewValue" ELSE "ok")
              ELSE IF r.v # vw.v /\ now # wr THEN "HeaderEqualsView"
              ELSE IF r.v = vw.v /\ now # wr /\ (now # prev \/ Reasserts(k, ln.op, ln.a, r.v)) THEN "HeaderEqualsView"
              ELSE IF ln.vp # r.v THEN "ViewValue"
              ELSE IF ~Empty(k, r.v) /\ k # "mtp" /\ ln.vt # Some(Ser(k, r.v, <<>>)) THEN "ViewText"
              ELSE IF now = wr /\ RoundTrips(k, r.v) /\ ln.rp # NF(k, r.v) THEN "RereadEqualsView"
              ELSE IF ~RbEq(ln.rb, TypedRead(k, ln.op, ln.a, r.v)) THEN "AssignReadBack"
              ELSE IF ~FrameOK(s, ln) \/ ~NhhOK(ln, now, prev) THEN "Frame"
              ELSE IF ~RereadOK(ln) THEN "RereadKeepsHeader"
              ELSE IF ~ModelPostOK(ln, now) THEN "ModelPost"
              ELSE "ok"
      nv   == IF c = "ok" /\ ~ood THEN r.v ELSE ln.vp
  IN [c |-> c, d |-> ~ood, s |-> [views |-> [s.views EXCEPT ![ln.vw] = [k |-> vw.k, h |-> vw.h, v |-> nv, live |-> vw.live]], ht |-> ln.ht2, nh |-> ln.nh2]]

\* ---------------------------------------------------------------- reading the property: a fresh live view
NoView == [k |-> "", h |-> 0, v |-> <<>>, live |-> FALSE]
NoViews == [i \in 1..8 |-> NoView]
PutView(views, i, e) == IF i \in 1..8 THEN [views EXCEPT ![i] = e] ELSE views
GetStep(s, ln) ==
  LET prev == HtGet(s.ht, ln.h)
      now  == HtGet(ln.ht, ln.h)
      \* reading may only change the header towards coherence with the view it returns
      c == IF ln.exc # "" THEN "OpOutcome"
           ELSE IF ~FrameOK(s, ln) THEN "Frame"
           ELSE IF now # prev /\ ValueOK(ln.k, ln.vp) /\ now # Written(ln.k, ln.vp, prev) THEN "HeaderEqualsView"
           ELSE IF now = None /\ ln.k # "mtp" /\ ln.vp # EmptyView(ln.k) THEN "AbsentReadsEmpty"
           ELSE IF ValueOK(ln.k, ln.vp) /\ ~Empty(ln.k, ln.vp) /\ ln.k # "mtp" /\ ln.vt # Some(Ser(ln.k, ln.vp, <<>>)) THEN "ViewText"
           ELSE "ok"
  IN [c |-> c, d |-> ValueOK(ln.k, ln.vp), s |-> [views |-> PutView(s.views, ln.vw, [k |-> ln.k, h |-> ln.h, v |-> ln.vp, live |-> TRUE]), ht |-> ln.ht2, nh |-> ln.nh2]]

\* ---------------------------------------------------------------- whole-property assignment, del, direct header edit
AssignExp(s, ln) ==       \* [ok, e: expected optional header text, n: expected number of lines, v: assigned abstract value or <<"-">>]
  LET a == ln.a k == ln.k IN
  CASE ln.op = "direct_edit" -> [ok |-> TRUE, e |-> a.y, rt |-> FALSE, v |-> <<>>]
    [] ln.op = "del_prop"    -> [ok |-> TRUE, e |-> None, rt |-> FALSE, v |-> <<>>]
    [] a.tag = "none"        -> [ok |-> TRUE, e |-> None, rt |-> FALSE, v |-> <<>>]
    \* response.<property> = an object that a view slot holds (the view read earlier -- maybe stale --, a view of another
    \* property of the same kind, a kept object): the assignment takes its VALUE at assignment time
    [] a.tag \in {"alias", "alias_list"} ->
         LET src == IF a.n \in 1..8 THEN s.views[a.n] ELSE NoView v == src.v IN
         IF src.k # k \/ ~ValueOK(k, v) \/ (a.tag = "alias_list" /\ k # "wa") THEN [ok |-> FALSE, e |-> None, rt |-> FALSE, v |-> <<>>]
         ELSE [ok |-> TRUE,
               e |-> IF Empty(k, v) THEN None ELSE Some(Ser(k, v, <<>>)),
               rt |-> RoundTrips(k, v), v |-> IF Empty(k, v) THEN EmptyView(k) ELSE NF(k, v)]
    [] a.tag = "text"        -> [ok |-> Printable(a.x), e |-> IF a.x = <<>> THEN None ELSE Some(a.x), rt |-> FALSE, v |-> <<>>]
    [] a.tag = "mt"          -> [ok |-> a.x # <<>> /\ Printable(a.x), e |-> Some(ContentTypeFor(a.x)), rt |-> FALSE, v |-> <<>>]
    [] a.tag = "list" /\ k = "set" ->
         [ok |-> \A i \in 1..Len(a.xs) : SetItemOK(a.xs[i]), e |-> IF a.xs = <<>> THEN None ELSE Some(SerSet(a.xs)),
          rt |-> SetDistinct(a.xs), v |-> a.xs]
    [] a.tag = "value" /\ k = "csp" ->
         LET d == DUpdate(<<>>, a.ps) IN [ok |-> CSPOK(d), e |-> IF d = <<>> THEN None ELSE Some(SerCSP(d)), rt |-> CSPRoundTrips(d), v |-> d]
    [] a.tag = "value" /\ k = "cr" ->
         LET c == [un |-> a.y, st |-> a.m1, sp |-> a.m2, ln |-> a.m3] IN
         [ok |-> CROK(c), e |-> IF a.y = None THEN None ELSE Some(SerCR(c)), rt |-> TRUE, v |-> NF("cr", c)]
    [] a.tag = "value" /\ k = "wa" ->
         [ok |-> WAOK(a.w), e |-> Some(SerWA(a.w)), rt |-> WARoundTrips(a.w), v |-> WANF(a.w)]
    [] a.tag = "list" /\ k = "wa" ->
         [ok |-> \A i \in 1..Len(a.ws) : WAOK(a.ws[i]), e |-> IF a.ws = <<>> THEN None ELSE Some(SerWA(a.ws[1])),
          rt |-> a.ws # <<>> /\ WARoundTrips(a.ws[1]), v |-> IF a.ws = <<>> THEN <<>> ELSE WANF(a.ws[1])]
    [] OTHER -> [ok |-> FALSE, e |-> None, rt |-> FALSE, v |-> <<>>]
AssignStep(s, ln) ==
  LET x   == AssignExp(s, ln)
      now == HtGet(ln.ht, ln.h)
      nl  == IF ln.a.tag = "list" /\ ln.k = "wa" THEN Len(ln.a.ws) ELSE IF now = None THEN 0 ELSE 1
      c == IF ~x.ok THEN "ok"
           ELSE IF ln.exc # "" THEN "OpOutcome"
           ELSE IF now # x.e THEN "AssignHeader"
           ELSE IF x.rt /\ ln.rp # x.v THEN "AssignReadBack"
           ELSE IF ~FrameOK(s, ln) \/ ln.nhh # nl THEN "Frame"
           ELSE IF ~RereadOK(ln) THEN "RereadKeepsHeader"
           ELSE IF ~ModelPostOK(ln, now) THEN "ModelPost"
           ELSE "ok"
      \* www_authenticate = instance binds the instance to the header (documented: "Modifying the object will modify
      \* the header value"): it is a live view.  Every other setter only serialises the assigned object (items of an
      \* assigned list: documented as not live): a kept reference is a detached copy.
      a   == ln.a
      good == x.ok /\ c = "ok"
      keeps == ln.op = "assign" /\ ln.vw > 0
      vs1 == IF keeps /\ ln.k = "wa" /\ a.tag = "value"
             THEN PutView(s.views, ln.vw, [k |-> "wa", h |-> ln.h, v |-> IF good THEN a.w ELSE ln.vp, live |-> TRUE])
             ELSE IF keeps /\ ln.k = "wa" /\ a.tag = "list" /\ a.ws # <<>>
             THEN PutView(s.views, ln.vw, [k |-> "wa", h |-> ln.h, v |-> IF good THEN a.ws[1] ELSE ln.vp, live |-> FALSE])
             ELSE IF keeps /\ ln.k = "set" /\ a.tag = "list"
             THEN PutView(s.views, ln.vw, [k |-> "set", h |-> ln.h, v |-> IF good THEN a.xs ELSE ln.vp, live |-> FALSE])
             ELSE IF keeps /\ ln.k = "csp" /\ a.tag = "value"
             THEN PutView(s.views, ln.vw, [k |-> "csp", h |-> ln.h, v |-> IF good THEN DUpdate(<<>>, a.ps) ELSE ln.vp, live |-> FALSE])
             ELSE IF keeps /\ ln.k = "cr" /\ a.tag = "value"
             THEN PutView(s.views, ln.vw, [k |-> "cr", h |-> ln.h, v |-> IF good THEN [un |-> a.y, st |-> a.m1, sp |-> a.m2, ln |-> a.m3] ELSE ln.vp, live |-> FALSE])
             \* www_authenticate = <object of a slot> (re)binds that object to this header
             ELSE IF ln.op = "assign" /\ ln.k = "wa" /\ a.tag = "alias" /\ x.ok
             THEN [s.views EXCEPT ![a.n] = [@ EXCEPT !.live = TRUE, !.h = ln.h]]
             ELSE s.views
      vs == IF keeps /\ ln.k = "wa" /\ a.tag = "list" /\ Len(a.ws) >= 2 /\ a.n > 0
            THEN PutView(vs1, a.n, [k |-> "wa", h |-> ln.h, v |-> a.ws[2], live |-> FALSE]) ELSE vs1
  IN [c |-> c, d |-> x.ok, s |-> [views |-> vs, ht |-> ln.ht2, nh |-> ln.nh2]]

\* ---------------------------------------------------------------- scalar typed properties
U(tg, n, m, s, xs) == [tg |-> tg, n |-> n, m |-> m, s |-> s, xs |-> xs]
UNone == U("none", 0, 0, <<>>, <<>>)
UAny == U("any", 0, 0, <<>>, <<>>)
ScAssign(cls, tv) ==     \* [ok, exc, e: optional header text, rb]
  CASE cls = "str"  -> [ok |-> tv.tg = "str" /\ Printable(tv.s) /\ NoEdgeSpace(tv.s), exc |-> "", e |-> Some(tv.s), rb |-> U("str", 0, 0, tv.s, <<>>)]
    [] cls = "int"  -> [ok |-> tv.tg = "int", exc |-> "", e |-> Some(Dec(tv.n)), rb |-> U("int", tv.n, 0, <<>>, <<>>)]
    [] cls = "age"  -> IF tv.n < 0 THEN [ok |-> tv.tg = "int", exc |-> "ValueError", e |-> None, rb |-> UAny]
                       ELSE [ok |-> tv.tg \in {"int", "td"}, exc |-> "", e |-> Some(Dec(tv.n)), rb |-> U("td", tv.n, 0, <<>>, <<>>)]
    [] cls = "date" -> [ok |-> tv.tg = "dt" /\ DateOK(tv.n, tv.m), exc |-> "", e |-> Some(ImfDate(tv.n, tv.m)), rb |-> IF DateReadsBack(tv.n) THEN U("dt", tv.n, tv.m, <<>>, <<>>) ELSE UAny]
    [] cls = "retry" -> IF tv.tg = "dt"
                        THEN [ok |-> DateOK(tv.n, tv.m), exc |-> "", e |-> Some(ImfDate(tv.n, tv.m)), rb |-> IF DateReadsBack(tv.n) THEN U("dt", tv.n, tv.m, <<>>, <<>>) ELSE UAny]
                        ELSE [ok |-> tv.tg = "int", exc |-> "", e |-> Some(Dec(tv.n)), rb |-> UAny]
    [] cls = "etag" -> [ok |-> tv.tg = "str" /\ Printable(tv.s) /\ ~Has(tv.s, 34), exc |-> "",
                        e |-> Some((IF tv.n = 1 THEN <<87, 47>> ELSE <<>>) \o <<34>> \o tv.s \o <<34>>), rb |-> U("str", tv.n, 0, tv.s, <<>>)]
    [] cls = "acac" -> [ok |-> tv.tg \in {"true", "false", "none"}, exc |-> "", e |-> IF tv.tg = "true" THEN Some(TTrue) ELSE None,
                        rb |-> U(IF tv.tg = "true" THEN "true" ELSE "false", 0, 0, <<>>, <<>>)]
    [] cls = "hset" -> [ok |-> tv.tg = "list" /\ tv.xs # <<>> /\ SetValOK(tv.xs), exc |-> "", e |-> Some(SerSet(tv.xs)), rb |-> U("list", 0, 0, <<>>, tv.xs)]
    [] cls = "enum" -> [ok |-> tv.tg = "str", exc |-> "", e |-> Some(tv.s), rb |-> U("str", 0, 0, tv.s, <<>>)]
    [] OTHER -> [ok |-> FALSE, exc |-> "", e |-> None, rb |-> UAny]
UnsafeNone == <<117, 110, 115, 97, 102, 101, 45, 110, 111, 110, 101>>
ScDefault(cls) == CASE cls = "enum" -> U("str", 0, 0, UnsafeNone, <<>>)
                    [] cls = "acac" -> U("false", 0, 0, <<>>, <<>>)
                    [] cls = "etag" -> UAny
                    [] OTHER -> UNone
ScStep(s, ln) ==
  LET prev == HtGet(s.ht, ln.h)
      now  == HtGet(ln.ht, ln.h)
      x == IF ln.op = "sc_del" THEN [ok |-> TRUE, exc |-> "", e |-> None, rb |-> ScDefault(ln.k)] ELSE ScAssign(ln.k, ln.a.tv)
      e == IF x.exc # "" THEN prev ELSE x.e
      c == IF ~x.ok THEN "ok"
           ELSE IF ln.exc # x.exc THEN "OpOutcome"
           ELSE IF now # e THEN "AssignHeader"
           ELSE IF x.rb.tg # "any" /\ ln.rb # x.rb THEN "AssignReadBack"
           ELSE IF ~FrameOK(s, ln) \/ ~NhhOK(ln, now, prev) THEN "Frame"
           ELSE "ok"
  IN [c |-> c, d |-> x.ok, s |-> [views |-> s.views, ht |-> ln.ht2, nh |-> ln.nh2]]

Step(s, ln) ==
  CASE ln.op = "init" -> [c |-> "ok", d |-> FALSE, s |-> [views |-> NoViews, ht |-> ln.ht2, nh |-> ln.nh2]]
    \* bookkeeping lines of the repository-test binding (never a verdict):
    \* "sync"  = the header store was edited directly since the last line (live views are now stale);
    \* "adopt" = an object constructed by the caller is followed from here on; it is not a view of any header
    [] ln.op = "sync"  -> [c |-> "ok", d |-> FALSE, s |-> [views |-> s.views, ht |-> ln.ht2, nh |-> ln.nh2]]
    [] ln.op = "adopt" -> [c |-> "ok", d |-> FALSE,
                           s |-> [views |-> PutView(s.views, ln.vw, [k |-> ln.k, h |-> ln.h, v |-> ln.vp, live |-> FALSE]),
                                  ht |-> ln.ht2, nh |-> ln.nh2]]
    [] ln.op = "get_view" -> GetStep(s, ln)
    [] ln.op \in {"assign", "del_prop", "direct_edit"} -> AssignStep(s, ln)
    [] ln.op \in {"sc_assign", "sc_del"} -> ScStep(s, ln)
    [] ln.vw \in 1..8 -> ViewStep(s, ln)
    [] OTHER -> [c |-> "BadLine", d |-> FALSE, s |-> s]

Init == l = 1 /\ st = [views |-> NoViews, ht |-> <<>>, nh |-> 0] /\ TLCSet(1, 0)

Next == /\ l <= Len(Lines)
        /\ LET ln == Lines[l] r == Step(st, ln) IN
           /\ st' = r.s
           /\ IF r.d THEN TLCSet(1, TLCGet(1) + 1) ELSE TRUE      \* lines judged inside the modelled domain
           /\ IF r.c = "ok" THEN TRUE
              ELSE PrintT(ToJson([reject |-> 1, t |-> ln.t, i |-> ln.i, clause |-> r.c]))
        /\ l' = l + 1

\* the second record is bookkeeping (number of lines judged inside the modelled domain), not a verdict
Done == PrintT(ToJson([judged |-> Len(Lines)])) /\ PrintT(ToJson([reject |-> 1, t |-> 0 - 1, i |-> TLCGet(1), clause |-> "_indomain"])) /\ TLCGet("generated") >= 0
=============================================================================
