CONSTANTS
  K = "cc"
  Variant = "fixed"
  Size = "q"
INIT Init
NEXT Next
CHECK_DEADLOCK FALSE
VIEW View
ACTION_CONSTRAINT Export
INVARIANT ReadsAgree
PROPERTY HeaderEqualsView
PROPERTY ViewValue
PROPERTY AssignTakesValue
PROPERTY OpOutcome
PROPERTY RereadEqualsView
PROPERTY HeaderIffNonEmpty
