------------------------------ MODULE HVModel ------------------------------
(* Implementation-shaped model of a live header view bound to a header store (C16), checked   *)
(* by TLC against the contract of HeaderViews.tla over all histories of a bounded universe.    *)
(*                                                                                            *)
(* One run models one view kind K:                                                            *)
(*   "set": HeaderSet as the code keeps it (item list + set of lower-cased keys, on_update      *)
(*          deletes the header when the key set is empty);                                     *)
(*   "wa" : WWWAuthenticate (type / token / parameters, attribute assignment dispatch, every    *)
(*          notification rewrites the header);                                                 *)
(*   "cc" : the cache-control dict with its typed accessors (pop notifies only when present).   *)
(* Two live view slots; reading the property creates a fresh view from the header; direct     *)
(* header edits make live views stale.  Variant = "orig" models the code before the fixes      *)
(* F7 (HeaderSet.remove compares the lowered item with the unlowered argument) and F13         *)
(* (assigning .type / .token stores a parameter); it must violate the invariants.              *)
(* Whole-property assignment of a caller-constructed object whose reference is kept in a slot:  *)
(* www_authenticate = instance binds the instance (live view; Variant = "nobind" models a        *)
(* setter that loses the binding and must violate the contract); an assigned list of instances   *)
(* and an assigned HeaderSet are only serialised (the kept reference is a detached copy: mutating *)
(* it must leave the header alone).                                                              *)
(* `act` labels the last step; it is kept out of the state identity with VIEW.                 *)
EXTENDS HeaderViews, TLC, Json

CONSTANTS K, Variant, Size
VARIABLES hdr, hv, views, act
vars == <<hdr, hv, views, act>>
Slots == {1, 2}
Big == Size = "t"

TCookie == <<67, 111, 111, 107, 105, 101>>
Tcookie == <<99, 111, 111, 107, 105, 101>>
TCOOKIE == <<67, 79, 79, 75, 73, 69>>
TAccept == <<65, 99, 99, 101, 112, 116>>
Taccept == <<97, 99, 99, 101, 112, 116>>
TXY == <<120, 32, 121>>
Tbasic == <<98, 97, 115, 105, 99>>
Tdigest == <<100, 105, 103, 101, 115, 116>>
Tbearer == <<98, 101, 97, 114, 101, 114>>
Trealm == <<114, 101, 97, 108, 109>>
Tnonce == <<110, 111, 110, 99, 101>>
Ttype == <<116, 121, 112, 101>>
Ttoken == <<116, 111, 107, 101, 110>>
Tx == <<120>>
Tab == <<97, 32, 98>>
Ttok == <<97, 98, 99, 49, 50, 51>>
T3 == <<51>>

\* bound: the object's on_update writes the header (implementation); cb: the contract says it is a live view
Dead == [live |-> FALSE, impl |-> <<>>, cv |-> <<>>, bound |-> FALSE, cb |-> FALSE]

\* ------------------------------------------------------------------ universes
Items == IF Big THEN {TCookie, Tcookie, TCOOKIE, TAccept} ELSE {TCookie, Tcookie, TAccept}
SetOps == {[op |-> o, x |-> x] : o \in {"add", "remove", "discard"}, x \in Items} \cup {[op |-> "clear", x |-> <<>>]}
          \cup {[op |-> "update_self", x |-> <<>>]}
WATypes == {Tbasic, Tdigest}
WAKeys == {Trealm}
WAVals == IF Big THEN {Some(Tx), Some(Tab), Some(<<>>), None} ELSE {Some(<<>>), None}
WAOps == {[op |-> "set_type", x |-> x, y |-> None] : x \in WATypes}
         \cup {[op |-> "set_token", x |-> <<>>, y |-> y] : y \in (IF Big THEN {None, Some(Ttok), Some(<<>>)} ELSE {None, Some(<<>>)})}
         \cup {[op |-> o, x |-> k, y |-> y] : o \in (IF Big THEN {"setitem", "setattr"} ELSE {"setitem"}), k \in WAKeys, y \in WAVals}
         \cup {[op |-> "delitem", x |-> k, y |-> None] : k \in WAKeys}
         \* p = w.parameters; (p[k] = v;) w.parameters = p  -- the assigned dict is the one the view holds
         \cup {[op |-> "alias_params", tag |-> "", x |-> <<>>, y |-> None]}
         \cup (IF Big THEN {[op |-> "alias_params", tag |-> "mut", x |-> k, y |-> Some(Tx)] : k \in WAKeys} ELSE {})
CCTags == IF Big THEN {"max_age", "no_cache", "public"} ELSE {"max_age", "public"}
\* 0 and the empty string are values, not "unset"
CCVals == {TV("none", 0, <<>>), TV("true", 0, <<>>), TV("int", 0, <<>>), TV("str", 0, TXY), TV("str", 0, <<>>)}
          \cup (IF Big THEN {TV("false", 0, <<>>)} ELSE {})
CCOps == {[op |-> "cc_set", tag |-> g, tv |-> v] : g \in CCTags, v \in CCVals} \cup {[op |-> "cc_del", tag |-> g, tv |-> TV("none", 0, <<>>)] : g \in CCTags}
Ops == CASE K = "set" -> SetOps [] K = "wa" -> WAOps [] K = "cc" -> CCOps
\* abstract values a direct edit may install (canonical text = Ser(value)); None = delete the header
Edits == CASE K = "set" -> {None, Some(<<TCookie, TAccept>>), Some(<<Tcookie>>)}
           [] K = "wa"  -> {None, Some([ty |-> Tbasic, tok |-> None, ps |-> <<[k |-> Trealm, v |-> Some(Tx)]>>]),
                            Some([ty |-> Tbearer, tok |-> Some(Ttok), ps |-> <<>>])}
           [] K = "cc"  -> {None, Some(<<[k |-> CCDir["max_age"].key, v |-> Some(T3)], [k |-> CCDir["public"].key, v |-> None]>>)}

EmptyValue == CASE K = "wa" -> [ty |-> Tbasic, tok |-> None, ps |-> <<>>] [] OTHER -> <<>>

\* ------------------------------------------------------------------ the implementation-shaped view
ImplOf(v) == IF K = "set" THEN [hs |-> v, ls |-> {Lower(v[i]) : i \in 1..Len(v)}] ELSE v
Proj(impl) == IF K = "set" THEN impl.hs ELSE impl
I(impl, exc, notify) == [impl |-> impl, exc |-> exc, notify |-> notify]

FirstIdx(hs, target) == IF \E i \in 1..Len(hs) : Lower(hs[i]) = target
                        THEN CHOOSE i \in 1..Len(hs) : Lower(hs[i]) = target /\ \A j \in 1..(i - 1) : Lower(hs[j]) # target
                        ELSE 0
SetImpl(o, m) ==
  LET key == Lower(o.x) IN
  CASE o.op = "add" -> IF key \in m.ls THEN I(m, "", FALSE) ELSE I([hs |-> Append(m.hs, o.x), ls |-> m.ls \cup {key}], "", TRUE)
    [] o.op \in {"remove", "discard"} ->
         IF key \notin m.ls THEN I(m, IF o.op = "remove" THEN "KeyError" ELSE "", FALSE)
         ELSE LET idx == FirstIdx(m.hs, IF Variant = "orig" THEN o.x ELSE key) IN
              I([hs |-> IF idx = 0 THEN m.hs ELSE RemoveAt(m.hs, idx), ls |-> m.ls \ {key}], "", TRUE)
    [] o.op = "clear" -> I([hs |-> <<>>, ls |-> {}], "", TRUE)
    [] o.op = "update_self" -> I(m, "", FALSE)                  \* hs.update(hs): nothing is inserted
WAItem(m, k, y) == [m EXCEPT !.ps = IF y = None THEN DDel(m.ps, k) ELSE DPut(m.ps, k, y)]
WAImpl(o, m) ==
  CASE o.op = "set_type"  -> IF Variant = "orig" THEN I(WAItem(m, Ttype, Some(o.x)), "", TRUE) ELSE I([m EXCEPT !.ty = o.x], "", TRUE)
    [] o.op = "set_token" -> IF Variant = "orig" THEN I(WAItem(m, Ttoken, o.y), "", TRUE) ELSE I([m EXCEPT !.tok = o.y], "", TRUE)
    \* Variant "lazynotify": an item store that skips the notification when nothing changes (violates the contract
    \* on a stale view)
    [] o.op \in {"setitem", "setattr"} -> LET m2 == WAItem(m, o.x, o.y) IN I(m2, "", Variant # "lazynotify" \/ m2 # m)
    \* the setter builds a new callback dict from the given mapping (a copy): aliasing is harmless.  Variant
    \* "aliasclear" models a setter that empties the dict it holds before reading the argument.
    [] o.op = "alias_params" ->
         LET p == IF o.tag = "mut" THEN DPut(m.ps, o.x, o.y) ELSE m.ps IN
         I([m EXCEPT !.ps = IF Variant = "aliasclear" THEN <<>> ELSE p], "", TRUE)
    [] o.op = "delitem" -> IF DHas(m.ps, o.x) THEN I([m EXCEPT !.ps = DDel(m.ps, o.x)], "", TRUE) ELSE I(m, "", FALSE)
Pop(m, k) == IF DHas(m, k) THEN I(DDel(m, k), "", TRUE) ELSE I(m, "", FALSE)
CCImpl(o, m) ==
  LET dir == CCDir[o.tag] k == dir.key tv == o.tv IN
  IF o.op = "cc_del" THEN Pop(m, k)
  ELSE IF dir.ty = "bool" THEN (IF Truthy(tv) THEN I(DPut(m, k, None), "", TRUE) ELSE Pop(m, k))
  ELSE IF tv.tg \in {"none", "false"} THEN Pop(m, k)
  ELSE IF tv.tg = "true" THEN I(DPut(m, k, None), "", TRUE)
  ELSE IF dir.ty = "int" /\ tv.tg = "str" /\ ~AllDigits(tv.s) THEN I(m, "ValueError", FALSE)
  ELSE I(DPut(m, k, Some(IF tv.tg = "int" THEN Dec(tv.n) ELSE IF dir.ty = "int" THEN Dec(ParseNat(tv.s, 0)) ELSE tv.s)), "", TRUE)
ImplStep(o, m) == CASE K = "set" -> SetImpl(o, m) [] K = "wa" -> WAImpl(o, m) [] K = "cc" -> CCImpl(o, m)
\* on_update as the response property installs it
ImplEmpty(m) == CASE K = "set" -> m.ls = {} [] K = "cc" -> m = <<>> [] OTHER -> FALSE
ImplText(m) == CASE K = "set" -> SerSet(m.hs) [] K = "cc" -> SerDict(m) [] K = "wa" -> SerWA(m)
Notify(m) == IF ImplEmpty(m) THEN None ELSE Some(ImplText(m))

\* the contract's step on the abstract value
ModelApply(o, v) ==
  CASE o.op \in SelfOps -> AliasApply(K, o.op, o, v)
    [] K = "set" -> SetApply(o.op, o, v)
    [] K = "wa"  -> WAStep(o.op, o, v)
    [] K = "cc"  -> IF o.op = "cc_set" THEN CCSet(o.tag, o.tv, v) ELSE R(DDel(v, CCDir[o.tag].key), "")

\* ------------------------------------------------------------------ actions
Init == /\ hdr = None /\ hv = EmptyValue
        /\ views = [i \in Slots |-> Dead]
        /\ act = [k |-> K, op |-> "init", vw |-> 0, hdr |-> None, exc |-> ""]

GetView(i) ==
  LET v == IF hdr = None THEN EmptyValue ELSE hv IN
  /\ views' = [views EXCEPT ![i] = [live |-> TRUE, impl |-> ImplOf(v), cv |-> v, bound |-> TRUE, cb |-> TRUE]]
  /\ UNCHANGED <<hdr, hv>>
  /\ act' = [k |-> K, op |-> "get_view", vw |-> i, hdr |-> hdr, exc |-> ""]

Mutate(i, o) ==
  /\ views[i].live
  /\ LET r == ImplStep(o, views[i].impl)
         c == ModelApply(o, views[i].cv)
         wr == r.notify /\ views[i].bound
         h == IF wr THEN Notify(r.impl) ELSE hdr
     IN /\ views' = [views EXCEPT ![i] = [@ EXCEPT !.impl = r.impl, !.cv = c.v]]
        /\ hdr' = h
        /\ hv' = IF wr THEN NF(K, Proj(r.impl)) ELSE hv
        /\ act' = o @@ [k |-> K, vw |-> i, hdr |-> h, exc |-> r.exc, cexc |-> c.exc]

DirectEdit(e) ==
  /\ hdr' = IF e = None THEN None ELSE Written(K, e[1], None)
  /\ hv' = IF e = None THEN EmptyValue ELSE NF(K, e[1])
  /\ UNCHANGED views
  /\ act' = [k |-> K, op |-> "direct_edit", vw |-> 0, y |-> hdr', hdr |-> hdr', exc |-> ""]

\* response.<property> = object, the caller keeps the reference in slot i
AssignVals == CASE K = "set" -> {<<TCookie, TAccept>>}
                [] K = "wa" -> {[ty |-> Tbasic, tok |-> None, ps |-> <<[k |-> Trealm, v |-> Some(Tx)]>>]}
                               \cup (IF Big THEN {[ty |-> Tbearer, tok |-> Some(Ttok), ps |-> <<>>]} ELSE {})
                [] OTHER -> {}
AssignObj(i, v, tag) ==
  LET binds == K = "wa" /\ tag = "value" IN
  /\ hdr' = Written(K, v, None)
  /\ hv' = NF(K, v)
  /\ views' = [views EXCEPT ![i] = [live |-> TRUE, impl |-> ImplOf(v), cv |-> v, bound |-> binds /\ Variant # "nobind", cb |-> binds]]
  /\ act' = [k |-> K, op |-> "assign", tag |-> tag, vw |-> i, hdr |-> hdr', exc |-> ""]
             @@ (IF K = "wa" THEN [w |-> v] ELSE [xs |-> v])

\* response.<property> = the object a live slot holds (the view read earlier, maybe stale; a kept object): the
\* assignment takes its value; www_authenticate (re)binds the object
AssignAlias(i) ==
  /\ K \in {"set", "wa"} /\ views[i].live
  /\ LET v == Proj(views[i].impl) IN
     /\ hdr' = Written(K, v, None)
     /\ hv' = IF Empty(K, v) THEN EmptyValue ELSE NF(K, v)
  /\ views' = IF K = "wa" THEN [views EXCEPT ![i] = [@ EXCEPT !.bound = (Variant # "nobind"), !.cb = TRUE]] ELSE views
  /\ act' = [k |-> K, op |-> "assign", tag |-> "alias", vw |-> 0, n |-> i, hdr |-> hdr', exc |-> ""]

AssignSlots == IF Big THEN Slots ELSE {2}
Next == \/ \E i \in Slots : GetView(i)
        \/ \E i \in Slots : AssignAlias(i)
        \/ \E i \in AssignSlots, v \in AssignVals : AssignObj(i, v, IF K = "wa" THEN "value" ELSE "list")
        \/ \E i \in AssignSlots, v \in AssignVals : K = "wa" /\ AssignObj(i, v, "list")
        \/ \E i \in Slots, o \in Ops : Mutate(i, o)
        \/ \E e \in Edits : DirectEdit(e)

\* ------------------------------------------------------------------ the contract, as action properties
\* (TLC evaluates an action property on every transition, also on those leading to known states, so
\* the bookkeeping variable `act` can stay outside the state identity: VIEW View in every config)
IsMutation == act'.op \notin {"init", "get_view", "direct_edit", "assign"}
Live == IsMutation /\ views[act'.vw].cb
\* the view's own reads equal the documented model
AViewValue == IsMutation => Proj(views'[act'.vw].impl) = views'[act'.vw].cv
AOpOutcome == IsMutation => act'.exc = act'.cexc
\* after a mutation the header equals the view's serialisation, absent when the view is empty
\* (a step that does not change the view's value may leave the header alone)
AHeaderEqualsView ==
  IsMutation => LET cv == views'[act'.vw].cv w == Written(K, cv, None) IN
                IF ~views[act'.vw].cb THEN hdr' = hdr           \* detached copy: not a view of the header
                ELSE IF act'.cexc # "" THEN hdr' = hdr
                ELSE IF cv # views[act'.vw].cv THEN hdr' = w
                ELSE IF Reasserts(K, act'.op, act', cv) THEN hdr' = w        \* a same-value store re-asserts the view
                ELSE hdr' \in {hdr, w}
\* a freshly read view equals the last writer's value in normal form
ARereadEqualsView ==
  (Live /\ hdr' = Written(K, views'[act'.vw].cv, None) /\ (K = "wa" => WARoundTrips(views'[act'.vw].cv)))
     => (IF hdr' = None THEN EmptyValue ELSE hv') = NF(K, views'[act'.vw].cv)
AHeaderIffNonEmpty == (K \in {"set", "cc"} /\ Live /\ act'.cexc = "" /\ views'[act'.vw].cv # views[act'.vw].cv)
                         => ((hdr' = None) <=> (views'[act'.vw].cv = <<>>))
\* an assignment of a slot's object takes the value the contract gives that object
AAssignTakesValue == (act'.op = "assign" /\ act'.tag = "alias") => hdr' = Written(K, views[act'.n].cv, None)
AssignTakesValue == [][AAssignTakesValue]_vars
ViewValue == [][AViewValue]_vars
OpOutcome == [][AOpOutcome]_vars
HeaderEqualsView == [][AHeaderEqualsView]_vars
RereadEqualsView == [][ARereadEqualsView]_vars
HeaderIffNonEmpty == [][AHeaderIffNonEmpty]_vars
\* HeaderSet: the lookup set and the item list describe the same items (state invariant)
ReadsAgree == K = "set" => \A i \in Slots : views[i].live => views[i].impl.ls = {Lower(views[i].impl.hs[j]) : j \in 1..Len(views[i].impl.hs)}

\* ------------------------------------------------------------------ export (spec -> code)
View == <<hdr, hv, views>>
St == [hdr |-> hdr, hv |-> hv, views |-> [i \in Slots |-> [live |-> views[i].live, cv |-> views[i].cv, cb |-> views[i].cb]]]
StP == [hdr |-> hdr', hv |-> hv', views |-> [i \in Slots |-> [live |-> views'[i].live, cv |-> views'[i].cv, cb |-> views'[i].cb]]]
Export == PrintT(ToJson([pre |-> St, act |-> act', post |-> StP, init |-> (hdr = None /\ \A i \in Slots : ~views[i].live)]))
=============================================================================
