CONSTANTS
  K = "wa"
  Variant = "lazynotify"
  Size = "q"
INIT Init
NEXT Next
CHECK_DEADLOCK FALSE
VIEW View
INVARIANT ReadsAgree
PROPERTY HeaderEqualsView
PROPERTY ViewValue
PROPERTY AssignTakesValue
PROPERTY OpOutcome
PROPERTY RereadEqualsView
PROPERTY HeaderIffNonEmpty
