CONSTANTS
  Codecs = {"quote", "list", "dict", "options", "etags", "range", "crange", "age", "csp", "date"}
  Law = "inv"
  Alphas <- AlphaInv
  Lens <- LenInvQ
  Items <- ItemsInvQ
INIT Init
NEXT Next
CHECK_DEADLOCK FALSE
INVARIANT Inverse
INVARIANT RangeOrder
