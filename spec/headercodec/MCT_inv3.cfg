CONSTANTS
  Codecs = {"list", "dict", "options"}
  Law = "inv"
  Alphas <- AlphaInvT
  Lens <- LenInvT3
  Items <- ItemsInvT3
INIT Init
NEXT Next
CHECK_DEADLOCK FALSE
INVARIANT Inverse
