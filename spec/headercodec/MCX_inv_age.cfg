CONSTANTS
  Codec = "age"
  Law = "inv"
  Alpha = {97}
  MaxLen = 0
  MaxItems = 0
INIT Init
NEXT NoNext
INVARIANT ExportDom
