CONSTANTS
  Codecs = {"cachecontrol", "basic", "authparam", "options2231"}
  Law = "nf"
  Lens <- LenNfT
  Items <- ItemsQ
INIT Init
NEXT Next
CHECK_DEADLOCK FALSE
INVARIANT NormalForm2
