CONSTANTS
  Codecs = {"cachecontrol", "basic", "authparam", "options2231"}
  Law = "nf"
  Lens <- LenNfX
  Items <- ItemsQ
INIT Init
NEXT Next
CHECK_DEADLOCK FALSE
INVARIANT Export
