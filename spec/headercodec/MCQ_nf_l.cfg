CONSTANTS
  Codecs = {"list"}
  Law = "nf"
  Alphas <- AlphaNfL
  Lens <- LenNfLQ
  Items <- NoItems
INIT Init
NEXT Next
CHECK_DEADLOCK FALSE
INVARIANT NormalForm
