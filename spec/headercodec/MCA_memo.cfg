CONSTANTS
  Texts = {"s1", "s2"}
  Memo = TRUE
  MaxRefs = 4
INIT Init
NEXT Next
CHECK_DEADLOCK FALSE
INVARIANT Independent
