CONSTANTS
  Codec = "list"
  Law = "nf"
  Alpha = {97, 32, 44, 34, 92, 61}
  MaxLen = 7
  MaxItems = 0
INIT Init
NEXT NoNext
INVARIANT NormalForm
