CONSTANTS
  Texts = {"s1", "s2"}
  Memo = FALSE
  MaxRefs = 4
INIT Init
NEXT Next
CHECK_DEADLOCK FALSE
INVARIANT Independent
