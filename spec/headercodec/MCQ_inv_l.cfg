CONSTANTS
  Codecs = {"list"}
  Law = "inv"
  Alphas <- AlphaL
  Lens <- LenInvLQ
  Items <- ItemsInvQ
INIT Init
NEXT Next
CHECK_DEADLOCK FALSE
INVARIANT Inverse
