CONSTANTS
  Codec = "quote"
  Law = "inv"
  Alpha = {97, 32, 44, 59, 61, 34, 92, 233, 128512, 37, 50}
  MaxLen = 4
  MaxItems = 0
INIT Init
NEXT NoNext
INVARIANT ExportDom
