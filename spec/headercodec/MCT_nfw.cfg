CONSTANTS
  Codecs = {"dict", "options", "range"}
  Law = "nf"
  Alphas <- AlphaNfWide
  Lens <- LenNfQ
  Items <- NoItems
INIT Init
NEXT Next
CHECK_DEADLOCK FALSE
INVARIANT NormalForm
