------------------------------ MODULE Aliasing ------------------------------
(* C06, histories with aliasing.  A parser hands out a reference to a mutable container.  The   *)
(* round-trip law "parse(dump(v)) = v" must hold for EVERY call in EVERY history, also after a    *)
(* caller mutated the container an earlier call returned.  heap = the containers handed out       *)
(* (a sequence of values), cache = the memo table of a (hypothetical) memoising parser.           *)
(* Memo = FALSE (fresh container per call) satisfies Independent; Memo = TRUE violates it: this    *)
(* is the model of what the "hist" trace lines check on the real parsers.                         *)
EXTENDS Naturals, Sequences

CONSTANTS Texts, Memo, MaxRefs
VARIABLES heap, cache, last
vars == <<heap, cache, last>>

P(s) == <<"value of", s>>            \* the value the text denotes
Mutated == <<"mutated">>

Init == heap = <<>> /\ cache = [s \in Texts |-> 0] /\ last = [s |-> "", ref |-> 0]
Parse(s) == IF Memo /\ cache[s] # 0
            THEN /\ last' = [s |-> s, ref |-> cache[s]] /\ UNCHANGED <<heap, cache>>
            ELSE /\ Len(heap) < MaxRefs
                 /\ heap' = Append(heap, P(s))
                 /\ cache' = [cache EXCEPT ![s] = Len(heap) + 1]
                 /\ last' = [s |-> s, ref |-> Len(heap) + 1]
Mutate(r) == /\ heap' = [heap EXCEPT ![r] = Mutated]
             /\ last' = [s |-> "", ref |-> 0]
             /\ UNCHANGED cache
Next == (\E s \in Texts : Parse(s)) \/ (\E r \in 1..Len(heap) : Mutate(r))
\* what a parse call returns is the value of its text, whatever happened to earlier results
Independent == last.ref # 0 => heap[last.ref] = P(last.s)
=============================================================================
