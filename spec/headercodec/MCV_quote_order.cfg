CONSTANTS
  Codecs = {"quote"}
  Law = "inv"
  Alphas <- AlphaInv
  Lens <- LenInvQ
  Items <- ItemsInvQ
INIT Init
NEXT Next
CHECK_DEADLOCK FALSE
INVARIANT BrokenQuoteOrder
