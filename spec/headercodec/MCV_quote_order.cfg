CONSTANTS
  Codec = "quote"
  Law = "inv"
  Alpha = {97, 34, 92}
  MaxLen = 3
  MaxItems = 0
INIT Init
NEXT NoNext
INVARIANT BrokenQuoteOrder
