CONSTANTS
  Codecs = {"cachecontrol", "b64", "basic", "authparam", "set", "setv"}
  Law = "inv"
  Lens <- LenT
  Items <- ItemsT
INIT Init
NEXT Next
CHECK_DEADLOCK FALSE
INVARIANT Inverse2
