CONSTANTS
  Codecs = {"b64"}
  Law = "inv"
  Lens <- LenQ
  Items <- ItemsQ
INIT Init
NEXT Next
CHECK_DEADLOCK FALSE
INVARIANT BrokenB64Pad
