CONSTANTS
  Codecs = {"cachecontrol", "b64", "basic", "authparam", "set"}
  Law = "inv"
  Lens <- LenQ
  Items <- ItemsQ
INIT Init
NEXT Next
CHECK_DEADLOCK FALSE
INVARIANT Inverse2
