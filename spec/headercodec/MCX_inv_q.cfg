CONSTANTS
  Codecs = {"quote", "list", "dict", "options", "etags", "range", "crange", "age", "csp", "date"}
  Law = "inv"
  Alphas <- AlphaInv
  Lens <- LenInvX
  Items <- ItemsXq
INIT Init
NEXT Next
CHECK_DEADLOCK FALSE
INVARIANT ExportDom
