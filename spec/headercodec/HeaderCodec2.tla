----------------------------- MODULE HeaderCodec2 -----------------------------
(* C06, second layer: the parts of the header codecs that sit on top of the list / dict /      *)
(* options transcription of HeaderCodec.tla:                                                   *)
(*  - the typed property layer of RequestCacheControl / ResponseCacheControl (getters with     *)
(*    their "empty" values and int conversion, setters with their True / False / None rules);   *)
(*  - base64 (standard alphabet, padding) over byte sequences, Authorization Basic (UTF-8),     *)
(*    the token68 and auth-param forms of Authorization and WWWAuthenticate (str.title of the   *)
(*    scheme, the Digest quoting rule);                                                        *)
(*  - parse_options_header with RFC 2231 charset values and continuations (decode side;        *)
(*    dump_options_header never produces that form: non-ASCII values are quoted as they are);    *)
(*  - HeaderSet as a case-insensitively de-duplicated list.                                     *)
EXTENDS HeaderCodec

\* ---- Python int(text) ----------------------------------------------------------------------------
PyInt(t) == LET s == Strip(t)
                sg == s # <<>> /\ s[1] \in {43, DASH}
                r == IntBody(IF sg THEN Tail(s) ELSE s, 1, FALSE)
                d == DigitsOf(r.t) IN
            IF ~r.ok \/ r.t = <<>> THEN [ok |-> FALSE, neg |-> FALSE, d |-> ZERO]
            ELSE [ok |-> TRUE, neg |-> sg /\ s[1] = DASH /\ d # ZERO, d |-> d]
IntUnmodelled(t) == \E i \in 1..Len(t) : t[i] >= 128 /\ ~IsSpace(t[i])       \* non-ASCII decimal digits

\* ---- Cache-Control typed properties -------------------------------------------------------------
\* a typed value: [k |-> "none" | "true" | "false" | "int" | "nint" | "str", t |-> digits | text | <<>>]
TV(k, t) == [k |-> k, t |-> t]
TNone == TV("none", <<>>)
RespProps == <<
  [attr |-> <<110, 111, 95, 115, 116, 111, 114, 101>>, empty |-> "none", type |-> "bool"],
  [attr |-> <<109, 97, 120, 95, 97, 103, 101>>, empty |-> "none", type |-> "int"],
  [attr |-> <<110, 111, 95, 116, 114, 97, 110, 115, 102, 111, 114, 109>>, empty |-> "none", type |-> "bool"],
  [attr |-> <<115, 116, 97, 108, 101, 95, 105, 102, 95, 101, 114, 114, 111, 114>>, empty |-> "none", type |-> "int"],
  [attr |-> <<110, 111, 95, 99, 97, 99, 104, 101>>, empty |-> "true", type |-> "str"],
  [attr |-> <<112, 117, 98, 108, 105, 99>>, empty |-> "none", type |-> "bool"],
  [attr |-> <<112, 114, 105, 118, 97, 116, 101>>, empty |-> "true", type |-> "str"],
  [attr |-> <<109, 117, 115, 116, 95, 114, 101, 118, 97, 108, 105, 100, 97, 116, 101>>, empty |-> "none", type |-> "bool"],
  [attr |-> <<112, 114, 111, 120, 121, 95, 114, 101, 118, 97, 108, 105, 100, 97, 116, 101>>, empty |-> "none", type |-> "bool"],
  [attr |-> <<115, 95, 109, 97, 120, 97, 103, 101>>, empty |-> "none", type |-> "int"],
  [attr |-> <<105, 109, 109, 117, 116, 97, 98, 108, 101>>, empty |-> "none", type |-> "bool"],
  [attr |-> <<109, 117, 115, 116, 95, 117, 110, 100, 101, 114, 115, 116, 97, 110, 100>>, empty |-> "none", type |-> "bool"],
  [attr |-> <<115, 116, 97, 108, 101, 95, 119, 104, 105, 108, 101, 95, 114, 101, 118, 97, 108, 105, 100, 97, 116, 101>>, empty |-> "none", type |-> "int"]>>
\*   1: no_store
\*   2: max_age
\*   3: no_transform
\*   4: stale_if_error
\*   5: no_cache
\*   6: public
\*   7: private
\*   8: must_revalidate
\*   9: proxy_revalidate
\*   10: s_maxage
\*   11: immutable
\*   12: must_understand
\*   13: stale_while_revalidate

ReqProps == <<
  [attr |-> <<110, 111, 95, 115, 116, 111, 114, 101>>, empty |-> "none", type |-> "bool"],
  [attr |-> <<109, 97, 120, 95, 97, 103, 101>>, empty |-> "none", type |-> "int"],
  [attr |-> <<110, 111, 95, 116, 114, 97, 110, 115, 102, 111, 114, 109>>, empty |-> "none", type |-> "bool"],
  [attr |-> <<115, 116, 97, 108, 101, 95, 105, 102, 95, 101, 114, 114, 111, 114>>, empty |-> "none", type |-> "int"],
  [attr |-> <<110, 111, 95, 99, 97, 99, 104, 101>>, empty |-> "none", type |-> "bool"],
  [attr |-> <<109, 97, 120, 95, 115, 116, 97, 108, 101>>, empty |-> "true", type |-> "int"],
  [attr |-> <<109, 105, 110, 95, 102, 114, 101, 115, 104>>, empty |-> "none", type |-> "int"],
  [attr |-> <<111, 110, 108, 121, 95, 105, 102, 95, 99, 97, 99, 104, 101, 100>>, empty |-> "none", type |-> "bool"]>>
\*   1: no_store
\*   2: max_age
\*   3: no_transform
\*   4: stale_if_error
\*   5: no_cache
\*   6: max_stale
\*   7: min_fresh
\*   8: only_if_cached

PropsOf(cls) == IF cls = "req" THEN ReqProps ELSE RespProps
KeyOf(row) == [i \in 1..Len(row.attr) |-> IF row.attr[i] = 95 THEN 45 ELSE row.attr[i]]
HasKey(pairs, k) == \E i \in 1..Len(pairs) : pairs[i][1] = k
ValOf(pairs, k) == pairs[CHOOSE i \in 1..Len(pairs) : pairs[i][1] = k][2]
DictDel(pairs, k) == SelectSeq(pairs, LAMBDA p : p[1] # k)
\* _get_cache_value
CCGet(pairs, row) ==
  LET k == KeyOf(row) IN
  IF row.type = "bool" THEN TV(IF HasKey(pairs, k) THEN "true" ELSE "false", <<>>)
  ELSE IF ~HasKey(pairs, k) THEN TNone
  ELSE LET v == ValOf(pairs, k) IN
       IF v = NONE THEN TV(row.empty, <<>>)
       ELSE IF row.type = "int" THEN LET n == PyInt(v) IN IF n.ok THEN TV(IF n.neg THEN "nint" ELSE "int", n.d) ELSE TNone
       ELSE TV("str", v)
CCView(cls, pairs) == LET P == PropsOf(cls) IN [i \in 1..Len(P) |-> <<P[i].attr, CCGet(pairs, P[i])>>]
Truthy(a) == a.k = "true" \/ (a.k \in {"int", "nint"} /\ a.t # ZERO) \/ (a.k = "str" /\ a.t # <<>>)
StrOf(a) == IF a.k = "int" THEN TextOf(a.t) ELSE IF a.k = "nint" THEN <<DASH>> \o TextOf(a.t) ELSE a.t
\* _set_cache_value; [ok, pairs]: ok = FALSE where the real setter raises ValueError (int("abc"))
CCSet(pairs, row, a) ==
  LET k == KeyOf(row) IN
  IF row.type = "bool" THEN [ok |-> TRUE, pairs |-> IF Truthy(a) THEN DictPut(pairs, k, NONE) ELSE DictDel(pairs, k)]
  ELSE IF a.k \in {"none", "false"} THEN [ok |-> TRUE, pairs |-> DictDel(pairs, k)]
  ELSE IF a.k = "true" THEN [ok |-> TRUE, pairs |-> DictPut(pairs, k, NONE)]
  ELSE IF row.type = "int" /\ a.k = "str"
       THEN LET n == PyInt(a.t) IN
            IF n.ok THEN [ok |-> TRUE, pairs |-> DictPut(pairs, k, (IF n.neg THEN <<DASH>> ELSE <<>>) \o TextOf(n.d))]
            ELSE [ok |-> FALSE, pairs |-> pairs]
  ELSE [ok |-> TRUE, pairs |-> DictPut(pairs, k, StrOf(a))]
RowOf(cls, attr) == LET P == PropsOf(cls) IN
                    IF \E i \in 1..Len(P) : P[i].attr = attr THEN P[CHOOSE i \in 1..Len(P) : P[i].attr = attr]
                    ELSE [attr |-> <<>>, empty |-> "none", type |-> "bool"]
RECURSIVE CCApply(_, _)      \* assigns: <<<<attr, typed value>>>> applied left to right to an empty ResponseCacheControl
CCApply(assigns, pairs) == IF assigns = <<>> THEN pairs
                           ELSE CCApply(Tail(assigns), CCSet(pairs, RowOf("resp", assigns[1][1]), assigns[1][2]).pairs)
DomTV(row, a) == CASE row.type = "bool" -> a.k \in {"true", "false", "none"}
                   [] row.type = "int" -> a.k \in {"true", "false", "none"} \/ (a.k \in {"int", "nint"} /\ IsNum(a.t) /\ (a.k = "nint" => a.t # ZERO))
                   [] OTHER -> a.k \in {"true", "false", "none"} \/ (a.k = "str" /\ TextOK(a.t))
DomAssigns(assigns) == \A i \in 1..Len(assigns) : LET row == RowOf("resp", assigns[i][1]) IN row.attr # <<>> /\ DomTV(row, assigns[i][2])

\* ---- base64 ---------------------------------------------------------------------------------------
B64Char(n) == IF n < 26 THEN 65 + n ELSE IF n < 52 THEN 71 + n ELSE IF n < 62 THEN n - 4 ELSE IF n = 62 THEN 43 ELSE 47
B64Val(c) == IF c >= 65 /\ c <= 90 THEN c - 65 ELSE IF c >= 97 /\ c <= 122 THEN c - 71 ELSE IF c >= 48 /\ c <= 57 THEN c + 4
             ELSE IF c = 43 THEN 62 ELSE IF c = 47 THEN 63 ELSE 99
RECURSIVE B64Enc(_)
B64Enc(b) ==
  IF b = <<>> THEN <<>>
  ELSE IF Len(b) = 1 THEN <<B64Char(b[1] \div 4), B64Char((b[1] % 4) * 16), EQ, EQ>>
  ELSE IF Len(b) = 2 THEN <<B64Char(b[1] \div 4), B64Char(((b[1] % 4) * 16) + (b[2] \div 16)), B64Char((b[2] % 16) * 4), EQ>>
  ELSE <<B64Char(b[1] \div 4), B64Char(((b[1] % 4) * 16) + (b[2] \div 16)), B64Char(((b[2] % 16) * 4) + (b[3] \div 64)), B64Char(b[3] % 64)>>
       \o B64Enc(Drop(b, 3))
\* canonical shape: groups of four alphabet characters, '=' only as the last one or two characters
B64Strict(s) == /\ Len(s) % 4 = 0
                /\ \A i \in 1..Len(s) : B64Val(s[i]) < 64 \/ (s[i] = EQ /\ i >= Len(s) - 1 /\ (i = Len(s) - 1 => s[Len(s)] = EQ))
RECURSIVE B64Dec(_)          \* defined on B64Strict texts (left-over bits of the last group are ignored, as binascii does)
B64Dec(s) ==
  IF s = <<>> THEN <<>>
  ELSE LET a == B64Val(s[1]) b == B64Val(s[2]) IN
       IF s[3] = EQ THEN <<(a * 4) + (b \div 16)>>
       ELSE LET c == B64Val(s[3]) IN
            IF s[4] = EQ THEN <<(a * 4) + (b \div 16), ((b % 16) * 16) + (c \div 4)>>
            ELSE <<(a * 4) + (b \div 16), ((b % 16) * 16) + (c \div 4), ((c % 4) * 64) + B64Val(s[4])>> \o B64Dec(Drop(s, 4))

\* ---- Authorization / WWWAuthenticate ---------------------------------------------------------------
\* value: [none, type, token: text | NONE, params: dict pairs]
BASIC == <<98, 97, 115, 105, 99>>
DIGEST == <<100, 105, 103, 101, 115, 116>>
USERNAME == <<117, 115, 101, 114, 110, 97, 109, 101>>
PASSWORD == <<112, 97, 115, 115, 119, 111, 114, 100>>
QuotedKeys == {<<114, 101, 97, 108, 109>>, <<100, 111, 109, 97, 105, 110>>, <<110, 111, 110, 99, 101>>, <<111, 112, 97, 113, 117, 101>>, <<113, 111, 112>>}
NoAuth == [none |-> TRUE, type |-> <<>>, token |-> NONE, params |-> <<>>]
IsLetter(c) == (c >= 65 /\ c <= 90) \/ (c >= 97 /\ c <= 122)
UpperC(c) == IF c >= 97 /\ c <= 122 THEN c - 32 ELSE c
Title(s) == [i \in 1..Len(s) |-> IF i > 1 /\ IsLetter(s[i - 1]) THEN LowerC(s[i]) ELSE UpperC(s[i])]       \* str.title(), ASCII
RECURSIVE RStripEq(_)
RStripEq(s) == IF s # <<>> /\ s[Len(s)] = EQ THEN RStripEq(SubSeq(s, 1, Len(s) - 1)) ELSE s
DumpAuth(cls, v) ==
  IF cls = "authz" /\ v.type = BASIC
  THEN <<66, 97, 115, 105, 99, SP>> \o B64Enc(Utf8Enc(ValOf(v.params, USERNAME) \o <<COLON>> \o ValOf(v.params, PASSWORD)))
  ELSE IF v.token # NONE THEN Title(v.type) \o <<SP>> \o v.token
  ELSE IF cls = "wwwauth" /\ v.type = DIGEST
       THEN <<68, 105, 103, 101, 115, 116, SP>>
            \o JoinSeqs([i \in 1..Len(v.params) |-> v.params[i][1] \o <<EQ>> \o Quote(v.params[i][2], v.params[i][1] \notin QuotedKeys)], <<COMMA, SP>>)
  ELSE Title(v.type) \o <<SP>> \o DumpDict(v.params)
ParseBasic(rest) ==
  IF ~B64Strict(rest) THEN NoAuth
  ELSE LET b == B64Dec(rest) IN
       IF ~Utf8Valid(b, 1) THEN NoAuth
       ELSE LET t == Utf8Dec(b) e == First(t, COLON) IN
            [none |-> FALSE, type |-> BASIC, token |-> NONE,
             params |-> <<<<USERNAME, IF e = 0 THEN t ELSE Take(t, e - 1)>>, <<PASSWORD, IF e = 0 THEN <<>> ELSE Drop(t, e)>>>>]
ParseAuth(cls, s) ==
  IF s = <<>> THEN NoAuth
  ELSE LET e == First(s, SP)
           scheme == LowerA(IF e = 0 THEN s ELSE Take(s, e - 1))
           rest == Strip(IF e = 0 THEN <<>> ELSE Drop(s, e)) IN
       IF cls = "authz" /\ scheme = BASIC THEN ParseBasic(rest)
       ELSE IF Has(RStripEq(rest), EQ) THEN [none |-> FALSE, type |-> scheme, token |-> NONE, params |-> ParseDict(rest)]
       ELSE [none |-> FALSE, type |-> scheme, token |-> rest, params |-> <<>>]
\* where the transcription is not exact: lenient base64 (binascii skips foreign characters), str.lower() beyond ASCII, key*= items
AuthUnmodelled(cls, s) ==
  LET e == First(s, SP)
      scheme == IF e = 0 THEN s ELSE Take(s, e - 1)
      rest == Strip(IF e = 0 THEN <<>> ELSE Drop(s, e)) IN
  \/ \E i \in 1..Len(scheme) : scheme[i] >= 128
  \/ (cls = "authz" /\ LowerA(scheme) = BASIC /\ ~B64Strict(rest))
  \/ (~(cls = "authz" /\ LowerA(scheme) = BASIC) /\ Has(RStripEq(rest), EQ) /\ DictStar(rest))
Scalars(s) == \A i \in 1..Len(s) : IsScalar(s[i])
DomAuth(cls, v) ==
  /\ ~v.none /\ IsToken(v.type) /\ ~HasUpper(v.type)
  /\ IF cls = "authz" /\ v.type = BASIC
     THEN /\ v.token = NONE /\ Len(v.params) = 2 /\ v.params[1][1] = USERNAME /\ v.params[2][1] = PASSWORD
          /\ Scalars(v.params[1][2]) /\ Scalars(v.params[2][2]) /\ ~Has(v.params[1][2], COLON)
     ELSE IF v.token # NONE
     THEN v.params = <<>> /\ TextOK(v.token) /\ Strip(v.token) = v.token /\ ~Has(RStripEq(v.token), EQ)
     ELSE v.params # <<>> /\ DomDict(v.params) /\ \A i \in 1..Len(v.params) : v.params[i][2] # NONE

\* ---- parse_options_header with RFC 2231 charset values and continuations --------------------------
SafeEnc == {<<97, 115, 99, 105, 105>>, <<117, 115, 45, 97, 115, 99, 105, 105>>, <<117, 116, 102, 45, 56>>, <<105, 115, 111, 45, 56, 56, 53, 57, 45, 49>>}
UTF8N == <<117, 116, 102, 45, 56>>
LATIN1 == <<105, 115, 111, 45, 56, 56, 53, 57, 45, 49>>
APOS == 39
\* _charset_value_re.match(pv): [ok, enc, val]; charset and language are token characters without ', the value a non-empty
\* run of token characters
CharsetMatch(pv) ==
  LET i == First(pv, APOS)
      j == IF i = 0 THEN 0 ELSE FindFrom(pv, <<APOS>>, i + 1)
      vl == IF j = 0 THEN 0 ELSE TokLen(pv, j + 1) IN
  IF i > 0 /\ j > 0 /\ vl > 0 /\ TokLen(pv, 1) >= i - 1 /\ TokLen(pv, i + 1) >= j - i - 1
  THEN [ok |-> TRUE, enc |-> LowerA(Take(pv, i - 1)), val |-> SubSeq(pv, j + 1, j + vl)]
  ELSE [ok |-> FALSE, enc |-> <<>>, val |-> pv]
\* urllib.parse.unquote(pv, encoding, errors="replace") on ASCII text
DecodeBytes(bs, enc) == IF enc = UTF8N THEN Utf8Dec(bs)
                        ELSE IF enc = LATIN1 THEN bs
                        ELSE [i \in 1..Len(bs) |-> IF bs[i] >= 128 THEN 65533 ELSE bs[i]]
PctUnquote(pv, enc) == DecodeBytes(PctDecode(pv), enc)
OptValue2(pv) == IF pv # <<>> /\ pv[1] = DQ /\ pv[Len(pv)] = DQ
                 THEN (IF Len(pv) = 1 THEN <<>> ELSE Replace(UnEsc(Inner(pv)), <<37, 50, 50>>, <<DQ>>)) ELSE pv
RECURSIVE ContDigits(_, _)    \* _continuation_re = \*(\d+)$ : start of the match in pk, 0 if none
ContDigits(pk, p) == IF p >= 1 /\ IsDigit(pk[p]) THEN ContDigits(pk, p - 1) ELSE p
ContStart(pk) == LET p == ContDigits(pk, Len(pk)) IN IF p >= 1 /\ p < Len(pk) /\ pk[p] = STAR THEN p ELSE 0
DictGet(pairs, k) == IF HasKey(pairs, k) THEN ValOf(pairs, k) ELSE <<>>
\* the loop over the collected parts; enc / cont are the variables encoding / continued_encoding (NONE = None);
\* flag collects what is not transcribed exactly (non-ASCII in a percent-decoded value, invalid UTF-8)
RECURSIVE OptLoop(_, _, _, _, _)
OptLoop(parts, opts, enc, cont, flag) ==
  IF parts = <<>> THEN [opts |-> opts, flag |-> flag]
  ELSE
  LET pk0 == parts[1][1] pv0 == parts[1][2]
      star == EndsStar(pk0)
      pk1 == IF star THEN Take(pk0, Len(pk0) - 1) ELSE pk0 IN
  IF star /\ pk1 = <<>> THEN OptLoop(Tail(parts), opts, enc, cont, flag)
  ELSE
  LET m == IF star THEN CharsetMatch(pv0) ELSE [ok |-> FALSE, enc |-> <<>>, val |-> pv0]
      e1 == IF star /\ m.ok THEN m.enc ELSE enc
      e2 == IF star /\ (e1 = NONE \/ e1 = <<>>) THEN cont ELSE e1
      dec == star /\ e2 \in SafeEnc
      pv1 == IF dec THEN PctUnquote(m.val, e2) ELSE m.val
      fl == flag \/ (dec /\ ((\E i \in 1..Len(m.val) : m.val[i] >= 128) \/ (e2 = UTF8N /\ ~Utf8Valid(PctDecode(m.val), 1))))
      pv2 == OptValue2(pv1)
      cs == ContStart(pk1)
      pk2 == IF cs > 0 THEN Take(pk1, cs - 1) ELSE pk1
      cont2 == IF dec THEN e2 ELSE cont IN
  IF cs > 0 /\ pk2 = <<>> THEN OptLoop(Tail(parts), opts, e2, cont2, fl)
  ELSE OptLoop(Tail(parts), DictPut(opts, pk2, IF cs > 0 THEN DictGet(opts, pk2) \o pv2 ELSE pv2), e2, cont2, fl)
ParseOptionsR(s) ==
  LET e == First(s, SEMI)
      main == Strip(IF e = 0 THEN s ELSE Take(s, e - 1))
      rest == IF e = 0 THEN <<>> ELSE Strip(Drop(s, e)) IN
  IF main = <<>> \/ rest = <<>> THEN [main |-> main, opts |-> <<>>, flag |-> FALSE]
  ELSE LET r == OptLoop(OptParts(rest), <<>>, NONE, NONE, FALSE) IN [main |-> main, opts |-> r.opts, flag |-> r.flag]
ParseOptions2(s) == LET r == ParseOptionsR(s) IN [main |-> r.main, opts |-> r.opts]
Opt2Unmodelled(s) == ParseOptionsR(s).flag

\* ---- HeaderSet: a list without case-insensitive duplicates (first occurrence kept) -----------------
RECURSIVE DedupCI(_, _)
DedupCI(L, seen) == IF L = <<>> THEN <<>>
                    ELSE IF LowerA(Head(L)) \in seen THEN DedupCI(Tail(L), seen)
                    ELSE <<Head(L)>> \o DedupCI(Tail(L), seen \cup {LowerA(Head(L))})
SetItems(L) == DedupCI(L, {})
\* HeaderSet built through its public mutators.  A mutation: [op, a: text, l: <<text>>, i: python index]
LowSet(items) == {LowerA(items[k]) : k \in 1..Len(items)}
FirstCI(items, a) == LET H == {k \in 1..Len(items) : LowerA(items[k]) = LowerA(a)} IN IF H = {} THEN 0 ELSE CHOOSE k \in H : \A j \in H : k <= j
DelAt(items, i) == SubSeq(items, 1, i - 1) \o SubSeq(items, i + 1, Len(items))
HSAdd(items, a) == IF LowerA(a) \in LowSet(items) THEN items ELSE Append(items, a)
RECURSIVE HSUpdate(_, _)
HSUpdate(items, L) == IF L = <<>> THEN items ELSE HSUpdate(HSAdd(items, Head(L)), Tail(L))
HSRemove(items, a) == LET i == FirstCI(items, a) IN IF i = 0 THEN items ELSE DelAt(items, i)
\* hs[i] = a : the item is replaced; a set holds a header once, so another item with that name (any letter case) goes
HSSetItem(items, i, a) == LET r == [items EXCEPT ![i] = a]
                              O == {k \in 1..Len(items) : k # i /\ LowerA(items[k]) = LowerA(a)} IN
                          IF O = {} THEN r ELSE DelAt(r, CHOOSE k \in O : \A j \in O : k <= j)
\* what the assignment did before it was repaired: the duplicate stays in the list (and len / membership disagree with it)
HSSetItemNaive(items, i, a) == [items EXCEPT ![i] = a]
PyIdx(items, i) == IF i >= 0 THEN i + 1 ELSE Len(items) + i + 1
HSMut(items, m) ==
  LET k == PyIdx(items, m.i) IN
  CASE m.op = "add" -> HSAdd(items, m.a)
    [] m.op = "update" -> HSUpdate(items, m.l)
    [] m.op \in {"remove", "discard"} -> HSRemove(items, m.a)          \* remove raises KeyError for a missing header: no change
    [] m.op = "clear" -> <<>>
    [] m.op = "setitem" -> IF k \in 1..Len(items) THEN HSSetItem(items, k, m.a) ELSE items
    [] m.op = "delitem" -> IF k \in 1..Len(items) THEN DelAt(items, k) ELSE items
    [] OTHER -> items
RECURSIVE HSApply(_, _)
HSApply(items, muts) == IF muts = <<>> THEN items ELSE HSApply(HSMut(items, Head(muts)), Tail(muts))
NoDupCI(items) == \A i, j \in 1..Len(items) : i # j => LowerA(items[i]) # LowerA(items[j])
SetUnmodelled(L) == \E i \in 1..Len(L) : \E j \in 1..Len(L[i]) : L[i][j] >= 128       \* str.lower() beyond ASCII
=============================================================================
