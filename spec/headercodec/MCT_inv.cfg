CONSTANTS
  Codecs = {"quote", "list", "dict", "options", "etags", "range", "crange", "age", "csp", "date"}
  Law = "inv"
  Alphas <- AlphaInvT
  Lens <- LenInvT
  Items <- ItemsInvT
INIT Init
NEXT Next
CHECK_DEADLOCK FALSE
INVARIANT Inverse
INVARIANT RangeOrder
