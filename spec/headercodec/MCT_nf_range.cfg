CONSTANTS
  Codec = "range"
  Law = "nf"
  Alpha = {98, 61, 48, 49, 45, 44, 32}
  MaxLen = 8
  MaxItems = 0
INIT Init
NEXT NoNext
INVARIANT NormalForm
