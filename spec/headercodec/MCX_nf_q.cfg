CONSTANTS
  Codecs = {"quote", "list", "dict", "options", "etags", "range", "crange", "age", "csp"}
  Law = "nf"
  Alphas <- AlphaNf
  Lens <- LenNfXq
  Items <- NoItems
INIT Init
NEXT Next
CHECK_DEADLOCK FALSE
INVARIANT Export
