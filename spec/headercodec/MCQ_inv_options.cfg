CONSTANTS
  Codec = "options"
  Law = "inv"
  Alpha = {97, 32, 44, 59, 61, 34, 92, 233, 37, 50}
  MaxLen = 2
  MaxItems = 2
INIT Init
NEXT NoNext
INVARIANT Inverse
