CONSTANTS
  Codec = "range"
  Law = "inv"
  Alpha = {97}
  MaxLen = 0
  MaxItems = 4
INIT Init
NEXT NoNext
INVARIANT Inverse
INVARIANT RangeOrder
