CONSTANTS
  Codec = "dict"
  Law = "inv"
  Alpha = {97, 32, 44, 59, 61, 34, 92, 233, 128512}
  MaxLen = 3
  MaxItems = 2
INIT Init
NEXT NoNext
INVARIANT Inverse
