CONSTANTS
  Codecs = {"cachecontrol", "basic", "authparam", "set"}
  Law = "inv"
  Lens <- LenXT
  Items <- ItemsQ
INIT Init
NEXT Next
CHECK_DEADLOCK FALSE
INVARIANT Export
