----------------------------- MODULE HeaderCodec -----------------------------
(* C06: every HTTP header serialiser is inverted by its parser.                               *)
(* Both halves of every pair are transcribed as total functions over code point sequences     *)
(* (text) and decimal digit sequences (numbers; TLC integers are 32 bit):                     *)
(*   Quote/Unquote, DumpList/ParseList (urllib's parse_http_list automaton), DumpDict/        *)
(*   ParseDict, DumpOptions/ParseOptions (parameter scanner, quoted-string scanner, %22),     *)
(*   DumpETags/ParseETags (the _etag_re regular expression with Python's leftmost / lazy       *)
(*   semantics), DumpRange/ParseRange, DumpCR/ParseCR (Content-Range), etag half of If-Range,   *)
(*   DumpAge/ParseAge (Python int() text syntax), DumpCSP/ParseCSP, HttpDate/ParseImf          *)
(*   (IMF-fixdate from a civil date + offset, normalised to UTC with day arithmetic).          *)
(* The domain predicates DomXxx are the quantifier of the property.  RFC 2231 star-key forms     *)
(* are outside the claimed domain; the model flags them (..Star) instead of decoding them.      *)
EXTENDS Text, Integers

NONE == <<0 - 1>>            \* Python None where a text / digit sequence is expected
DQ == 34
BS == 92
COMMA == 44
SEMI == 59
EQ == 61
STAR == 42
SLASH == 47
COLON == 58

TokenChars == {33, 35, 36, 37, 38, 39, 42, 43, 45, 46, 94, 95, 96, 124, 126} \cup (48..57) \cup (65..90) \cup (97..122)
IsToken(s) == s # <<>> /\ \A i \in 1..Len(s) : s[i] \in TokenChars
\* Python str.isspace() (also re's \s for str patterns)
SpaceChars == {9, 10, 11, 12, 13, 28, 29, 30, 31, 32, 133, 160, 5760, 8232, 8233, 8239, 8287, 12288} \cup (8192..8202)
IsSpace(c) == c \in SpaceChars
IsDigit(c) == c >= 48 /\ c <= 57
LowerC(c) == IF c >= 65 /\ c <= 90 THEN c + 32 ELSE c
LowerA(s) == [i \in 1..Len(s) |-> LowerC(s[i])]          \* ASCII lower()
HasUpper(s) == \E i \in 1..Len(s) : s[i] >= 65 /\ s[i] <= 90
Has(s, c) == \E i \in 1..Len(s) : s[i] = c

RECURSIVE LSkip(_, _)
LSkip(s, p) == IF p <= Len(s) /\ IsSpace(s[p]) THEN LSkip(s, p + 1) ELSE p       \* first non-space position >= p
RECURSIVE RSkip(_, _)
RSkip(s, p) == IF p >= 1 /\ IsSpace(s[p]) THEN RSkip(s, p - 1) ELSE p
LStrip(s) == Drop(s, LSkip(s, 1) - 1)
Strip(s) == LET a == LSkip(s, 1) b == RSkip(s, Len(s)) IN IF a > b THEN <<>> ELSE SubSeq(s, a, b)

RECURSIVE JoinSeqs(_, _)
JoinSeqs(ss, sep) == IF ss = <<>> THEN <<>> ELSE IF Len(ss) = 1 THEN ss[1] ELSE ss[1] \o sep \o JoinSeqs(Tail(ss), sep)
First(s, c) == FindFrom(s, <<c>>, 1)                      \* 0 if absent
\* Python str.replace: left to right, non-overlapping
RECURSIVE ReplaceFrom(_, _, _, _)
ReplaceFrom(s, p, pat, rep) == IF p > Len(s) THEN <<>>
                               ELSE IF StartsAt(s, p, pat) THEN rep \o ReplaceFrom(s, p + Len(pat), pat, rep)
                               ELSE <<s[p]>> \o ReplaceFrom(s, p + 1, pat, rep)
Replace(s, pat, rep) == ReplaceFrom(s, 1, pat, rep)
Quoted(s) == Len(s) >= 2 /\ s[1] = DQ /\ s[Len(s)] = DQ
Inner(s) == SubSeq(s, 2, Len(s) - 1)

TextOK(s) == \A i \in 1..Len(s) : IsScalar(s[i]) /\ s[i] # CR /\ s[i] # LF
TextOrNone(s) == s = NONE \/ TextOK(s)
Distinct(ks) == \A i, j \in 1..Len(ks) : i # j => ks[i] # ks[j]
Keys(pairs) == [i \in 1..Len(pairs) |-> pairs[i][1]]
PairSet(pairs) == {pairs[i] : i \in 1..Len(pairs)}
\* Python dict: assignment to an existing key keeps its position
RECURSIVE DictPut(_, _, _)
DictPut(pairs, k, v) == IF pairs = <<>> THEN <<<<k, v>>>>
                        ELSE IF pairs[1][1] = k THEN <<<<k, v>>>> \o Tail(pairs)
                        ELSE <<pairs[1]>> \o DictPut(Tail(pairs), k, v)
RECURSIVE DictOf(_)
DictOf(pairs) == IF pairs = <<>> THEN <<>> ELSE LET n == Len(pairs) IN DictPut(DictOf(SubSeq(pairs, 1, n - 1)), pairs[n][1], pairs[n][2])

\* ---- quote_header_value / unquote_header_value ---------------------------------------------
RECURSIVE Esc(_)
Esc(v) == IF v = <<>> THEN <<>>
          ELSE (IF Head(v) = BS THEN <<BS, BS>> ELSE IF Head(v) = DQ THEN <<BS, DQ>> ELSE <<Head(v)>>) \o Esc(Tail(v))
Quote(v, allowToken) == IF v = <<>> THEN <<DQ, DQ>>
                        ELSE IF allowToken /\ IsToken(v) THEN v
                        ELSE <<DQ>> \o Esc(v) \o <<DQ>>
UnEsc(s) == Replace(Replace(s, <<BS, BS>>, <<BS>>), <<BS, DQ>>, <<DQ>>)
Unquote(s) == IF Quoted(s) THEN UnEsc(Inner(s)) ELSE s

\* ---- dump_header(list) / parse_list_header ------------------------------------------------
DumpList(L) == JoinSeqs([i \in 1..Len(L) |-> Quote(L[i], TRUE)], <<COMMA, SP>>)
\* urllib.request.parse_http_list: the backslash of an escape inside quotes is dropped
RECURSIVE HL(_, _, _, _, _)
HL(s, p, part, esc, quote) ==
  IF p > Len(s) THEN (IF part # <<>> THEN <<part>> ELSE <<>>)
  ELSE LET c == s[p] IN
       IF esc THEN HL(s, p + 1, Append(part, c), FALSE, quote)
       ELSE IF quote THEN (IF c = BS THEN HL(s, p + 1, part, TRUE, TRUE)
                           ELSE HL(s, p + 1, Append(part, c), FALSE, c # DQ))
       ELSE IF c = COMMA THEN <<part>> \o HL(s, p + 1, <<>>, FALSE, FALSE)
       ELSE HL(s, p + 1, Append(part, c), FALSE, c = DQ)
HttpList(s) == LET ps == HL(s, 1, <<>>, FALSE, FALSE) IN [i \in 1..Len(ps) |-> Strip(ps[i])]
StripQ(x) == IF Quoted(x) THEN Inner(x) ELSE x
ParseList(s) == LET ps == HttpList(s) IN [i \in 1..Len(ps) |-> StripQ(ps[i])]
DomList(L) == \A i \in 1..Len(L) : TextOK(L[i])

\* ---- dump_header(dict) / parse_dict_header --------------------------------------------------
EndsStar(k) == k # <<>> /\ k[Len(k)] = STAR
DumpItem(k, v) == IF v = NONE THEN k
                  ELSE IF EndsStar(k) THEN k \o <<EQ>> \o v
                  ELSE k \o <<EQ>> \o Quote(v, TRUE)
DumpDict(pairs) == JoinSeqs([i \in 1..Len(pairs) |-> DumpItem(pairs[i][1], pairs[i][2])], <<COMMA, SP>>)
\* one list item -> <<>> (skipped) or <<<<key, value>>>>; key*= charset decoding is NOT modelled (DictStar)
DictItem(item) == LET e == First(item, EQ)
                      key == Strip(IF e = 0 THEN item ELSE Take(item, e - 1)) IN
                  IF key = <<>> THEN <<>>
                  ELSE IF e = 0 THEN <<<<key, NONE>>>>
                  ELSE LET val == Strip(Drop(item, e)) IN
                       <<<<IF EndsStar(key) THEN Take(key, Len(key) - 1) ELSE key, StripQ(val)>>>>
ParseDict(s) == LET items == ParseList(s) IN DictOf(Concat([i \in 1..Len(items) |-> DictItem(items[i])]))
DictStar(s) == LET items == ParseList(s) IN
               \E i \in 1..Len(items) : LET e == First(items[i], EQ) IN e > 1 /\ EndsStar(Strip(Take(items[i], e - 1)))
DomKey(k) == IsToken(k) /\ ~Has(k, STAR)
DomDict(pairs) == /\ \A i \in 1..Len(pairs) : DomKey(pairs[i][1]) /\ TextOrNone(pairs[i][2])
                  /\ Distinct(Keys(pairs))

\* ---- dump_options_header / parse_options_header ----------------------------------------------
DumpOptions(main, pairs) ==
  JoinSeqs(<<main>> \o [i \in 1..Len(pairs) |-> DumpItem(pairs[i][1], pairs[i][2])], <<SEMI, SP>>)
RECURSIVE TokLen(_, _)
TokLen(s, p) == IF p <= Len(s) /\ s[p] \in TokenChars THEN 1 + TokLen(s, p + 1) ELSE 0      \* maximal token run at p
\* closing quote of a quoted-string starting at rest[1] = DQ; 0 if unterminated (1-based position)
RECURSIVE CloseQ(_, _)
CloseQ(r, p) == IF p > Len(r) THEN 0
                ELSE IF r[p] = BS /\ p + 1 <= Len(r) /\ r[p + 1] \in {BS, DQ} THEN CloseQ(r, p + 2)
                ELSE IF r[p] = DQ THEN p ELSE CloseQ(r, p + 1)
RECURSIVE OptParts(_)
OptParts(rest) ==
  LET kl == TokLen(rest, 1)
      hasKey == kl > 0 /\ kl + 1 <= Len(rest) /\ rest[kl + 1] = EQ
      pk == LowerA(Take(rest, kl))
      r1 == IF hasKey THEN Drop(rest, kl + 1) ELSE rest
      vl == TokLen(r1, 1)
      cq == IF hasKey /\ vl = 0 /\ r1 # <<>> /\ r1[1] = DQ THEN CloseQ(r1, 2) ELSE 0
      part == IF hasKey /\ vl > 0 THEN <<<<pk, Take(r1, vl)>>>>
              ELSE IF cq > 0 THEN <<<<pk, Take(r1, cq)>>>> ELSE <<>>
      r2 == IF cq > 0 THEN Drop(r1, cq) ELSE r1
      e == First(r2, SEMI)
  IN IF e = 0 THEN part ELSE part \o OptParts(LStrip(Drop(r2, e)))
OptValue(pv) == IF Quoted(pv) THEN Replace(UnEsc(Inner(pv)), <<37, 50, 50>>, <<DQ>>) ELSE pv
ParseOptions(s) ==
  LET e == First(s, SEMI)
      main == Strip(IF e = 0 THEN s ELSE Take(s, e - 1))
      rest == IF e = 0 THEN <<>> ELSE Strip(Drop(s, e))
  IN IF main = <<>> \/ rest = <<>> THEN [main |-> main, opts |-> <<>>]
     ELSE LET ps == OptParts(rest) IN
          [main |-> main, opts |-> DictOf([i \in 1..Len(ps) |-> <<ps[i][1], OptValue(ps[i][2])>>])]
\* a * in a parameter name triggers RFC 2231 charset / continuation handling: not modelled
OptStar(s) == LET e == First(s, SEMI) IN
              e > 0 /\ LET ps == OptParts(Strip(Drop(s, e))) IN \E i \in 1..Len(ps) : Has(ps[i][1], STAR)
HasPct22(s) == Contains(s, <<37, 50, 50>>)
DomOptions(v) == /\ TextOK(v.main) /\ v.main # <<>> /\ ~Has(v.main, SEMI) /\ Strip(v.main) = v.main
                 /\ \A i \in 1..Len(v.opts) : /\ DomKey(v.opts[i][1]) /\ ~HasUpper(v.opts[i][1])
                                              /\ TextOK(v.opts[i][2]) /\ ~HasPct22(v.opts[i][2])
                 /\ Distinct(Keys(v.opts))

\* ---- ETags.to_header / parse_etags ----------------------------------------------------------
Wrap(x) == <<DQ>> \o x \o <<DQ>>
WTAG == <<87, SLASH>>
DumpETags(v) == IF v.star THEN <<STAR>>
                ELSE JoinSeqs([i \in 1..Len(v.strong) |-> Wrap(v.strong[i])] \o [i \in 1..Len(v.weak) |-> WTAG \o Wrap(v.weak[i])],
                              <<COMMA, SP>>)
\* (?:\s*,\s*|$) at k: position after the match, 0 if none ($ before a final LF is not modelled: EtagLF)
SepEnd(s, k) == LET a == LSkip(s, k) IN
                IF a <= Len(s) /\ s[a] = COMMA THEN LSkip(s, a + 1)
                ELSE IF k = Len(s) + 1 THEN k ELSE 0
RECURSIVE QuoteEnd(_, _)    \* "(.*?)" : least closing quote j >= p followed by a separator / the end
QuoteEnd(s, p) == IF p > Len(s) THEN 0 ELSE IF s[p] = DQ /\ SepEnd(s, p + 1) > 0 THEN p ELSE QuoteEnd(s, p + 1)
RECURSIVE RawEnd(_, _)      \* (.*?) : least k >= p at which the separator / the end matches
RawEnd(s, p) == IF SepEnd(s, p) > 0 THEN p ELSE RawEnd(s, p + 1)
\* one match of _etag_re at p: [weak, tag, star, nxt]
EtagAt(s, p) ==
  LET w == p + 1 <= Len(s) /\ s[p] \in {87, 119} /\ s[p + 1] = SLASH
      q == IF w THEN p + 2 ELSE p
      j == IF q <= Len(s) /\ s[q] = DQ THEN QuoteEnd(s, q + 1) ELSE 0
  IN IF j > 0 THEN LET quoted == SubSeq(s, q + 1, j - 1) IN
                   [weak |-> w, star |-> FALSE, tag |-> quoted, nxt |-> SepEnd(s, j + 1)]
     ELSE LET k == RawEnd(s, q) raw == SubSeq(s, q, k - 1) IN
          [weak |-> w, star |-> raw = <<STAR>>, tag |-> raw, nxt |-> SepEnd(s, k)]
RECURSIVE EtagLoop(_, _, _, _)
EtagLoop(s, p, strong, weak) ==
  IF p > Len(s) THEN [star |-> FALSE, strong |-> strong, weak |-> weak]
  ELSE LET m == EtagAt(s, p) IN
       IF m.star THEN [star |-> TRUE, strong |-> <<>>, weak |-> <<>>]
       ELSE IF m.weak THEN EtagLoop(s, m.nxt, strong, Append(weak, m.tag))
       ELSE EtagLoop(s, m.nxt, Append(strong, m.tag), weak)
ParseETags(s) == EtagLoop(s, 1, <<>>, <<>>)
EtagLF(s) == Has(s, LF)
SetOf(q) == {q[i] : i \in 1..Len(q)}
SameETags(a, b) == a.star = b.star /\ SetOf(a.strong) = SetOf(b.strong) /\ SetOf(a.weak) = SetOf(b.weak)
DomTag(x) == x # NONE /\ x # <<>> /\ TextOK(x) /\ ~Has(x, DQ)
DomETags(v) == IF v.star THEN v.strong = <<>> /\ v.weak = <<>>
               ELSE (\A i \in 1..Len(v.strong) : DomTag(v.strong[i])) /\ (\A i \in 1..Len(v.weak) : DomTag(v.weak[i]))

\* ---- decimal digit sequences (unbounded naturals) ------------------------------------------
AllDigits(s) == s # <<>> /\ \A i \in 1..Len(s) : IsDigit(s[i])
RECURSIVE DNorm(_)
DNorm(d) == IF Len(d) > 1 /\ d[1] = 0 THEN DNorm(Tail(d)) ELSE d
DigitsOf(s) == DNorm([i \in 1..Len(s) |-> s[i] - 48])              \* text of ASCII digits -> number
TextOf(d) == [i \in 1..Len(d) |-> d[i] + 48]
RECURSIVE LexLess(_, _)
LexLess(a, b) == IF a = <<>> THEN FALSE ELSE IF a[1] # b[1] THEN a[1] < b[1] ELSE LexLess(Tail(a), Tail(b))
DLess(a, b) == Len(a) < Len(b) \/ (Len(a) = Len(b) /\ LexLess(a, b))          \* normalised operands
DLeq(a, b) == a = b \/ DLess(a, b)
RECURSIVE DIncR(_)
DIncR(d) == IF d = <<>> THEN <<1>>
            ELSE LET n == Len(d) IN IF d[n] < 9 THEN [d EXCEPT ![n] = d[n] + 1] ELSE Append(DIncR(SubSeq(d, 1, n - 1)), 0)
DInc(d) == DIncR(d)
RECURSIVE DDecR(_)
DDecR(d) == LET n == Len(d) IN IF d[n] > 0 THEN [d EXCEPT ![n] = d[n] - 1] ELSE Append(DDecR(SubSeq(d, 1, n - 1)), 9)
DDec(d) == DNorm(DDecR(d))                                          \* d > 0
IsNum(d) == d # <<>> /\ d # NONE /\ (\A i \in 1..Len(d) : d[i] \in 0..9) /\ DNorm(d) = d
ZERO == <<0>>
\* _plain_int: strip, then -?\d+ (ASCII); [ok, neg, d]
PlainInt(t) == LET s == Strip(t)
                   neg == s # <<>> /\ s[1] = DASH
                   body == IF neg THEN Tail(s) ELSE s IN
               IF AllDigits(body) THEN [ok |-> TRUE, neg |-> neg /\ DigitsOf(body) # ZERO, d |-> DigitsOf(body)]
               ELSE [ok |-> FALSE, neg |-> FALSE, d |-> ZERO]

\* ---- Range.to_header / parse_range_header -----------------------------------------------------
\* value: [none, units, ranges: <<[neg, b, e]>>]   b: digits, e: digits | NONE; (neg, b, NONE) = suffix range -b
NoRange == [none |-> TRUE, units |-> <<>>, ranges |-> <<>>]
DumpR1(r) == IF r.e = NONE THEN (IF r.neg THEN <<DASH>> \o TextOf(r.b) ELSE TextOf(r.b) \o <<DASH>>)
             ELSE TextOf(r.b) \o <<DASH>> \o TextOf(DDec(r.e))
DumpRange(v) == v.units \o <<EQ>> \o JoinSeqs([i \in 1..Len(v.ranges) |-> DumpR1(v.ranges[i])], <<COMMA>>)
\* last: "open" (last_end < 0) or the digits of last_end
RECURSIVE RangeItems(_, _, _)
RangeItems(items, last, acc) ==
  IF items = <<>> THEN [ok |-> TRUE, ranges |-> acc]
  ELSE LET item == Strip(Head(items)) bad == [ok |-> FALSE, ranges |-> <<>>] IN
       IF ~Has(item, DASH) THEN bad
       ELSE IF item[1] = DASH
            THEN LET n == PlainInt(item) IN
                 IF last = NONE \/ ~n.ok \/ n.d = ZERO THEN bad        \* a suffix length of zero is rejected
                 ELSE RangeItems(Tail(items), NONE, Append(acc, [neg |-> n.neg, b |-> n.d, e |-> NONE]))
       ELSE LET e == First(item, DASH)
                bs == PlainInt(Take(item, e - 1))
                estr == Strip(Drop(item, e))
                en == PlainInt(estr) IN
            IF ~bs.ok \/ last = NONE \/ DLess(bs.d, last) THEN bad
            ELSE IF estr = <<>> THEN RangeItems(Tail(items), NONE, Append(acc, [neg |-> FALSE, b |-> bs.d, e |-> NONE]))
            ELSE IF ~en.ok \/ en.neg \/ ~DLess(bs.d, DInc(en.d)) THEN bad
            ELSE RangeItems(Tail(items), DInc(en.d), Append(acc, [neg |-> FALSE, b |-> bs.d, e |-> DInc(en.d)]))
ParseRange(s) ==
  LET e == First(s, EQ) IN
  IF e = 0 THEN NoRange
  ELSE LET r == RangeItems(SplitOn(Drop(s, e), COMMA, <<>>), ZERO, <<>>) IN
       IF r.ok THEN [none |-> FALSE, units |-> LowerA(Strip(Take(s, e - 1))), ranges |-> r.ranges] ELSE NoRange
RangeUnmodelled(s) == \E i \in 1..Len(s) : s[i] >= 128       \* str.lower() / isspace beyond ASCII in units
DomR1(r) == /\ IsNum(r.b)
            /\ IF r.e = NONE THEN (r.neg => r.b # ZERO) ELSE ~r.neg /\ IsNum(r.e) /\ DLess(r.b, r.e)
\* the order the parser insists on: ascending, non-overlapping, nothing after an open-ended / suffix range
RECURSIVE Ascending(_, _)
Ascending(rs, last) == rs = <<>> \/ (/\ last # NONE
                                      /\ (Head(rs).neg \/ DLeq(last, Head(rs).b))
                                      /\ Ascending(Tail(rs), Head(rs).e))
DomRange(v) == /\ ~v.none /\ IsToken(v.units) /\ ~HasUpper(v.units) /\ v.ranges # <<>>
               /\ \A i \in 1..Len(v.ranges) : DomR1(v.ranges[i])

\* ---- ContentRange.to_header / parse_content_range_header -------------------------------------
\* value: [none, units, start, stop, length]  (digits | NONE)
NoCR == [none |-> TRUE, units |-> <<>>, start |-> NONE, stop |-> NONE, length |-> NONE]
DumpCR(v) == LET len == IF v.length = NONE THEN <<STAR>> ELSE TextOf(v.length) IN
             IF v.start = NONE THEN v.units \o <<SP, STAR, SLASH>> \o len
             ELSE v.units \o <<SP>> \o TextOf(v.start) \o <<DASH>> \o TextOf(DDec(v.stop)) \o <<SLASH>> \o len
RECURSIVE WordEnd(_, _)
WordEnd(s, p) == IF p <= Len(s) /\ ~IsSpace(s[p]) THEN WordEnd(s, p + 1) ELSE p
\* is_byte_range_valid on non-negative numbers (digits | NONE)
ValidCR(start, stop, length) ==
  IF (start = NONE) # (stop = NONE) THEN FALSE
  ELSE IF start = NONE THEN TRUE
  ELSE IF length = NONE THEN DLess(start, stop)
  ELSE DLess(start, stop) /\ DLess(start, length)
ParseCR(t) ==
  LET s == Strip(t) w == WordEnd(s, 1) IN
  IF w > Len(s) THEN NoCR
  ELSE LET units == Take(s, w - 1)
           def == Drop(s, LSkip(s, w) - 1)
           sl == First(def, SLASH) IN
  IF sl = 0 THEN NoCR
  ELSE LET rng == Take(def, sl - 1)
           ls == Drop(def, sl)
           ln == PlainInt(ls)
           length == IF ls = <<STAR>> THEN NONE ELSE ln.d IN
  IF ls # <<STAR>> /\ ~ln.ok THEN NoCR
  ELSE IF rng = <<STAR>> THEN (IF ls # <<STAR>> /\ ln.neg THEN NoCR
                               ELSE [none |-> FALSE, units |-> units, start |-> NONE, stop |-> NONE, length |-> length])
  ELSE LET d == First(rng, DASH) IN
  IF d = 0 THEN NoCR
  ELSE LET a == PlainInt(Take(rng, d - 1)) b == PlainInt(Drop(rng, d)) IN
  IF ~a.ok \/ ~b.ok \/ a.neg \/ b.neg \/ (ls # <<STAR>> /\ ln.neg) THEN NoCR
  ELSE IF ValidCR(a.d, DInc(b.d), length)
       THEN [none |-> FALSE, units |-> units, start |-> a.d, stop |-> DInc(b.d), length |-> length] ELSE NoCR
NumOrNone(d) == d = NONE \/ IsNum(d)
DomCR(v) == /\ ~v.none /\ IsToken(v.units)
            /\ NumOrNone(v.start) /\ NumOrNone(v.stop) /\ NumOrNone(v.length)
            /\ ValidCR(v.start, v.stop, v.length)

\* ---- dump_age / parse_age ------------------------------------------------------------------------
MAXAGE == <<8, 6, 3, 9, 9, 9, 9, 9, 9, 9, 9, 9, 9, 9>>      \* timedelta.max in whole seconds
DumpAge(d) == TextOf(d)
\* Python int(text): white space, sign, digits with single underscores between digits (ASCII only here)
RECURSIVE IntBody(_, _, _)      \* [ok, digits as text without underscores]
IntBody(s, p, prevDigit) ==
  IF p > Len(s) THEN [ok |-> prevDigit, t |-> <<>>]
  ELSE IF IsDigit(s[p]) THEN LET r == IntBody(s, p + 1, TRUE) IN [ok |-> r.ok, t |-> <<s[p]>> \o r.t]
  ELSE IF s[p] = 95 /\ prevDigit /\ p + 1 <= Len(s) /\ IsDigit(s[p + 1]) THEN IntBody(s, p + 1, FALSE)
  ELSE [ok |-> FALSE, t |-> <<>>]
ParseAge(t) ==
  LET s == Strip(t)
      sg == s # <<>> /\ s[1] \in {43, DASH}
      r == IntBody(IF sg THEN Tail(s) ELSE s, 1, FALSE)
      d == DigitsOf(r.t) IN
  IF ~r.ok \/ r.t = <<>> THEN NONE
  ELSE IF sg /\ s[1] = DASH /\ d # ZERO THEN NONE
  ELSE IF DLess(MAXAGE, d) THEN NONE ELSE d
AgeUnmodelled(s) == \E i \in 1..Len(s) : s[i] >= 128 /\ ~IsSpace(s[i])      \* non-ASCII decimal digits
DomAge(d) == IsNum(d) /\ DLeq(d, MAXAGE)

\* ---- IfRange (entity-tag half; the date half uses HttpDate below) -----------------------------
\* value: [etag |-> text | NONE, date |-> <<y, mo, d, h, mi, s, offsetSeconds>> | NONE]
UnquoteEtag(t) == LET s == Strip(t)
                      w == Len(s) >= 2 /\ s[1] \in {87, 119} /\ s[2] = SLASH
                      e == IF w THEN Drop(s, 2) ELSE s IN
                  IF e # <<>> /\ e[1] = DQ /\ e[Len(e)] = DQ THEN (IF Len(e) = 1 THEN <<>> ELSE Inner(e)) ELSE e

\* ---- Content-Security-Policy --------------------------------------------------------------------
DumpCSP(pairs) == JoinSeqs([i \in 1..Len(pairs) |-> pairs[i][1] \o <<SP>> \o pairs[i][2]], <<SEMI, SP>>)
CSPItem(x) == LET p == Strip(x) e == First(p, SP) IN
              IF e = 0 THEN <<>> ELSE <<<<Strip(Take(p, e - 1)), Strip(Drop(p, e))>>>>
ParseCSP(s) == LET ps == SplitOn(s, SEMI, <<>>) IN DictOf(Concat([i \in 1..Len(ps) |-> CSPItem(ps[i])]))
DomCSP(pairs) == /\ \A i \in 1..Len(pairs) : /\ IsToken(pairs[i][1])
                                             /\ LET v == pairs[i][2] IN TextOK(v) /\ v # <<>> /\ ~Has(v, SEMI) /\ Strip(v) = v
                 /\ Distinct(Keys(pairs))

\* ---- http_date / parse_date (IMF-fixdate only) ---------------------------------------------------
\* proleptic Gregorian day number (0001-01-01 = 1, like date.toordinal())
IsLeap(y) == ((y % 4) = 0 /\ (y % 100) # 0) \/ (y % 400) = 0
DaysBeforeYear(y) == LET p == y - 1 IN p * 365 + p \div 4 - p \div 100 + p \div 400
MonthLen(y, m) == IF m = 2 THEN (IF IsLeap(y) THEN 29 ELSE 28) ELSE IF m \in {4, 6, 9, 11} THEN 30 ELSE 31
RECURSIVE DaysBeforeMonth(_, _)
DaysBeforeMonth(y, m) == IF m = 1 THEN 0 ELSE DaysBeforeMonth(y, m - 1) + MonthLen(y, m - 1)
Ordinal(y, m, d) == DaysBeforeYear(y) + DaysBeforeMonth(y, m) + d
\* instant = <<ordinal day, second of day>> in UTC of a civil time <<y, mo, d, h, mi, s, utc offset in seconds>>
Instant(v) == LET secs == v[4] * 3600 + v[5] * 60 + v[6] - v[7]
                  day == Ordinal(v[1], v[2], v[3]) IN
              IF secs < 0 THEN <<day - 1, secs + 86400>> ELSE IF secs >= 86400 THEN <<day + 1, secs - 86400>> ELSE <<day, secs>>
RECURSIVE YearOf(_, _)
YearOf(n, y) == IF DaysBeforeYear(y + 1) < n THEN YearOf(n, y + 1) ELSE y
RECURSIVE MonthOf(_, _, _)
MonthOf(y, r, m) == IF r > MonthLen(y, m) THEN MonthOf(y, r - MonthLen(y, m), m + 1) ELSE <<m, r>>
\* civil date of an ordinal; the year search starts from a lower estimate (n div 366)
Civil(n) == LET y == YearOf(n, Max2(1, n \div 366)) md == MonthOf(y, n - DaysBeforeYear(y), 1) IN <<y, md[1], md[2]>>
DayNames == <<<<77, 111, 110>>, <<84, 117, 101>>, <<87, 101, 100>>, <<84, 104, 117>>, <<70, 114, 105>>, <<83, 97, 116>>, <<83, 117, 110>>>>
MonNames == <<<<74, 97, 110>>, <<70, 101, 98>>, <<77, 97, 114>>, <<65, 112, 114>>, <<77, 97, 121>>, <<74, 117, 110>>,
              <<74, 117, 108>>, <<65, 117, 103>>, <<83, 101, 112>>, <<79, 99, 116>>, <<78, 111, 118>>, <<68, 101, 99>>>>
D2(n) == <<48 + ((n \div 10) % 10), 48 + (n % 10)>>
D4(n) == <<48 + ((n \div 1000) % 10), 48 + ((n \div 100) % 10)>> \o D2(n)
GMT == <<71, 77, 84>>
HttpDate(inst) == LET c == Civil(inst[1]) s == inst[2] IN
  DayNames[((inst[1] + 6) % 7) + 1] \o <<COMMA, SP>> \o D2(c[3]) \o <<SP>> \o MonNames[c[2]] \o <<SP>> \o D4(c[1]) \o <<SP>>
  \o D2(s \div 3600) \o <<COLON>> \o D2((s \div 60) % 60) \o <<COLON>> \o D2(s % 60) \o <<SP>> \o GMT
N2(s, p) == (s[p] - 48) * 10 + (s[p + 1] - 48)
MonIdx(m) == IF \E i \in 1..12 : MonNames[i] = m THEN CHOOSE i \in 1..12 : MonNames[i] = m ELSE 0
IsImf(s) == /\ Len(s) = 29 /\ s[4] = COMMA /\ s[5] = SP /\ s[8] = SP /\ s[12] = SP /\ s[17] = SP /\ s[20] = COLON /\ s[23] = COLON
            /\ s[26] = SP /\ SubSeq(s, 27, 29) = GMT
            /\ \A p \in {6, 7, 13, 14, 15, 16, 18, 19, 21, 22, 24, 25} : IsDigit(s[p])
            /\ MonIdx(SubSeq(s, 9, 11)) > 0
\* IMF-fixdate text -> instant (defined on IsImf texts)
ParseImf(s) == <<Ordinal(N2(s, 13) * 100 + N2(s, 15), MonIdx(SubSeq(s, 9, 11)), N2(s, 6)), N2(s, 18) * 3600 + N2(s, 21) * 60 + N2(s, 24)>>
DomDate(v) == /\ v[1] \in 1..9999 /\ v[2] \in 1..12 /\ v[3] \in 1..MonthLen(v[1], v[2])
              /\ v[4] \in 0..23 /\ v[5] \in 0..59 /\ v[6] \in 0..59 /\ v[7] > 0 - 86400 /\ v[7] < 86400
              /\ LET n == Instant(v)[1] IN n >= Ordinal(1000, 1, 1) /\ n <= Ordinal(9999, 12, 31)
=============================================================================
