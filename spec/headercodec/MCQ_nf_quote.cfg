CONSTANTS
  Codec = "quote"
  Law = "nf"
  Alpha = {97, 34, 92, 32}
  MaxLen = 7
  MaxItems = 0
INIT Init
NEXT NoNext
INVARIANT NormalForm
