CONSTANTS
  Codecs = {"cachecontrol", "basic", "authparam", "options2231"}
  Law = "nf"
  Lens <- LenNfXT
  Items <- ItemsQ
INIT Init
NEXT Next
CHECK_DEADLOCK FALSE
INVARIANT Export
