CONSTANTS
  Codec = "crange"
  Law = "inv"
  Alpha = {97}
  MaxLen = 0
  MaxItems = 0
INIT Init
NEXT NoNext
INVARIANT Inverse
