CONSTANTS
  Codec = "csp"
  Law = "inv"
  Alpha = {97, 32, 59, 45, 39, 233}
  MaxLen = 3
  MaxItems = 3
INIT Init
NEXT NoNext
INVARIANT Inverse
