CONSTANTS
  Codecs = {"cachecontrol", "basic", "authparam", "set"}
  Law = "inv"
  Lens <- LenX
  Items <- ItemsX
INIT Init
NEXT Next
CHECK_DEADLOCK FALSE
INVARIANT Export
