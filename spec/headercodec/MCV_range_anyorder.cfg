CONSTANTS
  Codecs = {"range"}
  Law = "inv"
  Alphas <- AlphaInv
  Lens <- LenInvQ
  Items <- ItemsX
INIT Init
NEXT Next
CHECK_DEADLOCK FALSE
INVARIANT RangeAnyOrder
