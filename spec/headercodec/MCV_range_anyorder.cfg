CONSTANTS
  Codec = "range"
  Law = "inv"
  Alpha = {97}
  MaxLen = 0
  MaxItems = 2
INIT Init
NEXT NoNext
INVARIANT RangeAnyOrder
