CONSTANTS
  Codecs = {"setv"}
  Law = "inv"
  Lens <- LenQ
  Items <- ItemsQ
INIT Init
NEXT Next
CHECK_DEADLOCK FALSE
INVARIANT BrokenSetItem
