CONSTANTS
  Codec = "crange"
  Law = "nf"
  Alpha = {98, 32, 48, 49, 45, 47, 42}
  MaxLen = 8
  MaxItems = 0
INIT Init
NEXT NoNext
INVARIANT NormalForm
