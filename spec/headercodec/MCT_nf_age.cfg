CONSTANTS
  Codec = "age"
  Law = "nf"
  Alpha = {48, 49, 32, 43, 45, 95, 120}
  MaxLen = 7
  MaxItems = 0
INIT Init
NEXT NoNext
INVARIANT NormalForm
