CONSTANTS
  Codecs = {"cachecontrol", "basic", "authparam", "options2231"}
  Law = "nf"
  Lens <- LenNfQ
  Items <- ItemsQ
INIT Init
NEXT Next
CHECK_DEADLOCK FALSE
INVARIANT NormalForm2
