CONSTANTS
  Codec = "etags"
  Law = "nf"
  Alpha = {97, 87, 47, 34, 44, 32, 42}
  MaxLen = 5
  MaxItems = 0
INIT Init
NEXT NoNext
INVARIANT NormalForm
