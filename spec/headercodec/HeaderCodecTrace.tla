-------------------------- MODULE HeaderCodecTrace --------------------------
(* Trace judge for C06.  Input: ndjson (TRACE_FILE); every line is one round trip executed on  *)
(* the real werkzeug functions / classes.  All fields are always present:                      *)
(*   [t, i, op, codec, v, dumped, parsed, redumped, reparsed, err, err2]                        *)
(*   op = "rt": v is a VALUE; dumped = dump(v); parsed = parse(dumped); redumped = dump(parsed);*)
(*              reparsed = parse(redumped); err / err2 = exception class name of the first /    *)
(*              second pair ("" if none).                                                       *)
(*   op = "nf": v is an arbitrary header TEXT; parsed = parse(v); redumped, reparsed as above;  *)
(*              err = exception of parse(v) (not judged here: C07), err2 as above.              *)
(* Value shapes per codec (text = code points, numbers = decimal digits, None = <<-1>>):        *)
(*   quote, quotent: text            list, set: <<text>>         dict, csp: <<<<key, text|None>>>>*)
(*   options: [main, opts]           etags: [star, strong, weak] age: digits | None             *)
(*   range: [none, units, ranges: <<[neg, b, e]>>]   crange: [none, units, start, stop, length] *)
(*   date: <<y, mo, d, h, mi, s, offset seconds>> | None        ifrange: [etag, date]           *)
(*   cc: [props: <<<<name, repr>>>>, items: dict pairs]   authz, wwwauth: [none, type, token, params] *)
(* Verdict clauses: OutOfDomain (driver error, never a verdict), Raised, RoundTrip,             *)
(* RoundTrip/multi-range-order, RedumpRaised, NormalForm.  Drift records compare the real dump  *)
(* text and the real parse with the transcription in HeaderCodec.tla (never a verdict).         *)
EXTENDS HeaderCodec, TLC, Json, IOUtils

Lines == ndJsonDeserialize(IOEnv.TRACE_FILE)
VARIABLES l
vars == <<l>>

USERNAME == <<117, 115, 101, 114, 110, 97, 109, 101>>
PASSWORD == <<112, 97, 115, 115, 119, 111, 114, 100>>
BASIC == <<98, 97, 115, 105, 99>>
RECURSIVE RStripEq(_)
RStripEq(s) == IF s # <<>> /\ s[Len(s)] = EQ THEN RStripEq(SubSeq(s, 1, Len(s) - 1)) ELSE s
Scalars(s) == \A i \in 1..Len(s) : IsScalar(s[i])

DomIfRange(v) == IF v.date # NONE THEN v.etag = NONE /\ Len(v.date) = 7 /\ DomDate(v.date)
                 ELSE v.etag = NONE \/ (TextOK(v.etag) /\ ~Has(v.etag, DQ))
DomAuth(c, v) ==
  /\ ~v.none /\ IsToken(v.type) /\ ~HasUpper(v.type)
  /\ IF c = "authz" /\ v.type = BASIC
     THEN /\ v.token = NONE /\ Len(v.params) = 2 /\ v.params[1][1] = USERNAME /\ v.params[2][1] = PASSWORD
          /\ Scalars(v.params[1][2]) /\ Scalars(v.params[2][2]) /\ ~Has(v.params[1][2], COLON)
     ELSE IF v.token # NONE
     THEN v.params = <<>> /\ TextOK(v.token) /\ Strip(v.token) = v.token /\ ~Has(RStripEq(v.token), EQ)
     ELSE v.params # <<>> /\ DomDict(v.params) /\ \A i \in 1..Len(v.params) : v.params[i][2] # NONE

Dom(c, v) ==
  CASE c \in {"quote", "quotent"} -> TextOK(v)
    [] c \in {"list", "set"} -> DomList(v)
    [] c = "dict" -> DomDict(v)
    [] c = "options" -> DomOptions(v)
    [] c = "etags" -> DomETags(v)
    [] c = "range" -> DomRange(v)
    [] c = "crange" -> DomCR(v)
    [] c = "age" -> v # NONE /\ DomAge(v)
    [] c = "csp" -> DomCSP(v)
    [] c = "date" -> v # NONE /\ Len(v) = 7 /\ DomDate(v)
    [] c = "ifrange" -> DomIfRange(v)
    [] c = "cc" -> TRUE       \* v is what the property setters stored: the generator keeps the inputs inside the domain
    [] c \in {"authz", "wwwauth"} -> DomAuth(c, v)
    [] OTHER -> FALSE

SamePairs(a, b) == Len(a) = Len(b) /\ PairSet(a) = PairSet(b)
SameDate(a, b) == (a = NONE /\ b = NONE) \/ (a # NONE /\ b # NONE /\ Instant(a) = Instant(b))
Same(c, a, b) ==
  CASE c \in {"dict", "csp"} -> SamePairs(a, b)
    [] c = "options" -> a.main = b.main /\ SamePairs(a.opts, b.opts)
    [] c = "etags" -> SameETags(a, b)
    [] c = "date" -> SameDate(a, b)
    [] c = "ifrange" -> a.etag = b.etag /\ SameDate(a.date, b.date)
    [] c = "cc" -> a.props = b.props /\ SamePairs(a.items, b.items)
    [] c \in {"authz", "wwwauth"} -> a.none = b.none /\ a.type = b.type /\ a.token = b.token /\ SamePairs(a.params, b.params)
    [] OTHER -> a = b

IsNone(c, p) == CASE c \in {"range", "crange", "authz", "wwwauth"} -> p.none
                  [] c \in {"age", "date"} -> p = NONE
                  [] OTHER -> FALSE

Verdict(r) ==
  LET c == r.codec IN
  IF r.op = "rt" THEN
     IF ~Dom(c, r.v) THEN "OutOfDomain"
     ELSE IF r.err # "" THEN "Raised"
     ELSE IF ~Same(c, r.parsed, r.v)
          THEN (IF c = "range" /\ ~Ascending(r.v.ranges, ZERO) THEN "RoundTrip/multi-range-order" ELSE "RoundTrip")
     ELSE IF r.err2 # "" THEN "RedumpRaised"
     ELSE IF ~Same(c, r.reparsed, r.parsed) THEN "NormalForm"
     ELSE "ok"
  ELSE IF r.op = "nf" THEN
     IF r.err # "" \/ IsNone(c, r.parsed) THEN "ok"
     ELSE IF ~(IF c = "cc" THEN DomDict(r.parsed.items) ELSE Dom(c, r.parsed)) THEN "ok"
     ELSE IF r.err2 # "" THEN "RedumpRaised"
     ELSE IF ~Same(c, r.reparsed, r.parsed) THEN "NormalForm"
     ELSE "ok"
  ELSE "ok"

\* ---- model drift (never a verdict) -----------------------------------------------------------------
MDump(c, v) ==
  CASE c = "quote" -> Quote(v, TRUE)
    [] c = "quotent" -> Quote(v, FALSE)
    [] c \in {"list", "set"} -> DumpList(v)
    [] c = "dict" -> DumpDict(v)
    [] c = "options" -> DumpOptions(v.main, v.opts)
    [] c = "range" -> DumpRange(v)
    [] c = "crange" -> DumpCR(v)
    [] c = "age" -> DumpAge(v)
    [] c = "csp" -> DumpCSP(v)
    [] c = "date" -> HttpDate(Instant(v))
    [] c = "cc" -> DumpDict(v.items)
    [] c = "ifrange" -> IF v.date # NONE THEN HttpDate(Instant(v.date)) ELSE IF v.etag # NONE THEN Wrap(v.etag) ELSE <<>>
MParseOK(c, s, p) ==
  CASE c \in {"quote", "quotent"} -> p = Unquote(s)
    [] c = "list" -> p = ParseList(s)
    [] c = "set" -> p = ParseList(s) \/ Len(p) < Len(ParseList(s))       \* HeaderSet may drop case-insensitive duplicates
    [] c = "dict" -> DictStar(s) \/ p = ParseDict(s)
    [] c = "options" -> OptStar(s) \/ p = ParseOptions(s)
    [] c = "etags" -> EtagLF(s) \/ SameETags(p, ParseETags(s))
    [] c = "range" -> RangeUnmodelled(s) \/ p = ParseRange(s)
    [] c = "crange" -> p = ParseCR(s)
    [] c = "age" -> AgeUnmodelled(s) \/ p = ParseAge(s)
    [] c = "csp" -> p = ParseCSP(s)
    [] c = "date" -> ~IsImf(s) \/ (p # NONE /\ Instant(p) = ParseImf(s) /\ p[7] = 0)
    [] c = "cc" -> DictStar(s) \/ p.items = ParseDict(s)
    [] c = "ifrange" -> LET u == LStrip(s)      \* an entity tag is quoted, a date is not; email.utils' lenient dates are not modelled
                            qt == u # <<>> /\ (u[1] = DQ \/ (Len(u) >= 3 /\ u[1] \in {87, 119} /\ u[2] = SLASH /\ u[3] = DQ)) IN
                        IF s = <<>> THEN p.etag = NONE /\ p.date = NONE
                        ELSE IF qt THEN p.date = NONE /\ p.etag = UnquoteEtag(s)
                        ELSE IF IsImf(s) THEN p.date # NONE /\ Instant(p.date) = ParseImf(s)
                        ELSE p.date # NONE \/ p.etag = UnquoteEtag(s)
    [] OTHER -> TRUE
Small(s) == Len(s) <= 160
DriftOK(r) ==
  LET c == r.codec IN
  IF r.err # "" \/ ~Small(r.dumped) \/ ~Small(r.redumped) THEN TRUE
  ELSE IF r.op = "rt" THEN (c \in {"etags", "authz", "wwwauth"} \/ r.dumped = MDump(c, r.v)) /\ MParseOK(c, r.dumped, r.parsed)
  ELSE IF r.op = "nf" THEN ~Small(r.v) \/ MParseOK(c, r.v, r.parsed)
  ELSE TRUE

Init == l = 1
Next == /\ l <= Len(Lines)
        /\ LET r == Lines[l] v == Verdict(r) IN
           /\ IF v = "ok" THEN TRUE ELSE PrintT(ToJson([reject |-> 1, t |-> r.t, i |-> r.i, clause |-> v]))
           /\ IF v # "ok" \/ DriftOK(r) THEN TRUE ELSE PrintT(ToJson([drift |-> 1, t |-> r.t, i |-> r.i, what |-> r.codec]))
        /\ l' = l + 1
Done == PrintT(ToJson([judged |-> Len(Lines)])) /\ TLCGet("generated") >= 0
=============================================================================
