-------------------------- MODULE HeaderCodecTrace --------------------------
(* Trace judge for C06.  Input: ndjson (TRACE_FILE); every line is one round trip executed on  *)
(* the real werkzeug functions / classes.  All fields are always present:                      *)
(*   [t, i, op, codec, v, dumped, parsed, redumped, reparsed, err, err2]                        *)
(*   op = "rt": v is a VALUE; dumped = dump(v); parsed = parse(dumped); redumped = dump(parsed);*)
(*              reparsed = parse(redumped); err / err2 = exception class name of the first /    *)
(*              second pair ("" if none).                                                       *)
(*   op = "nf": v is an arbitrary header TEXT; parsed = parse(v); redumped, reparsed as above;  *)
(*              err = exception of parse(v) (not judged here: C07), err2 as above.              *)
(* Value shapes per codec (text = code points, numbers = decimal digits, None = <<-1>>):        *)
(*   quote, quotent: text            list, set: <<text>>         dict, csp: <<<<key, text|None>>>>*)
(*   options: [main, opts]           etags: [star, strong, weak] age: digits | None             *)
(*   range: [none, units, ranges: <<[neg, b, e]>>]   crange: [none, units, start, stop, length] *)
(*   date: <<y, mo, d, h, mi, s, offset seconds>> | None        ifrange: [etag, date]           *)
(*   cc: [props: <<<<name, repr>>>>, items: dict pairs]   authz, wwwauth: [none, type, token, params] *)
(*   second layer (HeaderCodec2.tla): cachecontrol: [cls, assigns, props: <<<<attr, [k, t]>>>>, items]; basic: auth shape;  *)
(*   authparam: auth shape + cls; options2231: options shape                                     *)
(*   op = "vh": like rt, the value built through a history of public mutators (setv: [items, n, members] with extra line  *)
(*              fields init, muts) or a datetime of some tzinfo kind; clauses VHRaised, VHRoundTrip, VHRedumpRaised,          *)
(*              VHNormalForm, VHDumpStable.                                                                              *)
(*   op = "la": like rt, values that contain the codec's own syntax as text; clauses LARaised, LARoundTrip, LARedumpRaised,   *)
(*              LANormalForm (drift as for rt).                                                                         *)
(*   op = "hist": one step of a history with aliasing: v = the value, dumped = its text, parsed = the result of a parse  *)
(*              call made after earlier parse results (or the value before dumping) were mutated; codecs cookie      *)
(*              (<<<<key, value>>>>) and accept (<<<<range, q thousandths>>>>) occur only here.  Clauses HistRaised,      *)
(*              HistIndependence.                                                                               *)
(* Verdict clauses: OutOfDomain (driver error, never a verdict), Raised, RoundTrip,             *)
(* RoundTrip/multi-range-order, RedumpRaised, NormalForm.  Drift records compare the real dump  *)
(* text and the real parse with the transcription in HeaderCodec.tla (never a verdict).         *)
EXTENDS HeaderCodec2, TLC, Json, IOUtils

Lines == ndJsonDeserialize(IOEnv.TRACE_FILE)
VARIABLES l
vars == <<l>>

DomIfRange(v) == IF v.date # NONE THEN v.etag = NONE /\ Len(v.date) = 7 /\ DomDate(v.date)
                 ELSE v.etag = NONE \/ (TextOK(v.etag) /\ ~Has(v.etag, DQ))
Dom(c, v) ==
  CASE c \in {"quote", "quotent"} -> TextOK(v)
    [] c \in {"list", "set"} -> DomList(v)
    [] c = "dict" -> DomDict(v)
    [] c = "options" -> DomOptions(v)
    [] c = "etags" -> DomETags(v)
    [] c = "range" -> DomRange(v)
    [] c = "crange" -> DomCR(v)
    [] c = "age" -> v # NONE /\ DomAge(v)
    [] c = "csp" -> DomCSP(v)
    [] c = "date" -> v # NONE /\ Len(v) = 7 /\ DomDate(v)
    [] c = "ifrange" -> DomIfRange(v)
    [] c = "cc" -> TRUE       \* v is what the property setters stored: the generator keeps the inputs inside the domain
    [] c \in {"authz", "wwwauth"} -> DomAuth(c, v)
    [] c = "basic" -> v.type = BASIC /\ DomAuth("authz", v)
    [] c = "authparam" -> v.cls \in {"authz", "wwwauth"} /\ ~(v.cls = "authz" /\ v.type = BASIC) /\ DomAuth(v.cls, v)
    [] c = "options2231" -> DomOptions(v)
    [] c = "setv" -> DomList(v.items) /\ \A i \in 1..Len(v.members) : TextOK(v.members[i][1])
    [] c = "cookie" -> \A i \in 1..Len(v) : IsToken(v[i][1]) /\ v[i][2] # <<>> /\ \A k \in 1..Len(v[i][2]) : IsAlnum(v[i][2][k])
    [] c = "accept" -> /\ \A i \in 1..Len(v) : v[i][2] \in 0..1000 /\ v[i][1] # <<>> /\ \A k \in 1..Len(v[i][1]) : v[i][1][k] \in TokenChars \cup {SLASH}
                       /\ \A i \in 1..(Len(v) - 1) : v[i][2] > v[i + 1][2]
    [] c = "cachecontrol" -> IF v.cls = "resp" THEN DomAssigns(v.assigns) ELSE v.cls = "req" /\ v.assigns = <<>> /\ DomDict(v.items)
    [] OTHER -> FALSE

SamePairs(a, b) == Len(a) = Len(b) /\ PairSet(a) = PairSet(b)
SameDate(a, b) == (a = NONE /\ b = NONE) \/ (a # NONE /\ b # NONE /\ Instant(a) = Instant(b))
Same(c, a, b) ==
  CASE c \in {"dict", "csp"} -> SamePairs(a, b)
    [] c \in {"options", "options2231"} -> a.main = b.main /\ SamePairs(a.opts, b.opts)
    [] c = "etags" -> SameETags(a, b)
    [] c = "date" -> SameDate(a, b)
    [] c = "ifrange" -> a.etag = b.etag /\ SameDate(a.date, b.date)
    [] c \in {"cc", "cachecontrol"} -> a.props = b.props /\ SamePairs(a.items, b.items)
    [] c \in {"authz", "wwwauth", "basic", "authparam"} -> a.none = b.none /\ a.type = b.type /\ a.token = b.token /\ SamePairs(a.params, b.params)
    [] OTHER -> a = b

IsNone(c, p) == CASE c \in {"range", "crange", "authz", "wwwauth", "basic", "authparam"} -> p.none
                  [] c \in {"age", "date"} -> p = NONE
                  [] OTHER -> FALSE

Verdict(r) ==
  LET c == r.codec IN
  IF r.op = "rt" THEN
     IF ~Dom(c, r.v) THEN "OutOfDomain"
     ELSE IF r.err # "" THEN "Raised"
     ELSE IF ~Same(c, r.parsed, r.v)
          THEN (IF c = "range" /\ ~Ascending(r.v.ranges, ZERO) THEN "RoundTrip/multi-range-order" ELSE "RoundTrip")
     ELSE IF r.err2 # "" THEN "RedumpRaised"
     ELSE IF ~Same(c, r.reparsed, r.parsed) THEN "NormalForm"
     ELSE "ok"
  ELSE IF r.op = "nf" THEN
     IF r.err # "" \/ IsNone(c, r.parsed) THEN "ok"
     ELSE IF ~(IF c \in {"cc", "cachecontrol"} THEN DomDict(r.parsed.items) ELSE Dom(c, r.parsed)) THEN "ok"
     ELSE IF r.err2 # "" THEN "RedumpRaised"
     ELSE IF ~Same(c, r.reparsed, r.parsed) THEN "NormalForm"
     ELSE "ok"
  ELSE IF r.op = "vh" THEN
     \* the value was built through a history of its public mutators (or, for dates, from a datetime of some tzinfo kind);
     \* v = the value as its own public reads describe it
     IF c = "range" /\ ~r.v.none /\ ~Ascending(r.v.ranges, ZERO) THEN "ok"        \* that class is judged by the rt lines
     ELSE IF ~Dom(c, r.v) THEN "OutOfDomain"
     ELSE IF r.err # "" THEN "VHRaised"
     ELSE IF ~Same(c, r.parsed, r.v) THEN "VHRoundTrip"
     ELSE IF r.err2 # "" THEN "VHRedumpRaised"
     ELSE IF ~Same(c, r.reparsed, r.parsed) THEN "VHNormalForm"
     ELSE IF c # "etags" /\ r.redumped # r.dumped THEN "VHDumpStable"            \* dump(parse(dump(v))) = dump(v)
     ELSE "ok"
  ELSE IF r.op = "la" THEN
     \* structure look-alikes: the value contains the codec's own syntax as text (separators, key=value, quotes, backslashes)
     IF ~Dom(c, r.v) THEN "OutOfDomain"
     ELSE IF r.err # "" THEN "LARaised"
     ELSE IF ~Same(c, r.parsed, r.v) THEN "LARoundTrip"                          \* same pairs, same count: no extra / overridden keys
     ELSE IF r.err2 # "" THEN "LARedumpRaised"
     ELSE IF ~Same(c, r.reparsed, r.parsed) THEN "LANormalForm"
     ELSE "ok"
  ELSE IF r.op = "hist" THEN
     \* one step of a history with aliasing (see harness/headercodec.py: run_history): v is the value the text `dumped`
     \* was serialised from, parsed what THIS parse call returned after earlier results / the value were mutated
     IF c = "range" /\ ~r.v.none /\ ~Ascending(r.v.ranges, ZERO) THEN "ok"        \* that class is judged by the rt lines
     ELSE IF ~Dom(c, r.v) THEN "OutOfDomain"
     ELSE IF r.err # "" THEN "HistRaised"
     ELSE IF ~Same(c, r.parsed, r.v) THEN "HistIndependence"
     ELSE "ok"
  ELSE "ok"

\* ---- model drift (never a verdict) -----------------------------------------------------------------
SameAuth(a, b) == a.none = b.none /\ a.type = b.type /\ a.token = b.token /\ a.params = b.params
CCIntUnmodelled(items) == \E i \in 1..Len(items) : items[i][2] # NONE /\ IntUnmodelled(items[i][2])
\* the typed layer of a value: the setters produce the dict, the getters read it
\* a HeaderSet value history: the mutator model produces the items the real object reads back
SetvOK(r) == SetUnmodelled(r.init) \/ (\E i \in 1..Len(r.muts) : SetUnmodelled(<<r.muts[i].a>> \o r.muts[i].l))
             \/ HSApply(SetItems(r.init), r.muts) = r.v.items
CCValueOK(v) == (v.cls = "resp" => CCApply(v.assigns, <<>>) = v.items) /\ (CCIntUnmodelled(v.items) \/ CCView(v.cls, v.items) = v.props)
MDump(c, v) ==
  CASE c = "quote" -> Quote(v, TRUE)
    [] c = "quotent" -> Quote(v, FALSE)
    [] c \in {"list", "set"} -> DumpList(v)
    [] c = "dict" -> DumpDict(v)
    [] c \in {"options", "options2231"} -> DumpOptions(v.main, v.opts)
    [] c = "range" -> DumpRange(v)
    [] c = "crange" -> DumpCR(v)
    [] c = "age" -> DumpAge(v)
    [] c = "csp" -> DumpCSP(v)
    [] c = "date" -> HttpDate(Instant(v))
    [] c \in {"cc", "cachecontrol"} -> DumpDict(v.items)
    [] c \in {"authz", "wwwauth"} -> DumpAuth(c, v)
    [] c = "basic" -> DumpAuth("authz", v)
    [] c = "authparam" -> DumpAuth(v.cls, v)
    [] c = "ifrange" -> IF v.date # NONE THEN HttpDate(Instant(v.date)) ELSE IF v.etag # NONE THEN Wrap(v.etag) ELSE <<>>
MParseOK(c, s, p) ==
  CASE c \in {"quote", "quotent"} -> p = Unquote(s)
    [] c = "list" -> p = ParseList(s)
    [] c = "set" -> SetUnmodelled(ParseList(s)) \/ p = SetItems(ParseList(s))
    [] c = "dict" -> DictStar(s) \/ p = ParseDict(s)
    [] c \in {"options", "options2231"} -> Opt2Unmodelled(s) \/ p = ParseOptions2(s)
    [] c = "etags" -> EtagLF(s) \/ SameETags(p, ParseETags(s))
    [] c = "range" -> RangeUnmodelled(s) \/ p = ParseRange(s)
    [] c = "crange" -> p = ParseCR(s)
    [] c = "age" -> AgeUnmodelled(s) \/ p = ParseAge(s)
    [] c = "csp" -> p = ParseCSP(s)
    [] c = "date" -> ~IsImf(s) \/ (p # NONE /\ Instant(p) = ParseImf(s) /\ p[7] = 0)
    [] c = "cc" -> DictStar(s) \/ p.items = ParseDict(s)
    [] c = "cachecontrol" -> DictStar(s) \/ (p.items = ParseDict(s) /\ (CCIntUnmodelled(p.items) \/ p.props = CCView(p.cls, p.items)))
    [] c \in {"authz", "wwwauth"} -> AuthUnmodelled(c, s) \/ SameAuth(p, ParseAuth(c, s))
    [] c = "basic" -> AuthUnmodelled("authz", s) \/ SameAuth(p, ParseAuth("authz", s))
    [] c = "authparam" -> AuthUnmodelled(p.cls, s) \/ SameAuth(p, ParseAuth(p.cls, s))
    [] c = "ifrange" -> LET u == LStrip(s)      \* an entity tag is quoted, a date is not; email.utils' lenient dates are not modelled
                            qt == u # <<>> /\ (u[1] = DQ \/ (Len(u) >= 3 /\ u[1] \in {87, 119} /\ u[2] = SLASH /\ u[3] = DQ)) IN
                        IF s = <<>> THEN p.etag = NONE /\ p.date = NONE
                        ELSE IF qt THEN p.date = NONE /\ p.etag = UnquoteEtag(s)
                        ELSE IF IsImf(s) THEN p.date # NONE /\ Instant(p.date) = ParseImf(s)
                        ELSE p.date # NONE \/ p.etag = UnquoteEtag(s)
    [] OTHER -> TRUE
Small(s) == Len(s) <= 160
DriftOK(r) ==
  LET c == r.codec IN
  IF r.err # "" \/ ~Small(r.dumped) \/ ~Small(r.redumped) THEN TRUE
  ELSE IF r.op \in {"rt", "la"} THEN (c = "etags" \/ r.dumped = MDump(c, r.v)) /\ MParseOK(c, r.dumped, r.parsed) /\ (c = "cachecontrol" => CCValueOK(r.v))
  ELSE IF r.op = "vh" /\ c = "setv" THEN SetvOK(r)
  ELSE IF r.op = "nf" THEN ~Small(r.v) \/ MParseOK(c, r.v, r.parsed)
  ELSE TRUE

Init == l = 1
Next == /\ l <= Len(Lines)
        /\ LET r == Lines[l] v == Verdict(r) IN
           /\ IF v = "ok" THEN TRUE ELSE PrintT(ToJson([reject |-> 1, t |-> r.t, i |-> r.i, clause |-> v]))
           /\ IF v # "ok" \/ DriftOK(r) THEN TRUE ELSE PrintT(ToJson([drift |-> 1, t |-> r.t, i |-> r.i, what |-> r.codec]))
        /\ l' = l + 1
Done == PrintT(ToJson([judged |-> Len(Lines)])) /\ TLCGet("generated") >= 0
=============================================================================
