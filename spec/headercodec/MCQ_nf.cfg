CONSTANTS
  Codecs = {"quote", "list", "dict", "options", "etags", "range", "crange", "age", "csp"}
  Law = "nf"
  Alphas <- AlphaNf
  Lens <- LenNfQ
  Items <- NoItems
INIT Init
NEXT Next
CHECK_DEADLOCK FALSE
INVARIANT NormalForm
