CONSTANTS
  Codec = "csp"
  Law = "inv"
  Alpha = {97, 32, 59, 45, 39, 233}
  MaxLen = 2
  MaxItems = 2
INIT Init
NEXT NoNext
INVARIANT ExportDom
