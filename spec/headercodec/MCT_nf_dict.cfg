CONSTANTS
  Codec = "dict"
  Law = "nf"
  Alpha = {97, 32, 44, 34, 92, 61, 42}
  MaxLen = 7
  MaxItems = 0
INIT Init
NEXT NoNext
INVARIANT NormalForm
