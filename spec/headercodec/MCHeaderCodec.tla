---------------------------- MODULE MCHeaderCodec ----------------------------
(* Bounded instances for C06.  One state per element of the universe (NEXT NoNext).            *)
(*  Law = "inv": x is a VALUE of the codec's domain built over Alpha; Parse(Dump(x)) = x.       *)
(*  Law = "nf" : x is an arbitrary TEXT over Alpha (malformed input included);                  *)
(*               p = Parse(x) in the dump domain  =>  Parse(Dump(p)) = p.                       *)
(* Export prints the universe for the replay on the real functions.                            *)
EXTENDS HeaderCodec, TLC, Json

CONSTANTS Codec, Law, Alpha, MaxLen, MaxItems
VARIABLES x
vars == <<x>>

Texts == SeqsUpTo(Alpha, MaxLen)
KeyList == <<<<107>>, <<97, 45, 98>>, <<122, 39>>>>                   \* k  a-b  z'
Mains == {<<97, 47, 98>>, <<120, 32, 121>>}                          \* a/b   "x y"
Units == {<<98>>, <<105, 116>>}                                       \* b  it
Nums == {<<0>>, <<1>>, <<2>>, <<9>>, <<1, 0>>}
BigNums == Nums \cup {<<2, 1, 4, 7, 4, 8, 3, 6, 4, 7>>, <<2, 1, 4, 7, 4, 8, 3, 6, 4, 8>>, <<9, 9, 9, 9, 9, 9, 9, 9, 9, 9, 9, 9, 9, 9, 9, 9, 9, 9, 9, 9>>}
Ages == BigNums \cup {MAXAGE, DInc(MAXAGE), DDec(MAXAGE)}
PairsOver(V) == UNION {{[i \in 1..n |-> <<KeyList[i], f[i]>>] : f \in [1..n -> V]} : n \in 0..MaxItems}
R1s == {[neg |-> TRUE, b |-> n, e |-> NONE] : n \in Nums \ {ZERO}}
       \cup {[neg |-> FALSE, b |-> n, e |-> NONE] : n \in Nums}
       \cup {[neg |-> FALSE, b |-> p[1], e |-> p[2]] : p \in {q \in Nums \X Nums : DLess(q[1], q[2])}}
NN == BigNums \cup {NONE}
Tags == Texts \ {<<>>}
Years == {1000, 1999, 2000, 2024, 2100, 9999}
Dates == {<<y, m, d, h, mi, s, o>> : y \in Years, m \in {1, 2, 3, 12}, d \in {1, 28, 29, 31}, h \in {0, 23}, mi \in {0, 59},
                                     s \in {0, 59}, o \in {0 - 1439, 0 - 720, 0 - 1, 0, 1, 330, 840, 1439}}

Values ==
  CASE Codec = "quote" -> Texts
    [] Codec = "list" -> SeqsUpTo(Texts, MaxItems)
    [] Codec = "dict" -> PairsOver(Texts \cup {NONE})
    [] Codec = "options" -> {[main |-> m, opts |-> p] : m \in Mains, p \in PairsOver(Texts)}
    [] Codec = "etags" -> {[star |-> FALSE, strong |-> a, weak |-> b] : a, b \in SeqsUpTo(Tags, MaxItems)}
                          \cup {[star |-> TRUE, strong |-> <<>>, weak |-> <<>>]}
    [] Codec = "range" -> {[none |-> FALSE, units |-> u, ranges |-> r] : u \in Units, r \in SeqsUpTo(R1s, MaxItems) \ {<<>>}}
    [] Codec = "crange" -> {[none |-> FALSE, units |-> u, start |-> a, stop |-> b, length |-> c] : u \in Units, a, b, c \in NN}
    [] Codec = "age" -> Ages
    [] Codec = "csp" -> PairsOver(Texts)
    [] Codec = "date" -> Dates

Init == IF Law = "inv" THEN x \in Values ELSE x \in Texts
NoNext == FALSE /\ UNCHANGED vars

\* ---- the inverse law on the model ---------------------------------------------------------------
InDom(v) ==
  CASE Codec = "quote" -> TextOK(v)
    [] Codec = "list" -> DomList(v)
    [] Codec = "dict" -> DomDict(v)
    [] Codec = "options" -> DomOptions(v)
    [] Codec = "etags" -> DomETags(v)
    [] Codec = "range" -> DomRange(v) /\ Ascending(v.ranges, ZERO)
    [] Codec = "crange" -> DomCR(v)
    [] Codec = "age" -> DomAge(v)
    [] Codec = "csp" -> DomCSP(v)
    [] Codec = "date" -> DomDate(v)
RoundTripOK(v) ==
  CASE Codec = "quote" -> Unquote(Quote(v, TRUE)) = v /\ Unquote(Quote(v, FALSE)) = v
    [] Codec = "list" -> ParseList(DumpList(v)) = v
    [] Codec = "dict" -> ParseDict(DumpDict(v)) = v
    [] Codec = "options" -> ParseOptions(DumpOptions(v.main, v.opts)) = v
    [] Codec = "etags" -> SameETags(ParseETags(DumpETags(v)), v)
    [] Codec = "range" -> ParseRange(DumpRange(v)) = v
    [] Codec = "crange" -> ParseCR(DumpCR(v)) = v
    [] Codec = "age" -> ParseAge(DumpAge(v)) = v
    [] Codec = "csp" -> ParseCSP(DumpCSP(v)) = v
    [] Codec = "date" -> LET t == HttpDate(Instant(v)) IN IsImf(t) /\ ParseImf(t) = Instant(v) /\ Civil(Instant(v)[1])[1] \in 1000..9999
Parse(s) ==
  CASE Codec = "quote" -> Unquote(s)
    [] Codec = "list" -> ParseList(s)
    [] Codec = "dict" -> ParseDict(s)
    [] Codec = "options" -> ParseOptions(s)
    [] Codec = "etags" -> ParseETags(s)
    [] Codec = "range" -> ParseRange(s)
    [] Codec = "crange" -> ParseCR(s)
    [] Codec = "age" -> ParseAge(s)
    [] Codec = "csp" -> ParseCSP(s)
Unmodelled(s) ==
  CASE Codec = "dict" -> DictStar(s)
    [] Codec = "options" -> OptStar(s)
    [] Codec = "etags" -> EtagLF(s)
    [] OTHER -> FALSE
ParsedInDom(p) ==
  CASE Codec \in {"range", "crange"} -> ~p.none /\ InDom(p)
    [] Codec = "age" -> p # NONE /\ InDom(p)
    [] OTHER -> InDom(p)

Inverse == Law = "inv" => (InDom(x) => RoundTripOK(x))
NormalForm == Law = "nf" => (Unmodelled(x) \/ LET p == Parse(x) IN ParsedInDom(p) => RoundTripOK(p))
\* whatever the range parser accepts it accepts in the order it insists on (so the Ascending restriction is exactly
\* the parser's), and it rejects every dump of a well-formed Range value that is not in that order
RangeOrder == (Codec = "range" /\ Law = "inv" /\ DomRange(x)) =>
                 (Ascending(x.ranges, ZERO) \/ ParseRange(DumpRange(x)).none)
\* deliberately too strong (demonstrates the finding in the model / non-vacuity): multi-ranges in ANY order
RangeAnyOrder == (Codec = "range" /\ Law = "inv" /\ DomRange(x)) => ParseRange(DumpRange(x)) = x
\* deliberately wrong variants of the model (non-vacuity of Inverse)
NaiveUnquote(s) == IF Quoted(s) THEN Replace(Replace(Inner(s), <<BS, DQ>>, <<DQ>>), <<BS, BS>>, <<BS>>) ELSE s
BrokenQuoteOrder == (Codec = "quote" /\ Law = "inv") => NaiveUnquote(Quote(x, TRUE)) = x

Export == PrintT(ToJson([codec |-> Codec, law |-> Law, x |-> x]))
ExportDom == IF Law = "inv" /\ ~InDom(x) THEN TRUE ELSE Export
=============================================================================
