CONSTANTS
  Codec = "options"
  Law = "nf"
  Alpha = {97, 66, 32, 59, 61, 34, 92, 37, 50}
  MaxLen = 6
  MaxItems = 0
INIT Init
NEXT NoNext
INVARIANT NormalForm
