CONSTANTS
  Codec = "etags"
  Law = "inv"
  Alpha = {97, 87, 47, 34, 44, 32, 42, 233}
  MaxLen = 1
  MaxItems = 2
INIT Init
NEXT NoNext
INVARIANT ExportDom
