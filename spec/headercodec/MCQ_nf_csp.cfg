CONSTANTS
  Codec = "csp"
  Law = "nf"
  Alpha = {97, 32, 59, 45}
  MaxLen = 7
  MaxItems = 0
INIT Init
NEXT NoNext
INVARIANT NormalForm
