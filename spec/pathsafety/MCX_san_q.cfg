CONSTANTS
  Variant = "code"
  AlphaSet = "small"
  MaxLen = 5
  Stride = 3
INIT Init
NEXT Next
INVARIANT Export
