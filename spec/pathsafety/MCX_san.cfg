CONSTANTS
  Variant = "code"
  AlphaSet = "full"
  MaxLen = 5
  Stride = 3
INIT Init
NEXT Next
INVARIANT Export
