CONSTANTS
  Variant = "code"
  AtomSet = "full"
  MaxAtoms = 1
  MaxParts = 3
  Stride = 1
INIT XInit
NEXT XNext
INVARIANT Export
