CONSTANTS
  Variant = "code"
  AtomSet = "nul"
  MaxAtoms = 3
  MaxParts = 3
  Stride = 1
INIT InitAbs
NEXT NextAbs
INVARIANT ContractAbs
