CONSTANTS
  Variant = "code"
  AtomSet = "full"
  MaxAtoms = 2
  MaxParts = 2
  Stride = 17
INIT XInit
NEXT XNext
INVARIANT Export
