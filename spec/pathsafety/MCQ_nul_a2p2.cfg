CONSTANTS
  Variant = "code"
  AtomSet = "nul"
  MaxAtoms = 2
  MaxParts = 2
  Stride = 1
INIT Init
NEXT Next
INVARIANT Contract
INVARIANT AbsCommutes
