CONSTANTS
  Variant = "code"
  AtomSet = "full"
  MaxAtoms = 3
  MaxParts = 6
  Stride = 1
INIT InitAbs
NEXT NextAbs
INVARIANT ContractAbs
