----------------------------- MODULE MCFilename -----------------------------
(* Every ASCII string up to MaxLen over Alpha: the transcription meets the output contract   *)
(* and is idempotent.  (On ASCII text NFKD is the identity.)                                 *)
EXTENDS Filename, TLC, Json

CONSTANTS Variant, AlphaSet, MaxLen, Stride

\*  .  _  -  a  SPACE  /  TAB  ~  \  NUL  US(0x1f)
AlphaFull == {46, 95, 45, 97, 32, 47, 9, 126, 92, 0, 31}
AlphaSmall == {46, 95, 97, 32, 47, 126}
Alpha == IF AlphaSet = "full" THEN AlphaFull ELSE AlphaSmall

VARIABLES x
Init == \E k \in 0..MaxLen : x \in [1..k -> Alpha]
Next == FALSE /\ UNCHANGED x

Out == SanV(Variant, x)
MeetsContract == OutputOk(Out)
FastAgrees == Variant = "code" => SanV(Variant, x) = SanRec(x)
Idempotent == SanV(Variant, Out) = Out
\* documented examples survive: a clean name is left alone
CleanKept == (x # <<>> /\ \A i \in 1..Len(x) : x[i] \in {97, 45} \/ (x[i] = 46 /\ i > 1 /\ i < Len(x))) => Out = x

Hash(s) == SumSeq(s) + 13 * Len(s)
Export == IF Stride > 1 /\ Hash(x) % Stride # 0 THEN TRUE
          ELSE PrintT(ToJson([in |-> x, out |-> San(x)]))
=============================================================================
