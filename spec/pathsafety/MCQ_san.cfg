CONSTANTS
  Variant = "code"
  AlphaSet = "small"
  MaxLen = 5
  Stride = 1
INIT Init
NEXT Next
INVARIANT MeetsContract
INVARIANT Idempotent
INVARIANT CleanKept
INVARIANT FastAgrees
