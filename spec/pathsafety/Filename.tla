------------------------------ MODULE Filename ------------------------------
(* C14, second half -- sanitised upload filenames (werkzeug.utils.secure_filename).          *)
(* contract  : OutputOk(out): ASCII, no path separator, no whitespace, no leading dot;       *)
(*             idempotence is a relation between two recorded calls.                         *)
(* transcript: San(x) = the pipeline after NFKD (NFKD itself is the Unicode database and is  *)
(*             not modelled: the judge receives the NFKD text as a logged environment value; *)
(*             on ASCII text NFKD is the identity).                                          *)
EXTENDS Naturals, Sequences, Text

FSLASH == 47
FDOT == 46
USCORE == 95

\* str.isspace() on ASCII: TAB LF VT FF CR FS GS RS US SPACE
IsAsciiSpace(c) == (c >= 9 /\ c <= 13) \/ (c >= 28 /\ c <= 32)
IsSeparator(c) == c = FSLASH                      \* os.sep; os.altsep is None on POSIX
Kept(c) == IsAlnum(c) \/ c \in {USCORE, FDOT, 45}     \* [A-Za-z0-9_.-]

\* ---- contract ------------------------------------------------------------------------------
OutputClause(out) ==
  IF ~IsAsciiSeq(out) THEN "Ascii"
  ELSE IF \E i \in 1..Len(out) : IsSeparator(out[i]) THEN "NoSeparator"
  ELSE IF \E i \in 1..Len(out) : IsAsciiSpace(out[i]) THEN "NoWhitespace"
  ELSE IF out # <<>> /\ out[1] = FDOT THEN "NoLeadingDot"
  ELSE "ok"
OutputOk(out) == OutputClause(out) = "ok"

\* ---- transcription ---------------------------------------------------------------------------
IsAscii(c) == c < 128
RECURSIVE AsciiIgnore(_)                                      \* .encode("ascii", "ignore")
AsciiIgnore(s) == IF s = <<>> THEN <<>> ELSE (IF IsAscii(Head(s)) THEN <<Head(s)>> ELSE <<>>) \o AsciiIgnore(Tail(s))
RECURSIVE KeepOnly(_)                                         \* re.sub("[^A-Za-z0-9_.-]", "", s)
KeepOnly(s) == IF s = <<>> THEN <<>> ELSE (IF Kept(Head(s)) THEN <<Head(s)>> ELSE <<>>) \o KeepOnly(Tail(s))

RECURSIVE MapSep(_)
MapSep(s) == IF s = <<>> THEN <<>> ELSE <<IF IsSeparator(Head(s)) THEN 32 ELSE Head(s)>> \o MapSep(Tail(s))

\* "_".join(s.split()): runs of whitespace become one underscore, none at the ends
RECURSIVE Words(_, _)
Words(s, cur) == IF s = <<>> THEN (IF cur = <<>> THEN <<>> ELSE <<cur>>)
                 ELSE IF IsAsciiSpace(Head(s)) THEN (IF cur = <<>> THEN <<>> ELSE <<cur>>) \o Words(Tail(s), <<>>)
                 ELSE Words(Tail(s), Append(cur, Head(s)))

\* ---- the same three steps without recursion (linear in the length; the trace judge meets names of 4000+
\* characters).  MCFilename checks FastAgrees: they equal the recursive transcription on every bounded input.
AsciiIgnoreF(s) == SelectSeq(s, IsAscii)
KeepOnlyF(s) == SelectSeq(s, Kept)
MapSepF(s) == [i \in 1..Len(s) |-> IF IsSeparator(s[i]) THEN 32 ELSE s[i]]
NotDropped(c) == c >= 0
\* index walks (no copying): last / first position whose element is not in the set Skip, 0 / Len+1 if none
RECURSIVE LastNotIn(_, _, _)
LastNotIn(s, Skip, i) == IF i = 0 THEN 0 ELSE IF s[i] \notin Skip THEN i ELSE LastNotIn(s, Skip, i - 1)
RECURSIVE FirstNotIn(_, _, _)
FirstNotIn(s, Skip, i) == IF i > Len(s) THEN i ELSE IF s[i] \notin Skip THEN i ELSE FirstNotIn(s, Skip, i + 1)
AsciiSpaces == (9..13) \cup (28..32)
\* "_".join(s.split()): a whitespace run becomes one underscore iff text stands on both sides of it
UnderscoreJoinF(s) ==
  LET n == Len(s)
      last == LastNotIn(s, AsciiSpaces, n)
      mark == [i \in 1..n |-> IF ~IsAsciiSpace(s[i]) THEN s[i]
                               ELSE IF i > 1 /\ ~IsAsciiSpace(s[i - 1]) /\ i < last THEN USCORE ELSE 0 - 1]
  IN SelectSeq(mark, NotDropped)

StripSet == {FDOT, USCORE}
RECURSIVE LStrip(_)
LStrip(s) == IF s # <<>> /\ Head(s) \in StripSet THEN LStrip(Tail(s)) ELSE s
RECURSIVE RStrip(_)
RStrip(s) == IF s # <<>> /\ s[Len(s)] \in StripSet THEN RStrip(SubSeq(s, 1, Len(s) - 1)) ELSE s

SanVariants == {"code", "nostrip", "nosep", "nosplit", "rstriponly", "trunc3", "trunc4"}

\* "truncate to N after the strip" (a length limit bolted on behind the pipeline): the cut can expose a dot or
\* underscore at the end, which the next application strips -- the output predicates still hold, idempotence
\* does not.  (Truncating BEFORE the strip would be fine.)
TruncLen(variant) == IF variant = "trunc3" THEN 3 ELSE IF variant = "trunc4" THEN 4 ELSE 0

\* strip("._") by positions
StripF(s) ==
  LET hi == LastNotIn(s, StripSet, Len(s))
  IN IF hi = 0 THEN <<>> ELSE SubSeq(s, FirstNotIn(s, StripSet, 1), hi)

\* the recursive transcription of the code as pinned (reference for FastAgrees)
SanRec(nfkd) == RStrip(LStrip(KeepOnly(JoinWith(Words(MapSep(AsciiIgnore(nfkd)), <<>>), USCORE))))

\* the pipeline on the NFKD text
SanV(variant, nfkd) ==
  LET a == AsciiIgnoreF(nfkd)
      b == IF variant = "nosep" THEN a ELSE MapSepF(a)
      c == IF variant = "nosplit" THEN b ELSE UnderscoreJoinF(b)
      d == IF variant = "nosep" \/ variant = "nosplit" THEN c ELSE KeepOnlyF(c)
  IN IF variant = "nostrip" THEN d
     ELSE IF variant = "rstriponly" THEN RStrip(d)
     ELSE IF TruncLen(variant) > 0 THEN Take(StripF(d), TruncLen(variant))
     ELSE StripF(d)
San(nfkd) == SanV("code", nfkd)
=============================================================================
