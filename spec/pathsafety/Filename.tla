------------------------------ MODULE Filename ------------------------------
(* C14, second half -- sanitised upload filenames (werkzeug.utils.secure_filename).          *)
(* contract  : OutputOk(out): ASCII, no path separator, no whitespace, no leading dot;       *)
(*             idempotence is a relation between two recorded calls.                         *)
(* transcript: San(x) = the pipeline after NFKD (NFKD itself is the Unicode database and is  *)
(*             not modelled: the judge receives the NFKD text as a logged environment value; *)
(*             on ASCII text NFKD is the identity).                                          *)
EXTENDS Naturals, Sequences, Text

FSLASH == 47
FDOT == 46
USCORE == 95

\* str.isspace() on ASCII: TAB LF VT FF CR FS GS RS US SPACE
IsAsciiSpace(c) == (c >= 9 /\ c <= 13) \/ (c >= 28 /\ c <= 32)
IsSeparator(c) == c = FSLASH                      \* os.sep; os.altsep is None on POSIX
Kept(c) == IsAlnum(c) \/ c \in {USCORE, FDOT, 45}     \* [A-Za-z0-9_.-]

\* ---- contract ------------------------------------------------------------------------------
OutputClause(out) ==
  IF ~IsAsciiSeq(out) THEN "Ascii"
  ELSE IF \E i \in 1..Len(out) : IsSeparator(out[i]) THEN "NoSeparator"
  ELSE IF \E i \in 1..Len(out) : IsAsciiSpace(out[i]) THEN "NoWhitespace"
  ELSE IF out # <<>> /\ out[1] = FDOT THEN "NoLeadingDot"
  ELSE "ok"
OutputOk(out) == OutputClause(out) = "ok"

\* ---- transcription ---------------------------------------------------------------------------
IsAscii(c) == c < 128
RECURSIVE AsciiIgnore(_)                                      \* .encode("ascii", "ignore")
AsciiIgnore(s) == IF s = <<>> THEN <<>> ELSE (IF IsAscii(Head(s)) THEN <<Head(s)>> ELSE <<>>) \o AsciiIgnore(Tail(s))
RECURSIVE KeepOnly(_)                                         \* re.sub("[^A-Za-z0-9_.-]", "", s)
KeepOnly(s) == IF s = <<>> THEN <<>> ELSE (IF Kept(Head(s)) THEN <<Head(s)>> ELSE <<>>) \o KeepOnly(Tail(s))

RECURSIVE MapSep(_)
MapSep(s) == IF s = <<>> THEN <<>> ELSE <<IF IsSeparator(Head(s)) THEN 32 ELSE Head(s)>> \o MapSep(Tail(s))

\* "_".join(s.split()): runs of whitespace become one underscore, none at the ends
RECURSIVE Words(_, _)
Words(s, cur) == IF s = <<>> THEN (IF cur = <<>> THEN <<>> ELSE <<cur>>)
                 ELSE IF IsAsciiSpace(Head(s)) THEN (IF cur = <<>> THEN <<>> ELSE <<cur>>) \o Words(Tail(s), <<>>)
                 ELSE Words(Tail(s), Append(cur, Head(s)))

StripSet == {FDOT, USCORE}
RECURSIVE LStrip(_)
LStrip(s) == IF s # <<>> /\ Head(s) \in StripSet THEN LStrip(Tail(s)) ELSE s
RECURSIVE RStrip(_)
RStrip(s) == IF s # <<>> /\ s[Len(s)] \in StripSet THEN RStrip(SubSeq(s, 1, Len(s) - 1)) ELSE s

SanVariants == {"code", "nostrip", "nosep", "nosplit", "rstriponly", "trunc3", "trunc4"}

\* "truncate to N after the strip" (a length limit bolted on behind the pipeline): the cut can expose a dot or
\* underscore at the end, which the next application strips -- the output predicates still hold, idempotence
\* does not.  (Truncating BEFORE the strip would be fine.)
TruncLen(variant) == IF variant = "trunc3" THEN 3 ELSE IF variant = "trunc4" THEN 4 ELSE 0

\* the pipeline on the NFKD text
SanV(variant, nfkd) ==
  LET a == AsciiIgnore(nfkd)
      b == IF variant = "nosep" THEN a ELSE MapSep(a)
      c == IF variant = "nosplit" THEN b ELSE JoinWith(Words(b, <<>>), USCORE)
      d == IF variant = "nosep" \/ variant = "nosplit" THEN c ELSE KeepOnly(c)
  IN IF variant = "nostrip" THEN d
     ELSE IF variant = "rstriponly" THEN RStrip(d)
     ELSE IF TruncLen(variant) > 0 THEN Take(RStrip(LStrip(d)), TruncLen(variant))
     ELSE RStrip(LStrip(d))
San(nfkd) == SanV("code", nfkd)
=============================================================================
