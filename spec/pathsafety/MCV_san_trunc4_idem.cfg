CONSTANTS
  Variant = "trunc4"
  AlphaSet = "small"
  MaxLen = 5
  Stride = 1
INIT Init
NEXT Next
INVARIANT Idempotent
