----------------------------- MODULE PathSafety -----------------------------
(* C14 -- untrusted paths cannot escape the trusted directory (POSIX path semantics).         *)
(*                                                                                            *)
(* Paths are sequences of code points.  Two layers:                                           *)
(*  contract  : NormState / NormPath (the meaning of "once normalised") and                   *)
(*              Contained(p, dir): the normalised p lies in the normalised dir, compared      *)
(*              SEGMENT-wise (a string prefix test would confuse /srv/root with /srv/rootx    *)
(*              and would reject the legitimate names "..." and "..a" under an empty base).   *)
(*  transcript: Join2 (posixpath.join) and SafeJoin(variant, dir, parts), written like        *)
(*              werkzeug.security.safe_join; variant "code" is the code as pinned, the other  *)
(*              variants are hand-broken and must FAIL the contract (non-vacuity).            *)
EXTENDS Naturals, Sequences, Text

SLASH == 47
DOT == 46
BSL == 92
DotDot == <<DOT, DOT>>
Dot1 == <<DOT>>

Segs(s) == SplitOn(s, SLASH, <<>>)                 \* "a//b" -> <<"a", "", "b">>

RECURSIVE LeadSlashes(_)
LeadSlashes(s) == IF s # <<>> /\ Head(s) = SLASH THEN 1 + LeadSlashes(Tail(s)) ELSE 0

\* POSIX: exactly two leading slashes are kept, one or three and more collapse to one
Level(s) == LET k == LeadSlashes(s) IN IF k = 0 THEN 0 ELSE IF k = 2 THEN 2 ELSE 1

\* fold of the segments into the normal form: "" and "." vanish, ".." pops a name, stays in front
\* of a relative path, and vanishes at the root of an absolute one
RECURSIVE NormFold(_, _, _)
NormFold(segs, lvl, st) ==
  IF segs = <<>> THEN st
  ELSE LET c == Head(segs) r == Tail(segs) IN
       IF c = <<>> \/ c = Dot1 THEN NormFold(r, lvl, st)
       ELSE IF c # DotDot THEN NormFold(r, lvl, Append(st, c))
       ELSE IF (lvl = 0 /\ st = <<>>) \/ (st # <<>> /\ st[Len(st)] = DotDot) THEN NormFold(r, lvl, Append(st, c))
       ELSE IF st # <<>> THEN NormFold(r, lvl, SubSeq(st, 1, Len(st) - 1))
       ELSE NormFold(r, lvl, st)

\* the normal form as a structure: lvl = number of leading slashes (0 relative), comps = segments.
\* The empty path denotes the current directory, like ".".
NormState(s) == LET lvl == Level(s) IN [lvl |-> lvl, comps |-> NormFold(Segs(s), lvl, <<>>)]

Slashes(k) == IF k = 0 THEN <<>> ELSE IF k = 1 THEN <<SLASH>> ELSE <<SLASH, SLASH>>

\* posixpath.normpath
NormPath(s) == LET n == NormState(s)
                   p == Slashes(n.lvl) \o JoinWith(n.comps, SLASH)
               IN IF p = <<>> THEN Dot1 ELSE p

\* ---- the contract -------------------------------------------------------------------------
\* p, once normalised, is inside dir, once normalised
Contained(p, dir) ==
  LET P == NormState(p) D == NormState(dir) k == Len(D.comps) IN
  /\ P.lvl = D.lvl
  /\ IsPrefixOf(D.comps, P.comps)
  /\ (Len(P.comps) > k => P.comps[k + 1] # DotDot)

\* what a normal form looks like (law checked by TLC on every component of the universe)
IsNormalForm(n) ==
  /\ \A i \in 1..Len(n.comps) : n.comps[i] # <<>> /\ n.comps[i] # Dot1 /\ ~Contains(n.comps[i], <<SLASH>>)
  /\ \A i \in 1..Len(n.comps) : n.comps[i] = DotDot => (n.lvl = 0 /\ \A j \in 1..i : n.comps[j] = DotDot)

\* ---- the transcription ----------------------------------------------------------------------
\* posixpath.join(a, b)
Join2(a, b) == IF b # <<>> /\ b[1] = SLASH THEN b
               ELSE IF a = <<>> \/ a[Len(a)] = SLASH THEN a \o b
               ELSE a \o <<SLASH>> \o b

RECURSIVE JoinAll(_, _)
JoinAll(acc, parts) == IF parts = <<>> THEN acc ELSE JoinAll(Join2(acc, Head(parts)), Tail(parts))

Variants == {"code", "nonorm", "noeq", "noprefix", "noabs", "nulpartial"}

\* "nulpartial": a normpath that stops at the first NUL (a C-level implementation working on a
\* NUL-terminated copy) and leaves everything from the NUL on as it was: 'a NUL /../..' keeps its dot-dots
PartialNorm(f) == LET k == FindFrom(f, <<0>>, 1) IN
                  IF k = 0 THEN NormPath(f) ELSE NormPath(Take(f, k - 1)) \o Drop(f, k - 1)

\* the component as safe_join looks at it
Seen(variant, f) == IF f = <<>> \/ variant = "nonorm" THEN f
                    ELSE IF variant = "nulpartial" THEN PartialNorm(f) ELSE NormPath(f)

\* the rejection test of safe_join on the normalised component (POSIX: no alternative separators,
\* os.path.isabs = starts with a slash)
Refuses(variant, g) ==
  \/ variant # "noabs" /\ g # <<>> /\ g[1] = SLASH
  \/ variant # "noeq" /\ g = DotDot
  \/ variant # "noprefix" /\ IsPrefixOf(<<DOT, DOT, SLASH>>, g)

StartDir(dir) == IF dir = <<>> THEN Dot1 ELSE dir

\* [ok |-> FALSE] = None
RECURSIVE SafeJoinFrom(_, _, _)
SafeJoinFrom(variant, acc, parts) ==
  IF parts = <<>> THEN [ok |-> TRUE, path |-> acc]
  ELSE LET g == Seen(variant, Head(parts)) IN
       IF Refuses(variant, g) THEN [ok |-> FALSE, path |-> <<>>]
       ELSE SafeJoinFrom(variant, Join2(acc, g), Tail(parts))

SafeJoin(variant, dir, parts) == SafeJoinFrom(variant, StartDir(dir), parts)

\* the property for one call
JoinContract(dir, res) == ~res.ok \/ Contained(res.path, dir)
=============================================================================
