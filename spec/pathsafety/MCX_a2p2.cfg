CONSTANTS
  Variant = "code"
  AtomSet = "full"
  MaxAtoms = 2
  MaxParts = 2
  Stride = 1
INIT XInit
NEXT XNext
INVARIANT Export
