-------------------------- MODULE PathSafetyTrace --------------------------
(* Trace judge for C14.  Input: ndjson (TRACE_FILE), one TLC state per line.                  *)
(*  join  : [t, i, op, dir, cwd, parts, r : [kind : "none" | "path" | "exc", v, exc], np,     *)
(*           has_exp, exp_ok, exp_path]                                                       *)
(*          one call safe_join(dir, *parts); np = posixpath.normpath(result) and the          *)
(*          expectation exported from MCPathSafety are used for the drift report only.        *)
(*  tree  : [t, i, op, files : <<[id, inside, rel]>>]   the temporary tree of an end-to-end   *)
(*          trace: every file has a unique content id; inside = it lies under the served      *)
(*          root, rel = its path relative to that root (inside files).                        *)
(*  serve : [t, i, op, api, path, status, served, exc, model]  one request: path = the untrusted *)
(*          (percent-decoded) path handed to the helper, served = id of the file whose        *)
(*          content came back (0 = none, 999 = a body that is no file of the tree).           *)
(*  san   : [t, i, op, x, nfkd, out, out2, exc, has_exp, exp]   secure_filename(x) = out,     *)
(*          secure_filename(out) = out2; nfkd = unicodedata NFKD of x (logged environment).   *)
(* Verdicts are total: a rejected line prints a reject record and judging goes on.            *)
EXTENDS PathSafety, Filename, TLC, Json, IOUtils

Lines == ndJsonDeserialize(IOEnv.TRACE_FILE)

VARIABLES l, tree
vars == <<l, tree>>

Init == l = 1 /\ tree = <<>>

Reject(ln, v) == IF v = "ok" THEN TRUE
                 ELSE PrintT(ToJson([reject |-> 1, t |-> ln.t, i |-> ln.i, clause |-> v]))
Drift(ln, ok, what) == IF ok THEN TRUE
                       ELSE PrintT(ToJson([drift |-> 1, t |-> ln.t, i |-> ln.i, what |-> what]))

(* ---- safe_join ------------------------------------------------------------------------------ *)
JoinClause(ln) ==
  IF ln.r.kind = "none" THEN "ok"
  ELSE IF ln.r.kind = "path" THEN
       \* inside the base as given, or (should safe_join ever answer with an absolute path) inside the
       \* base resolved against the logged working directory
       (IF Contained(ln.r.v, ln.dir) \/ Contained(ln.r.v, Join2(ln.cwd, ln.dir)) THEN "ok" ELSE "Contained")
  ELSE "RefusesOrYields"

JoinDrift(ln) ==
  LET m == SafeJoin("code", ln.dir, ln.parts)
      same == IF ln.r.kind = "path" THEN m.ok /\ m.path = ln.r.v
              ELSE IF ln.r.kind = "none" THEN ~m.ok ELSE FALSE
      exp == ln.has_exp => (ln.exp_ok = m.ok /\ ln.exp_path = m.path)
      np == ln.r.kind = "path" => NormPath(ln.r.v) = ln.np
  IN /\ Drift(ln, same /\ exp, "PathSafety!SafeJoin vs recorded safe_join result")
     /\ Drift(ln, np, "PathSafety!NormPath vs posixpath.normpath")

(* ---- end to end ------------------------------------------------------------------------------- *)
FileById(id) == LET S == {k \in 1..Len(tree) : tree[k].id = id} IN
                IF S = {} THEN [id |-> 0, inside |-> FALSE, rel |-> <<>>] ELSE tree[CHOOSE k \in S : TRUE]

ServeClause(ln) ==
  IF ln.exc # "" THEN "RefusesOrYields"      \* neither a refusal (404) nor a file: an exception escaped the helper
  ELSE IF ln.status >= 400 /\ ln.status <= 499 /\ ln.served = 0 THEN "ok"      \* refused
  ELSE IF ln.status = 200 THEN (IF FileById(ln.served).inside THEN "ok" ELSE "ServedInsideRoot")
  ELSE "RefusesOrYields"

\* the file a request names: the inside file whose relative path is the normalised untrusted path
Named(ln) == LET p == NormPath(ln.path)
                 S == {k \in 1..Len(tree) : tree[k].inside /\ tree[k].rel = p} IN
             IF S = {} THEN 0 ELSE tree[CHOOSE k \in S : TRUE].id

ServeDrift(ln) ==
  LET m == SafeJoin("code", <<114>>, <<ln.path>>)
      want == IF m.ok THEN Named(ln) ELSE 0 IN
  Drift(ln, ~ln.model \/ (ln.exc = "" /\ ln.served = want), "served file vs the file PathSafety!SafeJoin names")

(* ---- a helper call observed with the name of the file it opened (repository tests, loader kinds) --- *)
\*  open : [t, i, op, api, root, cwd, file, opened, status, exc]   root = the exported / trusted directory
\*         (or the single exported file), file = the name the helper opened (opened = FALSE: it refused)
OpenClause(ln) ==
  IF ln.exc # "" THEN "RefusesOrYields"
  ELSE IF ~ln.opened THEN "ok"
  ELSE IF Contained(ln.file, ln.root) \/ Contained(ln.file, Join2(ln.cwd, ln.root)) THEN "ok"
  ELSE "ServedInsideRoot"

(* ---- secure_filename ---------------------------------------------------------------------------- *)
SanClause(ln) ==
  IF ln.exc # "" THEN "RefusesOrYields"
  ELSE LET c == OutputClause(ln.out) IN
       IF c # "ok" THEN c
       ELSE IF ln.out2 # ln.out THEN "Idempotent" ELSE "ok"

SanDrift(ln) == Drift(ln, ln.exc = "" /\ San(ln.nfkd) = ln.out /\ (ln.has_exp => ln.exp = ln.out),
                      "Filename!San(nfkd) vs recorded secure_filename")

Next ==
  /\ l <= Len(Lines)
  /\ l' = l + 1
  /\ LET ln == Lines[l] IN
     CASE ln.op = "join" -> /\ UNCHANGED tree
                            /\ Reject(ln, JoinClause(ln))
                            /\ JoinDrift(ln)
       [] ln.op = "tree" -> tree' = ln.files
       [] ln.op = "serve" -> /\ UNCHANGED tree
                             /\ Reject(ln, ServeClause(ln))
                             /\ ServeDrift(ln)
       [] ln.op = "servelink" ->        \* observation only: the property is lexical ("once normalised")
                            /\ UNCHANGED tree
                            /\ Drift(ln, ~(ln.status = 200 /\ ~FileById(ln.served).inside),
                                     "observation: a symbolic link inside the root that points outside is followed")
       [] ln.op = "open" -> /\ UNCHANGED tree
                            /\ Reject(ln, OpenClause(ln))
       [] ln.op = "san" -> /\ UNCHANGED tree
                           /\ Reject(ln, SanClause(ln))
                           /\ SanDrift(ln)
       [] OTHER -> UNCHANGED tree /\ Reject([t |-> ln.t, i |-> 0], "MalformedTraceLine")

Done == PrintT(ToJson([judged |-> Len(Lines)])) /\ TLCGet("generated") >= 0
=============================================================================
