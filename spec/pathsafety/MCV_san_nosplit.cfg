CONSTANTS
  Variant = "nosplit"
  AlphaSet = "small"
  MaxLen = 3
  Stride = 1
INIT Init
NEXT Next
INVARIANT MeetsContract
INVARIANT Idempotent
INVARIANT CleanKept
