CONSTANTS
  Variant = "code"
  AtomSet = "small"
  MaxAtoms = 2
  MaxParts = 3
  Stride = 1
INIT Init
NEXT Next
INVARIANT Contract
INVARIANT AbsCommutes
