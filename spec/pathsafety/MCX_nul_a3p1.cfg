CONSTANTS
  Variant = "code"
  AtomSet = "nul"
  MaxAtoms = 3
  MaxParts = 1
  Stride = 1
INIT XInit
NEXT XNext
INVARIANT Export
