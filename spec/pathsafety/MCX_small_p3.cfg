CONSTANTS
  Variant = "code"
  AtomSet = "small"
  MaxAtoms = 2
  MaxParts = 3
  Stride = 29
INIT XInit
NEXT XNext
INVARIANT Export
