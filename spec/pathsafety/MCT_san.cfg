CONSTANTS
  Variant = "code"
  AlphaSet = "full"
  MaxLen = 6
  Stride = 1
INIT Init
NEXT Next
INVARIANT MeetsContract
INVARIANT Idempotent
INVARIANT CleanKept
INVARIANT FastAgrees
