---------------------------- MODULE MCPathSafety ----------------------------
(* Bounded universe for PathSafety: safe_join as a state machine (one step per untrusted     *)
(* component, the accumulated path is the state, so equal prefixes are explored once),       *)
(* the contract as an invariant, laws of the normal form, and table export.                  *)
EXTENDS PathSafety, TLC, Json, FiniteSets

CONSTANTS Variant,     \* "code" or a hand-broken variant of the transcription
          AtomSet,     \* "small" | "full"
          MaxAtoms,    \* atoms per component
          MaxParts,    \* untrusted components per call
          Stride       \* export only: every Stride-th tuple (1 = all)

NUL == 0
AtomsFull == { DotDot, Dot1, <<>>, <<SLASH>>, <<SLASH, SLASH>>, <<BSL>>, <<67, 58>>, <<126>>,
               <<37, 50, 101, 37, 50, 101>>, <<NUL>>, <<97>>, <<97, 46, 98>> }
               \* ..  .  ""  /  //  \  C:  ~  %2e%2e  NUL  a  a.b
AtomsSmall == { DotDot, Dot1, <<>>, <<SLASH>>, <<BSL>>, <<NUL>>, <<97>> }
\* NUL followed by dot-dot sequences: 'NUL/..'  '/..'  '..'  NUL  a  'a.b NUL .c'  ''  /
AtomsNul == { <<NUL, SLASH, DOT, DOT>>, <<SLASH, DOT, DOT>>, DotDot, <<NUL>>, <<97>>, <<97, 46, 98, NUL, 46, 99>>, <<>>, <<SLASH>> }
Atoms == IF AtomSet = "full" THEN AtomsFull ELSE IF AtomSet = "nul" THEN AtomsNul ELSE AtomsSmall

RECURSIVE Cat(_, _)
Cat(S, n) == IF n = 0 THEN {<<>>} ELSE {a \o r : a \in S, r \in Cat(S, n - 1)}
Components == UNION {Cat(Atoms, k) : k \in 0..MaxAtoms}

\* /srv/root   rel   ""   /      (+ a base with a sibling that shares its string prefix)
Bases == { <<47, 115, 47, 114>>, <<114>>, <<>>, <<SLASH>> }

VARIABLES dir, n, acc, refused, ab
vars == <<dir, n, acc, refused, ab>>

\* ---- the depth abstraction (makes 3 atoms x 3 components and more feasible) ---------------------
\* Of the accumulated path only two facts matter for the future: is it still inside the base, and how
\* many names below the base it is.  ab tracks them along every concrete run (history variable);
\* AbsCommutes says the tracked value is the abstraction of the real accumulated path, so the abstract
\* machine (NextAbs, no strings in the state) visits exactly the abstractions of the concrete runs.
Abs(p, d) == LET P == NormState(p) D == NormState(d) IN
             IF Contained(p, d) THEN [ok |-> TRUE, depth |-> Len(P.comps) - Len(D.comps)]
             ELSE [ok |-> FALSE, depth |-> 0]

RECURSIVE AbsFold(_, _)
AbsFold(a, comps) == IF comps = <<>> \/ ~a.ok THEN a
                     ELSE IF Head(comps) = DotDot
                          THEN (IF a.depth = 0 THEN [ok |-> FALSE, depth |-> 0]
                                ELSE AbsFold([ok |-> TRUE, depth |-> a.depth - 1], Tail(comps)))
                          ELSE AbsFold([ok |-> TRUE, depth |-> a.depth + 1], Tail(comps))

\* effect of joining the (seen, not refused) component g; an absolute g replaces everything
AbsStep(a, g, d) == LET G == NormState(g) IN
                    IF G.lvl > 0 THEN Abs(g, d)
                    ELSE IF ~a.ok THEN a
                    ELSE AbsFold(a, G.comps)

Init == /\ dir \in Bases
        /\ n = 0
        /\ acc = StartDir(dir)
        /\ refused = FALSE
        /\ ab = [ok |-> TRUE, depth |-> 0]

Step(c) == LET g == Seen(Variant, c) IN
           /\ n' = n + 1
           /\ dir' = dir
           /\ IF Refuses(Variant, g) THEN refused' = TRUE /\ acc' = <<>> /\ ab' = [ok |-> TRUE, depth |-> 0]
              ELSE refused' = FALSE /\ acc' = Join2(acc, g) /\ ab' = AbsStep(ab, g, dir)

Next == /\ ~refused
        /\ n < MaxParts
        /\ \E c \in Components : Step(c)

\* the abstract machine: the same step without the string (acc stays empty)
StepAbs(c) == LET g == Seen(Variant, c) IN
              /\ n' = n + 1
              /\ dir' = dir
              /\ acc' = <<>>
              /\ IF Refuses(Variant, g) THEN refused' = TRUE /\ ab' = [ok |-> TRUE, depth |-> 0]
                 ELSE refused' = FALSE /\ ab' = AbsStep(ab, g, dir)
InitAbs == Init /\ acc = StartDir(dir)
NextAbs == /\ ~refused
           /\ n < MaxParts
           /\ \E c \in Components : StepAbs(c)
ContractAbs == refused \/ ab.ok
\* checked on every concrete configuration: the tracked abstraction is the abstraction of the real path
AbsCommutes == refused \/ ab = Abs(acc, dir)

\* ---- the property ------------------------------------------------------------------------
Contract == refused \/ Contained(acc, dir)

\* the state machine computes SafeJoin (checked on the fly for the path taken is impossible without a
\* history variable; instead the whole function is compared on every 1- and 2-tuple in Laws below)

\* ---- laws of the contract's own vocabulary (evaluated once, on the component universe) ------
NormLaws ==
  \A c \in Components :
     LET s == NormState(c) p == NormPath(c) IN
     /\ IsNormalForm(s)
     /\ NormPath(p) = p                                  \* idempotent
     /\ NormState(p) = s
     /\ Contained(c, c)
     /\ (s.lvl = 0 /\ (s.comps = <<>> \/ s.comps[1] # DotDot)) <=> Contained(c, <<>>)

\* refusal is not vacuous and not total: plain names pass, climbing out is refused
Sanity ==
  /\ SafeJoin("code", <<114>>, << <<97>> >>) = [ok |-> TRUE, path |-> <<114, 47, 97>>]
  /\ ~SafeJoin("code", <<114>>, << DotDot >>).ok
  /\ SafeJoin("code", <<>>, << <<46, 46, 46>> >>).ok
  /\ SafeJoin("code", <<>>, << <<46, 46, 97>> >>).ok
  /\ ~Contained(<<47, 115, 47, 114, 120>>, <<47, 115, 47, 114>>)      \* /s/rx is not inside /s/r
  /\ Contained(<<47, 115, 47, 114, 47, 120>>, <<47, 115, 47, 114>>)

ASSUME Sanity

\* ---- export (spec -> code): the table (dir, parts) -> SafeJoin --------------------------------
RECURSIVE Tuples(_)
Tuples(k) == IF k = 0 THEN {<<>>} ELSE {<<c>> \o r : c \in Components, r \in Tuples(k - 1)}

\* (the export reuses the variables: acc holds the tuple of parts)
XInit == /\ dir \in Bases
         /\ acc \in UNION {Tuples(k) : k \in 1..MaxParts}
         /\ n = 0
         /\ refused = FALSE
         /\ ab = [ok |-> TRUE, depth |-> 0]
XNext == FALSE /\ UNCHANGED vars
Hash(s) == SumSeq(Concat(s)) + 31 * Len(s) + 7 * Len(Concat(s))
Export == IF Stride > 1 /\ (Hash(acc) + Len(dir)) % Stride # 0 THEN TRUE
          ELSE LET r == SafeJoin("code", dir, acc) IN
               PrintT(ToJson([dir |-> dir, parts |-> acc, ok |-> r.ok, path |-> r.path]))
=============================================================================
