CONSTANTS
  Variant = "fixed"
  MaxLen = 3
  MaxPortLen = 2
  Wide = FALSE
  ClientLen = 1
  Quotes = TRUE
INIT Init
NEXT Next
INVARIANT Export
