CONSTANTS
  Variant = "pinned"
  MaxLen = 3
  MaxPortLen = 3
  Wide = TRUE
  ClientLen = 3
  Quotes = FALSE
INIT Init
NEXT Next
INVARIANT TrustIndex
INVARIANT ClientNeverSelected
INVARIANT ZeroIgnored
INVARIANT FewerUntouched
INVARIANT ImplMeetsContract
INVARIANT OrigPreserved
INVARIANT Idempotent
INVARIANT PortConsistent
INVARIANT LiteralIntact
INVARIANT ContractIgnoresClient
