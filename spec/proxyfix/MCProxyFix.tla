----------------------------- MODULE MCProxyFix -----------------------------
(* Bounded model of ProxyFix: the environ is a record, the middleware is ONE action (Call),   *)
(* taken twice on the same environ (idempotence, what "orig" holds the second time).          *)
(*                                                                                            *)
(* Initial states = every header list of <= MaxLen values over a tiny alphabet (which holds   *)
(* the empty value, IPv6 literals with and without brackets and ports, an upper-case scheme,  *)
(* a prefix without slash) x every hop count 0..3, per "focus":                               *)
(*   for / proto / prefix   one header, one count                                             *)
(*   hostport               X-Forwarded-Host x X-Forwarded-Port lists x both counts x three   *)
(*                          original environs (Host with port, no Host header, bare literal)  *)
(*   client-for/client-host what a CLIENT sent (every text of <= ClientLen characters over    *)
(*                          quote, comma, backslash, letter, space) in front of the values    *)
(*                          1..2 trusted proxies appended                                     *)
(* `vals` is the abstract list each header text was rendered from; the invariants speak about *)
(* positions in it ("selected value index = Len - n + 1").                                    *)
EXTENDS ProxyFix, TLC, Json

CONSTANTS Variant, MaxLen, MaxPortLen, Wide, ClientLen, Quotes

f_ip4   == <<49, 46, 49>>                                   \* 1.1
f_ip6   == <<58, 58, 50>>                                   \* ::2
f_ip6p  == <<91, 58, 58, 49, 93, 58, 56, 48>>               \* [::1]:80
f_ip4b  == <<57, 46, 57>>                                   \* 9.9
HTTPu   == <<72, 84, 84, 80>>                               \* HTTP
p_a     == <<47, 97>>                                       \* /a
p_b     == <<98>>                                           \* b
h_a     == <<97, 46, 99, 111>>                              \* a.co
h_bp    == <<98, 46, 99, 111, 58, 56, 49>>                  \* b.co:81
h_l     == <<91, 58, 58, 49, 93>>                           \* [::1]
h_lp    == <<91, 58, 58, 49, 93, 58, 56, 50>>               \* [::1]:82
n443    == <<52, 52, 51>>                                   \* 443
n80     == <<56, 48>>                                       \* 80
in8000  == <<105, 110, 58, 56, 48, 48, 48>>                 \* in:8000
inn     == <<105, 110>>                                     \* in
n8000   == <<56, 48, 48, 48>>                               \* 8000
l2      == <<91, 58, 58, 50, 93>>                           \* [::2]
CS      == <<44, 32>>                                       \* ", "

E == <<>>   \* the empty list element
ForVals    == IF Wide THEN {E, f_ip4, f_ip6, f_ip6p} ELSE {E, f_ip4, f_ip6}
ProtoVals  == IF Wide THEN {E, T_https, HTTPu, T_ws} ELSE {E, T_https, HTTPu}
PrefixVals == {E, p_a, p_b}
HostVals   == IF Wide THEN {E, h_a, h_bp, h_l, h_lp} ELSE {E, h_bp, h_l}
PortVals   == IF Wide THEN {E, n443, n80} ELSE {n443}
ClientAlpha == IF Quotes THEN {DQ, COMMA, BSL, 120, 32} ELSE {COMMA, BSL, 120, 32}

RECURSIVE JoinComma(_)
JoinComma(vs) == IF vs = <<>> THEN <<>> ELSE IF Len(vs) = 1 THEN vs[1] ELSE vs[1] \o CS \o JoinComma(Tail(vs))

\* abstract header: absent, or a list of values
NoList == [p |-> FALSE, vs |-> <<>>]
Lists(V, maxlen) == {NoList} \cup {[p |-> TRUE, vs |-> vs] : vs \in SeqsUpTo(V, maxlen)}
Render(a) == IF a.p THEN Val(JoinComma(a.vs)) ELSE Absent

Env0 == [remote |-> Val(f_ip4b), scheme |-> Val(T_http), host |-> Val(in8000), sname |-> Val(inn), sport |-> Val(n8000), script |-> Val(<<>>)]
Envs == {Env0, [Env0 EXCEPT !.host = Absent], [Env0 EXCEPT !.host = Val(l2)]}

NoCfg  == [for |-> 0, proto |-> 0, host |-> 0, port |-> 0, prefix |-> 0]
NoVals == [for |-> NoList, proto |-> NoList, host |-> NoList, port |-> NoList, prefix |-> NoList]
NoHd   == [for |-> Absent, proto |-> Absent, host |-> Absent, port |-> Absent, prefix |-> Absent]
Hops   == 0..3

VARIABLES focus, cfg, env0, hd, vals, env, orig, out1, calls
vars == <<focus, cfg, env0, hd, vals, env, orig, out1, calls>>

Simple(name, V) ==
  /\ focus = name /\ env0 = Env0
  /\ \E n \in Hops : cfg = [NoCfg EXCEPT ![name] = n]
  /\ \E a \in Lists(V, MaxLen) : vals = [NoVals EXCEPT ![name] = a] /\ hd = [NoHd EXCEPT ![name] = Render(a)]

ClientFocus(fname, name, V) ==
  /\ focus = fname /\ env0 = Env0
  /\ \E n \in Hops : cfg = [NoCfg EXCEPT ![name] = n]
  /\ \E c \in SeqsUpTo(ClientAlpha, ClientLen), pv \in (SeqsUpTo(V, 2) \ {<<>>}) :
        /\ vals = [NoVals EXCEPT ![name] = [p |-> TRUE, vs |-> pv]]
        /\ hd = [NoHd EXCEPT ![name] = Val(c \o CS \o JoinComma(pv))]

Init ==
  /\ calls = 0 /\ orig = NoHd
  /\ \/ Simple("for", ForVals)
     \/ Simple("proto", ProtoVals)
     \/ Simple("prefix", PrefixVals)
     \/ /\ focus = "hostport" /\ env0 \in Envs
        /\ \E a \in Hops, b \in Hops : cfg = [NoCfg EXCEPT !.host = a, !.port = b]
        /\ \E x \in Lists(HostVals, MaxLen), y \in Lists(PortVals, MaxPortLen) :
              /\ vals = [NoVals EXCEPT !.host = x, !.port = y]
              /\ hd = [NoHd EXCEPT !.host = Render(x), !.port = Render(y)]
     \/ (ClientLen > 0 /\ ClientFocus("client-for", "for", {f_ip4, f_ip6}))
     \/ (ClientLen > 0 /\ ClientFocus("client-host", "host", {h_a, h_bp}))
  /\ env = env0 /\ out1 = env0

(* the middleware: one action *)
Call ==
  /\ calls < 2
  /\ LET r == Impl(Variant, cfg, env, hd) IN
     /\ env' = r.env /\ orig' = r.orig
     /\ out1' = IF calls = 0 THEN r.env ELSE out1
  /\ calls' = calls + 1
  /\ UNCHANGED <<focus, cfg, env0, hd, vals>>

Next == Call

IsClient == focus \in {"client-for", "client-host"}

(* ---- invariants ---------------------------------------------------------------------------- *)
\* the value at index Len - n + 1 of the abstract list; <<>> = nothing selected
Picked(h) == LET n == cfg[h] a == vals[h] IN
             IF n = 0 \/ ~a.p \/ Len(a.vs) < n THEN <<>> ELSE a.vs[Len(a.vs) - n + 1]
AsSel(x) == IF x = <<>> THEN NoSel ELSE Sel(x)
Expect(key, h) == IF Picked(h) = <<>> THEN env0[key] ELSE Val(Picked(h))

IndexLaw ==
  /\ out1.remote = Expect("remote", "for")
  /\ out1.scheme = Expect("scheme", "proto")
  /\ out1.script = Expect("script", "prefix")
  /\ HostGroupFail(AsSel(Picked("host")), AsSel(Picked("port")), env0, out1) = "ok"

\* "selected value index = Len - n" (0-based), for every header, on the abstract lists
TrustIndex == (calls >= 1 /\ ~IsClient) => IndexLaw

\* the proxies' own values decide alone, whatever text the client put in front of them
ClientNeverSelected ==
  (calls >= 1 /\ IsClient /\ \A h \in HdrNames : cfg[h] <= Len(vals[h].vs)) => IndexLaw

\* n = 0: the header is ignored
ZeroIgnored ==
  calls >= 1 =>
    /\ cfg.for = 0 => out1.remote = env0.remote
    /\ cfg.proto = 0 => out1.scheme = env0.scheme
    /\ cfg.prefix = 0 => out1.script = env0.script
    /\ (cfg.host = 0 /\ cfg.port = 0) => (out1.host = env0.host /\ out1.sname = env0.sname /\ out1.sport = env0.sport)
    /\ cfg.host = 0 => out1.sname = env0.sname

\* fewer values than trusted proxies: untouched
Short(h) == ~hd[h].p \/ Len(Pieces(hd[h].v)) < cfg[h]
FewerUntouched ==
  calls >= 1 =>
    /\ Short("for") => out1.remote = env0.remote
    /\ Short("proto") => out1.scheme = env0.scheme
    /\ Short("prefix") => out1.script = env0.script
    /\ (Short("host") /\ Short("port")) => (out1.host = env0.host /\ out1.sname = env0.sname /\ out1.sport = env0.sport)

\* the implementation-shaped model meets the contract (the clauses the trace judge uses)
ImplMeetsContract == calls >= 1 => RewriteClause(cfg, env0, hd, out1)[1] = "ok"

\* orig = the six values as they were before THAT call
OrigPreserved == /\ calls = 1 => orig = env0
                 /\ calls = 2 => orig = out1

\* a second pass over the rewritten environ changes nothing
Idempotent == calls = 2 => env = out1

\* whenever a forwarded host or port was applied and HTTP_HOST shows a port, it is SERVER_PORT
PortConsistent ==
  (calls >= 1 /\ ~IsClient /\ (Picked("host") # <<>> \/ Picked("port") # <<>>) /\ out1.host.p /\ WFHost(out1.host.v) /\ HasPort(out1.host.v))
     => out1.sport = Val(PortOf(out1.host.v))

\* a bracketed literal is never cut inside its brackets and never loses them
LiteralIntact ==
  (calls >= 1 /\ ~IsClient /\ out1.host.p /\ out1.host.v # <<>> /\ out1.host.v[1] = LBR)
     => (\E k \in 1..Len(out1.host.v) : out1.host.v[k] = RBR /\ Take(out1.host.v, k) \in {h_l, l2})

\* the contract itself does not let client text matter (a law of PART 1, independent of Impl)
ContractIgnoresClient ==
  (calls = 0 /\ IsClient) =>
     \A h \in {"for", "host"} : (cfg[h] >= 1 /\ cfg[h] <= Len(vals[h].vs) /\ vals[h].p) =>
         /\ Claimed(cfg[h], hd[h])
         /\ AccSel(cfg[h], hd[h]) = {Sel(vals[h].vs[Len(vals[h].vs) - cfg[h] + 1])}

Export == calls = 2 => PrintT(ToJson([focus |-> focus, cfg |-> cfg, env |-> env0, hd |-> hd, out |-> out1, out2 |-> env]))
=============================================================================
