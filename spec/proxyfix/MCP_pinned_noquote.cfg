CONSTANTS
  Variant = "pinned"
  MaxLen = 3
  MaxPortLen = 2
  Wide = FALSE
  ClientLen = 2
  Quotes = FALSE
INIT Init
NEXT Next
INVARIANT TrustIndex
INVARIANT ClientNeverSelected
INVARIANT ZeroIgnored
INVARIANT FewerUntouched
INVARIANT ImplMeetsContract
INVARIANT OrigPreserved
INVARIANT Idempotent
INVARIANT PortConsistent
INVARIANT LiteralIntact
INVARIANT ContractIgnoresClient
