---------------------------- MODULE ProxyFixTrace ----------------------------
(* Trace judge for X01.  Input: ndjson (TRACE_FILE), one TLC state per line, one line per     *)
(* request sent through a real ProxyFix:                                                      *)
(*  [t, i, op |-> "pfix",                                                                     *)
(*   cfg  : [for, proto, host, port, prefix : Nat]          x_for .. x_prefix                 *)
(*   env  : [remote, scheme, host, sname, sport, script : [p, v]]   the six keys before       *)
(*   hd   : [for, proto, host, port, prefix : [p, v]]       HTTP_X_FORWARDED_* as the         *)
(*                                                          middleware found them             *)
(*   out, orig    the six keys / werkzeug.proxy_fix.orig as the wrapped application saw them  *)
(*   out2, orig2  the same after the SAME environ went through the middleware a second time   *)
(*   app  : [calls, same_env, same_sr, ret_same, exc]       how the wrapped app was called    *)
(*   other_same   every other environ key is unchanged                                        *)
(*   gh   : [kind : "value" | "exc", v, exc]                werkzeug.wsgi.get_host(out)       *)
(*   has_exp, exp, exp2                                     row exported from MCProxyFix]     *)
(* Verdicts (reject records) come from the documented clauses of ProxyFix.tla PART 1 only.    *)
(* Differences to the implementation-shaped model, to the exported row, a second pass that    *)
(* is not idempotent, other keys touched: drift records, never a verdict.                     *)
(* Verdicts are total: a rejected line prints a record and judging goes on.                   *)
EXTENDS ProxyFix, TLC, Json, IOUtils

Lines == ndJsonDeserialize(IOEnv.TRACE_FILE)

VARIABLES l
vars == <<l>>

(* WrappedAppCalled.  [call] "Modify the WSGI environ based on the various Forwarded headers  *)
(* before calling the wrapped application."  [cls] ":param app: The WSGI application to wrap."*)
AppClause(a) == IF a.exc = "" /\ a.calls = 1 /\ a.same_env /\ a.same_sr /\ a.ret_same THEN "ok" ELSE "WrappedAppCalled"

Verdict(ln) ==
  LET a  == AppClause(ln.app)
      r1 == RewriteClause(ln.cfg, ln.env, ln.hd, ln.out)
      o1 == OrigClause(ln.env, ln.orig)
      r2 == RewriteClause(ln.cfg, ln.out, ln.hd, ln.out2)
      o2 == OrigClause(ln.out, ln.orig2)
      g  == GetHostClause(ln.out, ln.gh)
  IN IF a # "ok" THEN <<a, "">>
     ELSE IF r1[1] # "ok" THEN r1
     ELSE IF o1 # "ok" THEN <<o1, "">>
     ELSE IF r2[1] # "ok" THEN <<r2[1], r2[2] \o "/second-pass">>
     ELSE IF o2 # "ok" THEN <<o2, "second-pass">>
     ELSE IF g # "ok" THEN <<g, "">>
     ELSE <<"ok", "">>

Drift(ln) ==
  LET mf == Impl("fixed", ln.cfg, ln.env, ln.hd) IN
  IF ln.app.exc # "" THEN "ok"
  ELSE IF ln.out # mf.env THEN (IF ln.out = Impl("pinned", ln.cfg, ln.env, ln.hd).env THEN "CodeIsPinnedModel" ELSE "ImplModel")
  ELSE IF ln.out2 # ln.out THEN "Idempotent"
  ELSE IF ~ln.other_same THEN "OtherKeysUntouched"
  ELSE IF ln.has_exp /\ (ln.exp # ln.out \/ ln.exp2 # ln.out2) THEN "ExportedRow"
  ELSE "ok"

WellFormed(ln) == /\ ln.op = "pfix"
                  /\ \A h \in HdrNames : ln.cfg[h] \in Nat
                  /\ ln.gh.kind \in {"value", "exc"}

Init == l = 1

Next ==
  /\ l <= Len(Lines)
  /\ l' = l + 1
  /\ LET ln == Lines[l] IN
     IF ~WellFormed(ln) THEN PrintT(ToJson([reject |-> 1, t |-> ln.t, i |-> 0, clause |-> "MalformedTraceLine", hdr |-> ""]))
     ELSE /\ LET v == Verdict(ln) IN
             IF v[1] = "ok" THEN TRUE ELSE PrintT(ToJson([reject |-> 1, t |-> ln.t, i |-> ln.i, clause |-> v[1], hdr |-> v[2]]))
          /\ LET d == Drift(ln) IN
             IF d = "ok" THEN TRUE ELSE PrintT(ToJson([drift |-> 1, t |-> ln.t, i |-> ln.i, what |-> d]))

Done == PrintT(ToJson([judged |-> Len(Lines)])) /\ TLCGet("generated") >= 0
=============================================================================
