CONSTANTS
  Variant = "fixed"
  MaxLen = 3
  MaxPortLen = 2
  Wide = TRUE
  ClientLen = 2
  Quotes = TRUE
INIT Init
NEXT Next
INVARIANT Export
