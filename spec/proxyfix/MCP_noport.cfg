CONSTANTS
  Variant = "noport"
  MaxLen = 2
  MaxPortLen = 1
  Wide = FALSE
  ClientLen = 0
  Quotes = FALSE
INIT Init
NEXT Next
INVARIANT PortConsistent
INVARIANT ImplMeetsContract
