CONSTANTS
  Variant = "left"
  MaxLen = 2
  MaxPortLen = 1
  Wide = FALSE
  ClientLen = 1
  Quotes = FALSE
INIT Init
NEXT Next
INVARIANT TrustIndex
INVARIANT ImplMeetsContract
