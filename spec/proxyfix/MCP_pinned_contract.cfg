CONSTANTS
  Variant = "pinned"
  MaxLen = 1
  MaxPortLen = 1
  Wide = FALSE
  ClientLen = 2
  Quotes = TRUE
INIT Init
NEXT Next
INVARIANT ImplMeetsContract
