------------------------------- MODULE ProxyFix -------------------------------
(* X01: werkzeug.middleware.proxy_fix.ProxyFix -- the documented contract and an              *)
(* implementation-shaped model of the middleware.                                             *)
(*                                                                                            *)
(* Sources quoted below:                                                                      *)
(*   [cls]  docstring of class ProxyFix            (src/werkzeug/middleware/proxy_fix.py)     *)
(*   [mod]  module docstring = docs/middleware/proxy_fix.rst                                  *)
(*   [grv]  docstring of ProxyFix._get_real_value                                             *)
(*   [call] docstring of ProxyFix.__call__                                                    *)
(*   [dep]  docs/deployment/proxy_fix.rst                                                     *)
(*   [chg]  CHANGES.rst, versions 0.15.0 and 2.0.3                                            *)
(*   [gh]   docstring of werkzeug.wsgi.get_host                                               *)
(*                                                                                            *)
(* Text = sequence of code points.  A "slot" is an optional text [p |-> present, v |-> text]. *)
(*   env = [remote, scheme, host, sname, sport, script : slot]   REMOTE_ADDR, wsgi.url_scheme,*)
(*                                     HTTP_HOST, SERVER_NAME, SERVER_PORT, SCRIPT_NAME       *)
(*   hd  = [for, proto, host, port, prefix : slot]               HTTP_X_FORWARDED_*           *)
(*   cfg = [for, proto, host, port, prefix : Nat]                x_for .. x_prefix            *)
(*                                                                                            *)
(* PART 1 is the contract: a SET of acceptable results (the documentation leaves open what an *)
(* empty list element counts for, whether a scheme is case-normalised, ...).  PART 2 is the   *)
(* code, string operation by string operation, in variants: "fixed" (the tree since repo      *)
(* commit 2d7315b = fixes/X01-*.diff: plain comma split), "pinned" (the tree before it: RFC   *)
(* 9110 quoted-string list parsing, which lets ONE quote sent by the client merge the values  *)
(* the trusted proxies appended -- must violate ClientNeverSelected) and hand-broken ones     *)
(* ("left", "nozero", "noshort", "origlate", "nobracket", "noport") the invariants must reject.*)
EXTENDS Bytes, FiniteSets

COMMA == 44
COLON == 58
LBR   == 91
RBR   == 93
DQ    == 34
BSL   == 92
SLASH == 47

IsWS(c)    == c = 32 \/ c = 9
IsDigit(c) == c >= 48 /\ c <= 57
IsUpper(c) == c >= 65 /\ c <= 90
LowerS(s)  == [i \in 1..Len(s) |-> IF IsUpper(s[i]) THEN s[i] + 32 ELSE s[i]]
Has(s, c)  == \E i \in 1..Len(s) : s[i] = c
CountC(s, c) == Cardinality({i \in 1..Len(s) : s[i] = c})
AllDigits(s) == s # <<>> /\ \A i \in 1..Len(s) : IsDigit(s[i])
EndsWithS(s, suf) == Len(suf) <= Len(s) /\ Drop(s, Len(s) - Len(suf)) = suf

Absent == [p |-> FALSE, v |-> <<>>]
Val(t) == [p |-> TRUE, v |-> t]

HdrNames == {"for", "proto", "host", "port", "prefix"}
KeyNames == {"remote", "scheme", "host", "sname", "sport", "script"}

RECURSIVE LStrip(_)
LStrip(s) == IF s # <<>> /\ IsWS(s[1]) THEN LStrip(Tail(s)) ELSE s
RECURSIVE RStrip(_)
RStrip(s) == IF s # <<>> /\ IsWS(s[Len(s)]) THEN RStrip(Take(s, Len(s) - 1)) ELSE s
Strip(s) == RStrip(LStrip(s))

RECURSIVE SplitComma(_, _)
SplitComma(s, cur) == IF s = <<>> THEN <<cur>>
                      ELSE IF Head(s) = COMMA THEN <<cur>> \o SplitComma(Tail(s), <<>>)
                      ELSE SplitComma(Tail(s), Append(cur, Head(s)))

(* ========================================================================================= *)
(* PART 1 -- the contract                                                                    *)
(* ========================================================================================= *)

(* The values of an X-Forwarded-* header: [grv] ":param value: Comma separated list header    *)
(* value to parse."  Every proxy appends ", <its value>" on the right (the convention the     *)
(* header exists for; [dep] "the number of proxies that are chained in front of it"), so the  *)
(* values are the comma separated pieces, optional white space aside.  Always >= 1 piece.     *)
Pieces(text) == LET ps == SplitComma(text, <<>>) IN [i \in 1..Len(ps) |-> Strip(ps[i])]

HasQuote(text) == Has(text, DQ)
\* a value as a proxy writes it: something, and no quoting syntax
Clean(x) == x # <<>> /\ ~Has(x, DQ) /\ ~Has(x, BSL)

(* An outcome of the selection: nothing selected (the environ keys of this header stay), or   *)
(* a value.                                                                                   *)
NoSel   == [sel |-> FALSE, v |-> <<>>]
Sel(x)  == [sel |-> TRUE, v |-> x]

EmptiesAfter(items, j) == Cardinality({k \in (j + 1)..Len(items) : items[k] = <<>>})
NonEmptyCount(items)   == Cardinality({k \in 1..Len(items) : items[k] # <<>>})

(* NthFromRight.  [cls] ":param x_for: Number of values to trust for X-Forwarded-For." (same   *)
(* for the other four); [grv] "Get the real value from a list header based on the configured  *)
(* number of trusted proxies."  The n trusted values are the n right-most ones (each trusted  *)
(* proxy appended one), the "real value" is the one the outermost trusted proxy wrote: the    *)
(* n-th from the right, index Len - n + 1.                                                    *)
(* Empty list elements: nothing is documented (RFC 9110 5.6.1 lets a recipient ignore them;   *)
(* the code counts them, except a trailing one).  Every reading is accepted: position j is an *)
(* acceptable "n-th from the right" iff n-1 lies between the number of non-empty elements to  *)
(* its right and the number of all elements to its right.  Without empty elements this is     *)
(* exactly {Len - n + 1}.  An empty selected value leaves the environ alone.                  *)
AccIdx(n, items) == {j \in 1..Len(items) :
                       LET r == Len(items) - j  e == EmptiesAfter(items, j) IN r - e <= n - 1 /\ n - 1 <= r}

(* ZeroIgnored.  [cls] "You must tell the middleware how many proxies set each header so it   *)
(* knows what values to trust."; [dep] "Not all proxies set all the headers. ... you must set *)
(* how many proxies are setting each header"; [cls] example "App is behind one proxy that     *)
(* sets the -For and -Host headers.  app = ProxyFix(app, x_for=1, x_host=1)": a header with   *)
(* count 0 has no trusted value, it is ignored.                                               *)
(* FewerUntouched.  [grv] ":return: The real value, or None if there are fewer values than    *)
(* the number of trusted proxies."                                                            *)
AccSel(n, h) ==
  IF n = 0 \/ ~h.p \/ h.v = <<>> THEN {NoSel}
  ELSE LET items == Pieces(h.v) IN
       {IF items[j] = <<>> THEN NoSel ELSE Sel(items[j]) : j \in AccIdx(n, items)}
       \cup (IF n > NonEmptyCount(items) THEN {NoSel} ELSE {})

\* the plain reading (every element counts); always one of AccSel
PrimarySel(n, h) ==
  IF n = 0 \/ ~h.p \/ h.v = <<>> THEN NoSel
  ELSE LET items == Pieces(h.v) IN
       IF Len(items) < n \/ items[Len(items) - n + 1] = <<>> THEN NoSel ELSE Sel(items[Len(items) - n + 1])

(* ClientNeverSelected.  [cls] "It is a security issue to trust values that came from the     *)
(* client rather than a proxy."; [mod] "Since incoming headers can be faked, you must set how *)
(* many proxies are setting each header so the middleware knows what to trust."  When the n   *)
(* right-most pieces are values as proxies write them, they are what the n trusted proxies    *)
(* appended; whatever stands further left came from the client and can change neither which   *)
(* value is selected nor the selected text.                                                   *)
TrustedTail(n, items) == /\ n >= 1 /\ n <= Len(items)
                         /\ \A k \in (Len(items) - n + 1)..Len(items) : Clean(items[k])

(* What is claimed about the selection.  A quote character somewhere in the header: whether   *)
(* the list is read with RFC 9110 quoted-strings is not documented for these headers, so      *)
(* nothing is claimed -- except ZeroIgnored, FewerUntouched (quoting can only merge pieces)   *)
(* and ClientNeverSelected.                                                                   *)
Claimed(n, h) == \/ n = 0 \/ ~h.p \/ h.v = <<>> \/ ~HasQuote(h.v)
                 \/ LET items == Pieces(h.v) IN Len(items) < n \/ TrustedTail(n, items)

SelName(n, h) == IF n = 0 THEN "ZeroIgnored"
                 ELSE IF ~h.p \/ h.v = <<>> \/ Len(Pieces(h.v)) < n THEN "FewerUntouched"
                 ELSE IF HasQuote(h.v) THEN "ClientNeverSelected"
                 ELSE "NthFromRight"

(* ---- simple headers ---------------------------------------------------------------------- *)
(* [cls] "X-Forwarded-For sets REMOTE_ADDR."                                                  *)
(* [cls] "X-Forwarded-Proto sets wsgi.url_scheme."   (a scheme is case-insensitive, RFC 3986  *)
(*        3.1: the value as sent and its lower-case form are both accepted)                   *)
(* [cls] "X-Forwarded-Prefix sets SCRIPT_NAME."      (PEP 3333: SCRIPT_NAME is empty or starts*)
(*        with "/": a prefix sent without the slash may be stored with or without it)         *)
Alternatives(key, x) == IF key = "scheme" THEN {x, LowerS(x)}
                        ELSE IF key = "script" /\ x[1] # SLASH THEN {x, <<SLASH>> \o x}
                        ELSE {x}

SimpleClause(key, n, h, before, after) ==
  IF ~Claimed(n, h) THEN "ok"
  ELSE LET E == UNION {IF s.sel THEN {Val(y) : y \in Alternatives(key, s.v)} ELSE {before} : s \in AccSel(n, h)}
       IN IF after \in E THEN "ok" ELSE SelName(n, h)

(* ---- host and port ------------------------------------------------------------------------ *)
(* Host values whose parts are unambiguous: name | name:digits | [literal] | [literal]:digits. *)
(* [chg 2.0.3] "ProxyFix supports IPv6 addresses."  Anything else (a bare IPv6 address, an    *)
(* empty or non-numeric port, text after "]") is not documented: nothing is claimed about how *)
(* it is taken apart.                                                                         *)
LastColon(s) == CHOOSE k \in 1..Len(s) : s[k] = COLON /\ \A j \in (k + 1)..Len(s) : s[j] # COLON
WFHost(s) ==
  /\ s # <<>>
  /\ IF s[1] = LBR
     THEN /\ CountC(s, LBR) = 1 /\ CountC(s, RBR) = 1
          /\ LET k == CHOOSE j \in 1..Len(s) : s[j] = RBR IN
             /\ k > 2
             /\ (k = Len(s) \/ (s[k + 1] = COLON /\ AllDigits(Drop(s, k + 1))))
     ELSE /\ ~Has(s, LBR) /\ ~Has(s, RBR) /\ CountC(s, COLON) <= 1
          /\ (Has(s, COLON) => (s[1] # COLON /\ AllDigits(Drop(s, LastColon(s)))))
HasPort(s) == Has(s, COLON) /\ s[Len(s)] # RBR
NameOf(s)  == IF HasPort(s) THEN Take(s, LastColon(s) - 1) ELSE s
PortOf(s)  == IF HasPort(s) THEN Drop(s, LastColon(s)) ELSE <<>>

(* [cls] "X-Forwarded-Host sets HTTP_HOST, SERVER_NAME, and SERVER_PORT."                     *)
(* [cls] "X-Forwarded-Port sets HTTP_HOST and SERVER_PORT."                                   *)
(* [chg 0.15] "Sets SERVER_NAME and SERVER_PORT based on X-Forwarded-Host."  "Sets            *)
(*        SERVER_PORT and modifies HTTP_HOST based on X-Forwarded-Port."                      *)
(* HTTP_HOST is the forwarded host; SERVER_NAME its name; SERVER_PORT its port when it has    *)
(* one (when it has none nothing is documented: SERVER_PORT is not judged).  The forwarded    *)
(* port becomes SERVER_PORT and replaces the port of HTTP_HOST / is appended when it has none *)
(* (a bracketed literal keeps its brackets); when there is no HTTP_HOST at all whether one is *)
(* made up is not documented.  sh, sp: the selection outcomes for Host and Port.              *)
HostGroupFail(sh, sp, env, out) ==
  LET host1 == IF sh.sel THEN Val(sh.v) ELSE env.host
      wf1   == host1.p /\ WFHost(host1.v)
  IN \* HTTP_HOST
     IF ~sp.sel /\ out.host # host1 THEN (IF sh.sel THEN "ForwardedHostSetsHost" ELSE "Untouched")
     ELSE IF sp.sel /\ wf1 /\ AllDigits(sp.v) /\ out.host # Val(NameOf(host1.v) \o <<COLON>> \o sp.v) THEN "ForwardedPortSetsHostPort"
     \* SERVER_NAME
     ELSE IF ~sh.sel /\ out.sname # env.sname THEN "Untouched"
     ELSE IF sh.sel /\ WFHost(sh.v) /\ out.sname # Val(NameOf(sh.v)) THEN "ForwardedHostSetsServerName"
     \* SERVER_PORT
     ELSE IF sp.sel /\ out.sport # Val(sp.v) THEN "ForwardedPortSetsServerPort"
     ELSE IF ~sp.sel /\ ~sh.sel /\ out.sport # env.sport THEN "Untouched"
     ELSE IF ~sp.sel /\ sh.sel /\ WFHost(sh.v) /\ HasPort(sh.v) /\ out.sport # Val(PortOf(sh.v)) THEN "ForwardedHostSetsServerPort"
     ELSE "ok"

HostGroupClause(cfg, env, hd, out) ==
  IF ~Claimed(cfg.host, hd.host) \/ ~Claimed(cfg.port, hd.port) THEN "ok"
  ELSE LET SHs == AccSel(cfg.host, hd.host)
           SPs == AccSel(cfg.port, hd.port)
       IN IF \E sh \in SHs, sp \in SPs : HostGroupFail(sh, sp, env, out) = "ok" THEN "ok"
          ELSE \* name the failure under the plain reading (every element counts)
               LET sh == PrimarySel(cfg.host, hd.host)
                   sp == PrimarySel(cfg.port, hd.port)
                   f  == HostGroupFail(sh, sp, env, out)
               IN IF f = "Untouched" THEN (IF ~sh.sel THEN SelName(cfg.host, hd.host) ELSE SelName(cfg.port, hd.port))
                  ELSE IF HasQuote(hd.host.v) \/ HasQuote(hd.port.v) THEN "ClientNeverSelected"
                  ELSE IF f = "ok" THEN "NthFromRight"
                  ELSE f

(* OrigSaved.  [cls] "The original values of the headers are stored in the WSGI environ as    *)
(* werkzeug.proxy_fix.orig, a dict."  [chg 0.15] "The original WSGI environment values are    *)
(* stored in the werkzeug.proxy_fix.orig key, a dict."   A key the environ does not have is   *)
(* recorded as absent (None).                                                                 *)
OrigClause(before, orig) == IF orig = before THEN "ok" ELSE "OrigSaved"

(* the whole rewrite: first failing clause, or "ok" *)
RewriteClause(cfg, env, hd, out) ==
  LET c1 == SimpleClause("remote", cfg.for, hd.for, env.remote, out.remote)
      c2 == SimpleClause("scheme", cfg.proto, hd.proto, env.scheme, out.scheme)
      c3 == SimpleClause("script", cfg.prefix, hd.prefix, env.script, out.script)
      c4 == HostGroupClause(cfg, env, hd, out)
  IN IF c1 # "ok" THEN <<c1, "for">> ELSE IF c2 # "ok" THEN <<c2, "proto">>
     ELSE IF c3 # "ok" THEN <<c3, "prefix">> ELSE IF c4 # "ok" THEN <<c4, "hostport">> ELSE <<"ok", "">>

(* StandardPortDropped.  [gh] "The Host header is preferred, then SERVER_NAME if it's not     *)
(* set. The returned host will only contain the port if it is different than the standard     *)
(* port for the protocol."  What get_host makes of the rewritten environ (the host a Request  *)
(* and url_root show): X-Forwarded-Proto https + X-Forwarded-Port 443 gives a host without    *)
(* port.  Claimed for the four schemes werkzeug knows, spelled in lower case.                 *)
T_http  == <<104, 116, 116, 112>>
T_https == <<104, 116, 116, 112, 115>>
T_ws    == <<119, 115>>
T_wss   == <<119, 115, 115>>
StdPort(sch) == IF sch \in {T_http, T_ws} THEN <<58, 56, 48>>
                ELSE IF sch \in {T_https, T_wss} THEN <<58, 52, 52, 51>> ELSE <<>>
DropStd(h, sch) == LET stp == StdPort(sch) IN IF stp # <<>> /\ EndsWithS(h, stp) THEN Take(h, Len(h) - Len(stp)) ELSE h
CanonPort(s) == AllDigits(s) /\ Len(s) <= 5 /\ (s[1] # 48 \/ Len(s) = 1)
EffectiveHost(out) ==
  IF out.host.p THEN out.host
  ELSE IF out.sname.p /\ WFHost(out.sname.v) /\ ~HasPort(out.sname.v) /\ out.sport.p /\ CanonPort(out.sport.v)
       THEN Val(out.sname.v \o <<COLON>> \o out.sport.v)
  ELSE Absent
GetHostClause(out, gh) ==
  LET eh == EffectiveHost(out) IN
  IF ~eh.p \/ ~WFHost(eh.v) \/ ~out.scheme.p THEN "ok"
  ELSE LET E == {DropStd(eh.v, out.scheme.v), DropStd(eh.v, LowerS(out.scheme.v))} IN
       IF gh.kind = "value" /\ gh.v \in E THEN "ok" ELSE "StandardPortDropped"

(* ========================================================================================= *)
(* PART 2 -- the code                                                                        *)
(* ========================================================================================= *)

(* urllib.request.parse_http_list: quoted-strings may contain commas, a backslash escapes     *)
(* inside quotes, a last part that is empty (before stripping) is dropped                     *)
RECURSIVE PHL(_, _, _, _)
PHL(s, part, quote, esc) ==
  IF s = <<>> THEN (IF part # <<>> THEN <<part>> ELSE <<>>)
  ELSE LET c == Head(s) r == Tail(s) IN
       IF esc THEN PHL(r, Append(part, c), quote, FALSE)
       ELSE IF quote THEN (IF c = BSL THEN PHL(r, part, TRUE, TRUE)
                           ELSE PHL(r, Append(part, c), c # DQ, FALSE))
       ELSE IF c = COMMA THEN <<part>> \o PHL(r, <<>>, FALSE, FALSE)
       ELSE PHL(r, Append(part, c), c = DQ, FALSE)
Unquote(x) == IF Len(x) >= 2 /\ x[1] = DQ /\ x[Len(x)] = DQ THEN SubSeq(x, 2, Len(x) - 1) ELSE x
\* werkzeug.http.parse_list_header
ParseListHeader(text) == LET ps == PHL(text, <<>>, FALSE, FALSE) IN [i \in 1..Len(ps) |-> Unquote(Strip(ps[i]))]

\* ProxyFix._get_real_value; <<>> stands for None / an empty string (both are falsy for the caller)
\* "pinned": values = parse_list_header(value); every other variant: [item.strip() for item in value.split(",")]
ImplValues(variant, text) == IF variant = "pinned" THEN ParseListHeader(text) ELSE Pieces(text)
RealValue(variant, n, h) ==
  IF (n = 0 /\ variant # "nozero") \/ ~h.p \/ h.v = <<>> THEN <<>>
  ELSE LET vs == ImplValues(variant, h.v) IN
       IF vs = <<>> THEN <<>>
       ELSE IF variant = "left" THEN (IF Len(vs) >= n THEN vs[n] ELSE <<>>)                 \* counts from the client's side
       ELSE IF variant = "nozero" /\ n = 0 THEN vs[1]                                     \* values[-0]
       ELSE IF variant = "noshort" /\ Len(vs) < n THEN vs[1]                               \* clamps instead of giving up
       ELSE IF Len(vs) >= n THEN vs[Len(vs) - n + 1] ELSE <<>>

\* Python: ":" in x and not x.endswith("]")        x.rsplit(":", 1)
PyHasPort(variant, x) == Has(x, COLON) /\ (variant = "nobracket" \/ x[Len(x)] # RBR)
PyName(x) == Take(x, LastColon(x) - 1)
PyPort(x) == Drop(x, LastColon(x))

\* ProxyFix.__call__: the environ handed to the wrapped application and the saved originals
Impl(variant, cfg, env, hd) ==
  LET xf  == RealValue(variant, cfg.for, hd.for)
      xpr == RealValue(variant, cfg.proto, hd.proto)
      xh  == RealValue(variant, cfg.host, hd.host)
      xp  == RealValue(variant, cfg.port, hd.port)
      xpf == RealValue(variant, cfg.prefix, hd.prefix)
      host1  == IF xh # <<>> THEN Val(xh) ELSE env.host
      sname1 == IF xh = <<>> THEN env.sname ELSE IF PyHasPort(variant, xh) THEN Val(PyName(xh)) ELSE Val(xh)
      sport1 == IF xh # <<>> /\ PyHasPort(variant, xh) THEN Val(PyPort(xh)) ELSE env.sport
      host2  == IF xp # <<>> /\ host1.p /\ host1.v # <<>>
                THEN Val((IF PyHasPort(variant, host1.v) THEN PyName(host1.v) ELSE host1.v) \o <<COLON>> \o xp)
                ELSE host1
      sport2 == IF xp # <<>> THEN Val(xp) ELSE sport1
      out == [remote |-> IF xf # <<>> THEN Val(xf) ELSE env.remote,
              scheme |-> IF xpr # <<>> THEN Val(xpr) ELSE env.scheme,
              host   |-> IF variant = "noport" THEN host1 ELSE host2,
              sname  |-> sname1, sport |-> sport2,
              script |-> IF xpf # <<>> THEN Val(xpf) ELSE env.script]
  IN [env |-> out, orig |-> IF variant = "origlate" THEN out ELSE env]
=============================================================================
