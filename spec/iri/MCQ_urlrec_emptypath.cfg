CONSTANTS
  Variant = "fixed"
  UrlVariant = "emptypath"
INIT Init
NEXT NoNext
INVARIANT Contract
