CONSTANTS
  Variant = "fixed"
  FEVariant = "fixed"
  Syms <- SymsEnvSmall
  MaxLen = 0
  Labels <- LabelsT
  Mode = "bind"
INIT BindInit
NEXT NoNext
INVARIANT BindAgree
