CONSTANTS
  Variant = "fixed"
  FEVariant = "fixed"
  Syms <- SymsEnvSmall
  MaxLen = 0
  Labels <- LabelsQ
  Mode = "bind"
INIT BindInit
NEXT NoNext
INVARIANT BindExport
