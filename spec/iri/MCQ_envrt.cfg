CONSTANTS
  Variant = "fixed"
  FEVariant = "fixed"
  Syms <- SymsEnvSmall
  MaxLen = 3
  Labels <- LabelsQ
  Mode = "env"
INIT Init
NEXT Grow
INVARIANT PathOK
INVARIANT ScriptOK
