CONSTANTS
  MAlpha = {47, 97}
  PAlpha = {47, 97, 98}
  MaxMount = 3
  MaxPath = 5
  MaxMounts = 2
  Impl = "shortest"
INIT Init
NEXT Grow
INVARIANT ImplMeetsContract
