CONSTANTS
  MAlpha = {47, 97, 98}
  PAlpha = {47, 97, 98}
  MaxMount = 3
  MaxPath = 6
  MaxMounts = 3
  Impl = "code"
INIT Init
NEXT Grow
INVARIANT ImplMeetsContract
