CONSTANTS
  MAlpha = {47, 97}
  PAlpha = {47, 97, 98}
  MaxMount = 4
  MaxPath = 7
  MaxMounts = 2
  Impl = "code"
INIT Init
NEXT Grow
INVARIANT ImplMeetsContract
