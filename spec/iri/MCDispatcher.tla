---------------------------- MODULE MCDispatcher ----------------------------
(* Every mount table of at most MaxMounts prefixes drawn from all strings over MAlpha of       *)
(* length <= MaxMount, every request path over PAlpha of length <= MaxPath.                    *)
EXTENDS Dispatcher, TLC, Json
CONSTANTS MAlpha, PAlpha, MaxMount, MaxPath, MaxMounts, Impl
VARIABLES mounts, p
vars == <<mounts, p>>

MountKeys == SeqsUpTo(MAlpha, MaxMount)
\* built by construction (SUBSET of 40 keys cannot be enumerated)
Tables == {{}} \cup {{a} : a \in MountKeys}
          \cup (IF MaxMounts >= 2 THEN {{a, b} : a \in MountKeys, b \in MountKeys} ELSE {})
          \cup (IF MaxMounts >= 3 THEN {{a, b, c} : a \in MountKeys, b \in MountKeys, c \in MountKeys} ELSE {})
Init == mounts \in Tables /\ p = <<>>
Grow == Len(p) < MaxPath /\ (\E c \in PAlpha : p' = Append(p, c)) /\ mounts' = mounts
NoNext == FALSE /\ UNCHANGED vars

Run == IF Impl = "code" THEN Dispatch(mounts, <<>>, p)
       ELSE LET r == LoopShortest(mounts, p, 1) IN [app |-> r.app, script |-> r.script, pinfo |-> r.pinfo]
ImplMeetsContract == LET r == Run IN ContractOK(mounts, <<>>, p, r.app, r.script, r.pinfo)
\* non-trivial share of the space (tracked for the evidence): some mount matches and is not the only candidate
Export == IF Cardinality(Matching(mounts, p)) >= 1 /\ Cardinality(mounts) >= 2
          THEN PrintT(ToJson([mounts |-> mounts, p |-> p, app |-> Run.app, script |-> Run.script, pinfo |-> Run.pinfo]))
          ELSE TRUE
=============================================================================
