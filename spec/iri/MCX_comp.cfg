CONSTANTS
  Variant = "fixed"
  Syms <- SymsSmall
  MaxLen = 2
  KindSet = {"path", "query", "frag", "user"}
INIT Init
NEXT Grow
INVARIANT Export
