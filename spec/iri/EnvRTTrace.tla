----------------------------- MODULE EnvRTTrace -----------------------------
(* Trace judge for the C15 growth part.  Lines (ndjson, TRACE_FILE); text = code point arrays,  *)
(* environ strings = their latin-1 code points (bytes).                                         *)
(*  envrt: given  path root pairs scheme hostU hostA port                                        *)
(*         e1/e2  pi sn qs host sname sport scheme meth ctype clen hdrs body flags (suffix 1/2)   *)
(*         err1 (first get_environ), err2 (from_environ / second get_environ)                     *)
(*  bind : given  path root pairs scheme hostU hostA port hm arg ws                               *)
(*         seen   err warned sub sname uscheme script pinfo qargs whost                           *)
EXTENDS EnvRoundTrip, TLC, Json, IOUtils

Lines == ndJsonDeserialize(IOEnv.TRACE_FILE)
VARIABLES l
vars == <<l>>

AllScalar(s) == \A j \in 1..Len(s) : IsScalar(s[j])
NoRaw(s, S) == \A j \in 1..Len(s) : s[j] \notin S
PairsScalar(ps) == \A j \in 1..Len(ps) : AllScalar(ps[j][1]) /\ AllScalar(ps[j][2])
GivenOK(r) ==
  /\ AllScalar(r.path) /\ NoRaw(r.path, {63, 35, 9, 10, 13}) /\ r.path # <<>> /\ r.path[1] = 47
  /\ AllScalar(r.root) /\ NoRaw(r.root, {63, 35, 9, 10, 13}) /\ (r.root = <<>> \/ r.root[1] = 47)
  /\ PairsScalar(r.pairs)
\* what the first emission must look like for the claim to apply (decided on the recorded environ)
PathInfoOK(e) == Utf8Valid(e, 1) /\ e # <<>> /\ e[1] = 47 /\ (Len(e) >= 2 => e[2] # 47)
ScriptOK(e) == Utf8Valid(e, 1) /\ (e = <<>> \/ (e[1] = 47 /\ e[Len(e)] # 47 /\ (Len(e) >= 2 => e[2] # 47)))
QPairs(qs) == IF Utf8Valid(qs, 1) THEN ParseQuery(Utf8Dec(qs)) ELSE <<<<<<0 - 1>>, <<>>>>>>

DoubleSlash(s) == Len(s) >= 2 /\ s[1] = 47 /\ s[2] = 47
JudgeEnvRT(r) ==
  IF ~GivenOK(r) \/ r.err1 # "" \/ ~PathInfoOK(r.pi1) \/ ~ScriptOK(r.sn1) THEN "ok"
  ELSE IF r.err2 # "" THEN "EnvRTRaised"
  ELSE IF r.pi2 # r.pi1 THEN "EnvRTPathInfo"
  ELSE IF r.sn2 # r.sn1 THEN "EnvRTScriptName"
  ELSE IF QPairs(r.qs1) # r.pairs \/ QPairs(r.qs2) # r.pairs THEN "EnvRTQuery"
  ELSE IF r.host2 # r.host1 \/ r.sname2 # r.sname1 \/ r.sport2 # r.sport1 \/ r.scheme2 # r.scheme1 THEN "EnvRTHost"
  ELSE "ok"
\* not named by the property text: method, content type / length, header set, body, flags; and the model
DriftEnvRT(r) ==
  IF ~GivenOK(r) \/ r.err1 # "" \/ r.err2 # "" THEN TRUE
  ELSE /\ r.meth2 = r.meth1 /\ r.ctype2 = r.ctype1 /\ r.hdrs2 = r.hdrs1 /\ r.body2 = r.body1 /\ r.flags2 = r.flags1
       /\ (r.clen2 = r.clen1 \/ (r.clen1 = <<>> /\ r.clen2 = <<48>>))
       \* (a given "//..." is a network-path reference for urlsplit: outside the model)
       /\ (Len(r.path) > 60 \/ DoubleSlash(r.path) \/ ~Utf8Valid(DataBytes(r.path), 1) \/ r.pi1 = PathInfoOf(r.path))
       /\ (Len(r.root) > 60 \/ DoubleSlash(r.root) \/ ~Utf8Valid(DataBytes(r.root), 1) \/ r.sn1 = ScriptNameOf(r.root))

\* ---------------------------------------------------------------- bind lines
DefaultPort(scheme, port) == (scheme \in HTTPISH /\ port = <<56, 48>>) \/ (scheme \in HTTPSISH /\ port = <<52, 52, 51>>)
WsScheme(r) == IF ~r.ws THEN r.scheme ELSE IF r.scheme = <<104, 116, 116, 112, 115>> THEN <<119, 115, 115>> ELSE <<119, 115>>
HostPort(h, p) == IF p = <<>> THEN h ELSE h \o <<58>> \o p
\* get_host(environ): HTTP_HOST with the default port of the *environ* scheme stripped, lower-cased by bind
WsgiHost(r) == LowerText(HostPort(r.hostA, IF r.port = <<>> \/ DefaultPort(r.scheme, r.port) THEN <<>> ELSE r.port))
ExpText(p) == Utf8Dec(DataBytes(p))
BindDomain(r) == GivenOK(r) /\ Utf8Valid(DataBytes(r.path), 1) /\ Utf8Valid(DataBytes(r.root), 1)
                 /\ LET e == DataBytes(r.path) f == DataBytes(r.root) IN
                    (Len(e) >= 2 => e[2] # 47) /\ (f = <<>> \/ (f[Len(f)] # 47 /\ (Len(f) >= 2 => f[2] # 47)))
JudgeBind(r) ==
  IF ~BindDomain(r) THEN "ok"
  ELSE IF r.err # "" THEN "BindRaised"
  ELSE IF r.pinfo # ExpText(r.path) THEN "BindPathInfo"
  ELSE IF r.script # ExpText(r.root) \o <<47>> THEN "BindScriptName"
  ELSE IF ParseQuery(r.qargs) # r.pairs THEN "BindQueryArgs"
  ELSE IF r.uscheme # WsScheme(r) THEN "BindScheme"
  ELSE IF r.arg = NONE /\ r.sname # WsgiHost(r) THEN "BindServerName"
  ELSE "ok"
DriftBind(r) ==
  IF ~BindDomain(r) \/ r.err # "" THEN TRUE
  ELSE LET s == SubdomainImpl(r.hm, r.uscheme, WsgiHost(r), r.arg) IN
       r.sub = s /\ r.warned = (s = INVALID) /\ r.whost = WsgiHost(r)

Verdict(r) == CASE r.op = "envrt" -> JudgeEnvRT(r) [] r.op = "bind" -> JudgeBind(r) [] OTHER -> "EnvRTUnknownOp"
Drift(r) == CASE r.op = "envrt" -> DriftEnvRT(r) [] r.op = "bind" -> DriftBind(r) [] OTHER -> TRUE

Init == l = 1
Next == /\ l <= Len(Lines)
        /\ LET r == Lines[l] v == Verdict(r) IN
           /\ IF v = "ok" THEN TRUE ELSE PrintT(ToJson([reject |-> 1, t |-> r.t, i |-> r.i, clause |-> v]))
           /\ IF v # "ok" \/ Drift(r) THEN TRUE ELSE PrintT(ToJson([drift |-> 1, t |-> r.t, i |-> r.i, what |-> r.op]))
        /\ l' = l + 1
Done == PrintT(ToJson([judged |-> Len(Lines)])) /\ TLCGet("generated") >= 0
=============================================================================
