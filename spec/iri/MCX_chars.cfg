CONSTANTS
  Variant = "fixed"
  Syms <- SymsCharsSmall
  MaxLen = 4
  KindSet = {"path", "query", "frag", "user"}
INIT Init
NEXT Grow
INVARIANT Export
