---------------------------- MODULE EnvRoundTrip ----------------------------
(* C15 growth: (1) EnvironBuilder(...).get_environ() and EnvironBuilder.from_environ(environ)   *)
(* as mutually inverse up to normalisation; (2) the host / subdomain computation of             *)
(* Map.bind_to_environ as a decision table.                                                     *)
(*                                                                                              *)
(* Environ strings are modelled in their "danced" form: a sequence of bytes (latin-1 code       *)
(* points); UnDance = UTF-8 decode.  The builder model is implementation-shaped:                 *)
(*   PathArg --urlsplit--> path --iri_to_uri--> URI path --unquote--> bytes = PATH_INFO          *)
(* FEVariant = "orig": from_environ hands the decoded PATH_INFO / SCRIPT_NAME back as if it      *)
(* were a URL (so '?', '#', '%XX', tab/CR/LF in it are interpreted a second time);               *)
(* "fixed": it percent-quotes them first.                                                       *)
EXTENDS Iri

CONSTANT FEVariant

ERR == <<0 - 1>>                       \* marker: the constructor raised ValueError

\* ---------------------------------------------------------------- urllib.parse.urlsplit on a path
NoTabs(s) == SelectSeq(s, LAMBDA c : c \notin {9, 10, 13})
CutAt(s, c) == LET p == IdxOf(s, c) IN IF p = 0 THEN s ELSE Take(s, p - 1)
UrlsplitPath(s) == CutAt(CutAt(NoTabs(s), 35), 63)           \* fragment first, then query
RECURSIVE RStripSlash(_)
RStripSlash(s) == IF s # <<>> /\ s[Len(s)] = 47 THEN RStripSlash(Take(s, Len(s) - 1)) ELSE s

\* ---------------------------------------------------------------- builder -> environ
\* EnvironBuilder(path=p, query_string=<given>): ValueError if '?' in p; PATH_INFO = unquote(iri_to_uri(urlsplit(p).path))
PathInfoOf(p) == IF \E j \in 1..Len(p) : p[j] = 63 THEN ERR
                 ELSE PctDecode(ToUriC("path", UrlsplitPath(p)))
\* base_url = scheme://host<root>/ : iri_to_uri, urlsplit again (query or fragment -> ValueError), rstrip('/')
ScriptNameOf(root) ==
  LET t == NoTabs(root \o <<47>>) IN
  IF (\E j \in 1..Len(t) : t[j] \in {63, 35}) THEN ERR
  ELSE PctDecode(RStripSlash(ToUriC("path", t)))

\* ---------------------------------------------------------------- environ -> builder (from_environ)
\* fixed: exactly the characters that URL parsing would interpret again are quoted: % ? # tab LF CR
Requote == {37, 63, 35, 9, 10, 13}
RECURSIVE QuoteMin(_)
QuoteMin(t) == IF t = <<>> THEN <<>> ELSE (IF Head(t) \in Requote THEN PctByte(Head(t)) ELSE <<Head(t)>>) \o QuoteMin(Tail(t))
BackToArg(bytes) == LET t == Utf8Dec(bytes) IN IF FEVariant = "fixed" THEN QuoteMin(t) ELSE t
\* _make_base_url(scheme, host, script_root) = urlunsplit(...).rstrip("/") + "/"   (root part only)
BackToRoot(bytes) == RStripSlash(BackToArg(bytes))

RoundTripPath(p) == LET e1 == PathInfoOf(p) IN IF e1 = ERR THEN ERR ELSE PathInfoOf(BackToArg(e1))
RoundTripScript(r) == LET e1 == ScriptNameOf(r) IN IF e1 = ERR THEN ERR ELSE ScriptNameOf(BackToRoot(e1))

\* ---------------------------------------------------------------- contract
\* domain of the claim: what the builder emitted is valid UTF-8 (an invalid escape cannot survive the
\* decoding dance), the decoded path does not start with "//", the decoded script root has no trailing '/'
PathDomain(p) == LET e == PathInfoOf(p) IN
  /\ e # ERR /\ Utf8Valid(e, 1) /\ e # <<>> /\ e[1] = 47 /\ (Len(e) >= 2 => e[2] # 47)
ScriptDomain(r) == LET e == ScriptNameOf(r) IN
  /\ e # ERR /\ Utf8Valid(e, 1) /\ (e = <<>> \/ (e[1] = 47 /\ e[Len(e)] # 47 /\ (Len(e) >= 2 => e[2] # 47)))
PathInverse(p) == PathDomain(p) => RoundTripPath(p) = PathInfoOf(p)
ScriptInverse(r) == ScriptDomain(r) => RoundTripScript(r) = ScriptNameOf(r)
\* the first emission itself denotes the given path: PATH_INFO = percent-decoded UTF-8 of the given IRI path
FirstEmission(p) == (PathInfoOf(p) # ERR /\ \A j \in 1..Len(p) : p[j] \notin {9, 10, 13, 35}) => PathInfoOf(p) = DataBytes(p)

\* ---------------------------------------------------------------- Map.bind_to_environ: host decision table
Lower(c) == IF c >= 65 /\ c <= 90 THEN c + 32 ELSE c
LowerText(s) == [j \in 1..Len(s) |-> Lower(s[j])]
EndsWith(s, suf) == Len(s) >= Len(suf) /\ SubSeq(s, Len(s) - Len(suf) + 1, Len(s)) = suf
P80 == <<58, 56, 48>>
P443 == <<58, 52, 52, 51>>
HTTPISH == {<<104, 116, 116, 112>>, <<119, 115>>}                    \* http ws
HTTPSISH == {<<104, 116, 116, 112, 115>>, <<119, 115, 115>>}         \* https wss
StripDefaultPort(scheme, h) == IF scheme \in HTTPISH /\ EndsWith(h, P80) THEN Take(h, Len(h) - 3)
                               ELSE IF scheme \in HTTPSISH /\ EndsWith(h, P443) THEN Take(h, Len(h) - 4) ELSE h
INVALID == <<60, 105, 110, 118, 97, 108, 105, 100, 62>>              \* "<invalid>"
NONE == <<0 - 2>>                                                    \* Python None

\* wsgiHost = get_host(environ).lower() (default port already stripped); arg = server_name argument or NONE
BindServerName(scheme, wsgiHost, arg) == IF arg = NONE THEN wsgiHost ELSE StripDefaultPort(scheme, LowerText(arg))
\* implementation-shaped: compare dot-separated labels from the right
SubdomainImpl(hostMatching, scheme, wsgiHost, arg) ==
  IF hostMatching THEN NONE
  ELSE LET cur == SplitOn(wsgiHost, 46, <<>>)
           real == SplitOn(BindServerName(scheme, wsgiHost, arg), 46, <<>>)
           n == Len(cur) - Len(real)
       IN IF n < 0 \/ SubSeq(cur, n + 1, Len(cur)) # real THEN INVALID
          ELSE JoinWith(SelectSeq(SubSeq(cur, 1, n), LAMBDA l : l # <<>>), 46)
\* declarative: the request host is the configured server name, or ends with "." + server name
SubdomainSpec(hostMatching, scheme, wsgiHost, arg) ==
  LET sn == BindServerName(scheme, wsgiHost, arg) IN
  IF hostMatching THEN NONE
  ELSE IF wsgiHost = sn THEN <<>>
  ELSE IF EndsWith(wsgiHost, <<46>> \o sn)
       THEN LET s == Take(wsgiHost, Len(wsgiHost) - Len(sn) - 1) IN JoinWith(SelectSeq(SplitOn(s, 46, <<>>), LAMBDA l : l # <<>>), 46)
  ELSE INVALID
=============================================================================
