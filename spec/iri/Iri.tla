-------------------------------- MODULE Iri --------------------------------
(* C15 -- URLs keep their meaning between IRI, URI, environ and request.                       *)
(*                                                                                             *)
(* Text = sequence of code points, bytes = Seq(0..255) (DESIGN section 5).                     *)
(* Per component kind k in {"path","query","frag","user"}:                                     *)
(*   ToUriC(k, s)  IRI -> URI  : quote every char outside the component's safe set (UTF-8)      *)
(*   ToIriC(k, s)  URI -> IRI  : unquote every valid escape run except the component's keep set *)
(*                               (reserved chars, '%', controls, space, DEL) and invalid UTF-8  *)
(*   Mean(k, s)    the MEANING of a component: the sequence of <<1, c>> (a raw reserved         *)
(*                 delimiter of that component) and <<0, b>> (a data byte, however written).    *)
(* The contract (laws) is stated over these observables only; ToUriC / ToIriC are the           *)
(* implementation-shaped model that TLC checks against the laws (MCIri) and that the trace      *)
(* judge uses for drift.  Variant = "orig" is uri_to_iri as found (an unquoted hex digit may    *)
(* complete an escape with a preceding stray '%'), "fixed" the repaired function.               *)
EXTENDS Naturals, Sequences, FiniteSets, Text

CONSTANT Variant

Kinds == {"path", "query", "frag", "user"}

SubDelims == {33, 36, 38, 39, 40, 41, 42, 43, 44, 59, 61}          \* ! $ & ' ( ) * + , ; =
Safe(k) == CASE k = "path"  -> SubDelims \cup {37, 47, 58, 64}      \* % / : @
             [] k = "query" -> SubDelims \cup {37, 47, 58, 64, 63}  \* ... ?
             [] k = "frag"  -> SubDelims \cup {37, 47, 58, 64, 63, 35}
             [] k = "user"  -> SubDelims \cup {37}
AlwaysUnsafe == (0..32) \cup {37, 127}
Reserved(k) == CASE k = "path"  -> {47, 63, 35}                     \* / ? #
                 [] k = "query" -> {38, 61, 43, 35}                 \* & = + #
                 [] k = "frag"  -> {}
                 [] k = "user"  -> {58, 64, 47, 63, 35}             \* : @ / ? #
Keep(k) == AlwaysUnsafe \cup Reserved(k)
\* raw characters that cannot occur inside a component of kind k of a split URL
Forbidden(k) == CASE k = "path" -> {63, 35} [] k = "query" -> {35} [] k = "frag" -> {} [] k = "user" -> {58, 64, 47, 63, 35, 91, 93}

\* ---------------------------------------------------------------- IRI -> URI
QuoteCp(c, safe) == IF c < 128 /\ (Unreserved(c) \/ c \in safe) THEN <<c>> ELSE PctEncode(Utf8Of(c), {})
RECURSIVE QuoteText(_, _)
QuoteText(s, safe) == IF s = <<>> THEN <<>> ELSE QuoteCp(Head(s), safe) \o QuoteText(Tail(s), safe)
ToUriC(k, s) == QuoteText(s, Safe(k))

\* ---------------------------------------------------------------- URI -> IRI
EscAt(s, p) == p + 2 <= Len(s) /\ s[p] = PCT /\ IsHex(s[p + 1]) /\ IsHex(s[p + 2])
EscByte(s, p) == HexVal(s[p + 1]) * 16 + HexVal(s[p + 2])
\* a '%' that cannot itself start an escape stands directly (or one hex digit) before position p
StrayBefore(s, p) == (p >= 2 /\ s[p - 1] = PCT) \/ (p >= 3 /\ s[p - 2] = PCT /\ IsHex(s[p - 1]))
KeptAt(s, p, keep) == EscAt(s, p) /\ (EscByte(s, p) \in keep
                                      \/ (Variant = "fixed" /\ IsHex(EscByte(s, p)) /\ StrayBefore(s, p)))
RECURSIVE RunEnd(_, _, _)
RunEnd(s, p, keep) == IF EscAt(s, p) /\ ~KeptAt(s, p, keep) THEN RunEnd(s, p + 3, keep) ELSE p
RunBytes(s, p, q) == [i \in 1..((q - p) \div 3) |-> EscByte(s, p + 3 * (i - 1))]
PctByte(b) == <<PCT, HexDigit(b \div 16), HexDigit(b % 16)>>
RECURSIVE DecodeRequote(_, _)
DecodeRequote(bs, p) == IF p > Len(bs) THEN <<>>
                        ELSE LET r == Utf8At(bs, p) IN
                             (IF r[1] THEN <<r[2]>> ELSE PctByte(bs[p])) \o DecodeRequote(bs, p + r[3])
RECURSIVE UnqFrom(_, _, _)
UnqFrom(s, p, keep) ==
  IF p > Len(s) THEN <<>>
  ELSE IF KeptAt(s, p, keep) THEN SubSeq(s, p, p + 2) \o UnqFrom(s, p + 3, keep)
  ELSE IF EscAt(s, p) THEN LET q == RunEnd(s, p, keep) IN DecodeRequote(RunBytes(s, p, q), 1) \o UnqFrom(s, q, keep)
  ELSE <<s[p]>> \o UnqFrom(s, p + 1, keep)
ToIriC(k, s) == UnqFrom(s, 1, Keep(k))

\* ---------------------------------------------------------------- meaning
RECURSIVE MeanFrom(_, _, _)
MeanFrom(s, p, res) ==
  IF p > Len(s) THEN <<>>
  ELSE IF EscAt(s, p) THEN <<<<0, EscByte(s, p)>>>> \o MeanFrom(s, p + 3, res)
  ELSE IF s[p] \in res THEN <<<<1, s[p]>>>> \o MeanFrom(s, p + 1, res)
  ELSE LET u == Utf8Of(s[p]) IN [i \in 1..Len(u) |-> <<0, u[i]>>] \o MeanFrom(s, p + 1, res)
Mean(k, s) == MeanFrom(s, 1, Reserved(k))
\* the bytes of the escapes that must stay escapes (reserved, '%', controls, space, DEL)
RECURSIVE KeptFrom(_, _, _)
KeptFrom(s, p, keep) ==
  IF p > Len(s) THEN <<>>
  ELSE IF EscAt(s, p) THEN (IF EscByte(s, p) \in keep THEN <<EscByte(s, p)>> ELSE <<>>) \o KeptFrom(s, p + 3, keep)
  ELSE KeptFrom(s, p + 1, keep)
KeptEsc(k, s) == KeptFrom(s, 1, Keep(k))
HasEsc(s) == \E p \in 1..Len(s) : EscAt(s, p)
DataBytes(s) == LET m == MeanFrom(s, 1, {}) IN [i \in 1..Len(m) |-> m[i][2]]   \* fully decoded bytes

\* ---------------------------------------------------------------- the laws on one component
\* (contract; every clause is a relation between an input and outputs of the two conversions)
CompDomain(k, s) == \A i \in 1..Len(s) : IsScalar(s[i]) /\ s[i] \notin Forbidden(k) /\ s[i] \notin {9, 10, 13}
LawAscii(k, x)   == IsAsciiSeq(ToUriC(k, x))
LawUIdem(k, x)   == LET u == ToUriC(k, x) IN ToUriC(k, u) = u
LawIIdem(k, x)   == LET i == ToIriC(k, x) IN ToIriC(k, i) = i
LawIUFix(k, x)   == LET n == ToIriC(k, ToUriC(k, x)) IN ToIriC(k, ToUriC(k, n)) = n
LawUIFix(k, x)   == LET n == ToUriC(k, ToIriC(k, x)) IN ToUriC(k, ToIriC(k, n)) = n
LawMeanU(k, x)   == Mean(k, ToUriC(k, x)) = Mean(k, x)
LawMeanI(k, x)   == Mean(k, ToIriC(k, x)) = Mean(k, x)
LawKeptI(k, x)   == KeptEsc(k, ToIriC(k, x)) = KeptEsc(k, x)
RECURSIVE RawRunEnd(_, _)
RawRunEnd(s, p) == IF EscAt(s, p) THEN RawRunEnd(s, p + 3) ELSE p
\* everything else that is valid UTF-8 is really unquoted: no decodable escape survives
LawUnquotes(k, x) ==
  LET i == ToIriC(k, x) IN \A p \in 1..Len(i) :
     EscAt(i, p) => \/ EscByte(i, p) \in Keep(k)
                    \/ (EscByte(i, p) < 128 /\ StrayBefore(i, p) /\ IsHex(EscByte(i, p)))
                    \/ (EscByte(i, p) >= 128 /\ ~Utf8At(RunBytes(i, p, RawRunEnd(i, p)), 1)[1])

\* ---------------------------------------------------------------- whole URLs (scheme://netloc...)
IdxOf(s, c) == FindFrom(s, <<c>>, 1)
RECURSIVE LastIdxFrom(_, _, _)
LastIdxFrom(s, c, p) == IF p = 0 THEN 0 ELSE IF s[p] = c THEN p ELSE LastIdxFrom(s, c, p - 1)
LastIdxOf(s, c) == LastIdxFrom(s, c, Len(s))

SplitUrl(s) ==
  LET ps == FindFrom(s, <<58, 47, 47>>, 1) IN
  IF ps = 0 THEN [ok |-> FALSE, scheme |-> <<>>, user |-> <<>>, pass |-> <<>>, hasuser |-> FALSE, haspass |-> FALSE,
                  host |-> <<>>, port |-> <<>>, path |-> <<>>, query |-> <<>>, frag |-> <<>>]
  ELSE
  LET rest == Drop(s, ps + 2)
      ph == IdxOf(rest, 35)
      nofrag == IF ph = 0 THEN rest ELSE Take(rest, ph - 1)
      pq == IdxOf(nofrag, 63)
      noq == IF pq = 0 THEN nofrag ELSE Take(nofrag, pq - 1)
      pp == IdxOf(noq, 47)
      netloc == IF pp = 0 THEN noq ELSE Take(noq, pp - 1)
      at == LastIdxOf(netloc, 64)
      uinfo == IF at = 0 THEN <<>> ELSE Take(netloc, at - 1)
      hp == IF at = 0 THEN netloc ELSE Drop(netloc, at)
      uc == IdxOf(uinfo, 58)
      rb == IdxOf(hp, 93)
      pc == IF hp # <<>> /\ hp[1] = 91 /\ rb > 0 THEN (IF rb < Len(hp) /\ hp[rb + 1] = 58 THEN rb + 1 ELSE 0)
            ELSE LastIdxOf(hp, 58)
  IN [ok |-> TRUE, scheme |-> Take(s, ps - 1),
      hasuser |-> at > 0, haspass |-> uc > 0,
      user |-> IF uc = 0 THEN uinfo ELSE Take(uinfo, uc - 1),
      pass |-> IF uc = 0 THEN <<>> ELSE Drop(uinfo, uc),
      host |-> IF pc = 0 THEN hp ELSE Take(hp, pc - 1),
      port |-> IF pc = 0 THEN <<>> ELSE Drop(hp, pc),
      path |-> IF pp = 0 THEN <<>> ELSE Drop(noq, pp - 1),
      query |-> IF pq = 0 THEN <<>> ELSE Drop(nofrag, pq),
      frag |-> IF ph = 0 THEN <<>> ELSE Drop(rest, ph)]

IsDigits(s) == \A i \in 1..Len(s) : s[i] >= 48 /\ s[i] <= 57

\* ---------------------------------------------------------------- query strings (args)
PlusToSpace(s) == [i \in 1..Len(s) |-> IF s[i] = 43 THEN 32 ELSE s[i]]
QText(s) == Utf8Dec(PctDecode(Utf8Enc(PlusToSpace(s))))
QPair(f) == LET e == IdxOf(f, 61) IN IF e = 0 THEN <<QText(f), <<>>>> ELSE <<QText(Take(f, e - 1)), QText(Drop(f, e))>>
ParseQuery(q) == IF q = <<>> THEN <<>>
                 ELSE LET fs == SelectSeq(SplitOn(q, 38, <<>>), LAMBDA f : f # <<>>) IN [i \in 1..Len(fs) |-> QPair(fs[i])]

\* ---------------------------------------------------------------- the latin-1 "WSGI dance"
Dance(s) == Utf8Enc(s)                           \* bytes read as latin-1 code points
UnDance(t) == Utf8Dec(t)
DanceOK(s) == LET d == Dance(s) IN (\A i \in 1..Len(d) : d[i] < 256) /\ Utf8Valid(d, 1) /\ UnDance(d) = s
=============================================================================
