------------------------------- MODULE MCIri -------------------------------
(* Bounded instances for C15: every component string of at most MaxLen symbols over an         *)
(* alphabet of symbols (single code points and multi-character escapes), for each component    *)
(* kind: the implementation-shaped conversions of Iri.tla satisfy the contract laws.           *)
EXTENDS Iri, TLC, Json

CONSTANTS Syms, MaxLen, KindSet
VARIABLES k, x, n
vars == <<k, x, n>>

\* the alphabet of DESIGN 6/C15: a / ? # & = + % space e-acute emoji %41 %2F %C3%A9 %FF %zz
\* widened by : @ %25 %20 %26 %3d %2b %3A %34 1 and the two halves of a lower-case e-acute escape
SymsDesign == { <<97>>, <<47>>, <<63>>, <<35>>, <<38>>, <<61>>, <<43>>, <<37>>, <<32>>, <<233>>, <<128512>>,
                <<37, 52, 49>>, <<37, 50, 70>>, <<37, 67, 51, 37, 65, 57>>, <<37, 70, 70>>, <<37, 122, 122>>,
                <<58>>, <<64>>, <<37, 50, 53>>, <<37, 50, 48>>, <<37, 50, 54>>, <<37, 51, 100>>, <<37, 50, 98>>,
                <<37, 51, 65>>, <<37, 51, 52>>, <<49>>, <<37, 99, 51>>, <<37, 97, 57>> }
SymsSmall == { <<97>>, <<47>>, <<38>>, <<37>>, <<32>>, <<233>>, <<128512>>, <<37, 52, 49>>, <<37, 50, 70>>,
               <<37, 67, 51, 37, 65, 57>>, <<37, 70, 70>>, <<37, 122, 122>>, <<37, 50, 53>>, <<37, 51, 52>>, <<49>>,
               <<37, 99, 51>>, <<37, 97, 57>>, <<64>> }
\* character level: % 2 5 3 4 1 F / (every way of writing stray percents next to hex digits)
SymsChars == { <<37>>, <<50>>, <<53>>, <<51>>, <<52>>, <<49>>, <<70>>, <<47>> }
SymsCharsSmall == { <<37>>, <<50>>, <<53>>, <<51>>, <<52>>, <<49>> }
\* UTF-8 structure: lead / continuation bytes as escapes, overlong, surrogate, > U+10FFFF, truncated
SymsUtf8 == { <<37, 67, 51>>, <<37, 65, 57>>, <<37, 69, 50>>, <<37, 56, 50>>, <<37, 65, 67>>, <<37, 70, 48>>, <<37, 57, 70>>,
              <<37, 69, 68>>, <<37, 65, 48>>, <<37, 67, 48>>, <<37, 70, 52>>, <<37, 57, 48>>, <<37, 56, 48>>, <<97>>, <<8364>> }

\* the texts are grown symbol by symbol so that TLC's workers share the evaluation of the invariants
SymOK(kk, s) == CompDomain(kk, s)
Init == k \in KindSet /\ x = <<>> /\ n = 0
Grow == /\ n < MaxLen
        /\ \E s \in Syms : SymOK(k, s) /\ x' = x \o s
        /\ n' = n + 1
        /\ k' = k

Ascii  == LawAscii(k, x)
UIdem  == LawUIdem(k, x)
IIdem  == LawIIdem(k, x)
IUFix  == LawIUFix(k, x)
UIFix  == LawUIFix(k, x)
MeanU  == LawMeanU(k, x)
MeanI  == LawMeanI(k, x)
KeptI  == LawKeptI(k, x)
Unquotes == LawUnquotes(k, x)

Export == PrintT(ToJson([kind |-> k, x |-> x, u |-> ToUriC(k, x), i |-> ToIriC(k, x)]))

\* the latin-1 dance over code points at every UTF-8 length boundary and the surrogate gap edges
DanceCps == {0, 1, 127, 128, 255, 256, 2047, 2048, 55295, 57344, 65533, 65535, 65536, 1114111, 233, 128512}
DanceAll == \A s \in SeqsUpTo(DanceCps, 2) : DanceOK(s)
=============================================================================
