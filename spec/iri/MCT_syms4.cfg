CONSTANTS
  Variant = "fixed"
  Syms <- SymsSmall
  MaxLen = 4
  KindSet = {"path", "query", "frag", "user"}
INIT Init
NEXT Grow
INVARIANT Ascii
INVARIANT UIdem
INVARIANT IIdem
INVARIANT IUFix
INVARIANT UIFix
INVARIANT MeanU
INVARIANT MeanI
INVARIANT KeptI
INVARIANT Unquotes
