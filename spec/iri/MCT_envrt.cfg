CONSTANTS
  Variant = "fixed"
  FEVariant = "fixed"
  Syms <- SymsEnv
  MaxLen = 4
  Labels <- LabelsQ
  Mode = "env"
INIT Init
NEXT Grow
INVARIANT PathOK
INVARIANT ScriptOK
