CONSTANTS
  Variant = "fixed"
  UrlVariant = "code"
INIT Init
NEXT Next
POSTCONDITION Done
CHECK_DEADLOCK FALSE
