CONSTANTS
  Variant = "fixed"
  Syms <- SymsCharsSmall
  MaxLen = 0
  KindSet = {"path"}
INIT Init
NEXT Grow
INVARIANT DanceAll
